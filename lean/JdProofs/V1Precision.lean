/-
  JdProofs.V1Precision — property C17 (v1 API `lib/`), LIST reading, with the `SetPrecision(eps)`
  metadata, eps ≠ 0 allowed (JdProofs/V1ListDiffPatch.lean has precision 0 only; the top-level binary
  with -v2=false always passes `SetPrecision(*precision)`):

    patching `a` with `a.Diff(b, m...)`, directly or after `Render` and `ReadDiffString`, yields a
    document that `Equals` `b` WITH THE METADATA, and the diff is empty exactly when `Equals` (with
    the metadata) holds.

  Everything is about the LIBRARY functions of the v1 model (`Jd.V1.diffM`, `Jd.V1.patchM`,
  `Jd.V1.equals`, `Jd.V1.renderM`, `Jd.V1.readDiffM`) and the specification `equivB`; no reference
  interpreter in between. Namespace `Jd.V1Pr`. All three items of the task, no open goals.

  HOW v1 TREATS THE PRECISION (read from /repo/lib, the model follows it)
    * `jsonNumber.Equals` (number.go:33) compares `|n1 - n2| <= getPrecision(metadata)`; every
      container `Equals` passes the metadata down.
    * `diff` of diff_common.go:10 — scalars, void, null — calls `a.Equals(b, metadata...)` WITH the
      metadata (v2 calls it without the options: KF-C05-precision); the positional `jsonList.diff`
      (list.go:55-123) recurses into the elements at the same index and never compares them itself.
      So an element of `a` within `eps` of the element of `b` at the same position produces NO hunk.
    * the patch (`patch` of patch_common.go:58, `jsonList.patch` list.go:145) checks old values with
      `Equals(oldValue)` WITHOUT metadata, i.e. exactly. The old values of a diff are values of `a`
      itself, so the exact check succeeds (reflexivity at precision 0).
    Consequence: the patch always applies; the result `r` has the numbers of `a` wherever they were
    within `eps` of `b`'s and the numbers of `b` elsewhere. `r` `Equals` `b` with the metadata; it is
    in general NOT `Equal` to `b` without it and NOT structurally equal (`result_not_structural`).
    "Within eps" not being transitive does no harm here: every comparison the diff made is between
    an element of `a` and the element of `b` at the same place, and that is also what `Equals(r, b)`
    compares.

  DOMAIN
    * metadata: `ListReading m` (no SET, no MULTISET, no MERGE; any precision value; `setkeys`
      allowed) for the diff-empty equivalence; `PrecMode m` = `ListReading m` + the precision is a
      finite non-negative float64 (`nonnegBits (V1.precOf m)`) for diff-then-patch. Both decidable
      (`listReadingB`, `precModeB`). `ListMode m` of V1ListDiffPatch is the case precision 0
      (`PrecMode.of_listMode`).
    * documents: as in V1ListDiffPatch — `listDoc`, `wf`, `finiteNums`, `vfree`, `lenLe N a` with
      `IdxLaws N` (float64 list indices), `FloatLaws` (only `refl` at precision 0 for the old-value
      checks, `refl` at precision `eps` for the values a hunk writes, `symm` for the symmetric
      reading). NO new float law, no monotonicity (`DPL.PrecMono`) is needed: nothing compared at
      precision 0 is ever re-read at precision `eps` except a value against itself.

  MAIN RESULTS
    0. `v1_equals_eq` : `ListReading m → a.listDoc → V1.equals m a b = Jd.equals [.prec (V1.precOf m)] a b`
       (`optsOf m`): the v1 `Equals` with `SetPrecision(eps)` is the v2 `Equals` with `Precision(eps)`;
       `v1_equals_eq_equivB` (hence the specification `equivB (optsOf m)`), `v1_equals_refl`
       (`PrecMode`), `v1_equals_symm`.
    1. `v1_diff_patch_list_precision` (`PrecMode m`):
         ∃ r, V1.patchM a (V1.diffM m a b) = .ok r ∧ V1.equals m r b = true ∧ V1.equals m b r = true ∧
              equivB (optsOf m) r b = true ∧ r.listDoc = true ∧ r.wf = true
       from `diff_correct`, the mutual induction of V1ListDiffPatch re-done with the relation
       "structurally equal" (`DPL.Rel`) replaced by "`Equal` under the metadata" and with `wf` of the
       result tracked (`LW`) for the symmetric reading.
    2. `v1_diff_empty_iff_equals_precision` (`ListReading m`, ANY precision value, negative and NaN
       included; `a.rawDoc`, `b.listDoc`, both `wf`; no float law):
         V1.diffM m a b = [] ↔ V1.equals m a b = true
       BOTH directions hold in v1 — unlike v2 (`v1_v2_differ_on_precision`: same two numbers, the v1
       diff is empty, the v2 diff is not, both `Equals` say "equal").
    3. `v1_text_roundtrip_list_precision` (`PrecMode m`, `b` not void, `V1S.CodecOK`, render success):
         ∃ d' r, V1.readDiffM nc text = .ok d' ∧ V1.patchM a d' = .ok r ∧ V1.equals m r b = true ∧
                 equivB (optsOf m) r b = true
       It DOES follow from the existing round-trip theorem `V1S.v1_read_render` (the writer and the
       reader never see the metadata) and `V1S.sim_patchAll`; only `diff_vals` (the values of the
       hunks of a list diff) had to be re-done for `ListReading`.

  WITNESSES (relative to the float facts they need — `numWithin` is opaque to the kernel; the facts
  are `#eval`ed in `Example` and every run was replayed on /repo/lib)
    * `result_not_structural` : `numWithin eps x y`, not `numWithin 0 x y` (1, 1.05, eps 0.1) ⟹ the
      diff is empty, the patch returns `x`, `Equals` with metadata true, without metadata false,
      `specEq` false. So the conclusions `specEq r b` of `V1P.v1_diff_patch_list` and of
      `V1S.v1_text_roundtrip_list` are FALSE with a precision; "equal to b" in C17 can only be read as
      `Equals(b, SetPrecision(eps))`. Go: `patched=1 Equals(b,eps)=true Equals(b)=false`.
    * `precNN_needed` : `precNN` cannot be dropped from (1): when `numWithin eps x x` is false
      (eps = -1; the CLI accepts `-precision=-1`, `getPrecision` does not validate) the diff of `x`
      and `x` is `- x + x`, the patch applies and returns `x`, which is not `Equal` to `x` under the
      metadata. Go: `a=1 b=1 eps=-1: diff "@ []\n- 1\n+ 1\n" patched=1 Equals(b,eps)=false`.
      (2) still holds there (`Example`: the equivalence instantiated at -1).
    * `typed_result_diff_nonempty` / `typed_result_equals` : why (2) asks `a.rawDoc`; generalises
      `V1P.tag_witness`. OBSERVATION on the Go code: the header of V1ListDiffPatch says such a pair
      cannot be built through the public API; it can, by chained use — `Patch` returns a `jsonList`,
      and `r.Diff(b)` of `r := a.Patch(a.Diff(b))` against the freshly read `b` is the one-hunk
      diff `- [1,3] + [1,3]` although `r.Equals(b)` (list.go:57: `n.(jsonList)` without `dispatch`;
      `jsonArray.Diff` dispatches both sides, `jsonList.Diff` neither).
    * `Example`: `pA = [1,2,{"a":[1,5]}]`, `pB = [1.05,3,{"a":[0.95,5.01,7]}]`, eps 0.1 satisfy all
      hypotheses (`pHyps`, `eps_ok`); model and Go code both give the two hunks
      `[2,"a",-1] + 7`, `[1] - 2 + 3` and the result `[1,3,{"a":[1,5,7]}]`.

  NOT PROVED here: precision together with SET / MULTISET (the CLI refuses it; the hash codes ignore
  the precision) or with MERGE; an infinite precision (`nonnegBits` asks a finite one; `FloatLaws.refl`
  is stated for finite `eps`); the CLI layer.

  Technical note: sections 2–3 and 9 are ports of lemmas of V1ListDiffPatch / V1SetDiffPatch whose
  proofs take `ListMode m` but use only the array reading; they are re-proved here under the SAME
  short names for `ListReading m` (inside this namespace they shadow the `Jd.V1P` ones; the lemmas
  about the patch — sections 4–7 of V1ListDiffPatch — do not mention the metadata and are reused).
-/
import JdModel
import JdSpec
import JdProofs.EqualsList
import JdProofs.StrictPatch
import JdProofs.DiffPatchList
import JdProofs.Common
import JdProofs.PatchRender
import JdProofs.V1ListDiffPatch
import JdProofs.V1SetDiffPatch

namespace Jd.V1Pr
open Jd Jd.Spec Jd.DPL Jd.V1P

-- names that exist both in `Jd.DPL` (v2) and `Jd.V1P` (v1): the v1 ones are meant here
export Jd.V1P (DomK DomL Dom shift_path_ne_nil dom_arr diffKvs_cons apply_adds diffCommon_shift
  diffNode_scalar domK_cons patchObjChild_eq dom_obj addHunk patchListChild_eq diffNode_obj_other
  patchNode_void diffNode_obj_obj diffKvs_nil domL_cons)

/-! ## 0. list mode with a precision -/

/-- the list reading of arrays in v1: no SET, no MULTISET, no MERGE metadata; ANY precision metadata
    (whatever its value); a `setkeys` metadata is allowed (alone it leaves arrays lists in v1) -/
structure ListReading (m : V1.Metas) : Prop where
  noSet : V1.hasSet m = false
  noMset : V1.hasMset m = false
  noMerge : V1.hasMerge m = false

/-- the same as a Bool -/
def listReadingB (m : V1.Metas) : Bool := !V1.hasSet m && !V1.hasMset m && !V1.hasMerge m

theorem listReading_iff (m : V1.Metas) : ListReading m ↔ listReadingB m = true := by
  simp only [listReadingB, Bool.and_eq_true, Bool.not_eq_true']
  exact ⟨fun h => ⟨⟨h.noSet, h.noMset⟩, h.noMerge⟩, fun h => ⟨h.1.1, h.1.2, h.2⟩⟩

instance (m : V1.Metas) : Decidable (ListReading m) := decidable_of_iff _ (listReading_iff m).symm

theorem ListReading.tag {m : V1.Metas} (hm : ListReading m) : V1.dispatchTag m = .list := by
  simp [V1.dispatchTag, hm.noSet, hm.noMset]

/-- v1 metadata of the diff-then-patch theorems: the list reading, and the precision (the first
    precision metadata, +0 when there is none) is a finite non-negative float64 (`nonnegBits`: sign
    bit clear, exponent not all ones) -/
structure PrecMode (m : V1.Metas) : Prop where
  noSet : V1.hasSet m = false
  noMset : V1.hasMset m = false
  noMerge : V1.hasMerge m = false
  precNN : nonnegBits (V1.precOf m) = true

/-- the same as a Bool -/
def precModeB (m : V1.Metas) : Bool :=
  !V1.hasSet m && !V1.hasMset m && !V1.hasMerge m && nonnegBits (V1.precOf m)

theorem precMode_iff (m : V1.Metas) : PrecMode m ↔ precModeB m = true := by
  simp only [precModeB, Bool.and_eq_true, Bool.not_eq_true']
  exact ⟨fun h => ⟨⟨⟨h.noSet, h.noMset⟩, h.noMerge⟩, h.precNN⟩,
    fun h => ⟨h.1.1.1, h.1.1.2, h.1.2, h.2⟩⟩

instance (m : V1.Metas) : Decidable (PrecMode m) := decidable_of_iff _ (precMode_iff m).symm

theorem PrecMode.lr {m : V1.Metas} (hm : PrecMode m) : ListReading m :=
  ⟨hm.noSet, hm.noMset, hm.noMerge⟩

theorem PrecMode.prec (eps : UInt64) (h : nonnegBits eps = true) : PrecMode [.prec eps] :=
  ⟨rfl, rfl, rfl, h⟩

theorem ListReading.prec (eps : UInt64) : ListReading [.prec eps] := ⟨rfl, rfl, rfl⟩

theorem PrecMode.tag {m : V1.Metas} (hm : PrecMode m) : V1.dispatchTag m = .list := hm.lr.tag

/-- `ListMode` is the special case precision 0 -/
theorem PrecMode.of_listMode {m : V1.Metas} (hm : ListMode m) : PrecMode m :=
  ⟨hm.noSet, hm.noMset, hm.noMerge, by rw [hm.prec0]; exact nonnegBits_zero⟩

/-- the v2 options under which the specification `equivB` is read: the same precision, nothing else -/
def optsOf (m : V1.Metas) : Opts := [.prec (V1.precOf m)]

theorem optsOf_tag (m : V1.Metas) : dispatchTag (optsOf m) = .list := rfl
theorem optsOf_prec (m : V1.Metas) : precOf (optsOf m) = V1.precOf m := rfl

theorem effTag_ok {m : V1.Metas} (hm : ListReading m) {t : Tag} (ht : okTag t) :
    V1.effTag m t = .list := by
  cases t <;> simp_all [V1.effTag, hm.tag, okTag]

theorem dispatch_listDoc {m : V1.Metas} (hm : ListReading m) {b : Json} (hb : b.listDoc = true) :
    (V1.dispatch m b).listDoc = true := by
  cases b with
  | arr t ys => cases t <;> simp_all [V1.dispatch, hm.tag, Json.listDoc]
  | _ => simpa [V1.dispatch] using hb

/-! ## 1. the v1 `Equals` in list mode with precision `eps` is the v2 `Equals` with `Precision(eps)` -/

theorem v1_equals_arr {m : V1.Metas} (hm : ListReading m) {t : Tag} (ht : okTag t) (xs : List Json)
    (b : Json) :
    V1.equals m (.arr t xs) b =
      match b with
      | .arr .raw ys => V1.equalsList m xs ys
      | .arr .list ys => V1.equalsList m xs ys
      | _ => false := by
  rw [V1.equals.eq_def]
  simp only [effTag_ok hm ht]
  cases b with
  | arr t' ys => cases t' <;> simp [V1.dispatch, hm.tag]
  | _ => simp [V1.dispatch]

theorem v2_equals_arr (o : Opts) (ho : dispatchTag o = .list) {t : Tag} (ht : okTag t)
    (xs : List Json) (b : Json) :
    equals o (.arr t xs) b =
      match b with
      | .arr .raw ys => equalsList o xs ys
      | .arr .list ys => equalsList o xs ys
      | _ => false := by
  rw [equals.eq_def]
  have : effTag o t = .list := by cases t <;> simp_all [effTag, okTag]
  simp only [this]
  cases b with
  | arr t' ys => cases t' <;> simp [Json.dispatch, ho]
  | _ => simp [Json.dispatch]

mutual
theorem v1_equals_eq {m : V1.Metas} (hm : ListReading m) :
    ∀ (a b : Json), a.listDoc = true → V1.equals m a b = equals (optsOf m) a b
  | .void, b, _ => by simp [V1.equals, equals]
  | .null, b, _ => by simp [V1.equals, equals]
  | .bool x, b, _ => by cases b <;> simp [V1.equals, equals]
  | .num x, b, _ => by cases b <;> simp [V1.equals, equals, optsOf, precOf]
  | .str x, b, _ => by cases b <;> simp [V1.equals, equals]
  | .arr t xs, b, ha => by
    simp only [Json.listDoc, Bool.and_eq_true] at ha
    rw [v1_equals_arr hm ha.1, v2_equals_arr _ (optsOf_tag m) ha.1]
    cases b with
    | arr t' ys => cases t' <;> simp [v1_equalsList_eq hm xs ys ha.2]
    | _ => rfl
  | .obj kvs, b, ha => by
    simp only [Json.listDoc] at ha
    cases b with
    | obj kvs' => simp [V1.equals, equals, v1_equalsKvs_eq hm kvs kvs' ha]
    | _ => simp [V1.equals, equals]
theorem v1_equalsList_eq {m : V1.Metas} (hm : ListReading m) :
    ∀ (xs ys : List Json), listDocList xs = true →
      V1.equalsList m xs ys = equalsList (optsOf m) xs ys
  | [], ys, _ => by cases ys <;> simp [V1.equalsList, equalsList]
  | x :: xs, [], _ => by simp [V1.equalsList, equalsList]
  | x :: xs, y :: ys, ha => by
    simp only [listDocList, Bool.and_eq_true] at ha
    simp [V1.equalsList, equalsList, v1_equals_eq hm x y ha.1, v1_equalsList_eq hm xs ys ha.2]
theorem v1_equalsKvs_eq {m : V1.Metas} (hm : ListReading m) :
    ∀ (kvs kvs' : List (String × Json)), listDocKvs kvs = true →
      V1.equalsKvs m kvs kvs' = equalsKvs (optsOf m) kvs kvs'
  | [], _, _ => by simp [V1.equalsKvs, equalsKvs]
  | (k, v) :: r, kvs', ha => by
    simp only [listDocKvs, Bool.and_eq_true] at ha
    rw [V1.equalsKvs, equalsKvs, v1_equalsKvs_eq hm r kvs' ha.2]
    cases hl : alookup k kvs' with
    | none => rfl
    | some v' => simp [v1_equals_eq hm v v' ha.1]
end

/-- the v1 `Equals` in list mode with precision `eps` decides the specification `equivB` read with
    `Precision(eps)` (ordered lists, numbers within `eps`, array tags ignored) -/
theorem v1_equals_eq_equivB {m : V1.Metas} (hm : ListReading m) {a b : Json}
    (ha : a.listDoc = true) (hb : b.listDoc = true) :
    V1.equals m a b = equivB (optsOf m) a b := by
  rw [v1_equals_eq hm a b ha, equals_eq_equivB_list _ (optsOf_tag m) a b ha hb]

/-- reflexivity -/
theorem v1_equals_refl (L : FloatLaws) {m : V1.Metas} (hm : PrecMode m) (a : Json)
    (h1 : a.listDoc = true) (h2 : a.wf = true) (h3 : a.finiteNums = true) :
    V1.equals m a a = true := by
  rw [v1_equals_eq hm.lr a a h1]
  exact equals_refl_list L _ (optsOf_tag m) hm.precNN a h1 h2 h3

/-- symmetry -/
theorem v1_equals_symm (L : FloatLaws) {m : V1.Metas} (hm : ListReading m) (a b : Json)
    (ha : a.listDoc = true) (hb : b.listDoc = true) (hwa : a.wf = true) (hwb : b.wf = true) :
    V1.equals m a b = V1.equals m b a := by
  rw [v1_equals_eq hm a b ha, v1_equals_eq hm b a hb]
  exact equals_symm_list L _ (optsOf_tag m) a b ha hb hwa hwb

/-! ## 2. unfolding equations of the v1 diff and the induction principle (ported from
  JdProofs.V1ListDiffPatch: the proofs there take `ListMode m` but use only the array reading, so
  they go through for `ListReading m`, i.e. with any precision) -/

theorem diffNode_arr_arr {m : V1.Metas} (hm : ListReading m) {t t' : Tag} (xs ys : List Json)
    (ht : okTag t) (ht' : okTag t') (htt : t = .raw ∨ t' = .list) (p : List Json) :
    V1.diffNode m false (.arr t xs) (.arr t' ys) p = listDiff m p xs ys := by
  rw [V1.diffNode.eq_def]
  simp only [effTag_ok hm ht, listDiff]
  cases t <;> cases t' <;> simp_all [V1.dispatch, hm.tag, okTag]

theorem diffNode_arr_other {m : V1.Metas} (hm : ListReading m) {t : Tag} (xs : List Json) (b : Json)
    (ht : okTag t)
    (hb : (∀ t' ys, b ≠ .arr t' ys) ∨ (t = .list ∧ ∃ ys, b = .arr .raw ys)) (p : List Json) :
    V1.diffNode m false (.arr t xs) b p =
      [{ path := p, old := [Json.arr .list xs], new := b.nodeList }] := by
  rw [V1.diffNode.eq_def]
  simp only [effTag_ok hm ht]
  rcases hb with hb | ⟨rfl, ys, rfl⟩
  · cases t <;> cases b <;> simp_all [V1.dispatch, Json.nodeList, Json.isVoid, okTag]
  · simp [Json.nodeList, Json.isVoid]


section Induct
set_option linter.unusedSectionVars false
variable (m : V1.Metas) (hm : ListReading m)
  (mN : Json → Json → Prop) (mK : List (String × Json) → List (String × Json) → Prop)
  (mE : List Json → List Json → Prop)
  (arr_arr : ∀ t t' xs ys, okTag t → okTag t' → (t = .raw ∨ t' = .list) →
    listDocList xs = true → listDocList ys = true → mE ys xs → mN (.arr t xs) (.arr t' ys))
  (arr_other : ∀ t xs b, okTag t → listDocList xs = true → b.listDoc = true →
    ((∀ t' ys, b ≠ .arr t' ys) ∨ (t = .list ∧ ∃ ys, b = .arr .raw ys)) → mN (.arr t xs) b)
  (obj_obj : ∀ kvs kvs', listDocKvs kvs = true → listDocKvs kvs' = true → mK kvs' kvs →
    mN (.obj kvs) (.obj kvs'))
  (obj_other : ∀ kvs b, listDocKvs kvs = true → b.listDoc = true → (∀ kvs', b ≠ .obj kvs') →
    mN (.obj kvs) b)
  (scalar : ∀ a b, (∀ t xs, a ≠ .arr t xs) → (∀ kvs, a ≠ .obj kvs) → b.listDoc = true → mN a b)
  (kvs_nil : ∀ kvs', mK kvs' [])
  (kvs_cons : ∀ kvs' k v r, listDocKvs kvs' = true → v.listDoc = true → listDocKvs r = true →
    (∀ v', v'.listDoc = true → mN v v') → mK kvs' r → mK kvs' ((k, v) :: r))
  (el_nil : ∀ ys, mE ys [])
  (el_nil' : ∀ x xs, mE [] (x :: xs))
  (el_cons : ∀ x xs y ys, x.listDoc = true → listDocList xs = true → y.listDoc = true →
    listDocList ys = true → mN x (V1.dispatch m y) → mE ys xs → mE (y :: ys) (x :: xs))
include hm arr_arr arr_other obj_obj obj_other scalar kvs_nil kvs_cons el_nil el_nil' el_cons

mutual
theorem ind_node : ∀ (a b : Json), a.listDoc = true → b.listDoc = true → mN a b
  | .void, b, _, hb => scalar _ b (fun _ _ h => by cases h) (fun _ h => by cases h) hb
  | .null, b, _, hb => scalar _ b (fun _ _ h => by cases h) (fun _ h => by cases h) hb
  | .bool _, b, _, hb => scalar _ b (fun _ _ h => by cases h) (fun _ h => by cases h) hb
  | .num _, b, _, hb => scalar _ b (fun _ _ h => by cases h) (fun _ h => by cases h) hb
  | .str _, b, _, hb => scalar _ b (fun _ _ h => by cases h) (fun _ h => by cases h) hb
  | .arr t xs, b, ha, hb => by
    simp only [Json.listDoc, Bool.and_eq_true] at ha
    cases b with
    | arr t' ys =>
      have hb' := hb
      simp only [Json.listDoc, Bool.and_eq_true] at hb'
      by_cases htt : t = .raw ∨ t' = .list
      · exact arr_arr t t' xs ys ha.1 hb'.1 htt ha.2 hb'.2 (ind_elems xs ys ha.2 hb'.2)
      · refine arr_other t xs _ ha.1 ha.2 hb (.inr ?_)
        have h1 := ha.1; have h2 := hb'.1
        cases t <;> cases t' <;> simp_all [okTag]
    | _ => exact arr_other t xs _ ha.1 ha.2 hb (.inl (fun _ _ h => by cases h))
  | .obj kvs, b, ha, hb => by
    simp only [Json.listDoc] at ha
    cases b with
    | obj kvs' =>
      exact obj_obj kvs kvs' ha (by simpa [Json.listDoc] using hb)
        (ind_kvs kvs kvs' ha (by simpa [Json.listDoc] using hb))
    | _ => exact obj_other kvs _ ha hb (fun _ h => by cases h)
theorem ind_elems : ∀ (xs ys : List Json), listDocList xs = true → listDocList ys = true → mE ys xs
  | [], ys, _, _ => el_nil ys
  | x :: xs, [], _, _ => el_nil' x xs
  | x :: xs, y :: ys, ha, hb => by
    simp only [listDocList, Bool.and_eq_true] at ha hb
    exact el_cons x xs y ys ha.1 ha.2 hb.1 hb.2
      (ind_node x (V1.dispatch m y) ha.1 (dispatch_listDoc hm hb.1)) (ind_elems xs ys ha.2 hb.2)
theorem ind_kvs : ∀ (kvs kvs' : List (String × Json)), listDocKvs kvs = true →
    listDocKvs kvs' = true → mK kvs' kvs
  | [], kvs', _, _ => kvs_nil kvs'
  | (k, v) :: r, kvs', ha, hb => by
    simp only [listDocKvs, Bool.and_eq_true] at ha
    exact kvs_cons kvs' k v r hb ha.1 ha.2 (fun v' hv' => ind_node v v' ha.1 hv')
      (ind_kvs r kvs' ha.2 hb)
end

theorem v1_induct :
    (∀ a b, a.listDoc = true → b.listDoc = true → mN a b) ∧
    (∀ kvs' kvs, listDocKvs kvs' = true → listDocKvs kvs = true → mK kvs' kvs) ∧
    (∀ ys xs, listDocList ys = true → listDocList xs = true → mE ys xs) :=
  ⟨ind_node m hm mN mK mE arr_arr arr_other obj_obj obj_other scalar kvs_nil kvs_cons el_nil el_nil'
      el_cons,
   fun kvs' kvs h' h => ind_kvs m hm mN mK mE arr_arr arr_other obj_obj obj_other scalar kvs_nil
      kvs_cons el_nil el_nil' el_cons kvs kvs' h h',
   fun ys xs h' h => ind_elems m hm mN mK mE arr_arr arr_other obj_obj obj_other scalar kvs_nil
      kvs_cons el_nil el_nil' el_cons xs ys h h'⟩

end Induct

/-! ## 3. the path argument of the diff is only a prefix; shape of the hunks -/

theorem diff_shift (m : V1.Metas) (hm : ListReading m) :
    (∀ a b, a.listDoc = true → b.listDoc = true → ∀ p q,
      V1.diffNode m false a b (p ++ q) = (V1.diffNode m false a b q).map (shift p)) ∧
    (∀ kvs' kvs, listDocKvs kvs' = true → listDocKvs kvs = true → ∀ p q,
      V1.diffKvs m false (p ++ q) kvs' kvs = (V1.diffKvs m false q kvs' kvs).map (shift p)) ∧
    (∀ ys xs, listDocList ys = true → listDocList xs = true → ∀ i p q,
      V1.diffElems m false (p ++ q) i ys xs =
        (V1.diffElems m false q i ys xs).map (List.map (shift p))) := by
  apply v1_induct m hm
    (mN := fun a b => ∀ p q,
      V1.diffNode m false a b (p ++ q) = (V1.diffNode m false a b q).map (shift p))
    (mK := fun kvs' kvs => ∀ p q,
      V1.diffKvs m false (p ++ q) kvs' kvs = (V1.diffKvs m false q kvs' kvs).map (shift p))
    (mE := fun ys xs => ∀ i p q,
      V1.diffElems m false (p ++ q) i ys xs =
        (V1.diffElems m false q i ys xs).map (List.map (shift p)))
  · intro t t' xs ys ht ht' htt _ _ ih p q
    rw [diffNode_arr_arr hm xs ys ht ht' htt, diffNode_arr_arr hm xs ys ht ht' htt]
    exact listDiff_shift m p q xs ys (fun i => ih i p q)
  · intro t xs b ht _ _ hb p q
    rw [diffNode_arr_other hm xs b ht hb, diffNode_arr_other hm xs b ht hb]
    simp [shift]
  · intro kvs kvs' _ _ ih p q
    rw [diffNode_obj_obj, diffNode_obj_obj, ih]
    simp [shift, List.map_map, Function.comp_def]
  · intro kvs b _ _ hb p q
    rw [diffNode_obj_other m kvs b hb, diffNode_obj_other m kvs b hb]
    simp [shift]
  · intro a b h1 h2 _ p q
    rw [diffNode_scalar m a b h1 h2, diffNode_scalar m a b h1 h2, diffCommon_shift]
  · intro kvs' p q
    simp [diffKvs_nil]
  · intro kvs' k v r hl' _ _ ihN ihK p q
    rw [diffKvs_cons, diffKvs_cons, ihK, List.map_append]
    congr 1
    cases hlk : alookup k kvs' with
    | none => simp [shift]
    | some v' =>
      simp only []
      rw [List.append_assoc, ihN v' (alookup_listDoc hlk hl')]
  · intro ys i p q
    simp [diffElems_nil]
  · intro x xs i p q
    simp [diffElems_nil']
  · intro x xs y ys _ _ _ _ ihN ihE i p q
    rw [diffElems_cons, diffElems_cons, List.append_assoc, ihN, ihE]
    simp

/-- the diff computed under a path element is the diff computed at the root, moved -/
theorem diffNode_at {m : V1.Metas} (hm : ListReading m) (a b : Json) (ha : a.listDoc = true)
    (hb : b.listDoc = true) (e : Json) :
    V1.diffNode m false a b ([] ++ [e]) = (V1.diffNode m false a b []).map (shift [e]) := by
  have := (diff_shift m hm).1 a b ha hb [e] []
  simpa using this

/-- a path made of object keys and list indices -/
theorem diff_hunks (m : V1.Metas) (hm : ListReading m) :
    (∀ a b, a.listDoc = true → b.listDoc = true → ∀ h ∈ V1.diffNode m false a b [],
      HOK h ∧ (a.isVoid = false → b.isVoid = false → FOK h)) ∧
    (∀ kvs' kvs, listDocKvs kvs' = true → listDocKvs kvs = true →
      ∀ h ∈ V1.diffKvs m false [] kvs' kvs, HOK h ∧ h.path ≠ []) ∧
    (∀ ys xs, listDocList ys = true → listDocList xs = true → ∀ i,
      ∀ d ∈ V1.diffElems m false [] i ys xs, ∀ h ∈ d, HOK h ∧ h.path ≠ []) := by
  apply v1_induct m hm
    (mN := fun a b => ∀ h ∈ V1.diffNode m false a b [],
      HOK h ∧ (a.isVoid = false → b.isVoid = false → FOK h))
    (mK := fun kvs' kvs => ∀ h ∈ V1.diffKvs m false [] kvs' kvs, HOK h ∧ h.path ≠ [])
    (mE := fun ys xs => ∀ i, ∀ d ∈ V1.diffElems m false [] i ys xs, ∀ h ∈ d, HOK h ∧ h.path ≠ [])
  · intro t t' xs ys ht ht' htt _ _ ih h hmem
    rw [diffNode_arr_arr hm xs ys ht ht' htt] at hmem
    have key : HOK h ∧ h.path ≠ [] := by
      unfold listDiff at hmem
      split at hmem
      · rcases List.mem_append.1 hmem with hmem | hmem
        · obtain ⟨d, hd, hh⟩ := List.mem_flatten.1 hmem
          exact ih 0 d hd h hh
        · obtain ⟨y, _, rfl⟩ := List.mem_map.1 hmem
          exact ⟨⟨by simp [plain, V1.numNeg1], by simp, nodeList_length y⟩, by simp⟩
      · rcases List.mem_append.1 hmem with hmem | hmem
        · obtain ⟨xi, _, rfl⟩ := List.mem_map.1 hmem
          exact ⟨⟨by simp [plain, V1.numOfNat], nodeList_length _, by simp⟩, by simp⟩
        · obtain ⟨d, hd, hh⟩ := List.mem_flatten.1 hmem
          exact ih 0 d (List.mem_reverse.1 hd) h hh
    exact ⟨key.1, fun _ _ => .inl key.2⟩
  · intro t xs b ht _ _ hb h hmem
    rw [diffNode_arr_other hm xs b ht hb] at hmem
    simp only [List.mem_singleton] at hmem
    subst hmem
    refine ⟨⟨rfl, by simp, nodeList_length b⟩, fun _ hbv => .inr ⟨.arr .list xs, b, rfl, ?_, rfl, hbv⟩⟩
    exact nodeList_of_notVoid hbv
  · intro kvs kvs' _ _ ih h hmem
    rw [diffNode_obj_obj] at hmem
    have key : HOK h ∧ h.path ≠ [] := by
      rcases List.mem_append.1 hmem with hmem | hmem
      · exact ih h hmem
      · obtain ⟨kv, _, rfl⟩ := List.mem_map.1 hmem
        exact ⟨⟨by simp [plain], by simp, nodeList_length _⟩, by simp⟩
    exact ⟨key.1, fun _ _ => .inl key.2⟩
  · intro kvs b _ _ hb h hmem
    rw [diffNode_obj_other m kvs b hb] at hmem
    simp only [List.mem_singleton] at hmem
    subst hmem
    exact ⟨⟨rfl, by simp, by simp⟩, fun _ hbv => .inr ⟨.obj kvs, b, rfl, rfl, rfl, hbv⟩⟩
  · intro a b h1 h2 _ h hmem
    rw [diffNode_scalar m a b h1 h2] at hmem
    unfold V1.diffCommon at hmem
    split at hmem
    · cases hmem
    · simp only [Bool.false_eq_true, if_false, List.mem_singleton] at hmem
      subst hmem
      exact ⟨⟨rfl, nodeList_length a, nodeList_length b⟩, fun hav hbv =>
        .inr ⟨a, b, nodeList_of_notVoid hav, nodeList_of_notVoid hbv, hav, hbv⟩⟩
  · intro kvs' h hmem
    simp [diffKvs_nil] at hmem
  · intro kvs' k v r hl' hv _ ihN ihK h hmem
    rw [diffKvs_cons] at hmem
    rcases List.mem_append.1 hmem with hmem | hmem
    · cases hlk : alookup k kvs' with
      | none =>
        rw [hlk] at hmem
        simp only [List.mem_singleton] at hmem
        subst hmem
        exact ⟨⟨by simp [plain], nodeList_length v, by simp⟩, by simp⟩
      | some v' =>
        rw [hlk] at hmem
        simp only [] at hmem
        rw [diffNode_at hm v v' hv (alookup_listDoc hlk hl')] at hmem
        obtain ⟨h0, hh0, rfl⟩ := List.mem_map.1 hmem
        exact ⟨(ihN v' (alookup_listDoc hlk hl') h0 hh0).1.shift_str k, shift_path_ne_nil _ _⟩
    · exact ihK h hmem
  · intro ys i d hd
    simp [diffElems_nil] at hd
  · intro x xs i d hd
    simp [diffElems_nil'] at hd
  · intro x xs y ys hx _ hy _ ihN ihE i d hd h hh
    rw [diffElems_cons] at hd
    rcases List.mem_cons.1 hd with rfl | hd
    · rw [diffNode_at hm x _ hx (dispatch_listDoc hm hy)] at hh
      obtain ⟨h0, hh0, rfl⟩ := List.mem_map.1 hh
      exact ⟨(ihN h0 hh0).1.shift_num _, shift_path_ne_nil _ _⟩
    · exact ihE (i + 1) d hd h hh

/-! ## 4. `Equals` with the metadata: the lemmas the main induction needs -/

theorem dom_dispatch {m : V1.Metas} (hm : ListReading m) {y : Json} (h : Dom y) :
    Dom (V1.dispatch m y) := by
  cases y with
  | arr t ys =>
    rw [dom_arr] at h
    cases t <;> simp only [V1.dispatch, hm.tag] <;> first | exact dom_arr.2 ⟨rfl, h.2⟩ | exact dom_arr.2 h
  | _ => exact h

/-- `Equals` dispatches its argument itself -/
theorem v1_equals_dispatch {m : V1.Metas} (hm : ListReading m) (x y : Json) :
    V1.equals m x (V1.dispatch m y) = V1.equals m x y := by
  cases y with
  | arr t ys =>
    cases t with
    | raw =>
      simp only [V1.dispatch, hm.tag]
      cases x with
      | arr t' xs =>
        rw [V1.equals.eq_def, V1.equals.eq_def]
        simp [V1.dispatch, hm.tag]
      | _ => simp [V1.equals, Json.isVoid, Json.isNull]
    | _ => rfl
  | _ => rfl

/-- documents that are `Equal` are both void or both not -/
theorem v1_equals_isVoid (m : V1.Metas) {z v : Json} (h : V1.equals m z v = true) :
    z.isVoid = v.isVoid := by
  cases z with
  | void => simpa [V1.equals, Json.isVoid] using h.symm
  | arr t xs =>
    cases v with
    | void =>
      rw [V1.equals.eq_def] at h
      simp only [V1.dispatch] at h
      split at h <;> simp_all
    | _ => rfl
  | _ => cases v <;> simp_all [V1.equals, Json.isVoid, Json.isNull]

theorem v1_equals_self_prec (L : FloatLaws) {m : V1.Metas} (hm : PrecMode m) {x : Json}
    (h : Dom x) : V1.equals m x x = true :=
  v1_equals_refl L hm x h.good.listDoc h.good.wf h.good.fin

theorem v1_equalsList_self (L : FloatLaws) {m : V1.Metas} (hm : PrecMode m) :
    ∀ {xs : List Json}, DomL xs → V1.equalsList m xs xs = true
  | [], _ => by simp [V1.equalsList]
  | x :: r, h => by
    have h' := domL_cons.1 h
    simp [V1.equalsList, v1_equals_self_prec L hm h'.1.1, v1_equalsList_self L hm h'.2]

theorem v1_equalsList_append (m : V1.Metas) :
    ∀ {zs ys zs' ys' : List Json}, V1.equalsList m zs ys = true → V1.equalsList m zs' ys' = true →
      V1.equalsList m (zs ++ zs') (ys ++ ys') = true
  | [], [], _, _, _, h2 => h2
  | [], _ :: _, _, _, h1, _ => by simp [V1.equalsList] at h1
  | _ :: _, [], _, _, h1, _ => by simp [V1.equalsList] at h1
  | z :: zs, y :: ys, zs', ys', h1, h2 => by
    simp only [V1.equalsList, Bool.and_eq_true] at h1
    simp only [List.cons_append, V1.equalsList, Bool.and_eq_true]
    exact ⟨h1.1, v1_equalsList_append m h1.2 h2⟩

theorem v1_equals_arr_of_list {m : V1.Metas} (hm : ListReading m) {t t' : Tag} (ht : okTag t)
    (ht' : okTag t') {zs ys : List Json} (h : V1.equalsList m zs ys = true) :
    V1.equals m (.arr t zs) (.arr t' ys) = true := by
  rw [v1_equals_arr hm ht]
  cases t' <;> simp_all [okTag]

theorem v1_equalsKvs_of_forall (m : V1.Metas) (kvs' : List (String × Json)) :
    ∀ (r : List (String × Json)),
      (∀ k v, (k, v) ∈ r → ∃ v', alookup k kvs' = some v' ∧ V1.equals m v v' = true) →
      V1.equalsKvs m r kvs' = true
  | [], _ => by simp [V1.equalsKvs]
  | (k, v) :: r, h => by
    obtain ⟨v', hl, he⟩ := h k v List.mem_cons_self
    rw [V1.equalsKvs, hl]
    simp only [he, Bool.true_and]
    exact v1_equalsKvs_of_forall m kvs' r (fun k' v'' hm => h k' v'' (List.mem_cons_of_mem _ hm))

/-- two objects with sorted keys whose members are pointwise `Equal` are `Equal` -/
theorem v1_equals_obj (m : V1.Metas) {cur kvs' : List (String × Json)}
    (hs : keysSorted cur = true) (hs' : keysSorted kvs' = true)
    (h : ∀ k, match alookup k kvs' with
      | none => alookup k cur = none
      | some v' => ∃ z, alookup k cur = some z ∧ V1.equals m z v' = true) :
    V1.equals m (.obj cur) (.obj kvs') = true := by
  have hsub1 : cur.map Prod.fst ⊆ kvs'.map Prod.fst := by
    intro k hk
    rw [mem_keys_iff_lookup] at hk ⊢
    have := h k
    cases hl : alookup k kvs' with
    | none => rw [hl] at this; simp [this] at hk
    | some v' => rfl
  have hsub2 : kvs'.map Prod.fst ⊆ cur.map Prod.fst := by
    intro k hk
    rw [mem_keys_iff_lookup] at hk ⊢
    have := h k
    cases hl : alookup k kvs' with
    | none => simp [hl] at hk
    | some v' =>
      rw [hl] at this
      obtain ⟨z, hz, _⟩ := this
      simp [hz]
  have hlen : cur.length = kvs'.length := by
    have h1 := DPL.nodup_subset_length_le _ _ (keysSorted_nodup hs) hsub1
    have h2 := DPL.nodup_subset_length_le _ _ (keysSorted_nodup hs') hsub2
    simp only [List.length_map] at h1 h2
    omega
  simp only [V1.equals, Bool.and_eq_true, beq_iff_eq]
  refine ⟨hlen, v1_equalsKvs_of_forall m kvs' cur (fun k z hm => ?_)⟩
  have hz := alookup_of_mem hs hm
  have := h k
  cases hl : alookup k kvs' with
  | none => rw [hl] at this; simp [this] at hz
  | some v' =>
    rw [hl] at this
    obtain ⟨z', hz', hr⟩ := this
    rw [hz] at hz'
    cases hz'
    exact ⟨v', rfl, hr⟩

/-! ## 5. the main induction (the one of JdProofs.V1ListDiffPatch with "structurally equal" replaced
  by "`Equal` under the metadata": an element of `a` that the diff leaves in place is within the
  precision of the element of `b`; an element that a hunk writes is the element of `b`, `Equal` to
  itself because the precision is a finite non-negative number) -/

/-- what is known about the shape of the patched document: a list document with sorted unique keys -/
def LW (r : Json) : Prop := r.listDoc = true ∧ r.wf = true
def LWL (zs : List Json) : Prop := listDocList zs = true ∧ wfList zs = true

theorem dom_lw {x : Json} (h : Dom x) : LW x := ⟨h.good.listDoc, h.good.wf⟩

theorem wfList_append' : ∀ {xs ys : List Json}, wfList xs = true → wfList ys = true →
    wfList (xs ++ ys) = true
  | [], _, _, h => h
  | x :: r, ys, h1, h2 => by
    simp only [wfList, Bool.and_eq_true] at h1
    simp only [List.cons_append, wfList, Bool.and_eq_true]
    exact ⟨h1.1, wfList_append' h1.2 h2⟩

theorem wfKvs_of_lookup :
    ∀ (l : List (String × Json)), keysSorted l = true →
      (∀ k v, alookup k l = some v → v.wf = true) → wfKvs l = true
  | [], _, _ => rfl
  | (k, v) :: r, hs, h => by
    have hs' := keysSorted_cons_iff.1 hs
    simp only [wfKvs, Bool.and_eq_true]
    refine ⟨h k v (by simp [alookup]), wfKvs_of_lookup r hs'.2 (fun k1 v1 hl => ?_)⟩
    have hne : k1 ≠ k := fun e => String.lt_irrefl k (e ▸ hs'.1 k1 v1 (mem_of_alookup hl))
    exact h k1 v1 (by simpa [alookup, hne] using hl)

theorem lw_arr {t : Tag} {zs : List Json} (ht : okTag t) (h : LWL zs) : LW (.arr t zs) :=
  ⟨listDoc_arr ht h.1, by simpa [Json.wf] using h.2⟩

theorem diff_correct (L : FloatLaws) {N : Nat} (I : IdxLaws N) (m : V1.Metas) (hp : PrecMode m) :
    (∀ a b, a.listDoc = true → b.listDoc = true → Dom a → Dom b → lenLe N a = true →
      ∃ r, V1.patchAll a (V1.diffNode m false a b []) = .ok r ∧ V1.equals m r b = true ∧ LW r) ∧
    (∀ kvs' kvs, listDocKvs kvs' = true → listDocKvs kvs = true →
      DomK kvs → DomK kvs' → lenLeKvs N kvs = true →
      keysSorted kvs = true → ∀ cur, keysSorted cur = true →
      (∀ k v, (k, v) ∈ kvs → alookup k cur = some v) →
      ∃ cur', V1.patchAll (.obj cur) (V1.diffKvs m false [] kvs' kvs) = .ok (.obj cur') ∧
        keysSorted cur' = true ∧
        (∀ k0, (∀ v, (k0, v) ∉ kvs) → alookup k0 cur' = alookup k0 cur) ∧
        (∀ k v, (k, v) ∈ kvs → match alookup k kvs' with
          | none => alookup k cur' = none
          | some v' => ∃ z, alookup k cur' = some z ∧ V1.equals m z v' = true ∧ LW z)) ∧
    (∀ ys xs, listDocList ys = true → listDocList xs = true →
      DomL xs → DomL ys → lenLeList N xs = true →
      ∃ zs, V1.equalsList m zs (ys.take xs.length) = true ∧ LWL zs ∧
        ∀ i pre post t, okTag t → pre.length = i → i + xs.length ≤ N →
          (∃ t', okTag t' ∧
            V1.patchAll (.arr t (pre ++ (xs.take ys.length ++ post)))
              (V1.diffElems m false [] i ys xs).flatten = .ok (.arr t' (pre ++ (zs ++ post)))) ∧
          (∃ t', okTag t' ∧
            V1.patchAll (.arr t (pre ++ (xs.take ys.length ++ post)))
              (V1.diffElems m false [] i ys xs).reverse.flatten =
                .ok (.arr t' (pre ++ (zs ++ post))))) := by
  have hm := hp.lr
  apply v1_induct m hm
    (mN := fun a b => Dom a → Dom b → lenLe N a = true →
      ∃ r, V1.patchAll a (V1.diffNode m false a b []) = .ok r ∧ V1.equals m r b = true ∧ LW r)
    (mK := fun kvs' kvs => DomK kvs → DomK kvs' → lenLeKvs N kvs = true →
      keysSorted kvs = true → ∀ cur, keysSorted cur = true →
      (∀ k v, (k, v) ∈ kvs → alookup k cur = some v) →
      ∃ cur', V1.patchAll (.obj cur) (V1.diffKvs m false [] kvs' kvs) = .ok (.obj cur') ∧
        keysSorted cur' = true ∧
        (∀ k0, (∀ v, (k0, v) ∉ kvs) → alookup k0 cur' = alookup k0 cur) ∧
        (∀ k v, (k, v) ∈ kvs → match alookup k kvs' with
          | none => alookup k cur' = none
          | some v' => ∃ z, alookup k cur' = some z ∧ V1.equals m z v' = true ∧ LW z))
    (mE := fun ys xs => DomL xs → DomL ys → lenLeList N xs = true →
      ∃ zs, V1.equalsList m zs (ys.take xs.length) = true ∧ LWL zs ∧
        ∀ i pre post t, okTag t → pre.length = i → i + xs.length ≤ N →
          (∃ t', okTag t' ∧
            V1.patchAll (.arr t (pre ++ (xs.take ys.length ++ post)))
              (V1.diffElems m false [] i ys xs).flatten = .ok (.arr t' (pre ++ (zs ++ post)))) ∧
          (∃ t', okTag t' ∧
            V1.patchAll (.arr t (pre ++ (xs.take ys.length ++ post)))
              (V1.diffElems m false [] i ys xs).reverse.flatten =
                .ok (.arr t' (pre ++ (zs ++ post)))))
  · -- list against list: positional
    intro t t' xs ys ht ht' htt hlx hly ih ha hb hlen
    rw [diffNode_arr_arr hm xs ys ht ht' htt]
    have ha' := dom_arr.1 ha
    have hb' := dom_arr.1 hb
    simp only [lenLe, Bool.and_eq_true, decide_eq_true_eq] at hlen
    obtain ⟨zs, hrel, hld, hstep⟩ := ih ha'.2 hb'.2 hlen.2
    unfold listDiff
    split
    · next hlt =>
      -- the list grows: sub-diffs by increasing index, then the appends
      obtain ⟨⟨t1, ht1, hf⟩, _⟩ := hstep 0 [] [] t ht rfl (by omega)
      simp only [List.nil_append, List.append_nil] at hf
      rw [List.take_of_length_le (by omega)] at hf
      obtain ⟨t3, ht3, happ⟩ := apply_appends I (ys.drop xs.length) zs t1 ht1
        (fun w hw => ((hb'.2.drop _).of_mem hw).2)
      refine ⟨.arr t3 (zs ++ ys.drop xs.length), ?_, ?_, ?_⟩
      · rw [patchAll_append, hf]
        exact happ
      · have := v1_equalsList_append m hrel (v1_equalsList_self L hp (hb'.2.drop xs.length))
        rw [List.take_append_drop] at this
        exact v1_equals_arr_of_list hm ht3 ht' this
      · exact lw_arr ht3 ⟨listDocList_append.2 ⟨hld.1, (hb'.2.drop _).good.listDoc⟩,
          wfList_append' hld.2 (hb'.2.drop _).good.wf⟩
    · next hge =>
      -- the list does not grow: deletions from the back, then the sub-diffs by decreasing index
      have hle : ys.length ≤ xs.length := by omega
      obtain ⟨t3, ht3, hdel⟩ := apply_dels L I _ (xs.drop ys.length) (xs.take ys.length) t rfl ht
        (ha'.2.drop _) (by simp; omega)
      rw [List.take_append_drop, List.length_take, Nat.min_eq_left hle] at hdel
      obtain ⟨_, ⟨t4, ht4, hr⟩⟩ := hstep 0 [] [] t3 ht3 rfl (by omega)
      simp only [List.nil_append, List.append_nil] at hr
      refine ⟨.arr t4 zs, ?_, ?_, lw_arr ht4 hld⟩
      · rw [patchAll_append]
        have e : V1.patchAll (.arr t xs) (List.map (fun xi : Json × Nat =>
            ({ path := [] ++ [V1.numOfNat xi.2], old := xi.1.nodeList, new := [] } : V1.Hunk))
            ((xs.drop ys.length).zipIdx ys.length).reverse) = .ok (.arr t3 (xs.take ys.length)) := hdel
        rw [e]
        exact hr
      · rw [List.take_of_length_le hle] at hrel
        exact v1_equals_arr_of_list hm ht4 ht' hrel
  · -- list against something else: replaced as a whole
    intro t xs b ht hlx _ hb' ha hb _
    rw [diffNode_arr_other hm xs b ht hb']
    refine ⟨b, ?_, v1_equals_self_prec L hp hb, dom_lw hb⟩
    have he : V1.equals [] (.arr t xs) (Json.singleValue [Json.arr .list xs]) = true := by
      show V1.equals [] (.arr t xs) (.arr .list xs) = true
      rw [v1_equals_eq_specEq ListMode.nil ha.good.listDoc (listDoc_arr rfl hlx)]
      exact (Rel.arr (RelL.refl L (good_arr.1 ha.good).2) t .list).1
    rw [patch_root (.arr t xs) [.arr .list xs] b.nodeList ha.good.listDoc (by simp)
      (nodeList_length b) he]
    exact congrArg _ (single_nodeList b)
  · -- object against object
    intro kvs kvs' _ _ ih ha hb hlen
    have ha' := dom_obj.1 ha
    have hb' := dom_obj.1 hb
    simp only [lenLe] at hlen
    rw [diffNode_obj_obj]
    obtain ⟨cur1, h1, hs1, hother1, hmem1⟩ := ih ha'.2 hb'.2 hlen ha'.1 kvs ha'.1
      (fun k v hm => alookup_of_mem ha'.1 hm)
    obtain ⟨cur2, h2, hs2, hother2, hmem2⟩ := apply_adds (fun k => (alookup k kvs).isNone) kvs'
      hb'.1 hb'.2 cur1 hs1 (fun k v' _ hP => by
        have hk : alookup k kvs = none := by simpa using hP
        rw [hother1 k (fun v hm => by rw [alookup_of_mem ha'.1 hm] at hk; cases hk), hk])
    have hfin : ∀ k, match alookup k kvs' with
        | none => alookup k cur2 = none
        | some v' => ∃ z, alookup k cur2 = some z ∧ V1.equals m z v' = true ∧ LW z := ?_
    · refine ⟨.obj cur2, ?_, v1_equals_obj m hs2 hb'.1 (fun k => ?_), ?_⟩
      · rw [patchAll_append, h1]
        exact h2
      · have := hfin k
        cases hlk' : alookup k kvs' with
        | none => rw [hlk'] at this; exact this
        | some v' =>
          rw [hlk'] at this
          obtain ⟨z, hz, hr, _⟩ := this
          exact ⟨z, hz, hr⟩
      · have hz : ∀ k z, alookup k cur2 = some z → LW z := by
          intro k z hz
          have := hfin k
          cases hlk' : alookup k kvs' with
          | none => rw [hlk'] at this; rw [this] at hz; cases hz
          | some v' =>
            rw [hlk'] at this
            obtain ⟨z', hz', _, hl⟩ := this
            rw [hz] at hz'; cases hz'; exact hl
        refine ⟨?_, ?_⟩
        · simp only [Json.listDoc]
          exact listDocKvs_of_lookup cur2 hs2 (fun k z h => (hz k z h).1)
        · simp only [Json.wf, Bool.and_eq_true]
          exact ⟨hs2, wfKvs_of_lookup cur2 hs2 (fun k z h => (hz k z h).2)⟩
    · intro k
      cases hlk' : alookup k kvs' with
      | some v' =>
        simp only []
        have hm' := mem_of_alookup hlk'
        cases hlk : alookup k kvs with
        | none =>
          exact ⟨v', hmem2 k v' hm' (by simp [hlk]), v1_equals_self_prec L hp (hb'.2.of_mem hm').1,
            dom_lw (hb'.2.of_mem hm').1⟩
        | some v =>
          have := hmem1 k v (mem_of_alookup hlk)
          rw [hlk'] at this
          obtain ⟨z, hz, hr⟩ := this
          refine ⟨z, ?_, hr⟩
          rw [hother2 k (fun _ _ => by simp [hlk]), hz]
      | none =>
        simp only []
        rw [hother2 k (fun v' hm => by rw [alookup_of_mem hb'.1 hm] at hlk'; cases hlk')]
        cases hlk : alookup k kvs with
        | none =>
          rw [hother1 k (fun v hm => by rw [alookup_of_mem ha'.1 hm] at hlk; cases hlk), hlk]
        | some v =>
          have := hmem1 k v (mem_of_alookup hlk)
          rw [hlk'] at this
          exact this
  · -- object against something else
    intro kvs b _ _ hb' ha hb _
    rw [diffNode_obj_other m kvs b hb']
    refine ⟨b, ?_, v1_equals_self_prec L hp hb, dom_lw hb⟩
    rw [patch_root (.obj kvs) [.obj kvs] [b] ha.good.listDoc (by simp) (by simp)
      (by simpa [Json.singleValue] using v1_equals_self L ha)]
    rfl
  · -- scalars
    intro a b h1 h2 _ ha hb _
    rw [diffNode_scalar m a b h1 h2]
    unfold V1.diffCommon
    split
    · next he =>
      exact ⟨a, rfl, he, dom_lw ha⟩
    · refine ⟨b, ?_, v1_equals_self_prec L hp hb, dom_lw hb⟩
      simp only [Bool.false_eq_true, if_false]
      rw [patch_root a a.nodeList b.nodeList ha.good.listDoc (nodeList_length a) (nodeList_length b)
        (by rw [show Json.singleValue a.nodeList = a from single_nodeList a]; exact v1_equals_self L ha)]
      exact congrArg _ (single_nodeList b)
  · -- no member left
    intro kvs' _ _ _ _ cur hs _
    exact ⟨cur, by simp [diffKvs_nil, patchAll_nil], hs, fun _ _ => rfl, fun _ _ h => by cases h⟩
  · -- one member of the source
    intro kvs' k v r hl' hv _ ihN ihK ha hb hlen hsk cur hs hcur
    have ha' := domK_cons.1 ha
    have hsk' := keysSorted_cons_iff.1 hsk
    simp only [lenLeKvs, Bool.and_eq_true] at hlen
    have hx : alookup k cur = (if v.isVoid then none else some v) := by
      rw [hcur k v List.mem_cons_self, ha'.1.2]; rfl
    have hknr : ∀ w, (k, w) ∉ r := fun w hm => String.lt_irrefl k (hsk'.1 k w hm)
    -- the hunks for this member are hunks on the member, moved below the key
    have step : ∀ (D0 : V1.VDiff) (r0 : Json), (∀ h ∈ D0, HOK h) → V1.patchAll v D0 = .ok r0 →
        ((r0 = .void ∧ alookup k kvs' = none) ∨
          ∃ v', alookup k kvs' = some v' ∧ V1.equals m r0 v' = true ∧ LW r0) →
        ∃ cur', V1.patchAll (.obj cur)
            (D0.map (shift [.str k]) ++ V1.diffKvs m false [] kvs' r) = .ok (.obj cur') ∧
          keysSorted cur' = true ∧
          (∀ k0, (∀ v_1, (k0, v_1) ∉ (k, v) :: r) → alookup k0 cur' = alookup k0 cur) ∧
          (∀ k_1 v_1, (k_1, v_1) ∈ (k, v) :: r → match alookup k_1 kvs' with
            | none => alookup k_1 cur' = none
            | some v' => ∃ z, alookup k_1 cur' = some z ∧ V1.equals m z v' = true ∧ LW z) := by
      intro D0 r0 hD0 hr0 hres
      obtain ⟨cur1, g1, g2, g3, g4⟩ := patchAll_key_frame D0 hD0 k cur v hs hx r0 hr0
      obtain ⟨cur', f1, f2, f3, f4⟩ := ihK ha'.2 hb hlen.2 hsk'.2 cur1 g2 (fun k1 v1 hm => by
        have hne : k1 ≠ k := fun e => String.lt_irrefl k (e ▸ hsk'.1 k1 v1 hm)
        rw [g3 k1 hne]
        exact hcur k1 v1 (List.mem_cons_of_mem _ hm))
      refine ⟨cur', ?_, f2, ?_, ?_⟩
      · rw [patchAll_append, g1]
        exact f1
      · intro k0 hk0
        have hne : k0 ≠ k := fun e => hk0 v (e ▸ List.mem_cons_self)
        rw [f3 k0 (fun w hm => hk0 w (List.mem_cons_of_mem _ hm)), g3 k0 hne]
      · intro k1 v1 hm
        rcases List.mem_cons.1 hm with e | hm
        · cases e
          rw [f3 k hknr, g4]
          rcases hres with ⟨rfl, hlk⟩ | ⟨v', hlk, hres, hld⟩
          · rw [hlk]; rfl
          · rw [hlk]
            have hnv : r0.isVoid = false := by rw [v1_equals_isVoid m hres]; exact (hb.lookup hlk).2
            exact ⟨r0, by rw [hnv]; rfl, hres, hld⟩
        · exact f4 k1 v1 hm
    rw [diffKvs_cons]
    cases hlk : alookup k kvs' with
    | some v' =>
      have hv'l := alookup_listDoc hlk hl'
      obtain ⟨r0, h1, h2, h2'⟩ := ihN v' hv'l ha'.1.1 (hb.lookup hlk).1 hlen.1
      simp only []
      rw [diffNode_at hm v v' hv hv'l]
      exact step _ r0 (fun h hmem => ((diff_hunks m hm).1 v v' hv hv'l h hmem).1) h1
        (.inr ⟨v', hlk, h2, h2'⟩)
    | none =>
      simp only []
      have h1 : V1.patchAll v [{ path := [], old := v.nodeList, new := [] }] = .ok .void := by
        rw [patch_root v v.nodeList [] hv (nodeList_length v) (by simp)
          (by rw [show Json.singleValue v.nodeList = v from single_nodeList v]
              exact v1_equals_self L ha'.1.1)]
        rfl
      have := step _ .void (fun h hmem => by
        simp only [List.mem_singleton] at hmem; subst hmem
        exact ⟨rfl, nodeList_length v, by simp⟩) h1 (.inl ⟨rfl, hlk⟩)
      simpa [shift] using this
  · -- no element left in the source
    intro ys _ _ _
    refine ⟨[], by simp [V1.equalsList], ⟨rfl, rfl⟩, ?_⟩
    intro i pre post t ht _ _
    simp only [diffElems_nil, List.flatten_nil, List.reverse_nil, patchAll_nil, List.take_nil,
      List.nil_append]
    exact ⟨⟨t, ht, rfl⟩, ⟨t, ht, rfl⟩⟩
  · -- no element left in the target
    intro x xs _ _ _
    refine ⟨[], by simp [V1.equalsList], ⟨rfl, rfl⟩, ?_⟩
    intro i pre post t ht _ _
    simp only [diffElems_nil', List.flatten_nil, List.reverse_nil, patchAll_nil, List.length_nil,
      List.take_zero, List.nil_append]
    exact ⟨⟨t, ht, rfl⟩, ⟨t, ht, rfl⟩⟩
  · -- elements at the same index
    intro x xs y ys hx _ hy _ ihN ihE ha hb hlen
    have ha' := domL_cons.1 ha
    have hb' := domL_cons.1 hb
    simp only [lenLeList, Bool.and_eq_true] at hlen
    have hy' := dispatch_listDoc hm hy
    obtain ⟨r, hr, hrel0, hldr⟩ := ihN ha'.1.1 (dom_dispatch hm hb'.1.1) hlen.1
    obtain ⟨zs, hrel, hld, hstep⟩ := ihE ha'.2 hb'.2 hlen.2
    have hrel1 : V1.equals m r y = true := by rw [← v1_equals_dispatch hm]; exact hrel0
    have hD0 : ∀ h ∈ V1.diffNode m false x (V1.dispatch m y) [], HOK h ∧ FOK h := by
      intro h hmem
      have := (diff_hunks m hm).1 x _ hx hy' h hmem
      exact ⟨this.1, this.2 ha'.1.2 (by rw [dispatch_isVoid]; exact hb'.1.2)⟩
    refine ⟨r :: zs, by simp [V1.equalsList, hrel1, hrel], ⟨by simp [listDocList, hldr.1, hld.1], by simp [wfList, hldr.2, hld.2]⟩, ?_⟩
    intro i pre post t ht hi hN
    simp only [List.length_cons] at hN
    have hb : V1.floatToInt (Float.ofNat i).toBits = (i : Int) := I.nat i (by omega)
    rw [diffElems_cons, diffNode_at hm x _ hx hy']
    simp only [List.length_cons, List.take_succ_cons, List.cons_append, List.flatten_cons,
      List.reverse_cons, List.flatten_append, List.flatten_nil, List.append_nil]
    constructor
    · -- increasing index: this element first
      obtain ⟨t1, ht1, h1⟩ := patchAll_idx_frame _ hD0 _ i hb t
        (pre ++ x :: (xs.take ys.length ++ post)) x ht (by rw [← hi]; exact getElem?_mid' _ _ _) r hr
      rw [← hi, set_mid'] at h1
      obtain ⟨⟨t2, ht2, h2⟩, _⟩ := hstep (i + 1) (pre ++ [r]) post t1 ht1 (by simp [hi]) (by omega)
      refine ⟨t2, ht2, ?_⟩
      rw [patchAll_append]
      have e : V1.numOfNat i = .num (Float.ofNat i).toBits := rfl
      rw [e, ← hi, h1]
      simp only [Outcome.bind_ok]
      simpa [hi, List.append_assoc] using h2
    · -- decreasing index: this element last
      obtain ⟨_, ⟨t1, ht1, h1⟩⟩ := hstep (i + 1) (pre ++ [x]) post t ht (by simp [hi]) (by omega)
      obtain ⟨t2, ht2, h2⟩ := patchAll_idx_frame _ hD0 _ i hb t1
        (pre ++ x :: (zs ++ post)) x ht1 (by rw [← hi]; exact getElem?_mid' _ _ _) r hr
      rw [← hi, set_mid'] at h2
      refine ⟨t2, ht2, ?_⟩
      rw [patchAll_append]
      have e : V1.numOfNat i = .num (Float.ofNat i).toBits := rfl
      have h1' : V1.patchAll (.arr t (pre ++ x :: (xs.take ys.length ++ post)))
          (V1.diffElems m false [] (i + 1) ys xs).reverse.flatten =
          .ok (.arr t1 (pre ++ x :: (zs ++ post))) := by
        simpa [List.append_assoc] using h1
      rw [h1']
      simp only [Outcome.bind_ok]
      rw [e, ← hi]
      exact h2


/-! ## 6. C17 with `SetPrecision(eps)`, list reading: patching `a` with the v1 diff of `a` and `b`
  yields a document `Equal` to `b` under the same metadata -/

/-- **C17 (v1 API, list reading, strict strategy, full nesting, any finite non-negative precision).**
    For list documents `a`, `b` (well-formed, finite numbers, no void inside) and metadata without
    SET / MULTISET / MERGE whose precision `eps` is a finite non-negative float64:
    `a.Patch(a.Diff(b, m...))` succeeds and its result `Equals` `b` WITH the metadata, read from
    either side; equivalently it is `equivB`-equivalent to `b` under `Precision(eps)` (same shape,
    same keys, strings and booleans, numbers within `eps`); it is a list document with sorted
    unique keys. It is in general NOT structurally equal to `b`
    (`result_not_structural`). `IdxLaws N` / `lenLe N a` as in `V1P.v1_diff_patch_list`. -/
theorem v1_diff_patch_list_precision (L : FloatLaws) {N : Nat} (I : IdxLaws N) (m : V1.Metas)
    (hm : PrecMode m) (a b : Json)
    (ha1 : a.listDoc = true) (ha2 : a.wf = true) (ha3 : a.finiteNums = true) (ha4 : vfree a = true)
    (ha5 : lenLe N a = true)
    (hb1 : b.listDoc = true) (hb2 : b.wf = true) (hb3 : b.finiteNums = true) (hb4 : vfree b = true) :
    ∃ r, V1.patchM a (V1.diffM m a b) = .ok r ∧ V1.equals m r b = true ∧
      V1.equals m b r = true ∧ equivB (optsOf m) r b = true ∧ r.listDoc = true ∧ r.wf = true := by
  obtain ⟨r, h1, h2, h3⟩ := (diff_correct L I m hm).1 a b ha1 hb1 (Dom.mk' ha1 ha2 ha3 ha4)
    (Dom.mk' hb1 hb2 hb3 hb4) ha5
  refine ⟨r, ?_, h2, ?_, ?_, h3.1, h3.2⟩
  · simp only [V1.patchM, V1.diffM, hm.noMerge]
    exact h1
  · rw [v1_equals_symm L hm.lr b r hb1 h3.1 hb2 h3.2]
    exact h2
  · rw [← v1_equals_eq_equivB hm.lr h3.1 hb1]
    exact h2

/-! ## 7. the v1 diff is empty exactly when `Equals` (with the metadata) holds -/

theorem diff_empty (m : V1.Metas) (hm : ListReading m) :
    (∀ a b, a.listDoc = true → b.listDoc = true → a.rawDoc = true → a.wf = true → b.wf = true →
      (V1.diffNode m false a b [] = [] ↔ V1.equals m a b = true)) ∧
    (∀ kvs' kvs, listDocKvs kvs' = true → listDocKvs kvs = true →
      rawDocKvs kvs = true → wfKvs kvs = true → wfKvs kvs' = true →
      (V1.diffKvs m false [] kvs' kvs = [] ↔ V1.equalsKvs m kvs kvs' = true)) ∧
    (∀ ys xs, listDocList ys = true → listDocList xs = true →
      rawDocList xs = true → wfList xs = true → wfList ys = true → xs.length = ys.length →
      ∀ i, ((∀ d ∈ V1.diffElems m false [] i ys xs, d = []) ↔ V1.equalsList m xs ys = true)) := by
  apply v1_induct m hm
    (mN := fun a b => a.rawDoc = true → a.wf = true → b.wf = true →
      (V1.diffNode m false a b [] = [] ↔ V1.equals m a b = true))
    (mK := fun kvs' kvs => rawDocKvs kvs = true → wfKvs kvs = true → wfKvs kvs' = true →
      (V1.diffKvs m false [] kvs' kvs = [] ↔ V1.equalsKvs m kvs kvs' = true))
    (mE := fun ys xs => rawDocList xs = true → wfList xs = true → wfList ys = true →
      xs.length = ys.length →
      ∀ i, ((∀ d ∈ V1.diffElems m false [] i ys xs, d = []) ↔ V1.equalsList m xs ys = true))
  · -- list against list
    intro t t' xs ys ht ht' htt _ _ ih hr hw hw'
    simp only [Json.rawDoc, Bool.and_eq_true] at hr
    simp only [Json.wf] at hw hw'
    rw [diffNode_arr_arr hm xs ys ht ht' htt, v1_equals_arr hm ht]
    have hrhs : (match Json.arr t' ys with
        | .arr .raw ys => V1.equalsList m xs ys
        | .arr .list ys => V1.equalsList m xs ys
        | _ => false) = V1.equalsList m xs ys := by
      cases t' <;> simp_all [okTag]
    rw [hrhs]
    unfold listDiff
    split
    · next hlt =>
      constructor
      · intro h
        have := (List.append_eq_nil_iff.1 h).2
        rw [List.map_eq_nil_iff, List.drop_eq_nil_iff] at this
        omega
      · intro h
        have := v1_equalsList_length m xs ys h
        omega
    · next hge =>
      constructor
      · intro h
        have h' := List.append_eq_nil_iff.1 h
        have h1 := h'.1
        rw [List.map_eq_nil_iff, List.reverse_eq_nil_iff] at h1
        have hlen : xs.length = ys.length := by
          have : ((xs.drop ys.length).zipIdx ys.length).length = 0 := by rw [h1]; rfl
          simp only [List.length_zipIdx, List.length_drop] at this
          omega
        refine (ih hr.2 hw hw' hlen 0).1 (fun d hd => ?_)
        exact List.flatten_eq_nil_iff.1 h'.2 d (List.mem_reverse.2 hd)
      · intro h
        have hlen := v1_equalsList_length m xs ys h
        have h2 := (ih hr.2 hw hw' hlen 0).2 h
        rw [List.append_eq_nil_iff]
        constructor
        · rw [List.drop_of_length_le (by omega)]; rfl
        · exact List.flatten_eq_nil_iff.2 (fun d hd => h2 d (List.mem_reverse.1 hd))
  · -- list against something else
    intro t xs b ht _ _ hb' hr _ _
    simp only [Json.rawDoc, Bool.and_eq_true, beq_iff_eq] at hr
    rw [diffNode_arr_other hm xs b ht hb', v1_equals_arr hm ht]
    rcases hb' with hb' | ⟨rfl, _⟩
    · cases b with
      | arr t' ys => exact absurd rfl (hb' t' ys)
      | _ => simp
    · cases hr.1
  · -- object against object
    intro kvs kvs' _ _ ih hr hw hw'
    simp only [Json.rawDoc] at hr
    simp only [Json.wf, Bool.and_eq_true] at hw hw'
    rw [diffNode_obj_obj, V1.equals, List.append_eq_nil_iff, List.map_eq_nil_iff, Bool.and_eq_true,
      ih hr hw.2 hw'.2, filter_isNone_eq_nil_iff, beq_iff_eq]
    constructor
    · rintro ⟨h1, h2⟩
      refine ⟨?_, h1⟩
      have l1 := nodup_subset_length_le _ _ (keysSorted_nodup hw.1) (v1_equalsKvs_keys m kvs' kvs h1)
      have l2 := nodup_subset_length_le _ _ (keysSorted_nodup hw'.1) h2
      simp only [List.length_map] at l1 l2
      omega
    · rintro ⟨h1, h2⟩
      refine ⟨h2, ?_⟩
      exact subset_of_nodup_subset_length _ _ (keysSorted_nodup hw.1) (v1_equalsKvs_keys m kvs' kvs h2)
        (by simp [h1])
  · -- object against something else
    intro kvs b _ _ hb' _ _ _
    rw [diffNode_obj_other m kvs b hb']
    cases b with
    | obj kvs' => exact absurd rfl (hb' kvs')
    | _ => simp [V1.equals]
  · -- scalars
    intro a b h1 h2 _ _ _ _
    rw [diffNode_scalar m a b h1 h2]
    unfold V1.diffCommon
    split
    · next he => simp [he]
    · next he => simp [he]
  · intro kvs' _ _ _
    simp [diffKvs_nil, V1.equalsKvs]
  · intro kvs' k v r hl' hv _ ihN ihK hr hw hw'
    simp only [rawDocKvs, wfKvs, Bool.and_eq_true] at hr hw
    rw [diffKvs_cons, V1.equalsKvs, List.append_eq_nil_iff, Bool.and_eq_true, ihK hr.2 hw.2 hw']
    cases hlk : alookup k kvs' with
    | none => simp
    | some v' =>
      simp only []
      rw [diffNode_at hm v v' hv (alookup_listDoc hlk hl'), List.map_eq_nil_iff,
        ihN v' (alookup_listDoc hlk hl') hr.1 hw.1 (alookup_wf hlk hw')]
  · intro ys _ _ _ hlen i
    have : ys = [] := List.length_eq_zero_iff.1 hlen.symm
    subst this
    simp [diffElems_nil, V1.equalsList]
  · intro x xs _ _ _ hlen
    simp at hlen
  · intro x xs y ys hx _ hy _ ihN ihE hr hw hw' hlen i
    simp only [rawDocList, wfList, Bool.and_eq_true] at hr hw hw'
    simp only [List.length_cons, Nat.add_right_cancel_iff] at hlen
    rw [diffElems_cons, V1.equalsList, Bool.and_eq_true, List.forall_mem_cons,
      ihE hr.2 hw.2 hw'.2 hlen (i + 1), diffNode_at hm x _ hx (dispatch_listDoc hm hy),
      List.map_eq_nil_iff, ihN hr.1 hw.1 (by rw [dispatch_wf]; exact hw'.1),
      v1_equals_dispatch hm x (y)]

/-- **C17, second half (v1 API, list reading, ANY precision metadata — whatever its value).** For
    documents as the readers produce them (`a` with plain `jsonArray` nodes only, `b` a list
    document), well-formed: the diff is empty exactly when `Equals` (with the same metadata) holds.
    BOTH directions: the v1 `diff` of scalars calls `a.Equals(b, metadata...)` WITH the metadata
    (diff_common.go), unlike v2 whose `Diff` ignores the precision (KF-C05-precision). No float law,
    no hypothesis on numbers, void or lengths. -/
theorem v1_diff_empty_iff_equals_precision (m : V1.Metas) (hm : ListReading m) (a b : Json)
    (ha1 : a.rawDoc = true) (ha2 : a.wf = true) (hb1 : b.listDoc = true) (hb2 : b.wf = true) :
    V1.diffM m a b = [] ↔ V1.equals m a b = true := by
  simp only [V1.diffM, hm.noMerge]
  exact (diff_empty m hm).1 a b (rawDoc_listDoc a ha1) hb1 ha1 ha2 hb2


/-! ## 8. witnesses (relative to the float facts they need: `numWithin` is opaque to the kernel; the
  facts are checked by `#eval` below and the runs were replayed on /repo/lib) -/

/-- **the patched document is `Equal` to the target under the metadata, NOT structurally equal.**
    Two numbers within `eps` of each other that are not equal (e.g. `1`, `1.05`, `eps = 0.1`): the
    v1 diff is EMPTY (`diff` of diff_common.go calls `a.Equals(b, metadata...)`), `a.Patch` of the
    empty diff is `a`; `a` `Equals` `b` with the metadata, but not without, and not `specEq`. So
    with a precision the conclusion `specEq r b` of `V1P.v1_diff_patch_list` is false, and "equal
    to b" in C17 can only mean `Equals(b, SetPrecision(eps))`. -/
theorem result_not_structural (eps x y : UInt64) (h1 : numWithin eps x y = true)
    (h0 : numWithin 0 x y = false) :
    V1.diffM [.prec eps] (.num x) (.num y) = [] ∧
    V1.patchM (.num x) (V1.diffM [.prec eps] (.num x) (.num y)) = .ok (.num x) ∧
    V1.equals [.prec eps] (.num x) (.num y) = true ∧
    V1.equals [] (.num x) (.num y) = false ∧ specEq (.num x) (.num y) = false := by
  have hd : V1.diffM [.prec eps] (.num x) (.num y) = [] := by
    simp only [V1.diffM, V1.hasMerge]
    rw [diffNode_scalar _ _ _ (fun _ _ h => by cases h) (fun _ h => by cases h)]
    simp [V1.diffCommon, V1.equals, V1.precOf, h1]
  refine ⟨hd, ?_, ?_, ?_, ?_⟩
  · rw [hd]; rfl
  · simpa [V1.equals, V1.precOf] using h1
  · simpa [V1.equals, V1.precOf] using h0
  · simpa [specEq, equivB, precOf] using h0

/-- **`precNN` (the precision is not negative) cannot be dropped** from
    `v1_diff_patch_list_precision`: with a precision `eps` such that `|x - x| ≤ eps` is false (any
    negative `eps`, or NaN; the CLI accepts `-precision=-1`), the diff of `x` and `x` is the hunk
    `- x + x`, the patch applies (it compares the old value WITHOUT the metadata) and returns `x`,
    which is not `Equal` to `x` under the metadata. -/
theorem precNN_needed (eps x : UInt64) (h0 : numWithin 0 x x = true)
    (hneg : numWithin eps x x = false) :
    V1.diffM [.prec eps] (.num x) (.num x) = [{ path := [], old := [.num x], new := [.num x] }] ∧
    V1.patchM (.num x) (V1.diffM [.prec eps] (.num x) (.num x)) = .ok (.num x) ∧
    V1.equals [.prec eps] (.num x) (.num x) = false := by
  have hd : V1.diffM [.prec eps] (.num x) (.num x) =
      [{ path := [], old := [.num x], new := [.num x] }] := by
    simp only [V1.diffM, V1.hasMerge]
    rw [diffNode_scalar _ _ _ (fun _ _ h => by cases h) (fun _ h => by cases h)]
    simp [V1.diffCommon, V1.equals, V1.precOf, hneg, Json.nodeList, Json.isVoid]
  refine ⟨hd, ?_, by simpa [V1.equals, V1.precOf] using hneg⟩
  rw [hd]
  exact patch_root (.num x) [.num x] [.num x] rfl (by simp) (by simp)
    (by simpa [V1.equals, V1.precOf, Json.singleValue] using h0)

/-- a `jsonList`-typed array (what `Patch` RETURNS for a patched array) diffed against a plain
    `jsonArray` with the same elements (what the readers produce): one wholesale replacement hunk,
    whatever the elements and the precision — `jsonList.diff` type-asserts its argument to `jsonList`
    without dispatching it (lib/list.go:57). Generalises `V1P.tag_witness`; this is why
    `v1_diff_empty_iff_equals_precision` asks `a.rawDoc`. REPLAYED on /repo/lib: for `a = [1,2]`,
    `b = [1,3]`, `r, _ := a.Patch(a.Diff(b))` is a `jd.jsonList`, `r.Equals(b)` is true and
    `r.Diff(b)` renders `@ []\n- [1,3]\n+ [1,3]\n` (`b.Diff(r)` is empty) — so the pair IS reachable
    through the public API, by chained use. -/
theorem typed_result_diff_nonempty {m : V1.Metas} (hm : ListReading m) (xs ys : List Json) :
    V1.diffM m (.arr .list xs) (.arr .raw ys) =
      [{ path := [], old := [.arr .list xs], new := [.arr .raw ys] }] := by
  simp only [V1.diffM, hm.noMerge]
  rw [diffNode_arr_other hm xs _ rfl (.inr ⟨rfl, ys, rfl⟩)]
  simp [Json.nodeList, Json.isVoid]

/-- … although `Equals` holds whenever the elements are `Equal` -/
theorem typed_result_equals {m : V1.Metas} (hm : ListReading m) (xs ys : List Json)
    (h : V1.equalsList m xs ys = true) : V1.equals m (.arr .list xs) (.arr .raw ys) = true :=
  v1_equals_arr_of_list hm rfl rfl h

/-- **v1 and v2 differ on precision**: for two numbers within `eps` but not equal, the v1 diff with
    `SetPrecision(eps)` is empty while the v2 diff with `Precision(eps)` is not (v2's `diff` calls
    `Equals` without the options: `Jd.precision_counterwitness` of JdProofs.DiffEmpty, KF-C05-precision); both `Equals`
    say "equal". -/
theorem v1_v2_differ_on_precision (eps x y : UInt64) (h1 : numWithin eps x y = true)
    (h0 : numWithin 0 x y = false) :
    V1.diffM [.prec eps] (.num x) (.num y) = [] ∧ Jd.diffM [.prec eps] (.num x) (.num y) ≠ [] ∧
    V1.equals [.prec eps] (.num x) (.num y) = true ∧
    Jd.equals [.prec eps] (.num x) (.num y) = true :=
  ⟨(result_not_structural eps x y h1 h0).1, (Jd.precision_counterwitness eps x y h1 h0).2,
    (result_not_structural eps x y h1 h0).2.2.1, (Jd.precision_counterwitness eps x y h1 h0).1⟩

namespace Example
open Jd.V1P.Example (exA exB one two)

/-- `0.1` -/
def eps : UInt64 := 0x3FB999999999999A
/-- `1.05` -/
def x105 : UInt64 := 0x3FF0CCCCCCCCCCCD
/-- `-1.0` -/
def epsNeg : UInt64 := 0xBFF0000000000000

-- the float facts of the witnesses: |1 - 1.05| ≤ 0.1, not ≤ 0; |1 - 1| ≤ 0, not ≤ -1
#eval (numWithin eps 0x3FF0000000000000 x105, numWithin 0 0x3FF0000000000000 x105)
#eval (numWithin 0 0x3FF0000000000000 0x3FF0000000000000,
       numWithin epsNeg 0x3FF0000000000000 0x3FF0000000000000)

theorem eps_ok : PrecMode [.prec eps] := PrecMode.prec eps (by decide)
theorem epsNeg_not_ok : ¬ PrecMode [.prec epsNeg] := by decide

/-- `[1,2,{"a":[1,5]}]` -/
def pA : Json := .arr .raw [one, two, .obj [("a", .arr .raw [one, .num 0x4014000000000000])]]
/-- `[1.05,3,{"a":[0.95,5.01,7]}]` -/
def pB : Json := .arr .raw [.num x105, .num 0x4008000000000000,
  .obj [("a", .arr .raw [.num 0x3FEE666666666666, .num 0x40140A3D70A3D70A, .num 0x401C000000000000])]]

-- the model on `pA` → `pB` with precision 0.1: two hunks (`[2,"a",-1] + 7`, `[1] - 2 + 3`), the
-- result keeps 1, 1 and 5 of the source: `[1,3,{"a":[1,5,7]}]` — the same as the Go code
-- (/repo/lib, replayed: `patched=[1,3,{"a":[1,5,7]}] Equals(b,eps)=true Equals(b)=false`)
#eval (V1.diffM [.prec eps] pA pB).map (fun h => (h.path, h.old, h.new))
#eval V1.patchM pA (V1.diffM [.prec eps] pA pB)
#eval match V1.patchM pA (V1.diffM [.prec eps] pA pB) with
  | .ok r => some (V1.equals [.prec eps] r pB, V1.equals [] r pB)
  | _ => none
-- the pair of JdProofs.V1ListDiffPatch has no two numbers within 0.1: the same 9 hunks as without precision
#eval (V1.diffM [.prec eps] exA exB).length

set_option maxRecDepth 8000 in
theorem pHyps :
    pA.listDoc = true ∧ pA.wf = true ∧ pA.finiteNums = true ∧ vfree pA = true ∧ lenLe 8 pA = true ∧
    pB.listDoc = true ∧ pB.wf = true ∧ pB.finiteNums = true ∧ vfree pB = true := by
  decide

/-- non-vacuity on a pair where the precision matters (numbers of `pA` stay in the result) -/
example (L : FloatLaws) (I : IdxLaws 8) :
    ∃ r, V1.patchM pA (V1.diffM [.prec eps] pA pB) = .ok r ∧
      V1.equals [.prec eps] r pB = true := by
  obtain ⟨h1, h2, h3, h4, h5, h6, h7, h8, h9⟩ := pHyps
  obtain ⟨r, hr, e, _⟩ :=
    v1_diff_patch_list_precision L I _ eps_ok pA pB h1 h2 h3 h4 h5 h6 h7 h8 h9
  exact ⟨r, hr, e⟩

/-- non-vacuity of `v1_diff_patch_list_precision`: the pair of JdProofs.V1ListDiffPatch (nested lists
    and objects, growing and shrinking) with the metadata `SetPrecision(0.1)` -/
example (L : FloatLaws) (I : IdxLaws 8) :
    ∃ r, V1.patchM exA (V1.diffM [.prec eps] exA exB) = .ok r ∧
      V1.equals [.prec eps] r exB = true := by
  obtain ⟨h1, h2, h3, h4, h5, h6, h7, h8, h9, _⟩ := V1P.Example.hyps
  obtain ⟨r, hr, e, _⟩ :=
    v1_diff_patch_list_precision L I _ eps_ok exA exB h1 h2 h3 h4 h5 h6 h7 h8 h9
  exact ⟨r, hr, e⟩

/-- non-vacuity of `v1_diff_empty_iff_equals_precision` (here with the NEGATIVE precision: the
    equivalence does not depend on the value) -/
example : V1.diffM [.prec epsNeg] exA exB = [] ↔ V1.equals [.prec epsNeg] exA exB = true :=
  v1_diff_empty_iff_equals_precision _ (ListReading.prec epsNeg) exA exB (by decide) (by decide)
    (by decide) (by decide)

end Example

/-! ## 9. the text round trip (`Render`, then `ReadDiffString`) of a list diff with a precision -/

section Text
open Jd.V1S (VH vh_root vfreeList_mem vfreeKvs_mem vfree_dispatch listDocList_mem CodecOK
  v1_read_render wfHunk_plain sim_patchAll Rl RelO)

/-- the values of the hunks of a list-mode diff -/
theorem diff_vals (m : V1.Metas) (hm : ListReading m) :
    (∀ a b, a.listDoc = true → b.listDoc = true → vfree a = true → vfree b = true →
      b.isVoid = false → ∀ h ∈ V1.diffNode m false a b [], VH h) ∧
    (∀ kvs' kvs, listDocKvs kvs' = true → listDocKvs kvs = true → vfreeKvs kvs' = true →
      vfreeKvs kvs = true → ∀ h ∈ V1.diffKvs m false [] kvs' kvs, VH h) ∧
    (∀ ys xs, listDocList ys = true → listDocList xs = true → vfreeList ys = true →
      vfreeList xs = true → ∀ i, ∀ d ∈ V1.diffElems m false [] i ys xs, ∀ h ∈ d, VH h) := by
  have := v1_induct m hm
    (mN := fun a b => vfree a = true → vfree b = true → b.isVoid = false →
      ∀ h ∈ V1.diffNode m false a b [], VH h)
    (mK := fun kvs' kvs => vfreeKvs kvs' = true → vfreeKvs kvs = true →
      ∀ h ∈ V1.diffKvs m false [] kvs' kvs, VH h)
    (mE := fun ys xs => vfreeList ys = true → vfreeList xs = true →
      ∀ i, ∀ d ∈ V1.diffElems m false [] i ys xs, ∀ h ∈ d, VH h)
    ?_ ?_ ?_ ?_ ?_ ?_ ?_ ?_ ?_ ?_
  · exact ⟨fun a b ha hb => this.1 a b ha hb, fun kvs' kvs h' h => this.2.1 kvs' kvs h' h,
      fun ys xs h' h => this.2.2 ys xs h' h⟩
  · intro t t' xs ys ht ht' htt hlx hly ih va vb _ h hmem
    have vxs : vfreeList xs = true := by simpa [vfree] using va
    have vys : vfreeList ys = true := by simpa [vfree] using vb
    rw [diffNode_arr_arr hm xs ys ht ht' htt] at hmem
    unfold V1P.listDiff at hmem
    split at hmem
    · rcases List.mem_append.1 hmem with hmem | hmem
      · obtain ⟨d, hd, hh⟩ := List.mem_flatten.1 hmem
        exact ih vys vxs 0 d hd h hh
      · obtain ⟨y, hy, rfl⟩ := List.mem_map.1 hmem
        have hy' := List.mem_of_mem_drop hy
        have := vh_root (a := .void) (b := y) rfl (listDocList_mem hly hy')
          (by simp [(vfreeList_mem vys hy').1]) ([] ++ [V1.numNeg1])
        simpa [Json.nodeList, Json.isVoid] using this
    · rcases List.mem_append.1 hmem with hmem | hmem
      · obtain ⟨xi, hxi, rfl⟩ := List.mem_map.1 hmem
        have hx' : xi.1 ∈ xs := by
          have := List.mem_reverse.1 hxi
          exact List.mem_of_mem_drop (List.fst_mem_of_mem_zipIdx this)
        have := vh_root (a := xi.1) (b := .void) (listDocList_mem hlx hx') rfl
          (by simp [(vfreeList_mem vxs hx').1]) ([] ++ [V1.numOfNat xi.2])
        simpa [Json.nodeList, Json.isVoid] using this
      · obtain ⟨d, hd, hh⟩ := List.mem_flatten.1 hmem
        exact ih vys vxs 0 d (List.mem_reverse.1 hd) h hh
  · intro t xs b ht hlx hb hbb _ _ _ h hmem
    rw [diffNode_arr_other hm xs b ht hbb] at hmem
    simp only [List.mem_singleton] at hmem
    subst hmem
    have := vh_root (a := .arr .list xs) (b := b) (by simp [Json.listDoc, hlx]) hb
      (by simp [Json.isVoid]) []
    simpa [Json.nodeList, Json.isVoid] using this
  · intro kvs kvs' hl hl' ih va vb _ h hmem
    have vk : vfreeKvs kvs = true := by simpa [vfree] using va
    have vk' : vfreeKvs kvs' = true := by simpa [vfree] using vb
    rw [V1P.diffNode_obj_obj] at hmem
    rcases List.mem_append.1 hmem with hmem | hmem
    · exact ih vk' vk h hmem
    · obtain ⟨kv, hkv, rfl⟩ := List.mem_map.1 hmem
      have hm' := (List.mem_filter.1 hkv).1
      have hnv := (vfreeKvs_mem vk' hm').1
      have := vh_root (a := .void) (b := kv.2) rfl
        (V1M.listDoc_of_mem hl' kv.1 kv.2 hm') (by simp [hnv]) ([] ++ [.str kv.1])
      simpa [Json.nodeList, Json.isVoid] using this
  · intro kvs b hl hb hbb _ _ hbv h hmem
    rw [V1P.diffNode_obj_other m kvs b hbb] at hmem
    simp only [List.mem_singleton] at hmem
    subst hmem
    have := vh_root (a := .obj kvs) (b := b) (by simpa [Json.listDoc] using hl) hb
      (by simp [Json.isVoid]) []
    rw [V1P.nodeList_of_notVoid hbv] at this
    exact this
  · intro a b h1 h2 hb _ _ hbv h hmem
    rw [V1P.diffNode_scalar m a b h1 h2] at hmem
    unfold V1.diffCommon at hmem
    split at hmem
    · cases hmem
    · simp only [Bool.false_eq_true, if_false, List.mem_singleton] at hmem
      subst hmem
      have hal : a.listDoc = true := by
        cases a with
        | arr t xs => exact absurd rfl (h1 t xs)
        | obj kvs => exact absurd rfl (h2 kvs)
        | _ => rfl
      exact vh_root hal hb (by simp [hbv]) []
  · intro kvs' _ _ h hmem
    simp [V1P.diffKvs_nil] at hmem
  · intro kvs' k v r hl' hv hlr ihN ihK vk' vk h hmem
    simp only [vfreeKvs, Bool.and_eq_true, Bool.not_eq_true'] at vk
    rw [V1P.diffKvs_cons] at hmem
    rcases List.mem_append.1 hmem with hmem | hmem
    · cases hlk : alookup k kvs' with
      | none =>
        rw [hlk] at hmem
        simp only [List.mem_singleton] at hmem
        subst hmem
        have := vh_root (a := v) (b := .void) hv rfl (by simp [vk.1.1]) ([] ++ [.str k])
        simpa [Json.nodeList, Json.isVoid] using this
      | some v' =>
        rw [hlk] at hmem
        simp only [] at hmem
        have hv' := vfreeKvs_mem vk' (mem_of_alookup hlk)
        rw [diffNode_at hm v v' hv (alookup_listDoc hlk hl')] at hmem
        obtain ⟨h0, hh0, rfl⟩ := List.mem_map.1 hmem
        exact (ihN v' (alookup_listDoc hlk hl') vk.1.2 hv'.2 hv'.1 h0 hh0).shift _
    · exact ihK vk' vk.2 h hmem
  · intro ys _ _ i d hd
    simp [V1P.diffElems_nil] at hd
  · intro x xs _ _ i d hd
    simp [V1P.diffElems_nil'] at hd
  · intro x xs y ys hx hlx hy hly ihN ihE vys vxs i d hd h hh
    simp only [vfreeList, Bool.and_eq_true, Bool.not_eq_true'] at vys vxs
    rw [V1P.diffElems_cons] at hd
    rcases List.mem_cons.1 hd with rfl | hd
    · rw [diffNode_at hm x _ hx (dispatch_listDoc hm hy)] at hh
      obtain ⟨h0, hh0, rfl⟩ := List.mem_map.1 hh
      exact (ihN vxs.1.2 (by rw [vfree_dispatch]; exact vys.1.2)
        (by rw [V1P.dispatch_isVoid]; exact vys.1.1) h0 hh0).shift _
    · exact ihE vys.2 vxs.2 (i + 1) d hd h hh


/-- **C17 with `SetPrecision(eps)`, LIST reading, through the text** (`Render`, then
    `ReadDiffString`): the rendered v1 list diff is read back (as the diff with its values
    untagged), and patching `a` with the diff READ BACK succeeds and yields a document that `Equals`
    `b` with the metadata. Follows from `V1S.v1_read_render` (the reader / writer do not know the
    metadata), `V1S.sim_patchAll` (the strict patch commutes with `untag`) and
    `v1_diff_patch_list_precision`. Same codec contract `CodecOK` and render-success hypothesis as
    `V1S.v1_text_roundtrip_list`. -/
theorem v1_text_roundtrip_list_precision (L : FloatLaws) {N : Nat} (I : IdxLaws N) (nc : NumCodec)
    (m : V1.Metas) (hm : PrecMode m) (a b : Json)
    (ha1 : a.listDoc = true) (ha2 : a.wf = true) (ha3 : a.finiteNums = true) (ha4 : vfree a = true)
    (ha5 : lenLe N a = true)
    (hb1 : b.listDoc = true) (hb2 : b.wf = true) (hb3 : b.finiteNums = true) (hb4 : vfree b = true)
    (hbv : b.isVoid = false)
    (hc : CodecOK nc (V1.diffM m a b)) (text : String)
    (hr : V1.renderM nc false (V1.liftDiff (V1.diffM m a b)) = .ok (some text)) :
    ∃ d' r, V1.readDiffM nc text = .ok d' ∧ V1.patchM a d' = .ok r ∧ V1.equals m r b = true ∧
      equivB (optsOf m) r b = true := by
  have hd : V1.diffM m a b = V1.diffNode m false a b [] := by
    unfold V1.diffM; rw [hm.noMerge]
  have hH : ∀ h ∈ V1.diffM m a b, HOK h ∧ VH h := by
    intro h hh
    rw [hd] at hh
    exact ⟨((diff_hunks m hm.lr).1 a b ha1 hb1 h hh).1,
      (diff_vals m hm.lr).1 a b ha1 hb1 ha4 hb4 hbv h hh⟩
  have hrd := v1_read_render nc _ text (fun h hh => wfHunk_plain (hH h hh).1 (hH h hh).2) hc hr
  obtain ⟨r0, p1, p2, _, _⟩ :=
    v1_diff_patch_list_precision L I m hm a b ha1 ha2 ha3 ha4 ha5 hb1 hb2 hb3 hb4
  have hs := sim_patchAll (V1.diffM m a b) hH a a ⟨rfl, ha1, ha1⟩
  unfold V1.patchM at p1
  rw [p1] at hs
  cases hp : V1.patchAll a (V1S.normDiff (V1.diffM m a b)) with
  | ok r' =>
    rw [hp] at hs
    have hs' : Rl r0 r' := hs
    have he : equivB (optsOf m) r' b = true := by
      rw [← equivB_untag_left _ (optsOf_tag m), ← hs'.1, equivB_untag_left _ (optsOf_tag m),
        ← v1_equals_eq_equivB hm.lr hs'.2.1 hb1]
      exact p2
    refine ⟨_, r', hrd, hp, ?_, he⟩
    rw [v1_equals_eq_equivB hm.lr hs'.2.2 hb1]; exact he
  | err => rw [hp] at hs; exact absurd hs (by simp [RelO])
  | panic => rw [hp] at hs; exact absurd hs (by simp [RelO])

/-- the document hypotheses of `v1_text_roundtrip_list_precision` hold for the pair `pA`, `pB` with
    `SetPrecision(0.1)` (the codec contract and the rendered text stay hypotheses: they depend on the
    number codec) -/
example (L : FloatLaws) (I : IdxLaws 8) (nc : NumCodec) (text : String)
    (hc : CodecOK nc (V1.diffM [.prec Example.eps] Example.pA Example.pB))
    (hr : V1.renderM nc false (V1.liftDiff (V1.diffM [.prec Example.eps] Example.pA Example.pB)) =
      .ok (some text)) :
    ∃ d' r, V1.readDiffM nc text = .ok d' ∧ V1.patchM Example.pA d' = .ok r ∧
      V1.equals [.prec Example.eps] r Example.pB = true := by
  obtain ⟨h1, h2, h3, h4, h5, h6, h7, h8, h9⟩ := Example.pHyps
  obtain ⟨d', r, q1, q2, q3, _⟩ := v1_text_roundtrip_list_precision L I nc _ Example.eps_ok _ _
    h1 h2 h3 h4 h5 h6 h7 h8 h9 rfl hc text hr
  exact ⟨d', r, q1, q2, q3⟩

end Text

/-! ### axioms -/

#print axioms v1_equals_eq
#print axioms v1_equals_eq_equivB
#print axioms v1_equals_refl
#print axioms v1_equals_symm
#print axioms diff_correct
#print axioms v1_diff_patch_list_precision
#print axioms v1_diff_empty_iff_equals_precision
#print axioms v1_text_roundtrip_list_precision
#print axioms result_not_structural
#print axioms precNN_needed
#print axioms typed_result_diff_nonempty
#print axioms typed_result_equals
#print axioms v1_v2_differ_on_precision
#print axioms Example.pHyps
#print axioms Example.eps_ok
#print axioms Example.epsNeg_not_ok

end Jd.V1Pr
