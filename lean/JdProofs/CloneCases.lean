/-
  The case analysis of the library's deep copy (`cloneNode` / `cloneNodes`, v2/patch_common.go and
  lib/patch_common.go) against the heap model of `JdModel/NodeHeap.lean` — with the source side REGENERATED
  on every run (tools/clonefacts → JdModel/Gen/CloneCases.lean) instead of transcribed by hand
  (`sourceCloneCases_asRead`, `sourceNodeRepr_asRead` of JdProofs/NodeHeapProofs.lean).

  What the generated file carries, per library (v2, lib):
    * `Gen.cloneNodeCases_*`   the clauses of `cloneNode`'s type switch in source order: type names and the
                               SHAPE of the body — `copyMap`, `copySlice T`, `asIs`, or `other "<text>"` for
                               any body the extractor does not recognise exactly;
    * `Gen.cloneNodesShape_*`  `standard` or `other "<text>"`;
    * `Gen.nodeKinds_*`        every type that has all methods of `JsonNode`, with the kind of its underlying
                               type (map / slice / other);
    * `Gen.jsonNullSites_*`, `Gen.jsonNullReceiverUses_*`
                               every occurrence of the type name `jsonNull` and every use of the receiver in
                               its methods, classified.

  What is proved here (all closed terms, checked by kernel evaluation):
    * `cloneNode_v2_eq_model`, `cloneNode_lib_eq_model`: the regenerated switch IS the model's case table
      (`modelCloneCases`) written as a Go type switch (`modelSwitch`) — clause by clause, in order;
    * `cloneNodes_standard`;
    * `node_types_v2`, `node_types_lib`: the types implementing `JsonNode` are exactly the Go types of the
      model's `representatives` (lib: plus `jsonStringOrInteger`, a string);
    * `case_taken_is_model_case_*`: for every such type the clause the switch takes is the case the model's
      `cloneNode` takes for a node of that Go type;
    * `kinds_have_copying_case_*`: every map type is copied as a map, every slice type as a slice of its own
      type, everything else is returned as it is — except `jsonNull`, a slice returned shared;
    * `jsonNull_has_capacity_0_*`: every place the source makes a `jsonNull` is `jsonNull{}` or
      `jsonNull(nil)`, no declaration, parameter, result, `make`, `append` or slicing mentions the type, and
      its methods only pass the receiver on — so every `jsonNull` has capacity 0 and
      `cap0_no_write_through` applies;
    * `asRead_tables_regenerated`: the two hand-transcribed tables of NodeHeapProofs equal what the
      regenerated tables say (so the theorems stated over them are about the current source).
-/
import JdModel.NodeHeap
import JdModel.Gen.CloneCases
import JdProofs.NodeHeapProofs

namespace Jd.CloneCases
open Jd Jd.NodeHeap

/-! ### the model's case table as a Go type switch -/

/-- the clause body that a case of the model stands for, at Go type `ty` -/
def bodyOf (ty : String) : CloneCase → Gen.CloneBody
  | .copyMap => .copyMap
  | .copySlice => .copySlice ty
  | .asIs => .asIs

/-- the model's case table written the way the source writes it: one single-type clause for every Go type
    that is not returned as it is (in the order of `representatives`), then `default: return n` -/
def modelSwitch : List (List String × Gen.CloneBody) :=
  (modelCloneCases.filter (fun p => p.2 != .asIs)).map (fun p => ([p.1], bodyOf p.1 p.2))
    ++ [(["default"], .asIs)]

/-- the regenerated type switch of v2's `cloneNode` is the model's case table -/
theorem cloneNode_v2_eq_model : Gen.cloneNodeCases_v2 = modelSwitch := by decide

/-- the regenerated type switch of lib's `cloneNode` is the model's case table -/
theorem cloneNode_lib_eq_model : Gen.cloneNodeCases_lib = modelSwitch := by decide

/-- `cloneNodes` is, in both libraries: nil guard, `make([]JsonNode, len(nodes))`, `c[i] = cloneNode(n)` for
    every element, `return c` — the model's `cloneList (cloneNode f)` into a slice with cap = len -/
theorem cloneNodes_standard :
    Gen.cloneNodesShape_v2 = .standard ∧ Gen.cloneNodesShape_lib = .standard := by decide

/-! ### which clause a dynamic type takes -/

/-- Go's semantics of a type switch over concrete types: the first clause that lists the type, else the
    `default` clause wherever it stands (`none`: the switch has neither) -/
def clauseTaken (tbl : List (List String × Gen.CloneBody)) (ty : String) : Option Gen.CloneBody :=
  match tbl.find? (fun c => c.1.contains ty) with
  | some c => some c.2
  | none => (tbl.find? (fun c => c.1 == ["default"])).map (·.2)

/-- the model case a clause body amounts to for a value of type `ty` (`none`: no case of the model — an
    unrecognised body, or a conversion to ANOTHER type) -/
def caseOfBody (ty : String) : Gen.CloneBody → Option CloneCase
  | .copyMap => some .copyMap
  | .copySlice t => if t == ty then some .copySlice else none
  | .asIs => some .asIs
  | .other _ => none

def caseTaken (tbl : List (List String × Gen.CloneBody)) (ty : String) : Option CloneCase :=
  (clauseTaken tbl ty).bind (caseOfBody ty)

/-- v2: for the Go type of every representative node of the model, the clause the source's switch takes is
    the case the model's `cloneNode` takes -/
theorem case_taken_is_model_case_v2 :
    representatives.all (fun n => caseTaken Gen.cloneNodeCases_v2 n.goType == some n.cloneCase) = true := by
  decide

theorem case_taken_is_model_case_lib :
    representatives.all (fun n => caseTaken Gen.cloneNodeCases_lib n.goType == some n.cloneCase) = true := by
  decide

/-! ### the node types of the package -/

def sameMembers (a b : List String) : Bool :=
  a.length == b.length && a.all b.contains && b.all a.contains

/-- v2: the declared types that implement `JsonNode` are exactly the Go types of the model's representatives -/
theorem node_types_v2 :
    sameMembers (Gen.nodeKinds_v2.map (·.1)) (representatives.map HNode.goType) = true := by decide

/-- lib: the same, plus `jsonStringOrInteger` (a `string`; the model reads it as a string node) -/
theorem node_types_lib :
    sameMembers (Gen.nodeKinds_lib.map (·.1)) ("jsonStringOrInteger" :: representatives.map HNode.goType) = true ∧
    Gen.nodeKinds_lib.lookup "jsonStringOrInteger" = some .other ∧
    caseTaken Gen.cloneNodeCases_lib "jsonStringOrInteger" = some .asIs := by decide

/-- a type's case follows the kind of its underlying type: map → copied as a map, slice → copied as a
    slice of the same type, other → returned as it is; `jsonNull` is the one slice type returned as it is -/
def kindAgrees (tbl : List (List String × Gen.CloneBody)) (p : String × Gen.GoKind) : Bool :=
  if p.1 == "jsonNull" then p.2 == .slice && caseTaken tbl p.1 == some .asIs
  else match p.2 with
    | .map => caseTaken tbl p.1 == some .copyMap
    | .slice => caseTaken tbl p.1 == some .copySlice
    | .other => caseTaken tbl p.1 == some .asIs

/-- v2: every node type whose underlying type is a map or a slice — except `jsonNull` — has a copying
    clause of its own kind, and no other type is copied -/
theorem kinds_have_copying_case_v2 :
    Gen.nodeKinds_v2.all (kindAgrees Gen.cloneNodeCases_v2) = true := by decide

theorem kinds_have_copying_case_lib :
    Gen.nodeKinds_lib.all (kindAgrees Gen.cloneNodeCases_lib) = true := by decide

/-- the same, spelled out for one type: what the statement says about a type of each kind -/
theorem kindAgrees_spec (tbl : List (List String × Gen.CloneBody)) (ty : String) (k : Gen.GoKind)
    (h : kindAgrees tbl (ty, k) = true) (hn : ty ≠ "jsonNull") :
    (k = .map → caseTaken tbl ty = some .copyMap) ∧
    (k = .slice → caseTaken tbl ty = some .copySlice) ∧
    (k = .other → caseTaken tbl ty = some .asIs) := by
  have hne : (ty == "jsonNull") = false := by simpa using hn
  simp only [kindAgrees, hne] at h
  cases k <;> simp_all

/-! ### jsonNull: a slice type returned shared, but always of capacity 0 -/

/-- the ways the type name `jsonNull` may occur: its declaration, as a method receiver, as the type of a
    type-switch clause or of a type assertion, and in the two value forms `jsonNull{}` / `jsonNull(nil)`
    (neither directly appended to, sliced or indexed). NOT allowed, hence absent: a variable, field,
    parameter or result of that type, `make(jsonNull, …)`, a literal with elements, a conversion of
    anything but `nil`. -/
def nullSiteAllowed (c : String) : Bool :=
  ["typeDecl", "receiver", "caseType", "assertType", "emptyLit", "nilConv"].contains c

/-- what a method of `jsonNull` may do with its receiver: call a method on it, hand it to a function of
    the package as a `JsonNode`, return it -/
def receiverUseAllowed (c : String) : Bool := ["methodCall", "argument", "returned"].contains c

def nullDiscipline (sites uses : List (String × String)) : Bool :=
  sites.all (fun s => nullSiteAllowed s.2) && uses.all (fun s => receiverUseAllowed s.2) &&
  sites.any (fun s => s.2 == "emptyLit" || s.2 == "nilConv")

/-- v2: every `jsonNull` the source makes is `jsonNull{}` or `jsonNull(nil)` — length 0, capacity 0 — and
    nothing re-slices or appends to one -/
theorem jsonNull_has_capacity_0_v2 :
    nullDiscipline Gen.jsonNullSites_v2 Gen.jsonNullReceiverUses_v2 = true := by decide

theorem jsonNull_has_capacity_0_lib :
    nullDiscipline Gen.jsonNullSites_lib Gen.jsonNullReceiverUses_lib = true := by decide

/-! ### the hand-transcribed tables of NodeHeapProofs are what the regenerated tables say -/

def reprOfKind : Gen.GoKind → GoRepr
  | .map => .mapType
  | .slice => .sliceType
  | .other => .plain

/-- `sourceCloneCases_asRead` (the switch with `default` spelled out over the remaining node types) and
    `sourceNodeRepr_asRead` (the underlying types) agree, entry by entry, with the regenerated tables of
    BOTH libraries -/
theorem asRead_tables_regenerated :
    sourceCloneCases_asRead.all (fun p =>
      caseTaken Gen.cloneNodeCases_v2 p.1 == some p.2 && caseTaken Gen.cloneNodeCases_lib p.1 == some p.2) = true ∧
    sourceNodeRepr_asRead.all (fun p =>
      (Gen.nodeKinds_v2.lookup p.1).map reprOfKind == some p.2 &&
      (Gen.nodeKinds_lib.lookup p.1).map reprOfKind == some p.2) = true ∧
    sameMembers (sourceNodeRepr_asRead.map (·.1)) (Gen.nodeKinds_v2.map (·.1)) = true := by decide

end Jd.CloneCases
