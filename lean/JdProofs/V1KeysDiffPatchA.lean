/-
  JdProofs.V1KeysDiffPatchA — property C17 (v1 API `lib/`), readings that had no theorem:
  SET + MERGE and MULTISET + MERGE (in memory, and through `Render` / `ReadDiffString`).
  Companion files: V1KeysDiffPatchB (SET + setkeys in memory), V1KeysDiffPatchC (checkers, witnesses,
  non-vacuity), V1KeysDiffPatchD (SET + setkeys through the text), V1KeysDiffPatchE (MULTISET +
  setkeys), V1KeysDiffPatchF (MERGE together with setkeys). Namespace `Jd.V1K`.

  Everything is about the LIBRARY functions of the v1 model (`Jd.V1.diffM`, `Jd.V1.patchM`,
  `Jd.V1.equals`, `Jd.V1.renderM`, `Jd.V1.readDiffM`) and the hash-free specification `equivB`.

  PART 0 — the metadata only matter through SET / MULTISET / setkeys / precision
    `diffNode_meq` : `MetaEq m m'` (same `hasSet`, `hasMset`, `keysOf`, `precOf`) →
        `V1.diffNode m mg a b p = V1.diffNode m' mg a b p` for ALL a, b, p and either strategy `mg`
        (MERGE reaches `diffNode` only as the strategy flag). `strip m` drops MERGE from a metadata
        list (`strip_metaEq`, `strip_noMerge`): this is how the theorems of JdProofs/V1SetDiffPatch
        (stated for `Mode m o`, which has no MERGE) are reused.
    `dse_nil/dse_cons`, `dk_nil/dk_cons`, `de_*`: unfolding equations of the v1 diff for either strategy.

  PART 1 — SET + MERGE, MULTISET + MERGE, in memory (target 1)
    `v1_merge_diff_patch_setmodes` (`MMode m o`: MERGE present, `dispatchTag m = dispatchTag o` ∈
        {set, mset} — v1 gives SET priority over MULTISET —, no setkeys, precision 0);
        `a b : setDoc`, `DPL.memOK b`, `FloatEq0`, `FloatLaws`,
        `V1S.HashFaithful m o (subterms a ++ subterms b)`:
          ∃ r, V1.patchM a (V1.diffM m a b) = .ok r ∧ V1.equals m r b = true ∧ equivB o r b = true.
        `v1_merge_diff_patch_set` / `…_mset`: for the metadata as the caller writes them
        (`SetMergeMode m`, `MsetMergeMode m`; `SetMergeMode.single : SetMergeMode [.set, .merge]`,
        `.swapped : SetMergeMode [.merge, .set]`, `MsetMergeMode.single`).
        MORE than the property asks: `b` MAY contain nulls (in memory a merge hunk holding `null`
        stores `null`, only void deletes) and `a` needs no `memOK`.
    `v1_merge_diff_empty_iff_equals_setmodes` (`…_set`, `…_mset`): same hypotheses,
        `V1.diffM m a b = [] ↔ V1.equals m a b = true`.
    `patchM_diffM_mmode`: the library's diff is `(ds1 (strip m) (V1.dispatchTag m) a b).map vh` — a
        list of v1 merge hunks `["MERGE"] :: keys` — and `Patch` applies it as `Merge.mapply`.
    `ds1 m τ`: the merge-strategy diff, purely: arrays that `Equals` tells apart are replaced by the
        node `.arr τ ys` (`τ = dispatchTag m`: the TYPED node the library stores; `τ = .raw`: what
        comes back from text), `Equal` arrays produce nothing.
    `diffNode_merge_nil_of_equivB`: equivalent documents have an EMPTY merge diff in the set modes
        (the merge strategy hands `Equal` arrays to the strict set / multiset diff:
        `diffNode_merge_arr_eq`, `dse_merge_eq`); `diffNode_eq_ds1`; `obj_step1` (one object step for
        the relation `Rel1 m o x b := V1.equals m x b ∧ equivB o x b`); `memSound1` (the induction).
    METHOD: as the v2 analogue `DPK.merge_diff_then_patch_setmodes`; the v1 `Equals` and hashes
        are those of JdProofs/V1SetDiffPatch (`equals_eq_equivB_of`, `refl_both`,
        `diffNode_nil_of_equivB`), the v1 merge hunks those of JdProofs/V1MergeRender (`patchM_vh`).
    HYPOTHESES: as in V1SetDiffPatch: `setDoc` (documents as read from text), `memOK b` (no void
        member), `HashFaithful` (equal V1 hash codes only for equivalent nodes; needed for the
        `equivB` part by `V1S.Example.alias_needs_hashFaithful`, and against FNV collisions for the
        shape of the diff: `Equal` arrays are handed to the strict set diff, which must be empty),
        `FloatEq0`, `FloatLaws`.
    NON-VACUITY: `ExampleM` (the pair of V1SetDiffPatch, target with nulls, `[.set, .merge]` and
        `[.mset, .merge]`).

  PART 3a — the same through the text (target 3 for target 1)
    `v1_text_roundtrip_merge_setmodes` (`…_set`, `…_mset`): additionally `V1S.CodecOK nc (diffM m a b)`
        and render success:
          ∃ d' r, V1.readDiffM nc text = .ok d' ∧ V1.patchM a d' = .ok r ∧ V1.equals m r b = true ∧
                  equivB o r b = true.
        `d'` is the diff with the replaced arrays as plain `jsonArray`s (`ds1_untag`: reading back
        maps `ds1 m τ` to `ds1 m .raw`); `memSound1` is proved for both `τ`.

  NOT PROVED here: precision ≠ 0. (SET + setkeys: files B–D; MULTISET + setkeys: file E; MERGE together
  with setkeys: file F.) No statement of C17 was found false in Part 1 / 3a.
-/
import JdModel
import JdSpec
import JdProofs.V1SetDiffPatch
import JdProofs.DiffPatchKeys

namespace Jd.V1K
open Jd Jd.Spec Jd.Merge
open Jd.SetDP (Ok Within)

/-! # Part 0. the metadata only matter through SET / MULTISET / setkeys / precision -/

/-- two metadata lists that agree on everything `Diff` and `Equals` look at (MERGE is handed to
    `diffNode` as a separate flag) -/
structure MetaEq (m m' : V1.Metas) : Prop where
  set : V1.hasSet m = V1.hasSet m'
  mset : V1.hasMset m = V1.hasMset m'
  keys : V1.keysOf m = V1.keysOf m'
  prec : V1.precOf m = V1.precOf m'

section Congr
variable {m m' : V1.Metas}

theorem MetaEq.tag (h : MetaEq m m') : V1.dispatchTag m = V1.dispatchTag m' := by
  simp [V1.dispatchTag, h.set, h.mset]

theorem MetaEq.equals (h : MetaEq m m') : V1.equals m = V1.equals m' := by
  funext a b; exact V1S.equals_congr h.tag h.prec a b

theorem MetaEq.hashCode (h : MetaEq m m') : V1.hashCode m = V1.hashCode m' := by
  funext a; exact V1S.hashCode_congr h.tag a

theorem MetaEq.hashList (h : MetaEq m m') : V1.hashList m = V1.hashList m' := by
  funext a; exact V1S.hashList_congr h.tag a

theorem MetaEq.dispatch (h : MetaEq m m') : V1.dispatch m = V1.dispatch m' := by
  funext a; exact V1S.dispatch_congr h.tag a

theorem MetaEq.effTag (h : MetaEq m m') : V1.effTag m = V1.effTag m' := by
  funext a; exact V1S.effTag_congr h.tag a

theorem MetaEq.identKeyHashes (h : MetaEq m m') (kvs : List (String × Json)) :
    ∀ ks, V1.identKeyHashes m kvs ks = V1.identKeyHashes m' kvs ks
  | [] => rfl
  | k :: r => by
    simp only [V1.identKeyHashes, h.identKeyHashes kvs r, h.hashCode]

theorem MetaEq.identOf (h : MetaEq m m') : V1.identOf m = V1.identOf m' := by
  funext a
  cases a <;> simp only [V1.identOf, V1.identObj, h.hashCode, h.keys, h.identKeyHashes]

theorem MetaEq.appendIndex (h : MetaEq m m') (p : List Json) (o : List (String × Json)) :
    V1.appendIndex p o m = V1.appendIndex p o m' := by
  simp only [V1.appendIndex, h.set, h.mset, h.keys]

theorem MetaEq.pathObject (h : MetaEq m m') : V1.pathObject m = V1.pathObject m' := by
  funext kvs; simp only [V1.pathObject, h.keys]

theorem MetaEq.identLookup (h : MetaEq m m') (c : UInt64) :
    ∀ l, V1.identLookup m c l = V1.identLookup m' c l
  | [] => rfl
  | x :: r => by simp only [V1.identLookup, h.identLookup c r, h.identOf]

theorem MetaEq.hashLookup (h : MetaEq m m') (c : UInt64) :
    ∀ l, V1.hashLookup m c l = V1.hashLookup m' c l
  | [] => rfl
  | x :: r => by simp only [V1.hashLookup, h.hashLookup c r, h.hashCode]

end Congr

/-! ### unfolding equations of the v1 diff for either strategy -/

theorem dse_nil (m : V1.Metas) (mg : Bool) (p ys : List Json) :
    V1.diffSetElems m mg p ys [] = [] := by
  rw [V1.diffSetElems.eq_def]

theorem dse_cons (m : V1.Metas) (mg : Bool) (p : List Json) (ys : List Json) (x : Json)
    (r : List Json) :
    V1.diffSetElems m mg p ys (x :: r) =
      if (r.map (V1.identOf m)).contains (V1.identOf m x) then V1.diffSetElems m mg p ys r
      else match V1.identLookup m (V1.identOf m x) ys with
        | none => (V1.identOf m x, .removed x) :: V1.diffSetElems m mg p ys r
        | some y =>
          match x, y with
          | .obj kvs, .obj _ =>
            (V1.identOf m x, .sub (V1.diffNode m mg (.obj kvs) y
                (V1.appendIndex p (V1.pathObject m kvs) m))) ::
              V1.diffSetElems m mg p ys r
          | _, _ => V1.diffSetElems m mg p ys r := by
  rw [V1.diffSetElems.eq_def]
  rfl

theorem dk_nil (m : V1.Metas) (mg : Bool) (p : List Json) (kvs' : List (String × Json)) :
    V1.diffKvs m mg p kvs' [] = [] := by
  rw [V1.diffKvs.eq_def]

theorem dk_cons (m : V1.Metas) (mg : Bool) (p : List Json) (kvs' : List (String × Json))
    (k : String) (v : Json) (r : List (String × Json)) :
    V1.diffKvs m mg p kvs' ((k, v) :: r) =
      (match alookup k kvs' with
       | some v' => V1.diffNode m mg v v' (p ++ [.str k])
       | none =>
         if mg then [{ path := V1.prependMerge (p ++ [.str k]), new := [.void] }]
         else [{ path := p ++ [.str k], old := v.nodeList, new := [] }]) ++
        V1.diffKvs m mg p kvs' r := by
  rw [V1.diffKvs.eq_def]
  rfl

theorem de_nil (m : V1.Metas) (mg : Bool) (p : List Json) (i : Nat) (ys : List Json) :
    V1.diffElems m mg p i ys [] = [] := by
  rw [V1.diffElems.eq_def]

theorem de_cons_nil (m : V1.Metas) (mg : Bool) (p : List Json) (i : Nat) (x : Json)
    (xs : List Json) : V1.diffElems m mg p i [] (x :: xs) = [] := by
  rw [V1.diffElems.eq_def]

theorem de_cons (m : V1.Metas) (mg : Bool) (p : List Json) (i : Nat) (x y : Json)
    (xs ys : List Json) :
    V1.diffElems m mg p i (y :: ys) (x :: xs) =
      V1.diffNode m mg x (V1.dispatch m y) (p ++ [V1.numOfNat i]) ::
        V1.diffElems m mg p (i + 1) ys xs := by
  rw [V1.diffElems.eq_def]

section Congr2
variable {m m' : V1.Metas}

theorem dse_meq (h : MetaEq m m') (mg : Bool) (p ys : List Json) :
    ∀ xs : List Json,
      (∀ x ∈ xs, ∀ mg b p, V1.diffNode m mg x b p = V1.diffNode m' mg x b p) →
      V1.diffSetElems m mg p ys xs = V1.diffSetElems m' mg p ys xs
  | [], _ => by rw [dse_nil, dse_nil]
  | x :: r, H => by
    have ih := dse_meq h mg p ys r (fun x hx => H x (List.mem_cons_of_mem _ hx))
    have hx := H x List.mem_cons_self
    rw [dse_cons, dse_cons, ih, h.identOf]
    simp only [h.identLookup, h.pathObject, h.appendIndex]
    split
    · rfl
    · split
      · rfl
      · split
        · simp only [hx]
        · rfl

theorem de_meq (h : MetaEq m m') (mg : Bool) (p : List Json) :
    ∀ (xs : List Json) (i : Nat) (ys : List Json),
      (∀ x ∈ xs, ∀ mg b p, V1.diffNode m mg x b p = V1.diffNode m' mg x b p) →
      V1.diffElems m mg p i ys xs = V1.diffElems m' mg p i ys xs
  | [], i, ys, _ => by rw [de_nil, de_nil]
  | x :: r, i, [], _ => by rw [de_cons_nil, de_cons_nil]
  | x :: r, i, y :: ys, H => by
    rw [de_cons, de_cons, de_meq h mg p r (i + 1) ys (fun x hx => H x (List.mem_cons_of_mem _ hx)),
      H x List.mem_cons_self, h.dispatch]

theorem dk_meq (h : MetaEq m m') (mg : Bool) (p : List Json) (kvs' : List (String × Json)) :
    ∀ kvs : List (String × Json),
      (∀ k v, (k, v) ∈ kvs → ∀ mg b p, V1.diffNode m mg v b p = V1.diffNode m' mg v b p) →
      V1.diffKvs m mg p kvs' kvs = V1.diffKvs m' mg p kvs' kvs
  | [], _ => by rw [dk_nil, dk_nil]
  | (k, v) :: r, H => by
    rw [dk_cons, dk_cons, dk_meq h mg p kvs' r (fun k v hm => H k v (List.mem_cons_of_mem _ hm))]
    congr 1
    cases alookup k kvs' with
    | none => rfl
    | some v' => exact H k v List.mem_cons_self mg v' _

/-- `Diff` depends on the metadata only through SET / MULTISET / setkeys / precision -/
theorem diffNode_meq (h : MetaEq m m') :
    ∀ (a : Json) (mg : Bool) (b : Json) (p : List Json),
      V1.diffNode m mg a b p = V1.diffNode m' mg a b p := by
  intro a
  induction a using jsonInd with
  | void => intro mg b p; rw [V1.diffNode.eq_def, V1.diffNode.eq_def (m := m')]; simp only [V1.diffCommon, h.equals]
  | null => intro mg b p; rw [V1.diffNode.eq_def, V1.diffNode.eq_def (m := m')]; simp only [V1.diffCommon, h.equals]
  | bool x => intro mg b p; rw [V1.diffNode.eq_def, V1.diffNode.eq_def (m := m')]; simp only [V1.diffCommon, h.equals]
  | num x => intro mg b p; rw [V1.diffNode.eq_def, V1.diffNode.eq_def (m := m')]; simp only [V1.diffCommon, h.equals]
  | str x => intro mg b p; rw [V1.diffNode.eq_def, V1.diffNode.eq_def (m := m')]; simp only [V1.diffCommon, h.equals]
  | arr t xs ih =>
    intro mg b p
    have e1 := fun p ys => dse_meq h mg p ys xs ih
    have e2 := fun p i ys => de_meq h mg p xs i ys ih
    rw [V1.diffNode.eq_def, V1.diffNode.eq_def (m := m')]
    simp only [h.equals, h.hashList, h.dispatch, h.effTag, h.identOf, h.appendIndex, e1, e2,
      h.identLookup, h.hashLookup]
  | obj kvs ih =>
    intro mg b p
    have e1 := fun p kvs' => dk_meq h mg p kvs' kvs ih
    rw [V1.diffNode.eq_def, V1.diffNode.eq_def (m := m')]
    simp only [e1]

end Congr2

/-! # Part 1. SET + MERGE and MULTISET + MERGE, in memory -/

/-! ## 1.1 the merge-strategy diff of two arrays in the set modes -/

section MergeArr
variable {m : V1.Metas}

theorem equals_tag_set (hd : V1.dispatchTag m = .set) (xs ys : List Json) :
    V1.equals m (.arr .set xs) (.arr .set ys) = V1.equals m (.arr .raw xs) (.arr .raw ys) := by
  simp [V1.equals, V1.effTag, V1.dispatch, hd]

theorem equals_tag_mset (hd : V1.dispatchTag m = .mset) (xs ys : List Json) :
    V1.equals m (.arr .mset xs) (.arr .mset ys) = V1.equals m (.arr .raw xs) (.arr .raw ys) := by
  simp [V1.equals, V1.effTag, V1.dispatch, hd]

/-- arrays that `Equals` tells apart are replaced wholesale (the hunk carries the typed node) -/
theorem diffNode_merge_arr_ne (hm : V1.dispatchTag m = .set ∨ V1.dispatchTag m = .mset)
    (xs ys : List Json) (p : List Json)
    (he : V1.equals m (.arr .raw xs) (.arr .raw ys) = false) :
    V1.diffNode m true (.arr .raw xs) (.arr .raw ys) p =
      [V1M.whole p (.arr (V1.dispatchTag m) ys)] := by
  rw [V1.diffNode.eq_def]
  rcases hm with hd | hd
  · rw [← equals_tag_set hd] at he
    simp [V1.effTag, hd, V1.dispatch, he, Json.nodeList, Json.isVoid, V1M.whole]
  · rw [← equals_tag_mset hd] at he
    simp [V1.effTag, hd, V1.dispatch, he, Json.nodeList, Json.isVoid, V1M.whole]

theorem diffNode_merge_arr_other (hm : V1.dispatchTag m = .set ∨ V1.dispatchTag m = .mset)
    (xs : List Json) (b : Json) (hb : ∀ t ys, b ≠ .arr t ys) (p : List Json) :
    V1.diffNode m true (.arr .raw xs) b p = [V1M.whole p b] := by
  rw [V1.diffNode.eq_def]
  rcases hm with hd | hd <;> cases b <;> simp_all [V1.effTag, V1.dispatch, V1M.whole]

/-- per element, the parts of the set diff do not depend on the strategy when the sub-diffs of
    OBJECT members with equal identities do not (only those are sub-diffed) -/
theorem dse_merge_eq (m : V1.Metas) (p : List Json) (ys : List Json) :
    ∀ xs : List Json,
      (∀ kvs kvs', Json.obj kvs ∈ xs → Json.obj kvs' ∈ ys →
        V1.identOf m (.obj kvs) = V1.identOf m (.obj kvs') →
        ∀ q, V1.diffNode m true (.obj kvs) (.obj kvs') q
          = V1.diffNode m false (.obj kvs) (.obj kvs') q) →
      V1.diffSetElems m true p ys xs = V1.diffSetElems m false p ys xs
  | [], _ => by rw [dse_nil, dse_nil]
  | x :: r, H => by
    have ih := dse_merge_eq m p ys r
      (fun kvs kvs' hx' => H kvs kvs' (List.mem_cons_of_mem _ hx'))
    rw [dse_cons, dse_cons]
    simp only [ih]
    split
    · rfl
    · cases hl : V1.identLookup m (V1.identOf m x) ys with
      | none => rfl
      | some y =>
        obtain ⟨hy, hid⟩ := V1S.identLookup_some hl
        cases x with
        | obj kvs =>
          cases y with
          | obj kvs' =>
            have := H kvs kvs' List.mem_cons_self hy hid.symm
            simp only [this]
          | _ => rfl
        | _ => rfl

/-- arrays that are `Equal`: the merge strategy runs the strict set / multiset diff -/
theorem diffNode_merge_arr_eq (hm : V1.dispatchTag m = .set ∨ V1.dispatchTag m = .mset)
    (xs ys : List Json) (p : List Json)
    (he : V1.equals m (.arr .raw xs) (.arr .raw ys) = true)
    (H : ∀ kvs kvs', Json.obj kvs ∈ xs → Json.obj kvs' ∈ ys →
        V1.identOf m (.obj kvs) = V1.identOf m (.obj kvs') →
        ∀ q, V1.diffNode m true (.obj kvs) (.obj kvs') q
          = V1.diffNode m false (.obj kvs) (.obj kvs') q) :
    V1.diffNode m true (.arr .raw xs) (.arr .raw ys) p
      = V1.diffNode m false (.arr .raw xs) (.arr .raw ys) p := by
  rcases hm with hd | hd
  · rw [← equals_tag_set hd] at he
    rw [V1.diffNode.eq_def, V1.diffNode.eq_def (merge := false)]
    simp only [V1.effTag, hd, V1.dispatch, beq_self_eq_true, if_true, he, Bool.not_true,
      Bool.and_false, Bool.false_eq_true, if_false, dse_merge_eq m p ys xs H]
  · rw [← equals_tag_mset hd] at he
    rw [V1.diffNode.eq_def, V1.diffNode.eq_def (merge := false)]
    simp only [V1.effTag, hd, V1.dispatch, beq_self_eq_true, if_true, he, Bool.not_true,
      Bool.and_false, Bool.false_eq_true, if_false]

end MergeArr

/-! ## 1.2 equivalent documents have an EMPTY merge diff in the set modes -/

theorem diffNode_merge_nil_of_equivB (F : FloatEq0) {m : V1.Metas} {o : Opts} (M : V1S.Mode m o)
    {S : List Json} (HF : V1S.HashFaithful m o S) :
    ∀ a b, DocOk a → DocOk b → Within S a → Within S b → equivB o a b = true →
      ∀ p, V1.diffNode m true a b p = [] := by
  have hk := M.keys
  have scalar : ∀ a b : Json, (∀ t xs, a ≠ .arr t xs) → (∀ kvs, a ≠ .obj kvs) →
      equivB o a b = true → ∀ p, V1.diffNode m true a b p = [] := by
    intro a b h1 h2 h p
    rw [V1M.diffNode_scalar m a b h1 h2 p, ← V1S.equivB_scalar_equals M.prec M.vprec h1 h2, h]
    rfl
  intro a
  induction a using jsonInd with
  | void => intro b _ _ _ _ h; exact scalar _ b (fun _ _ e => by cases e) (fun _ e => by cases e) h
  | null => intro b _ _ _ _ h; exact scalar _ b (fun _ _ e => by cases e) (fun _ e => by cases e) h
  | bool x => intro b _ _ _ _ h; exact scalar _ b (fun _ _ e => by cases e) (fun _ e => by cases e) h
  | num x => intro b _ _ _ _ h; exact scalar _ b (fun _ _ e => by cases e) (fun _ e => by cases e) h
  | str x => intro b _ _ _ _ h; exact scalar _ b (fun _ _ e => by cases e) (fun _ e => by cases e) h
  | arr t xs ih =>
    intro b ha hb wa wb h p
    cases b with
    | arr t' ys =>
      have ht := ha.raw
      have ht' := hb.raw
      subst ht ht'
      have he : V1.equals m (.arr .raw xs) (.arr .raw ys) = true := by
        rw [V1S.equals_eq_equivB_of F M HF ha hb wa wb]; exact h
      have H : ∀ kvs kvs', Json.obj kvs ∈ xs → Json.obj kvs' ∈ ys →
          V1.identOf m (.obj kvs) = V1.identOf m (.obj kvs') →
          ∀ q, V1.diffNode m true (.obj kvs) (.obj kvs') q
            = V1.diffNode m false (.obj kvs) (.obj kvs') q := by
        intro kvs kvs' hx hy e q
        rw [V1S.identOf_eq_hashCode hk, V1S.identOf_eq_hashCode hk] at e
        have hxy := HF _ (wa.elem hx).self _ (wb.elem hy).self e
        rw [ih _ hx _ (ha.elem hx) (hb.elem hy) (wa.elem hx) (wb.elem hy) hxy q,
          V1S.diffNode_nil_of_equivB F M HF _ _ (ha.elem hx) (hb.elem hy) (wa.elem hx)
            (wb.elem hy) hxy q]
      rw [diffNode_merge_arr_eq M.vsm xs ys p he H]
      exact V1S.diffNode_nil_of_equivB F M HF _ _ ha hb wa wb h p
    | _ => simp [equivB] at h
  | obj kvs ih =>
    intro b ha hb wa wb h p
    cases b with
    | obj kvs' =>
      have hs := ha.sorted
      have hs' := hb.sorted
      simp only [equivB, Bool.and_eq_true, beq_iff_eq, equivKvs_eq_lookAll, lookAll_iff] at h
      have hflip := AllLook.flip hs hs' h.1 h.2
      have hkv : ∀ r : List (String × Json), (∀ kv ∈ r, kv ∈ kvs) →
          V1.diffKvs m true p kvs' r = [] := by
        intro r
        induction r with
        | nil => intro _; exact dk_nil m true p kvs'
        | cons kv r ihr =>
          intro hsub
          obtain ⟨k, v⟩ := kv
          have hm1 : (k, v) ∈ kvs := hsub _ List.mem_cons_self
          obtain ⟨v', hl, he⟩ := h.2 k v hm1
          have hm2 := mem_of_alookup hl
          rw [dk_cons, ihr (fun kv hh => hsub kv (List.mem_cons_of_mem _ hh)), hl]
          simp only [List.append_nil]
          exact ih k v hm1 v' (ha.val hm1) (hb.val hm2) (wa.val hm1) (wb.val hm2) he _
      rw [V1M.diffNode_obj_obj, hkv kvs (fun _ hh => hh),
        filter_added_nil (kvs := kvs) (kvs' := kvs') (fun k' v' hm' => by
          obtain ⟨w, hl, _⟩ := hflip k' v' hm'
          simp [hl])]
      rfl
    | _ => simp [equivB] at h

/-! ## 1.3 the merge-strategy diff, purely (set / multiset reading of arrays) -/

mutual
/-- `V1.diffNode m true a b p` on documents as read from text, in the set modes: relative key paths
    and bare values (`void` = delete). Arrays that `Equals` tells apart are replaced by the array
    node `.arr τ ys`: `τ = V1.dispatchTag m` is what the library writes (the TYPED node `jsonSet` /
    `jsonMultiset` the second array was dispatched to), `τ = .raw` is what comes back from text. -/
def ds1 (m : V1.Metas) (τ : Tag) : Json → Json → List (List String × Json)
  | .obj kvs, b =>
    match b with
    | .obj kvs' =>
      ds1Kvs m τ kvs' kvs ++
        (kvs'.filter (fun kv => (alookup kv.1 kvs).isNone)).map (fun kv => ([kv.1], kv.2))
    | _ => [([], b)]
  | .arr _ xs, b =>
    match b with
    | .arr _ ys =>
      if V1.equals m (.arr .raw xs) (.arr .raw ys) then [] else [([], .arr τ ys)]
    | _ => [([], b)]
  | a, b => if V1.equals m a b then [] else [([], b)]
def ds1Kvs (m : V1.Metas) (τ : Tag) (kvs' : List (String × Json)) :
    List (String × Json) → List (List String × Json)
  | [] => []
  | (k, v) :: r =>
    (match alookup k kvs' with
     | some v' => (ds1 m τ v v').map (consE k)
     | none => [([k], .void)]) ++ ds1Kvs m τ kvs' r
end

theorem ds1_obj_obj (m : V1.Metas) (τ : Tag) (kvs kvs' : List (String × Json)) :
    ds1 m τ (.obj kvs) (.obj kvs') = ds1Kvs m τ kvs' kvs ++
      (kvs'.filter (fun kv => (alookup kv.1 kvs).isNone)).map (fun kv => ([kv.1], kv.2)) := by
  simp [ds1]

theorem ds1_obj_other (m : V1.Metas) (τ : Tag) (kvs : List (String × Json)) {b : Json}
    (hb : b.isObj = false) : ds1 m τ (.obj kvs) b = [([], b)] := by
  cases b <;> simp_all [ds1, Json.isObj]

theorem ds1_arr_arr (m : V1.Metas) (τ : Tag) (t t' : Tag) (xs ys : List Json) :
    ds1 m τ (.arr t xs) (.arr t' ys)
      = if V1.equals m (.arr .raw xs) (.arr .raw ys) then [] else [([], .arr τ ys)] := by
  simp [ds1]

theorem ds1_arr_other (m : V1.Metas) (τ : Tag) (t : Tag) (xs : List Json) {b : Json}
    (hb : Merge.isArr b = false) : ds1 m τ (.arr t xs) b = [([], b)] := by
  cases b <;> simp_all [ds1, Merge.isArr]

theorem ds1_scalar (m : V1.Metas) (τ : Tag) {a : Json} (h1 : a.isObj = false)
    (h2 : Merge.isArr a = false) (b : Json) :
    ds1 m τ a b = if V1.equals m a b then [] else [([], b)] := by
  cases a <;> simp_all [ds1, Json.isObj, Merge.isArr]

theorem ds1Kvs_nil (m : V1.Metas) (τ : Tag) (kvs' : List (String × Json)) :
    ds1Kvs m τ kvs' [] = [] := by
  simp [ds1Kvs]

theorem ds1Kvs_cons (m : V1.Metas) (τ : Tag) (kvs' : List (String × Json)) (k : String)
    (v : Json) (r : List (String × Json)) :
    ds1Kvs m τ kvs' ((k, v) :: r) =
      (match alookup k kvs' with
       | some v' => (ds1 m τ v v').map (consE k)
       | none => [([k], .void)]) ++ ds1Kvs m τ kvs' r := by
  simp [ds1Kvs]

/-- the second loop of `jsonObject.diff` in merge mode, for non-void members -/
theorem additions_eq1 (q : List String) (kvs : List (String × Json)) :
    ∀ (kvs' : List (String × Json)), (∀ k v, (k, v) ∈ kvs' → v.isVoid = false) →
      (kvs'.filter (fun kv => (alookup kv.1 kvs).isNone)).map (fun kv =>
          ({ path := V1.prependMerge (q.map Json.str ++ [.str kv.1]), old := [],
             new := kv.2.nodeList } : V1.Hunk))
        = ((kvs'.filter (fun kv => (alookup kv.1 kvs).isNone)).map
            (fun kv => ([kv.1], kv.2))).map (fun e => V1M.vh (q ++ e.1) e.2)
  | [], _ => rfl
  | (k, v) :: r, h => by
    have ih := additions_eq1 q kvs r (fun k v hm => h k v (List.mem_cons_of_mem _ hm))
    have hv : v.nodeList = [v] := by
      have := h k v List.mem_cons_self
      simp [Json.nodeList, this]
    simp only [List.filter_cons]
    split
    · simp only [List.map_cons, ih, hv]
      have := V1M.whole_keys_snoc q k v
      simp only [V1M.whole] at this
      rw [this]
    · exact ih

/-- the library's merge diff in the set modes is `ds1`, hunk by hunk -/
theorem diffNode_eq_ds1 (F : FloatEq0) {m : V1.Metas} {o : Opts} (M : V1S.Mode m o)
    {S : List Json} (HF : V1S.HashFaithful m o S) :
    ∀ a b, DocOk a → Ok b → Within S a → Within S b →
      ∀ q : List String,
        V1.diffNode m true a b (q.map Json.str)
          = (ds1 m (V1.dispatchTag m) a b).map (fun e => V1M.vh (q ++ e.1) e.2) := by
  have scalar : ∀ a b : Json, (∀ t xs, a ≠ .arr t xs) → (∀ kvs, a ≠ .obj kvs) →
      ∀ q : List String,
        V1.diffNode m true a b (q.map Json.str)
          = (ds1 m (V1.dispatchTag m) a b).map (fun e => V1M.vh (q ++ e.1) e.2) := by
    intro a b h1 h2 q
    have g1 : a.isObj = false := by cases a <;> simp_all [Json.isObj]
    have g2 : Merge.isArr a = false := by cases a <;> simp_all [Merge.isArr]
    rw [V1M.diffNode_scalar m a b h1 h2, ds1_scalar m _ g1 g2]
    split <;> simp [V1M.whole_keys]
  intro a
  induction a using jsonInd with
  | void => intro b _ _ _ _ q; exact scalar _ b (fun _ _ e => by cases e) (fun _ e => by cases e) q
  | null => intro b _ _ _ _ q; exact scalar _ b (fun _ _ e => by cases e) (fun _ e => by cases e) q
  | bool x => intro b _ _ _ _ q; exact scalar _ b (fun _ _ e => by cases e) (fun _ e => by cases e) q
  | num x => intro b _ _ _ _ q; exact scalar _ b (fun _ _ e => by cases e) (fun _ e => by cases e) q
  | str x => intro b _ _ _ _ q; exact scalar _ b (fun _ _ e => by cases e) (fun _ e => by cases e) q
  | arr t xs _ =>
    intro b ha hb wa wb q
    have ht := ha.raw
    subst ht
    cases b with
    | arr t' ys =>
      have ht' := hb.raw
      subst ht'
      rw [ds1_arr_arr]
      cases he : V1.equals m (.arr .raw xs) (.arr .raw ys) with
      | true =>
        have heq : equivB o (.arr .raw xs) (.arr .raw ys) = true := by
          rw [← V1S.equals_eq_equivB_of F M HF ha hb.docOk wa wb]; exact he
        rw [diffNode_merge_nil_of_equivB F M HF _ _ ha hb.docOk wa wb heq]
        simp
      | false =>
        rw [diffNode_merge_arr_ne M.vsm xs ys _ he]
        simp [V1M.whole_keys]
    | _ =>
      rw [diffNode_merge_arr_other M.vsm xs _ (by simp), ds1_arr_other m _ _ xs rfl]
      simp [V1M.whole_keys]
  | obj kvs ih =>
    intro b ha hb wa wb q
    cases b with
    | obj kvs' =>
      have hkv : ∀ r : List (String × Json), (∀ kv ∈ r, kv ∈ kvs) →
          V1.diffKvs m true (q.map Json.str) kvs' r
            = (ds1Kvs m (V1.dispatchTag m) kvs' r).map (fun e => V1M.vh (q ++ e.1) e.2) := by
        intro r
        induction r with
        | nil => intro _; rw [dk_nil, ds1Kvs_nil]; rfl
        | cons kv r ihr =>
          intro hsub
          obtain ⟨k, v⟩ := kv
          have hm1 : (k, v) ∈ kvs := hsub _ List.mem_cons_self
          rw [V1M.diffKvs_cons, ds1Kvs_cons, List.map_append,
            ihr (fun kv hh => hsub kv (List.mem_cons_of_mem _ hh))]
          congr 1
          cases hl : alookup k kvs' with
          | none => simp [V1M.whole_keys_snoc]
          | some v' =>
            have hm2 := mem_of_alookup hl
            have := ih k v hm1 v' (ha.val hm1) (hb.val hm2).1 (wa.val hm1) (wb.val hm2)
              (q ++ [k])
            simp only [List.map_append, List.map_cons, List.map_nil] at this
            simp only [this]
            simp [consE, Function.comp_def]
      rw [V1M.diffNode_obj_obj, ds1_obj_obj, List.map_append, hkv kvs (fun _ hh => hh),
        additions_eq1 q kvs kvs' (fun k v hm => (hb.val hm).2)]
    | _ =>
      rw [V1M.diffNode_obj_other m kvs _ (by simp), ds1_obj_other m _ kvs rfl]
      simp [V1M.whole_keys]

/-! ## 1.4 the two readings of "equal to `b`"; one object step -/

/-- `x` is `b` for the library's v1 `Equals` and for the specification's equivalence -/
def Rel1 (m : V1.Metas) (o : Opts) (x b : Json) : Prop :=
  V1.equals m x b = true ∧ equivB o x b = true

def RelOpt1 (m : V1.Metas) (o : Opts) : Option Json → Option Json → Prop
  | some x, some y => Rel1 m o x y
  | none, none => True
  | _, _ => False

theorem rel1_obj_of_lookups {m : V1.Metas} {o : Opts} {R Y : List (String × Json)}
    (hR : keysSorted R = true) (hY : keysSorted Y = true)
    (h : ∀ j, RelOpt1 m o (alookup j R) (alookup j Y)) : Rel1 m o (.obj R) (.obj Y) := by
  have := V1S.obj_result (m := m) (o := o) hR hY (fun k => by
    have hk := h k
    cases h1 : alookup k R <;> cases h2 : alookup k Y <;> simp_all [RelOpt1]
    exact ⟨hk.2, hk.1⟩)
  exact ⟨this.2, this.1⟩

theorem rel1_not_void {m : V1.Metas} {o : Opts} {x y : Json} (h : Rel1 m o x y)
    (hy : y.isVoid = false) : x.isVoid = false := by
  cases x with
  | void => have := h.1; simp [V1.equals, hy] at this
  | _ => rfl

open Jd.DPK (grpM groupsM)

/-- **object step.** If the hunks of every common member turn that member of `a` into something
    that is the member of `b`, and the members only `b` has are themselves, then the hunks of the two
    objects, applied in memory, turn the first object into something that is the second. -/
theorem obj_step1 (m : V1.Metas) (o : Opts) (D : Json → Json → List (List String × Json))
    (DK : List (String × Json) → List (String × Json) → List (List String × Json))
    (kvs kvs' : List (String × Json))
    (hnil : DK kvs' [] = [])
    (hcons : ∀ k v r, DK kvs' ((k, v) :: r) =
      (match alookup k kvs' with
       | some v' => (D v v').map (consE k)
       | none => [([k], .void)]) ++ DK kvs' r)
    (hs : keysSorted kvs = true) (hs' : keysSorted kvs' = true)
    (hvoid : ∀ j v', alookup j kvs' = some v' → v'.isVoid = false)
    (hboth : ∀ j v v', alookup j kvs = some v → alookup j kvs' = some v' →
      Rel1 m o (mapply (D v v') v) v')
    (honly : ∀ j v', alookup j kvs = none → alookup j kvs' = some v' → Rel1 m o v' v') :
    Rel1 m o (mapply (DK kvs' kvs ++
        (kvs'.filter (fun kv => (alookup kv.1 kvs).isNone)).map (fun kv => ([kv.1], kv.2)))
      (.obj kvs)) (.obj kvs') := by
  rw [DPK.DK_groups D DK kvs' hnil hcons kvs, DPK.additionsM_groups kvs kvs', ← flatG_append]
  obtain ⟨acc', he, hsa, hl⟩ := mapply_groups (groupsM D kvs' kvs ++ groupsB kvs kvs') kvs
    (by
      intro kg hm hnil' hlk
      rcases List.mem_append.1 hm with hA | hB
      · simp only [groupsM, List.mem_map] at hA
        obtain ⟨⟨k, v⟩, hkv, rfl⟩ := hA
        simp only at hnil' hlk
        have hv : alookup k kvs = some v := alookup_of_mem hs hkv
        rw [hv] at hlk
        cases hlk
        unfold grpM at hnil'
        cases hjb : alookup k kvs' with
        | none => rw [hjb] at hnil'; simp at hnil'
        | some v' =>
          rw [hjb] at hnil'
          have := hboth k .void v' hv hjb
          simp only at hnil'
          rw [hnil'] at this
          have hh := rel1_not_void this (hvoid k v' hjb)
          simp [mapply, Json.isVoid] at hh
      · simp only [groupsB, List.mem_map] at hB
        obtain ⟨kv, _, rfl⟩ := hB
        simp at hnil')
    (DPK.groupsM_nodup D [] hs hs') hs
  rw [he]
  refine rel1_obj_of_lookups hsa hs' (fun j => ?_)
  rw [hl j, DPK.groupsM_lookup]
  cases hja : alookup j kvs with
  | some v =>
    simp only [grpM]
    cases hjb : alookup j kvs' with
    | some v' =>
      have R := hboth j v v' hja hjb
      have hnv := rel1_not_void R (hvoid j v' hjb)
      simp only [getK, hja, Option.getD_some, toOpt, hnv, Bool.false_eq_true, if_false]
      exact R
    | none =>
      simp [mapply, mset, toOpt, Json.isVoid, RelOpt1]
  | none =>
    cases hjb : alookup j kvs' with
    | none => simp [RelOpt1]
    | some v' =>
      simp only [Option.map_some, mapply, List.foldl_cons, List.foldl_nil, mset, toOpt,
        hvoid j v' hjb, Bool.false_eq_true, if_false]
      exact honly j v' hja hjb

/-! ## 1.5 the induction -/

theorem rel1_refl (F : FloatEq0) (L : FloatLaws) {m : V1.Metas} {o : Opts} (M : V1S.Mode m o)
    {S : List Json} (HF : V1S.HashFaithful m o S) {b : Json} (hb : Ok b) (wb : Within S b) :
    Rel1 m o b b := by
  obtain ⟨e1, e2⟩ := V1S.refl_both F L M HF hb wb
  exact ⟨e2, e1⟩

/-- the array node stored by a wholesale hunk (typed as the library writes it, or plain as it comes
    back from text) is the plain array for both relations -/
theorem rel1_typed_arr (F : FloatEq0) (L : FloatLaws) {m : V1.Metas} {o : Opts}
    (M : V1S.Mode m o) {S : List Json} (HF : V1S.HashFaithful m o S) {τ : Tag}
    (hτ : τ = .raw ∨ τ = V1.dispatchTag m) {ys : List Json} (hb : Ok (.arr .raw ys))
    (wb : Within S (.arr .raw ys)) : Rel1 m o (.arr τ ys) (.arr .raw ys) := by
  obtain ⟨e1, e2⟩ := rel1_refl F L M HF hb wb
  constructor
  · rcases hτ with rfl | rfl
    · exact e1
    · rcases M.vsm with hd | hd <;> rw [hd] <;> simp [V1.equals, V1.effTag, V1.dispatch, hd]
  · rw [equivB] at e2 ⊢
    exact e2

theorem memSound1 (F : FloatEq0) (L : FloatLaws) {m : V1.Metas} {o : Opts} (M : V1S.Mode m o)
    {S : List Json} (HF : V1S.HashFaithful m o S) {τ : Tag}
    (hτ : τ = .raw ∨ τ = V1.dispatchTag m) :
    ∀ a, DocOk a → Within S a → ∀ b, Ok b → Within S b →
      Rel1 m o (mapply (ds1 m τ a b) a) b := by
  have scalar : ∀ a b : Json, (∀ t xs, a ≠ .arr t xs) → (∀ kvs, a ≠ .obj kvs) → Ok b →
      Within S b → Rel1 m o (mapply (ds1 m τ a b) a) b := by
    intro a b h1 h2 hb wb
    have g1 : a.isObj = false := by cases a <;> simp_all [Json.isObj]
    have g2 : Merge.isArr a = false := by cases a <;> simp_all [Merge.isArr]
    rw [ds1_scalar m τ g1 g2]
    cases he : V1.equals m a b with
    | true =>
      simp only [if_true, mapply, List.foldl_nil]
      exact ⟨he, by rw [V1S.equivB_scalar_equals M.prec M.vprec h1 h2]; exact he⟩
    | false => simpa [mapply, mset] using rel1_refl F L M HF hb wb
  intro a
  induction a using jsonInd with
  | void => intro _ _ b hb wb; exact scalar _ b (fun _ _ e => by cases e) (fun _ e => by cases e) hb wb
  | null => intro _ _ b hb wb; exact scalar _ b (fun _ _ e => by cases e) (fun _ e => by cases e) hb wb
  | bool x => intro _ _ b hb wb; exact scalar _ b (fun _ _ e => by cases e) (fun _ e => by cases e) hb wb
  | num x => intro _ _ b hb wb; exact scalar _ b (fun _ _ e => by cases e) (fun _ e => by cases e) hb wb
  | str x => intro _ _ b hb wb; exact scalar _ b (fun _ _ e => by cases e) (fun _ e => by cases e) hb wb
  | arr t xs _ =>
    intro ha wa b hb wb
    have ht := ha.raw
    subst ht
    cases b with
    | arr t' ys =>
      have ht' := hb.raw
      subst ht'
      rw [ds1_arr_arr]
      cases he : V1.equals m (.arr .raw xs) (.arr .raw ys) with
      | true =>
        simp only [if_true, mapply, List.foldl_nil]
        refine ⟨he, ?_⟩
        rw [← V1S.equals_eq_equivB_of F M HF ha hb.docOk wa wb]; exact he
      | false =>
        simp only [Bool.false_eq_true, if_false, mapply, List.foldl_cons, List.foldl_nil, mset]
        exact rel1_typed_arr F L M HF hτ hb wb
    | _ =>
      rw [ds1_arr_other m τ _ xs rfl]
      simpa [mapply, mset] using rel1_refl F L M HF hb wb
  | obj kvs ih =>
    intro ha wa b hb wb
    cases b with
    | obj kvs' =>
      rw [ds1_obj_obj]
      refine obj_step1 m o (ds1 m τ) (ds1Kvs m τ) kvs kvs' (ds1Kvs_nil m τ kvs')
        (ds1Kvs_cons m τ kvs') ha.sorted hb.sorted (fun j v' hj => (hb.lookup hj).2) ?_ ?_
      · intro j v v' hja hjb
        have hm1 := mem_of_alookup hja
        have hm2 := mem_of_alookup hjb
        exact ih j v hm1 (ha.val hm1) (wa.val hm1) v' (hb.val hm2).1 (wb.val hm2)
      · intro j v' _ hjb
        have hm2 := mem_of_alookup hjb
        exact rel1_refl F L M HF (hb.val hm2).1 (wb.val hm2)
    | _ =>
      rw [ds1_obj_other m τ kvs rfl]
      simpa [mapply, mset] using rel1_refl F L M HF hb wb

/-! ## 1.6 the theorems, for the metadata as the caller gives them -/

/-- drop MERGE from the metadata (`Diff` receives MERGE as its strategy flag) -/
def strip (m : V1.Metas) : V1.Metas := m.filter (fun x => x != .merge)

set_option linter.unusedSimpArgs false in
theorem strip_metaEq : ∀ m : V1.Metas, MetaEq m (strip m)
  | [] => ⟨rfl, rfl, rfl, rfl⟩
  | x :: r => by
    obtain ⟨h1, h2, h3, h4⟩ := strip_metaEq r
    unfold strip at h1 h2 h3 h4 ⊢
    cases x <;> constructor <;>
      simp [List.filter_cons, V1.hasSet, V1.hasMset, V1.keysOf, V1.precOf, h1, h2, h3, h4]

set_option linter.unusedSimpArgs false in
theorem strip_noMerge : ∀ m : V1.Metas, V1.hasMerge (strip m) = false
  | [] => rfl
  | x :: r => by
    have ih := strip_noMerge r
    unfold strip at ih ⊢
    cases x <;> simp [List.filter_cons, V1.hasMerge, ih]

/-- the metadata of the SET + MERGE / MULTISET + MERGE theorems, tied to the options under which the
    specification `equivB` is read: MERGE present, SET or MULTISET (v1: SET wins when both are
    given), no setkeys, precision 0 or absent -/
structure MMode (m : V1.Metas) (o : Opts) : Prop where
  tag : V1.dispatchTag m = dispatchTag o
  sm : dispatchTag o = .set ∨ dispatchTag o = .mset
  prec : precOf o = 0
  vprec : V1.precOf m = 0
  keys : V1.keysOf m = none
  merge : V1.hasMerge m = true

theorem MMode.mode {m : V1.Metas} {o : Opts} (M : MMode m o) : V1S.Mode (strip m) o :=
  have E := strip_metaEq m
  ⟨E.tag.symm.trans M.tag, M.sm, M.prec, E.prec.symm.trans M.vprec, E.keys.symm.trans M.keys,
    strip_noMerge m⟩

theorem hashFaithful_strip {m : V1.Metas} {o : Opts} {S : List Json}
    (HF : V1S.HashFaithful m o S) : V1S.HashFaithful (strip m) o S := by
  intro x hx y hy e
  rw [← (strip_metaEq m).hashCode] at e
  exact HF x hx y hy e

/-- in memory, the library's SET+MERGE / MULTISET+MERGE diff is a list of merge hunks with key
    paths (`ds1`), and `Patch` applies them as `Merge.mapply` -/
theorem patchM_diffM_mmode (F : FloatEq0) {m : V1.Metas} {o : Opts} (M : MMode m o) (a b : Json)
    (ha : a.setDoc = true) (hb : b.setDoc = true) (hb' : DPL.memOK b = true)
    (HF : V1S.HashFaithful m o (subterms a ++ subterms b)) :
    V1.diffM m a b
        = (ds1 (strip m) (V1.dispatchTag m) a b).map (fun e => V1M.vh e.1 e.2) ∧
    V1.patchM a (V1.diffM m a b) = .ok (mapply (ds1 (strip m) (V1.dispatchTag m) a b) a) := by
  have E := strip_metaEq m
  have hd := diffNode_eq_ds1 F M.mode (hashFaithful_strip HF) a b (docOk_of_setDoc ha) ⟨hb, hb'⟩
    (fun z hz => List.mem_append.2 (Or.inl hz)) (fun z hz => List.mem_append.2 (Or.inr hz)) []
  simp only [List.map_nil, List.nil_append] at hd
  have e : V1.diffM m a b
      = (ds1 (strip m) (V1.dispatchTag m) a b).map (fun e => V1M.vh e.1 e.2) := by
    unfold V1.diffM
    rw [M.merge, diffNode_meq E, hd, E.tag]
  exact ⟨e, by rw [e, V1M.patchM_vh]⟩

/-- **C17, SET + MERGE and MULTISET + MERGE, in memory** (`MMode m o`: MERGE present, SET or
    MULTISET, no setkeys, precision 0): for documents as read from JSON text (`setDoc`: plain arrays,
    sorted unique keys, finite numbers, no `-0`; `b` without void object member), when among the
    sub-terms of `a` and `b` equal V1 hash codes occur only for equivalent nodes, the library call
    `a.Patch(a.Diff(b, m...))` succeeds and its result `Equals` `b` (v1 `Equals` with the same
    metadata) and is equivalent to `b` under the set (bag) reading. `b` MAY contain nulls (in
    memory a merge hunk holding `null` stores `null`). -/
theorem v1_merge_diff_patch_setmodes (F : FloatEq0) (L : FloatLaws) {m : V1.Metas} {o : Opts}
    (M : MMode m o) (a b : Json) (ha : a.setDoc = true) (hb : b.setDoc = true)
    (hb' : DPL.memOK b = true) (HF : V1S.HashFaithful m o (subterms a ++ subterms b)) :
    ∃ r, V1.patchM a (V1.diffM m a b) = .ok r ∧ V1.equals m r b = true ∧ equivB o r b = true := by
  have E := strip_metaEq m
  obtain ⟨_, hp⟩ := patchM_diffM_mmode F M a b ha hb hb' HF
  have S := memSound1 F L M.mode (hashFaithful_strip HF) (τ := V1.dispatchTag m)
    (Or.inr E.tag) a (docOk_of_setDoc ha) (fun z hz => List.mem_append.2 (Or.inl hz)) b
    ⟨hb, hb'⟩ (fun z hz => List.mem_append.2 (Or.inr hz))
  exact ⟨_, hp, by rw [E.equals]; exact S.1, S.2⟩

/-- **C17, second half, SET + MERGE / MULTISET + MERGE: the diff is empty exactly when `Equals`
    holds** -/
theorem v1_merge_diff_empty_iff_equals_setmodes (F : FloatEq0) (L : FloatLaws) {m : V1.Metas}
    {o : Opts} (M : MMode m o) (a b : Json) (ha : a.setDoc = true) (hb : b.setDoc = true)
    (hb' : DPL.memOK b = true) (HF : V1S.HashFaithful m o (subterms a ++ subterms b)) :
    V1.diffM m a b = [] ↔ V1.equals m a b = true := by
  have E := strip_metaEq m
  constructor
  · intro hd
    obtain ⟨r, h1, h2, _⟩ := v1_merge_diff_patch_setmodes F L M a b ha hb hb' HF
    rw [hd] at h1
    cases h1
    exact h2
  · intro he
    have wa : Within (subterms a ++ subterms b) a := fun z hz => List.mem_append.2 (Or.inl hz)
    have wb : Within (subterms a ++ subterms b) b := fun z hz => List.mem_append.2 (Or.inr hz)
    rw [E.equals, V1S.equals_eq_equivB_of F M.mode (hashFaithful_strip HF) (docOk_of_setDoc ha)
      (docOk_of_setDoc hb) wa wb] at he
    unfold V1.diffM
    rw [M.merge, diffNode_meq E]
    exact diffNode_merge_nil_of_equivB F M.mode (hashFaithful_strip HF) a b (docOk_of_setDoc ha)
      (docOk_of_setDoc hb) wa wb he []

/-- SET + MERGE as the caller writes it: SET and MERGE present (v1: SET wins over MULTISET), no
    setkeys, precision 0 or absent. Decidable. -/
structure SetMergeMode (m : V1.Metas) : Prop where
  set : V1.hasSet m = true
  merge : V1.hasMerge m = true
  keys : V1.keysOf m = none
  prec0 : V1.precOf m = 0

/-- MULTISET + MERGE as the caller writes it -/
structure MsetMergeMode (m : V1.Metas) : Prop where
  noSet : V1.hasSet m = false
  mset : V1.hasMset m = true
  merge : V1.hasMerge m = true
  keys : V1.keysOf m = none
  prec0 : V1.precOf m = 0

theorem SetMergeMode.single : SetMergeMode [.set, .merge] := ⟨rfl, rfl, rfl, rfl⟩
theorem SetMergeMode.swapped : SetMergeMode [.merge, .set] := ⟨rfl, rfl, rfl, rfl⟩
theorem MsetMergeMode.single : MsetMergeMode [.mset, .merge] := ⟨rfl, rfl, rfl, rfl, rfl⟩

theorem SetMergeMode.mode {m : V1.Metas} (h : SetMergeMode m) : MMode m [.set] :=
  ⟨by simp [V1.dispatchTag, h.set, dispatchTag], Or.inl rfl, rfl, h.prec0, h.keys, h.merge⟩

theorem MsetMergeMode.mode {m : V1.Metas} (h : MsetMergeMode m) : MMode m [.mset] :=
  ⟨by simp [V1.dispatchTag, h.noSet, h.mset, dispatchTag], Or.inr rfl, rfl, h.prec0, h.keys,
    h.merge⟩

/-- **C17, SET + MERGE, in memory** -/
theorem v1_merge_diff_patch_set (F : FloatEq0) (L : FloatLaws) {m : V1.Metas}
    (hm : SetMergeMode m) (a b : Json) (ha : a.setDoc = true) (hb : b.setDoc = true)
    (hb' : DPL.memOK b = true) (HF : V1S.HashFaithful m [.set] (subterms a ++ subterms b)) :
    ∃ r, V1.patchM a (V1.diffM m a b) = .ok r ∧ V1.equals m r b = true ∧
      equivB [.set] r b = true :=
  v1_merge_diff_patch_setmodes F L hm.mode a b ha hb hb' HF

/-- **C17, MULTISET + MERGE, in memory** -/
theorem v1_merge_diff_patch_mset (F : FloatEq0) (L : FloatLaws) {m : V1.Metas}
    (hm : MsetMergeMode m) (a b : Json) (ha : a.setDoc = true) (hb : b.setDoc = true)
    (hb' : DPL.memOK b = true) (HF : V1S.HashFaithful m [.mset] (subterms a ++ subterms b)) :
    ∃ r, V1.patchM a (V1.diffM m a b) = .ok r ∧ V1.equals m r b = true ∧
      equivB [.mset] r b = true :=
  v1_merge_diff_patch_setmodes F L hm.mode a b ha hb hb' HF

theorem v1_merge_diff_empty_iff_equals_set (F : FloatEq0) (L : FloatLaws) {m : V1.Metas}
    (hm : SetMergeMode m) (a b : Json) (ha : a.setDoc = true) (hb : b.setDoc = true)
    (hb' : DPL.memOK b = true) (HF : V1S.HashFaithful m [.set] (subterms a ++ subterms b)) :
    V1.diffM m a b = [] ↔ V1.equals m a b = true :=
  v1_merge_diff_empty_iff_equals_setmodes F L hm.mode a b ha hb hb' HF

theorem v1_merge_diff_empty_iff_equals_mset (F : FloatEq0) (L : FloatLaws) {m : V1.Metas}
    (hm : MsetMergeMode m) (a b : Json) (ha : a.setDoc = true) (hb : b.setDoc = true)
    (hb' : DPL.memOK b = true) (HF : V1S.HashFaithful m [.mset] (subterms a ++ subterms b)) :
    V1.diffM m a b = [] ↔ V1.equals m a b = true :=
  v1_merge_diff_empty_iff_equals_setmodes F L hm.mode a b ha hb hb' HF

/-! ## 1.7 non-vacuity of Part 1 -/

namespace ExampleM

/-- the hash hypothesis does not see MERGE -/
theorem hashFaithful_of_tag {m m' : V1.Metas} {o : Opts} {S : List Json}
    (h : V1.dispatchTag m = V1.dispatchTag m') (HF : V1S.HashFaithful m o S) :
    V1S.HashFaithful m' o S := by
  intro x hx y hy e
  rw [← V1S.hashCode_congr h, ← V1S.hashCode_congr h] at e
  exact HF x hx y hy e

/-- `{"s":[true,null,{"k":null}]}` → `{"s":[{"k":null},null,false],"t":null}` (the pair of
    JdProofs/V1SetDiffPatch.lean; the target holds nulls) satisfies every hypothesis of the
    SET + MERGE and MULTISET + MERGE theorems -/
example (F : FloatEq0) (L : FloatLaws) :
    ∃ r, V1.patchM V1S.Example.exA (V1.diffM [.set, .merge] V1S.Example.exA V1S.Example.exB) = .ok r ∧
      V1.equals [.set, .merge] r V1S.Example.exB = true ∧ equivB [.set] r V1S.Example.exB = true :=
  v1_merge_diff_patch_set F L SetMergeMode.single V1S.Example.exA V1S.Example.exB V1S.Example.ex_docs.1
    V1S.Example.ex_docs.2.1 V1S.Example.ex_docs.2.2.2
    (hashFaithful_of_tag (m := [.set]) rfl V1S.Example.ex_hashFaithful_set)

example (F : FloatEq0) (L : FloatLaws) :
    ∃ r, V1.patchM V1S.Example.exA (V1.diffM [.mset, .merge] V1S.Example.exA V1S.Example.exB) = .ok r ∧
      V1.equals [.mset, .merge] r V1S.Example.exB = true ∧ equivB [.mset] r V1S.Example.exB = true :=
  v1_merge_diff_patch_mset F L MsetMergeMode.single V1S.Example.exA V1S.Example.exB V1S.Example.ex_docs.1
    V1S.Example.ex_docs.2.1 V1S.Example.ex_docs.2.2.2
    (hashFaithful_of_tag (m := [.mset]) rfl V1S.Example.ex_hashFaithful_mset)

end ExampleM

/-! # Part 3a. SET + MERGE / MULTISET + MERGE through the text -/

/-- reading back forgets the Go type of the array a wholesale hunk carries: the diff read back is
    the pure diff with plain arrays -/
theorem ds1_untag (m : V1.Metas) (τ : Tag) :
    ∀ a b, b.rawDoc = true → (ds1 m τ a b).map V1S.untagE = ds1 m .raw a b := by
  have single : ∀ b : Json, b.rawDoc = true → V1S.untagE ([], b) = ([], b) := by
    intro b hb; simp [V1S.untagE, V1S.untag_rawDoc b hb]
  have scalar : ∀ a b : Json, a.isObj = false → Merge.isArr a = false → b.rawDoc = true →
      (ds1 m τ a b).map V1S.untagE = ds1 m .raw a b := by
    intro a b g1 g2 hb
    rw [ds1_scalar m τ g1 g2, ds1_scalar m .raw g1 g2]
    split <;> simp [single b hb]
  intro a
  induction a using jsonInd with
  | void => intro b hb; exact scalar _ b rfl rfl hb
  | null => intro b hb; exact scalar _ b rfl rfl hb
  | bool x => intro b hb; exact scalar _ b rfl rfl hb
  | num x => intro b hb; exact scalar _ b rfl rfl hb
  | str x => intro b hb; exact scalar _ b rfl rfl hb
  | arr t xs _ =>
    intro b hb
    cases b with
    | arr t' ys =>
      rw [ds1_arr_arr, ds1_arr_arr]
      simp only [Json.rawDoc, Bool.and_eq_true] at hb
      split
      · rfl
      · simp [V1S.untagE, untag, V1S.untagList_rawDoc ys hb.2]
    | _ => rw [ds1_arr_other m τ _ xs rfl, ds1_arr_other m .raw _ xs rfl]; simp [single _ hb]
  | obj kvs ih =>
    intro b hb
    cases b with
    | obj kvs' =>
      simp only [Json.rawDoc] at hb
      have hkv : ∀ r : List (String × Json), (∀ kv ∈ r, kv ∈ kvs) →
          (ds1Kvs m τ kvs' r).map V1S.untagE = ds1Kvs m .raw kvs' r := by
        intro r
        induction r with
        | nil => intro _; rw [ds1Kvs_nil, ds1Kvs_nil]; rfl
        | cons kv r ihr =>
          intro hsub
          obtain ⟨k, v⟩ := kv
          have hm1 : (k, v) ∈ kvs := hsub _ List.mem_cons_self
          rw [ds1Kvs_cons, ds1Kvs_cons, List.map_append,
            ihr (fun kv hh => hsub kv (List.mem_cons_of_mem _ hh))]
          congr 1
          cases hl : alookup k kvs' with
          | none => simp [V1S.untagE, untag]
          | some v' =>
            have := ih k v hm1 v' (alookup_rawDoc hl hb)
            simp only [← this, List.map_map]
            apply List.map_congr_left
            intro e _
            simp [V1S.untagE, consE]
      have hadd : ∀ l : List (String × Json), rawDocKvs l = true →
          ((l.filter (fun kv => (alookup kv.1 kvs).isNone)).map
            (fun kv => ([kv.1], kv.2))).map V1S.untagE =
          (l.filter (fun kv => (alookup kv.1 kvs).isNone)).map (fun kv => ([kv.1], kv.2)) := by
        intro l
        induction l with
        | nil => intro _; rfl
        | cons kv l ihl =>
          intro hl
          simp only [rawDocKvs, Bool.and_eq_true] at hl
          simp only [List.filter_cons]
          split
          · simp only [List.map_cons, ihl hl.2]
            simp [V1S.untagE, V1S.untag_rawDoc _ hl.1]
          · exact ihl hl.2
      rw [ds1_obj_obj, ds1_obj_obj, List.map_append, hkv kvs (fun _ hh => hh), hadd kvs' hb]
    | _ => rw [ds1_obj_other m τ kvs rfl, ds1_obj_other m .raw kvs rfl]; simp [single _ hb]

/-- **C17, SET + MERGE / MULTISET + MERGE, through the text** (`Render`, then `ReadDiffString`):
    the rendered v1 merge diff is read back (as the diff with the replaced arrays as plain
    `jsonArray`s), and patching `a` with the diff READ BACK yields a document that `Equals` `b` and is
    equivalent to it. Relative to the codec contract `V1S.CodecOK` on the paths and values of the
    diff and to render success. -/
theorem v1_text_roundtrip_merge_setmodes (F : FloatEq0) (L : FloatLaws) (nc : NumCodec)
    {m : V1.Metas} {o : Opts} (M : MMode m o) (a b : Json)
    (ha : a.setDoc = true) (hb : b.setDoc = true) (hb' : DPL.memOK b = true)
    (HF : V1S.HashFaithful m o (subterms a ++ subterms b))
    (hc : V1S.CodecOK nc (V1.diffM m a b)) (text : String)
    (hr : V1.renderM nc false (V1.liftDiff (V1.diffM m a b)) = .ok (some text)) :
    ∃ d' r, V1.readDiffM nc text = .ok d' ∧ V1.patchM a d' = .ok r ∧ V1.equals m r b = true ∧
      equivB o r b = true := by
  have E := strip_metaEq m
  have okb : Ok b := ⟨hb, hb'⟩
  obtain ⟨hd, _⟩ := patchM_diffM_mmode F M a b ha hb hb' HF
  have hrd : V1.readDiffM nc text = .ok (V1S.normDiff (V1.diffM m a b)) := by
    apply V1S.v1_read_render nc _ text _ hc hr
    intro h hh
    rw [hd] at hh
    obtain ⟨e, _, rfl⟩ := List.mem_map.1 hh
    exact V1S.wfHunk_vh e.1 e.2
  have hnd : V1S.normDiff (V1.diffM m a b) =
      (ds1 (strip m) .raw a b).map (fun e => V1M.vh e.1 e.2) := by
    rw [hd, V1S.normDiff, List.map_map, ← ds1_untag (strip m) (V1.dispatchTag m) a b okb.rawDoc,
      List.map_map]
    apply List.map_congr_left
    intro e _
    simp [V1S.normHunk_vh, V1S.untagE]
  have S := memSound1 F L M.mode (hashFaithful_strip HF) (τ := .raw) (Or.inl rfl) a
    (docOk_of_setDoc ha) (fun z hz => List.mem_append.2 (Or.inl hz)) b okb
    (fun z hz => List.mem_append.2 (Or.inr hz))
  refine ⟨_, _, hrd, ?_, by rw [E.equals]; exact S.1, S.2⟩
  rw [hnd, V1M.patchM_vh]

theorem v1_text_roundtrip_merge_set (F : FloatEq0) (L : FloatLaws) (nc : NumCodec)
    {m : V1.Metas} (hm : SetMergeMode m) (a b : Json)
    (ha : a.setDoc = true) (hb : b.setDoc = true) (hb' : DPL.memOK b = true)
    (HF : V1S.HashFaithful m [.set] (subterms a ++ subterms b))
    (hc : V1S.CodecOK nc (V1.diffM m a b)) (text : String)
    (hr : V1.renderM nc false (V1.liftDiff (V1.diffM m a b)) = .ok (some text)) :
    ∃ d' r, V1.readDiffM nc text = .ok d' ∧ V1.patchM a d' = .ok r ∧ V1.equals m r b = true ∧
      equivB [.set] r b = true :=
  v1_text_roundtrip_merge_setmodes F L nc hm.mode a b ha hb hb' HF hc text hr

theorem v1_text_roundtrip_merge_mset (F : FloatEq0) (L : FloatLaws) (nc : NumCodec)
    {m : V1.Metas} (hm : MsetMergeMode m) (a b : Json)
    (ha : a.setDoc = true) (hb : b.setDoc = true) (hb' : DPL.memOK b = true)
    (HF : V1S.HashFaithful m [.mset] (subterms a ++ subterms b))
    (hc : V1S.CodecOK nc (V1.diffM m a b)) (text : String)
    (hr : V1.renderM nc false (V1.liftDiff (V1.diffM m a b)) = .ok (some text)) :
    ∃ d' r, V1.readDiffM nc text = .ok d' ∧ V1.patchM a d' = .ok r ∧ V1.equals m r b = true ∧
      equivB [.mset] r b = true :=
  v1_text_roundtrip_merge_setmodes F L nc hm.mode a b ha hb hb' HF hc text hr

end Jd.V1K
