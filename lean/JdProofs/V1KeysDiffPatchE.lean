/-
  JdProofs.V1KeysDiffPatchE — property C17 (v1 API `lib/`), MULTISET + setkeys (strict strategy): the
  set keys only matter together with SET. Namespace `Jd.V1K`.

  `XMsMode m`: MULTISET present, SET absent, no MERGE, precision 0 or absent; a setkeys metadata MAY be
  present (`XMsMode.withKeys ks : XMsMode [.mset, .setkeys ks]`); without one this is `V1S.MsetMode`.
  With MULTISET the diff compares members by hash code (`bagSurplus`), never by identity; the set keys
  only add the string `"setkeys=…"` to the metadata array of the multiset hunk, which the patch code
  ignores (`pm_specX`, `patchNode_mset_leafX`).

  THEOREMS (hypotheses exactly those of `V1S.v1_diff_patch_mset`: `a b : setDoc`, `memOK`,
  `V1S.HashFaithful m [.mset] (subterms a ++ subterms b)`, `FloatEq0`, `FloatLaws`)
    `v1_diff_patch_mset_setkeys` :
        ∃ r, V1.patchM a (V1.diffM m a b) = .ok r ∧ V1.equals m r b = true ∧ equivB [.mset] r b = true.
    `v1_diff_empty_iff_equals_mset_setkeys` : `V1.diffM m a b = [] ↔ V1.equals m a b = true`.
    `v1_text_roundtrip_mset_setkeys` : + `vfree a`, `vfree b`, `b` not void, `CodecOK`, render success:
        V1.readDiffM nc text = .ok (V1.diffM m a b) ∧ ∃ r, …
    `node_stepX`, `mset_stepX` (the induction, re-run with the metadata array of the keyed reading;
        the object / scalar steps and `mset_result`, `patchMsetLeaf_counts`, `bagSurplus_spec` of
        JdProofs/V1SetDiffPatch are reused through `x_hash`, `x_equals`: hash codes and `Equals` do
        not see the set keys), `diffNode_nil_of_equivB_X`, `shape_nodeX`, `gh_metaX`.
  Nothing was found false. Non-vacuity: the pair of V1SetDiffPatch under `[MULTISET, Setkeys("id")]`.
-/
import JdProofs.V1KeysDiffPatchD

namespace Jd.V1K
open Jd Jd.Spec
open Jd.SetDP (Ok Within)
open Jd.V1P (shift ap vfree vfreeList vfreeKvs)
open Jd.V1S (metaItems pm NM GH Shape Step)

/-! # Part 4. MULTISET + setkeys: the set keys do not matter -/

/-- MULTISET without SET, with or without set keys, no MERGE, precision 0 or absent. Decidable. -/
structure XMsMode (m : V1.Metas) : Prop where
  noSet : V1.hasSet m = false
  mset : V1.hasMset m = true
  noMerge : V1.hasMerge m = false
  prec0 : V1.precOf m = 0

theorem XMsMode.withKeys (ks : List String) : XMsMode [.mset, .setkeys ks] := ⟨rfl, rfl, rfl, rfl⟩

section XMs
variable {m : V1.Metas}

theorem XMsMode.tag (X : XMsMode m) : V1.dispatchTag m = .mset := by
  simp [V1.dispatchTag, X.noSet, X.mset]

theorem pm_specX (X : XMsMode m) :
    V1.hasSet (pm m) = false ∧ V1.hasMset (pm m) = true ∧ V1.hasMerge (pm m) = false ∧
      V1.dispatchTag (pm m) = .mset := by
  cases hk : V1.keysOf m <;>
    simp [pm, metaItems, X.noSet, X.mset, hk, V1.metaOfItems, V1.setkeysString, sk_ne_set,
      sk_ne_mset, sk_ne_merge, V1.hasSet, V1.hasMset, V1.hasMerge, V1.dispatchTag]

theorem x_hash (X : XMsMode m) : V1.hashCode m = V1.hashCode [.mset] := by
  funext x; exact V1S.hashCode_congr (by rw [X.tag]; rfl) x

theorem x_equals (X : XMsMode m) : V1.equals m = V1.equals [.mset] := by
  funext x y; exact V1S.equals_congr (by rw [X.tag]; rfl) (by rw [X.prec0]; rfl) x y

theorem MX : V1S.Mode [.mset] [.mset] := V1S.MsetMode.single.mode

theorem x_hf (X : XMsMode m) {S : List Json} (HF : V1S.HashFaithful m [.mset] S) :
    V1S.HashFaithful [.mset] [.mset] S := by
  intro x hx y hy e
  rw [← x_hash X] at e
  exact HF x hx y hy e

theorem nm_metaX (X : XMsMode m) (r old new : List Json) :
    NM { path := .arr .raw (metaItems m) :: r, old := old, new := new } := by
  cases hk : V1.keysOf m <;>
    simp [NM, V1.liftPath, V1.pathIsMerge, metaItems, X.noSet, X.mset, hk, V1.setkeysString,
      sk_ne_merge]

theorem pathNext_metaX (X : XMsMode m) :
    V1.pathNext (V1.liftPath [.arr .raw (metaItems m), .obj []]) = (.node (.obj []), pm m, []) := by
  obtain ⟨h1, h2, _⟩ := pm_specX X
  simp only [V1.pathNext, V1.liftPath, List.map_cons, List.map_nil, V1.pathNextAux,
    List.nil_append]
  show (V1.PElem.node (Json.obj []), (if (!V1.hasSet (pm m) && !V1.hasMset (pm m)) = true
    then pm m ++ [V1.Meta.set] else pm m), []) = _
  rw [h1, h2]; rfl

/-- the multiset hunk on an array: the leaf case of `jsonMultiset.patch` -/
theorem patchNode_mset_leafX (X : XMsMode m) (xs old new : List Json) :
    V1.patchNode false (.arr .raw xs) (V1.liftPath [.arr .raw (metaItems m), .obj []]) old new =
      V1.patchMsetLeaf m xs old new := by
  rw [V1.patchNode.eq_def]
  simp only [pathNext_metaX X, V1.effTag, (pm_specX X).2.2.2]
  simp only [V1.liftPath, List.map_cons, List.map_nil, V1.pathIsLeaf, Bool.false_eq_true,
    if_false, List.isEmpty_nil, if_true]
  exact V1S.patchMsetLeaf_congr (by rw [(pm_specX X).2.2.2, X.tag]) xs old new

theorem mset_stepX (F : FloatEq0) (X : XMsMode m) {S : List Json}
    (HF : V1S.HashFaithful m [.mset] S)
    (xs ys : List Json) (ha : Ok (.arr .raw xs)) (hb : Ok (.arr .raw ys))
    (wa : Within S (.arr .raw xs)) (wb : Within S (.arr .raw ys)) (p : List Json) :
    Step m [.mset] (.arr .raw xs) (.arr .raw ys) p := by
  have hd' : V1.dispatchTag m = .mset := X.tag
  have hE : ∀ x ∈ xs ++ ys, DocOk x ∧ Within S x := by
    intro x hx
    rcases List.mem_append.1 hx with h | h
    · exact ⟨(ha.elem h).docOk, wa.elem h⟩
    · exact ⟨(hb.elem h).docOk, wb.elem h⟩
  have Fa : V1S.Faithful [.mset] [.mset] (xs ++ ys) := V1S.faithful_of F MX (x_hf X HF) hE
  have hxs : ∀ x ∈ xs, x ∈ xs ++ ys := fun x h => List.mem_append.2 (Or.inl h)
  have hys : ∀ y ∈ ys, y ∈ xs ++ ys := fun y h => List.mem_append.2 (Or.inr h)
  obtain ⟨a1, a2⟩ := V1S.bagSurplus_spec m xs ys
  obtain ⟨b1, b2⟩ := V1S.bagSurplus_spec m ys xs
  unfold Step
  rw [V1S.diffNode_mset_mset hd']
  generalize V1S.bagSurplus m xs ys = rem at a1 a2
  generalize V1S.bagSurplus m ys xs = add at b1 b2
  rw [x_hash X] at a2 b2
  by_cases hemp : (rem.isEmpty && add.isEmpty) = true
  · rw [if_pos hemp]
    simp only [Bool.and_eq_true, List.isEmpty_iff] at hemp
    obtain ⟨rfl, rfl⟩ := hemp
    refine ⟨[], .arr .raw xs, rfl, by simp, rfl, ?_⟩
    rw [x_equals X]
    apply V1S.mset_result MX rfl Fa (Or.inl rfl) hxs hys
    intro c
    have h1 := a2 c
    have h2 := b2 c
    simp only [List.map_nil, List.count_nil] at h1 h2
    omega
  · rw [if_neg hemp]
    obtain ⟨zs, e, hsub, hcnt⟩ := V1S.patchMsetLeaf_counts m xs rem add (by
      intro c; rw [x_hash X, a2 c]; omega)
    rw [x_hash X] at hcnt
    have hnm : NM { path := [.arr .raw (metaItems m), .obj []], old := rem, new := add } :=
      nm_metaX X _ _ _
    refine ⟨[{ path := [.arr .raw (metaItems m), .obj []], old := rem, new := add }],
      .arr .mset zs, ?_, ?_, ?_, ?_⟩
    · rw [V1S.appendIndex_eq]; rfl
    · intro h hh
      simp only [List.mem_singleton] at hh
      subst hh; exact hnm
    · apply V1S.patchAll_single _ _ hnm
      show V1.patchNode false (.arr .raw xs) (V1.liftPath [.arr .raw (metaItems m), .obj []])
        rem add = _
      rw [patchNode_mset_leafX X, e]
    · rw [x_equals X]
      apply V1S.mset_result MX rfl Fa (Or.inr rfl)
      · intro z hz
        have := hsub z hz
        simp only [List.mem_append] at this
        rcases this with (h | h) | h
        · exact hxs z h
        · exact hxs z (a1 z h)
        · exact hys z (b1 z h)
      · exact hys
      · intro c
        rw [hcnt c, a2 c, b2 c]
        omega


theorem refl_bothX (F : FloatEq0) (L : FloatLaws) (X : XMsMode m) {S : List Json}
    (HF : V1S.HashFaithful m [.mset] S) {b : Json} (hb : Ok b) (wb : Within S b) :
    equivB [.mset] b b = true ∧ V1.equals m b b = true := by
  rw [x_equals X]
  exact V1S.refl_both F L MX (x_hf X HF) hb wb

theorem replace_stepX (F : FloatEq0) (L : FloatLaws) (X : XMsMode m) {S : List Json}
    (HF : V1S.HashFaithful m [.mset] S) {a b : Json} (ha : Ok a) (hb : Ok b)
    (wb : Within S b) (p : List Json) (addl : List Json) (hl : addl.length ≤ 1)
    (hs : Json.singleValue addl = b)
    (hdiff : V1.diffNode m false a b p = [{ path := p, old := a.nodeList, new := addl }]) :
    Step m [.mset] a b p := by
  obtain ⟨e1, e2⟩ := refl_bothX F L X HF hb wb
  refine ⟨[{ path := [], old := a.nodeList, new := addl }], b, ?_, ?_, ?_, e1, e2⟩
  · rw [hdiff]; simp [shift]
  · intro h hh
    simp only [List.mem_singleton] at hh
    subst hh; exact V1S.nm_nil _ _
  · rw [V1S.patch_replace L ha addl hl, hs]

theorem scalar_stepX (F : FloatEq0) (L : FloatLaws) (X : XMsMode m) {S : List Json}
    (HF : V1S.HashFaithful m [.mset] S) {a b : Json} (h1 : ∀ t xs, a ≠ .arr t xs)
    (h2 : ∀ kvs, a ≠ .obj kvs) (ha : Ok a) (hb : Ok b) (wb : Within S b) (p : List Json) :
    Step m [.mset] a b p := by
  have hd := V1P.diffNode_scalar m a b h1 h2 p
  by_cases he : V1.equals m a b = true
  · refine ⟨[], a, ?_, by simp, rfl, ?_, he⟩
    · rw [hd]; simp [V1.diffCommon, he]
    · rw [V1S.equivB_scalar_equals (m := m) (o := [.mset]) rfl X.prec0 h1 h2]; exact he
  · apply replace_stepX F L X HF ha hb wb p b.nodeList (V1S.nodeList_length_le b)
      (V1S.singleValue_nodeList b)
    rw [hd]; simp [V1.diffCommon, he]

theorem node_stepX (F : FloatEq0) (L : FloatLaws) (X : XMsMode m) {S : List Json}
    (HF : V1S.HashFaithful m [.mset] S) :
    ∀ a b, Ok a → Ok b → Within S a → Within S b → ∀ p, Step m [.mset] a b p := by
  intro a
  induction a using jsonInd with
  | void =>
    intro b ha hb _ wb p
    exact scalar_stepX F L X HF (fun _ _ e => by cases e) (fun _ e => by cases e) ha hb wb p
  | null =>
    intro b ha hb _ wb p
    exact scalar_stepX F L X HF (fun _ _ e => by cases e) (fun _ e => by cases e) ha hb wb p
  | bool x =>
    intro b ha hb _ wb p
    exact scalar_stepX F L X HF (fun _ _ e => by cases e) (fun _ e => by cases e) ha hb wb p
  | num x =>
    intro b ha hb _ wb p
    exact scalar_stepX F L X HF (fun _ _ e => by cases e) (fun _ e => by cases e) ha hb wb p
  | str x =>
    intro b ha hb _ wb p
    exact scalar_stepX F L X HF (fun _ _ e => by cases e) (fun _ e => by cases e) ha hb wb p
  | arr t xs _ =>
    intro b ha hb wa wb p
    have ht := ha.raw
    subst ht
    cases b with
    | arr t' ys =>
      have ht' := hb.raw
      subst ht'
      exact mset_stepX F X HF xs ys ha hb wa wb p
    | _ =>
      refine replace_stepX F L X HF ha hb wb p _ (V1S.nodeList_length_le _)
        (V1S.singleValue_nodeList _) ?_
      rw [V1S.diffNode_arr_other (Or.inr X.tag) xs _ (fun _ _ e => by cases e) p]
      rfl
  | obj kvs ih =>
    intro b ha hb wa wb p
    cases b with
    | obj kvs' =>
      have hsa := ha.sorted
      have hsb := hb.sorted
      obtain ⟨D1, cur1, e1, m1, h1, hs1, hother1, hmem1⟩ := V1S.kvs_step L m [.mset] kvs' hb p kvs
        (fun k v hm => ⟨(ha.val hm).1, (ha.val hm).2, fun v' hl q =>
          ih k v hm v' (ha.val hm).1 (hb.lookup hl).1 (wa.val hm) (wb.val (mem_of_alookup hl)) q⟩)
        hsa kvs hsa (fun k v hm => alookup_of_mem hsa hm)
      obtain ⟨cur2, h2, hs2, hother2, hmem2⟩ := V1S.patch_adds L
        (fun k => (alookup k kvs).isNone)
        kvs' hsb (fun k v hm => (hb.val hm).2) cur1 hs1 (fun k v' _ hP => by
          have hkn : alookup k kvs = none := by simpa using hP
          rw [hother1 k (fun v hm => by rw [alookup_of_mem hsa hm] at hkn; cases hkn), hkn])
      have hfin : ∀ k, match alookup k kvs' with
          | none => alookup k cur2 = none
          | some v' => ∃ z, alookup k cur2 = some z ∧ equivB [.mset] z v' = true ∧
              V1.equals m z v' = true := by
        intro k
        cases hlk' : alookup k kvs' with
        | some v' =>
          simp only []
          have hm' := mem_of_alookup hlk'
          cases hlk : alookup k kvs with
          | none =>
            obtain ⟨r1, r2⟩ := refl_bothX F L X HF (hb.val hm').1 (wb.val hm')
            exact ⟨v', hmem2 k v' hm' (by simp [hlk]), r1, r2⟩
          | some v =>
            have := hmem1 k v (mem_of_alookup hlk)
            rw [hlk'] at this
            obtain ⟨z, hz, hr⟩ := this
            refine ⟨z, ?_, hr⟩
            rw [hother2 k (fun _ _ => by simp [hlk]), hz]
        | none =>
          simp only []
          rw [hother2 k (fun v' hm => by rw [alookup_of_mem hsb hm] at hlk'; cases hlk')]
          cases hlk : alookup k kvs with
          | none =>
            rw [hother1 k (fun v hm => by rw [alookup_of_mem hsa hm] at hlk; cases hlk), hlk]
          | some v =>
            have := hmem1 k v (mem_of_alookup hlk)
            rw [hlk'] at this
            exact this
      obtain ⟨r1, r2⟩ := V1S.obj_result (m := m) hs2 hsb hfin
      refine ⟨D1 ++ (kvs'.filter (fun kv => (alookup kv.1 kvs).isNone)).map V1S.addHunk,
        .obj cur2, ?_, ?_, ?_, r1, r2⟩
      · rw [V1P.diffNode_obj_obj, e1, List.map_append, List.map_map]
        congr 1
      · intro h hh
        rcases List.mem_append.1 hh with hh | hh
        · exact m1 h hh
        · obtain ⟨kv, _, rfl⟩ := List.mem_map.1 hh
          rfl
      · rw [V1S.patchAll_append_ok _ _ _ _ h1]
        exact h2
    | _ =>
      refine replace_stepX F L X HF ha hb wb p [_] (by simp) rfl ?_
      rw [V1P.diffNode_obj_other m kvs _ (fun _ e => by cases e) p]
      rfl

/-- **C17, MULTISET + setkeys (strict strategy, precision 0), in memory**: `Setkeys` without SET
    changes nothing but the metadata strings in the paths (which the patch code ignores): for
    documents as read from JSON text, when among the sub-terms of `a` and `b` equal V1 hash codes
    occur only for equivalent nodes, `a.Patch(a.Diff(b, m...))` succeeds and the result `Equals` `b`
    and is equivalent to it as a bag. (`XMsMode m` also covers MULTISET without set keys.) -/
theorem v1_diff_patch_mset_setkeys (F : FloatEq0) (L : FloatLaws) (X : XMsMode m) (a b : Json)
    (ha : a.setDoc = true) (hb : b.setDoc = true)
    (ha' : DPL.memOK a = true) (hb' : DPL.memOK b = true)
    (HF : V1S.HashFaithful m [.mset] (subterms a ++ subterms b)) :
    ∃ r, V1.patchM a (V1.diffM m a b) = .ok r ∧ V1.equals m r b = true ∧
      equivB [.mset] r b = true := by
  obtain ⟨D, r, e, _, h, h1, h2⟩ := node_stepX F L X HF a b ⟨ha, ha'⟩ ⟨hb, hb'⟩
    (fun z hz => List.mem_append.2 (Or.inl hz)) (fun z hz => List.mem_append.2 (Or.inr hz)) []
  refine ⟨r, ?_, h2, h1⟩
  unfold V1.diffM V1.patchM
  rw [X.noMerge, e, V1S.shift_nil_map]
  exact h

/-- equivalent documents have an EMPTY diff under MULTISET (+ setkeys) -/
theorem diffNode_nil_of_equivB_X (F : FloatEq0) (X : XMsMode m) :
    ∀ a b, DocOk a → DocOk b → equivB [.mset] a b = true →
      ∀ p, V1.diffNode m false a b p = [] := by
  have scalar : ∀ a b : Json, (∀ t xs, a ≠ .arr t xs) → (∀ kvs, a ≠ .obj kvs) →
      equivB [.mset] a b = true → ∀ p, V1.diffNode m false a b p = [] := by
    intro a b h1 h2 h p
    rw [V1P.diffNode_scalar m a b h1 h2 p, V1S.diffCommon_nil_iff,
      ← V1S.equivB_scalar_equals (m := m) (o := [.mset]) rfl X.prec0 h1 h2]
    exact h
  intro a
  induction a using jsonInd with
  | void => intro b _ _ h; exact scalar _ b (fun _ _ e => by cases e) (fun _ e => by cases e) h
  | null => intro b _ _ h; exact scalar _ b (fun _ _ e => by cases e) (fun _ e => by cases e) h
  | bool x => intro b _ _ h; exact scalar _ b (fun _ _ e => by cases e) (fun _ e => by cases e) h
  | num x => intro b _ _ h; exact scalar _ b (fun _ _ e => by cases e) (fun _ e => by cases e) h
  | str x => intro b _ _ h; exact scalar _ b (fun _ _ e => by cases e) (fun _ e => by cases e) h
  | arr t xs _ =>
    intro b ha hb h p
    cases b with
    | arr t' ys =>
      have ht := ha.raw
      have ht' := hb.raw
      subst ht ht'
      have hhash : ∀ x ∈ xs, ∀ y ∈ ys, equivB [.mset] x y = true →
          V1.hashCode m x = V1.hashCode m y := by
        intro x hx y hy e
        rw [x_hash X]
        exact V1S.equivB_hash_core F MX x y (ha.elem hx) (hb.elem hy) e
      simp only [equivB, dispatchTag, Bool.and_eq_true, beq_iff_eq] at h
      have hperm := V1S.bagSub_key_perm (V1.hashCode m) [.mset] xs ys h.1 h.2 hhash
      have hc : ∀ c, countOcc c (V1.hashList m xs) = countOcc c (V1.hashList m ys) := by
        intro c
        rw [countOcc_eq_count, countOcc_eq_count, V1S.hashList_eq_map, V1S.hashList_eq_map]
        exact hperm.count_eq c
      rw [V1S.diffNode_mset_mset X.tag, V1S.bagSurplus_nil (fun c => Nat.le_of_eq (hc c)),
        V1S.bagSurplus_nil (fun c => Nat.le_of_eq (hc c).symm)]
      rfl
    | _ => simp [equivB] at h
  | obj kvs ih =>
    intro b ha hb h p
    cases b with
    | obj kvs' =>
      have hs := ha.sorted
      have hs' := hb.sorted
      simp only [equivB, Bool.and_eq_true, beq_iff_eq, equivKvs_eq_lookAll, lookAll_iff] at h
      have hflip := AllLook.flip hs hs' h.1 h.2
      have hkv : ∀ r : List (String × Json), (∀ kv ∈ r, kv ∈ kvs) →
          V1.diffKvs m false p kvs' r = [] := by
        intro r
        induction r with
        | nil => intro _; exact V1P.diffKvs_nil m p kvs'
        | cons kv r ihr =>
          intro hsub
          obtain ⟨k, v⟩ := kv
          have hm1 : (k, v) ∈ kvs := hsub _ List.mem_cons_self
          obtain ⟨v', hl, he⟩ := h.2 k v hm1
          have hm2 := mem_of_alookup hl
          rw [V1P.diffKvs_cons, ihr (fun kv hh => hsub kv (List.mem_cons_of_mem _ hh)), hl]
          simp only [List.append_nil]
          exact ih k v hm1 v' (ha.val hm1) (hb.val hm2) he _
      rw [V1P.diffNode_obj_obj, hkv kvs (fun _ hh => hh),
        filter_added_nil (kvs := kvs) (kvs' := kvs') (fun k' v' hm' => by
          obtain ⟨w, hl, _⟩ := hflip k' v' hm'
          simp [hl])]
      rfl
    | _ => simp [equivB] at h

/-- MULTISET + setkeys: the diff is empty exactly when `Equals` holds -/
theorem v1_diff_empty_iff_equals_mset_setkeys (F : FloatEq0) (L : FloatLaws) (X : XMsMode m)
    (a b : Json) (ha : a.setDoc = true) (hb : b.setDoc = true)
    (ha' : DPL.memOK a = true) (hb' : DPL.memOK b = true)
    (HF : V1S.HashFaithful m [.mset] (subterms a ++ subterms b)) :
    V1.diffM m a b = [] ↔ V1.equals m a b = true := by
  constructor
  · intro hd
    obtain ⟨r, h1, h2, _⟩ := v1_diff_patch_mset_setkeys F L X a b ha hb ha' hb' HF
    rw [hd] at h1
    cases h1
    exact h2
  · intro he
    have wa : Within (subterms a ++ subterms b) a := fun z hz => List.mem_append.2 (Or.inl hz)
    have wb : Within (subterms a ++ subterms b) b := fun z hz => List.mem_append.2 (Or.inr hz)
    rw [x_equals X, V1S.equals_eq_equivB_of F MX (x_hf X HF) (docOk_of_setDoc ha)
      (docOk_of_setDoc hb) wa wb] at he
    unfold V1.diffM
    rw [X.noMerge]
    exact diffNode_nil_of_equivB_X F X a b (docOk_of_setDoc ha) (docOk_of_setDoc hb) he []


/-! ## through the text -/

theorem metaItems_rawX (X : XMsMode m) : rawDocList (metaItems m) = true := by
  cases hk : V1.keysOf m <;>
    simp [metaItems, X.noSet, X.mset, hk, Json.rawDoc, rawDocList]

theorem metaItems_novoidX (X : XMsMode m) : (metaItems m).any Json.isVoid = false := by
  cases hk : V1.keysOf m <;>
    simp [metaItems, X.noSet, X.mset, hk, Json.isVoid]

/-- the multiset hunk -/
theorem gh_metaX (X : XMsMode m) {rem add : List Json}
    (h1 : ∀ v ∈ rem, v.rawDoc = true ∧ v.isVoid = false)
    (h2 : ∀ v ∈ add, v.rawDoc = true ∧ v.isVoid = false) (hne : ¬ (rem = [] ∧ add = [])) :
    GH { path := [.arr .raw (metaItems m), .obj []], old := rem, new := add } where
  nm := nm_metaX X _ _ _
  path := by simp [rawDocList, metaItems_rawX X, Json.rawDoc, rawDocKvs]
  mOK := by simp [V1S.metaOK, metaItems_novoidX X]
  nmr := by
    unfold V1S.rendersMerge V1.pathRendersMerge
    rw [pathNext_metaX X]
    exact (pm_specX X).2.2.1
  old := V1S.rawDocList_of_mem (fun v hv => (h1 v hv).1)
  oldv := fun v hv => (h1 v hv).2
  new := V1S.rawDocList_of_mem (fun v hv => (h2 v hv).1)
  newv := fun v hv => (h2 v hv).2
  ne := hne
  chk := by
    unfold V1.checkHunk
    split <;> rfl

/-- the hunks of a MULTISET (+ setkeys) diff are `GH` hunks; no hash hypothesis -/
theorem shape_nodeX (X : XMsMode m) :
    ∀ a b, Ok a → Ok b → vfree a = true → vfree b = true → b.isVoid = false → Shape m a b := by
  intro a
  induction a using jsonInd with
  | void =>
    intro b ha hb _ _ hbv
    exact V1S.shape_scalar (fun _ _ e => by cases e) (fun _ e => by cases e) ha.rawDoc hb.rawDoc hbv
  | null =>
    intro b ha hb _ _ hbv
    exact V1S.shape_scalar (fun _ _ e => by cases e) (fun _ e => by cases e) ha.rawDoc hb.rawDoc hbv
  | bool x =>
    intro b ha hb _ _ hbv
    exact V1S.shape_scalar (fun _ _ e => by cases e) (fun _ e => by cases e) ha.rawDoc hb.rawDoc hbv
  | num x =>
    intro b ha hb _ _ hbv
    exact V1S.shape_scalar (fun _ _ e => by cases e) (fun _ e => by cases e) ha.rawDoc hb.rawDoc hbv
  | str x =>
    intro b ha hb _ _ hbv
    exact V1S.shape_scalar (fun _ _ e => by cases e) (fun _ e => by cases e) ha.rawDoc hb.rawDoc hbv
  | arr t xs _ =>
    intro b ha hb va vb hbv
    have ht := ha.raw
    subst ht
    cases b with
    | arr t' ys =>
      have ht' := hb.raw
      subst ht'
      have vxs : vfreeList xs = true := by simpa [vfree] using va
      have vys : vfreeList ys = true := by simpa [vfree] using vb
      have hxs : ∀ v ∈ xs, v.rawDoc = true ∧ v.isVoid = false :=
        fun v hv => ⟨(ha.elem hv).rawDoc, (V1S.vfreeList_mem vxs hv).1⟩
      have hys : ∀ v ∈ ys, v.rawDoc = true ∧ v.isVoid = false :=
        fun v hv => ⟨(hb.elem hv).rawDoc, (V1S.vfreeList_mem vys hv).1⟩
      intro p
      obtain ⟨a1, _⟩ := V1S.bagSurplus_spec m xs ys
      obtain ⟨b1, _⟩ := V1S.bagSurplus_spec m ys xs
      rw [V1S.diffNode_mset_mset X.tag]
      generalize V1S.bagSurplus m xs ys = rem at a1
      generalize V1S.bagSurplus m ys xs = add at b1
      by_cases hemp : (rem.isEmpty && add.isEmpty) = true
      · rw [if_pos hemp]; exact ⟨[], rfl, by simp⟩
      · rw [if_neg hemp]
        refine ⟨[{ path := [.arr .raw (metaItems m), .obj []], old := rem, new := add }], ?_, ?_⟩
        · rw [V1S.appendIndex_eq]; rfl
        · intro h hh
          simp only [List.mem_singleton] at hh
          subst hh
          exact gh_metaX X (fun v hv => hxs v (a1 v hv)) (fun v hv => hys v (b1 v hv))
            (by simpa [List.isEmpty_iff] using hemp)
    | _ =>
      apply V1S.shape_single (x := .arr .raw xs) ha.rawDoc hb.rawDoc (by simp [Json.isVoid])
      intro p
      rw [V1S.diffNode_arr_other (Or.inr X.tag) xs _ (fun _ _ e => by cases e) p]
      rfl
  | obj kvs ih =>
    intro b ha hb va vb hbv
    cases b with
    | obj kvs' =>
      have vkvs : vfreeKvs kvs = true := by simpa [vfree] using va
      have vkvs' : vfreeKvs kvs' = true := by simpa [vfree] using vb
      intro p
      obtain ⟨D1, e1, g1⟩ := V1S.shape_kvs (m := m) kvs' kvs
        (fun k v hm => ⟨(ha.val hm).1.rawDoc, (ha.val hm).2, fun v' hl =>
          ih k v hm v' (ha.val hm).1 (hb.lookup hl).1 (V1S.vfreeKvs_mem vkvs hm).2
            (V1S.vfreeKvs_mem vkvs' (mem_of_alookup hl)).2 (hb.lookup hl).2⟩) p
      obtain ⟨D2, e2, g2⟩ := V1S.shape_adds kvs kvs'
        (fun k v hm => ⟨(hb.val hm).1.rawDoc, (hb.val hm).2⟩) p
      refine ⟨D1 ++ D2, ?_, ?_⟩
      · rw [V1P.diffNode_obj_obj, e1, e2, List.map_append]
      · intro h hh
        rcases List.mem_append.1 hh with hh | hh
        · exact g1 h hh
        · exact g2 h hh
    | _ =>
      apply V1S.shape_single (x := .obj kvs) ha.rawDoc hb.rawDoc (by simp [Json.isVoid])
      intro p
      rw [V1P.diffNode_obj_other m kvs _ (fun _ e => by cases e) p]
      first
      | (simp [Json.nodeList, Json.isVoid]; done)
      | exact absurd hbv (by simp [Json.isVoid])

/-- **C17, MULTISET + setkeys, through the text**: the diff read back from its rendered text IS the
    diff, hence patching `a` with it yields a document that `Equals` `b` -/
theorem v1_text_roundtrip_mset_setkeys (F : FloatEq0) (L : FloatLaws) (nc : NumCodec)
    (X : XMsMode m) (a b : Json) (ha : a.setDoc = true) (hb : b.setDoc = true)
    (ha' : DPL.memOK a = true) (hb' : DPL.memOK b = true)
    (va : vfree a = true) (vb : vfree b = true) (hbv : b.isVoid = false)
    (HF : V1S.HashFaithful m [.mset] (subterms a ++ subterms b))
    (hc : V1S.CodecOK nc (V1.diffM m a b)) (text : String)
    (hr : V1.renderM nc false (V1.liftDiff (V1.diffM m a b)) = .ok (some text)) :
    V1.readDiffM nc text = .ok (V1.diffM m a b) ∧
    ∃ r, V1.patchM a (V1.diffM m a b) = .ok r ∧ V1.equals m r b = true ∧
      equivB [.mset] r b = true := by
  refine ⟨?_, v1_diff_patch_mset_setkeys F L X a b ha hb ha' hb' HF⟩
  obtain ⟨D, e, g⟩ := shape_nodeX X a b ⟨ha, ha'⟩ ⟨hb, hb'⟩ va vb hbv []
  rw [V1S.shift_nil_map] at e
  have hd : V1.diffM m a b = D := by unfold V1.diffM; rw [X.noMerge, e]
  rw [hd] at hc hr ⊢
  exact V1S.v1_read_render_raw nc D text g hc hr

/-- non-vacuity: the pair of JdProofs/V1SetDiffPatch under `[MULTISET, Setkeys("id")]` -/
example (F : FloatEq0) (L : FloatLaws) :
    ∃ r, V1.patchM V1S.Example.exA
        (V1.diffM [.mset, .setkeys ["id"]] V1S.Example.exA V1S.Example.exB) = .ok r ∧
      V1.equals [.mset, .setkeys ["id"]] r V1S.Example.exB = true ∧
      equivB [.mset] r V1S.Example.exB = true :=
  v1_diff_patch_mset_setkeys F L (XMsMode.withKeys ["id"]) _ _ V1S.Example.ex_docs.1
    V1S.Example.ex_docs.2.1 V1S.Example.ex_docs.2.2.1 V1S.Example.ex_docs.2.2.2
    (ExampleM.hashFaithful_of_tag (m := [.mset]) rfl V1S.Example.ex_hashFaithful_mset)

end XMs
end Jd.V1K
