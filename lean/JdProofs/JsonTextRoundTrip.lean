/-
  JdProofs.JsonTextRoundTrip (namespace `Jd.JText`) — THE JSON TEXT LAYER of the model
  (JdModel/Text.lean: `quoteString`, `jsonText`, `jsonM` = `node.Json()`, `marshalNode` =
  `json.Marshal(node)`, the lexer / parser `lexString`, `lexNumber`, `parseValue`, `parseElems`,
  `parseMembers`, `parseJson` = `json.Unmarshal`, `readJsonM` = `ReadJsonString`): the printer and
  the parser of the model are inverse to each other on every document a reader can produce, and the
  format theorems of the project that stopped at the DOCUMENT level are lifted to the TEXT level.

  STAGE REACHED: D (strings, documents without numbers, numbers under `NumOK`, the consequences
  (a)–(c)), plus the v1 twins and the integer case of `NumOK`. No open goal, no counterexample inside
  the domain.

  ═══ MAIN THEOREMS ═══
   Stage A (strings; no hypothesis)
     `lexString_escapeChar`  characters: `lexString (fuel+1) acc (escapeChar c ++ r) = lexString fuel (c :: acc) r`
                             for EVERY `c : Char` (the two-character escapes, `\u00XX` for controls and
                             `< > &`, `\u2028`, `\u2029`, everything else verbatim, DEL and U+FFFD included).
     `lexString_quoted`      strings: the escaped body followed by `"` and ANY rest is read back, with
                             the fuel `parseValue` / `parseMembers` pass (`length + 1`).
     `parseJson_quoteString` `parseJson nc (quoteString s) = some (.str s)` for every `s : String`.
                             `strOK` is not needed: see FINDINGS.
   Stages B, C (documents)
     `pv_text` / `pe_text` / `pm_text`  the fuel-explicit core, by mutual structural induction:
                             `parseValue nc f (text v ++ rest) = some (v, rest)` for every `f ≥ sz v` and
                             every `rest` with `delim rest` (empty, or not starting with a digit, `.`,
                             `e`, `E`: what would extend a number token; `,` `]` `}` and white space are
                             delimiters); elements up to `]`, members up to `}` with the accumulator of
                             `ainsert` (`ainsert_snoc`: inserting increasing keys appends).
     `sz_le`                 `sz v ≤ length (text v)`: the fuel `length + 2` of `parseJson` suffices.
     `parseJson_text`        the top level: `parseJson nc (ws ++ text v ++ ws') = some v` for JSON white
                             space `ws`, `ws'` (the whole input is consumed); `readJsonM_text` the same
                             for `ReadJsonString` (the text is not blank).
     `jsonM_parse` (`_ws`)   FULL DOMAIN, any tags: `v.wf`, `voidFree v`, `NumOK nc v` ⟹
                             `∃ s, jsonM nc v = some s ∧ parseJson nc s = some (rawNorm v)`
                             — what comes back for typed array nodes is `raw()` as a document: every
                             array plain, a SET-typed array deduplicated and in hash order.
     `jsonM_roundtrip`       `v.rawDoc` in addition ⟹ `parseJson nc s = some v`.
     `jsonM_untag`           `setFree v` (no set-typed array; e.g. `listDoc`, `setFree_of_listDoc`) ⟹
                             `parseJson nc s = some (untag v)`.
     `marshalNode_parse` (`_ws`)  domain `mOK` (as above; void allowed where `json.Marshal` prints it as
                             `{}`: the value itself or an element of arrays outside objects):
                             `∃ s, marshalNode nc v = some s ∧ parseJson nc s = some (mnorm v)` where
                             `mnorm` = arrays element-wise in stored order with the tag erased, objects
                             through `rawNorm`, void ↦ `{}` (`marshalNode_eq : marshalNode nc v =
                             jsonText nc (mnorm v)`).
     `marshalNode_untag`     `mSetFree v` (no set-typed array INSIDE AN OBJECT — the only place where
                             `marshalNode` differs from `untag`), `wf`, `voidFree`, `NumOK` ⟹
                             `parseJson nc s = some (untag v)`.
   Stage D (consequences)
     (a) `valOK`, `pathOK`, `codecOK`: `NativeRT.ValOK nc v`, `NativeRT.PathOK nc p`,
         `NativeRT.CodecOK nc d` from the decidable hypotheses `wf`, `voidFree`, `NumOK`, `mSetFree`
         (values) / `setFree` (paths, on `pathToJson p`), including "no newline in the text"
         (`jsonText_noNL`). `read_render_of_docs`: C02 (i) `NativeRT.read_render` with `CodecOK`
         discharged. For documents without numbers `NumOK` is `true` by evaluation; for integers see
         `numOK_int`.
     (b) `renderPatchM_eq`: `RenderPatch` IS `jsonText` of the array of the operation objects
         `{"op":…,"path":…,"value":mnorm v}` (so it fails exactly when `renderPatchOps` fails or a
         number cannot be printed). `readPatchM_renderPatchM`: for `renderPatchOps d = .ok ops` with
         values in `mOK`, `∃ text, renderPatchM nc d = .ok (some text) ∧
         readPatchM nc text = readPatchOps (ops.map normOp)` (`normOp` = value through `mnorm`);
         `readPatchM_renderPatchM_untag`: `= readPatchOps (ops.map untagOp)` for typed values;
         `readPatchM_renderPatchM_own`: for every diff whose WRITTEN values are documents as read
         (`HunkVals (DocOK nc)`: non-void context values, and the remove / add lists unless they start
         with void — those are not written), in all three outcomes of `renderPatchOps d`:
         `readPatchM nc (renderPatchM nc d) = readPatchOps (renderPatchOps d)`. This is the missing
         step between `renderPatchM` / `readPatchM` and `NMP.readPatchOps_render…`, `Own.*` (C09/C10).
     (c) `readMergeM_renderMergeM`: `renderMergeDoc d = .ok n`, `n` void or `preOK` ⟹
         `∃ s, renderMergeM nc d = .ok (some s) ∧ readMergeM nc s = .ok (readMergeDoc (rawNorm n))`;
         `readMergeM_renderMergeM_own`: `n` void or `DocOK` ⟹ `… = .ok (readMergeDoc n)`, in all three
         outcomes of `renderMergeDoc d` (C11/C12 start from `readMergeDoc`).
   v1 twins (`namespace V1T`; `/repo/lib` shares `jsonText` / `parseJson`, its `raw()` orders sets by
         the V1 hash): `V1T.jsonM_parse`, `V1T.jsonM_roundtrip`, `V1T.marshalNode_parse`,
         `V1T.readJsonM_marshalNode` (payload lines of the v1 native format), `V1T.readPatchM_renderPatchM`
         (`_own`), `V1T.readMergeM_renderMergeM`.
   Integers  `numOK_int`: a binary64 `b ≠ -0` with integral value `i`, `|i| < 10^15`, is `numOK nc b`
         for every codec that does not know the token or reads it correctly (the model's own integer
         formatting `Nat.repr` and parsing; uses `Yaml.intToFloatBits_of_floatToInt`);
         `numOK_negZero` for `-0`.

  ═══ HYPOTHESES and why ═══
    `v.wf`            sorted unique keys: the parser inserts members with `ainsert` (last duplicate wins,
                      sorted); a document with unsorted or duplicate keys is not what any reader produces.
    `Yaml.voidFree v` (JdModel/Yaml.lean) no void node inside: `raw()` of void is the string "" —
                      `void_inside_not_roundtripped` (by design, not a defect).
    `NumOK nc v`      (Bool) every number `b` of `v` satisfies `numOK nc b`: `fmtNum nc b = some s`, `s` is
                      ONE token of the JSON number grammar (`lexNumber s = some (s, [])`) and
                      `parseNumToken nc s = some b`. `strconv` is a parameter of the model (`NumCodec`,
                      the function graph on the tokens at hand), so this cannot be a theorem; it is a
                      theorem for integers (`numOK_int`), and `numOK_1e15_emptyCodec` shows that it is
                      a genuine hypothesis beyond 15 digits.
    `v.rawDoc` / `setFree v` / `mSetFree v`   only to say that what comes back is `v` / `untag v`; without
                      them the statement is about `rawNorm v` / `mnorm v`.
    `delim rest`      inside the core lemma only: a number token must not be continued by the input.
    All of them are Bool-valued functions of the input (`preOK nc v` is their conjunction:
    `preOK_iff`).

  ═══ FINDINGS ═══
    * NO disagreement between the model's printer and parser on strings: the theorem holds for every
      `String`. A Lean `String` is a sequence of Unicode scalar values, so lone surrogates and invalid
      UTF-8 — the only inputs on which Go's `json.Marshal` is lossy (it writes U+FFFD) — are not in the
      model's value universe; the surrogate / U+FFFD branches of `lexString` are never reached on
      printed text. Replayed on Go (encoding/json, go run in /tmp/gochk): all 1 112 064 scalar values
      round-trip through Marshal / Unmarshal; "a\xffb" ↦ "a�b". `/` is written verbatim, DEL
      verbatim, `< > &` U+2028 U+2029 escaped: as the model.
    * `-0` is printed `-0` and read back as -0 (`numOK_negZero`), in Go too.
    * Model remark (not Go): `fmtNum` formats integers below 2^53 itself but `parseNumToken` parses
      only up to 15 digits itself; between 10^15 and 2^53 the round trip relies on `nc.parse`
      (`numOK_1e15_emptyCodec`). The comment in JdModel/Text.lean ("formatted / parsed by the model
      itself") is accurate only below 10^15.

  NOT PROVED / OUTSIDE: non-integral numbers (they are the codec's: hypothesis `NumOK`); documents
  with void inside or unsorted keys (outside the domain, see above); reading texts that the model did
  not print (other white space inside, `\/`, `\uXXXX` for printable characters, surrogate pairs,
  duplicate keys): only own output is covered, with arbitrary JSON white space AROUND it; the v1
  native-format theorems are not re-derived (only the payload lemma `V1T.readJsonM_marshalNode`).
-/
import JdModel
import JdSpec
import JdProofs.NativeRoundTrip
import JdProofs.YamlProofs
import JdProofs.PatchRender

set_option linter.deprecated false

namespace Jd.JText
open Jd Jd.Spec

/-! ## 1. characters -/

theorem lexString_quote (fuel : Nat) (acc r : List Char) :
    lexString (fuel+1) acc ('"' :: r) = some (String.ofList acc.reverse, r) := by
  simp [lexString]

theorem lexString_plain (fuel : Nat) (acc r : List Char) (c : Char) (h1 : c ≠ '"') (h2 : c ≠ '\\')
    (h3 : ¬ c.toNat < 0x20) : lexString (fuel+1) acc (c :: r) = lexString fuel (c :: acc) r := by
  conv => lhs; unfold lexString
  split <;> simp_all
  omega

theorem lexString_esc (fuel : Nat) (acc r : List Char) (e d : Char)
    (h : (e, d) ∈ [('"', '"'), ('\\', '\\'), ('b', '\x08'), ('f', '\x0c'), ('n', '\n'), ('r', '\r'), ('t', '\t')]) :
    lexString (fuel+1) acc ('\\' :: e :: r) = lexString fuel (d :: acc) r := by
  simp only [List.mem_cons, Prod.mk.injEq, List.mem_nil_iff, or_false] at h
  rcases h with ⟨rfl, rfl⟩|⟨rfl, rfl⟩|⟨rfl, rfl⟩|⟨rfl, rfl⟩|⟨rfl, rfl⟩|⟨rfl, rfl⟩|⟨rfl, rfl⟩ <;>
    simp [lexString]

theorem hexDigitVal_hexNibble (n : Nat) (h : n < 16) : hexDigitVal (hexNibble n) = some n := by
  have : n = 0 ∨ n = 1 ∨ n = 2 ∨ n = 3 ∨ n = 4 ∨ n = 5 ∨ n = 6 ∨ n = 7 ∨ n = 8 ∨ n = 9 ∨ n = 10 ∨
      n = 11 ∨ n = 12 ∨ n = 13 ∨ n = 14 ∨ n = 15 := by omega
  rcases this with h|h|h|h|h|h|h|h|h|h|h|h|h|h|h|h <;> subst h <;> decide

/-- a `\uXXXX` escape of a non-surrogate code unit -/
theorem lexString_u (fuel : Nat) (acc r : List Char) (a b c d : Char) (u : Nat)
    (h : hex4 (a :: b :: c :: d :: r) = some (u, r)) (hu : u < 0xD800 ∨ 0xE000 ≤ u) :
    lexString (fuel+1) acc ('\\' :: 'u' :: a :: b :: c :: d :: r) = lexString fuel (Char.ofNat u :: acc) r := by
  conv => lhs; unfold lexString
  simp only [h]
  have h1 : ¬ (0xD800 ≤ u ∧ u < 0xDC00) := by omega
  have h2 : ¬ (0xDC00 ≤ u ∧ u < 0xE000) := by omega
  simp [h1, h2]

theorem lexString_u00 (fuel : Nat) (acc r : List Char) (c : Char) (h : c.toNat < 0x80) :
    lexString (fuel+1) acc ('\\' :: 'u' :: '0' :: '0' :: hexNibble (c.toNat / 16) :: hexNibble (c.toNat % 16) :: r)
      = lexString fuel (c :: acc) r := by
  have h1 := hexDigitVal_hexNibble (c.toNat / 16) (by omega)
  have h2 := hexDigitVal_hexNibble (c.toNat % 16) (by omega)
  have h0 : hexDigitVal '0' = some 0 := by decide
  have hc : Char.ofNat c.toNat = c := by simp
  have hv : ((0 * 16 + 0) * 16 + c.toNat / 16) * 16 + c.toNat % 16 = c.toNat := by omega
  rw [lexString_u fuel acc r _ _ _ _ c.toNat _ (by omega), hc]
  simp [hex4, h0, h1, h2]
  omega

/-- **characters**: whatever `appendString` writes for one rune is read back as that rune -/
theorem lexString_escapeChar (fuel : Nat) (acc r : List Char) (c : Char) :
    lexString (fuel+1) acc (escapeChar c ++ r) = lexString fuel (c :: acc) r := by
  unfold escapeChar
  split
  · next h => simp only [beq_iff_eq] at h; subst h; exact lexString_esc fuel acc r _ _ (by simp)
  split
  · next h => simp only [beq_iff_eq] at h; subst h; exact lexString_esc fuel acc r _ _ (by simp)
  split
  · next h => simp only [beq_iff_eq] at h; subst h; exact lexString_esc fuel acc r _ _ (by simp)
  split
  · next h => simp only [beq_iff_eq] at h; subst h; exact lexString_esc fuel acc r _ _ (by simp)
  split
  · next h => simp only [beq_iff_eq] at h; subst h; exact lexString_esc fuel acc r _ _ (by simp)
  split
  · next h => simp only [beq_iff_eq] at h; subst h; exact lexString_esc fuel acc r _ _ (by simp)
  split
  · next h => simp only [beq_iff_eq] at h; subst h; exact lexString_esc fuel acc r _ _ (by simp)
  split
  · next h =>
    have : c.toNat < 0x80 := by
      simp only [Bool.or_eq_true, decide_eq_true_eq, beq_iff_eq] at h
      rcases h with ((h | h) | h) | h
      · omega
      · subst h; decide
      · subst h; decide
      · subst h; decide
    exact lexString_u00 fuel acc r c this
  split
  · next h =>
    simp only [beq_iff_eq] at h
    have hc : c = Char.ofNat 0x2028 := by rw [← h]; simp
    subst hc
    exact lexString_u fuel acc r '2' '0' '2' '8' 0x2028 (by simp [hex4, hexDigitVal]) (by omega)
  split
  · next h =>
    simp only [beq_iff_eq] at h
    have hc : c = Char.ofNat 0x2029 := by rw [← h]; simp
    subst hc
    exact lexString_u fuel acc r '2' '0' '2' '9' 0x2029 (by simp [hex4, hexDigitVal]) (by omega)
  · next h1 h2 h3 h4 h5 h6 h7 h8 h9 h10 =>
    simp only [Bool.or_eq_true, decide_eq_true_eq, beq_iff_eq, not_or] at h8
    simp only [beq_iff_eq] at h1 h2
    exact lexString_plain fuel acc r c h1 h2 (by omega)

/-! ## 2. strings -/

/-- the escaped body of a string, on character lists -/
def escL (cs : List Char) : List Char := cs.flatMap escapeChar

theorem escapeChar_ne_nil (c : Char) : escapeChar c ≠ [] := by
  unfold escapeChar
  repeat' split
  all_goals simp

theorem length_le_escL : ∀ cs : List Char, cs.length ≤ (escL cs).length
  | [] => by simp [escL]
  | c :: r => by
    have ih := length_le_escL r
    have : 1 ≤ (escapeChar c).length := by
      cases h : escapeChar c with
      | nil => exact absurd h (escapeChar_ne_nil c)
      | cons _ _ => simp
    simp only [escL, List.flatMap_cons, List.length_append, List.length_cons] at ih ⊢
    omega

/-- **strings** (on the body): the escaped body followed by the closing quote is read back, with
    any fuel of at least the number of runes plus one -/
theorem lexString_escL : ∀ (cs acc rest : List Char) (k : Nat),
    lexString (cs.length + 1 + k) acc (escL cs ++ '"' :: rest) = some (String.ofList (acc.reverse ++ cs), rest)
  | [], acc, rest, k => by
    simp only [escL, List.flatMap_nil, List.nil_append, List.length_nil, Nat.zero_add, List.append_nil]
    rw [Nat.add_comm 1 k]; exact lexString_quote k acc rest
  | c :: cs, acc, rest, k => by
    have ih := lexString_escL cs (c :: acc) rest k
    have e : (c :: cs).length + 1 + k = (cs.length + 1 + k) + 1 := by simp only [List.length_cons]; omega
    rw [e]
    simp only [escL, List.flatMap_cons, List.append_assoc] at ih ⊢
    rw [lexString_escapeChar, ih]
    simp

theorem quoteString_toList (s : String) : (quoteString s).toList = '"' :: (escL s.toList ++ ['"']) := by
  simp [quoteString, escapeBody, escL, String.toList_append]

/-- the string lexer as `parseValue` / `parseMembers` call it, on a quoted string followed by anything -/
theorem lexString_quoted (s : String) (rest : List Char) :
    lexString ((escL s.toList ++ '"' :: rest).length + 1) [] (escL s.toList ++ '"' :: rest) = some (s, rest) := by
  have hle := length_le_escL s.toList
  have e : (escL s.toList ++ '"' :: rest).length + 1 =
      s.toList.length + 1 + ((escL s.toList ++ '"' :: rest).length - s.toList.length) := by
    simp only [List.length_append, List.length_cons] at *
    omega
  rw [e, lexString_escL]
  simp [String.ofList_toList]

/-! ## 3. number tokens -/

/-- what may follow a number token: anything that does not extend it (end of input, or a character
    other than a digit, `.`, `e`, `E`) -/
def delim : List Char → Bool
  | [] => true
  | c :: _ => !(isDigit c) && c != '.' && c != 'e' && c != 'E'

theorem takeDigits_append (rest : List Char) (hr : delim rest = true) :
    ∀ l : List Char, takeDigits (l ++ rest) = ((takeDigits l).1, (takeDigits l).2 ++ rest)
  | [] => by
    cases rest with
    | nil => simp [takeDigits]
    | cons c r =>
      simp only [delim, Bool.and_eq_true, Bool.not_eq_true'] at hr
      simp [takeDigits, hr.1.1.1]
  | c :: l => by
    have ih := takeDigits_append rest hr l
    by_cases hc : isDigit c = true
    · simp [takeDigits, hc, ih]
    · simp [takeDigits, hc]

def signSplit : List Char → List Char × List Char
  | '+' :: t => (['+'], t)
  | '-' :: t => (['-'], t)
  | t => ([], t)

theorem lexExp_cons (acc : List Char) (e : Char) (r1 : List Char) :
    lexNumber.lexExp acc (e :: r1) =
      if (e == 'e' || e == 'E') = true then
        (if (takeDigits (signSplit r1).2).1.isEmpty = true then none
         else some (acc ++ e :: (signSplit r1).1 ++ (takeDigits (signSplit r1).2).1, (takeDigits (signSplit r1).2).2))
      else some (acc, e :: r1) := by
  simp only [lexNumber.lexExp, signSplit]
  rfl

theorem signSplit_other (c : Char) (l : List Char) (h1 : c ≠ '+') (h2 : c ≠ '-') :
    signSplit (c :: l) = ([], c :: l) := by
  unfold signSplit; split <;> simp_all

theorem signSplit_append (c : Char) (t rest : List Char) :
    signSplit (c :: t ++ rest) = ((signSplit (c :: t)).1, (signSplit (c :: t)).2 ++ rest) := by
  by_cases h1 : c = '+'
  · subst h1; simp [signSplit]
  by_cases h2 : c = '-'
  · subst h2; simp [signSplit]
  simp [signSplit_other _ _ h1 h2]

theorem lexExp_append (rest : List Char) (hr : delim rest = true) (acc r a t : List Char)
    (h : lexNumber.lexExp acc r = some (a, t)) :
    lexNumber.lexExp acc (r ++ rest) = some (a, t ++ rest) := by
  cases r with
  | nil =>
    simp [lexNumber.lexExp] at h
    obtain ⟨rfl, rfl⟩ := h
    cases rest with
    | nil => simp [lexNumber.lexExp]
    | cons c r =>
      simp only [delim, Bool.and_eq_true, Bool.not_eq_true', bne_iff_ne, ne_eq] at hr
      simp [lexNumber.lexExp, hr.1.2, hr.2]
  | cons e r1 =>
    rw [List.cons_append, lexExp_cons]
    rw [lexExp_cons] at h
    by_cases he : (e == 'e' || e == 'E') = true
    · rw [if_pos he] at h ⊢
      cases r1 with
      | nil => simp [signSplit, takeDigits] at h
      | cons c t' =>
        rw [signSplit_append]
        simp only [takeDigits_append rest hr]
        split at h
        · simp at h
        · next hne =>
          rw [if_neg hne]
          simp only [Option.some.injEq, Prod.mk.injEq] at h
          rw [← h.1, ← h.2]
    · rw [if_neg he] at h ⊢
      simp only [Option.some.injEq, Prod.mk.injEq] at h
      rw [← h.1, ← h.2]; simp

theorem lexFrac_cons (acc : List Char) (c : Char) (r1 : List Char) :
    lexNumber.lexFrac acc (c :: r1) =
      if c = '.' then
        (if (takeDigits r1).1.isEmpty = true then none
         else lexNumber.lexExp (acc ++ '.' :: (takeDigits r1).1) (takeDigits r1).2)
      else lexNumber.lexExp acc (c :: r1) := by
  by_cases h : c = '.'
  · subst h; simp [lexNumber.lexFrac]
  · rw [if_neg h]; unfold lexNumber.lexFrac; split <;> simp_all

theorem lexFrac_append (rest : List Char) (hr : delim rest = true) (acc r a t : List Char)
    (h : lexNumber.lexFrac acc r = some (a, t)) :
    lexNumber.lexFrac acc (r ++ rest) = some (a, t ++ rest) := by
  cases r with
  | nil =>
    have h' : lexNumber.lexExp acc [] = some (a, t) := by simpa [lexNumber.lexFrac] using h
    have := lexExp_append rest hr acc [] a t h'
    cases rest with
    | nil => simpa [lexNumber.lexFrac] using this
    | cons c r =>
      rw [List.nil_append, lexFrac_cons]
      simp only [delim, Bool.and_eq_true, Bool.not_eq_true', bne_iff_ne, ne_eq] at hr
      rw [if_neg hr.1.1.2]; simpa using this
  | cons c r1 =>
    rw [List.cons_append, lexFrac_cons]
    rw [lexFrac_cons] at h
    by_cases hc : c = '.'
    · rw [if_pos hc] at h ⊢
      simp only [takeDigits_append rest hr]
      split at h
      · simp at h
      · next hne => rw [if_neg hne]; exact lexExp_append rest hr _ _ a t h
    · rw [if_neg hc] at h ⊢
      exact lexExp_append rest hr _ _ a t h

/-- the unsigned part of `lexNumber` -/
def lexNum0 (sign : List Char) : List Char → Option (List Char × List Char)
  | [] => none
  | c :: r1 =>
    if c = '0' then lexNumber.lexFrac (sign ++ ['0']) r1
    else if isDigit c then lexNumber.lexFrac (sign ++ (takeDigits (c :: r1)).1) (takeDigits (c :: r1)).2
    else none

theorem lexNumber_nil : lexNumber [] = none := by simp [lexNumber]

theorem lexNum0_eq (sign r0 : List Char) :
    (match r0 with
     | '0' :: r1 => lexNumber.lexFrac (sign ++ ['0']) r1
     | c :: _ =>
       if isDigit c then
         let (ds, r1) := takeDigits r0
         lexNumber.lexFrac (sign ++ ds) r1
       else none
     | [] => none) = lexNum0 sign r0 := by
  cases r0 with
  | nil => rfl
  | cons c r1 =>
    by_cases h : c = '0'
    · subst h; simp [lexNum0]
    · simp only [lexNum0, if_neg h]

theorem lexNumber_cons (c : Char) (r : List Char) :
    lexNumber (c :: r) = if c = '-' then lexNum0 ['-'] r else lexNum0 [] (c :: r) := by
  by_cases h : c = '-'
  · subst h; simp only [lexNumber, if_true]; exact lexNum0_eq _ _
  · rw [if_neg h]
    unfold lexNumber
    split
    · next x r0 heq =>
      split at heq
      · next heq' => exact absurd (List.cons.inj heq').1 h
      · cases heq; exact lexNum0_eq _ _

theorem lexNum0_append (rest : List Char) (hr : delim rest = true) (sign r a t : List Char)
    (h : lexNum0 sign r = some (a, t)) : lexNum0 sign (r ++ rest) = some (a, t ++ rest) := by
  cases r with
  | nil => simp [lexNum0] at h
  | cons c r1 =>
    simp only [List.cons_append, lexNum0] at h ⊢
    by_cases h0 : c = '0'
    · rw [if_pos h0] at h ⊢; exact lexFrac_append rest hr _ _ a t h
    · rw [if_neg h0] at h ⊢
      by_cases hd : isDigit c = true
      · rw [if_pos hd] at h ⊢
        rw [← List.cons_append, takeDigits_append rest hr]
        exact lexFrac_append rest hr _ _ a t h
      · rw [if_neg hd] at h; simp at h

/-- **number tokens**: a token of the number grammar followed by a delimiter is lexed as that token -/
theorem lexNumber_append (rest : List Char) (hr : delim rest = true) (r a t : List Char)
    (h : lexNumber r = some (a, t)) : lexNumber (r ++ rest) = some (a, t ++ rest) := by
  cases r with
  | nil => simp [lexNumber_nil] at h
  | cons c r1 =>
    rw [List.cons_append, lexNumber_cons]
    rw [lexNumber_cons] at h
    by_cases hc : c = '-'
    · rw [if_pos hc] at h ⊢; exact lexNum0_append rest hr _ _ a t h
    · rw [if_neg hc] at h ⊢
      rw [← List.cons_append]; exact lexNum0_append rest hr _ _ a t h

/-- a number token starts with `-` or a digit -/
theorem lexNumber_head {r a t : List Char} (h : lexNumber r = some (a, t)) :
    ∃ c r1, r = c :: r1 ∧ (c == '-' || isDigit c) = true := by
  cases r with
  | nil => simp [lexNumber_nil] at h
  | cons c r1 =>
    refine ⟨c, r1, rfl, ?_⟩
    rw [lexNumber_cons] at h
    by_cases hc : c = '-'
    · simp [hc]
    · rw [if_neg hc] at h
      simp only [lexNum0] at h
      by_cases h0 : c = '0'
      · subst h0; decide
      · rw [if_neg h0] at h
        by_cases hd : isDigit c = true
        · simp [hd]
        · rw [if_neg hd] at h; simp at h

/-! ## 4. the parser's equations on the shapes the printer produces -/

theorem skipWs_cons_of_not (c : Char) (r : List Char) (h : isJsonWs c = false) : skipWs (c :: r) = c :: r := by
  simp [skipWs, h]

theorem char_le_iff (a b : Char) : a ≤ b ↔ a.toNat ≤ b.toNat := by
  rw [Char.le_def, UInt32.le_iff_toNat_le]; rfl

theorem isDigit_iff (c : Char) : isDigit c = true ↔ 48 ≤ c.toNat ∧ c.toNat ≤ 57 := by
  simp only [isDigit, Bool.and_eq_true, decide_eq_true_eq, char_le_iff]
  rfl

theorem isDigit_not_ws (c : Char) (h : isDigit c = true) : isJsonWs c = false := by
  rw [isDigit_iff] at h
  simp only [isJsonWs, Bool.or_eq_false_iff, beq_eq_false_iff_ne, ne_eq]
  refine ⟨⟨⟨?_, ?_⟩, ?_⟩, ?_⟩ <;> (intro hc; subst hc; simp at h)

theorem pv_null (nc : NumCodec) (f : Nat) (r : List Char) :
    parseValue nc (f+1) ('n' :: 'u' :: 'l' :: 'l' :: r) = some (.null, r) := by
  simp [parseValue, skipWs, isJsonWs]

theorem pv_true (nc : NumCodec) (f : Nat) (r : List Char) :
    parseValue nc (f+1) ('t' :: 'r' :: 'u' :: 'e' :: r) = some (.bool true, r) := by
  simp [parseValue, skipWs, isJsonWs]

theorem pv_false (nc : NumCodec) (f : Nat) (r : List Char) :
    parseValue nc (f+1) ('f' :: 'a' :: 'l' :: 's' :: 'e' :: r) = some (.bool false, r) := by
  simp [parseValue, skipWs, isJsonWs]

theorem pv_str (nc : NumCodec) (f : Nat) (r : List Char) :
    parseValue nc (f+1) ('"' :: r) = (lexString (r.length + 1) [] r).map (fun (s, t) => (.str s, t)) := by
  simp [parseValue, skipWs, isJsonWs]

theorem pv_arr_nil (nc : NumCodec) (f : Nat) (r : List Char) :
    parseValue nc (f+1) ('[' :: ']' :: r) = some (.arr .raw [], r) := by
  simp [parseValue, skipWs, isJsonWs]

theorem pv_obj_nil (nc : NumCodec) (f : Nat) (r : List Char) :
    parseValue nc (f+1) ('{' :: '}' :: r) = some (.obj [], r) := by
  simp [parseValue, skipWs, isJsonWs]

theorem pv_arr (nc : NumCodec) (f : Nat) (c : Char) (r : List Char) (h1 : isJsonWs c = false) (h2 : c ≠ ']') :
    parseValue nc (f+1) ('[' :: c :: r) = (parseElems nc f (c :: r)).map (fun (xs, t) => (.arr .raw xs, t)) := by
  have e1 : skipWs ('[' :: c :: r) = '[' :: c :: r := skipWs_cons_of_not _ _ (by decide)
  have e2 : skipWs (c :: r) = c :: r := skipWs_cons_of_not _ _ h1
  simp only [parseValue, e1, e2]
  split
  · simp_all
  · rfl

theorem pv_obj (nc : NumCodec) (f : Nat) (c : Char) (r : List Char) (h1 : isJsonWs c = false) (h2 : c ≠ '}') :
    parseValue nc (f+1) ('{' :: c :: r) = (parseMembers nc f (c :: r) []).map (fun (xs, t) => (.obj xs, t)) := by
  have e1 : skipWs ('{' :: c :: r) = '{' :: c :: r := skipWs_cons_of_not _ _ (by decide)
  have e2 : skipWs (c :: r) = c :: r := skipWs_cons_of_not _ _ h1
  simp only [parseValue, e1, e2]
  split
  · simp_all
  · rfl

theorem pv_num (nc : NumCodec) (f : Nat) (c : Char) (r : List Char) (h : (c == '-' || isDigit c) = true) :
    parseValue nc (f+1) (c :: r) =
      match lexNumber (c :: r) with
      | some (tok, t) => (parseNumToken nc tok).map (fun b => (.num b, t))
      | none => none := by
  have hws : isJsonWs c = false := by
    simp only [Bool.or_eq_true, beq_iff_eq] at h
    rcases h with h | h
    · subst h; decide
    · exact isDigit_not_ws c h
  have e1 : skipWs (c :: r) = c :: r := skipWs_cons_of_not _ _ hws
  have hd : ∀ d : Char, isDigit d = false → d ≠ '-' → c ≠ d := by
    intro d hd hm hc; subst hc; simp [hd, hm] at h
  simp only [parseValue, e1]
  split
  · next heq => exact absurd (List.cons.inj heq).1 (hd 'n' (by decide) (by decide))
  · next heq => exact absurd (List.cons.inj heq).1 (hd 't' (by decide) (by decide))
  · next heq => exact absurd (List.cons.inj heq).1 (hd 'f' (by decide) (by decide))
  · next heq => exact absurd (List.cons.inj heq).1 (hd '"' (by decide) (by decide))
  · next heq => exact absurd (List.cons.inj heq).1 (hd '[' (by decide) (by decide))
  · next heq => exact absurd (List.cons.inj heq).1 (hd '{' (by decide) (by decide))
  · next heq =>
    obtain ⟨rfl, rfl⟩ := List.cons.inj heq
    rw [if_pos h]
    rfl
  · next heq => simp at heq

theorem pe_last (nc : NumCodec) (f : Nat) (cs t : List Char) (v : Json)
    (h : parseValue nc f cs = some (v, ']' :: t)) : parseElems nc (f+1) cs = some ([v], t) := by
  simp [parseElems, h, skipWs, isJsonWs]

theorem pe_more (nc : NumCodec) (f : Nat) (cs t : List Char) (v : Json)
    (h : parseValue nc f cs = some (v, ',' :: t)) :
    parseElems nc (f+1) cs = (parseElems nc f t).map (fun (xs, u) => (v :: xs, u)) := by
  simp [parseElems, h, skipWs, isJsonWs]

theorem pm_last (nc : NumCodec) (f : Nat) (k : String) (cs t : List Char) (v : Json)
    (acc : List (String × Json)) (h : parseValue nc f cs = some (v, '}' :: t)) :
    parseMembers nc (f+1) ('"' :: (escL k.toList ++ '"' :: ':' :: cs)) acc = some (ainsert k v acc, t) := by
  have e1 : skipWs ('"' :: (escL k.toList ++ '"' :: ':' :: cs)) = '"' :: (escL k.toList ++ '"' :: ':' :: cs) :=
    skipWs_cons_of_not _ _ (by decide)
  simp only [parseMembers, e1, lexString_quoted]
  simp [skipWs, isJsonWs, h]

theorem pm_more (nc : NumCodec) (f : Nat) (k : String) (cs t : List Char) (v : Json)
    (acc : List (String × Json)) (h : parseValue nc f cs = some (v, ',' :: t)) :
    parseMembers nc (f+1) ('"' :: (escL k.toList ++ '"' :: ':' :: cs)) acc =
      parseMembers nc f t (ainsert k v acc) := by
  have e1 : skipWs ('"' :: (escL k.toList ++ '"' :: ':' :: cs)) = '"' :: (escL k.toList ++ '"' :: ':' :: cs) :=
    skipWs_cons_of_not _ _ (by decide)
  simp only [parseMembers, e1, lexString_quoted]
  simp [skipWs, isJsonWs, h]

theorem ainsert_snoc {β} (k : String) (v : β) : ∀ (acc r : List (String × β)),
    keysSorted (acc ++ (k, v) :: r) = true → ainsert k v acc = acc ++ [(k, v)]
  | [], _, _ => rfl
  | (k', v') :: acc', r, h => by
    have hlt : k' < k := keysSorted_head_lt (by simpa using h) k v (by simp)
    have h1 : ¬ k < k' := fun h' => String.lt_asymm hlt h'
    have h2 : k ≠ k' := fun e => String.lt_irrefl k' (e ▸ hlt)
    simp only [ainsert, if_neg h1, if_neg h2, List.cons_append]
    rw [ainsert_snoc k v acc' r (keysSorted_tail (by simpa using h))]

/-! ## 5. the domain -/

/-- the codec prints the number to a token of the JSON number grammar (the whole text is one token)
    and reads that token back to the same bits -/
def numOK (nc : NumCodec) (b : UInt64) : Bool :=
  match fmtNum nc b with
  | none => false
  | some s => decide (lexNumber s.toList = some (s.toList, [])) && decide (parseNumToken nc s.toList = some b)

mutual
/-- `NumOK nc v`: every number of `v` satisfies `numOK` -/
def NumOK (nc : NumCodec) : Json → Bool
  | .num b => numOK nc b
  | .arr _ xs => NumOKList nc xs
  | .obj kvs => NumOKKvs nc kvs
  | _ => true
def NumOKList (nc : NumCodec) : List Json → Bool
  | [] => true
  | x :: r => NumOK nc x && NumOKList nc r
def NumOKKvs (nc : NumCodec) : List (String × Json) → Bool
  | [] => true
  | (_, v) :: r => NumOK nc v && NumOKKvs nc r
end

mutual
/-- `wf`, `voidFree` and `NumOK` in one predicate (`preOK_iff`) -/
def preOK (nc : NumCodec) : Json → Bool
  | .void => false
  | .num b => numOK nc b
  | .arr _ xs => preOKList nc xs
  | .obj kvs => keysSorted kvs && preOKKvs nc kvs
  | _ => true
def preOKList (nc : NumCodec) : List Json → Bool
  | [] => true
  | x :: r => preOK nc x && preOKList nc r
def preOKKvs (nc : NumCodec) : List (String × Json) → Bool
  | [] => true
  | (_, v) :: r => preOK nc v && preOKKvs nc r
end

mutual
theorem preOK_iff (nc : NumCodec) : ∀ v : Json,
    preOK nc v = (v.wf && Yaml.voidFree v && NumOK nc v)
  | .void => by simp [preOK, Yaml.voidFree]
  | .null => by simp [preOK, Yaml.voidFree, NumOK, Json.wf]
  | .bool _ => by simp [preOK, Yaml.voidFree, NumOK, Json.wf]
  | .num _ => by simp [preOK, Yaml.voidFree, NumOK, Json.wf]
  | .str _ => by simp [preOK, Yaml.voidFree, NumOK, Json.wf]
  | .arr _ xs => by simp only [preOK, Yaml.voidFree, NumOK, Json.wf]; exact preOKList_iff nc xs
  | .obj kvs => by
    simp only [preOK, Yaml.voidFree, NumOK, Json.wf, preOKKvs_iff nc kvs]
    cases keysSorted kvs <;> simp
theorem preOKList_iff (nc : NumCodec) : ∀ xs : List Json,
    preOKList nc xs = (wfList xs && Yaml.voidFreeList xs && NumOKList nc xs)
  | [] => by simp [preOKList, wfList, Yaml.voidFreeList, NumOKList]
  | x :: r => by
    simp only [preOKList, wfList, Yaml.voidFreeList, NumOKList, preOK_iff nc x, preOKList_iff nc r]
    cases x.wf <;> cases Yaml.voidFree x <;> cases NumOK nc x <;> cases wfList r <;> cases Yaml.voidFreeList r <;> simp
theorem preOKKvs_iff (nc : NumCodec) : ∀ kvs : List (String × Json),
    preOKKvs nc kvs = (wfKvs kvs && Yaml.voidFreeKvs kvs && NumOKKvs nc kvs)
  | [] => by simp [preOKKvs, wfKvs, Yaml.voidFreeKvs, NumOKKvs]
  | (k, v) :: r => by
    simp only [preOKKvs, wfKvs, Yaml.voidFreeKvs, NumOKKvs, preOK_iff nc v, preOKKvs_iff nc r]
    cases v.wf <;> cases Yaml.voidFree v <;> cases NumOK nc v <;> cases wfKvs r <;> cases Yaml.voidFreeKvs r <;> simp
end

mutual
/-- parser fuel a value needs -/
def sz : Json → Nat
  | .arr _ xs => 1 + szl xs
  | .obj kvs => 1 + szk kvs
  | _ => 1
def szl : List Json → Nat
  | [] => 0
  | x :: r => 1 + sz x + szl r
def szk : List (String × Json) → Nat
  | [] => 0
  | (_, v) :: r => 1 + sz v + szk r
end

theorem sz_pos (v : Json) : 1 ≤ sz v := by cases v <;> simp [sz]

/-! ## 6. text shapes -/

/-- `String.intercalate ","` on character lists -/
def joinC : List String → List Char
  | [] => []
  | [a] => a.toList
  | a :: b :: l => a.toList ++ ',' :: joinC (b :: l)

theorem intercalate_toList : ∀ l : List String, (String.intercalate "," l).toList = joinC l
  | [] => by simp [joinC]
  | [a] => by simp [joinC]
  | a :: b :: l => by
    rw [String.intercalate_cons_cons]
    simp [joinC, intercalate_toList (b :: l), String.toList_append]

/-- a text starts with a character that is neither white space nor a closing bracket -/
def headOK (cs : List Char) : Prop := ∃ c r, cs = c :: r ∧ isJsonWs c = false ∧ c ≠ ']' ∧ c ≠ '}'

theorem headOK_append {x : List Char} (y : List Char) (h : headOK x) : headOK (x ++ y) := by
  obtain ⟨c, r, rfl, h⟩ := h
  exact ⟨c, r ++ y, rfl, h⟩

theorem headOK_joinC (a : String) (b : List String) (h : headOK a.toList) : headOK (joinC (a :: b)) := by
  cases b with
  | nil => exact h
  | cons b0 b' => exact headOK_append _ h

theorem numOK_spec {nc : NumCodec} {b : UInt64} (h : numOK nc b = true) :
    ∃ s, fmtNum nc b = some s ∧ lexNumber s.toList = some (s.toList, []) ∧ parseNumToken nc s.toList = some b := by
  unfold numOK at h
  split at h
  · simp at h
  · next s hs =>
    simp only [Bool.and_eq_true, decide_eq_true_eq] at h
    exact ⟨s, hs, h.1, h.2⟩

theorem jsonText_arr {nc : NumCodec} {t : Tag} {xs : List Json} {s : String}
    (h : jsonText nc (.arr t xs) = some s) :
    ∃ l, jsonTextList nc xs = some l ∧ s.toList = '[' :: (joinC l ++ [']']) := by
  simp only [jsonText, Option.map_eq_some_iff] at h
  obtain ⟨l, hl, rfl⟩ := h
  exact ⟨l, hl, by rw [String.toList_append, String.toList_append, intercalate_toList]; simp⟩

theorem jsonText_obj {nc : NumCodec} {kvs : List (String × Json)} {s : String}
    (h : jsonText nc (.obj kvs) = some s) :
    ∃ l, jsonTextKvs nc kvs = some l ∧ s.toList = '{' :: (joinC l ++ ['}']) := by
  simp only [jsonText, Option.map_eq_some_iff] at h
  obtain ⟨l, hl, rfl⟩ := h
  exact ⟨l, hl, by rw [String.toList_append, String.toList_append, intercalate_toList]; simp⟩

theorem jsonTextList_cons {nc : NumCodec} {x : Json} {r : List Json} {l : List String}
    (h : jsonTextList nc (x :: r) = some l) :
    ∃ a b, jsonText nc x = some a ∧ jsonTextList nc r = some b ∧ l = a :: b := by
  simp only [jsonTextList, Option.bind_eq_bind, Option.bind_eq_some_iff, Option.pure_def, Option.some.injEq] at h
  obtain ⟨a, ha, b, hb, rfl⟩ := h
  exact ⟨a, b, ha, hb, rfl⟩

theorem jsonTextKvs_cons {nc : NumCodec} {k : String} {v : Json} {r : List (String × Json)} {l : List String}
    (h : jsonTextKvs nc ((k, v) :: r) = some l) :
    ∃ a b, jsonText nc v = some a ∧ jsonTextKvs nc r = some b ∧ l = (quoteString k ++ ":" ++ a) :: b := by
  simp only [jsonTextKvs, Option.bind_eq_bind, Option.bind_eq_some_iff, Option.pure_def, Option.some.injEq] at h
  obtain ⟨a, ha, b, hb, rfl⟩ := h
  exact ⟨a, b, ha, hb, rfl⟩

theorem member_toList (k a : String) :
    (quoteString k ++ ":" ++ a).toList = '"' :: (escL k.toList ++ '"' :: ':' :: a.toList) := by
  simp [String.toList_append, quoteString_toList]

theorem jsonText_head (nc : NumCodec) : ∀ (v : Json) (s : String), preOK nc v = true →
    jsonText nc v = some s → headOK s.toList
  | .void, _, h, _ => by simp [preOK] at h
  | .null, s, _, h => by
    simp only [jsonText, Option.some.injEq] at h; subst h
    exact ⟨'n', ['u', 'l', 'l'], by simp, by decide, by decide, by decide⟩
  | .bool true, s, _, h => by
    simp only [jsonText, Option.some.injEq] at h; subst h
    exact ⟨'t', ['r', 'u', 'e'], by simp, by decide, by decide, by decide⟩
  | .bool false, s, _, h => by
    simp only [jsonText, Option.some.injEq] at h; subst h
    exact ⟨'f', ['a', 'l', 's', 'e'], by simp, by decide, by decide, by decide⟩
  | .num b, s, hp, h => by
    simp only [preOK] at hp
    obtain ⟨s', hs', hl, _⟩ := numOK_spec hp
    simp only [jsonText, hs', Option.some.injEq] at h; subst h
    obtain ⟨c, r1, e, hc⟩ := lexNumber_head hl
    refine ⟨c, r1, e, ?_⟩
    simp only [Bool.or_eq_true, beq_iff_eq] at hc
    rcases hc with hc | hc
    · subst hc; exact ⟨by decide, by decide, by decide⟩
    · refine ⟨isDigit_not_ws c hc, ?_, ?_⟩ <;> (intro e; subst e; simp [isDigit] at hc)
  | .str x, s, _, h => by
    simp only [jsonText, Option.some.injEq] at h; subst h
    exact ⟨'"', _, quoteString_toList x, by decide, by decide, by decide⟩
  | .arr _ xs, s, _, h => by
    obtain ⟨l, _, e⟩ := jsonText_arr h
    exact ⟨'[', _, e, by decide, by decide, by decide⟩
  | .obj kvs, s, _, h => by
    obtain ⟨l, _, e⟩ := jsonText_obj h
    exact ⟨'{', _, e, by decide, by decide, by decide⟩

/-! ## 7. values: the fuel-explicit round trip, for any continuation of the input -/

theorem delim_close (c : Char) (rest : List Char) (h : c = ']' ∨ c = '}' ∨ c = ',') :
    delim (c :: rest) = true := by
  rcases h with h | h | h <;> subst h <;> simp [delim, isDigit]

mutual
/-- **values**: the text of `v` followed by `rest` is parsed as `v`, leaving `rest`, with any fuel of
    at least `sz v`; a number needs `rest` not to extend its token (`delim`) -/
theorem pv_text (nc : NumCodec) : ∀ (v : Json) (s : String), preOK nc v = true → v.rawDoc = true →
    jsonText nc v = some s → ∀ (f : Nat) (rest : List Char), sz v ≤ f → delim rest = true →
    parseValue nc f (s.toList ++ rest) = some (v, rest)
  | .void, _, h, _, _, _, _, _, _ => by simp [preOK] at h
  | .null, s, _, _, h, f, rest, hf, _ => by
    simp only [jsonText, Option.some.injEq] at h; subst h
    obtain ⟨f', rfl⟩ : ∃ f', f = f' + 1 := ⟨f - 1, by simp only [sz] at hf; omega⟩
    exact pv_null nc f' rest
  | .bool true, s, _, _, h, f, rest, hf, _ => by
    simp only [jsonText, Option.some.injEq] at h; subst h
    obtain ⟨f', rfl⟩ : ∃ f', f = f' + 1 := ⟨f - 1, by simp only [sz] at hf; omega⟩
    exact pv_true nc f' rest
  | .bool false, s, _, _, h, f, rest, hf, _ => by
    simp only [jsonText, Option.some.injEq] at h; subst h
    obtain ⟨f', rfl⟩ : ∃ f', f = f' + 1 := ⟨f - 1, by simp only [sz] at hf; omega⟩
    exact pv_false nc f' rest
  | .num b, s, hp, _, h, f, rest, hf, hd => by
    simp only [preOK] at hp
    obtain ⟨s', hs', hl, hpn⟩ := numOK_spec hp
    simp only [jsonText, hs', Option.some.injEq] at h; subst h
    obtain ⟨f', rfl⟩ : ∃ f', f = f' + 1 := ⟨f - 1, by simp only [sz] at hf; omega⟩
    obtain ⟨c, r1, e, hc⟩ := lexNumber_head hl
    have hl' := lexNumber_append rest hd _ _ _ hl
    rw [e] at hl' ⊢
    rw [List.cons_append, pv_num nc f' c _ hc, ← List.cons_append, hl']
    simp only [List.nil_append]
    rw [← e, hpn]; rfl
  | .str x, s, _, _, h, f, rest, hf, _ => by
    simp only [jsonText, Option.some.injEq] at h; subst h
    obtain ⟨f', rfl⟩ : ∃ f', f = f' + 1 := ⟨f - 1, by simp only [sz] at hf; omega⟩
    rw [quoteString_toList, List.cons_append, List.append_assoc, pv_str]
    simp only [List.singleton_append]
    rw [lexString_quoted]; rfl
  | .arr t xs, s, hp, hr, h, f, rest, hf, _ => by
    obtain ⟨l, hl, e⟩ := jsonText_arr h
    obtain ⟨f', rfl⟩ : ∃ f', f = f' + 1 := ⟨f - 1, by simp only [sz] at hf; omega⟩
    simp only [Json.rawDoc, Bool.and_eq_true, beq_iff_eq] at hr
    obtain ⟨rfl, hr⟩ := hr
    simp only [preOK] at hp
    simp only [sz] at hf
    rw [e, List.cons_append, List.append_assoc, List.singleton_append]
    cases xs with
    | nil =>
      simp only [jsonTextList, Option.some.injEq] at hl; subst hl
      simp only [joinC, List.nil_append]
      exact pv_arr_nil nc f' rest
    | cons x r =>
      obtain ⟨a, b, ha, hb, rfl⟩ := jsonTextList_cons hl
      simp only [preOKList, Bool.and_eq_true] at hp
      have hh : headOK (joinC (a :: b) ++ ']' :: rest) :=
        headOK_append _ (headOK_joinC a b (jsonText_head nc x a hp.1 ha))
      obtain ⟨c, r', e', hws, h1, _⟩ := hh
      rw [e', pv_arr nc f' c r' hws h1, ← e',
        pe_text nc (x :: r) (a :: b) (by simp) (by simp [preOKList, hp]) hr hl f' rest (by omega)]
      rfl
  | .obj kvs, s, hp, hr, h, f, rest, hf, _ => by
    obtain ⟨l, hl, e⟩ := jsonText_obj h
    obtain ⟨f', rfl⟩ : ∃ f', f = f' + 1 := ⟨f - 1, by simp only [sz] at hf; omega⟩
    simp only [Json.rawDoc] at hr
    simp only [preOK, Bool.and_eq_true] at hp
    simp only [sz] at hf
    rw [e, List.cons_append, List.append_assoc, List.singleton_append]
    cases kvs with
    | nil =>
      simp only [jsonTextKvs, Option.some.injEq] at hl; subst hl
      simp only [joinC, List.nil_append]
      exact pv_obj_nil nc f' rest
    | cons kv r =>
      obtain ⟨k, v⟩ := kv
      obtain ⟨a, b, ha, hb, rfl⟩ := jsonTextKvs_cons hl
      have hh : headOK (joinC ((quoteString k ++ ":" ++ a) :: b) ++ '}' :: rest) :=
        headOK_append _ (headOK_joinC _ b ⟨'"', _, member_toList k a, by decide, by decide, by decide⟩)
      obtain ⟨c, r', e', hws, _, h2⟩ := hh
      rw [e', pv_obj nc f' c r' hws h2, ← e',
        pm_text nc ((k, v) :: r) _ (by simp) hp.2 hr hl f' rest [] (by omega) (by simpa using hp.1)]
      rfl
theorem pe_text (nc : NumCodec) : ∀ (xs : List Json) (l : List String), xs ≠ [] →
    preOKList nc xs = true → rawDocList xs = true → jsonTextList nc xs = some l →
    ∀ (f : Nat) (rest : List Char), szl xs ≤ f →
    parseElems nc f (joinC l ++ ']' :: rest) = some (xs, rest)
  | [], _, h, _, _, _, _, _, _ => absurd rfl h
  | x :: r, l, _, hp, hr, hl, f, rest, hf => by
    obtain ⟨a, b, ha, hb, rfl⟩ := jsonTextList_cons hl
    simp only [preOKList, Bool.and_eq_true] at hp
    simp only [rawDocList, Bool.and_eq_true] at hr
    simp only [szl] at hf
    obtain ⟨f', rfl⟩ : ∃ f', f = f' + 1 := ⟨f - 1, by omega⟩
    cases r with
    | nil =>
      simp only [jsonTextList, Option.some.injEq] at hb; subst hb
      simp only [joinC]
      exact pe_last nc f' _ rest x
        (pv_text nc x a hp.1 hr.1 ha f' (']' :: rest) (by omega) (delim_close _ _ (Or.inl rfl)))
    | cons y r' =>
      obtain ⟨b0, b', hb0, hb', rfl⟩ := jsonTextList_cons hb
      simp only [joinC, List.append_assoc, List.cons_append]
      rw [pe_more nc f' _ (joinC (b0 :: b') ++ ']' :: rest) x
        (pv_text nc x a hp.1 hr.1 ha f' _ (by omega) (delim_close _ _ (Or.inr (Or.inr rfl)))),
        pe_text nc (y :: r') (b0 :: b') (by simp) hp.2 hr.2 hb f' rest (by omega)]
      rfl
theorem pm_text (nc : NumCodec) : ∀ (kvs : List (String × Json)) (l : List String), kvs ≠ [] →
    preOKKvs nc kvs = true → rawDocKvs kvs = true → jsonTextKvs nc kvs = some l →
    ∀ (f : Nat) (rest : List Char) (acc : List (String × Json)), szk kvs ≤ f →
    keysSorted (acc ++ kvs) = true →
    parseMembers nc f (joinC l ++ '}' :: rest) acc = some (acc ++ kvs, rest)
  | [], _, h, _, _, _, _, _, _, _, _ => absurd rfl h
  | (k, v) :: r, l, _, hp, hr, hl, f, rest, acc, hf, hs => by
    obtain ⟨a, b, ha, hb, rfl⟩ := jsonTextKvs_cons hl
    simp only [preOKKvs, Bool.and_eq_true] at hp
    simp only [rawDocKvs, Bool.and_eq_true] at hr
    simp only [szk] at hf
    obtain ⟨f', rfl⟩ : ∃ f', f = f' + 1 := ⟨f - 1, by omega⟩
    have hins := ainsert_snoc k v acc r hs
    cases r with
    | nil =>
      simp only [jsonTextKvs, Option.some.injEq] at hb; subst hb
      simp only [joinC, member_toList, List.append_assoc, List.cons_append]
      rw [pm_last nc f' k _ rest v acc
        (pv_text nc v a hp.1 hr.1 ha f' ('}' :: rest) (by omega) (delim_close _ _ (Or.inr (Or.inl rfl)))),
        hins]
    | cons kv2 r' =>
      obtain ⟨k2, v2⟩ := kv2
      obtain ⟨b0, b', hb0, hb', rfl⟩ := jsonTextKvs_cons hb
      simp only [joinC, member_toList k a, List.append_assoc, List.cons_append]
      rw [pm_more nc f' k _ (joinC ((quoteString k2 ++ ":" ++ b0) :: b') ++ '}' :: rest) v acc
        (pv_text nc v a hp.1 hr.1 ha f' _ (by omega) (delim_close _ _ (Or.inr (Or.inr rfl)))),
        hins,
        pm_text nc ((k2, v2) :: r') _ (by simp) hp.2 hr.2 hb f' rest (acc ++ [(k, v)]) (by omega)
          (by simpa using hs)]
      simp
end

/-! ## 8. the printer succeeds; the fuel of `parseJson` suffices -/

mutual
theorem jsonText_some (nc : NumCodec) : ∀ v : Json, preOK nc v = true → ∃ s, jsonText nc v = some s
  | .void, h => by simp [preOK] at h
  | .null, _ => ⟨_, rfl⟩
  | .bool true, _ => ⟨_, rfl⟩
  | .bool false, _ => ⟨_, rfl⟩
  | .num b, h => by
    simp only [preOK] at h
    obtain ⟨s, hs, _⟩ := numOK_spec h
    exact ⟨s, by simp [jsonText, hs]⟩
  | .str x, _ => ⟨_, rfl⟩
  | .arr t xs, h => by
    simp only [preOK] at h
    obtain ⟨l, hl⟩ := jsonTextList_some nc xs h
    exact ⟨_, by simp only [jsonText, hl]; rfl⟩
  | .obj kvs, h => by
    simp only [preOK, Bool.and_eq_true] at h
    obtain ⟨l, hl⟩ := jsonTextKvs_some nc kvs h.2
    exact ⟨_, by simp only [jsonText, hl]; rfl⟩
theorem jsonTextList_some (nc : NumCodec) : ∀ xs : List Json, preOKList nc xs = true →
    ∃ l, jsonTextList nc xs = some l
  | [], _ => ⟨[], rfl⟩
  | x :: r, h => by
    simp only [preOKList, Bool.and_eq_true] at h
    obtain ⟨a, ha⟩ := jsonText_some nc x h.1
    obtain ⟨b, hb⟩ := jsonTextList_some nc r h.2
    exact ⟨a :: b, by simp [jsonTextList, ha, hb]⟩
theorem jsonTextKvs_some (nc : NumCodec) : ∀ kvs : List (String × Json), preOKKvs nc kvs = true →
    ∃ l, jsonTextKvs nc kvs = some l
  | [], _ => ⟨[], rfl⟩
  | (k, v) :: r, h => by
    simp only [preOKKvs, Bool.and_eq_true] at h
    obtain ⟨a, ha⟩ := jsonText_some nc v h.1
    obtain ⟨b, hb⟩ := jsonTextKvs_some nc r h.2
    exact ⟨(quoteString k ++ ":" ++ a) :: b, by simp [jsonTextKvs, ha, hb]⟩
end

mutual
theorem sz_le (nc : NumCodec) : ∀ (v : Json) (s : String), preOK nc v = true → jsonText nc v = some s →
    sz v ≤ s.toList.length
  | .void, _, h, _ => by simp [preOK] at h
  | .null, s, _, h => by
    simp only [jsonText, Option.some.injEq] at h; subst h; simp [sz]
  | .bool true, s, _, h => by
    simp only [jsonText, Option.some.injEq] at h; subst h; simp [sz]
  | .bool false, s, _, h => by
    simp only [jsonText, Option.some.injEq] at h; subst h; simp [sz]
  | .num b, s, hp, h => by
    simp only [preOK] at hp
    obtain ⟨s', hs', hl, _⟩ := numOK_spec hp
    simp only [jsonText, hs', Option.some.injEq] at h; subst h
    obtain ⟨c, r1, e, _⟩ := lexNumber_head hl
    simp [sz, e]
  | .str x, s, _, h => by
    simp only [jsonText, Option.some.injEq] at h; subst h
    simp [sz, quoteString_toList]
  | .arr t xs, s, hp, h => by
    obtain ⟨l, hl, e⟩ := jsonText_arr h
    simp only [preOK] at hp
    have := szl_le nc xs l hp hl
    simp only [sz, e, List.length_cons, List.length_append, List.length_nil]
    omega
  | .obj kvs, s, hp, h => by
    obtain ⟨l, hl, e⟩ := jsonText_obj h
    simp only [preOK, Bool.and_eq_true] at hp
    have := szk_le nc kvs l hp.2 hl
    simp only [sz, e, List.length_cons, List.length_append, List.length_nil]
    omega
theorem szl_le (nc : NumCodec) : ∀ (xs : List Json) (l : List String), preOKList nc xs = true →
    jsonTextList nc xs = some l → szl xs ≤ (joinC l).length + 1
  | [], _, _, _ => by simp [szl]
  | x :: r, l, hp, hl => by
    obtain ⟨a, b, ha, hb, rfl⟩ := jsonTextList_cons hl
    simp only [preOKList, Bool.and_eq_true] at hp
    have h1 := sz_le nc x a hp.1 ha
    have h2 := szl_le nc r b hp.2 hb
    cases r with
    | nil =>
      simp only [jsonTextList, Option.some.injEq] at hb; subst hb
      simp only [szl, joinC]; omega
    | cons y r' =>
      obtain ⟨b0, b', _, _, rfl⟩ := jsonTextList_cons hb
      simp only [szl, joinC, List.length_append, List.length_cons] at h2 ⊢
      omega
theorem szk_le (nc : NumCodec) : ∀ (kvs : List (String × Json)) (l : List String), preOKKvs nc kvs = true →
    jsonTextKvs nc kvs = some l → szk kvs ≤ (joinC l).length + 1
  | [], _, _, _ => by simp [szk]
  | (k, v) :: r, l, hp, hl => by
    obtain ⟨a, b, ha, hb, rfl⟩ := jsonTextKvs_cons hl
    simp only [preOKKvs, Bool.and_eq_true] at hp
    have h1 := sz_le nc v a hp.1 ha
    have h2 := szk_le nc r b hp.2 hb
    cases r with
    | nil =>
      simp only [jsonTextKvs, Option.some.injEq] at hb; subst hb
      simp only [szk, joinC, member_toList, List.length_append, List.length_cons]; omega
    | cons kv2 r' =>
      obtain ⟨k2, v2⟩ := kv2
      obtain ⟨b0, b', _, _, rfl⟩ := jsonTextKvs_cons hb
      simp only [szk, joinC, member_toList, List.length_append, List.length_cons] at h2 ⊢
      omega
end

/-! ## 9. white space and the top level -/

theorem skipWs_idem : ∀ cs : List Char, skipWs (skipWs cs) = skipWs cs
  | [] => rfl
  | c :: r => by
    by_cases h : isJsonWs c = true
    · simp only [skipWs, h, if_true]; exact skipWs_idem r
    · simp [skipWs, h]

theorem skipWs_append_ws : ∀ (pre x : List Char), pre.all isJsonWs = true → skipWs (pre ++ x) = skipWs x
  | [], _, _ => rfl
  | c :: r, x, h => by
    simp only [List.all_cons, Bool.and_eq_true] at h
    simp only [List.cons_append, skipWs, h.1, if_true]
    exact skipWs_append_ws r x h.2

theorem skipWs_all_ws (l : List Char) (h : l.all isJsonWs = true) : skipWs l = [] := by
  have := skipWs_append_ws l [] h
  simpa [skipWs] using this

/-- `parseValue` skips leading white space -/
theorem parseValue_skipWs (nc : NumCodec) (f : Nat) (cs : List Char) :
    parseValue nc f (skipWs cs) = parseValue nc f cs := by
  cases f with
  | zero => simp [parseValue]
  | succ f => simp only [parseValue, skipWs_idem]

theorem delim_ws (post : List Char) (h : post.all isJsonWs = true) : delim post = true := by
  cases post with
  | nil => rfl
  | cons c r =>
    simp only [List.all_cons, Bool.and_eq_true] at h
    have hc := h.1
    simp only [isJsonWs, Bool.or_eq_true, beq_iff_eq] at hc
    rcases hc with ((hc | hc) | hc) | hc <;> subst hc <;> simp [delim, isDigit]

/-- **the top level**: the text of a document, surrounded by JSON white space, is read by `parseJson`
    as that document (the whole input is consumed; the fuel `length + 2` suffices) -/
theorem parseJson_text (nc : NumCodec) (v : Json) (s : String) (hp : preOK nc v = true)
    (hr : v.rawDoc = true) (h : jsonText nc v = some s) (pre post : List Char)
    (hpre : pre.all isJsonWs = true) (hpost : post.all isJsonWs = true) :
    parseJson nc (String.ofList (pre ++ s.toList ++ post)) = some v := by
  have hsz := sz_le nc v s hp h
  have hh : headOK (s.toList ++ post) := headOK_append _ (jsonText_head nc v s hp h)
  obtain ⟨c, r, e, hws, _⟩ := hh
  have h1 : parseValue nc ((pre ++ s.toList ++ post).length + 2) (pre ++ s.toList ++ post) = some (v, post) := by
    rw [← parseValue_skipWs, List.append_assoc, skipWs_append_ws pre _ hpre, parseValue_skipWs]
    exact pv_text nc v s hp hr h _ post (by simp only [List.length_append]; omega) (delim_ws post hpost)
  simp only [parseJson, String.toList_ofList, h1, skipWs_all_ws post hpost]
  rfl

theorem parseJson_text' (nc : NumCodec) (v : Json) (s : String) (hp : preOK nc v = true)
    (hr : v.rawDoc = true) (h : jsonText nc v = some s) : parseJson nc s = some v := by
  have := parseJson_text nc v s hp hr h [] [] rfl rfl
  simpa [String.ofList_toList] using this

/-! ## 10. `jsonM` (= `node.Json()`): typed array nodes are printed through `raw()` -/

theorem preOKList_forall (nc : NumCodec) : ∀ xs : List Json,
    preOKList nc xs = true ↔ ∀ x ∈ xs, preOK nc x = true
  | [] => by simp [preOKList]
  | x :: r => by simp [preOKList, preOKList_forall nc r]

theorem lastByHash_mem (h : UInt64) : ∀ (hs : List UInt64) (vals : List Json) (y : Json),
    lastByHash h hs vals = some y → y ∈ vals
  | [], _, _, e => by simp [lastByHash] at e
  | _ :: _, [], _, e => by simp [lastByHash] at e
  | k :: ks, v :: vs, y, e => by
    simp only [lastByHash] at e
    split at e
    · next y' hy =>
      cases e
      exact List.mem_cons_of_mem _ (lastByHash_mem h ks vs _ hy)
    · split at e
      · cases e; exact List.mem_cons_self
      · cases e

theorem preOKList_setRawOrder (nc : NumCodec) (hs : List UInt64) (vals : List Json)
    (h : preOKList nc vals = true) : preOKList nc (setRawOrder hs vals) = true := by
  rw [preOKList_forall] at h ⊢
  intro x hx
  simp only [setRawOrder, List.mem_filterMap] at hx
  obtain ⟨a, _, ha⟩ := hx
  exact h x (lastByHash_mem a hs vals x ha)

theorem keysSorted_rawNormKvs : ∀ kvs : List (String × Json), keysSorted (rawNormKvs kvs) = keysSorted kvs
  | [] => rfl
  | [(_, _)] => rfl
  | (k, v) :: (k', v') :: r => by
    have ih := keysSorted_rawNormKvs ((k', v') :: r)
    simp only [rawNormKvs, keysSorted] at ih ⊢
    rw [ih]

mutual
theorem preOK_rawNorm (nc : NumCodec) : ∀ v : Json, preOK nc v = true → preOK nc (rawNorm v) = true
  | .void, h => by simp [preOK] at h
  | .null, _ => rfl
  | .bool _, _ => rfl
  | .num _, h => by simpa [rawNorm] using h
  | .str _, _ => rfl
  | .arr t xs, h => by
    simp only [preOK] at h
    have ih := preOKList_rawNormList nc xs h
    cases t
    · simpa [rawNorm, preOK] using ih
    · simpa [rawNorm, preOK] using ih
    · simp only [rawNorm, preOK]; exact preOKList_setRawOrder nc _ _ ih
    · simpa [rawNorm, preOK] using ih
  | .obj kvs, h => by
    simp only [preOK, Bool.and_eq_true] at h
    simp only [rawNorm, preOK, Bool.and_eq_true, keysSorted_rawNormKvs]
    exact ⟨h.1, preOKKvs_rawNormKvs nc kvs h.2⟩
theorem preOKList_rawNormList (nc : NumCodec) : ∀ xs : List Json, preOKList nc xs = true →
    preOKList nc (rawNormList xs) = true
  | [], _ => rfl
  | x :: r, h => by
    simp only [preOKList, Bool.and_eq_true] at h
    simp only [rawNormList, preOKList, Bool.and_eq_true]
    exact ⟨preOK_rawNorm nc x h.1, preOKList_rawNormList nc r h.2⟩
theorem preOKKvs_rawNormKvs (nc : NumCodec) : ∀ kvs : List (String × Json), preOKKvs nc kvs = true →
    preOKKvs nc (rawNormKvs kvs) = true
  | [], _ => rfl
  | (k, v) :: r, h => by
    simp only [preOKKvs, Bool.and_eq_true] at h
    simp only [rawNormKvs, preOKKvs, Bool.and_eq_true]
    exact ⟨preOK_rawNorm nc v h.1, preOKKvs_rawNormKvs nc r h.2⟩
end

theorem jsonM_eq (nc : NumCodec) (v : Json) (h : v.isVoid = false) : jsonM nc v = jsonText nc (rawNorm v) := by
  cases v <;> first | rfl | simp [Json.isVoid] at h

theorem preOK_not_void {nc : NumCodec} {v : Json} (h : preOK nc v = true) : v.isVoid = false := by
  cases v <;> first | rfl | simp [preOK] at h

mutual
/-- no set-typed array node anywhere: `raw()` then keeps the stored order of every array -/
def setFree : Json → Bool
  | .arr t xs => t != .set && setFreeList xs
  | .obj kvs => setFreeKvs kvs
  | _ => true
def setFreeList : List Json → Bool
  | [] => true
  | x :: r => setFree x && setFreeList r
def setFreeKvs : List (String × Json) → Bool
  | [] => true
  | (_, v) :: r => setFree v && setFreeKvs r
end

mutual
theorem rawNorm_eq_untag : ∀ v : Json, setFree v = true → rawNorm v = untag v
  | .void, _ => rfl
  | .null, _ => rfl
  | .bool _, _ => rfl
  | .num _, _ => rfl
  | .str _, _ => rfl
  | .arr t xs, h => by
    simp only [setFree, Bool.and_eq_true, bne_iff_ne, ne_eq] at h
    have ih := rawNormList_eq_untagList xs h.2
    cases t
    · simp [rawNorm, untag, ih]
    · simp [rawNorm, untag, ih]
    · exact absurd rfl h.1
    · simp [rawNorm, untag, ih]
  | .obj kvs, h => by
    simp only [setFree] at h
    simp [rawNorm, untag, rawNormKvs_eq_untagKvs kvs h]
theorem rawNormList_eq_untagList : ∀ xs : List Json, setFreeList xs = true → rawNormList xs = untagList xs
  | [], _ => rfl
  | x :: r, h => by
    simp only [setFreeList, Bool.and_eq_true] at h
    simp [rawNormList, untagList, rawNorm_eq_untag x h.1, rawNormList_eq_untagList r h.2]
theorem rawNormKvs_eq_untagKvs : ∀ kvs : List (String × Json), setFreeKvs kvs = true →
    rawNormKvs kvs = untagKvs kvs
  | [], _ => rfl
  | (k, v) :: r, h => by
    simp only [setFreeKvs, Bool.and_eq_true] at h
    simp [rawNormKvs, untagKvs, rawNorm_eq_untag v h.1, rawNormKvs_eq_untagKvs r h.2]
end

mutual
theorem setFree_of_listDoc : ∀ v : Json, v.listDoc = true → setFree v = true
  | .void, _ => rfl
  | .null, _ => rfl
  | .bool _, _ => rfl
  | .num _, _ => rfl
  | .str _, _ => rfl
  | .arr t xs, h => by
    simp only [Json.listDoc, Bool.and_eq_true, Bool.or_eq_true, beq_iff_eq] at h
    simp only [setFree, Bool.and_eq_true, bne_iff_ne, ne_eq]
    refine ⟨?_, setFreeList_of_listDoc xs h.2⟩
    rcases h.1 with e | e <;> subst e <;> decide
  | .obj kvs, h => by
    simp only [Json.listDoc] at h
    simp only [setFree]; exact setFreeKvs_of_listDoc kvs h
theorem setFreeList_of_listDoc : ∀ xs : List Json, listDocList xs = true → setFreeList xs = true
  | [], _ => rfl
  | x :: r, h => by
    simp only [listDocList, Bool.and_eq_true] at h
    simp [setFreeList, setFree_of_listDoc x h.1, setFreeList_of_listDoc r h.2]
theorem setFreeKvs_of_listDoc : ∀ kvs : List (String × Json), listDocKvs kvs = true → setFreeKvs kvs = true
  | [], _ => rfl
  | (k, v) :: r, h => by
    simp only [listDocKvs, Bool.and_eq_true] at h
    simp [setFreeKvs, setFree_of_listDoc v h.1, setFreeKvs_of_listDoc r h.2]
end

/-- **`Json()` round trip, any document**: for `v` with sorted unique keys, no void inside and
    codec-correct numbers, `v.Json()` succeeds and, surrounded by any JSON white space, is read back
    as `rawNorm v` (= `raw()` as a document: every array plain; a set-typed array deduplicated and
    in hash order) -/
theorem jsonM_parse_ws (nc : NumCodec) (v : Json) (hp : preOK nc v = true) (pre post : List Char)
    (hpre : pre.all isJsonWs = true) (hpost : post.all isJsonWs = true) :
    ∃ s, jsonM nc v = some s ∧
      parseJson nc (String.ofList (pre ++ s.toList ++ post)) = some (rawNorm v) := by
  have hp' := preOK_rawNorm nc v hp
  obtain ⟨s, hs⟩ := jsonText_some nc _ hp'
  refine ⟨s, by rw [jsonM_eq nc v (preOK_not_void hp)]; exact hs, ?_⟩
  exact parseJson_text nc _ s hp' (Yaml.rawDoc_rawNorm v) hs pre post hpre hpost

theorem jsonM_parse (nc : NumCodec) (v : Json) (hw : v.wf = true) (hv : Yaml.voidFree v = true)
    (hn : NumOK nc v = true) :
    ∃ s, jsonM nc v = some s ∧ parseJson nc s = some (rawNorm v) := by
  have hp : preOK nc v = true := by rw [preOK_iff, hw, hv, hn]; rfl
  obtain ⟨s, h1, h2⟩ := jsonM_parse_ws nc v hp [] [] rfl rfl
  exact ⟨s, h1, by simpa [String.ofList_toList] using h2⟩

/-- **`Json()` round trip, documents as read**: every array node plain (`rawDoc`) -/
theorem jsonM_roundtrip (nc : NumCodec) (v : Json) (hr : v.rawDoc = true) (hw : v.wf = true)
    (hv : Yaml.voidFree v = true) (hn : NumOK nc v = true) :
    ∃ s, jsonM nc v = some s ∧ parseJson nc s = some v := by
  obtain ⟨s, h1, h2⟩ := jsonM_parse nc v hw hv hn
  exact ⟨s, h1, by rw [h2, Yaml.rawNorm_of_rawDoc v hr]⟩

/-- typed array nodes, none of them a set: the document comes back with its tags erased -/
theorem jsonM_untag (nc : NumCodec) (v : Json) (hs : setFree v = true) (hw : v.wf = true)
    (hv : Yaml.voidFree v = true) (hn : NumOK nc v = true) :
    ∃ s, jsonM nc v = some s ∧ parseJson nc s = some (untag v) := by
  obtain ⟨s, h1, h2⟩ := jsonM_parse nc v hw hv hn
  exact ⟨s, h1, by rw [h2, rawNorm_eq_untag v hs]⟩

/-! ## 11. `marshalNode` (= `json.Marshal(node)` as the diff renderer calls it) -/

mutual
/-- what `json.Marshal(node)` prints, as a document: arrays element-wise in stored order whatever
    their Go type, objects through `raw()`, void as `{}` -/
def mnorm : Json → Json
  | .void => .obj []
  | .arr _ xs => .arr .raw (mnormList xs)
  | .obj kvs => rawNorm (.obj kvs)
  | n => n
def mnormList : List Json → List Json
  | [] => []
  | x :: r => mnorm x :: mnormList r
end

mutual
theorem marshalNode_eq (nc : NumCodec) : ∀ v : Json, marshalNode nc v = jsonText nc (mnorm v)
  | .void => by simp [marshalNode, mnorm, jsonText, jsonTextKvs]
  | .null => rfl
  | .bool _ => rfl
  | .num _ => rfl
  | .str _ => rfl
  | .arr _ xs => by simp only [marshalNode, mnorm, jsonText, marshalList_eq nc xs]
  | .obj _ => by simp only [marshalNode, mnorm]
theorem marshalList_eq (nc : NumCodec) : ∀ xs : List Json, marshalList nc xs = jsonTextList nc (mnormList xs)
  | [] => rfl
  | x :: r => by simp only [marshalList, mnormList, jsonTextList, marshalNode_eq nc x, marshalList_eq nc r]
end

mutual
/-- the domain of `marshalNode`: as `preOK`, and void is allowed where it is printed as `{}` (the
    value itself, or an element of an array that is not inside an object) -/
def mOK (nc : NumCodec) : Json → Bool
  | .void => true
  | .arr _ xs => mOKList nc xs
  | v => preOK nc v
def mOKList (nc : NumCodec) : List Json → Bool
  | [] => true
  | x :: r => mOK nc x && mOKList nc r
end

mutual
theorem mOK_of_preOK (nc : NumCodec) : ∀ v : Json, preOK nc v = true → mOK nc v = true
  | .void, _ => rfl
  | .null, _ => rfl
  | .bool _, _ => rfl
  | .num _, h => by simpa [mOK] using h
  | .str _, _ => rfl
  | .arr _ xs, h => by simp only [preOK] at h; simp only [mOK]; exact mOKList_of_preOKList nc xs h
  | .obj _, h => by simpa [mOK] using h
theorem mOKList_of_preOKList (nc : NumCodec) : ∀ xs : List Json, preOKList nc xs = true → mOKList nc xs = true
  | [], _ => rfl
  | x :: r, h => by
    simp only [preOKList, Bool.and_eq_true] at h
    simp [mOKList, mOK_of_preOK nc x h.1, mOKList_of_preOKList nc r h.2]
end

mutual
theorem preOK_mnorm (nc : NumCodec) : ∀ v : Json, mOK nc v = true → preOK nc (mnorm v) = true
  | .void, _ => rfl
  | .null, _ => rfl
  | .bool _, _ => rfl
  | .num _, h => by simpa [mOK, mnorm] using h
  | .str _, _ => rfl
  | .arr _ xs, h => by
    simp only [mOK] at h
    simp only [mnorm, preOK]; exact preOKList_mnormList nc xs h
  | .obj kvs, h => by
    simp only [mOK] at h
    simp only [mnorm]; exact preOK_rawNorm nc _ h
theorem preOKList_mnormList (nc : NumCodec) : ∀ xs : List Json, mOKList nc xs = true →
    preOKList nc (mnormList xs) = true
  | [], _ => rfl
  | x :: r, h => by
    simp only [mOKList, Bool.and_eq_true] at h
    simp [mnormList, preOKList, preOK_mnorm nc x h.1, preOKList_mnormList nc r h.2]
end

mutual
theorem rawDoc_mnorm : ∀ v : Json, (mnorm v).rawDoc = true
  | .void => rfl
  | .null => rfl
  | .bool _ => rfl
  | .num _ => rfl
  | .str _ => rfl
  | .arr _ xs => by simp [mnorm, Json.rawDoc, rawDocList_mnormList xs]
  | .obj kvs => by simp only [mnorm]; exact Yaml.rawDoc_rawNorm _
theorem rawDocList_mnormList : ∀ xs : List Json, rawDocList (mnormList xs) = true
  | [] => rfl
  | x :: r => by simp [mnormList, rawDocList, rawDoc_mnorm x, rawDocList_mnormList r]
end

mutual
/-- no set-typed array inside an object (the only place where `marshalNode` reorders) -/
def mSetFree : Json → Bool
  | .arr _ xs => mSetFreeList xs
  | .obj kvs => setFreeKvs kvs
  | _ => true
def mSetFreeList : List Json → Bool
  | [] => true
  | x :: r => mSetFree x && mSetFreeList r
end

mutual
theorem mnorm_eq_untag : ∀ v : Json, Yaml.voidFree v = true → mSetFree v = true → mnorm v = untag v
  | .void, h, _ => by simp [Yaml.voidFree] at h
  | .null, _, _ => rfl
  | .bool _, _, _ => rfl
  | .num _, _, _ => rfl
  | .str _, _, _ => rfl
  | .arr _ xs, hv, hs => by
    simp only [Yaml.voidFree] at hv
    simp only [mSetFree] at hs
    simp [mnorm, untag, mnormList_eq_untagList xs hv hs]
  | .obj kvs, _, hs => by
    simp only [mSetFree] at hs
    simp only [mnorm]
    exact rawNorm_eq_untag (.obj kvs) (by simpa [setFree] using hs)
theorem mnormList_eq_untagList : ∀ xs : List Json, Yaml.voidFreeList xs = true → mSetFreeList xs = true →
    mnormList xs = untagList xs
  | [], _, _ => rfl
  | x :: r, hv, hs => by
    simp only [Yaml.voidFreeList, Bool.and_eq_true] at hv
    simp only [mSetFreeList, Bool.and_eq_true] at hs
    simp [mnormList, untagList, mnorm_eq_untag x hv.1 hs.1, mnormList_eq_untagList r hv.2 hs.2]
end

mutual
theorem mSetFree_of_setFree : ∀ v : Json, setFree v = true → mSetFree v = true
  | .void, _ => rfl
  | .null, _ => rfl
  | .bool _, _ => rfl
  | .num _, _ => rfl
  | .str _, _ => rfl
  | .arr _ xs, h => by
    simp only [setFree, Bool.and_eq_true] at h
    simp only [mSetFree]; exact mSetFreeList_of_setFreeList xs h.2
  | .obj kvs, h => by simpa [setFree, mSetFree] using h
theorem mSetFreeList_of_setFreeList : ∀ xs : List Json, setFreeList xs = true → mSetFreeList xs = true
  | [], _ => rfl
  | x :: r, h => by
    simp only [setFreeList, Bool.and_eq_true] at h
    simp [mSetFreeList, mSetFree_of_setFree x h.1, mSetFreeList_of_setFreeList r h.2]
end

/-- **`json.Marshal(node)` round trip**: on the domain `mOK` the text, surrounded by any JSON white
    space, is read back as `mnorm v` -/
theorem marshalNode_parse_ws (nc : NumCodec) (v : Json) (hp : mOK nc v = true) (pre post : List Char)
    (hpre : pre.all isJsonWs = true) (hpost : post.all isJsonWs = true) :
    ∃ s, marshalNode nc v = some s ∧
      parseJson nc (String.ofList (pre ++ s.toList ++ post)) = some (mnorm v) := by
  have hp' := preOK_mnorm nc v hp
  obtain ⟨s, hs⟩ := jsonText_some nc _ hp'
  exact ⟨s, by rw [marshalNode_eq]; exact hs,
    parseJson_text nc _ s hp' (rawDoc_mnorm v) hs pre post hpre hpost⟩

theorem marshalNode_parse (nc : NumCodec) (v : Json) (hp : mOK nc v = true) :
    ∃ s, marshalNode nc v = some s ∧ parseJson nc s = some (mnorm v) := by
  obtain ⟨s, h1, h2⟩ := marshalNode_parse_ws nc v hp [] [] rfl rfl
  exact ⟨s, h1, by simpa [String.ofList_toList] using h2⟩

/-- `json.Marshal(node)` of a document without void and without a set-typed array inside an
    object is read back as the document with its tags erased; in particular a document as read
    (`rawDoc`) is read back as itself -/
theorem marshalNode_untag (nc : NumCodec) (v : Json) (hms : mSetFree v = true) (hw : v.wf = true)
    (hv : Yaml.voidFree v = true) (hn : NumOK nc v = true) :
    ∃ s, marshalNode nc v = some s ∧ parseJson nc s = some (untag v) := by
  have hp : preOK nc v = true := by rw [preOK_iff, hw, hv, hn]; rfl
  obtain ⟨s, h1, h2⟩ := marshalNode_parse nc v (mOK_of_preOK nc v hp)
  exact ⟨s, h1, by rw [h2, mnorm_eq_untag v hv hms]⟩

/-! ## 12. the text has no newline -/

theorem escapeChar_noNL (c : Char) : '\n' ∉ escapeChar c := by
  unfold escapeChar
  repeat' split
  all_goals first
    | (simp only [List.mem_cons, List.mem_nil_iff, or_false, not_or]; decide)
    | skip
  · have h : ∀ n, n < 16 → '\n' ≠ hexNibble n := by
      intro n hn
      have : n = 0 ∨ n = 1 ∨ n = 2 ∨ n = 3 ∨ n = 4 ∨ n = 5 ∨ n = 6 ∨ n = 7 ∨ n = 8 ∨ n = 9 ∨ n = 10 ∨
          n = 11 ∨ n = 12 ∨ n = 13 ∨ n = 14 ∨ n = 15 := by omega
      rcases this with h|h|h|h|h|h|h|h|h|h|h|h|h|h|h|h <;> subst h <;> decide
    next hc =>
    have hlt : c.toNat < 0x80 := by
      simp only [Bool.or_eq_true, decide_eq_true_eq, beq_iff_eq] at hc
      rcases hc with ((hc | hc) | hc) | hc
      · omega
      · subst hc; decide
      · subst hc; decide
      · subst hc; decide
    simp only [List.mem_cons, List.mem_nil_iff, or_false, not_or]
    exact ⟨by decide, by decide, by decide, by decide, h _ (by omega), h _ (by omega)⟩
  · simp
  · simp
  · next h1 h2 h3 h4 h5 h6 h7 h8 h9 h10 =>
    simp only [beq_iff_eq] at h5
    simp only [List.mem_cons, List.mem_nil_iff, or_false]
    exact fun e => h5 e.symm

theorem escL_noNL : ∀ cs : List Char, '\n' ∉ escL cs
  | [] => by simp [escL]
  | c :: r => by
    have ih := escL_noNL r
    simp only [escL, List.flatMap_cons, List.mem_append, not_or] at ih ⊢
    exact ⟨escapeChar_noNL c, ih⟩

theorem quoteString_noNL (x : String) : '\n' ∉ (quoteString x).toList := by
  rw [quoteString_toList]
  simp only [List.mem_cons, List.mem_append, List.mem_nil_iff, or_false, not_or]
  exact ⟨by decide, escL_noNL _, by decide⟩

theorem takeDigits_fst_digit : ∀ (l : List Char) (c : Char), c ∈ (takeDigits l).1 → isDigit c = true
  | [], c, h => by simp [takeDigits] at h
  | a :: l, c, h => by
    by_cases ha : isDigit a = true
    · simp only [takeDigits, ha, if_true, List.mem_cons] at h
      rcases h with h | h
      · subst h; exact ha
      · exact takeDigits_fst_digit l c h
    · simp [takeDigits, ha] at h

theorem takeDigits_noNL (l : List Char) : '\n' ∉ (takeDigits l).1 := fun h => by
  have := takeDigits_fst_digit l _ h
  simp [isDigit] at this

theorem signSplit_noNL (l : List Char) : '\n' ∉ (signSplit l).1 := by
  unfold signSplit; split <;> simp

theorem lexExp_noNL (acc r a t : List Char) (h : lexNumber.lexExp acc r = some (a, t)) (ha : '\n' ∉ acc) :
    '\n' ∉ a := by
  cases r with
  | nil => simp [lexNumber.lexExp] at h; rw [← h.1]; exact ha
  | cons e r1 =>
    rw [lexExp_cons] at h
    by_cases he : (e == 'e' || e == 'E') = true
    · rw [if_pos he] at h
      split at h
      · simp at h
      · simp only [Option.some.injEq, Prod.mk.injEq] at h
        rw [← h.1]
        simp only [List.mem_append, List.mem_cons, not_or]
        refine ⟨⟨ha, ?_, signSplit_noNL _⟩, takeDigits_noNL _⟩
        simp only [Bool.or_eq_true, beq_iff_eq] at he
        rcases he with he | he <;> subst he <;> decide
    · rw [if_neg he] at h
      simp only [Option.some.injEq, Prod.mk.injEq] at h
      rw [← h.1]; exact ha

theorem lexFrac_noNL (acc r a t : List Char) (h : lexNumber.lexFrac acc r = some (a, t)) (ha : '\n' ∉ acc) :
    '\n' ∉ a := by
  cases r with
  | nil => exact lexExp_noNL acc [] a t (by simpa [lexNumber.lexFrac] using h) ha
  | cons c r1 =>
    rw [lexFrac_cons] at h
    by_cases hc : c = '.'
    · rw [if_pos hc] at h
      split at h
      · simp at h
      · refine lexExp_noNL _ _ a t h ?_
        simp only [List.mem_append, List.mem_cons, not_or]
        exact ⟨ha, by decide, takeDigits_noNL _⟩
    · rw [if_neg hc] at h
      exact lexExp_noNL _ _ a t h ha

theorem lexNum0_noNL (sign r a t : List Char) (h : lexNum0 sign r = some (a, t)) (ha : '\n' ∉ sign) :
    '\n' ∉ a := by
  cases r with
  | nil => simp [lexNum0] at h
  | cons c r1 =>
    simp only [lexNum0] at h
    by_cases h0 : c = '0'
    · rw [if_pos h0] at h
      exact lexFrac_noNL _ _ a t h (by simp only [List.mem_append, List.mem_singleton, not_or]; exact ⟨ha, by decide⟩)
    · rw [if_neg h0] at h
      by_cases hd : isDigit c = true
      · rw [if_pos hd] at h
        exact lexFrac_noNL _ _ a t h (by simp only [List.mem_append, not_or]; exact ⟨ha, takeDigits_noNL _⟩)
      · rw [if_neg hd] at h; simp at h

theorem lexNumber_noNL (r a t : List Char) (h : lexNumber r = some (a, t)) : '\n' ∉ a := by
  cases r with
  | nil => simp [lexNumber_nil] at h
  | cons c r1 =>
    rw [lexNumber_cons] at h
    by_cases hc : c = '-'
    · rw [if_pos hc] at h; exact lexNum0_noNL _ _ a t h (by decide)
    · rw [if_neg hc] at h; exact lexNum0_noNL _ _ a t h (by simp)

theorem joinC_noNL : ∀ l : List String, (∀ a ∈ l, '\n' ∉ a.toList) → '\n' ∉ joinC l
  | [], _ => by simp [joinC]
  | [a], h => by simpa [joinC] using h a (by simp)
  | a :: b :: l, h => by
    have ih := joinC_noNL (b :: l) (fun x hx => h x (List.mem_cons_of_mem _ hx))
    simp only [joinC, List.mem_append, List.mem_cons, not_or]
    exact ⟨h a (by simp), by decide, ih⟩

mutual
theorem jsonText_noNL (nc : NumCodec) : ∀ (v : Json) (s : String), preOK nc v = true →
    jsonText nc v = some s → '\n' ∉ s.toList
  | .void, _, h, _ => by simp [preOK] at h
  | .null, s, _, h => by
    simp only [jsonText, Option.some.injEq] at h; subst h; simp
  | .bool true, s, _, h => by
    simp only [jsonText, Option.some.injEq] at h; subst h; simp
  | .bool false, s, _, h => by
    simp only [jsonText, Option.some.injEq] at h; subst h; simp
  | .num b, s, hp, h => by
    simp only [preOK] at hp
    obtain ⟨s', hs', hl, _⟩ := numOK_spec hp
    simp only [jsonText, hs', Option.some.injEq] at h; subst h
    exact lexNumber_noNL _ _ _ hl
  | .str x, s, _, h => by
    simp only [jsonText, Option.some.injEq] at h; subst h
    exact quoteString_noNL x
  | .arr t xs, s, hp, h => by
    obtain ⟨l, hl, e⟩ := jsonText_arr h
    simp only [preOK] at hp
    rw [e]
    simp only [List.mem_cons, List.mem_append, List.mem_nil_iff, or_false, not_or]
    exact ⟨by decide, joinC_noNL l (jsonTextList_noNL nc xs l hp hl), by decide⟩
  | .obj kvs, s, hp, h => by
    obtain ⟨l, hl, e⟩ := jsonText_obj h
    simp only [preOK, Bool.and_eq_true] at hp
    rw [e]
    simp only [List.mem_cons, List.mem_append, List.mem_nil_iff, or_false, not_or]
    exact ⟨by decide, joinC_noNL l (jsonTextKvs_noNL nc kvs l hp.2 hl), by decide⟩
theorem jsonTextList_noNL (nc : NumCodec) : ∀ (xs : List Json) (l : List String), preOKList nc xs = true →
    jsonTextList nc xs = some l → ∀ a ∈ l, '\n' ∉ a.toList
  | [], l, _, hl => by simp only [jsonTextList, Option.some.injEq] at hl; subst hl; simp
  | x :: r, l, hp, hl => by
    obtain ⟨a, b, ha, hb, rfl⟩ := jsonTextList_cons hl
    simp only [preOKList, Bool.and_eq_true] at hp
    intro y hy
    rcases List.mem_cons.1 hy with e | hy
    · subst e; exact jsonText_noNL nc x _ hp.1 ha
    · exact jsonTextList_noNL nc r b hp.2 hb y hy
theorem jsonTextKvs_noNL (nc : NumCodec) : ∀ (kvs : List (String × Json)) (l : List String),
    preOKKvs nc kvs = true → jsonTextKvs nc kvs = some l → ∀ a ∈ l, '\n' ∉ a.toList
  | [], l, _, hl => by simp only [jsonTextKvs, Option.some.injEq] at hl; subst hl; simp
  | (k, v) :: r, l, hp, hl => by
    obtain ⟨a, b, ha, hb, rfl⟩ := jsonTextKvs_cons hl
    simp only [preOKKvs, Bool.and_eq_true] at hp
    intro y hy
    rcases List.mem_cons.1 hy with e | hy
    · subst e
      rw [member_toList]
      simp only [List.mem_cons, List.mem_append, not_or]
      exact ⟨by decide, escL_noNL _, by decide, by decide, jsonText_noNL nc v _ hp.1 ha⟩
    · exact jsonTextKvs_noNL nc r b hp.2 hb y hy
end

/-! ## 13. consequence (a): the codec contract of the native format (`NativeRT.CodecOK`) -/

theorem dropWhile_keeps (p : Char → Bool) : ∀ l : List Char, (∃ c ∈ l, p c = false) →
    ∃ c ∈ l.dropWhile p, p c = false
  | [], h => by obtain ⟨c, hc, _⟩ := h; simp at hc
  | a :: l, h => by
    by_cases ha : p a = true
    · obtain ⟨c, hc, hpc⟩ := h
      rcases List.mem_cons.1 hc with e | hc
      · subst e; rw [ha] at hpc; cases hpc
      · simpa [List.dropWhile, ha] using dropWhile_keeps p l ⟨c, hc, hpc⟩
    · exact ⟨a, by simp [List.dropWhile, ha], by simpa using ha⟩

theorem trimGoSpace_nonempty (cs : List Char) (h : ∃ c ∈ cs, isJsonWs c = false) :
    (trimGoSpace (String.ofList cs)).isEmpty = false := by
  obtain ⟨c1, h1, p1⟩ := dropWhile_keeps isJsonWs cs h
  obtain ⟨c2, h2, _⟩ := dropWhile_keeps isJsonWs (cs.dropWhile isJsonWs).reverse ⟨c1, by simpa using h1, p1⟩
  have hne : ((cs.dropWhile isJsonWs).reverse.dropWhile isJsonWs).reverse ≠ [] := by
    intro e
    rw [List.reverse_eq_nil_iff] at e
    rw [e] at h2; simp at h2
  simp [trimGoSpace, String.toList_ofList, hne]

/-- `ReadJsonString` on the text of a document, surrounded by white space -/
theorem readJsonM_text (nc : NumCodec) (v : Json) (s : String) (hp : preOK nc v = true)
    (hr : v.rawDoc = true) (h : jsonText nc v = some s) (pre post : List Char)
    (hpre : pre.all isJsonWs = true) (hpost : post.all isJsonWs = true) :
    readJsonM nc (String.ofList (pre ++ s.toList ++ post)) = .ok v := by
  obtain ⟨c, r, e, hws, _⟩ := jsonText_head nc v s hp h
  have hne : (trimGoSpace (String.ofList (pre ++ s.toList ++ post))).isEmpty = false :=
    trimGoSpace_nonempty _ ⟨c, by simp [e], hws⟩
  simp only [readJsonM, hne, parseJson_text nc v s hp hr h pre post hpre hpost]
  simp

/-- **(a) `ValOK`**: the payload contract of `NativeRT` holds for every value of the domain -/
theorem valOK_of_preOK (nc : NumCodec) (v : Json) (hp : preOK nc v = true) (hms : mSetFree v = true) :
    NativeRT.ValOK nc v := by
  intro t ht
  rw [marshalNode_eq] at ht
  have hp' := preOK_mnorm nc v (mOK_of_preOK nc v hp)
  have hv : Yaml.voidFree v = true := by
    have := hp; rw [preOK_iff] at this
    simp only [Bool.and_eq_true] at this; exact this.1.2
  refine ⟨jsonText_noNL nc _ t hp' ht, ?_⟩
  have := readJsonM_text nc _ t hp' (rawDoc_mnorm v) ht [' '] [] (by decide) rfl
  rw [mnorm_eq_untag v hv hms] at this
  have e : " " ++ t = String.ofList ([' '] ++ t.toList ++ []) := by
    rw [← String.toList_inj]; simp [String.toList_append]
  rw [e]; exact this

/-- `ValOK` from the separate decidable hypotheses; `mSetFree` holds for every document without a
    set-typed array node (`mSetFree_of_setFree`, `setFree_of_listDoc`), in particular for `rawDoc`s -/
theorem valOK (nc : NumCodec) (v : Json) (hw : v.wf = true) (hv : Yaml.voidFree v = true)
    (hn : NumOK nc v = true) (hms : mSetFree v = true) : NativeRT.ValOK nc v :=
  valOK_of_preOK nc v (by rw [preOK_iff, hw, hv, hn]; rfl) hms

/-- **(a) `PathOK`**: the path contract, from the same hypotheses on the path's JSON form -/
theorem pathOK (nc : NumCodec) (p : Path) (hw : (pathToJson p).wf = true)
    (hv : Yaml.voidFree (pathToJson p) = true) (hn : NumOK nc (pathToJson p) = true)
    (hs : setFree (pathToJson p) = true) : NativeRT.PathOK nc p := by
  intro t ht
  have hp : preOK nc (pathToJson p) = true := by rw [preOK_iff, hw, hv, hn]; rfl
  rw [jsonM_eq nc _ (preOK_not_void hp)] at ht
  have hp' := preOK_rawNorm nc _ hp
  refine ⟨jsonText_noNL nc _ t hp' ht, ?_⟩
  have := readJsonM_text nc _ t hp' (Yaml.rawDoc_rawNorm _) ht [' '] [] (by decide) rfl
  rw [rawNorm_eq_untag _ hs] at this
  have e : " " ++ t = String.ofList ([' '] ++ t.toList ++ []) := by
    rw [← String.toList_inj]; simp [String.toList_append]
  rw [e]; exact this

/-- **(a) `CodecOK`** of a diff from decidable hypotheses on its paths and payloads -/
theorem codecOK (nc : NumCodec) (d : Diff)
    (hpath : ∀ h ∈ d, (pathToJson h.path).wf = true ∧ Yaml.voidFree (pathToJson h.path) = true ∧
      NumOK nc (pathToJson h.path) = true ∧ setFree (pathToJson h.path) = true)
    (hval : ∀ h ∈ d, ∀ v ∈ NativeRT.payloads h,
      v.wf = true ∧ Yaml.voidFree v = true ∧ NumOK nc v = true ∧ mSetFree v = true) :
    NativeRT.CodecOK nc d := by
  intro h hh
  obtain ⟨h1, h2, h3, h4⟩ := hpath h hh
  refine ⟨pathOK nc h.path h1 h2 h3 h4, ?_⟩
  intro v hv
  obtain ⟨g1, g2, g3, g4⟩ := hval h hh v hv
  exact valOK nc v g1 g2 g3 g4

/-! ## 14. consequence (b): JSON Patch (RFC 6902) text -/

/-- one operation of a JSON Patch as a document -/
def opDoc (p : PatchOp) : Json :=
  .obj [("op", .str p.op), ("path", .str p.path), ("value", mnorm p.value)]

/-- what the text round trip does to an operation: its value goes through `json.Marshal` -/
def normOp (p : PatchOp) : PatchOp := { p with value := mnorm p.value }

theorem patchOpText_eq (nc : NumCodec) (p : PatchOp) : patchOpText nc p = jsonText nc (opDoc p) := by
  simp only [patchOpText, opDoc, jsonText, jsonTextKvs, marshalNode_eq]
  cases jsonText nc (mnorm p.value) with
  | none => rfl
  | some t =>
    simp only [Option.map_some, Option.bind_eq_bind, Option.bind_some, Option.pure_def, Option.some.injEq]
    rw [← String.toList_inj]
    simp [String.toList_append, quoteString_toList, escL, escapeChar]

theorem optAll_patchOpText (nc : NumCodec) : ∀ ops : List PatchOp,
    optAll (ops.map (patchOpText nc)) = jsonTextList nc (ops.map opDoc)
  | [] => rfl
  | p :: r => by
    simp only [List.map_cons, jsonTextList, patchOpText_eq]
    cases jsonText nc (opDoc p) with
    | none => rfl
    | some a =>
      simp only [optAll, optAll_patchOpText nc r]
      cases jsonTextList nc (r.map opDoc) <;> rfl

/-- **`RenderPatch` is the `Json()` text of the array of operation objects** -/
theorem renderPatchM_eq (nc : NumCodec) (d : Diff) :
    renderPatchM nc d =
      match renderPatchOps d with
      | .ok ops => .ok (jsonText nc (.arr .raw (ops.map opDoc)))
      | .err => .err
      | .panic => .panic := by
  unfold renderPatchM
  cases d with
  | nil => simp [renderPatchOps, jsonText, jsonTextList]
  | cons h r =>
    simp only [List.isEmpty_cons, Bool.false_eq_true, if_false]
    cases renderPatchOps (h :: r) with
    | ok ops => simp only [optAll_patchOpText, jsonText]
    | err => rfl
    | panic => rfl

theorem patchOpsOfJson_go_opDocs : ∀ ops : List PatchOp,
    patchOpsOfJson.go (ops.map opDoc) = .ok (ops.map normOp)
  | [] => rfl
  | p :: r => by
    simp [patchOpsOfJson.go, patchOpsOfJson.strField, patchOpsOfJson.valueField, alookup, opDoc, normOp,
      patchOpsOfJson_go_opDocs r]
    rfl

theorem preOKList_opDocs (nc : NumCodec) : ∀ ops : List PatchOp, (∀ p ∈ ops, mOK nc p.value = true) →
    preOKList nc (ops.map opDoc) = true
  | [], _ => rfl
  | p :: r, h => by
    have h1 := preOK_mnorm nc p.value (h p (by simp))
    have h2 := preOKList_opDocs nc r (fun q hq => h q (List.mem_cons_of_mem _ hq))
    have hk : keysSorted [("op", Json.str p.op), ("path", .str p.path), ("value", mnorm p.value)] = true := by
      simp only [keysSorted, Bool.and_true, decide_eq_true_eq, Bool.and_eq_true]
      exact ⟨by decide, by decide⟩
    simp [preOKList, opDoc, preOK, preOKKvs, h1, h2, hk]

theorem rawDocList_opDocs : ∀ ops : List PatchOp, rawDocList (ops.map opDoc) = true
  | [] => rfl
  | p :: r => by
    simp [rawDocList, opDoc, Json.rawDoc, rawDocKvs, rawDoc_mnorm, rawDocList_opDocs r]

/-- **(b) JSON Patch, text level**: whenever the operations of `d` can be written (`renderPatchOps`)
    and their values are in the domain of `json.Marshal` (`mOK`), `RenderPatch` produces a text, and
    `ReadPatchString` of that text is `ReadPatchString`'s logic on those operations, their values
    passed through `mnorm` -/
theorem readPatchM_renderPatchM (nc : NumCodec) (d : Diff) (ops : List PatchOp)
    (hops : renderPatchOps d = .ok ops) (hok : ∀ p ∈ ops, mOK nc p.value = true) :
    ∃ text, renderPatchM nc d = .ok (some text) ∧ readPatchM nc text = readPatchOps (ops.map normOp) := by
  have hp : preOK nc (.arr .raw (ops.map opDoc)) = true := by
    simp only [preOK]; exact preOKList_opDocs nc ops hok
  have hr : (Json.arr .raw (ops.map opDoc)).rawDoc = true := by
    simp [Json.rawDoc, rawDocList_opDocs]
  obtain ⟨text, ht⟩ := jsonText_some nc _ hp
  refine ⟨text, by rw [renderPatchM_eq, hops]; simp only [ht], ?_⟩
  simp only [readPatchM, parseJson_text' nc _ text hp hr ht, readPatchDoc, patchOpsOfJson,
    patchOpsOfJson_go_opDocs]


mutual
theorem mnorm_of_rawDoc : ∀ v : Json, v.rawDoc = true → Yaml.voidFree v = true → mnorm v = v
  | .void, _, h => by simp [Yaml.voidFree] at h
  | .null, _, _ => rfl
  | .bool _, _, _ => rfl
  | .num _, _, _ => rfl
  | .str _, _, _ => rfl
  | .arr t xs, hr, hv => by
    simp only [Json.rawDoc, Bool.and_eq_true, beq_iff_eq] at hr
    simp only [Yaml.voidFree] at hv
    obtain ⟨rfl, hr⟩ := hr
    simp [mnorm, mnormList_of_rawDoc xs hr hv]
  | .obj kvs, hr, _ => by simp only [mnorm]; exact Yaml.rawNorm_of_rawDoc _ hr
theorem mnormList_of_rawDoc : ∀ xs : List Json, rawDocList xs = true → Yaml.voidFreeList xs = true →
    mnormList xs = xs
  | [], _, _ => rfl
  | x :: r, hr, hv => by
    simp only [rawDocList, Bool.and_eq_true] at hr
    simp only [Yaml.voidFreeList, Bool.and_eq_true] at hv
    simp [mnormList, mnorm_of_rawDoc x hr.1 hv.1, mnormList_of_rawDoc r hr.2 hv.2]
end

theorem map_normOp_id (ops : List PatchOp)
    (h : ∀ p ∈ ops, p.value.rawDoc = true ∧ Yaml.voidFree p.value = true) : ops.map normOp = ops := by
  induction ops with
  | nil => rfl
  | cons p r ih =>
    have hp := h p (by simp)
    simp only [List.map_cons, normOp, mnorm_of_rawDoc _ hp.1 hp.2,
      ih (fun q hq => h q (List.mem_cons_of_mem _ hq))]

/-- the values that `RenderPatch` writes for a hunk satisfy `P` -/
def HunkVals (P : Json → Prop) (h : Hunk) : Prop :=
  (∀ v ∈ h.before, v.isVoid = false → P v) ∧ (∀ v ∈ h.after, v.isVoid = false → P v) ∧
  ((∀ v ∈ h.remove, P v) ∨ ∃ r0 r, h.remove = r0 :: r ∧ r0.isVoid = true) ∧
  ((∀ v ∈ h.add, P v) ∨ ∃ a0 r, h.add = a0 :: r ∧ a0.isVoid = true)

theorem renderPatchHunk_values {P : Json → Prop} {h : Hunk} {ops : List PatchOp}
    (e : renderPatchHunk h = .ok ops) (hv : HunkVals P h) : ∀ p ∈ ops, P p.value := by
  obtain ⟨s, bo, ao, _, _, _, _, hb, ha, rfl⟩ := renderPatchHunk_ok e
  obtain ⟨h1, h2, h3, h4⟩ := hv
  intro p hp
  simp only [List.mem_append] at hp
  rcases hp with ((hp | hp) | hp) | hp
  · rcases ctxOps_ok hb with ⟨rfl, _⟩ | ⟨b, i, pp, hbe, hbv, _, _, rfl⟩
    · cases hp
    · simp only [List.mem_singleton] at hp; subst hp
      exact h1 b (by rw [hbe]; simp) hbv
  · rcases ctxOps_ok ha with ⟨rfl, _⟩ | ⟨b, i, pp, hbe, hbv, _, _, rfl⟩
    · cases hp
    · simp only [List.mem_singleton] at hp; subst hp
      exact h2 b (by rw [hbe]; simp) hbv
  · unfold remOpsOf at hp
    split at hp
    · cases hp
    · next r0 r' heq =>
      split at hp
      · cases hp
      · next hne =>
        simp only [List.mem_flatMap, List.mem_cons, List.not_mem_nil, or_false] at hp
        obtain ⟨x, hx, rfl | rfl⟩ := hp
        all_goals
          rcases h3 with h3 | ⟨a0, r, e0, hv0⟩
          · exact h3 x hx
          · rw [heq] at e0; cases e0; exact absurd hv0 hne
  · unfold addOpsOf at hp
    split at hp
    · cases hp
    · next a0 r' heq =>
      split at hp
      · cases hp
      · next hne =>
        simp only [List.mem_map, List.mem_reverse] at hp
        obtain ⟨x, hx, rfl⟩ := hp
        rcases h4 with h4 | ⟨b0, r, e0, hv0⟩
        · exact h4 x hx
        · rw [heq] at e0; cases e0; exact absurd hv0 hne

theorem renderPatchOps_values {P : Json → Prop} : ∀ {d : Diff} {ops : List PatchOp},
    renderPatchOps d = .ok ops → (∀ h ∈ d, HunkVals P h) → ∀ p ∈ ops, P p.value
  | [], ops, e, _ => by
    rw [renderPatchOps] at e; injection e with e; subst e; intro o ho; cases ho
  | h :: d, ops, e, hv => by
    obtain ⟨a, b, ha, hb, rfl⟩ := renderPatchOps_ok_cons e
    intro o ho
    rcases List.mem_append.mp ho with ho | ho
    · exact renderPatchHunk_values ha (hv h (by simp)) o ho
    · exact renderPatchOps_values hb (fun g hg => hv g (List.mem_cons_of_mem _ hg)) o ho


/-- the decidable domain of payload values: documents as read, sorted unique keys, no void inside,
    codec-correct numbers -/
def DocOK (nc : NumCodec) (v : Json) : Prop :=
  v.rawDoc = true ∧ v.wf = true ∧ Yaml.voidFree v = true ∧ NumOK nc v = true

theorem DocOK.preOK {nc : NumCodec} {v : Json} (h : DocOK nc v) : preOK nc v = true := by
  rw [preOK_iff, h.2.1, h.2.2.1, h.2.2.2]; rfl

/-- **(b) own output, text level**: `ReadPatchString (d.RenderPatch())` is `ReadPatchString`'s logic
    on the operations `renderPatchOps d` — the statement C09 / C10 start from — for every diff whose
    written values are documents as read (`DocOK`); `RenderPatch` fails exactly when
    `renderPatchOps` does -/
theorem readPatchM_renderPatchM_own (nc : NumCodec) (d : Diff) (hd : ∀ h ∈ d, HunkVals (DocOK nc) h) :
    match renderPatchOps d with
    | .ok ops => ∃ text, renderPatchM nc d = .ok (some text) ∧ readPatchM nc text = readPatchOps ops
    | .err => renderPatchM nc d = .err
    | .panic => renderPatchM nc d = .panic := by
  cases hops : renderPatchOps d with
  | ok ops =>
    have hv := renderPatchOps_values hops hd
    obtain ⟨text, h1, h2⟩ := readPatchM_renderPatchM nc d ops hops
      (fun p hp => mOK_of_preOK nc _ (hv p hp).preOK)
    rw [map_normOp_id ops (fun p hp => ⟨(hv p hp).1, (hv p hp).2.2.1⟩)] at h2
    exact ⟨text, h1, h2⟩
  | err => simp only [renderPatchM_eq, hops]
  | panic => simp only [renderPatchM_eq, hops]

/-- the operation with the tags of its value erased -/
def untagOp (p : PatchOp) : PatchOp := { p with value := untag p.value }

theorem map_normOp_untag (ops : List PatchOp)
    (h : ∀ p ∈ ops, Yaml.voidFree p.value = true ∧ mSetFree p.value = true) :
    ops.map normOp = ops.map untagOp := by
  induction ops with
  | nil => rfl
  | cons p r ih =>
    have hp := h p (by simp)
    simp only [List.map_cons, normOp, untagOp, mnorm_eq_untag _ hp.1 hp.2,
      ih (fun q hq => h q (List.mem_cons_of_mem _ hq))]

/-- **(b), typed values**: for written values with typed array nodes (no void inside, no set-typed
    array inside an object) the operations come back with the tags of their values erased -/
theorem readPatchM_renderPatchM_untag (nc : NumCodec) (d : Diff) (ops : List PatchOp)
    (hops : renderPatchOps d = .ok ops)
    (hok : ∀ p ∈ ops, preOK nc p.value = true ∧ mSetFree p.value = true) :
    ∃ text, renderPatchM nc d = .ok (some text) ∧ readPatchM nc text = readPatchOps (ops.map untagOp) := by
  obtain ⟨text, h1, h2⟩ := readPatchM_renderPatchM nc d ops hops
    (fun p hp => mOK_of_preOK nc _ (hok p hp).1)
  rw [map_normOp_untag ops (fun p hp => ⟨by
    have := (hok p hp).1; rw [preOK_iff] at this
    simp only [Bool.and_eq_true] at this; exact this.1.2, (hok p hp).2⟩)] at h2
  exact ⟨text, h1, h2⟩

/-! ## 15. consequence (c): JSON Merge Patch (RFC 7386) text -/

theorem readJsonM_jsonM (nc : NumCodec) (n : Json) (hp : n.isVoid = true ∨ preOK nc n = true) :
    ∃ s, jsonM nc n = some s ∧ readJsonM nc s = .ok (rawNorm n) := by
  rcases hp with hv | hp
  · cases n <;> simp [Json.isVoid] at hv
    exact ⟨"", rfl, by simp [readJsonM, trimGoSpace, rawNorm]⟩
  · have hp' := preOK_rawNorm nc n hp
    obtain ⟨s, hs⟩ := jsonText_some nc _ hp'
    refine ⟨s, by rw [jsonM_eq nc n (preOK_not_void hp)]; exact hs, ?_⟩
    have := readJsonM_text nc _ s hp' (Yaml.rawDoc_rawNorm n) hs [] [] rfl rfl
    simpa [String.ofList_toList] using this

/-- **(c) JSON Merge Patch, text level**: when `RenderMerge` builds the document `n` (void for a
    diff that deletes the root, or a document of the domain), the text is produced and
    `ReadMergeString` of it is `readMergeDoc` of `raw()` of `n` -/
theorem readMergeM_renderMergeM (nc : NumCodec) (d : Diff) (n : Json) (hn : renderMergeDoc d = .ok n)
    (hp : n.isVoid = true ∨ preOK nc n = true) :
    ∃ s, renderMergeM nc d = .ok (some s) ∧ readMergeM nc s = .ok (readMergeDoc (rawNorm n)) := by
  obtain ⟨s, h1, h2⟩ := readJsonM_jsonM nc n hp
  exact ⟨s, by simp only [renderMergeM, hn, h1], by simp only [readMergeM, h2]⟩

/-- **(c) own output**: for a merge document as read (`DocOK`; or void),
    `ReadMergeString (d.RenderMerge()) = readMergeDoc (renderMergeDoc d)`; `RenderMerge` fails exactly
    when `renderMergeDoc` does -/
theorem readMergeM_renderMergeM_own (nc : NumCodec) (d : Diff)
    (hd : ∀ n, renderMergeDoc d = .ok n → n.isVoid = true ∨ DocOK nc n) :
    match renderMergeDoc d with
    | .ok n => ∃ s, renderMergeM nc d = .ok (some s) ∧ readMergeM nc s = .ok (readMergeDoc n)
    | .err => renderMergeM nc d = .err
    | .panic => renderMergeM nc d = .panic := by
  cases hn : renderMergeDoc d with
  | ok n =>
    have hp : n.isVoid = true ∨ preOK nc n = true := (hd n hn).imp id DocOK.preOK
    obtain ⟨s, h1, h2⟩ := readMergeM_renderMergeM nc d n hn hp
    refine ⟨s, h1, ?_⟩
    rcases hd n hn with hv | hdoc
    · cases n <;> simp [Json.isVoid] at hv
      simpa [rawNorm] using h2
    · rw [Yaml.rawNorm_of_rawDoc n hdoc.1] at h2; exact h2
  | err => simp only [renderMergeM, hn]
  | panic => simp only [renderMergeM, hn]

/-! ## 16. integers: `numOK` holds by the model's own integer formatting / parsing -/

theorem isDigit_eq (c : Char) : isDigit c = c.isDigit := by
  rw [Bool.eq_iff_iff, isDigit_iff]
  simp only [Char.isDigit, Bool.and_eq_true, decide_eq_true_eq, UInt32.le_iff_toNat_le]
  rfl

theorem toDigits_all_digit (n : Nat) : ∀ c ∈ Nat.toDigits 10 n, isDigit c = true := by
  intro c hc
  rw [isDigit_eq]
  exact Nat.isDigit_of_mem_toDigits (by decide) (by decide) hc

theorem takeDigits_all : ∀ l : List Char, (∀ c ∈ l, isDigit c = true) → takeDigits l = (l, [])
  | [], _ => rfl
  | c :: r, h => by
    have ih := takeDigits_all r (fun x hx => h x (List.mem_cons_of_mem _ hx))
    simp [takeDigits, h c (by simp), ih]

theorem toDigits_head : ∀ n : Nat, 0 < n → ∃ c r, Nat.toDigits 10 n = c :: r ∧ c ≠ '0' := by
  intro n
  induction n using Nat.strongRecOn with
  | _ n ih =>
    intro hn
    rw [Nat.toDigits_eq_if (by decide)]
    split
    · next hlt =>
      refine ⟨_, [], rfl, ?_⟩
      have : n = 1 ∨ n = 2 ∨ n = 3 ∨ n = 4 ∨ n = 5 ∨ n = 6 ∨ n = 7 ∨ n = 8 ∨ n = 9 := by omega
      rcases this with h|h|h|h|h|h|h|h|h <;> subst h <;> decide
    · next hge =>
      obtain ⟨c, r, e, hc⟩ := ih (n / 10) (by omega) (by omega)
      exact ⟨c, r ++ [Nat.digitChar (n % 10)], by rw [e]; rfl, hc⟩

theorem foldl_digits (l : List Char) (init : Nat) :
    l.foldl (fun (acc : Nat) c => acc * 10 + (c.toNat - 48)) init = Nat.ofDigitChars 10 l init := by
  induction l generalizing init with
  | nil => rfl
  | cons c r ih =>
    simp only [List.foldl_cons, Nat.ofDigitChars_cons, ih]
    congr 1
    simp [Nat.mul_comm]

theorem lexNumber_digits (n : Nat) (sign : List Char) (hs : sign = [] ∨ sign = ['-']) :
    lexNumber (sign ++ Nat.toDigits 10 n) = some (sign ++ Nat.toDigits 10 n, []) := by
  have hall := toDigits_all_digit n
  have key : lexNum0 sign (Nat.toDigits 10 n) = some (sign ++ Nat.toDigits 10 n, []) := by
    by_cases hn : n = 0
    · subst hn
      simp [Nat.toDigits_zero, lexNum0, lexNumber.lexFrac, lexNumber.lexExp]
    · obtain ⟨c, r, e, hc⟩ := toDigits_head n (by omega)
      have hd : isDigit c = true := hall c (by rw [e]; simp)
      rw [e] at hall ⊢
      simp only [lexNum0, if_neg hc, hd, if_true, takeDigits_all _ hall]
      simp [lexNumber.lexFrac, lexNumber.lexExp]
  rcases hs with rfl | rfl
  · obtain ⟨c, r, e⟩ : ∃ c r, Nat.toDigits 10 n = c :: r := by
      cases h : Nat.toDigits 10 n with
      | nil => exact absurd h Nat.toDigits_ne_nil
      | cons c r => exact ⟨c, r, rfl⟩
    have hc : c ≠ '-' := by
      intro h; subst h
      have := hall '-' (by rw [e]; simp)
      simp [isDigit] at this
    simp only [List.nil_append] at key ⊢
    rw [e, lexNumber_cons, if_neg hc, ← e]; exact key
  · rw [List.singleton_append, lexNumber_cons, if_pos rfl]; exact key


theorem natToDigits_toList (n : Nat) : (natToDigits n).toList = Nat.toDigits 10 n := by
  simp [natToDigits]

def negSplit : List Char → Bool × List Char
  | '-' :: r => (true, r)
  | r => (false, r)

theorem parseNumToken_none (nc : NumCodec) (tok : List Char) (hp : nc.parse (String.ofList tok) = none) :
    parseNumToken nc tok =
      if ((negSplit tok).2.all isDigit && !(negSplit tok).2.isEmpty && decide ((negSplit tok).2.length ≤ 15)) = true then
        (if ((negSplit tok).2.foldl (fun (acc : Nat) c => acc * 10 + (c.toNat - 48)) 0 == 0 && (negSplit tok).1) = true
          then some 0x8000000000000000
         else some (intToFloatBits (if (negSplit tok).1 = true
           then -(((negSplit tok).2.foldl (fun (acc : Nat) c => acc * 10 + (c.toNat - 48)) 0 : Nat) : Int)
           else (((negSplit tok).2.foldl (fun (acc : Nat) c => acc * 10 + (c.toNat - 48)) 0 : Nat) : Int))))
      else none := by
  unfold parseNumToken
  simp only [hp, negSplit]
  rfl

/-- the integer fallback of `parseNumToken` on the digits of `n < 10^15`, with optional sign -/
theorem parseNumToken_digits (nc : NumCodec) (n : Nat) (hn : n < 10 ^ 15) (neg : Bool)
    (hp : nc.parse (String.ofList ((if neg then ['-'] else []) ++ Nat.toDigits 10 n)) = none) :
    parseNumToken nc ((if neg then ['-'] else []) ++ Nat.toDigits 10 n) =
      some (if n = 0 ∧ neg = true then 0x8000000000000000
            else intToFloatBits (if neg then -(n : Int) else (n : Int))) := by
  have hall := toDigits_all_digit n
  have hlen : (Nat.toDigits 10 n).length ≤ 15 := (Nat.length_toDigits_le_iff (by decide) (by decide)).2 hn
  have hne : (Nat.toDigits 10 n) ≠ [] := Nat.toDigits_ne_nil
  have hfold := foldl_digits (Nat.toDigits 10 n) 0
  rw [Nat.ofDigitChars_ten_toDigits] at hfold
  have hsplit : negSplit ((if neg then ['-'] else []) ++ Nat.toDigits 10 n) = (neg, Nat.toDigits 10 n) := by
    cases neg with
    | true => simp [negSplit]
    | false =>
      simp only [Bool.false_eq_true, if_false, List.nil_append]
      unfold negSplit
      split
      · next r heq =>
        have := hall '-' (by rw [heq]; simp)
        simp [isDigit] at this
      · rfl
  rw [parseNumToken_none nc _ hp, hsplit]
  have h1 : (Nat.toDigits 10 n).all isDigit = true := by simpa [List.all_eq_true] using hall
  have h2 : (Nat.toDigits 10 n).isEmpty = false := by simp
  simp only [h1, h2, hfold, Bool.not_false, Bool.and_true, decide_eq_true hlen, if_true]
  cases neg <;> by_cases h0 : n = 0 <;> simp [h0]

/-- **integers are handled by the model itself**: a finite binary64 with an integral value of
    magnitude below 10^15 (other than -0) is `numOK` for every codec that does not know its token,
    or reads it correctly -/
theorem numOK_int (nc : NumCodec) (b : UInt64) (i : Int) (hb : floatToInt? b = some i)
    (hz : b ≠ 0x8000000000000000) (hi : i.natAbs < 10 ^ 15)
    (hparse : ∀ s, fmtNum nc b = some s → nc.parse s = none ∨ nc.parse s = some b) :
    numOK nc b = true := by
  have hbits : intToFloatBits i = b :=
    Yaml.intToFloatBits_of_floatToInt b i hb (by omega) hz
  have h53 : i.natAbs < 2 ^ 53 := by omega
  have hz' : (b == 0x8000000000000000) = false := by simpa using hz
  let neg : Bool := decide (i < 0)
  let tok : List Char := (if neg then ['-'] else []) ++ Nat.toDigits 10 i.natAbs
  have hfmt : fmtNum nc b = some (String.ofList tok) := by
    simp only [fmtNum, hz', Bool.false_eq_true, if_false, hb, h53, if_true, Option.some.injEq]
    rw [← String.toList_inj, String.toList_ofList]
    by_cases hneg : i < 0
    · simp [tok, neg, hneg, String.toList_append, natToDigits_toList]
    · simp [tok, neg, hneg, natToDigits_toList]
  have hlex : lexNumber tok = some (tok, []) :=
    lexNumber_digits _ _ (by cases neg <;> simp)
  have hpn : parseNumToken nc tok = some b := by
    rcases hparse _ hfmt with hp | hp
    · rw [show tok = (if neg then ['-'] else []) ++ Nat.toDigits 10 i.natAbs from rfl,
        parseNumToken_digits nc _ hi neg hp]
      by_cases hneg : i < 0
      · have h0 : ¬ (i.natAbs = 0 ∧ neg = true) := by omega
        rw [if_neg h0, ← hbits]
        simp only [neg, hneg, decide_true, if_true]
        congr 2; omega
      · have h0 : ¬ (i.natAbs = 0 ∧ neg = true) := by simp [neg, hneg]
        rw [if_neg h0, ← hbits]
        simp only [neg, hneg, decide_false, Bool.false_eq_true, if_false]
        congr 2; omega
    · unfold parseNumToken
      simp only [hp]
  simp only [numOK, hfmt, String.toList_ofList, hlex, hpn, decide_true, Bool.and_self]

theorem numOK_negZero (nc : NumCodec)
    (hparse : nc.parse "-0" = none ∨ nc.parse "-0" = some 0x8000000000000000) :
    numOK nc 0x8000000000000000 = true := by
  have hfmt : fmtNum nc 0x8000000000000000 = some "-0" := by simp [fmtNum]
  have hlex : lexNumber "-0".toList = some ("-0".toList, []) := by
    simp [lexNumber, lexNumber.lexFrac, lexNumber.lexExp]
  have hpn : parseNumToken nc "-0".toList = some 0x8000000000000000 := by
    rcases hparse with hp | hp
    · simp [parseNumToken, hp, isDigit]
    · simp [parseNumToken, hp]
  simp only [numOK, hfmt, hlex, hpn, decide_true, Bool.and_self]


/-! ## 17. the v1 twins (`/repo/lib`): same `encoding/json`, its own `raw()` order for sets -/

namespace V1T

theorem keysSorted_rawNormKvs : ∀ kvs : List (String × Json), keysSorted (V1.rawNormKvs kvs) = keysSorted kvs
  | [] => rfl
  | [(_, _)] => rfl
  | (k, v) :: (k', v') :: r => by
    have ih := keysSorted_rawNormKvs ((k', v') :: r)
    simp only [V1.rawNormKvs, keysSorted] at ih ⊢
    rw [ih]

mutual
theorem preOK_rawNorm (nc : NumCodec) : ∀ v : Json, preOK nc v = true → preOK nc (V1.rawNorm v) = true
  | .void, h => by simp [preOK] at h
  | .null, _ => rfl
  | .bool _, _ => rfl
  | .num _, h => by simpa [V1.rawNorm] using h
  | .str _, _ => rfl
  | .arr t xs, h => by
    simp only [preOK] at h
    have ih := preOKList_rawNormList nc xs h
    cases t
    · simpa [V1.rawNorm, preOK] using ih
    · simpa [V1.rawNorm, preOK] using ih
    · simp only [V1.rawNorm, preOK]; exact preOKList_setRawOrder nc _ _ ih
    · simpa [V1.rawNorm, preOK] using ih
  | .obj kvs, h => by
    simp only [preOK, Bool.and_eq_true] at h
    simp only [V1.rawNorm, preOK, Bool.and_eq_true, keysSorted_rawNormKvs]
    exact ⟨h.1, preOKKvs_rawNormKvs nc kvs h.2⟩
theorem preOKList_rawNormList (nc : NumCodec) : ∀ xs : List Json, preOKList nc xs = true →
    preOKList nc (V1.rawNormList xs) = true
  | [], _ => rfl
  | x :: r, h => by
    simp only [preOKList, Bool.and_eq_true] at h
    simp only [V1.rawNormList, preOKList, Bool.and_eq_true]
    exact ⟨preOK_rawNorm nc x h.1, preOKList_rawNormList nc r h.2⟩
theorem preOKKvs_rawNormKvs (nc : NumCodec) : ∀ kvs : List (String × Json), preOKKvs nc kvs = true →
    preOKKvs nc (V1.rawNormKvs kvs) = true
  | [], _ => rfl
  | (k, v) :: r, h => by
    simp only [preOKKvs, Bool.and_eq_true] at h
    simp only [V1.rawNormKvs, preOKKvs, Bool.and_eq_true]
    exact ⟨preOK_rawNorm nc v h.1, preOKKvs_rawNormKvs nc r h.2⟩
end

mutual
theorem rawDoc_rawNorm : ∀ (d : Json), (V1.rawNorm d).rawDoc = true
  | .void => rfl
  | .null => rfl
  | .bool _ => rfl
  | .num _ => rfl
  | .str _ => rfl
  | .arr t xs => by
    have hl := rawDocList_rawNormList xs
    cases t with
    | set =>
      simp only [V1.rawNorm, Json.rawDoc, beq_self_eq_true, Bool.true_and]
      rw [Yaml.rawDocList_iff] at hl ⊢
      intro x hx
      simp only [setRawOrder, List.mem_filterMap] at hx
      obtain ⟨a, _, ha⟩ := hx
      exact hl x (lastByHash_mem a _ _ x ha)
    | raw => simpa [V1.rawNorm, Json.rawDoc] using hl
    | list => simpa [V1.rawNorm, Json.rawDoc] using hl
    | mset => simpa [V1.rawNorm, Json.rawDoc] using hl
  | .obj kvs => by
    simpa [V1.rawNorm, Json.rawDoc] using rawDocKvs_rawNormKvs kvs
theorem rawDocList_rawNormList : ∀ (xs : List Json), rawDocList (V1.rawNormList xs) = true
  | [] => rfl
  | x :: r => by
    simp [V1.rawNormList, rawDocList, rawDoc_rawNorm x, rawDocList_rawNormList r]
theorem rawDocKvs_rawNormKvs : ∀ (kvs : List (String × Json)), rawDocKvs (V1.rawNormKvs kvs) = true
  | [] => rfl
  | (k, v) :: r => by
    simp [V1.rawNormKvs, rawDocKvs, rawDoc_rawNorm v, rawDocKvs_rawNormKvs r]
end

mutual
theorem rawNorm_of_rawDoc : ∀ (d : Json), d.rawDoc = true → V1.rawNorm d = d
  | .void, _ => rfl
  | .null, _ => rfl
  | .bool _, _ => rfl
  | .num _, _ => rfl
  | .str _, _ => rfl
  | .arr t xs, h => by
    simp only [Json.rawDoc, Bool.and_eq_true, beq_iff_eq] at h
    obtain ⟨ht, h⟩ := h
    subst ht
    simp [V1.rawNorm, rawNormList_of_rawDoc xs h]
  | .obj kvs, h => by
    simp only [Json.rawDoc] at h
    simp [V1.rawNorm, rawNormKvs_of_rawDoc kvs h]
theorem rawNormList_of_rawDoc : ∀ (xs : List Json), rawDocList xs = true → V1.rawNormList xs = xs
  | [], _ => rfl
  | x :: r, h => by
    simp only [rawDocList, Bool.and_eq_true] at h
    simp [V1.rawNormList, rawNorm_of_rawDoc x h.1, rawNormList_of_rawDoc r h.2]
theorem rawNormKvs_of_rawDoc : ∀ (kvs : List (String × Json)), rawDocKvs kvs = true →
    V1.rawNormKvs kvs = kvs
  | [], _ => rfl
  | (k, v) :: r, h => by
    simp only [rawDocKvs, Bool.and_eq_true] at h
    simp [V1.rawNormKvs, rawNorm_of_rawDoc v h.1, rawNormKvs_of_rawDoc r h.2]
end

theorem jsonM_eq (nc : NumCodec) (v : Json) (h : v.isVoid = false) :
    V1.jsonM nc v = jsonText nc (V1.rawNorm v) := by
  cases v <;> first | rfl | simp [Json.isVoid] at h

/-- **v1 `Json()` round trip** -/
theorem jsonM_parse (nc : NumCodec) (v : Json) (hw : v.wf = true) (hv : Yaml.voidFree v = true)
    (hn : NumOK nc v = true) :
    ∃ s, V1.jsonM nc v = some s ∧ parseJson nc s = some (V1.rawNorm v) := by
  have hp : preOK nc v = true := by rw [preOK_iff, hw, hv, hn]; rfl
  have hp' := preOK_rawNorm nc v hp
  obtain ⟨s, hs⟩ := jsonText_some nc _ hp'
  exact ⟨s, by rw [jsonM_eq nc v (preOK_not_void hp)]; exact hs,
    parseJson_text' nc _ s hp' (rawDoc_rawNorm v) hs⟩

theorem jsonM_roundtrip (nc : NumCodec) (v : Json) (hr : v.rawDoc = true) (hw : v.wf = true)
    (hv : Yaml.voidFree v = true) (hn : NumOK nc v = true) :
    ∃ s, V1.jsonM nc v = some s ∧ parseJson nc s = some v := by
  obtain ⟨s, h1, h2⟩ := jsonM_parse nc v hw hv hn
  exact ⟨s, h1, by rw [h2, rawNorm_of_rawDoc v hr]⟩

mutual
/-- what v1's `json.Marshal(node)` prints, as a document -/
def mnorm : Json → Json
  | .void => .obj []
  | .arr _ xs => .arr .raw (mnormList xs)
  | .obj kvs => V1.rawNorm (.obj kvs)
  | n => n
def mnormList : List Json → List Json
  | [] => []
  | x :: r => mnorm x :: mnormList r
end

mutual
theorem marshalNode_eq (nc : NumCodec) : ∀ v : Json, V1.marshalNode nc v = jsonText nc (mnorm v)
  | .void => by simp [V1.marshalNode, mnorm, jsonText, jsonTextKvs]
  | .null => rfl
  | .bool _ => rfl
  | .num _ => rfl
  | .str _ => rfl
  | .arr _ xs => by simp only [V1.marshalNode, mnorm, jsonText, marshalList_eq nc xs]
  | .obj _ => by simp only [V1.marshalNode, mnorm]
theorem marshalList_eq (nc : NumCodec) : ∀ xs : List Json, V1.marshalList nc xs = jsonTextList nc (mnormList xs)
  | [] => rfl
  | x :: r => by simp only [V1.marshalList, mnormList, jsonTextList, marshalNode_eq nc x, marshalList_eq nc r]
end

mutual
theorem preOK_mnorm (nc : NumCodec) : ∀ v : Json, mOK nc v = true → preOK nc (mnorm v) = true
  | .void, _ => rfl
  | .null, _ => rfl
  | .bool _, _ => rfl
  | .num _, h => by simpa [mOK, mnorm] using h
  | .str _, _ => rfl
  | .arr _ xs, h => by
    simp only [mOK] at h
    simp only [mnorm, preOK]; exact preOKList_mnormList nc xs h
  | .obj kvs, h => by
    simp only [mOK] at h
    simp only [mnorm]; exact preOK_rawNorm nc _ h
theorem preOKList_mnormList (nc : NumCodec) : ∀ xs : List Json, mOKList nc xs = true →
    preOKList nc (mnormList xs) = true
  | [], _ => rfl
  | x :: r, h => by
    simp only [mOKList, Bool.and_eq_true] at h
    simp [mnormList, preOKList, preOK_mnorm nc x h.1, preOKList_mnormList nc r h.2]
end

mutual
theorem rawDoc_mnorm : ∀ v : Json, (mnorm v).rawDoc = true
  | .void => rfl
  | .null => rfl
  | .bool _ => rfl
  | .num _ => rfl
  | .str _ => rfl
  | .arr _ xs => by simp [mnorm, Json.rawDoc, rawDocList_mnormList xs]
  | .obj kvs => by simp only [mnorm]; exact rawDoc_rawNorm _
theorem rawDocList_mnormList : ∀ xs : List Json, rawDocList (mnormList xs) = true
  | [] => rfl
  | x :: r => by simp [mnormList, rawDocList, rawDoc_mnorm x, rawDocList_mnormList r]
end

mutual
theorem mnorm_of_rawDoc : ∀ v : Json, v.rawDoc = true → Yaml.voidFree v = true → mnorm v = v
  | .void, _, h => by simp [Yaml.voidFree] at h
  | .null, _, _ => rfl
  | .bool _, _, _ => rfl
  | .num _, _, _ => rfl
  | .str _, _, _ => rfl
  | .arr t xs, hr, hv => by
    simp only [Json.rawDoc, Bool.and_eq_true, beq_iff_eq] at hr
    simp only [Yaml.voidFree] at hv
    obtain ⟨rfl, hr⟩ := hr
    simp [mnorm, mnormList_of_rawDoc xs hr hv]
  | .obj kvs, hr, _ => by simp only [mnorm]; exact rawNorm_of_rawDoc _ hr
theorem mnormList_of_rawDoc : ∀ xs : List Json, rawDocList xs = true → Yaml.voidFreeList xs = true →
    mnormList xs = xs
  | [], _, _ => rfl
  | x :: r, hr, hv => by
    simp only [rawDocList, Bool.and_eq_true] at hr
    simp only [Yaml.voidFreeList, Bool.and_eq_true] at hv
    simp [mnormList, mnorm_of_rawDoc x hr.1 hv.1, mnormList_of_rawDoc r hr.2 hv.2]
end

/-- **v1 `json.Marshal(node)` round trip** -/
theorem marshalNode_parse (nc : NumCodec) (v : Json) (hp : mOK nc v = true) :
    ∃ s, V1.marshalNode nc v = some s ∧ parseJson nc s = some (mnorm v) := by
  have hp' := preOK_mnorm nc v hp
  obtain ⟨s, hs⟩ := jsonText_some nc _ hp'
  exact ⟨s, by rw [marshalNode_eq]; exact hs, parseJson_text' nc _ s hp' (rawDoc_mnorm v) hs⟩

/-- v1 payload lines (`- v` / `+ v`) are read by `ReadJsonString` of the payload: the analogue of
    `ValOK` for any surrounding white space -/
theorem readJsonM_marshalNode (nc : NumCodec) (v : Json) (hp : mOK nc v = true) (pre post : List Char)
    (hpre : pre.all isJsonWs = true) (hpost : post.all isJsonWs = true) :
    ∃ s, V1.marshalNode nc v = some s ∧ '\n' ∉ s.toList ∧
      readJsonM nc (String.ofList (pre ++ s.toList ++ post)) = .ok (mnorm v) := by
  have hp' := preOK_mnorm nc v hp
  obtain ⟨s, hs⟩ := jsonText_some nc _ hp'
  exact ⟨s, by rw [marshalNode_eq]; exact hs, jsonText_noNL nc _ s hp' hs,
    readJsonM_text nc _ s hp' (rawDoc_mnorm v) hs pre post hpre hpost⟩

def opDoc (p : PatchOp) : Json :=
  .obj [("op", .str p.op), ("path", .str p.path), ("value", mnorm p.value)]

def normOp (p : PatchOp) : PatchOp := { p with value := mnorm p.value }

theorem patchOpText_eq (nc : NumCodec) (p : PatchOp) : V1.patchOpText nc p = jsonText nc (opDoc p) := by
  simp only [V1.patchOpText, opDoc, jsonText, jsonTextKvs, marshalNode_eq]
  cases jsonText nc (mnorm p.value) with
  | none => rfl
  | some t =>
    simp only [Option.map_some, Option.bind_eq_bind, Option.bind_some, Option.pure_def, Option.some.injEq]
    rw [← String.toList_inj]
    simp [String.toList_append, quoteString_toList, escL, escapeChar]

theorem optAll_patchOpText (nc : NumCodec) : ∀ ops : List PatchOp,
    optAll (ops.map (V1.patchOpText nc)) = jsonTextList nc (ops.map opDoc)
  | [] => rfl
  | p :: r => by
    simp only [List.map_cons, jsonTextList, patchOpText_eq]
    cases jsonText nc (opDoc p) with
    | none => rfl
    | some a =>
      simp only [optAll, optAll_patchOpText nc r]
      cases jsonTextList nc (r.map opDoc) <;> rfl

theorem renderPatchM_eq (nc : NumCodec) (d : V1.PDiff) :
    V1.renderPatchM nc d =
      match V1.renderPatchOps d with
      | .ok ops => .ok (jsonText nc (.arr .raw (ops.map opDoc)))
      | .err => .err
      | .panic => .panic := by
  unfold V1.renderPatchM
  cases d with
  | nil => simp [V1.renderPatchOps, jsonText, jsonTextList]
  | cons h r =>
    simp only [List.isEmpty_cons, Bool.false_eq_true, if_false]
    cases V1.renderPatchOps (h :: r) with
    | ok ops => simp only [optAll_patchOpText, jsonText]
    | err => rfl
    | panic => rfl

theorem patchOpsOfJson_go_opDocs : ∀ ops : List PatchOp,
    V1.patchOpsOfJson.go (ops.map opDoc) = .ok (ops.map normOp)
  | [] => rfl
  | p :: r => by
    simp [V1.patchOpsOfJson.go, V1.patchOpsOfJson.strField, alookup, opDoc, normOp,
      patchOpsOfJson_go_opDocs r]
    rfl

theorem preOKList_opDocs (nc : NumCodec) : ∀ ops : List PatchOp, (∀ p ∈ ops, mOK nc p.value = true) →
    preOKList nc (ops.map opDoc) = true
  | [], _ => rfl
  | p :: r, h => by
    have h1 := preOK_mnorm nc p.value (h p (by simp))
    have h2 := preOKList_opDocs nc r (fun q hq => h q (List.mem_cons_of_mem _ hq))
    have hk : keysSorted [("op", Json.str p.op), ("path", .str p.path), ("value", mnorm p.value)] = true := by
      simp only [keysSorted, Bool.and_true, decide_eq_true_eq, Bool.and_eq_true]
      exact ⟨by decide, by decide⟩
    simp [preOKList, opDoc, preOK, preOKKvs, h1, h2, hk]

theorem rawDocList_opDocs : ∀ ops : List PatchOp, rawDocList (ops.map opDoc) = true
  | [] => rfl
  | p :: r => by
    simp [rawDocList, opDoc, Json.rawDoc, rawDocKvs, rawDoc_mnorm, rawDocList_opDocs r]

theorem map_normOp_id (ops : List PatchOp)
    (h : ∀ p ∈ ops, p.value.rawDoc = true ∧ Yaml.voidFree p.value = true) : ops.map normOp = ops := by
  induction ops with
  | nil => rfl
  | cons p r ih =>
    have hp := h p (by simp)
    simp only [List.map_cons, normOp, mnorm_of_rawDoc _ hp.1 hp.2,
      ih (fun q hq => h q (List.mem_cons_of_mem _ hq))]

/-- **(b) for v1**: `ReadPatchString (d.RenderPatch())` is the element loop on the operations
    `renderPatchOps d`, values through `mnorm` -/
theorem readPatchM_renderPatchM (nc : NumCodec) (d : V1.PDiff) (ops : List PatchOp)
    (hops : V1.renderPatchOps d = .ok ops) (hok : ∀ p ∈ ops, mOK nc p.value = true) :
    ∃ text, V1.renderPatchM nc d = .ok (some text) ∧
      V1.readPatchM nc text = V1.readPatchLoop (ops.length + 1) (ops.map normOp) [] := by
  have hp : preOK nc (.arr .raw (ops.map opDoc)) = true := by
    simp only [preOK]; exact preOKList_opDocs nc ops hok
  have hr : (Json.arr .raw (ops.map opDoc)).rawDoc = true := by
    simp [Json.rawDoc, rawDocList_opDocs]
  obtain ⟨text, ht⟩ := jsonText_some nc _ hp
  refine ⟨text, by rw [renderPatchM_eq, hops]; simp only [ht], ?_⟩
  simp only [V1.readPatchM, parseJson_text' nc _ text hp hr ht, V1.readPatchDoc, V1.patchOpsOfJson,
    patchOpsOfJson_go_opDocs, List.length_map]

/-- (b) for v1, values as read: nothing changes -/
theorem readPatchM_renderPatchM_own (nc : NumCodec) (d : V1.PDiff) (ops : List PatchOp)
    (hops : V1.renderPatchOps d = .ok ops) (hok : ∀ p ∈ ops, DocOK nc p.value) :
    ∃ text, V1.renderPatchM nc d = .ok (some text) ∧
      V1.readPatchM nc text = V1.readPatchLoop (ops.length + 1) ops [] := by
  obtain ⟨text, h1, h2⟩ := readPatchM_renderPatchM nc d ops hops
    (fun p hp => mOK_of_preOK nc _ (hok p hp).preOK)
  rw [map_normOp_id ops (fun p hp => ⟨(hok p hp).1, (hok p hp).2.2.1⟩)] at h2
  exact ⟨text, h1, h2⟩

/-- **(c) for v1** -/
theorem readMergeM_renderMergeM (nc : NumCodec) (d : V1.PDiff) (n : Json)
    (hn : V1.renderMergeDoc d = .ok n) (hp : n.isVoid = true ∨ preOK nc n = true) :
    ∃ s, V1.renderMergeM nc d = .ok (some s) ∧
      V1.readMergeM nc s = .ok (V1.readMergeDoc (V1.rawNorm n)) := by
  have key : ∃ s, V1.jsonM nc n = some s ∧ readJsonM nc s = .ok (V1.rawNorm n) := by
    rcases hp with hv | hp
    · cases n <;> simp [Json.isVoid] at hv
      exact ⟨"", rfl, by simp [readJsonM, trimGoSpace, V1.rawNorm]⟩
    · have hp' := preOK_rawNorm nc n hp
      obtain ⟨s, hs⟩ := jsonText_some nc _ hp'
      refine ⟨s, by rw [jsonM_eq nc n (preOK_not_void hp)]; exact hs, ?_⟩
      have := readJsonM_text nc _ s hp' (rawDoc_rawNorm n) hs [] [] rfl rfl
      simpa [String.ofList_toList] using this
  obtain ⟨s, h1, h2⟩ := key
  refine ⟨s, ?_, by simp only [V1.readMergeM, h2]⟩
  unfold V1.renderMergeM
  cases d with
  | nil =>
    simp only [V1.renderMergeDoc, List.isEmpty_nil, if_true, Outcome.ok.injEq] at hn
    subst hn
    simp only [List.isEmpty_nil, if_true]
    rw [← h1]; rfl
  | cons h r => simp only [List.isEmpty_cons, Bool.false_eq_true, if_false, hn, h1]

end V1T

/-! ## 18. Stage A as a statement, C02 from decidable hypotheses, non-vacuity, remarks -/

/-- **Stage A — strings**: every string is read back from its quoted form. No `strOK` is needed: a
    Lean `String` is a sequence of Unicode scalar values, and those are exactly the strings Go's
    `json.Marshal` writes without loss (checked on all 1 112 064 scalar values against encoding/json;
    only invalid UTF-8, which the model's `String` cannot hold, is replaced by U+FFFD) -/
theorem parseJson_quoteString (nc : NumCodec) (s : String) : parseJson nc (quoteString s) = some (.str s) :=
  parseJson_text' nc (.str s) _ rfl rfl rfl

example : parseJson NativeRT.exCodec (quoteString "a\"\\/\x08\x0c\n\r\t\x00\x1f<>&\u2028\u2029\x7fé�😀") =
    some (.str "a\"\\/\x08\x0c\n\r\t\x00\x1f<>&\u2028\u2029\x7fé�😀") := parseJson_quoteString _ _

/-- **C02 (`NativeRT.read_render`) with the codec contract discharged**: decidable hypotheses on the
    paths and payloads of the diff instead of `CodecOK` -/
theorem read_render_of_docs (nc : NumCodec) (d : Diff) (text : String) (hw : NativeRT.wfDiff d = true)
    (hpath : ∀ h ∈ d, (pathToJson h.path).wf = true ∧ Yaml.voidFree (pathToJson h.path) = true ∧
      NumOK nc (pathToJson h.path) = true ∧ setFree (pathToJson h.path) = true)
    (hval : ∀ h ∈ d, ∀ v ∈ NativeRT.payloads h,
      v.wf = true ∧ Yaml.voidFree v = true ∧ NumOK nc v = true ∧ mSetFree v = true)
    (hr : renderM nc [] d = some text) : readDiffM nc text = .ok (NativeRT.normDiff d) :=
  NativeRT.read_render nc d text hw (codecOK nc d hpath hval) hr

/-- the codec that knows no token at all: integers of magnitude below 10^15 are still `numOK` -/
theorem numOK_exCodec_int (b : UInt64) (i : Int) (hb : floatToInt? b = some i)
    (hz : b ≠ 0x8000000000000000) (hi : i.natAbs < 10 ^ 15) : numOK NativeRT.exCodec b = true :=
  numOK_int _ b i hb hz hi (fun _ _ => Or.inl rfl)

/-- 1.0 and -2.0 -/
theorem numOK_one : numOK NativeRT.exCodec 4607182418800017408 = true :=
  numOK_exCodec_int _ 1 (by decide) (by decide) (by decide)
theorem numOK_mtwo : numOK NativeRT.exCodec 0xC000000000000000 = true :=
  numOK_exCodec_int _ (-2) (by decide) (by decide) (by decide)

/-- a document as read: nested containers, escapes, the numbers 1, -0, -2 -/
def exDoc : Json :=
  .obj [("a", .arr .raw [.num 4607182418800017408, .str "x<\n\"", .null, .num 0x8000000000000000]),
        ("b", .obj []), ("c ", .arr .raw [.arr .raw [], .bool true, .num 0xC000000000000000])]

theorem exDoc_numOK : NumOK NativeRT.exCodec exDoc = true := by
  simp [exDoc, NumOK, NumOKKvs, NumOKList, numOK_one, numOK_mtwo, numOK_negZero NativeRT.exCodec (Or.inl rfl)]

example : ∃ s, jsonM NativeRT.exCodec exDoc = some s ∧ parseJson NativeRT.exCodec s = some exDoc :=
  jsonM_roundtrip _ exDoc (by decide) (by decide) (by decide) exDoc_numOK

example : NativeRT.ValOK NativeRT.exCodec exDoc :=
  valOK _ exDoc (by decide) (by decide) exDoc_numOK (by decide)

example : ∃ s, V1.jsonM NativeRT.exCodec exDoc = some s ∧ parseJson NativeRT.exCodec s = some exDoc :=
  V1T.jsonM_roundtrip _ exDoc (by decide) (by decide) (by decide) exDoc_numOK

/-- a typed document: a list, a multiset and a set inside an object -/
def exTyped : Json :=
  .obj [("l", .arr .list [.str "b", .str "a"]), ("m", .arr .mset [.null, .null]),
        ("s", .arr .set [.str "b", .str "a", .str "b"])]

example : ∃ s, jsonM NativeRT.exCodec exTyped = some s ∧
    parseJson NativeRT.exCodec s = some (rawNorm exTyped) :=
  jsonM_parse _ exTyped (by decide) (by decide) (by decide)

example : ∃ s, jsonM NativeRT.exCodec (.arr .mset [.arr .list [.null], .str "a"]) = some s ∧
    parseJson NativeRT.exCodec s = some (.arr .raw [.arr .raw [.null], .str "a"]) :=
  jsonM_untag _ _ (by decide) (by decide) (by decide) (by decide)

example : ∃ s, marshalNode NativeRT.exCodec (.arr .set [.void, .str "b", .arr .mset [.null]]) = some s ∧
    parseJson NativeRT.exCodec s = some (.arr .raw [.obj [], .str "b", .arr .raw [.null]]) :=
  marshalNode_parse _ _ (by decide)

example : ∃ s, marshalNode NativeRT.exCodec (.arr .set [.str "b", .arr .mset [.null]]) = some s ∧
    parseJson NativeRT.exCodec s = some (.arr .raw [.str "b", .arr .raw [.null]]) :=
  marshalNode_untag _ _ (by decide) (by decide) (by decide) (by decide)

/-- the codec contract of `NativeRT.exDiff` (there proved by evaluation) is now a consequence -/
example : NativeRT.CodecOK NativeRT.exCodec NativeRT.exDiff := by
  have h1 : intToFloatBits 1 = 4607182418800017408 := by decide
  apply codecOK
  · intro h hh
    simp only [NativeRT.exDiff, List.mem_cons, List.not_mem_nil, or_false] at hh
    rcases hh with rfl | rfl
    · refine ⟨by decide, by decide, ?_, by decide⟩
      simp [pathToJson, NumOK, NumOKList, h1, numOK_one]
    · exact ⟨by decide, by decide, by decide, by decide⟩
  · intro h hh v hv
    simp only [NativeRT.exDiff, List.mem_cons, List.not_mem_nil, or_false] at hh
    rcases hh with rfl | rfl
    · simp [NativeRT.payloads, Json.isVoid] at hv
      rcases hv with rfl | rfl | rfl | rfl <;> exact ⟨by decide, by decide, by decide, by decide⟩
    · simp [NativeRT.payloads, Json.isVoid] at hv

/-- a strict list hunk with context and a replacement of an object member -/
def exPatchDiff : Diff :=
  [ { path := [.key "a", .idx 1], before := [.bool false], remove := [.str "x<", .arr .raw [.null]],
      add := [.num 4607182418800017408], after := [.void] },
    { path := [.key "b"], remove := [.obj [("k", .null)]], add := [.str "\n"] } ]

theorem exPatchDiff_vals : ∀ h ∈ exPatchDiff, HunkVals (DocOK NativeRT.exCodec) h := by
  intro h hh
  simp only [exPatchDiff, List.mem_cons, List.not_mem_nil, or_false] at hh
  rcases hh with rfl | rfl
  · refine ⟨?_, ?_, Or.inl ?_, Or.inl ?_⟩
    · intro v hv _; simp at hv; subst hv; exact ⟨by decide, by decide, by decide, by decide⟩
    · intro v hv hvoid; simp at hv; subst hv; simp [Json.isVoid] at hvoid
    · intro v hv; simp at hv
      rcases hv with rfl | rfl <;> exact ⟨by decide, by decide, by decide, by decide⟩
    · intro v hv; simp at hv; subst hv
      exact ⟨by decide, by decide, by decide, by simp [NumOK, numOK_one]⟩
  · refine ⟨?_, ?_, Or.inl ?_, Or.inl ?_⟩
    · intro v hv; simp at hv
    · intro v hv; simp at hv
    · intro v hv; simp at hv; subst hv; exact ⟨by decide, by decide, by decide, by decide⟩
    · intro v hv; simp at hv; subst hv; exact ⟨by decide, by decide, by decide, by decide⟩

theorem exPatchDiff_renders : (renderPatchOps exPatchDiff).isOk = true := by decide

example : ∃ ops text, renderPatchOps exPatchDiff = .ok ops ∧
    renderPatchM NativeRT.exCodec exPatchDiff = .ok (some text) ∧
    readPatchM NativeRT.exCodec text = readPatchOps ops := by
  have := readPatchM_renderPatchM_own NativeRT.exCodec exPatchDiff exPatchDiff_vals
  cases h : renderPatchOps exPatchDiff with
  | ok ops => rw [h] at this; obtain ⟨text, h1, h2⟩ := this; exact ⟨ops, text, rfl, h1, h2⟩
  | err => have := exPatchDiff_renders; rw [h] at this; cases this
  | panic => have := exPatchDiff_renders; rw [h] at this; cases this

def exMergeDiff : Diff :=
  [ { merge := true, path := [.key "a", .key "b"], add := [.arr .raw [.str "x<", .null]] } ]
def exMergeDoc : Json := .obj [("a", .obj [("b", .arr .raw [.str "x<", .null])])]

theorem exMerge_render : renderMergeDoc exMergeDiff = .ok exMergeDoc := by
  simp only [renderMergeDoc, exMergeDiff, exMergeDoc, patchAll, List.isEmpty_cons, List.any_cons,
    List.any_nil, List.map_cons, List.map_nil]
  rw [patchNode.eq_def]
  simp [patchFresh, Path.isLeaf, Json.singleValue, Json.isVoid]

example : ∃ s, renderMergeM NativeRT.exCodec exMergeDiff = .ok (some s) ∧
    readMergeM NativeRT.exCodec s = .ok (readMergeDoc exMergeDoc) := by
  have := readMergeM_renderMergeM_own NativeRT.exCodec exMergeDiff (fun n hn => by
    rw [exMerge_render] at hn; cases hn
    exact Or.inr ⟨by decide, by decide, by decide, by decide⟩)
  rw [exMerge_render] at this
  exact this

/-! ### remarks proved as witnesses (none of them a defect of the Go code) -/

/-- REMARK 1 (why `voidFree`): a void node inside a container is printed as `""` by `Json()` (the Go
    `raw()` of `voidNode` is the empty string) and comes back as the empty STRING -/
theorem void_inside_not_roundtripped (nc : NumCodec) :
    jsonM nc (.arr .raw [.void]) = some "[\"\"]" ∧ parseJson nc "[\"\"]" = some (.arr .raw [.str ""]) := by
  constructor
  · simp [jsonM, rawNorm, rawNormList, jsonText, jsonTextList]
  · have := parseJson_text' nc (.arr .raw [.str ""]) "[\"\"]" rfl rfl
      (by simp [jsonText, jsonTextList, quoteString, escapeBody])
    exact this

/-- REMARK 2 (the bound 10^15 of `numOK_int` is sharp for a codec without tokens): `fmtNum` prints
    integers of magnitude below 2^53 by itself, but the integer fallback of `parseNumToken` accepts at
    most 15 digits; 10^15 (binary64 0x430C6BF526340000, text `1000000000000000`) is printed and then
    read only through `nc.parse`. Go prints and reads it back (checked); in the harness the token is in
    the graph of `nc`. So `NumOK` is a genuine hypothesis for such values, not a theorem. -/
theorem numOK_1e15_emptyCodec : numOK NativeRT.exCodec 0x430C6BF526340000 = false := by
  decide +kernel

theorem intToFloatBits_1e15 : intToFloatBits 1000000000000000 = 0x430C6BF526340000 := by
  decide +kernel

#print axioms lexString_escapeChar
#print axioms lexString_quoted
#print axioms parseJson_quoteString
#print axioms lexNumber_append
#print axioms pv_text
#print axioms parseJson_text
#print axioms jsonM_parse_ws
#print axioms jsonM_parse
#print axioms jsonM_roundtrip
#print axioms jsonM_untag
#print axioms marshalNode_parse_ws
#print axioms marshalNode_untag
#print axioms valOK
#print axioms pathOK
#print axioms codecOK
#print axioms read_render_of_docs
#print axioms renderPatchM_eq
#print axioms readPatchM_renderPatchM
#print axioms readPatchM_renderPatchM_own
#print axioms readPatchM_renderPatchM_untag
#print axioms readMergeM_renderMergeM
#print axioms readMergeM_renderMergeM_own
#print axioms numOK_int
#print axioms numOK_negZero
#print axioms V1T.jsonM_parse
#print axioms V1T.marshalNode_parse
#print axioms V1T.readJsonM_marshalNode
#print axioms V1T.readPatchM_renderPatchM_own
#print axioms V1T.readMergeM_renderMergeM
#print axioms void_inside_not_roundtripped
#print axioms numOK_1e15_emptyCodec

end Jd.JText
