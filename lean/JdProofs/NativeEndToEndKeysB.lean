/-
  JdProofs.NativeEndToEndKeysB — non-vacuity and counter-witnesses for JdProofs.NativeEndToEndKeys
  (property C02 end to end, SetKeys reading).  The header of JdProofs.NativeEndToEndKeys documents
  every theorem of this file (sections 6–9): `Example.ex_keys_end_to_end`,
  `Example.ex3_keys_end_to_end` (every hypothesis of the end-to-end theorem holds on two concrete
  pairs, codec `NativeRT.exCodec`), `EmptyKeys.emptyKeys_witness` (`ks ≠ []` is needed),
  `VoidWitness.void_element_witness_setkeys` (`voidFree` is needed),
  `KeysHypNeeded.identperm_breaks_text` / `duplicate_member_breaks_text` /
  `null_completion_breaks_text` (`KeyTuple` / `KeyedDistinct` / `PathFaithful` are needed end to end).
-/
import JdProofs.NativeEndToEndKeys

set_option linter.unusedVariables false
set_option linter.unusedSimpArgs false

namespace Jd.E2EK
open Jd Jd.Spec Jd.NativeRT Jd.Robust Jd.SetDP

/-! ## 6. non-vacuity: the concrete pairs of JdProofs.DiffPatchKeys with the codec `NativeRT.exCodec` -/

namespace Example
open DPK.ExampleB


abbrev po1 : List (String × Json) := [("id", .str "1"), ("k", .str "a")]
abbrev po2 : List (String × Json) := [("id", .str "2"), ("k", .str "a")]

theorem exB_keys : ∀ k ∈ E2E.docKeys exB, k = "id" ∨ k = "k" ∨ k = "v" ∨ k = "w" := by
  intro k hk
  simp [E2E.docKeys, exB, DPL.subterms, DPL.subtermsList, DPL.subtermsKvs] at hk
  rcases hk with rfl | rfl | rfl | rfl | rfl | rfl | rfl <;> simp

theorem nav_exA {p : Path} (h : Nav (E2E.docKeys exB) ["id", "k"] p exA) :
    p = [] ∨ p = [.set] ∨
    (∃ po, (po = po1 ∨ po = po2) ∧
      (p = [.setKeys po] ∨ ∃ k, (k = "id" ∨ k = "k" ∨ k = "v" ∨ k = "w") ∧ p = [.setKeys po, .key k])) ∨
    p = [.setKeys po2, .key "v", .set] := by
  unfold exA at h
  cases h with
  | nil => exact .inl rfl
  | setLeaf => exact .inr (.inl rfl)
  | @member _ _ kvs r hm hr =>
    right; right
    simp only [List.mem_cons, Json.obj.injEq, List.not_mem_nil, or_false, reduceCtorEq] at hm
    rcases hm with rfl | rfl
    · left
      refine ⟨po1, .inl rfl, ?_⟩
      have e : DPK.pathObjOf ["id", "k"] [("id", .str "1"), ("k", .str "a"), ("v", .str "x")] = po1 := by
        simp [DPK.pathObjOf, DPK.keyVal, alookup, ainsert]
      rw [e]
      cases hr with
      | nil => exact .inl rfl
      | newKey _ hk => exact .inr ⟨_, exB_keys _ hk, rfl⟩
      | @key k v _ r hm hr =>
        simp only [List.mem_cons, Prod.mk.injEq, List.not_mem_nil, or_false] at hm
        rcases hm with ⟨rfl, rfl⟩ | ⟨rfl, rfl⟩ | ⟨rfl, rfl⟩ <;> cases hr <;>
          exact .inr ⟨_, by simp, rfl⟩
    · have e : DPK.pathObjOf ["id", "k"]
          [("id", .str "2"), ("k", .str "a"), ("v", .arr .raw [.str "p"])] = po2 := by
        simp [DPK.pathObjOf, DPK.keyVal, alookup, ainsert]
      rw [e]
      cases hr with
      | nil => exact .inl ⟨po2, .inr rfl, .inl rfl⟩
      | newKey _ hk => exact .inl ⟨po2, .inr rfl, .inr ⟨_, exB_keys _ hk, rfl⟩⟩
      | @key k v _ r hm hr =>
        simp only [List.mem_cons, Prod.mk.injEq, List.not_mem_nil, or_false] at hm
        rcases hm with ⟨rfl, rfl⟩ | ⟨rfl, rfl⟩ | ⟨rfl, rfl⟩
        · cases hr; exact .inl ⟨po2, .inr rfl, .inr ⟨_, by simp, rfl⟩⟩
        · cases hr; exact .inl ⟨po2, .inr rfl, .inr ⟨_, by simp, rfl⟩⟩
        · cases hr with
          | nil => exact .inl ⟨po2, .inr rfl, .inr ⟨_, by simp, rfl⟩⟩
          | setLeaf => exact .inr rfl
          | member hm _ => simp at hm


theorem paths_ok : ∀ p, Nav (E2E.docKeys exB) ["id", "k"] p exA →
    (jsonM exCodec (pathToJson p)).isSome = true ∧ PathOK exCodec p := by
  intro p hp
  rcases nav_exA hp with rfl | rfl | ⟨po, hpo, hp⟩ | rfl
  · spath_ok "[]"
  · spath_ok "[{}]"
  · rcases hpo with rfl | rfl
    · rcases hp with rfl | ⟨k, hk, rfl⟩
      · spath_ok "[{\"id\":\"1\",\"k\":\"a\"}]"
      · rcases hk with rfl | rfl | rfl | rfl
        · spath_ok "[{\"id\":\"1\",\"k\":\"a\"},\"id\"]"
        · spath_ok "[{\"id\":\"1\",\"k\":\"a\"},\"k\"]"
        · spath_ok "[{\"id\":\"1\",\"k\":\"a\"},\"v\"]"
        · spath_ok "[{\"id\":\"1\",\"k\":\"a\"},\"w\"]"
    · rcases hp with rfl | ⟨k, hk, rfl⟩
      · spath_ok "[{\"id\":\"2\",\"k\":\"a\"}]"
      · rcases hk with rfl | rfl | rfl | rfl
        · spath_ok "[{\"id\":\"2\",\"k\":\"a\"},\"id\"]"
        · spath_ok "[{\"id\":\"2\",\"k\":\"a\"},\"k\"]"
        · spath_ok "[{\"id\":\"2\",\"k\":\"a\"},\"v\"]"
        · spath_ok "[{\"id\":\"2\",\"k\":\"a\"},\"w\"]"
  · spath_ok "[{\"id\":\"2\",\"k\":\"a\"},\"v\",{}]"


theorem vals_ok : ∀ z ∈ subterms exA ++ subterms exB,
    (marshalNode exCodec z).isSome = true ∧ ValOK exCodec z := by
  intro z hz
  simp only [exA, exB, subterms, subtermsList, subtermsKvs,
    List.cons_append, List.nil_append, List.append_nil, List.mem_cons, List.not_mem_nil,
    or_false] at hz
  rcases hz with rfl | rfl | rfl | rfl | rfl | rfl | rfl | rfl | rfl | rfl | rfl | rfl | rfl | rfl | rfl | rfl | rfl | rfl | rfl | rfl | rfl | rfl | rfl
  · val_ok "[{\"id\":\"1\",\"k\":\"a\",\"v\":\"x\"},{\"id\":\"2\",\"k\":\"a\",\"v\":[\"p\"]},\"s\"]"
  · val_ok "{\"id\":\"1\",\"k\":\"a\",\"v\":\"x\"}"
  · val_ok "\"1\""
  · val_ok "\"a\""
  · val_ok "\"x\""
  · val_ok "{\"id\":\"2\",\"k\":\"a\",\"v\":[\"p\"]}"
  · val_ok "\"2\""
  · val_ok "\"a\""
  · val_ok "[\"p\"]"
  · val_ok "\"p\""
  · val_ok "\"s\""
  · val_ok "[{\"id\":\"2\",\"k\":\"a\",\"v\":[\"q\"],\"w\":true},{\"id\":\"1\",\"k\":\"b\",\"v\":\"x\"},\"t\"]"
  · val_ok "{\"id\":\"2\",\"k\":\"a\",\"v\":[\"q\"],\"w\":true}"
  · val_ok "\"2\""
  · val_ok "\"a\""
  · val_ok "[\"q\"]"
  · val_ok "\"q\""
  · val_ok "true"
  · val_ok "{\"id\":\"1\",\"k\":\"b\",\"v\":\"x\"}"
  · val_ok "\"1\""
  · val_ok "\"b\""
  · val_ok "\"x\""
  · val_ok "\"t\""


/-- **the end-to-end theorem on the concrete pair, `SetKeys("id","k")`**: every hypothesis holds
    (only the IEEE-754 laws remain).  `[{"id":"1","k":"a","v":"x"},{"id":"2","k":"a","v":["p"]},"s"]`
    → `[{"id":"2","k":"a","v":["q"],"w":true},{"id":"1","k":"b","v":"x"},"t"]`: a set hunk nested
    below a keyed member (`@ [{"id":"2","k":"a"},"v",{}]`), a key added to a keyed member, members
    and scalars removed and added (`@ [{}]`) -/
theorem ex_keys_end_to_end (F : FloatEq0) (L : FloatLaws) :
    ∃ text d' r, renderM exCodec [] (diffM o2 exA exB) = some text ∧
      readDiffM exCodec text = .ok d' ∧ patchM exA d' = .ok r ∧
      equals o2 r exB = true ∧ equivB o2 r exB = true :=
  diff_print_read_patch_setkeys F L exCodec o2 ["id", "k"] rfl rfl rfl rfl (by simp) exA exB
    ex_docs.1 ex_docs.2.1 (by decide) (by decide) ex_keysHyp vals_ok
    (diffM_pathOK_of_inputs_setkeys (o := o2) rfl rfl rfl exA exB (by decide) (by decide)
      (by decide) (by decide) paths_ok)

/-- the hypotheses of `diff_text_lossless_setkeys` hold (no float law, no hash hypothesis) -/
example (text : String) (hr : renderM exCodec [] (diffM o2 exA exB) = some text) :
    ∃ d', readDiffM exCodec text = .ok d' ∧ renderM exCodec [] d' = some text ∧
      ∀ c : Json, patchM c d' = patchM c (diffM o2 exA exB) :=
  diff_text_lossless_setkeys exCodec (o := o2) rfl rfl rfl (by simp) exA exB (by decide) (by decide)
    (by decide) (by decide) (fun z hz => (vals_ok z hz).2)
    (diffM_pathOK_of_inputs_setkeys (o := o2) rfl rfl rfl exA exB (by decide) (by decide)
      (by decide) (by decide) (fun p hp => (paths_ok p hp).2)) text hr

example : wfDiff (diffM o2 exA exB) = true ∧ noEmptySetKeys (diffM o2 exA exB) = true :=
  let h := diffM_premises_setkeys (o := o2) rfl rfl rfl (by simp) exA exB (by decide) (by decide)
    (by decide) (by decide)
  ⟨h.1, h.2.2.1⟩

/-! ### stage B3: members lacking set keys -/

abbrev po3 : List (String × Json) := [("id", .str "1"), ("k", .null)]
abbrev po4 : List (String × Json) := [("id", .null), ("k", .null)]

theorem exD_keys : ∀ k ∈ E2E.docKeys exD, k = "id" ∨ k = "v" := by
  intro k hk
  simp [E2E.docKeys, exD, DPL.subterms, DPL.subtermsList, DPL.subtermsKvs] at hk
  rcases hk with rfl | rfl | rfl <;> simp

theorem nav_exC {p : Path} (h : Nav (E2E.docKeys exD) ["id", "k"] p exC) :
    p = [] ∨ p = [.set] ∨
    ∃ po, (po = po3 ∨ po = po4) ∧
      (p = [.setKeys po] ∨ ∃ k, (k = "id" ∨ k = "v") ∧ p = [.setKeys po, .key k]) := by
  unfold exC at h
  cases h with
  | nil => exact .inl rfl
  | setLeaf => exact .inr (.inl rfl)
  | @member _ _ kvs r hm hr =>
    right; right
    simp only [List.mem_cons, Json.obj.injEq, List.not_mem_nil, or_false, reduceCtorEq] at hm
    rcases hm with rfl | rfl
    · refine ⟨po3, .inl rfl, ?_⟩
      have e : DPK.pathObjOf ["id", "k"] [("id", .str "1"), ("v", .str "x")] = po3 := by
        simp [DPK.pathObjOf, DPK.keyVal, alookup, ainsert]
      rw [e]
      cases hr with
      | nil => exact .inl rfl
      | newKey _ hk => exact .inr ⟨_, exD_keys _ hk, rfl⟩
      | @key k v _ r hm hr =>
        simp only [List.mem_cons, Prod.mk.injEq, List.not_mem_nil, or_false] at hm
        rcases hm with ⟨rfl, rfl⟩ | ⟨rfl, rfl⟩ <;> cases hr <;>
          exact .inr ⟨_, by simp, rfl⟩
    · refine ⟨po4, .inr rfl, ?_⟩
      have e : DPK.pathObjOf ["id", "k"] [("v", .str "q")] = po4 := by
        simp [DPK.pathObjOf, DPK.keyVal, alookup, ainsert]
      rw [e]
      cases hr with
      | nil => exact .inl rfl
      | newKey _ hk => exact .inr ⟨_, exD_keys _ hk, rfl⟩
      | @key k v _ r hm hr =>
        simp only [List.mem_cons, Prod.mk.injEq, List.not_mem_nil, or_false] at hm
        obtain ⟨rfl, rfl⟩ := hm
        cases hr
        exact .inr ⟨_, by simp, rfl⟩

theorem paths3_ok : ∀ p, Nav (E2E.docKeys exD) ["id", "k"] p exC →
    (jsonM exCodec (pathToJson p)).isSome = true ∧ PathOK exCodec p := by
  intro p hp
  rcases nav_exC hp with rfl | rfl | ⟨po, hpo, hp⟩
  · spath_ok "[]"
  · spath_ok "[{}]"
  · rcases hpo with rfl | rfl
    · rcases hp with rfl | ⟨k, hk, rfl⟩
      · spath_ok "[{\"id\":\"1\",\"k\":null}]"
      · rcases hk with rfl | rfl
        · spath_ok "[{\"id\":\"1\",\"k\":null},\"id\"]"
        · spath_ok "[{\"id\":\"1\",\"k\":null},\"v\"]"
    · rcases hp with rfl | ⟨k, hk, rfl⟩
      · spath_ok "[{\"id\":null,\"k\":null}]"
      · rcases hk with rfl | rfl
        · spath_ok "[{\"id\":null,\"k\":null},\"id\"]"
        · spath_ok "[{\"id\":null,\"k\":null},\"v\"]"

theorem vals3_ok : ∀ z ∈ subterms exC ++ subterms exD,
    (marshalNode exCodec z).isSome = true ∧ ValOK exCodec z := by
  intro z hz
  simp only [exC, exD, subterms, subtermsList, subtermsKvs,
    List.cons_append, List.nil_append, List.append_nil, List.mem_cons, List.not_mem_nil,
    or_false] at hz
  rcases hz with rfl | rfl | rfl | rfl | rfl | rfl | rfl | rfl | rfl | rfl | rfl | rfl
  · val_ok "[{\"id\":\"1\",\"v\":\"x\"},{\"v\":\"q\"}]"
  · val_ok "{\"id\":\"1\",\"v\":\"x\"}"
  · val_ok "\"1\""
  · val_ok "\"x\""
  · val_ok "{\"v\":\"q\"}"
  · val_ok "\"q\""
  · val_ok "[{\"id\":\"1\",\"v\":\"z\"},{\"v\":\"r\"}]"
  · val_ok "{\"id\":\"1\",\"v\":\"z\"}"
  · val_ok "\"1\""
  · val_ok "\"z\""
  · val_ok "{\"v\":\"r\"}"
  · val_ok "\"r\""

/-- **the end-to-end theorem on a concrete pair whose members LACK set keys** (path objects with
    `null` values: `@ [{"id":"1","k":null},"v"]`, `@ [{"id":null,"k":null},"v"]`) -/
theorem ex3_keys_end_to_end (F : FloatEq0) (L : FloatLaws) :
    ∃ text d' r, renderM exCodec [] (diffM o2 exC exD) = some text ∧
      readDiffM exCodec text = .ok d' ∧ patchM exC d' = .ok r ∧
      equals o2 r exD = true ∧ equivB o2 r exD = true :=
  diff_print_read_patch_setkeys F L exCodec o2 ["id", "k"] rfl rfl rfl rfl (by simp) exC exD
    ex3_docs.1 ex3_docs.2.1 (by decide) (by decide) ex3_keysHyp vals3_ok
    (diffM_pathOK_of_inputs_setkeys (o := o2) rfl rfl rfl exC exD (by decide) (by decide)
      (by decide) (by decide) paths3_ok)

end Example

/-! ## 7. `ks ≠ []` cannot be dropped: with `SetKeys()` the text cannot carry the diff -/

namespace EmptyKeys

/-- `SetKeys()`: the option with no key at all (the command line cannot produce it) -/
def o0 : Opts := [.setKeys []]
abbrev wx : Json := .obj [("a", .str "x")]
abbrev wy : Json := .obj [("a", .str "y")]
/-- `[{"a":"x"}]` -/
def wa : Json := .arr .raw [wx]
/-- `[{"a":"y"}]` -/
def wb : Json := .arr .raw [wy]
/-- the diff `Diff` returns: the member is addressed through the EMPTY path object -/
def wd : Diff := [{ path := [.setKeys [], .key "a"], remove := [.str "x"], add := [.str "y"] }]
/-- what `ReadDiffString` returns for its text `@ [{},"a"]` / `- "x"` / `+ "y"`: `{}` is the set element -/
def wd' : Diff := [{ path := [.set, .key "a"], remove := [.str "x"], add := [.str "y"] }]

theorem w_ident : identOf o0 wy = identOf o0 wx := rfl

theorem w_diff : diffM o0 wa wb = wd := by
  unfold diffM wa wb
  rw [show isMerge o0 = false from rfl, SetDP.diffNode_set_set (o := o0) rfl]
  rw [SetDP.diffSetElems_cons, SetDP.diffSetElems_nil]
  simp [w_ident, identLookup, ksort, kinsert, SetDP.subOf, SetDP.remOf, SetDP.setAdd, hdedup, hsort]
  rw [DE.diffNode_obj_obj, DE.diffKvs_cons, DE.diffKvs_nil]
  simp [alookup, DPK.Witness.diff_str, newPathSetKeys, keysOf, o0, wd]

theorem w_render : renderM exCodec [] (diffM o0 wa wb) =
    some (unlines ["@ [{},\"a\"]", "- \"x\"", "+ \"y\""]) := by
  rw [w_diff, renderM_lines]
  simp [wd, diffLines, hunkLines, optAll, jsonM, pathToJson, rawNorm, rawNormList, rawNormKvs, jsonText,
    jsonTextList, jsonTextKvs, String.intercalate_singleton, String.intercalate_cons_cons,
    NativeRT.remLines, NativeRT.addLines, marshalNode, quoteString, escapeBody, escapeChar,
    Json.isVoid, remLine, addLine]

theorem w_norm : normDiff wd = wd' := by
  simp [normDiff, normHunk, wd, wd', normPath, normElem, NativeRT.remLines, NativeRT.addLines, untag,
    Json.isVoid]

theorem w_patch_mem : patchM wa wd = .ok (.arr .set [wy]) := by
  have hm : DPK.matchT false [] wx = true := by
    simp [DPK.matchT, pathIdent, restrictKeys, identObj, keysOf, alookup]
  have := DPK.patchNode_keyed true .raw (Or.inl rfl) [] (.key "a") [] [] [.str "x"] [.str "y"] []
    [] [("a", .str "x")] [] false (by rw [DPK.keyedTol_eq]; simp [hm]) (by simp) hm
  simp only [List.nil_append] at this
  simp only [patchM, patchAll, wd, wa, this]
  simp [patchNode.eq_def, patchObjChild.eq_def, alookup, patchFresh, Path.isLeaf, equals,
    Json.singleValue, Json.isVoid, ainsert, Pure.pure]

theorem w_patch_back : patchM wa wd' = .err := by
  simp only [patchM, patchAll, wd', wa]
  rw [patchNode.eq_def]
  have hne : ¬ identOf [.set] (.str "x") = identOf [.set] wx := by decide +kernel
  simp [pathMeta, effTag, dispatchTag, patchSetLeaf, setRemoveLoop, hmapSet, hmapGet, hne]


theorem w_hf : HashFaithful o0 (subterms wa ++ subterms wb) := by
  intro x hx y hy
  simp only [wa, wb, subterms, subtermsList, subtermsKvs, List.cons_append, List.nil_append,
    List.append_nil, List.mem_cons, List.not_mem_nil, or_false] at hx hy
  rcases hx with rfl | rfl | rfl | rfl | rfl | rfl <;>
  rcases hy with rfl | rfl | rfl | rfl | rfl | rfl <;>
  first
  | (intro e; exact absurd e (by decide +kernel))
  | (intro _; simp [equivB, dispatchTag, o0, allIn, allCovered, anyEquiv, equivKvs, alookup]; done)

theorem w_keysHyp : DPK.KeysHyp o0 [] wa wb where
  hf := w_hf
  kd := DPK.keyedDistinct_of_check (by decide +kernel)
  ksep := DES.Example.kindSepI_of_check (by decide +kernel)
  ib := DES.Example.identInj_of_check (by decide +kernel)
  pf := DPK.pathFaithful_of_check (by decide +kernel)
  kt := DPK.keyTuple_of_check (by decide +kernel)

theorem w_vals : ∀ z ∈ subterms wa ++ subterms wb,
    (marshalNode exCodec z).isSome = true ∧ ValOK exCodec z := by
  intro z hz
  simp only [wa, wb, subterms, subtermsList, subtermsKvs,
    List.cons_append, List.nil_append, List.append_nil, List.mem_cons, List.not_mem_nil,
    or_false] at hz
  rcases hz with rfl | rfl | rfl | rfl | rfl | rfl
  · val_ok "[{\"a\":\"x\"}]"
  · val_ok "{\"a\":\"x\"}"
  · val_ok "\"x\""
  · val_ok "[{\"a\":\"y\"}]"
  · val_ok "{\"a\":\"y\"}"
  · val_ok "\"y\""

theorem w_paths : ∀ h ∈ diffM o0 wa wb,
    (jsonM exCodec (pathToJson h.path)).isSome = true ∧ PathOK exCodec h.path := by
  intro h hh
  rw [w_diff] at hh
  simp only [wd, List.mem_singleton] at hh
  subst hh
  spath_ok "[{},\"a\"]"

/-- **WITNESS: `ks ≠ []` cannot be dropped** (library level: `SetKeys()` with no key; the command
    line rejects an empty `-setkeys`).  `[{"a":"x"}]` → `[{"a":"y"}]` under `SetKeys()`: every
    object has the same identity, the diff sub-diffs the two members and addresses the hunk
    through the EMPTY path object: `@ [{},"a"]`.  Both documents satisfy every other hypothesis of
    `diff_render_read_patch_setkeys` (documents as read from text, no void, `KeysHyp`, the codec
    contract); the diff applies IN MEMORY and gives the target; its text is read back by
    `ReadDiffString` without error, but `{}` is read as the set element `PathSet`, and `Patch` of the
    diff read back returns an ERROR (the set leaf tries to remove the member `"x"`). -/
theorem emptyKeys_witness :
    dispatchTag o0 = .set ∧ keysOf o0 = some [] ∧ isMerge o0 = false ∧ precOf o0 = 0 ∧
    wa.setDoc = true ∧ wb.setDoc = true ∧ E2E.voidFree wa = true ∧ E2E.voidFree wb = true ∧
    DPK.KeysHyp o0 [] wa wb ∧
    (∀ z ∈ subterms wa ++ subterms wb, ValOK exCodec z) ∧
    (∀ h ∈ diffM o0 wa wb, PathOK exCodec h.path) ∧
    noEmptySetKeys (diffM o0 wa wb) = false ∧
    patchM wa (diffM o0 wa wb) = .ok (.arr .set [wy]) ∧
    renderM exCodec [] (diffM o0 wa wb) = some (unlines ["@ [{},\"a\"]", "- \"x\"", "+ \"y\""]) ∧
    readDiffM exCodec (unlines ["@ [{},\"a\"]", "- \"x\"", "+ \"y\""]) = .ok wd' ∧
    patchM wa wd' = .err := by
  refine ⟨rfl, rfl, rfl, rfl, by decide, by decide, by decide, by decide, w_keysHyp,
    fun z hz => (w_vals z hz).2, fun h hh => (w_paths h hh).2, by rw [w_diff]; rfl,
    by rw [w_diff]; exact w_patch_mem, ?_⟩
  show _ ∧ _ ∧ _
  have ht := w_render
  refine ⟨ht, ?_, w_patch_back⟩
  have hw := (diffM_wfDiff_setkeys (o := o0) rfl rfl rfl wa wb (by decide) (by decide) (by decide)
    (by decide)).1
  have hc := diffM_codecOK_setkeys exCodec (o := o0) rfl rfl rfl wa wb (by decide) (by decide)
    (by decide) (by decide) (fun z hz => (w_vals z hz).2) (fun h hh => (w_paths h hh).2)
  rw [read_render exCodec _ _ hw hc ht, w_diff, w_norm]

end EmptyKeys

/-! ## 8. `voidFree` cannot be dropped in the SetKeys reading either -/

namespace VoidWitness
open E2ES.Witness

def o1 : Opts := [.setKeys ["id"]]

theorem v_diff : diffM o1 wA wB = diffM [.set] wA wB := by
  rw [w_diff]
  unfold diffM wA wB
  rw [show isMerge o1 = false from rfl, diffNode_set_set (o := o1) rfl]
  simp [diffSetElems, identLookup, ksort, kinsert, setAdd, hsort, hdedup, subOf, remOf]

theorem v_hashFaithful : HashFaithful o1 (subterms wA ++ subterms wB) := by
  intro x hx y hy
  simp only [wA, wB, subterms, subtermsList, List.cons_append, List.nil_append,
    List.append_nil, List.mem_cons, List.not_mem_nil, or_false] at hx hy
  rcases hx with rfl | rfl | rfl <;> rcases hy with rfl | rfl | rfl <;>
  first
  | (intro _; simp [equivB, dispatchTag, o1, allIn, allCovered, anyEquiv]; done)
  | (intro e; exact absurd e (by decide +kernel))

theorem v_keysHyp : DPK.KeysHyp o1 ["id"] wA wB where
  hf := v_hashFaithful
  kd := DPK.keyedDistinct_of_check (by decide +kernel)
  ksep := DES.Example.kindSepI_of_check (by decide +kernel)
  ib := DES.Example.identInj_of_check (by decide +kernel)
  pf := DPK.pathFaithful_of_check (by decide +kernel)
  kt := DPK.keyTuple_of_check (by decide +kernel)

/-- **WITNESS: `voidFree` cannot be dropped in the SetKeys reading either.** `[void]` → `[]` under
    `SetKeys("id")`: both documents satisfy every hypothesis of `diff_render_read_patch_setkeys`
    except `voidFree wA` (in particular `setDoc`, `memOK` — the C01 domain — and `KeysHyp`); the
    diff applies in memory; its text is `@ [{}]` alone, which `ReadDiffString` rejects.  (No reader
    of the library produces a void inside a document.) -/
theorem void_element_witness_setkeys :
    wA.setDoc = true ∧ wB.setDoc = true ∧ DPL.memOK wA = true ∧ DPL.memOK wB = true ∧
    DPK.KeysHyp o1 ["id"] wA wB ∧
    E2E.voidFree wA = false ∧ E2E.voidFree wB = true ∧
    patchM wA (diffM o1 wA wB) = .ok (.arr .set []) ∧
    ∃ text, renderM exCodec [] (diffM o1 wA wB) = some text ∧ readDiffM exCodec text = .err :=
  ⟨by decide, by decide, by decide, by decide, v_keysHyp, by decide, by decide,
    by rw [v_diff]; exact w_patch, _, by rw [v_diff]; exact w_render, w_read⟩

end VoidWitness

/-! ## 9. the hypotheses of `KeysHyp` shown necessary IN MEMORY are necessary END TO END

  The text is a lossless carrier (`text_outcome_eq_memory`), so each of the three witnesses of
  JdProofs.DiffPatchKeys (B.8) fails in the text pipeline with the same outcome. -/

namespace KeysHypNeeded
open DPK.Witness

theorem p_vals : ∀ z ∈ subterms pa ++ subterms pb,
    (marshalNode exCodec z).isSome = true ∧ ValOK exCodec z := by
  intro z hz
  simp only [pa, pb, subterms, subtermsList, subtermsKvs,
    List.cons_append, List.nil_append, List.append_nil, List.mem_cons, List.not_mem_nil,
    or_false] at hz
  rcases hz with rfl | rfl | rfl | rfl | rfl | rfl | rfl | rfl
  · val_ok "[{\"id\":\"5\",\"k\":\"3\"}]"
  · val_ok "{\"id\":\"5\",\"k\":\"3\"}"
  · val_ok "\"5\""
  · val_ok "\"3\""
  · val_ok "[{\"id\":\"3\",\"k\":\"5\"}]"
  · val_ok "{\"id\":\"3\",\"k\":\"5\"}"
  · val_ok "\"3\""
  · val_ok "\"5\""

theorem p_paths : ∀ h ∈ diffM DPK.Witness.o2 pa pb,
    (jsonM exCodec (pathToJson h.path)).isSome = true ∧ PathOK exCodec h.path := by
  intro h hh
  rw [p_diff] at hh
  simp only [pd, List.mem_cons, List.not_mem_nil, or_false] at hh
  rcases hh with rfl | rfl
  · spath_ok "[{\"id\":\"5\",\"k\":\"3\"},\"id\"]"
  · spath_ok "[{\"id\":\"5\",\"k\":\"3\"},\"k\"]"

/-- `KeyTuple` (KF-C01-identperm) is needed END TO END as well: the printed diff is read back and
    `Patch` of the diff read back returns an error -/
theorem identperm_breaks_text :
    ∃ text d', renderM exCodec [] (diffM DPK.Witness.o2 pa pb) = some text ∧
      readDiffM exCodec text = .ok d' ∧ patchM pa d' = .err := by
  obtain ⟨text, d', h1, h2, h3⟩ := text_outcome_eq_memory exCodec (o := DPK.Witness.o2) rfl rfl rfl
    (by simp) pa pb (by decide) (by decide) (by decide) (by decide) p_vals p_paths
  exact ⟨text, d', h1, h2, by rw [h3, identperm_breaks.2.2.2.2.2.2.2.2.2.2.1]⟩

theorem d_vals : ∀ z ∈ subterms da ++ subterms db,
    (marshalNode exCodec z).isSome = true ∧ ValOK exCodec z := by
  intro z hz
  simp only [da, db, subterms, subtermsList, subtermsKvs,
    List.cons_append, List.nil_append, List.append_nil, List.mem_cons, List.not_mem_nil,
    or_false] at hz
  rcases hz with rfl | rfl | rfl | rfl | rfl | rfl | rfl | rfl | rfl | rfl | rfl
  · val_ok "[{\"id\":\"1\",\"v\":\"1\"},{\"id\":\"1\",\"v\":\"1\"}]"
  · val_ok "{\"id\":\"1\",\"v\":\"1\"}"
  · val_ok "\"1\""
  · val_ok "\"1\""
  · val_ok "{\"id\":\"1\",\"v\":\"1\"}"
  · val_ok "\"1\""
  · val_ok "\"1\""
  · val_ok "[{\"id\":\"1\",\"v\":\"2\"}]"
  · val_ok "{\"id\":\"1\",\"v\":\"2\"}"
  · val_ok "\"1\""
  · val_ok "\"2\""

theorem d_paths : ∀ h ∈ diffM o1 da db,
    (jsonM exCodec (pathToJson h.path)).isSome = true ∧ PathOK exCodec h.path := by
  intro h hh
  rw [d_diff] at hh
  simp only [dd, List.mem_cons, List.not_mem_nil, or_false] at hh
  subst hh
  spath_ok "[{\"id\":\"1\"},\"v\"]"

/-- `KeyedDistinct` is needed END TO END as well: `Patch` of the diff read back succeeds with a
    document that does not `Equals` the target -/
theorem duplicate_member_breaks_text :
    ∃ text d', renderM exCodec [] (diffM o1 da db) = some text ∧
      readDiffM exCodec text = .ok d' ∧ patchM da d' = .ok (.arr .set [dy, dx]) ∧
      equals o1 (.arr .set [dy, dx]) db = false := by
  obtain ⟨text, d', h1, h2, h3⟩ := text_outcome_eq_memory exCodec (o := o1) rfl rfl rfl
    (by simp) da db (by decide) (by decide) (by decide) (by decide) d_vals d_paths
  exact ⟨text, d', h1, h2, by rw [h3, duplicate_member_breaks.2.2.2.2.2.2.2.2.2.2.1],
    duplicate_member_breaks.2.2.2.2.2.2.2.2.2.2.2⟩

theorem n_vals : ∀ z ∈ subterms na ++ subterms nb,
    (marshalNode exCodec z).isSome = true ∧ ValOK exCodec z := by
  intro z hz
  simp only [na, nb, subterms, subtermsList, subtermsKvs,
    List.cons_append, List.nil_append, List.append_nil, List.mem_cons, List.not_mem_nil,
    or_false] at hz
  rcases hz with rfl | rfl | rfl | rfl | rfl | rfl | rfl | rfl | rfl | rfl | rfl | rfl | rfl
  · val_ok "[{\"id\":\"1\"},{\"id\":\"1\",\"k\":null}]"
  · val_ok "{\"id\":\"1\"}"
  · val_ok "\"1\""
  · val_ok "{\"id\":\"1\",\"k\":null}"
  · val_ok "\"1\""
  · val_ok "null"
  · val_ok "[{\"id\":\"1\",\"v\":\"y\"},{\"id\":\"1\",\"k\":null}]"
  · val_ok "{\"id\":\"1\",\"v\":\"y\"}"
  · val_ok "\"1\""
  · val_ok "\"y\""
  · val_ok "{\"id\":\"1\",\"k\":null}"
  · val_ok "\"1\""
  · val_ok "null"

theorem n_paths : ∀ h ∈ diffM DPK.Witness.o2 na nb,
    (jsonM exCodec (pathToJson h.path)).isSome = true ∧ PathOK exCodec h.path := by
  intro h hh
  rw [n_diff] at hh
  simp only [nd, List.mem_cons, List.not_mem_nil, or_false] at hh
  subst hh
  spath_ok "[{\"id\":\"1\",\"k\":null},\"v\"]"

/-- `PathFaithful` is needed END TO END as well -/
theorem null_completion_breaks_text :
    ∃ text d', renderM exCodec [] (diffM DPK.Witness.o2 na nb) = some text ∧
      readDiffM exCodec text = .ok d' ∧ patchM na d' = .ok (.arr .set [n1, n4]) ∧
      equals DPK.Witness.o2 (.arr .set [n1, n4]) nb = false := by
  obtain ⟨text, d', h1, h2, h3⟩ := text_outcome_eq_memory exCodec (o := DPK.Witness.o2) rfl rfl rfl
    (by simp) na nb (by decide) (by decide) (by decide) (by decide) n_vals n_paths
  exact ⟨text, d', h1, h2, by rw [h3, null_completion_breaks.2.2.2.2.2.2.2.2.2.2.1],
    null_completion_breaks.2.2.2.2.2.2.2.2.2.2.2⟩

end KeysHypNeeded
end Jd.E2EK

/-! ### axioms -/
#print axioms Jd.E2EK.Example.ex_keys_end_to_end
#print axioms Jd.E2EK.Example.ex3_keys_end_to_end
#print axioms Jd.E2EK.EmptyKeys.emptyKeys_witness
#print axioms Jd.E2EK.VoidWitness.void_element_witness_setkeys
#print axioms Jd.E2EK.KeysHypNeeded.identperm_breaks_text
#print axioms Jd.E2EK.KeysHypNeeded.duplicate_member_breaks_text
#print axioms Jd.E2EK.KeysHypNeeded.null_completion_breaks_text
