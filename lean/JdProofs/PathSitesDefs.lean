/-
  JdProofs.PathSitesDefs — the predicates on the regenerated table of source sites (see JdProofs/PathSites.lean).
-/
import JdModel.PathHeap
import JdModel.Gen.PathSites

namespace Jd.PathSites
open Jd Jd.PathHeap

def isV2 (s : String × SiteKind × SExpr) : Bool := s.1.startsWith "v2/"
def isV1 (s : String × SiteKind × SExpr) : Bool := s.1.startsWith "lib/"
def isWrite (s : String × SiteKind × SExpr) : Bool := s.2.1 == .write
def ok (s : String × SiteKind × SExpr) : Bool := siteOk s.2.1 s.2.2

end Jd.PathSites
