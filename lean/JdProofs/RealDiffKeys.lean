/-
  JdProofs.RealDiffKeys — property C07 ("a diff reports only real differences: no no-op, no redundant
  hunk") in the SetKeys reading of the v2 library: strict strategy, `dispatchTag o = .set`,
  `keysOf o = some ks`, `isMerge o = false`, `precOf o = 0` (e.g. `o = [.setKeys ks]`).  Everything
  lives in the namespace `Jd.RealK`.  (LIST reading: JdProofs.RealDiff; SET / MULTISET without keys:
  JdProofs.RealDiffSet, whose `SetHunkReal`, `set_hunk_real`, `sub_origin_last`, `mem_diffKvs` are
  reused: they do not depend on `keysOf o`.)
  All theorems are about the library functions of the model (`diffM` / `diffNode`, `patchAll sw`,
  `equals`, `identOf`, `newPathSetKeys`) and the hash-free specification `equivB`.

  STAGE REACHED: all three targets, at full depth (arrays nested in objects and in arrays, hunks
  below keys and below keyed set members), by induction on the first document.

  LOCATIONS.  `Loc o a b q u v` (inductive): following `q` in `a` and `b` AT ONCE leads to `u` in `a`
  and `v` in `b` (`none` = the last key is missing on that side).  `.key k` enters the member `k` of
  two objects.  A `PathSetKeys` element `e`, on two arrays `xs`, `ys`, enters a member `.obj kvs` of
  `xs` that is the LAST bearer of its identity in `xs` (`identLookup o (identOf o (.obj kvs)) xs =
  some (.obj kvs)`: the Go map built by ranging over the slice; THE member with that identity when
  identities are distinct) and is addressed by `e = newPathSetKeys o kvs` (the object of its set-key
  values, `null` for a key it lacks), and, in `ys`, the last bearer `.obj kvs'` of the SAME identity.
  (Navigation has to be joint: the partner in `b` is found by the identity of the member of `a`, which
  the path object does not determine when a set key is missing — see the witness.)
  `Loc.sub_left/right`: `u`, `v` are nodes of `a`, `b`; `Loc.getAt`: on key paths `Loc` is `Real.getAt`.

  MAIN THEOREMS
  (1) `hunk_real` / `diffM_hunk_real`: every hunk `h` of `diffNode o false a b p` (of `a.Diff(b)`) is
      `HunkReal o a b p h`, i.e. one of
        * `value q u v`: `Loc o a b q u v`, `h.path = p ++ q`, no context, at least one of `u`, `v`
          present, and `h` replaces `u` by `v` (`Real.RealOpt`: at most one value each way; the removed
          value is LITERALLY what `a` holds (`lit`), the added value is what `b` holds; nothing is
          removed / added only when nothing (or void) is held; the removed value is not `Equals` to
          the added one);
        * `set q xs ys`: `Loc o a b q (some (.arr .raw xs)) (some (.arr .raw ys))`,
          `h.path = p ++ q ++ [{}]`, and `RealS.SetHunkReal o xs ys h`: every removed value is a member of
          `xs` (`z ∈ xs`), every added value a member of `ys`; the identities (under the set keys) of
          the removed values are exactly those present in `xs` and absent from `ys`, each once;
          symmetrically for the added values; not empty.  (`RealS.SetHunkReal.apart`: no removed value
          has the identity of an added value.)
      Hypotheses: `dispatchTag o = .set`, `precOf o = 0`, `a.rawDoc`, `a.wf`, `b.rawDoc`, `b.wf`.
      NO hash hypothesis, NO hypothesis on the identities, NO float hypothesis; `keysOf o` arbitrary.
      `HunkReal.not_equals` (`FloatEq0`, `DocOk` documents): no removed value is `Equals` to an added
      value of the same hunk, for both kinds of hunk.  `HunkReal.nonempty` (`DPL.memOK`: no void
      object member): no hunk is empty.
  (2) `equal_subdoc_not_mentioned`, `diffM_equal_subdoc_not_mentioned`, `equal_member_not_mentioned`:
      if `Loc o a b q (some u) (some v)` and `equals o u v = true`, no hunk of the diff has a path that
      starts with `p ++ q` (one-level form: a member of `xs` whose partner of equal identity in `ys` is
      `Equals` to it is not mentioned).
      Hypotheses: `DocOk a`, `DocOk b` (as read from text: plain arrays, sorted keys, finite numbers,
      no `-0`); on the nodes of the two EQUAL values only, the hypotheses of
      `DES.diffNode_nil_of_equals_keys`: `DiffFaithful o (subterms u) (subterms v)` (no harmful FNV
      collision / alias — `RealS.Witness.equal_member_mentioned_alias` is the alias witness, it has no
      SetKeys but the same happens below a keyed member), `KindSepH`, `IdentInj o (subterms v)`; and
      `PathInj o (subterms a)`: in every array of `a`, object members addressed by the same path
      element have the same identity.  `PathInj` is implied by the decidable `DPK.PathFaithful o ks
      (subterms a)` (`pathInj_of_pathFaithful`; checker `DPK.pathFaithful_of_check`), and it is NEEDED:
      `Witness.equal_member_mentioned_nullkey` (below).
  (3) `no_redundant_hunk` (`diffM o a b = d1 ++ h :: d2`, `patchAll sw a (d1 ++ d2) = .ok r` ⇒
      `equivB o r b = false`), `no_redundant_hunk_eraseIdx` (`(diffM o a b).eraseIdx i`), and the general
      form `no_proper_sublist`: for EVERY sub-list `D'` of the diff other than the diff itself (one or
      several hunks left out), if the library's patch code applies `D'` to `a`, the result is not
      equivalent to `b`.  Both variants `sw` of the keyed branch of `jsonSet.patch` (`sw = true` is the
      Go code, which swallows the failure of a nested patch: the general sub-list form is what makes the
      induction go through — a swallowed hunk is a hunk left out).
      Hypotheses: `a.setDoc`, `b.setDoc`, `DPL.memOK a`, `DPL.memOK b`, `DPK.KeysHyp o ks a b` (the
      decidable hypotheses of the C01 theorem `DPK.diff_then_patch_setkeys`: `HashFaithful`,
      `KeyedDistinct` = the SetKeys precondition, `KindSepI`, `IdentInj`, `PathFaithful`, `KeyTuple`),
      `FloatEq0`, `FloatLaws`.
      CONCLUSION WITH `equivB` (the advertised equivalence, arrays as sets of equivalent members, no
      hashes), not with `equals`: below a keyed member the result `r` contains HYBRID nodes (an array
      of `a` some of whose members were patched) that are nodes neither of `a` nor of `b`, and `Equals`
      compares arrays by their hash codes; a negative statement about `equals o r b` therefore needs a
      no-collision hypothesis on `r` itself.  `no_redundant_hunk_equals`: `equals o r b = false` under
      the additional hypotheses `DocOk r`, `HashFaithful o (subterms r ++ subterms b)` (on the output).
      Proof: `nr_node`, induction on `a`.  Objects: the hunks act key by key (`patchAll_obj_proj`, any
      sequence of strict hunks below keys; `proj_diff_obj`: the hunks below `k` are the diff of the two
      members, `diffNode_shift`: the diff does not depend on the path it is computed at); a proper
      sub-list misses a hunk below some key (`exists_proj_lt`).  Arrays (`arr_nr`): the hunks below
      keyed members are read back from the array to the member (`keyed_frame_rev`: the member found by
      the two-pass keyed lookup is the one that was diffed, it keeps its set-key values, and what
      stands in its place is what a sub-list of its sub-diff makes of it; `subs_apply_sub`); a member
      that keeps the set-key values of `x` and is `equivB` to a member `y` of `b` has the identity of `y`
      (`ident_of_equivB_kept`, via `equivB_hash_core`: no hash hypothesis); so the partner of the
      member with a missing hunk can only be that member (`KeyedDistinct`), which the induction
      hypothesis excludes; and a missing set hunk `{}` leaves a removed identity in, or an added
      identity out.
  NOT FOUND FALSE: (3) was not found false inside the SetKeys precondition.  Which parts of `KeysHyp`
  are NECESSARY for (3) in the `equivB` form was not decided (they are the hypotheses under which the
  whole diff is known to apply, `DPK`; `KeyFree` — the hunks below a keyed member do not touch the set
  keys — is taken from `DPK.node_stepK`, which needs all of them).  For the `equals` form the alias
  witness `RealS.Witness.redundant_hunk_alias` (no keys) shows that a hash hypothesis is needed.

  FINDING (witness, proved on the model): `Witness.equal_member_mentioned_nullkey` — (2) is FALSE
  without `PathInj`, INSIDE the SetKeys precondition (identities pairwise distinct within each array):
  `SetKeys("id","k")`, `[{"id":"1"},{"id":"1","k":null}]` → `[{"id":"1","v":"y"},{"id":"1","k":null}]`.
  The member `{"id":"1","k":null}` is unchanged (its partner is the same value), and the only hunk,
  `@ [{"id":"1","k":null},"v"] + "y"`, is addressed through the path element of that member: the path
  object written for `{"id":"1"}` (which lacks `k`) is `{"id":"1","k":null}` too.  The diff format
  cannot tell the two members apart.  Same class as `DPK.Witness.null_completion_breaks` (finding 3
  of JdProofs.DiffPatchKeys, replayed there on the Go library: `Patch` then edits the wrong member);
  the documents and the diff are those of that witness (`DPK.Witness.n_diff`).  Not replayed again.

  NON-VACUITY: `Example` (the pair of `DPK.ExampleB`, two set keys: a member changed inside a nested
  array, one removed, two added, a scalar member replaced; three hunks): (1), `nonempty`,
  `not_equals`, (3) are instantiated, `ex_pathInj` is the hypothesis of (2), and the `#eval` shows that
  each of the three leave-one-out sub-diffs does apply.  `Example2`: (2) on a pair with an unchanged
  keyed member next to a changed one.
-/
import JdProofs.RealDiffSet
import JdProofs.DiffPatchKeys

namespace Jd.RealK
open Jd Jd.Spec Jd.SetDP

/-! ## 1. locations: keys and keyed members, followed in both documents at once -/

/-- `Loc o a b q u v`: following the path `q` (object keys and `PathSetKeys` elements) in `a` and in
    `b` at once leads to `u` in `a` and to `v` in `b` (`none`: the last key is missing on that side).
    A `PathSetKeys` element, on two arrays, designates a member `.obj kvs` of the first array — the
    last bearer of its identity there, i.e. THE member with that identity when identities are
    distinct —, addressed by its path object `newPathSetKeys o kvs`, and, in the second array, the
    (last) member `.obj kvs'` with the same identity. -/
inductive Loc (o : Opts) : Json → Json → Path → Option Json → Option Json → Prop
  | here (a b : Json) : Loc o a b [] (some a) (some b)
  | key {kvs kvs' : List (String × Json)} {k : String} {x y : Json} {r : Path} {u v : Option Json}
      (hx : alookup k kvs = some x) (hy : alookup k kvs' = some y) (h : Loc o x y r u v) :
      Loc o (.obj kvs) (.obj kvs') (.key k :: r) u v
  | onlyA {kvs kvs' : List (String × Json)} {k : String} {x : Json}
      (hx : alookup k kvs = some x) (hy : alookup k kvs' = none) :
      Loc o (.obj kvs) (.obj kvs') [.key k] (some x) none
  | onlyB {kvs kvs' : List (String × Json)} {k : String} {y : Json}
      (hx : alookup k kvs = none) (hy : alookup k kvs' = some y) :
      Loc o (.obj kvs) (.obj kvs') [.key k] none (some y)
  | member {t t' : Tag} {xs ys : List Json} {kvs kvs' : List (String × Json)} {e : PathElem}
      {r : Path} {u v : Option Json}
      (hx : identLookup o (identOf o (.obj kvs)) xs = some (.obj kvs))
      (hy : identLookup o (identOf o (.obj kvs)) ys = some (.obj kvs'))
      (he : newPathSetKeys o kvs = e) (h : Loc o (.obj kvs) (.obj kvs') r u v) :
      Loc o (.arr t xs) (.arr t' ys) (e :: r) u v

/-- what a location reaches in the first document is a node of the first document -/
theorem Loc.sub_left {o : Opts} {a b : Json} {q : Path} {ou ov : Option Json}
    (L : Loc o a b q ou ov) : ∀ u, ou = some u → u ∈ subterms a := by
  induction L with
  | here a b => intro u e; cases e; exact mem_subterms_self _
  | key hx _ _ ih => intro u e; exact subterms_val_sub (mem_of_alookup hx) (ih u e)
  | onlyA hx _ =>
    intro u e; cases e
    exact subterms_val_sub (mem_of_alookup hx) (mem_subterms_self _)
  | onlyB _ _ => intro u e; cases e
  | member hx _ _ _ ih => intro u e; exact subterms_elem_sub (identLookup_some hx).1 (ih u e)

/-- what a location reaches in the second document is a node of the second document -/
theorem Loc.sub_right {o : Opts} {a b : Json} {q : Path} {ou ov : Option Json}
    (L : Loc o a b q ou ov) : ∀ v, ov = some v → v ∈ subterms b := by
  induction L with
  | here a b => intro u e; cases e; exact mem_subterms_self _
  | key _ hy _ ih => intro u e; exact subterms_val_sub (mem_of_alookup hy) (ih u e)
  | onlyA _ _ => intro u e; cases e
  | onlyB _ hy =>
    intro u e; cases e
    exact subterms_val_sub (mem_of_alookup hy) (mem_subterms_self _)
  | member _ hy _ _ ih => intro u e; exact subterms_elem_sub (identLookup_some hy).1 (ih u e)

/-- on key paths a location is the navigation of JdProofs.RealDiff -/
theorem Loc.getAt {o : Opts} {a b : Json} {q : Path} {ou ov : Option Json}
    (L : Loc o a b q ou ov) (hq : Real.keysOnly q = true) :
    Real.getAt a q = ou ∧ Real.getAt b q = ov := by
  induction L with
  | here a b => exact ⟨RealS.getAt_nil a, RealS.getAt_nil b⟩
  | key hx hy _ ih =>
    simp only [Real.keysOnly] at hq
    simp only [Real.getAt, hx, hy]
    exact ih hq
  | onlyA hx hy => simp [Real.getAt, hx, hy]
  | onlyB hx hy => simp [Real.getAt, hx, hy]
  | member _ _ he _ _ =>
    subst he
    unfold newPathSetKeys at hq
    split at hq <;> simp [Real.keysOnly] at hq

/-! ## 2. every hunk describes a real difference -/

/-- the hunk `h` of `diffNode o false a b p` describes a real difference between `a` and `b`:
    * `value`: it is addressed to the location `q` below `p`, where `a` holds `u` and `b` holds `v`,
      and replaces `u` by `v` (`Real.RealOpt`: at most one value each way, the removed value is what
      `a` holds, the added value is what `b` holds, nothing is removed / added only if nothing (or
      void) is held, and the two are not `Equals`); `lit`: the removed value is LITERALLY what `a`
      holds;
    * `set`: it is addressed to the arrays `xs`, `ys` both documents hold at `q`, read as sets of
      members identified by the set keys, and is a real set hunk of these two arrays
      (`RealS.SetHunkReal`: removed values are members of `xs`, added values members of `ys`; the
      identities of the removed values are exactly those present in `xs` and absent from `ys`, each
      once, symmetrically for the added values; not empty). -/
inductive HunkReal (o : Opts) (a b : Json) (p : Path) (h : Hunk) : Prop
  | value (q : Path) (u v : Option Json) (loc : Loc o a b q u v) (hpath : h.path = p ++ q)
      (hm : h.merge = false) (hb : h.before = []) (ha : h.after = [])
      (pres : u.isSome = true ∨ v.isSome = true)
      (ne : ¬ (u = some .void ∧ v = some .void))
      (lit : ∀ w, h.remove = [w] → u = some w)
      (real : Real.RealOpt o u v h)
  | set (q : Path) (xs ys : List Json)
      (loc : Loc o a b q (some (.arr .raw xs)) (some (.arr .raw ys)))
      (hpath : h.path = p ++ q ++ [.set]) (real : RealS.SetHunkReal o xs ys h)

theorem HunkReal.root {o : Opts} {a b : Json} {p : Path} {h : Hunk} (hpath : h.path = p)
    (hm : h.merge = false) (hb : h.before = []) (ha : h.after = [])
    (ne : ¬ (a = .void ∧ b = .void)) (lit : ∀ v, h.remove = [v] → a = v)
    (real : Real.RealOpt o (some a) (some b) h) : HunkReal o a b p h :=
  .value [] (some a) (some b) (.here a b) (by simp [hpath]) hm hb ha (.inl rfl)
    (by simpa using ne) (by simpa using lit) real

theorem HunkReal.lift_key {o : Opts} {kvs kvs' : List (String × Json)} {k : String} {x y : Json}
    {p : Path} {h : Hunk} (hl : alookup k kvs = some x) (hl' : alookup k kvs' = some y)
    (H : HunkReal o x y (p ++ [.key k]) h) : HunkReal o (.obj kvs) (.obj kvs') p h := by
  cases H with
  | value q u v loc hpath hm hb ha pres ne lit real =>
    exact .value (.key k :: q) u v (.key hl hl' loc) (by simpa using hpath) hm hb ha pres ne lit real
  | set q xs ys loc hpath real =>
    exact .set (.key k :: q) xs ys (.key hl hl' loc) (by simpa using hpath) real

theorem HunkReal.lift_member {o : Opts} {t t' : Tag} {xs ys : List Json}
    {kvs kvs' : List (String × Json)} {p : Path} {h : Hunk}
    (hx : identLookup o (identOf o (.obj kvs)) xs = some (.obj kvs))
    (hy : identLookup o (identOf o (.obj kvs)) ys = some (.obj kvs'))
    (H : HunkReal o (.obj kvs) (.obj kvs') (p ++ [newPathSetKeys o kvs]) h) :
    HunkReal o (.arr t xs) (.arr t' ys) p h := by
  cases H with
  | value q u v loc hpath hm hb ha pres ne lit real =>
    exact .value (newPathSetKeys o kvs :: q) u v (.member hx hy rfl loc) (by simpa using hpath)
      hm hb ha pres ne lit real
  | set q xs0 ys0 loc hpath real =>
    exact .set (newPathSetKeys o kvs :: q) xs0 ys0 (.member hx hy rfl loc) (by simpa using hpath)
      real

theorem scalar_hunk_real {o : Opts} (hp : precOf o = 0) {a b : Json} {p : Path} {h : Hunk}
    (h1 : ∀ t xs, a ≠ .arr t xs) (h2 : ∀ kvs, a ≠ .obj kvs)
    (hm : h ∈ diffNode o false a b p) : HunkReal o a b p h := by
  have real := Real.root_scalar_real hp h1 h2 hm
  rw [DPL.diffNode_scalar o a b h1 h2] at hm
  obtain ⟨e1, e2, e3, e4⟩ := RealS.diffCommon_fields hm
  refine .root e1 e2 e3 e4 ?_ ?_ real
  · rintro ⟨rfl, rfl⟩
    simp [diffCommon, equals, Json.isVoid] at hm
  · intro v hv
    unfold diffCommon at hm
    split at hm
    · cases hm
    · simp only [Bool.false_eq_true, if_false, List.mem_singleton] at hm
      subst hm
      exact RealS.nodeList_single hv

theorem arr_other_hunk_real {o : Opts} (hd : dispatchTag o = .set)
    (xs : List Json) (b : Json) (hb : ∀ t ys, b ≠ .arr t ys) {p : Path} {h : Hunk}
    (hm : h ∈ diffNode o false (.arr .raw xs) b p) : HunkReal o (.arr .raw xs) b p h := by
  rw [diffNode_arr_other (.inl hd) xs b hb] at hm
  simp only [List.mem_singleton] at hm
  subst hm
  refine .root rfl rfl rfl rfl (fun e => by cases e.1) (fun v hv => by cases hv; rfl)
    (Real.realOpt_both (.inl rfl) (.inl rfl) ?_ ?_)
  · cases b <;> first | exact absurd rfl (hb _ _) | simp [equals, effTag, hd, Json.dispatch]
  · cases b <;> first | exact absurd rfl (hb _ _) | simp [Real.asList, equals, effTag, Json.dispatch]

theorem obj_other_hunk_real {o : Opts} (kvs : List (String × Json)) (b : Json)
    (hb : ∀ kvs', b ≠ .obj kvs') {p : Path} {h : Hunk}
    (hm : h ∈ diffNode o false (.obj kvs) b p) : HunkReal o (.obj kvs) b p h := by
  rw [DPL.diffNode_obj_other o kvs b hb] at hm
  simp only [List.mem_singleton] at hm
  subst hm
  refine .root rfl rfl rfl rfl (fun e => by cases e.1) (fun v hv => by cases hv; rfl)
    (Real.realOpt_both (.inl rfl) (.inr rfl) ?_ ?_)
  · cases b <;> first | exact absurd rfl (hb _) | simp [equals]
  · cases b <;> first | exact absurd rfl (hb _) | simp [Real.asList, equals]

/-- **C07 (1), SetKeys reading (and the plain SET reading), any depth**: every hunk of
    `diffNode o false a b p` describes a real difference (`HunkReal`).  No hash hypothesis, no float
    hypothesis, no hypothesis on the identities. -/
theorem hunk_real {o : Opts} (hd : dispatchTag o = .set) (hp : precOf o = 0) :
    ∀ a : Json, a.rawDoc = true → a.wf = true → ∀ b : Json, b.rawDoc = true → b.wf = true →
      ∀ p, ∀ h ∈ diffNode o false a b p, HunkReal o a b p h := by
  intro a
  induction a using jsonInd with
  | void =>
    intro _ _ b _ _ p h hh
    exact scalar_hunk_real hp (fun _ _ e => by cases e) (fun _ e => by cases e) hh
  | null =>
    intro _ _ b _ _ p h hh
    exact scalar_hunk_real hp (fun _ _ e => by cases e) (fun _ e => by cases e) hh
  | bool x =>
    intro _ _ b _ _ p h hh
    exact scalar_hunk_real hp (fun _ _ e => by cases e) (fun _ e => by cases e) hh
  | num x =>
    intro _ _ b _ _ p h hh
    exact scalar_hunk_real hp (fun _ _ e => by cases e) (fun _ e => by cases e) hh
  | str x =>
    intro _ _ b _ _ p h hh
    exact scalar_hunk_real hp (fun _ _ e => by cases e) (fun _ e => by cases e) hh
  | arr t xs ih =>
    intro hr hw b hrb hwb p h hh
    simp only [Json.rawDoc, Bool.and_eq_true, beq_iff_eq] at hr
    obtain ⟨rfl, hrx⟩ := hr
    simp only [Json.wf] at hw
    by_cases hb : ∃ t' ys, b = .arr t' ys
    · obtain ⟨t', ys, rfl⟩ := hb
      simp only [Json.rawDoc, Bool.and_eq_true, beq_iff_eq] at hrb
      obtain ⟨rfl, hry⟩ := hrb
      simp only [Json.wf] at hwb
      rw [diffNode_set_set hd] at hh
      rcases List.mem_append.1 hh with hh | hh
      · obtain ⟨⟨c, part⟩, hkp, hin⟩ := List.mem_flatMap.1 hh
        cases part with
        | removed z => simp [subOf] at hin
        | sub d =>
          simp only [subOf] at hin
          obtain ⟨kvs, kvs', rfl, hx, hy, rfl⟩ :=
            RealS.sub_origin_last o p ys xs c d ((ksort_perm _).mem_iff.1 hkp)
          have hxm := (identLookup_some hx).1
          have hym := (identLookup_some hy).1
          exact .lift_member hx hy (ih _ hxm (DES.rawDocList_mem hrx hxm) (DES.wfList_mem hw hxm) _
            (DES.rawDocList_mem hry hym) (DES.wfList_mem hwb hym) _ h hin)
      · obtain ⟨e, real⟩ := RealS.set_hunk_real o p xs ys hh
        exact .set [] xs ys (.here _ _) (by simpa using e) real
    · exact arr_other_hunk_real hd xs b (fun t' ys e => hb ⟨t', ys, e⟩) hh
  | obj kvs ih =>
    intro hr hw b hrb hwb p h hh
    by_cases hb : ∃ kvs', b = .obj kvs'
    · obtain ⟨kvs', rfl⟩ := hb
      simp only [Json.rawDoc] at hr hrb
      simp only [Json.wf, Bool.and_eq_true] at hw hwb
      rw [DE.diffNode_obj_obj] at hh
      rcases List.mem_append.1 hh with hh | hh
      · obtain ⟨k, v, hmem, hcase⟩ := RealS.mem_diffKvs o p kvs' hh
        have hl := alookup_of_mem hw.1 hmem
        rcases hcase with ⟨v', hl', hin⟩ | ⟨hn, rfl⟩
        · have hmem' := mem_of_alookup hl'
          exact .lift_key hl hl' (ih k v hmem (DES.rawDocKvs_mem hr hmem) (DES.wfKvs_mem hw.2 hmem) v'
            (DES.rawDocKvs_mem hrb hmem') (DES.wfKvs_mem hwb.2 hmem') _ h hin)
        · refine .value [.key k] (some v) none (.onlyA hl hn) rfl rfl rfl rfl (.inl rfl) ?_ ?_ ?_
          · rintro ⟨_, e⟩; cases e
          · intro v0 hv0
            rw [RealS.nodeList_single hv0]
          · exact Real.realOpt_removeOnly rfl rfl
      · obtain ⟨kv, hkv, rfl⟩ := List.mem_map.1 hh
        simp only [List.mem_filter, Option.isNone_iff_eq_none] at hkv
        have hl' := alookup_of_mem hwb.1 (show (kv.1, kv.2) ∈ kvs' from hkv.1)
        refine .value [.key kv.1] none (some kv.2) (.onlyB hkv.2 hl') rfl rfl rfl rfl (.inr rfl)
          (by rintro ⟨e, _⟩; cases e) (fun v hv => by cases hv) ?_
        exact Real.realOpt_addOnly rfl rfl
    · exact obj_other_hunk_real kvs b (fun kvs' e => hb ⟨kvs', e⟩) hh

/-- **C07 (1) for `a.Diff(b)`**, SetKeys reading, strict strategy -/
theorem diffM_hunk_real {o : Opts} (hd : dispatchTag o = .set) (hp : precOf o = 0)
    (hmg : isMerge o = false) {a b : Json} (hr : a.rawDoc = true) (hw : a.wf = true)
    (hrb : b.rawDoc = true) (hwb : b.wf = true) : ∀ h ∈ diffM o a b, HunkReal o a b [] h := by
  rw [diffM, hmg]
  exact hunk_real hd hp a hr hw b hrb hwb []

/-! ## 3. equal sub-documents are never mentioned -/

/-- within every array node among `S`, object members addressed by the same path element have the
    same identity (the path object written by `newPathSetKeys` holds `null` for a set key the member
    lacks, so a member lacking a key and a member holding `null` for it are addressed alike) -/
def PathInj (o : Opts) (S : List Json) : Prop :=
  ∀ t xs, Json.arr t xs ∈ S → ∀ kx kz, Json.obj kx ∈ xs → Json.obj kz ∈ xs →
    newPathSetKeys o kx = newPathSetKeys o kz → identOf o (.obj kx) = identOf o (.obj kz)

theorem PathInj.mono {o : Opts} {S T : List Json} (h : PathInj o T) (hs : ∀ x ∈ S, x ∈ T) :
    PathInj o S := fun t xs hn => h t xs (hs _ hn)

/-- the decidable hypothesis `DPK.PathFaithful` (the keyed lookup of `jsonSet.patch` for the path
    object of a member hits only members with that member's identity) implies `PathInj` -/
theorem pathInj_of_pathFaithful {o : Opts} {ks : List String} (hk : keysOf o = some ks) {a : Json}
    (da : DocOk a) (PF : DPK.PathFaithful o ks (subterms a)) : PathInj o (subterms a) := by
  intro t xs hn kx kz hx hz e
  rw [DPK.newPathSetKeys_some hk, DPK.newPathSetKeys_some hk] at e
  have e' : DPK.pathObjOf ks kx = DPK.pathObjOf ks kz := PathElem.setKeys.inj e
  have hzs : keysSorted kz = true := by
    have hmem : Json.obj kz ∈ subterms a :=
      DES.subterms_trans (subterms_elem_sub hz (mem_subterms_self _)) a hn
    simpa [nodeOk] using da _ hmem
  have := PF _ hn
  simp only [DPK.nodePathFaithful, List.all_eq_true] at this
  have h2 := this _ hx _ hz
  simp only [Bool.or_eq_true, Bool.and_eq_true, Bool.not_eq_true', beq_iff_eq] at h2
  rcases h2 with h2 | h2
  · have := DPK.matchT_true_self ks hzs
    rw [← e', h2.2] at this
    cases this
  · exact h2.symm

/-- **C07 (2), SetKeys reading**: if the location `q` (keys and keyed members) leads to `u` in `a` and
    to `v` in `b`, and `u`, `v` are `Equals`, no hunk of the diff lies at or below `p ++ q`.
    Hypotheses: `DocOk` documents (as read from text); `PathInj` on `a` (path elements tell the members
    of an array of `a` apart: `Witness.equal_member_mentioned_nullkey` shows it is needed); and, on the
    nodes of the two equal values only, the hypotheses of `DES.diffNode_nil_of_equals_keys`
    (`DiffFaithful`: no harmful FNV collision / alias; `KindSepH`; `IdentInj` on `v`). -/
theorem equal_subdoc_not_mentioned (F : FloatEq0) {o : Opts} (hd : dispatchTag o = .set)
    (hp : precOf o = 0) {a b : Json} {q : Path} {ou ov : Option Json} (L : Loc o a b q ou ov) :
    ∀ u v, ou = some u → ov = some v → DocOk a → DocOk b → PathInj o (subterms a) →
      equals o u v = true → DES.DiffFaithful o (subterms u) (subterms v) →
      DES.KindSepH o (subterms u) (subterms v) → DES.IdentInj o (subterms v) →
      ∀ p, ∀ h ∈ diffNode o false a b p, ¬ (p ++ q) <+: h.path := by
  induction L with
  | here a b =>
    intro u v eu ev da db _ he FH KH IB p h hh
    cases eu; cases ev
    rw [DES.diffNode_nil_of_equals_keys F hd hp false FH KH IB a da (DES.within_subterms a) b db
      (DES.within_subterms b) he p] at hh
    cases hh
  | onlyA _ _ => intro u v _ ev; cases ev
  | onlyB _ _ => intro u v eu; cases eu
  | @key kvs kvs' k x y r ou ov hx hy L ih =>
    intro u v eu ev da db PI he FH KH IB p h hh hpre
    have hpre1 := RealS.prefix_snoc_of_prefix_cons hpre
    have hmx := mem_of_alookup hx
    have hmy := mem_of_alookup hy
    have hsa := da.sorted
    rw [DE.diffNode_obj_obj] at hh
    rcases List.mem_append.1 hh with hh | hh
    · obtain ⟨k0, v0, hmem, hcase⟩ := RealS.mem_diffKvs o p kvs' hh
      have hpre0 : (p ++ [PathElem.key k0]) <+: h.path := by
        rcases hcase with ⟨w, _, hin⟩ | ⟨_, rfl⟩
        · exact Real.diff_paths_extend_general o false v0 w _ h hin
        · exact List.prefix_refl _
      have hkk : k0 = k := PathElem.key.inj (RealS.snoc_prefix_unique hpre0 hpre1)
      subst hkk
      have hv0 := alookup_of_mem hsa hmem
      rw [hx] at hv0
      cases hv0
      rcases hcase with ⟨w, hw', hin⟩ | ⟨hn, _⟩
      · rw [hy] at hw'
        cases hw'
        exact ih u v eu ev (da.val hmx) (db.val hmy)
          (PI.mono (fun z hz => subterms_val_sub hmx hz)) he FH KH IB _ h hin
          (by simpa using hpre)
      · rw [hy] at hn; cases hn
    · obtain ⟨kv, hkv, rfl⟩ := List.mem_map.1 hh
      simp only [List.mem_filter, Option.isNone_iff_eq_none] at hkv
      have hkk : kv.1 = k :=
        PathElem.key.inj (RealS.snoc_prefix_unique (List.prefix_refl _) hpre1)
      rw [hkk, hx] at hkv
      cases hkv.2
  | @member t t' xs ys kvs kvs' e r ou ov hx hy hne L ih =>
    intro u v eu ev da db PI he FH KH IB p h hh hpre
    have hpre1 := RealS.prefix_snoc_of_prefix_cons hpre
    have ht := da.raw
    have ht' := db.raw
    subst ht ht'
    have hxm := (identLookup_some hx).1
    have hym := (identLookup_some hy).1
    rw [diffNode_set_set hd] at hh
    rcases List.mem_append.1 hh with hh | hh
    · obtain ⟨⟨c, part⟩, hkp, hin⟩ := List.mem_flatMap.1 hh
      cases part with
      | removed z => simp [subOf] at hin
      | sub d =>
        simp only [subOf] at hin
        obtain ⟨kvs1, kvs1', rfl, hx1, hy1, rfl⟩ :=
          RealS.sub_origin_last o p ys xs c d ((ksort_perm _).mem_iff.1 hkp)
        have hpre0 := Real.diff_paths_extend_general o false _ _ _ h hin
        have hee : newPathSetKeys o kvs1 = e := RealS.snoc_prefix_unique hpre0 hpre1
        have hid : identOf o (.obj kvs1) = identOf o (.obj kvs) :=
          PI _ xs (mem_subterms_self _) kvs1 kvs (identLookup_some hx1).1 hxm (hee.trans hne.symm)
        rw [hid, hx] at hx1
        rw [hid, hy] at hy1
        cases hx1; cases hy1
        exact ih u v eu ev (da.elem hxm) (db.elem hym)
          (PI.mono (fun z hz => subterms_elem_sub hxm hz)) he FH KH IB _ h hin
          (by rw [hee]; simpa using hpre)
    · obtain ⟨e0, _⟩ := RealS.set_hunk_real o p xs ys hh
      rw [e0] at hpre1
      have := RealS.snoc_prefix_unique hpre1 (List.prefix_refl _)
      rw [← hne] at this
      unfold newPathSetKeys at this
      split at this <;> cases this

/-- the same for `a.Diff(b)` -/
theorem diffM_equal_subdoc_not_mentioned (F : FloatEq0) {o : Opts} (hd : dispatchTag o = .set)
    (hp : precOf o = 0) (hmg : isMerge o = false) {a b : Json} (da : DocOk a) (db : DocOk b)
    (PI : PathInj o (subterms a)) {q : Path} {u v : Json} (L : Loc o a b q (some u) (some v))
    (he : equals o u v = true) (FH : DES.DiffFaithful o (subterms u) (subterms v))
    (KH : DES.KindSepH o (subterms u) (subterms v)) (IB : DES.IdentInj o (subterms v)) :
    ∀ h ∈ diffM o a b, ¬ q <+: h.path := by
  rw [diffM, hmg]
  simpa using equal_subdoc_not_mentioned F hd hp L u v rfl rfl da db PI he FH KH IB []

/-- the one-level form of the task: a member `.obj kvs` of the array `xs` (the last bearer of its
    identity) whose partner `.obj kvs'` in `ys` (same identity) is `Equals` to it is not mentioned:
    no hunk of the diff of the two arrays has a path through the path element of that member -/
theorem equal_member_not_mentioned (F : FloatEq0) {o : Opts} (hd : dispatchTag o = .set)
    (hp : precOf o = 0) {xs ys : List Json} (da : DocOk (.arr .raw xs)) (db : DocOk (.arr .raw ys))
    (PI : PathInj o (subterms (.arr .raw xs))) {kvs kvs' : List (String × Json)}
    (hx : identLookup o (identOf o (.obj kvs)) xs = some (.obj kvs))
    (hy : identLookup o (identOf o (.obj kvs)) ys = some (.obj kvs'))
    (he : equals o (.obj kvs) (.obj kvs') = true)
    (FH : DES.DiffFaithful o (subterms (.obj kvs)) (subterms (.obj kvs')))
    (KH : DES.KindSepH o (subterms (.obj kvs)) (subterms (.obj kvs')))
    (IB : DES.IdentInj o (subterms (.obj kvs'))) (p : Path) :
    ∀ h ∈ diffNode o false (.arr .raw xs) (.arr .raw ys) p,
      ¬ (p ++ [newPathSetKeys o kvs]) <+: h.path :=
  equal_subdoc_not_mentioned F hd hp (.member hx hy rfl (.here _ _)) _ _ rfl rfl da db PI he FH KH
    IB p

/-! ## 4. no hunk is redundant

  ### 4.1 generic facts about `patchAll` -/

theorem patchAll_append_inv (sw : Bool) : ∀ (d1 d2 : Diff) (n r : Json),
    patchAll sw n (d1 ++ d2) = .ok r →
    ∃ n', patchAll sw n d1 = .ok n' ∧ patchAll sw n' d2 = .ok r
  | [], _, n, _, h => ⟨n, rfl, h⟩
  | hk :: d1, d2, n, r, h => by
    simp only [List.cons_append, patchAll] at h ⊢
    cases e : patchNode sw hk.merge n hk.path hk.before hk.remove hk.add hk.after with
    | ok n1 =>
      rw [e] at h
      simp only at h ⊢
      exact patchAll_append_inv sw d1 d2 n1 r h
    | err => rw [e] at h; cases h
    | panic => rw [e] at h; cases h

/-- the hunk seen from below the object key `k` (nothing when it is not addressed below `k`) -/
def projKey (k : String) (h : Hunk) : Option Hunk :=
  match h.path with
  | .key k' :: rest => if k' = k then some { h with path := rest } else none
  | _ => none

/-- the hunks addressed below the object key `k`, seen from there -/
def proj (k : String) (D : Diff) : Diff := D.filterMap (projKey k)

/-- strict hunks addressed below object keys -/
def KeyHeaded (D : Diff) : Prop := ∀ h ∈ D, h.merge = false ∧ ∃ k rest, h.path = .key k :: rest

theorem proj_cons_same {k : String} {rest : Path} {h : Hunk} (hp : h.path = .key k :: rest)
    (D : Diff) : proj k (h :: D) = { h with path := rest } :: proj k D := by
  simp [proj, projKey, hp]

theorem proj_cons_ne {k k0 : String} {rest : Path} {h : Hunk} (hp : h.path = .key k0 :: rest)
    (hne : k0 ≠ k) (D : Diff) : proj k (h :: D) = proj k D := by
  simp [proj, projKey, hp, hne]

/-- **objects act key by key**: a sequence of strict hunks addressed below object keys, applied to an
    object, applies below every key `k` the hunks addressed below `k` -/
theorem patchAll_obj_proj (sw : Bool) : ∀ (D : Diff) (kvs : List (String × Json)) (r : Json),
    KeyHeaded D → keysSorted kvs = true → patchAll sw (.obj kvs) D = .ok r →
    ∃ kvr, r = .obj kvr ∧ keysSorted kvr = true ∧
      ∀ k, patchAll sw ((alookup k kvs).getD .void) (proj k D) = .ok ((alookup k kvr).getD .void)
  | [], kvs, r, _, hs, h => by
    simp only [patchAll, Outcome.ok.injEq] at h
    subst h
    exact ⟨kvs, rfl, hs, fun k => rfl⟩
  | h :: D, kvs, r, hD, hs, hr => by
    obtain ⟨hmg, k0, rest, hpath⟩ := hD h List.mem_cons_self
    simp only [patchAll, hmg, hpath] at hr
    rw [patchNode_obj_key] at hr
    cases hv : patchNode sw false ((alookup k0 kvs).getD .void) rest h.before h.remove h.add
        h.after with
    | err => rw [hv] at hr; cases hr
    | panic => rw [hv] at hr; cases hr
    | ok v =>
      rw [hv] at hr
      simp only at hr
      have hs1 := DPL.keysSorted_aput k0 v kvs hs
      obtain ⟨kvr, e1, e2, e3⟩ := patchAll_obj_proj sw D (DPL.aput k0 v kvs) r
        (fun h' hh' => hD h' (List.mem_cons_of_mem _ hh')) hs1 hr
      refine ⟨kvr, e1, e2, fun k => ?_⟩
      by_cases hk : k0 = k
      · subst hk
        rw [proj_cons_same hpath]
        simp only [patchAll, hmg, hv]
        have := e3 k0
        rw [DPL.alookup_aput_self k0 v kvs hs] at this
        exact this
      · rw [proj_cons_ne hpath hk]
        have := e3 k
        rw [DPL.alookup_aput_ne (fun e => hk e.symm)] at this
        exact this

/-- a proper sub-list of hunks addressed below keys misses a hunk below some key -/
theorem exists_proj_lt {D' D : Diff} (hs : D'.Sublist D) :
    D' ≠ D → (∀ h ∈ D, ∃ k rest, h.path = .key k :: rest) →
    ∃ k, (proj k D').length < (proj k D).length := by
  induction hs with
  | slnil => intro h; exact absurd rfl h
  | @cons l₁ l₂ a hs _ =>
    intro _ hk
    obtain ⟨k, rest, hp⟩ := hk a List.mem_cons_self
    refine ⟨k, ?_⟩
    rw [proj_cons_same hp]
    have := (hs.filterMap (projKey k)).length_le
    simp only [List.length_cons, proj]
    omega
  | @cons_cons l₁ l₂ a hs ih =>
    intro hne hk
    obtain ⟨k, hlt⟩ := ih (fun e => hne (by rw [e]))
      (fun h hh => hk h (List.mem_cons_of_mem _ hh))
    refine ⟨k, ?_⟩
    simp only [proj, List.filterMap_cons] at hlt ⊢
    cases projKey k a <;> simp only [List.length_cons] <;> omega

theorem proj_sublist {D' D : Diff} (hs : D'.Sublist D) (k : String) :
    (proj k D').Sublist (proj k D) := hs.filterMap _

theorem proj_map_shift_same (k : String) (D : Diff) :
    proj k (D.map (DPL.shiftHunk [.key k])) = D := by
  induction D with
  | nil => rfl
  | cons h D ih =>
    rw [List.map_cons, proj_cons_same (rest := h.path) (by simp [DPL.shiftHunk]), ih]
    congr 1

theorem proj_map_shift_ne {k k0 : String} (hne : k0 ≠ k) (D : Diff) :
    proj k (D.map (DPL.shiftHunk [.key k0])) = [] := by
  induction D with
  | nil => rfl
  | cons h D ih =>
    rw [List.map_cons, proj_cons_ne (rest := h.path) (by simp [DPL.shiftHunk]) hne, ih]

theorem proj_append (k : String) (D1 D2 : Diff) : proj k (D1 ++ D2) = proj k D1 ++ proj k D2 := by
  simp [proj, List.filterMap_append]

/-! ### 4.2 the diff does not depend on the path it is computed at -/

theorem shiftHunk_nil (h : Hunk) : DPL.shiftHunk [] h = h := by
  simp [DPL.shiftHunk]

/-- the part of a set diff, moved below the path `p` -/
def shiftSP (p : Path) : SetPart → SetPart
  | .sub d => .sub (d.map (DPL.shiftHunk p))
  | .removed z => .removed z

def shiftPart (p : Path) (kp : UInt64 × SetPart) : UInt64 × SetPart := (kp.1, shiftSP p kp.2)

theorem kinsert_shiftPart (p : Path) (c : UInt64) (v : SetPart) :
    ∀ l : List (UInt64 × SetPart),
      kinsert c (shiftSP p v) (l.map (shiftPart p)) = (kinsert c v l).map (shiftPart p)
  | [] => by simp [kinsert, shiftPart]
  | (c', v') :: r => by
    have ih := kinsert_shiftPart p c v r
    simp only [List.map_cons, shiftPart, kinsert] at ih ⊢
    split
    · simp [shiftPart]
    · rw [List.map_cons, ih]
      rfl

theorem ksort_shiftPart (p : Path) : ∀ l : List (UInt64 × SetPart),
    ksort (l.map (shiftPart p)) = (ksort l).map (shiftPart p)
  | [] => rfl
  | kp :: r => by
    have ih := ksort_shiftPart p r
    simp only [ksort, List.map_cons, List.foldr_cons] at ih ⊢
    rw [ih]
    exact kinsert_shiftPart p kp.1 kp.2 _

theorem subOf_shiftPart (p : Path) (kp : UInt64 × SetPart) :
    subOf (shiftPart p kp) = (subOf kp).map (DPL.shiftHunk p) := by
  obtain ⟨c, part⟩ := kp
  cases part <;> rfl

theorem remOf_shiftPart (p : Path) (kp : UInt64 × SetPart) : remOf (shiftPart p kp) = remOf kp := by
  obtain ⟨c, part⟩ := kp
  cases part <;> rfl

theorem flatMap_subOf_shift (p : Path) : ∀ l : List (UInt64 × SetPart),
    (l.map (shiftPart p)).flatMap subOf = (l.flatMap subOf).map (DPL.shiftHunk p)
  | [] => rfl
  | kp :: r => by
    simp only [List.map_cons, List.flatMap_cons, List.map_append, subOf_shiftPart,
      flatMap_subOf_shift p r]

theorem filterMap_remOf_shift (p : Path) : ∀ l : List (UInt64 × SetPart),
    (l.map (shiftPart p)).filterMap remOf = l.filterMap remOf
  | [] => rfl
  | kp :: r => by
    simp only [List.map_cons, List.filterMap_cons, remOf_shiftPart, filterMap_remOf_shift p r]

/-- the parts of a set diff at the path `p` are the parts at the empty path, moved below `p` -/
theorem diffSetElems_shift (o : Opts) (p : Path) (ys : List Json) :
    ∀ (xs : List Json), (∀ x ∈ xs, ∀ y ∈ ys, ∀ q, diffNode o false x y q =
        (diffNode o false x y []).map (DPL.shiftHunk q)) →
      diffSetElems o false p ys xs = (diffSetElems o false [] ys xs).map (shiftPart p)
  | [], _ => by simp [diffSetElems_nil]
  | x :: r, ih => by
    have ihr := diffSetElems_shift o p ys r (fun x hx => ih x (List.mem_cons_of_mem _ hx))
    rw [diffSetElems_cons, diffSetElems_cons]
    by_cases hc : (r.map (identOf o)).contains (identOf o x) = true
    · rw [if_pos hc, if_pos hc]; exact ihr
    · rw [if_neg hc, if_neg hc]
      cases hl : identLookup o (identOf o x) ys with
      | none => simp [ihr, shiftPart, shiftSP]
      | some y =>
        have hy := (identLookup_some hl).1
        cases x with
        | obj kvs =>
          cases y with
          | obj kvs' =>
            simp only [List.map_cons, ← ihr, shiftPart, shiftSP, List.nil_append]
            rw [ih _ List.mem_cons_self _ hy (p ++ [newPathSetKeys o kvs]),
              ih _ List.mem_cons_self _ hy [newPathSetKeys o kvs], List.map_map]
            congr 3
            apply List.map_congr_left
            intro h _
            simp [shiftHunk_shiftHunk]
          | _ => exact ihr
        | _ => exact ihr

/-- **the diff at the path `p` is the diff at the empty path, moved below `p`** (set reading, with or
    without SetKeys; documents as read from text) -/
theorem diffNode_shift {o : Opts} (hd : dispatchTag o = .set) :
    ∀ a : Json, a.rawDoc = true → ∀ b : Json, b.rawDoc = true → ∀ p,
      diffNode o false a b p = (diffNode o false a b []).map (DPL.shiftHunk p) := by
  have scalar : ∀ a : Json, (∀ t xs, a ≠ .arr t xs) → (∀ kvs, a ≠ .obj kvs) → ∀ b p,
      diffNode o false a b p = (diffNode o false a b []).map (DPL.shiftHunk p) := by
    intro a h1 h2 b p
    rw [DPL.diffNode_scalar o a b h1 h2, DPL.diffNode_scalar o a b h1 h2]
    unfold diffCommon
    split <;> simp [DPL.shiftHunk]
  intro a
  induction a using jsonInd with
  | void => intro _ b _ p; exact scalar _ (fun _ _ e => by cases e) (fun _ e => by cases e) b p
  | null => intro _ b _ p; exact scalar _ (fun _ _ e => by cases e) (fun _ e => by cases e) b p
  | bool x => intro _ b _ p; exact scalar _ (fun _ _ e => by cases e) (fun _ e => by cases e) b p
  | num x => intro _ b _ p; exact scalar _ (fun _ _ e => by cases e) (fun _ e => by cases e) b p
  | str x => intro _ b _ p; exact scalar _ (fun _ _ e => by cases e) (fun _ e => by cases e) b p
  | arr t xs ih =>
    intro hr b hrb p
    simp only [Json.rawDoc, Bool.and_eq_true, beq_iff_eq] at hr
    obtain ⟨rfl, hrx⟩ := hr
    by_cases hb : ∃ t' ys, b = .arr t' ys
    · obtain ⟨t', ys, rfl⟩ := hb
      simp only [Json.rawDoc, Bool.and_eq_true, beq_iff_eq] at hrb
      obtain ⟨rfl, hry⟩ := hrb
      have hparts := diffSetElems_shift o p ys xs (fun x hx y hy q =>
        ih x hx (DES.rawDocList_mem hrx hx) y (DES.rawDocList_mem hry hy) q)
      rw [diffNode_set_set hd, diffNode_set_set hd, hparts, ksort_shiftPart, flatMap_subOf_shift,
        filterMap_remOf_shift, List.map_append]
      congr 1
      split <;> simp [DPL.shiftHunk]
    · rw [diffNode_arr_other (.inl hd) xs b (fun t' ys e => hb ⟨t', ys, e⟩),
        diffNode_arr_other (.inl hd) xs b (fun t' ys e => hb ⟨t', ys, e⟩)]
      simp [DPL.shiftHunk]
  | obj kvs ih =>
    intro hr b hrb p
    by_cases hb : ∃ kvs', b = .obj kvs'
    · obtain ⟨kvs', rfl⟩ := hb
      simp only [Json.rawDoc] at hr hrb
      rw [DE.diffNode_obj_obj, DE.diffNode_obj_obj, List.map_append]
      congr 1
      · have key : ∀ r : List (String × Json), (∀ kv ∈ r, kv ∈ kvs) →
            diffKvs o false p kvs' r = (diffKvs o false [] kvs' r).map (DPL.shiftHunk p) := by
          intro r
          induction r with
          | nil => intro _; simp [DE.diffKvs_nil]
          | cons kv r ihr =>
            obtain ⟨k, v⟩ := kv
            intro hsub
            rw [DE.diffKvs_cons, DE.diffKvs_cons, List.map_append,
              ihr (fun kv h => hsub kv (List.mem_cons_of_mem _ h))]
            congr 1
            cases hl : alookup k kvs' with
            | none => simp [DPL.shiftHunk]
            | some v' =>
              simp only []
              have hm := hsub _ List.mem_cons_self
              have hm' := mem_of_alookup hl
              rw [ih k v hm (DES.rawDocKvs_mem hr hm) v' (DES.rawDocKvs_mem hrb hm') (p ++ [PathElem.key k]),
                ih k v hm (DES.rawDocKvs_mem hr hm) v' (DES.rawDocKvs_mem hrb hm') ([] ++ [PathElem.key k]),
                List.map_map]
              apply List.map_congr_left
              intro h _
              simp [shiftHunk_shiftHunk]
        exact key kvs (fun _ h => h)
      · rw [List.map_map]
        apply List.map_congr_left
        intro kv _
        simp [DPL.shiftHunk]
    · rw [DPL.diffNode_obj_other o kvs b (fun kvs' e => hb ⟨kvs', e⟩),
        DPL.diffNode_obj_other o kvs b (fun kvs' e => hb ⟨kvs', e⟩)]
      simp [DPL.shiftHunk]

/-! ### 4.3 hunks below a keyed member, read back from the array to the member -/

/-- **keyed frame, from the array to the member**: strict hunks `T` that do not touch the set keys,
    addressed through the keyed path element to an array in which the member `.obj kvs` is the one the
    keyed lookup finds: if they apply to the array, the result is the array with the member replaced by
    what a sub-list `E` of `T` makes of the member (`E = T` unless the code swallowed the failure of a
    nested patch, `sw = true`), and the member keeps its values under the set keys -/
theorem keyed_frame_rev (sw : Bool) (ks : List String) (po : List (String × Json))
    (hpos : keysSorted po = true) (hpok : ∀ k, (alookup k po).isSome = true → k ∈ ks)
    (pre post : List Json) (tol : Bool) (hpre : ∀ z ∈ pre, DPK.matchT tol po z = false) :
    ∀ (T : Diff), DPK.KeyFree ks T → ∀ (t : Tag), (t = .raw ∨ t = .set) →
      ∀ (kvs : List (String × Json)), keysSorted kvs = true →
      keyedTol po (pre ++ .obj kvs :: post) = tol → DPK.matchT tol po (.obj kvs) = true →
      ∀ R, patchAll sw (.arr t (pre ++ .obj kvs :: post)) (T.map (DPL.shiftHunk [.setKeys po]))
          = .ok R →
      ∃ E kvr t', E.Sublist T ∧ patchAll sw (.obj kvs) E = .ok (.obj kvr) ∧
        keysSorted kvr = true ∧ (∀ k ∈ ks, alookup k kvr = alookup k kvs) ∧
        (t' = .raw ∨ t' = .set) ∧ R = .arr t' (pre ++ .obj kvr :: post)
  | [], _, t, ht, kvs, hs, _, _, R, hR => by
    simp only [List.map_nil, patchAll, Outcome.ok.injEq] at hR
    exact ⟨[], kvs, t, List.Sublist.refl _, rfl, hs, fun _ _ => rfl, ht, hR.symm⟩
  | h :: T, hD, t, ht, kvs, hs, htol, hm, R, hR => by
    obtain ⟨hmg, k, rest, hpath, hkn⟩ := hD h List.mem_cons_self
    have hD' : DPK.KeyFree ks T := fun h' hh' => hD h' (List.mem_cons_of_mem _ hh')
    simp only [List.map_cons, patchAll, DPL.shiftHunk, hmg, hpath, List.cons_append,
      List.nil_append] at hR
    rw [DPK.patchNode_keyed sw t ht po (.key k) rest _ _ _ _ pre kvs post tol htol hpre hm,
      patchNode_obj_key] at hR
    cases hv : patchNode sw false ((alookup k kvs).getD .void) rest h.before h.remove h.add
        h.after with
    | panic => rw [hv] at hR; cases hR
    | err =>
      rw [hv] at hR
      cases sw with
      | false => cases hR
      | true =>
        simp only [if_true] at hR
        obtain ⟨E, kvr, t', e1, e2, e3, e4, e5, e6⟩ := keyed_frame_rev true ks po hpos hpok pre post
          tol hpre T hD' .set (Or.inr rfl) kvs hs htol hm R hR
        exact ⟨E, kvr, t', List.Sublist.cons h e1, e2, e3, e4, e5, e6⟩
    | ok v =>
      rw [hv] at hR
      simp only at hR
      have hs1 := DPL.keysSorted_aput k v kvs hs
      have hl1 : ∀ j ∈ ks, alookup j (DPL.aput k v kvs) = alookup j kvs := by
        intro j hj
        exact DPL.alookup_aput_ne (fun e : j = k => hkn (e ▸ hj)) v kvs
      have hl2 : ∀ j, (alookup j po).isSome = true →
          alookup j (DPL.aput k v kvs) = alookup j kvs := fun j hj => hl1 j (hpok j hj)
      have hm1 : DPK.matchT tol po (.obj (DPL.aput k v kvs)) = true := by
        rw [DPK.matchT_congr hpos hs hs1 hl2]; exact hm
      have htol1 : keyedTol po (pre ++ .obj (DPL.aput k v kvs) :: post) = tol := by
        rw [← htol, DPK.keyedTol_eq, DPK.keyedTol_eq]
        simp only [List.any_append, List.any_cons, DPK.matchT_congr hpos hs hs1 hl2]
      obtain ⟨E, kvr, t', e1, e2, e3, e4, e5, e6⟩ := keyed_frame_rev sw ks po hpos hpok pre post tol
        hpre T hD' .set (Or.inr rfl) (DPL.aput k v kvs) hs1 htol1 hm1 R hR
      refine ⟨h :: E, kvr, t', List.Sublist.cons_cons h e1, ?_, e3,
        fun j hj => by rw [e4 j hj, hl1 j hj], e5, e6⟩
      simp only [patchAll, hmg, hpath]
      rw [patchNode_obj_key, hv]
      exact e2

/-! ### 4.4 one array of keyed members: sub-lists of the sub-diffs of the members -/

/-- the local hypotheses on the two arrays (derived in `nr_node` from `DPK.KeysHyp`) -/
structure KH (o : Opts) (ks : List String) (xs ys : List Json) : Prop where
  sortedA : ∀ kvs, Json.obj kvs ∈ xs → keysSorted kvs = true
  rawA : ∀ x ∈ xs, x.rawDoc = true
  rawB : ∀ y ∈ ys, y.rawDoc = true
  kd : ((xs.filter Json.isObj).map (identOf o)).Nodup
  pf : ∀ kvs kz, Json.obj kvs ∈ xs → Json.obj kz ∈ xs → ∀ tol,
    DPK.matchT tol (DPK.pathObjOf ks kvs) (.obj kz) = true →
      identOf o (.obj kz) = identOf o (.obj kvs)
  free : ∀ kvs kvs', Json.obj kvs ∈ xs → Json.obj kvs' ∈ ys →
    identOf o (.obj kvs') = identOf o (.obj kvs) →
      DPK.KeyFree ks (diffNode o false (.obj kvs) (.obj kvs') [])

/-- the state of the array while hunks below its keyed members are applied: `G` maps every member of
    the first array to what stands in its place — itself, or, for an object, an object with the same
    values under the set keys; members whose identity is not in `done` are untouched -/
def GI (o : Opts) (ks : List String) (xs : List Json) (G : Json → Json) (done : List UInt64) : Prop :=
  ∀ x ∈ xs, (x.isObj = false ∧ G x = x) ∨
    (∃ kvs kvr, x = .obj kvs ∧ G x = .obj kvr ∧ keysSorted kvr = true ∧
      (∀ k ∈ ks, alookup k kvr = alookup k kvs) ∧ (identOf o x ∉ done → kvr = kvs))

theorem GI.mono {o : Opts} {ks : List String} {xs : List Json} {G : Json → Json}
    {done done' : List UInt64} (h : GI o ks xs G done) (hs : ∀ c ∈ done, c ∈ done') :
    GI o ks xs G done' := by
  intro x hx
  rcases h x hx with h1 | ⟨kvs, kvr, e1, e2, e3, e4, e5⟩
  · exact .inl h1
  · exact .inr ⟨kvs, kvr, e1, e2, e3, e4, fun hn => e5 (fun hc => hn (hs _ hc))⟩

/-- some member stands as what a PROPER sub-list of its sub-diff makes of it -/
def Missed (sw : Bool) (o : Opts) (xs ys : List Json) (G : Json → Json) : Prop :=
  ∃ kvs kvs' E, Json.obj kvs ∈ xs ∧ Json.obj kvs' ∈ ys ∧
    identOf o (.obj kvs') = identOf o (.obj kvs) ∧
    E.Sublist (diffNode o false (.obj kvs) (.obj kvs') []) ∧
    E ≠ diffNode o false (.obj kvs) (.obj kvs') [] ∧
    patchAll sw (.obj kvs) E = .ok (G (.obj kvs))

theorem subs_apply_sub (sw : Bool) (o : Opts) (ks : List String) (hd : dispatchTag o = .set)
    (hk : keysOf o = some ks) (xs ys : List Json) (Hy : KH o ks xs ys) :
    ∀ (ps : List (UInt64 × SetPart)), (∀ kp ∈ ps, kp ∈ diffSetElems o false [] ys xs) →
      (ps.map (·.1)).Nodup →
      ∀ (S' : Diff), S'.Sublist (ps.flatMap subOf) →
      ∀ (G : Json → Json) (done : List UInt64) (t : Tag), (t = .raw ∨ t = .set) →
      GI o ks xs G done → (∀ kp ∈ ps, kp.1 ∉ done) →
      ∀ R, patchAll sw (.arr t (xs.map G)) S' = .ok R →
      ∃ G' t', (t' = .raw ∨ t' = .set) ∧ R = .arr t' (xs.map G') ∧
        GI o ks xs G' (done ++ ps.map (·.1)) ∧
        (∀ x ∈ xs, x.isObj = true → identOf o x ∈ done → G' x = G x) ∧
        (S' ≠ ps.flatMap subOf → Missed sw o xs ys G')
  | [], _, _, S', hS, G, done, t, ht, hG, _, R, hR => by
    simp only [List.flatMap_nil, List.sublist_nil] at hS
    subst hS
    simp only [patchAll, Outcome.ok.injEq] at hR
    exact ⟨G, t, ht, hR.symm, by simpa using hG, fun _ _ _ _ => rfl, fun h => absurd rfl h⟩
  | (c, .removed z) :: ps, hps, hnd, S', hS, G, done, t, ht, hG, hdone, R, hR => by
    simp only [List.map_cons, List.nodup_cons] at hnd
    have hf : List.flatMap subOf ((c, SetPart.removed z) :: ps) = List.flatMap subOf ps := by
      simp [List.flatMap_cons, subOf]
    rw [hf] at hS ⊢
    obtain ⟨G', t', e1, e2, e3, e4, e5⟩ := subs_apply_sub sw o ks hd hk xs ys Hy ps
      (fun kp h => hps kp (List.mem_cons_of_mem _ h)) hnd.2 S' hS G done t ht hG
      (fun kp h => hdone kp (List.mem_cons_of_mem _ h)) R hR
    refine ⟨G', t', e1, e2, e3.mono (fun c' hc' => ?_), e4, e5⟩
    rcases List.mem_append.1 hc' with h | h
    · exact List.mem_append.2 (.inl h)
    · exact List.mem_append.2 (.inr (List.mem_cons_of_mem _ h))
  | (c, .sub d) :: ps, hps, hnd, S', hS, G, done, t, ht, hG, hdone, R, hR => by
    simp only [List.map_cons, List.nodup_cons] at hnd
    obtain ⟨kvs, kvs', hx, hy, hc, hid, hdd⟩ :=
      DPK.sub_origin' o false [] ys xs c d (hps _ List.mem_cons_self)
    have hcd : c ∉ done := hdone _ List.mem_cons_self
    -- the member has not been touched yet
    have hGx : G (.obj kvs) = .obj kvs := by
      rcases hG _ hx with h | ⟨k1, k2, e1, e2, _, _, e5⟩
      · simp [Json.isObj] at h
      · cases e1
        rw [e2, e5 (hc ▸ hcd)]
    -- the sub-diff is the diff of the two members, moved below the keyed element
    have hdd' : d = (diffNode o false (.obj kvs) (.obj kvs') []).map
        (DPL.shiftHunk [.setKeys (DPK.pathObjOf ks kvs)]) := by
      rw [hdd, diffNode_shift hd _ (Hy.rawA _ hx) _ (Hy.rawB _ hy), DPK.newPathSetKeys_some hk]
      rfl
    have hfl : List.flatMap subOf ((c, SetPart.sub d) :: ps) = d ++ List.flatMap subOf ps := by
      simp [List.flatMap_cons, subOf]
    rw [hfl] at hS
    obtain ⟨T1, S'', rfl, hT1, hS''⟩ := List.sublist_append_iff.1 hS
    rw [hdd'] at hT1
    obtain ⟨T, hT, rfl⟩ := List.sublist_map_iff.1 hT1
    obtain ⟨R1, hR1, hR2⟩ := patchAll_append_inv sw _ _ _ _ hR
    obtain ⟨pre0, post0, hsplit⟩ := List.append_of_mem hx
    have hsx := Hy.sortedA kvs hx
    have hkd := Hy.kd
    rw [hsplit] at hkd
    have hother := DPK.kd_split hkd (x := .obj kvs) rfl
    have hmem0 : ∀ z ∈ pre0 ++ post0, z ∈ xs := by
      intro z hz
      rw [hsplit]
      rcases List.mem_append.1 hz with h | h
      · exact List.mem_append.2 (Or.inl h)
      · exact List.mem_append.2 (Or.inr (List.mem_cons_of_mem _ h))
    have hpo_s := DPK.pathObjOf_sorted ks kvs
    have hpok : ∀ k, (alookup k (DPK.pathObjOf ks kvs)).isSome = true → k ∈ ks := by
      intro k hk'
      rw [DPK.pathObjOf_lookup] at hk'
      by_cases h : k ∈ ks
      · exact h
      · simp [h] at hk'
    have hnomatch : ∀ tl, ∀ z0 ∈ pre0 ++ post0,
        DPK.matchT tl (DPK.pathObjOf ks kvs) (G z0) = false := by
      intro tl z0 hz0
      have hz0x : z0 ∈ xs := hmem0 z0 hz0
      cases hmz : DPK.matchT tl (DPK.pathObjOf ks kvs) (G z0) with
      | false => rfl
      | true =>
        exfalso
        rcases hG z0 hz0x with h | ⟨kz, kvr, rfl, h2, h3, h4, _⟩
        · rw [h.2] at hmz
          cases z0 <;> simp [DPK.matchT, Json.isObj] at hmz h
        · rw [h2, DPK.matchT_congr hpo_s (Hy.sortedA kz hz0x) h3
            (fun k hk' => h4 k (hpok k hk'))] at hmz
          exact hother _ hz0 rfl (Hy.pf kvs kz hx hz0x tl hmz)
    have htolm : DPK.matchT (keyedTol (DPK.pathObjOf ks kvs)
          (pre0.map G ++ .obj kvs :: post0.map G)) (DPK.pathObjOf ks kvs) (.obj kvs) = true := by
      cases htl : keyedTol (DPK.pathObjOf ks kvs) (pre0.map G ++ .obj kvs :: post0.map G) with
      | true => exact DPK.matchT_true_self ks hsx
      | false =>
        rw [DPK.keyedTol_eq, Bool.not_eq_false', List.any_eq_true] at htl
        obtain ⟨z, hz, hmz⟩ := htl
        rcases List.mem_append.1 hz with hz | hz
        · obtain ⟨z0, hz0, rfl⟩ := List.mem_map.1 hz
          rw [hnomatch false z0 (List.mem_append.2 (Or.inl hz0))] at hmz
          cases hmz
        · rcases List.mem_cons.1 hz with rfl | hz
          · exact hmz
          · obtain ⟨z0, hz0, rfl⟩ := List.mem_map.1 hz
            rw [hnomatch false z0 (List.mem_append.2 (Or.inr hz0))] at hmz
            cases hmz
    have hpre : ∀ z ∈ pre0.map G,
        DPK.matchT (keyedTol (DPK.pathObjOf ks kvs) (pre0.map G ++ .obj kvs :: post0.map G))
          (DPK.pathObjOf ks kvs) z = false := by
      intro z hz
      obtain ⟨z0, hz0, rfl⟩ := List.mem_map.1 hz
      exact hnomatch _ z0 (List.mem_append.2 (Or.inl hz0))
    have hmapG : xs.map G = pre0.map G ++ .obj kvs :: post0.map G := by
      rw [hsplit, List.map_append, List.map_cons, hGx]
    have hfree := Hy.free kvs kvs' hx hy hid
    have hfreeT : DPK.KeyFree ks T := fun h hh => hfree h (hT.subset hh)
    rw [hmapG] at hR1
    obtain ⟨E, kvr, t1, f1, f2, f3, f4, f5, f6⟩ := keyed_frame_rev sw ks (DPK.pathObjOf ks kvs)
      hpo_s hpok (pre0.map G) (post0.map G) _ hpre T hfreeT t ht kvs hsx rfl htolm R1 hR1
    -- the new state
    let G1 : Json → Json := fun z => if z.isObj && identOf o z == c then .obj kvr else G z
    have hG1x : G1 (.obj kvs) = .obj kvr := by simp [G1, Json.isObj, hc]
    have hG1o : ∀ z ∈ pre0 ++ post0, G1 z = G z := by
      intro z hz
      simp only [G1]
      split
      · next hcond =>
        simp only [Bool.and_eq_true, beq_iff_eq] at hcond
        exact absurd (hcond.2.trans hc) (hother z hz hcond.1)
      · rfl
    have hmapG1 : xs.map G1 = pre0.map G ++ .obj kvr :: post0.map G := by
      rw [hsplit, List.map_append, List.map_cons, hG1x]
      congr 1
      · exact List.map_congr_left (fun z hz => hG1o z (List.mem_append.2 (Or.inl hz)))
      · congr 1
        exact List.map_congr_left (fun z hz => hG1o z (List.mem_append.2 (Or.inr hz)))
    have hG1stay : ∀ z ∈ xs, z.isObj = true → identOf o z ∈ done → G1 z = G z := by
      intro z _ _ hzd
      simp only [G1]
      split
      · next hcond =>
        simp only [Bool.and_eq_true, beq_iff_eq] at hcond
        exact absurd (hcond.2 ▸ hzd) hcd
      · rfl
    have hGI1 : GI o ks xs G1 (done ++ [c]) := by
      intro z hz
      by_cases hcond : (z.isObj && identOf o z == c) = true
      · simp only [Bool.and_eq_true, beq_iff_eq] at hcond
        have hzx : z = .obj kvs :=
          DPK.nodup_map_inj Hy.kd (List.mem_filter.2 ⟨hz, hcond.1⟩) (List.mem_filter.2 ⟨hx, rfl⟩)
            (hcond.2.trans hc)
        subst hzx
        refine .inr ⟨kvs, kvr, rfl, hG1x, f3, f4, fun hn => ?_⟩
        exact absurd (List.mem_append.2 (.inr (by simp [hc]))) hn
      · have hGz : G1 z = G z := by simp only [G1]; rw [if_neg hcond]
        rw [hGz]
        rcases hG z hz with h | ⟨kz, kzr, h1, h2, h3, h4, h5⟩
        · exact .inl h
        · exact .inr ⟨kz, kzr, h1, h2, h3, h4,
            fun hn => h5 (fun hm => hn (List.mem_append.2 (.inl hm)))⟩
    rw [f6, ← hmapG1] at hR2
    obtain ⟨G'', t', e1, e2, e3, e4, e5⟩ := subs_apply_sub sw o ks hd hk xs ys Hy ps
      (fun kp h => hps kp (List.mem_cons_of_mem _ h)) hnd.2 S'' hS'' G1 (done ++ [c]) t1 f5 hGI1
      (fun kp h hm => by
        rcases List.mem_append.1 hm with hm | hm
        · exact hdone kp (List.mem_cons_of_mem _ h) hm
        · simp only [List.mem_singleton] at hm
          exact hnd.1 (hm ▸ List.mem_map_of_mem (f := (·.1)) h)) R hR2
    refine ⟨G'', t', e1, e2, by simpa [List.append_assoc] using e3, ?_, ?_⟩
    · intro z hz hzo hzd
      rw [e4 z hz hzo (List.mem_append.2 (.inl hzd)), hG1stay z hz hzo hzd]
    · intro hne
      by_cases hT' : T = diffNode o false (.obj kvs) (.obj kvs') []
      · -- the missing hunk is further on
        have hne' : S'' ≠ List.flatMap subOf ps := by
          intro e
          apply hne
          rw [hfl, hdd', e, hT']
        exact e5 hne'
      · -- a hunk of this member is missing
        have hE : E ≠ diffNode o false (.obj kvs) (.obj kvs') [] := by
          intro e
          apply hT'
          rw [e] at f1
          exact hT.eq_of_length_le f1.length_le
        refine ⟨kvs, kvs', E, hx, hy, hid, f1.trans hT, hE, ?_⟩
        rw [e4 _ hx rfl (List.mem_append.2 (.inr (by simp [hc]))), hG1x]
        exact f2

/-! ### 4.5 equivalent members have the same identity -/

theorem identKeyHashes_congr (o : Opts) (kvs kvs' : List (String × Json)) : ∀ ks : List String,
    (∀ k ∈ ks, (alookup k kvs).map (hashCode o) = (alookup k kvs').map (hashCode o)) →
    identKeyHashes o kvs ks = identKeyHashes o kvs' ks
  | [], _ => rfl
  | k :: r, h => by
    have ih := identKeyHashes_congr o kvs kvs' r (fun k hk => h k (List.mem_cons_of_mem _ hk))
    have hk := h k List.mem_cons_self
    simp only [identKeyHashes]
    cases h1 : alookup k kvs <;> cases h2 : alookup k kvs' <;> simp [h1, h2] at hk ⊢
    · exact ih
    · exact ⟨hk, ih⟩

/-- an object `kxr` that carries the set-key values of the member `kx` of the first document and is
    equivalent (`equivB`, no hashes) to the member `ky` of the second: `kx` and `ky` have the same
    identity -/
theorem ident_of_equivB_kept (F : FloatEq0) {o : Opts} {ks : List String}
    (hd : dispatchTag o = .set) (hk : keysOf o = some ks) (hp : precOf o = 0)
    {kx kxr ky : List (String × Json)} (dx : DocOk (.obj kx)) (dy : DocOk (.obj ky))
    (hsr : keysSorted kxr = true) (hkeep : ∀ k ∈ ks, alookup k kxr = alookup k kx)
    (he : equivB o (.obj kxr) (.obj ky) = true) : identOf o (.obj kx) = identOf o (.obj ky) := by
  have hsy := dy.sorted
  rw [equivB] at he
  simp only [Bool.and_eq_true, beq_iff_eq] at he
  obtain ⟨hlen, hk'⟩ := he
  rw [equivKvs_eq_lookAll, lookAll_iff] at hk'
  have hflip := AllLook.flip hsr hsy hlen hk'
  simp only [identOf, identObj, hk]
  congr 2
  apply identKeyHashes_congr
  intro k hkk
  cases hl : alookup k kx with
  | none =>
    cases hl' : alookup k ky with
    | none => rfl
    | some v' =>
      obtain ⟨v, hv, _⟩ := hflip k v' (mem_of_alookup hl')
      rw [hkeep k hkk, hl] at hv
      cases hv
  | some v =>
    have hr : alookup k kxr = some v := by rw [hkeep k hkk, hl]
    obtain ⟨v', hv', e⟩ := hk' k v (mem_of_alookup hr)
    rw [hv']
    simp only [Option.map_some]
    congr 1
    exact equivB_hash_core F o (.inl hd) hp v v' (dx.val (mem_of_alookup hl))
      (dy.val (mem_of_alookup hv')) e

/-- two equivalent documents as read from text have the same identity -/
theorem ident_of_equivB_docs (F : FloatEq0) {o : Opts} {ks : List String}
    (hd : dispatchTag o = .set) (hk : keysOf o = some ks) (hp : precOf o = 0)
    {x y : Json} (dx : DocOk x) (dy : DocOk y) (he : equivB o x y = true) :
    identOf o x = identOf o y := by
  have hkind := DPK.equivB_isObj he
  cases x with
  | obj kx =>
    cases y with
    | obj ky => exact ident_of_equivB_kept F hd hk hp dx dy dx.sorted (fun _ _ => rfl) he
    | _ => simp [Json.isObj] at hkind
  | _ =>
    have hy : y.isObj = false := by rw [← hkind]; rfl
    rw [DES.identOf_nonobj o rfl, DES.identOf_nonobj o hy]
    exact equivB_hash_core F o (.inl hd) hp _ _ dx dy he

theorem sublist_singleton_proper {α} {l : List α} {a : α} (hs : l.Sublist [a]) (hne : l ≠ [a]) :
    l = [] := by
  cases l with
  | nil => rfl
  | cons b r =>
    exact absurd (hs.eq_of_length_le (by simp)) hne

/-- the members of the result of the set leaf are members of the array or added values -/
theorem patchSetLeaf_members {m : Opts} {s remove add : List Json} {t : Tag} {zs : List Json}
    (h : patchSetLeaf m s remove add = .ok (.arr t zs)) : ∀ z ∈ zs, z ∈ s ∨ z ∈ add := by
  rw [patchSetLeaf_eq] at h
  cases hl : setRemoveLoop m (buildMap m s []) remove with
  | err => rw [hl] at h; cases h
  | panic => rw [hl] at h; cases h
  | ok am =>
    rw [hl] at h
    simp only [Outcome.ok.injEq, Json.arr.injEq] at h
    obtain ⟨_, rfl⟩ := h
    intro z hz
    obtain ⟨p, hp, rfl⟩ := List.mem_map.1 hz
    have hp' := (ksort_perm _).mem_iff.1 hp
    rcases mem_buildMap add am hp' with h1 | h1
    · have h2 := setRemoveLoop_sub remove _ _ hl p h1
      rcases mem_buildMap s [] h2 with h3 | h3
      · cases h3
      · exact .inl h3
    · exact .inr h1

/-! ### 4.6 one array: a proper sub-list of its diff does not yield the second array -/

theorem arr_nr (F : FloatEq0) (sw : Bool) {o : Opts} {ks : List String} (hd : dispatchTag o = .set)
    (hk : keysOf o = some ks) (hp : precOf o = 0) (xs ys : List Json) (Hy : KH o ks xs ys)
    (da : DocOk (.arr .raw xs)) (db : DocOk (.arr .raw ys))
    (ih : ∀ kvs kvs', Json.obj kvs ∈ xs → Json.obj kvs' ∈ ys →
      identOf o (.obj kvs') = identOf o (.obj kvs) →
      ∀ E : Diff, E.Sublist (diffNode o false (.obj kvs) (.obj kvs') []) →
        E ≠ diffNode o false (.obj kvs) (.obj kvs') [] →
        ∀ r, patchAll sw (.obj kvs) E = .ok r → equivB o r (.obj kvs') = false)
    (D' : Diff) (hS : D'.Sublist (diffNode o false (.arr .raw xs) (.arr .raw ys) []))
    (hne : D' ≠ diffNode o false (.arr .raw xs) (.arr .raw ys) []) (r : Json)
    (hr : patchAll sw (.arr .raw xs) D' = .ok r) : equivB o r (.arr .raw ys) = false := by
  rw [diffNode_set_set hd] at hS hne
  obtain ⟨S', H', rfl, hS', hH'⟩ := List.sublist_append_iff.1 hS
  obtain ⟨R1, hR1, hR2⟩ := patchAll_append_inv sw _ _ _ _ hr
  have hGI0 : GI o ks xs id [] := by
    intro x hx
    cases x with
    | obj kvs => exact .inr ⟨kvs, kvs, rfl, rfl, Hy.sortedA kvs hx, fun _ _ => rfl, fun _ => rfl⟩
    | _ => exact .inl ⟨rfl, rfl⟩
  have hnd : ((ksort (diffSetElems o false [] ys xs)).map (·.1)).Nodup :=
    (((ksort_perm _).map (·.1)).nodup_iff).2 (DPK.parts_keys_nodup o false [] ys xs)
  have hR1' : patchAll sw (.arr .raw (xs.map id)) S' = .ok R1 := by rw [List.map_id]; exact hR1
  obtain ⟨G', t', ht', rfl, hGI, _, hmiss⟩ := subs_apply_sub sw o ks hd hk xs ys Hy
    (ksort (diffSetElems o false [] ys xs)) (fun kp h => (ksort_perm _).mem_iff.1 h) hnd S' hS'
    id [] .raw (.inl rfl) hGI0 (fun _ _ h => by cases h) R1 hR1'
  -- a member standing for `x` that is equivalent to a member `y` of the second array
  have H1 : ∀ x ∈ xs, ∀ y ∈ ys, equivB o (G' x) y = true → identOf o x = identOf o y ∧
      x.isObj = y.isObj := by
    intro x hx y hy he
    rcases hGI x hx with ⟨h1, h2⟩ | ⟨kx, kxr, rfl, h2, h3, h4, _⟩
    · rw [h2] at he
      exact ⟨ident_of_equivB_docs F hd hk hp (da.elem hx) (db.elem hy) he, DPK.equivB_isObj he⟩
    · rw [h2] at he
      have hkind := DPK.equivB_isObj he
      cases y with
      | obj ky =>
        exact ⟨ident_of_equivB_kept F hd hk hp (da.elem hx) (db.elem hy) h3 h4 he, rfl⟩
      | _ => simp [Json.isObj] at hkind
  obtain ⟨a1, a2⟩ := setAdd_spec o xs ys
  obtain ⟨r1, _, r3⟩ := RealS.rem_spec_sorted o [] xs ys
  -- the argument when a hunk below a member is missing
  have M : Missed sw o xs ys G' → ∀ zs : List Json,
      (∀ z ∈ zs, z ∈ xs.map G' ∨ z ∈ setAdd o xs ys) →
      (∀ y ∈ ys, ∃ z ∈ zs, equivB o z y = true) → False := by
    rintro ⟨kvs, kvs', E, hx, hy, hid, hE1, hE2, hE3⟩ zs hzs hcov
    have hno := ih kvs kvs' hx hy hid E hE1 hE2 _ hE3
    obtain ⟨z, hz, hez⟩ := hcov _ hy
    rcases hzs z hz with hz | hz
    · obtain ⟨x, hx', rfl⟩ := List.mem_map.1 hz
      obtain ⟨e1, e2⟩ := H1 x hx' _ hy hez
      have hxo : x.isObj = true := by rw [e2]; rfl
      have : x = .obj kvs :=
        DPK.nodup_map_inj Hy.kd (List.mem_filter.2 ⟨hx', hxo⟩) (List.mem_filter.2 ⟨hx, rfl⟩)
          (e1.trans hid)
      subst this
      rw [hez] at hno
      cases hno
    · have e := ident_of_equivB_docs F hd hk hp (db.elem (a1 z hz)) (db.elem hy) hez
      have h1 := ((a2 _).1 (List.mem_map_of_mem (f := identOf o) hz)).2
      exact h1 (by rw [e, hid]; exact List.mem_map_of_mem hx)
  cases he : equivB o r (.arr .raw ys) with
  | false => rfl
  | true =>
    exfalso
    split at hH' <;> rename_i hcond
    · -- no set hunk
      have : H' = [] := by simpa using hH'
      subst this
      simp only [patchAll, Outcome.ok.injEq] at hR2
      subst hR2
      simp only [equivB, hd, Bool.and_eq_true, allIn_iff, allCovered_iff] at he
      rw [if_pos hcond] at hne
      exact M (hmiss (fun e => hne (by rw [e]))) _ (fun z hz => .inl hz) he.2
    · rw [if_neg hcond] at hne
      by_cases hH : H' = []
      · -- the set hunk is missing
        subst hH
        simp only [patchAll, Outcome.ok.injEq] at hR2
        subst hR2
        simp only [equivB, hd, Bool.and_eq_true, allIn_iff, allCovered_iff] at he
        simp only [Bool.and_eq_true, List.isEmpty_iff, not_and] at hcond
        by_cases hrem : (ksort (diffSetElems o false [] ys xs)).filterMap remOf = []
        · have hadd := hcond hrem
          obtain ⟨w, hw⟩ := List.exists_mem_of_ne_nil _ hadd
          obtain ⟨z, hz, hez⟩ := he.2 w (a1 w hw)
          obtain ⟨x, hx', rfl⟩ := List.mem_map.1 hz
          have e := (H1 x hx' w (a1 w hw) hez).1
          exact ((a2 _).1 (List.mem_map_of_mem (f := identOf o) hw)).2
            (e ▸ List.mem_map_of_mem hx')
        · obtain ⟨z, hz⟩ := List.exists_mem_of_ne_nil _ hrem
          obtain ⟨y, hy, hey⟩ := he.1 (G' z) (List.mem_map_of_mem (r1 z hz))
          have e := (H1 z (r1 z hz) y hy hey).1
          exact ((r3 _).1 (List.mem_map_of_mem (f := identOf o) hz)).2
            (e ▸ List.mem_map_of_mem hy)
      · -- the set hunk is there: a hunk below a member is missing
        have hH2 := hH'.eq_of_length_le (by
          cases H' with
          | nil => exact absurd rfl hH
          | cons _ _ => simp)
        subst hH2
        have hmis := hmiss (fun e => hne (by rw [e]))
        simp only [patchAll, List.nil_append] at hR2
        rw [patchNode_set_leaf sw t' ht'] at hR2
        cases hleaf : patchSetLeaf [.set] (xs.map G')
            ((ksort (diffSetElems o false [] ys xs)).filterMap remOf) (setAdd o xs ys) with
        | err => rw [hleaf] at hR2; cases hR2
        | panic => rw [hleaf] at hR2; cases hR2
        | ok r' =>
          rw [hleaf] at hR2
          simp only [Outcome.ok.injEq] at hR2
          subst hR2
          have hshape : ∃ t2 zs, r' = .arr t2 zs := by
            rw [patchSetLeaf_eq] at hleaf
            split at hleaf <;> first | exact ⟨_, _, (Outcome.ok.inj hleaf).symm⟩ | cases hleaf
          obtain ⟨t2, zs, rfl⟩ := hshape
          simp only [equivB, hd, Bool.and_eq_true, allIn_iff, allCovered_iff] at he
          exact M hmis zs (patchSetLeaf_members hleaf) he.2

/-! ### 4.7 one object: the hunks below a key -/

theorem proj_diffKvs {o : Opts} (hd : dispatchTag o = .set) (k : String)
    (kvs' : List (String × Json)) (hrb : rawDocKvs kvs' = true) :
    ∀ (r : List (String × Json)), keysSorted r = true → rawDocKvs r = true →
      proj k (diffKvs o false [] kvs' r) = match alookup k r with
        | some v => (match alookup k kvs' with
            | some v' => diffNode o false v v' []
            | none => [{ path := [], remove := v.nodeList }])
        | none => []
  | [], _, _ => by simp [DE.diffKvs_nil, proj, alookup]
  | (k0, v) :: r, hs, hr => by
    simp only [rawDocKvs, Bool.and_eq_true] at hr
    have ih := proj_diffKvs hd k kvs' hrb r (keysSorted_tail hs) hr.2
    rw [DE.diffKvs_cons, proj_append, ih]
    by_cases hk : k = k0
    · subst hk
      have hnone : alookup k r = none := by
        cases hl : alookup k r with
        | none => rfl
        | some w => exact absurd (keysSorted_head_lt hs k w (mem_of_alookup hl)) (String.lt_irrefl k)
      simp only [alookup, if_true, hnone, List.append_nil]
      cases hl' : alookup k kvs' with
      | none => simp [proj, projKey]
      | some v' =>
        simp only []
        rw [diffNode_shift hd v hr.1 v' (DES.rawDocKvs_mem hrb (mem_of_alookup hl'))
          ([] ++ [PathElem.key k])]
        exact proj_map_shift_same k _
    · have hne : k0 ≠ k := fun e => hk e.symm
      simp only [alookup, hk, if_false]
      cases hl' : alookup k0 kvs' with
      | none => simp [proj, projKey, hne]
      | some v' =>
        simp only []
        rw [diffNode_shift hd v hr.1 v' (DES.rawDocKvs_mem hrb (mem_of_alookup hl'))
          ([] ++ [PathElem.key k0]), List.nil_append, proj_map_shift_ne hne, List.nil_append]

theorem proj_adds (k : String) (kvs : List (String × Json)) :
    ∀ (l : List (String × Json)), keysSorted l = true →
      proj k ((l.filter (fun kv => (alookup kv.1 kvs).isNone)).map (fun kv =>
        ({ merge := false, path := [] ++ [.key kv.1], add := kv.2.nodeList } : Hunk))) =
      match alookup k l with
      | some v' => if (alookup k kvs).isNone then [{ path := [], add := v'.nodeList }] else []
      | none => []
  | [], _ => by simp [proj, alookup]
  | (k0, v0) :: l, hs => by
    have ih := proj_adds k kvs l (keysSorted_tail hs)
    by_cases hk : k = k0
    · subst hk
      have hnone : alookup k l = none := by
        cases hl : alookup k l with
        | none => rfl
        | some w => exact absurd (keysSorted_head_lt hs k w (mem_of_alookup hl)) (String.lt_irrefl k)
      rw [hnone] at ih
      simp only [alookup, if_true, List.filter_cons]
      by_cases hP : (alookup k kvs).isNone = true
      · simp only [hP, if_true, List.map_cons]
        rw [proj_cons_same (k := k) (rest := []) (by simp), ih]
      · simp only [hP, Bool.false_eq_true, if_false]
        exact ih
    · have hne : k0 ≠ k := fun e => hk e.symm
      simp only [alookup, hk, if_false, List.filter_cons]
      by_cases hP : (alookup k0 kvs).isNone = true
      · simp only [hP, if_true, List.map_cons]
        rw [proj_cons_ne (k := k) (k0 := k0) (rest := []) (by simp) hne, ih]
      · simp only [hP, Bool.false_eq_true, if_false]
        exact ih

/-- the hunks of the diff of two objects that are addressed below the key `k` -/
theorem proj_diff_obj {o : Opts} (hd : dispatchTag o = .set) (k : String)
    {kvs kvs' : List (String × Json)} (hs : keysSorted kvs = true) (hs' : keysSorted kvs' = true)
    (hr : rawDocKvs kvs = true) (hrb : rawDocKvs kvs' = true) :
    proj k (diffNode o false (.obj kvs) (.obj kvs') []) =
      match alookup k kvs, alookup k kvs' with
      | some v, some v' => diffNode o false v v' []
      | some v, none => [{ path := [], remove := v.nodeList }]
      | none, some v' => [{ path := [], add := v'.nodeList }]
      | none, none => [] := by
  rw [DE.diffNode_obj_obj, proj_append, proj_diffKvs hd k kvs' hrb kvs hs hr, proj_adds k kvs kvs' hs']
  cases h1 : alookup k kvs <;> cases h2 : alookup k kvs' <;> simp

/-- every hunk of the diff of two objects is addressed below a key -/
theorem diff_obj_keyHeaded (o : Opts) (kvs kvs' : List (String × Json)) :
    ∀ h ∈ diffNode o false (.obj kvs) (.obj kvs') [], ∃ k rest, h.path = .key k :: rest := by
  intro h hh
  rw [DE.diffNode_obj_obj] at hh
  rcases List.mem_append.1 hh with hh | hh
  · obtain ⟨k, _, _, hpre⟩ := RealS.diffKvs_under_key o [] kvs' hh
    obtain ⟨t, e⟩ := hpre
    exact ⟨k, t, by simpa using e.symm⟩
  · obtain ⟨kv, _, rfl⟩ := List.mem_map.1 hh
    exact ⟨kv.1, [], rfl⟩

/-! ### 4.8 the induction over the first document -/

/-- **no proper sub-list of the diff yields the target** (SetKeys reading, strict strategy, the node
    `a` of the first document against the node `b` of the second): if `D'` is a sub-list of
    `diffNode o false a b []` other than the whole diff and the library's patch code applies it to
    `a`, the result is not equivalent (`equivB`, the advertised equivalence, no hashes) to `b`. -/
theorem nr_node (F : FloatEq0) (L : FloatLaws) (sw : Bool) {o : Opts} {ks : List String}
    (hd : dispatchTag o = .set) (hk : keysOf o = some ks) (hp : precOf o = 0)
    {a0 b0 : Json} (da0 : DocOk a0) (db0 : DocOk b0) (K : DPK.KeysHyp o ks a0 b0) :
    ∀ a b, Ok a → Ok b → Within (subterms a0) a → Within (subterms b0) b →
      ∀ D' : Diff, D'.Sublist (diffNode o false a b []) → D' ≠ diffNode o false a b [] →
      ∀ r, patchAll sw a D' = .ok r → equivB o r b = false := by
  have scalar : ∀ a b : Json, (∀ t xs, a ≠ .arr t xs) → (∀ kvs, a ≠ .obj kvs) →
      ∀ D' : Diff, D'.Sublist (diffNode o false a b []) → D' ≠ diffNode o false a b [] →
      ∀ r, patchAll sw a D' = .ok r → equivB o r b = false := by
    intro a b h1 h2 D' hS hne r hr
    rw [DPL.diffNode_scalar o a b h1 h2] at hS hne
    unfold diffCommon at hS hne
    split at hS
    · next heq =>
      rw [if_pos heq] at hne
      exact absurd (List.sublist_nil.1 hS) hne
    · next heq =>
      rw [if_neg heq] at hne
      simp only [Bool.false_eq_true, if_false] at hS hne
      have := sublist_singleton_proper hS hne
      subst this
      simp only [patchAll, Outcome.ok.injEq] at hr
      subst hr
      rw [SetDP.equivB_scalar_equals_nil hp h1 h2]
      simpa using heq
  have single : ∀ (a b : Json) (h0 : Hunk), diffNode o false a b [] = [h0] → equivB o a b = false →
      ∀ D' : Diff, D'.Sublist (diffNode o false a b []) → D' ≠ diffNode o false a b [] →
      ∀ r, patchAll sw a D' = .ok r → equivB o r b = false := by
    intro a b h0 e he D' hS hne r hr
    rw [e] at hS hne
    have := sublist_singleton_proper hS hne
    subst this
    simp only [patchAll, Outcome.ok.injEq] at hr
    subst hr
    exact he
  intro a
  induction a using jsonInd with
  | void => intro b _ _ _ _; exact scalar _ b (fun _ _ e => by cases e) (fun _ e => by cases e)
  | null => intro b _ _ _ _; exact scalar _ b (fun _ _ e => by cases e) (fun _ e => by cases e)
  | bool x => intro b _ _ _ _; exact scalar _ b (fun _ _ e => by cases e) (fun _ e => by cases e)
  | num x => intro b _ _ _ _; exact scalar _ b (fun _ _ e => by cases e) (fun _ e => by cases e)
  | str x => intro b _ _ _ _; exact scalar _ b (fun _ _ e => by cases e) (fun _ e => by cases e)
  | arr t xs ih =>
    intro b ha hb wa wb
    have ht := ha.raw
    subst ht
    by_cases hbb : ∃ t' ys, b = .arr t' ys
    · obtain ⟨t', ys, rfl⟩ := hbb
      have ht' := hb.raw
      subst ht'
      have Hy : KH o ks xs ys := {
        sortedA := fun kvs hx => (ha.elem hx).sorted
        rawA := fun x hx => (ha.elem hx).rawDoc
        rawB := fun y hy => (hb.elem hy).rawDoc
        kd := by
          have := K.kd _ wa.self
          simpa [DPK.nodeKeyedDistinct] using this
        pf := by
          intro kvs kz hx hz tol e
          have := K.pf _ wa.self
          simp only [DPK.nodePathFaithful, List.all_eq_true] at this
          have h2 := this _ hx _ hz
          simp only [Bool.or_eq_true, Bool.and_eq_true, Bool.not_eq_true', beq_iff_eq] at h2
          rcases h2 with h2 | h2
          · cases tol
            · rw [h2.1] at e; cases e
            · rw [h2.2] at e; cases e
          · exact h2
        free := by
          intro kvs kvs' hx hy hid
          obtain ⟨D, r, h1, _, _, _, h5⟩ := DPK.node_stepK F L sw hd hk hp da0 db0 K _ _
            (ha.elem hx) (hb.elem hy) (wa.elem hx) (wb.elem hy) []
          have hD : D.map (DPL.shiftHunk []) = D := by
            rw [List.map_congr_left (g := id) (fun h _ => shiftHunk_nil h), List.map_id]
          rw [h1, hD]
          refine h5 kvs kvs' rfl rfl (fun k hkk => ?_)
          have := K.kt _ (wa.elem hx).self _ (wb.elem hy).self
          simp only [DPK.keyTupleOK, Bool.or_eq_true, bne_iff_ne, ne_eq, List.all_eq_true,
            beq_iff_eq] at this
          rcases this with h | h
          · exact absurd hid.symm h
          · exact h k hkk }
      exact arr_nr F sw hd hk hp xs ys Hy ha.docOk hb.docOk
        (fun kvs kvs' hx hy _ => ih _ hx _ (ha.elem hx) (hb.elem hy) (wa.elem hx) (wb.elem hy))
    · refine single _ b _ (diffNode_arr_other (.inl hd) xs b (fun t' ys e => hbb ⟨t', ys, e⟩) []) ?_
      cases b <;> first | exact absurd ⟨_, _, rfl⟩ hbb | simp [equivB]
  | obj kvs ih =>
    intro b ha hb wa wb
    by_cases hbb : ∃ kvs', b = .obj kvs'
    · obtain ⟨kvs', rfl⟩ := hbb
      intro D' hS hne r hr
      have hsa := ha.sorted
      have hsb := hb.sorted
      have hra : rawDocKvs kvs = true := by simpa [Json.rawDoc] using ha.rawDoc
      have hrb : rawDocKvs kvs' = true := by simpa [Json.rawDoc] using hb.rawDoc
      -- the hunks are strict hunks below keys
      have hmerge : ∀ h ∈ diffNode o false (.obj kvs) (.obj kvs') [], h.merge = false := by
        obtain ⟨D, _, h1, h2, _⟩ := DPK.node_stepK F L sw hd hk hp da0 db0 K _ _ ha hb wa wb []
        have hD : D.map (DPL.shiftHunk []) = D := by
          rw [List.map_congr_left (g := id) (fun h _ => shiftHunk_nil h), List.map_id]
        rw [h1, hD]
        exact h2
      have hheaded := diff_obj_keyHeaded o kvs kvs'
      have hKH : KeyHeaded D' := fun h hh =>
        ⟨hmerge h (hS.subset hh), hheaded h (hS.subset hh)⟩
      obtain ⟨kvr, rfl, hsr, hproj⟩ := patchAll_obj_proj sw D' kvs r hKH hsa hr
      obtain ⟨k, hlt⟩ := exists_proj_lt hS hne hheaded
      have hsub := proj_sublist hS k
      have hpne : proj k D' ≠ proj k (diffNode o false (.obj kvs) (.obj kvs') []) :=
        fun e => by rw [e] at hlt; exact Nat.lt_irrefl _ hlt
      have hpk := hproj k
      rw [proj_diff_obj hd k hsa hsb hra hrb] at hsub hpne hlt
      cases he : equivB o (.obj kvr) (.obj kvs') with
      | false => rfl
      | true =>
        exfalso
        rw [equivB] at he
        simp only [Bool.and_eq_true, beq_iff_eq] at he
        obtain ⟨hlen, hall⟩ := he
        rw [equivKvs_eq_lookAll, lookAll_iff] at hall
        have hflip := AllLook.flip hsr hsb hlen hall
        cases h1 : alookup k kvs with
        | some v =>
          have hm := mem_of_alookup h1
          cases h2 : alookup k kvs' with
          | some v' =>
            have hm' := mem_of_alookup h2
            rw [h1, h2] at hsub hpne
            simp only [] at hsub hpne
            rw [h1] at hpk
            simp only [Option.getD_some] at hpk
            have hno := ih k v hm v' (ha.val hm).1 (hb.val hm').1 (wa.val hm) (wb.val hm')
              (proj k D') hsub hpne _ hpk
            obtain ⟨z, hz, hez⟩ := hflip k v' hm'
            rw [hz] at hno
            simp only [Option.getD_some] at hno
            have hez' : equivB o z v' = true := hez
            rw [hez'] at hno
            cases hno
          | none =>
            rw [h1, h2] at hsub hpne
            simp only [] at hsub hpne
            have := sublist_singleton_proper hsub hpne
            rw [this, h1] at hpk
            simp only [patchAll, Option.getD_some, Outcome.ok.injEq] at hpk
            have hnv := (ha.val hm).2
            cases hz : alookup k kvr with
            | none => rw [hz] at hpk; simp at hpk; rw [hpk] at hnv; simp [Json.isVoid] at hnv
            | some z =>
              obtain ⟨w, hw, _⟩ := hall k z (mem_of_alookup hz)
              rw [h2] at hw
              cases hw
        | none =>
          cases h2 : alookup k kvs' with
          | some v' =>
            have hm' := mem_of_alookup h2
            rw [h1, h2] at hsub hpne
            simp only [] at hsub hpne
            have := sublist_singleton_proper hsub hpne
            rw [this, h1] at hpk
            simp only [patchAll, Option.getD_none, Outcome.ok.injEq] at hpk
            obtain ⟨z, hz, hez⟩ := hflip k v' hm'
            rw [hz] at hpk
            simp only [Option.getD_some] at hpk
            have hez' : equivB o z v' = true := hez
            rw [← hpk] at hez'
            have := SetDP.equivB_isVoid hez'
            rw [(hb.val hm').2] at this
            simp [Json.isVoid] at this
          | none =>
            rw [h1, h2] at hlt
            simp at hlt
    · refine single _ b _ (DPL.diffNode_obj_other o kvs b (fun kvs' e => hbb ⟨kvs', e⟩) []) ?_
      cases b <;> first | exact absurd ⟨_, rfl⟩ hbb | simp [equivB]

/-! ### 4.9 the theorems for `a.Diff(b)` -/

/-- **C07 (3), SetKeys reading, general form: no proper sub-list of the diff yields the target.**
    `D'` any sub-list of `a.Diff(b)` other than the whole diff (one or several hunks left out): if the
    library's patch code (either variant `sw` of the keyed branch) applies `D'` to `a`, the result is
    not equivalent to `b` (`equivB`: the advertised equivalence, arrays as sets, no hashes). -/
theorem no_proper_sublist (F : FloatEq0) (L : FloatLaws) (sw : Bool) (o : Opts) (ks : List String)
    (hd : dispatchTag o = .set) (hk : keysOf o = some ks) (hmg : isMerge o = false)
    (hp : precOf o = 0) (a b : Json) (ha : a.setDoc = true) (hb : b.setDoc = true)
    (ha' : DPL.memOK a = true) (hb' : DPL.memOK b = true) (K : DPK.KeysHyp o ks a b)
    (D' : Diff) (hS : D'.Sublist (diffM o a b)) (hne : D' ≠ diffM o a b) (r : Json)
    (hr : patchAll sw a D' = .ok r) : equivB o r b = false := by
  rw [diffM, hmg] at hS hne
  exact nr_node F L sw hd hk hp (docOk_of_setDoc ha) (docOk_of_setDoc hb) K a b ⟨ha, ha'⟩ ⟨hb, hb'⟩
    (fun _ hz => hz) (fun _ hz => hz) D' hS hne r hr

/-- **C07 (3), SetKeys reading: no hunk is redundant.**  Leave any single hunk `h` out of
    `a.Diff(b)`: whatever the remaining hunks make of `a` (if they apply at all) is not equivalent to
    `b`. -/
theorem no_redundant_hunk (F : FloatEq0) (L : FloatLaws) (sw : Bool) (o : Opts) (ks : List String)
    (hd : dispatchTag o = .set) (hk : keysOf o = some ks) (hmg : isMerge o = false)
    (hp : precOf o = 0) (a b : Json) (ha : a.setDoc = true) (hb : b.setDoc = true)
    (ha' : DPL.memOK a = true) (hb' : DPL.memOK b = true) (K : DPK.KeysHyp o ks a b)
    (d1 d2 : Diff) (h : Hunk) (hdf : diffM o a b = d1 ++ h :: d2) (r : Json)
    (hres : patchAll sw a (d1 ++ d2) = .ok r) : equivB o r b = false := by
  refine no_proper_sublist F L sw o ks hd hk hmg hp a b ha hb ha' hb' K (d1 ++ d2) ?_ ?_ r hres
  · rw [hdf]
    exact (List.Sublist.refl d1).append (List.sublist_cons_self h d2)
  · rw [hdf]
    intro e
    have := congrArg List.length e
    simp at this

/-- the same with the hunk designated by its index: `d.eraseIdx i` -/
theorem no_redundant_hunk_eraseIdx (F : FloatEq0) (L : FloatLaws) (sw : Bool) (o : Opts)
    (ks : List String) (hd : dispatchTag o = .set) (hk : keysOf o = some ks)
    (hmg : isMerge o = false) (hp : precOf o = 0) (a b : Json) (ha : a.setDoc = true)
    (hb : b.setDoc = true) (ha' : DPL.memOK a = true) (hb' : DPL.memOK b = true)
    (K : DPK.KeysHyp o ks a b) (i : Nat) (hi : i < (diffM o a b).length) (r : Json)
    (hres : patchAll sw a ((diffM o a b).eraseIdx i) = .ok r) : equivB o r b = false := by
  refine no_proper_sublist F L sw o ks hd hk hmg hp a b ha hb ha' hb' K _
    (List.eraseIdx_sublist _ _) ?_ r hres
  intro e
  have := congrArg List.length e
  rw [List.length_eraseIdx, if_pos hi] at this
  omega

/-- the `Equals` form: if moreover the result `r` is a document on whose nodes, together with those
    of `b`, hash codes are faithful (a hypothesis on the OUTPUT: `r` contains hybrid nodes that are
    neither nodes of `a` nor of `b`), `r` is not `Equals` to `b` -/
theorem no_redundant_hunk_equals (F : FloatEq0) (L : FloatLaws) (sw : Bool) (o : Opts)
    (ks : List String) (hd : dispatchTag o = .set) (hk : keysOf o = some ks)
    (hmg : isMerge o = false) (hp : precOf o = 0) (a b : Json) (ha : a.setDoc = true)
    (hb : b.setDoc = true) (ha' : DPL.memOK a = true) (hb' : DPL.memOK b = true)
    (K : DPK.KeysHyp o ks a b) (d1 d2 : Diff) (h : Hunk) (hdf : diffM o a b = d1 ++ h :: d2)
    (r : Json) (hres : patchAll sw a (d1 ++ d2) = .ok r) (dr : DocOk r)
    (HF : HashFaithful o (subterms r ++ subterms b)) : equals o r b = false := by
  rw [SetDP.equals_eq_equivB_of F (.inl hd) hp HF dr (docOk_of_setDoc hb)
    (fun z hz => List.mem_append.2 (.inl hz)) (fun z hz => List.mem_append.2 (.inr hz))]
  exact no_redundant_hunk F L sw o ks hd hk hmg hp a b ha hb ha' hb' K d1 d2 h hdf r hres

/-! ## 5. more on (1): apart, not `Equals`, not empty -/

/-- no removed value is `Equals` to an added value of the same hunk (`FloatEq0`, `DocOk` documents) -/
theorem HunkReal.not_equals (F : FloatEq0) {o : Opts} (hd : dispatchTag o = .set)
    (hp : precOf o = 0) {a b : Json} {p : Path} {h : Hunk} (da : DocOk a) (db : DocOk b)
    (H : HunkReal o a b p h) : ∀ r ∈ h.remove, ∀ w ∈ h.add, equals o r w = false := by
  intro r hr w hw
  cases H with
  | value q u v loc hpath hmg hbf haf pres ne lit real =>
    obtain ⟨l1, l2, _, _, _, _, r7⟩ := real
    have e1 : h.remove = [r] := by
      match hrm : h.remove, l1, hr with
      | [x], _, hr => simp only [List.mem_singleton] at hr; rw [hr]
    have e2 : h.add = [w] := by
      match hrm : h.add, l2, hw with
      | [x], _, hw => simp only [List.mem_singleton] at hw; rw [hw]
    exact r7 r w e1 e2
  | set q xs ys loc hpath real =>
    have dr : DocOk r := (RealS.docOk_subterm da (loc.sub_left _ rfl)).elem (real.rem_mem r hr)
    have dw : DocOk w := (RealS.docOk_subterm db (loc.sub_right _ rfl)).elem (real.add_mem w hw)
    cases he : equals o r w with
    | false => rfl
    | true =>
      exfalso
      have hkind := DPK.equals_isObj he
      apply real.apart r hr w hw
      cases r with
      | obj kr =>
        cases w with
        | obj kw => exact DES.ident_eq_of_equals F (.inl hd) hp dr dw he
        | _ => simp [Json.isObj] at hkind
      | _ =>
        have hw' : w.isObj = false := by rw [← hkind]; rfl
        rw [DES.identOf_nonobj o rfl, DES.identOf_nonobj o hw']
        exact DES.hash_eq_of_equals F (.inl hd) hp _ _ dr dw he

/-- without void object members, a location reaches void only at a void root -/
theorem Loc.void {o : Opts} {a b : Json} {q : Path} {ou ov : Option Json} (L : Loc o a b q ou ov) :
    (DPL.memOK a = true → ou = some .void → q = [] ∧ a = .void) ∧
    (DPL.memOK b = true → ov = some .void → q = [] ∧ b = .void) := by
  induction L with
  | here a b =>
    exact ⟨fun _ e => by cases e; exact ⟨rfl, rfl⟩, fun _ e => by cases e; exact ⟨rfl, rfl⟩⟩
  | key hx hy _ ih =>
    constructor
    · intro hm e
      obtain ⟨h1, h2⟩ := RealS.memOKKvs_mem (by simpa [DPL.memOK] using hm) (mem_of_alookup hx)
      obtain ⟨_, rfl⟩ := ih.1 h2 e
      simp [Json.isVoid] at h1
    · intro hm e
      obtain ⟨h1, h2⟩ := RealS.memOKKvs_mem (by simpa [DPL.memOK] using hm) (mem_of_alookup hy)
      obtain ⟨_, rfl⟩ := ih.2 h2 e
      simp [Json.isVoid] at h1
  | onlyA hx _ =>
    constructor
    · intro hm e
      cases e
      have := (RealS.memOKKvs_mem (by simpa [DPL.memOK] using hm) (mem_of_alookup hx)).1
      simp [Json.isVoid] at this
    · intro _ e; cases e
  | onlyB _ hy =>
    constructor
    · intro _ e; cases e
    · intro hm e
      cases e
      have := (RealS.memOKKvs_mem (by simpa [DPL.memOK] using hm) (mem_of_alookup hy)).1
      simp [Json.isVoid] at this
  | member hx hy _ _ ih =>
    constructor
    · intro hm e
      have := ih.1 (RealS.memOKList_mem (by simpa [DPL.memOK] using hm) (identLookup_some hx).1) e
      cases this.2
    · intro hm e
      have := ih.2 (RealS.memOKList_mem (by simpa [DPL.memOK] using hm) (identLookup_some hy).1) e
      cases this.2

/-- **no hunk is empty** (documents without void object members) -/
theorem HunkReal.nonempty {o : Opts} {a b : Json} {p : Path} {h : Hunk}
    (ha : DPL.memOK a = true) (hb : DPL.memOK b = true) (H : HunkReal o a b p h) :
    h.remove ≠ [] ∨ h.add ≠ [] := by
  cases H with
  | set q xs ys loc hpath real => exact real.nonempty
  | value q u v loc hpath hm hbf haf pres ne lit real =>
    obtain ⟨_, _, _, _, r5, r6, _⟩ := real
    apply Classical.byContradiction
    intro hcon
    have h1 : h.remove = [] := Classical.byContradiction fun e => hcon (.inl e)
    have h2 : h.add = [] := Classical.byContradiction fun e => hcon (.inr e)
    rcases pres with hs | hs
    · obtain ⟨u0, rfl⟩ := Option.isSome_iff_exists.1 hs
      have := r5 h1 u0 rfl
      subst this
      obtain ⟨rfl, rfl⟩ := loc.void.1 ha rfl
      cases loc
      exact ne ⟨rfl, by rw [r6 h2 b rfl]⟩
    · obtain ⟨v0, rfl⟩ := Option.isSome_iff_exists.1 hs
      have := r6 h2 v0 rfl
      subst this
      obtain ⟨rfl, rfl⟩ := loc.void.2 hb rfl
      cases loc
      exact ne ⟨by rw [r5 h1 a rfl], rfl⟩

/-! ## 6. where the unhypothesised statement (2) is false -/

namespace Witness
open DPK.Witness

/-- **(2) is FALSE without `PathInj`** (class of the finding `DPK.Witness.null_completion_breaks`; the
    identities are pairwise distinct within each array, so this is INSIDE the SetKeys precondition):
    under `SetKeys("id","k")`, in `[{"id":"1"},{"id":"1","k":null}]` →
    `[{"id":"1","v":"y"},{"id":"1","k":null}]` the member `{"id":"1","k":null}` has a partner with the
    same identity that is `Equals` to it — it is even the same value — and yet the one hunk of the
    diff, `@ [{"id":"1","k":null},"v"]`, has a path through the path element of that member: the path
    object written for the member `{"id":"1"}`, which lacks `k`, is `{"id":"1","k":null}` as well. -/
theorem equal_member_mentioned_nullkey :
    Loc o2 na nb [PathElem.setKeys npo] (some n2) (some n2) ∧ equals o2 n2 n2 = true ∧
    ∃ h ∈ diffM o2 na nb, [PathElem.setKeys npo] <+: h.path := by
  refine ⟨?_, by decide +kernel, ?_⟩
  · have hp2 : newPathSetKeys o2 [("id", .str "1"), ("k", .null)] = .setKeys npo := by
      rw [DPK.newPathSetKeys_some (ks := ["id", "k"]) rfl]
      simp [DPK.pathObjOf, DPK.keyVal, alookup, ainsert]
    refine Loc.member (kvs := [("id", .str "1"), ("k", .null)])
      (kvs' := [("id", .str "1"), ("k", .null)]) ?_ ?_ hp2 (.here _ _)
    · simp [identLookup]
    · simp [identLookup]
  · rw [n_diff]
    exact ⟨_, List.mem_singleton.2 rfl, ⟨[.key "v"], rfl⟩⟩

end Witness

/-! ## 7. non-vacuity -/

namespace Example
open DPK.ExampleB

#eval diffM o2 exA exB

/-- (1) on the pair of `DPK.ExampleB` (two set keys; a member changed inside a nested array, one
    removed, two added, a scalar member replaced) -/
example (F : FloatEq0) : ∀ h ∈ diffM o2 exA exB,
    HunkReal o2 exA exB [] h ∧ (h.remove ≠ [] ∨ h.add ≠ []) ∧
      ∀ r ∈ h.remove, ∀ w ∈ h.add, equals o2 r w = false := fun h hh =>
  have sa := ex_docs.1
  have sb := ex_docs.2.1
  have H := diffM_hunk_real (o := o2) rfl rfl rfl (SetDP.Ok.rawDoc ⟨sa, ex_docs.2.2.1⟩)
    (SetDP.Ok.wf ⟨sa, ex_docs.2.2.1⟩) (SetDP.Ok.rawDoc ⟨sb, ex_docs.2.2.2⟩)
    (SetDP.Ok.wf ⟨sb, ex_docs.2.2.2⟩) h hh
  ⟨H, H.nonempty ex_docs.2.2.1 ex_docs.2.2.2,
    H.not_equals F rfl rfl (docOk_of_setDoc sa) (docOk_of_setDoc sb)⟩

/-- the hypothesis of (2) on the pair -/
theorem ex_pathInj : PathInj o2 (subterms exA) :=
  pathInj_of_pathFaithful (ks := ["id", "k"]) rfl (docOk_of_setDoc ex_docs.1) ex_keysHyp.pf

/-- (3) on the pair: whatever hunk is left out, both variants of the patch code -/
example (F : FloatEq0) (L : FloatLaws) (sw : Bool) (d1 d2 : Diff) (h : Hunk)
    (hdf : diffM o2 exA exB = d1 ++ h :: d2) (r : Json)
    (hres : patchAll sw exA (d1 ++ d2) = .ok r) : equivB o2 r exB = false :=
  no_redundant_hunk F L sw o2 ["id", "k"] rfl rfl rfl rfl exA exB ex_docs.1 ex_docs.2.1
    ex_docs.2.2.1 ex_docs.2.2.2 ex_keysHyp d1 d2 h hdf r hres

-- the remaining hunks do apply on the example: the statement is not vacuous
#eval (List.range (diffM o2 exA exB).length).map
  (fun i => (patchAll true exA ((diffM o2 exA exB).eraseIdx i)).isOk)

end Example

namespace Example2

def o1 : Opts := [.setKeys ["id"]]
abbrev m1 : List (String × Json) := [("id", .str "1"), ("v", .str "x")]
abbrev m2 : List (String × Json) := [("id", .str "2"), ("v", .str "p")]
abbrev m2' : List (String × Json) := [("id", .str "2"), ("v", .str "q")]
/-- `[{"id":"1","v":"x"},{"id":"2","v":"p"}]` -/
def eA : Json := .arr .raw [.obj m1, .obj m2]
/-- `[{"id":"2","v":"q"},{"id":"1","v":"x"}]`: the member `1` is unchanged, the member `2` changed -/
def eB : Json := .arr .raw [.obj m2', .obj m1]

theorem e_ne : (identOf o1 (.obj m2) == identOf o1 (.obj m1)) = false := by decide +kernel

theorem e_loc : Loc o1 eA eB [newPathSetKeys o1 m1] (some (.obj m1)) (some (.obj m1)) :=
  .member (by simp [identLookup, e_ne]) (by simp [identLookup]) rfl (.here _ _)

theorem e_docs : eA.setDoc = true ∧ eB.setDoc = true := by decide

theorem e_pathInj : PathInj o1 (subterms eA) :=
  pathInj_of_pathFaithful (ks := ["id"]) rfl (docOk_of_setDoc e_docs.1)
    (DPK.pathFaithful_of_check (by decide +kernel))

#eval diffM o1 eA eB

/-- (2) on the pair: the unchanged member `{"id":"1","v":"x"}` is not mentioned (the diff is not empty:
    it has the hunk below the member `2`, see the `#eval`) -/
example (F : FloatEq0) : ∀ h ∈ diffM o1 eA eB, ¬ [newPathSetKeys o1 m1] <+: h.path :=
  diffM_equal_subdoc_not_mentioned F (o := o1) rfl rfl rfl (docOk_of_setDoc e_docs.1)
    (docOk_of_setDoc e_docs.2) e_pathInj e_loc (by decide +kernel)
    (DES.diffFaithful_of_check (by decide +kernel))
    (DES.Example.kindSepH_of_check (by decide +kernel))
    (DES.Example.identInj_of_check (by decide +kernel))

end Example2

/-! ## axioms -/

#print axioms hunk_real
#print axioms diffM_hunk_real
#print axioms HunkReal.not_equals
#print axioms HunkReal.nonempty
#print axioms Loc.getAt
#print axioms pathInj_of_pathFaithful
#print axioms equal_subdoc_not_mentioned
#print axioms diffM_equal_subdoc_not_mentioned
#print axioms equal_member_not_mentioned
#print axioms diffNode_shift
#print axioms patchAll_obj_proj
#print axioms keyed_frame_rev
#print axioms subs_apply_sub
#print axioms arr_nr
#print axioms nr_node
#print axioms no_proper_sublist
#print axioms no_redundant_hunk
#print axioms no_redundant_hunk_eraseIdx
#print axioms no_redundant_hunk_equals
#print axioms Witness.equal_member_mentioned_nullkey
#print axioms Example.ex_pathInj

end Jd.RealK
