/-
  JdProofs.MergeSetModes — property C11 (the rendered RFC 7386 output means the same as the merge
  diff) for SET+MERGE and MULTISET+MERGE, v2 library. Everything lives in the namespace `Jd.MSet`.
  Companion of JdProofs.MergeProofs (`Jd.Merge`: the list reading); its lemmas on merge hunks
  (`mset`, `mapply`, `mapply_groups`), on `renderMergeDoc` / `patchAll` in merge mode and on RFC 7386
  `mergePatch` (`alookup_mergeMembers`, `mergePatch_copy`) are reused as they are.

  THE NEW POINT versus the list reading. Where `a` and `b` hold arrays that are `Equal` as sets (bags)
  but not as lists, the merge diff says nothing and `MergePatch` keeps `a`'s array: the result is `b`
  only under the set (bag) reading. `Example.ex_run_set` / `ex_run_mset` show it on a concrete pair:
  the result `Equals` `b` and is `equivB`-equivalent to it under `[SET, MERGE]`, and is NOT equivalent
  to it under the list reading `[MERGE]`. Arrays that are not `Equal` are replaced wholesale by the
  TYPED node (`jsonSet` / `jsonMultiset`, here `.arr (dispatchTag o) ys`) the second array was
  dispatched to; both relations see through the tag.

  MAIN THEOREMS (stage C, the full domain below, reached)
    * `merge_render_correct_setmodes`: for options `o` with `isMerge o`, `dispatchTag o = .set` or
      `.mset`, `keysOf o = none`, `precOf o = 0`; documents `a b` with `setDoc`, `b` null-free and
      without void members; `HashFaithful o (subterms a ++ subterms b)`; `equals o a b = false`:
        ∃ m, renderMergeDoc (diffM o a b) = .ok m ∧
             equals o (mergePatch a m) b = true ∧ equivB o (mergePatch a m) b = true.
      `merge_render_correct_SET_MERGE`, `merge_render_correct_MULTISET_MERGE`: the same for the
      option lists `[.set, .merge]` and `[.mset, .merge]` themselves.
    * `merge_render_correct_setmodes_obj`: without `a ≠ b` when `a` is an object (empty diff → `{}`).
    * `merge_render_doc_setmodes`: the rendered document is never void and never `null`.
    * `renderMergeDoc_diffM_setmodes`, `diffNode_eq_ds`: the library's merge diff in the set modes is
      the pure function `ds` hunk by hunk, and `RenderMerge` applies its hunks to nothing.
    * `diffNode_merge_nil_of_equivB`: equivalent documents have an EMPTY merge diff in the set modes
      (the merge strategy hands `Equal` arrays to the strict set / multiset diff:
      `diffNode_merge_arr_eq`, `diffNode_merge_set_eq`, `diffNode_merge_mset_eq`).
    * `sound`: the induction (per pair of sub-documents: empty diff ⇒ related; non-empty diff ⇒ the
      patch document is proper and RFC 7386 produces a related document), relation
      `Rel o x b := equals o x b = true ∧ equivB o x b = true`.

  HYPOTHESES and why
    * `isMerge o`, `dispatchTag o = .set ∨ .mset`, `keysOf o = none`, `precOf o = 0`: the reading of
      the property (SET / MULTISET with MERGE, no SetKeys, no Precision: hash codes ignore both).
    * `a.setDoc`, `b.setDoc` (decidable): plain arrays, sorted unique keys, finite numbers, no `-0`:
      documents as read from JSON text. `a` may contain `null`s (they are overwritten or deleted).
    * `b.nullFree`, `objVoidFree b` (decidable): a `null` in `b` would be read as "delete" by RFC 7386
      (the domain of C11); void stands for "absent" and is not a JSON value.
    * `FloatLaws` (`|x - x| ≤ +0`) for reflexivity of `Equals` on the values copied from `b`;
      `FloatEq0` (`|x - y| ≤ +0` only for `x = y`) for "equivalent numbers have equal hash codes".
    * `HashFaithful o (subterms a ++ subterms b)`: equal hash codes only for equivalent nodes.
      IS A HASH HYPOTHESIS NEEDED FOR THE `equals` FORM? Yes, but only against genuine FNV collisions:
      the merge diff decides "array unchanged" by the same `Equals` the conclusion uses, BUT for
      arrays it takes for equal it does not stop: it runs the strict set / multiset diff, which works
      identity by identity. If the combined hash codes collide while the identities differ, that
      diff contains a non-merge hunk and `RenderMerge` returns an error:
      `render_err_of_collision_set`, `render_err_of_collision_mset` (conditional: no concrete 64-bit
      FNV collision is exhibited). Pre-image ALIASES (known finding KF-C04-alias) do not break the
      `equals` form but do break the `equivB` form: `Example.alias_needs_hashFaithful`
      (`{"k":[[]]}` → `{"k":[""],"z":true}`: the patch is `{"z":true}`, the result `Equals` `b`
      and is not equivalent to it).
  No statement of the task was found false inside this domain.
-/
import JdModel
import JdSpec
import JdProofs.Common
import JdProofs.EqualsSet
import JdProofs.DiffEmpty
import JdProofs.MergeProofs
import JdProofs.SetDiffPatch

namespace Jd.MSet
open Jd Jd.Spec Jd.Merge

/-! ## 1. the merge-strategy diff of two arrays in the set modes -/

theorem equals_set_tag {o : Opts} (hd : dispatchTag o = .set) (xs ys : List Json) :
    equals o (.arr .set xs) (.arr .set ys) = equals o (.arr .raw xs) (.arr .raw ys) := by
  simp [equals, effTag, Json.dispatch, hd]

theorem equals_mset_tag {o : Opts} (hd : dispatchTag o = .mset) (xs ys : List Json) :
    equals o (.arr .mset xs) (.arr .mset ys) = equals o (.arr .raw xs) (.arr .raw ys) := by
  simp [equals, effTag, Json.dispatch, hd]

/-- arrays that `Equals` tells apart are replaced wholesale (the hunk carries the typed node) -/
theorem diffNode_merge_arr_ne {o : Opts} (hm : dispatchTag o = .set ∨ dispatchTag o = .mset)
    (xs ys : List Json) (p : Path) (he : equals o (.arr .raw xs) (.arr .raw ys) = false) :
    diffNode o true (.arr .raw xs) (.arr .raw ys) p =
      [{ merge := true, path := p, add := [.arr (dispatchTag o) ys] }] := by
  rw [diffNode.eq_def]
  rcases hm with hd | hd
  · rw [← equals_set_tag hd] at he
    simp [effTag, hd, Json.dispatch, he, Json.nodeList, Json.isVoid]
  · rw [← equals_mset_tag hd] at he
    simp [effTag, hd, Json.dispatch, he, Json.nodeList, Json.isVoid]

theorem diffNode_merge_set_eq {o : Opts} (hd : dispatchTag o = .set) (xs ys : List Json) (p : Path)
    (he : equals o (.arr .raw xs) (.arr .raw ys) = true) :
    diffNode o true (.arr .raw xs) (.arr .raw ys) p =
      (ksort (diffSetElems o true p ys xs)).flatMap SetDP.subOf ++
        (if ((ksort (diffSetElems o true p ys xs)).filterMap SetDP.remOf).isEmpty &&
            (SetDP.setAdd o xs ys).isEmpty then []
         else [{ path := p ++ [.set],
                 remove := (ksort (diffSetElems o true p ys xs)).filterMap SetDP.remOf,
                 add := SetDP.setAdd o xs ys }]) := by
  rw [← equals_set_tag hd] at he
  rw [diffNode.eq_def]
  simp only [effTag, hd, Json.dispatch, beq_self_eq_true, if_true, he, Bool.not_true,
    Bool.and_false, Bool.false_eq_true, if_false]
  rfl

theorem diffNode_merge_mset_eq {o : Opts} (hd : dispatchTag o = .mset) (xs ys : List Json)
    (p : Path) (he : equals o (.arr .raw xs) (.arr .raw ys) = true) :
    diffNode o true (.arr .raw xs) (.arr .raw ys) p =
      if (SetDP.bagSurplus o xs ys).isEmpty && (SetDP.bagSurplus o ys xs).isEmpty then []
      else [{ path := p ++ [.mset], remove := SetDP.bagSurplus o xs ys,
              add := SetDP.bagSurplus o ys xs }] := by
  rw [← equals_mset_tag hd] at he
  rw [diffNode.eq_def]
  simp only [effTag, hd, Json.dispatch, beq_self_eq_true, if_true, he, Bool.not_true,
    Bool.and_false, Bool.false_eq_true, if_false]
  rfl

/-- per element, the parts of the set diff do not depend on the strategy when the sub-diffs of
    OBJECT members with equal identities do not (only those are sub-diffed) -/
theorem diffSetElems_merge_eq (o : Opts) (p : Path) (ys : List Json) :
    ∀ xs : List Json,
      (∀ kvs kvs', Json.obj kvs ∈ xs → Json.obj kvs' ∈ ys →
        identOf o (.obj kvs) = identOf o (.obj kvs') →
        ∀ q, diffNode o true (.obj kvs) (.obj kvs') q = diffNode o false (.obj kvs) (.obj kvs') q) →
      diffSetElems o true p ys xs = diffSetElems o false p ys xs
  | [], _ => by rw [diffSetElems.eq_def, diffSetElems.eq_def]
  | x :: r, H => by
    have ih := diffSetElems_merge_eq o p ys r
      (fun kvs kvs' hx' => H kvs kvs' (List.mem_cons_of_mem _ hx'))
    rw [diffSetElems.eq_def, SetDP.diffSetElems_cons]
    simp only [ih]
    split
    · rfl
    · cases hl : identLookup o (identOf o x) ys with
      | none => rfl
      | some y =>
        obtain ⟨hy, hid⟩ := SetDP.identLookup_some hl
        cases x with
        | obj kvs =>
          cases y with
          | obj kvs' =>
            have := H kvs kvs' List.mem_cons_self hy hid.symm
            simp only [this]
          | _ => rfl
        | _ => rfl

/-- arrays that are `Equal`: the merge strategy runs the strict set / multiset diff -/
theorem diffNode_merge_arr_eq {o : Opts} (hm : dispatchTag o = .set ∨ dispatchTag o = .mset)
    (xs ys : List Json) (p : Path) (he : equals o (.arr .raw xs) (.arr .raw ys) = true)
    (H : ∀ kvs kvs', Json.obj kvs ∈ xs → Json.obj kvs' ∈ ys →
        identOf o (.obj kvs) = identOf o (.obj kvs') →
        ∀ q, diffNode o true (.obj kvs) (.obj kvs') q = diffNode o false (.obj kvs) (.obj kvs') q) :
    diffNode o true (.arr .raw xs) (.arr .raw ys) p
      = diffNode o false (.arr .raw xs) (.arr .raw ys) p := by
  rcases hm with hd | hd
  · rw [SetDP.diffNode_set_set hd, ← diffSetElems_merge_eq o p ys xs H]
    rw [← equals_set_tag hd] at he
    rw [diffNode.eq_def]
    simp only [effTag, hd, Json.dispatch, beq_self_eq_true, if_true, he, Bool.not_true,
      Bool.and_false, Bool.false_eq_true, if_false]
    rfl
  · rw [SetDP.diffNode_mset_mset hd]
    rw [← equals_mset_tag hd] at he
    rw [diffNode.eq_def]
    simp only [effTag, hd, Json.dispatch, beq_self_eq_true, if_true, he, Bool.not_true,
      Bool.and_false, Bool.false_eq_true, if_false]
    rfl

/-! ## 2. equivalent documents have an empty merge diff (set modes) -/

theorem diffNode_merge_nil_of_equivB (F : FloatEq0) {o : Opts}
    (hm : dispatchTag o = .set ∨ dispatchTag o = .mset) (hk : keysOf o = none) (hp : precOf o = 0)
    {S : List Json} (HF : HashFaithful o S) :
    ∀ a b, DocOk a → DocOk b → SetDP.Within S a → SetDP.Within S b → equivB o a b = true →
      ∀ p, diffNode o true a b p = [] := by
  have scalar : ∀ a b : Json, (∀ t xs, a ≠ .arr t xs) → (∀ kvs, a ≠ .obj kvs) →
      equivB o a b = true → ∀ p, diffNode o true a b p = [] := by
    intro a b h1 h2 h p
    rw [DE.diffNode_scalar o true a b h1 h2 p, diffCommon_nil_iff,
      ← SetDP.equivB_scalar_equals_nil hp h1 h2]
    exact h
  intro a
  induction a using jsonInd with
  | void => intro b _ _ _ _ h; exact scalar _ b (fun _ _ e => by cases e) (fun _ e => by cases e) h
  | null => intro b _ _ _ _ h; exact scalar _ b (fun _ _ e => by cases e) (fun _ e => by cases e) h
  | bool x => intro b _ _ _ _ h; exact scalar _ b (fun _ _ e => by cases e) (fun _ e => by cases e) h
  | num x => intro b _ _ _ _ h; exact scalar _ b (fun _ _ e => by cases e) (fun _ e => by cases e) h
  | str x => intro b _ _ _ _ h; exact scalar _ b (fun _ _ e => by cases e) (fun _ e => by cases e) h
  | arr t xs ih =>
    intro b ha hb wa wb h p
    cases b with
    | arr t' ys =>
      have ht := ha.raw
      have ht' := hb.raw
      subst ht ht'
      have he : equals o (.arr .raw xs) (.arr .raw ys) = true := by
        rw [SetDP.equals_eq_equivB_of F hm hp HF ha hb wa wb]; exact h
      have H : ∀ kvs kvs', Json.obj kvs ∈ xs → Json.obj kvs' ∈ ys →
          identOf o (.obj kvs) = identOf o (.obj kvs') →
          ∀ q, diffNode o true (.obj kvs) (.obj kvs') q
            = diffNode o false (.obj kvs) (.obj kvs') q := by
        intro kvs kvs' hx hy e q
        rw [identOf_eq_hashCode hk, identOf_eq_hashCode hk] at e
        have hxy := HF _ (wa.elem hx).self _ (wb.elem hy).self e
        rw [ih _ hx _ (ha.elem hx) (hb.elem hy) (wa.elem hx) (wb.elem hy) hxy q,
          SetDP.diffNode_nil_of_equivB F hm hk hp HF _ _ (ha.elem hx) (hb.elem hy) (wa.elem hx)
            (wb.elem hy) hxy q]
      rw [diffNode_merge_arr_eq hm xs ys p he H]
      exact SetDP.diffNode_nil_of_equivB F hm hk hp HF _ _ ha hb wa wb h p
    | _ => simp [equivB] at h
  | obj kvs ih =>
    intro b ha hb wa wb h p
    cases b with
    | obj kvs' =>
      have hs := ha.sorted
      have hs' := hb.sorted
      simp only [equivB, Bool.and_eq_true, beq_iff_eq, equivKvs_eq_lookAll, lookAll_iff] at h
      have hflip := AllLook.flip hs hs' h.1 h.2
      have hkv : ∀ r : List (String × Json), (∀ kv ∈ r, kv ∈ kvs) →
          diffKvs o true p kvs' r = [] := by
        intro r
        induction r with
        | nil => intro _; exact DE.diffKvs_nil o true p kvs'
        | cons kv r ihr =>
          intro hsub
          obtain ⟨k, v⟩ := kv
          have hm1 : (k, v) ∈ kvs := hsub _ List.mem_cons_self
          obtain ⟨v', hl, he⟩ := h.2 k v hm1
          have hm2 := mem_of_alookup hl
          rw [DE.diffKvs_cons, ihr (fun kv hh => hsub kv (List.mem_cons_of_mem _ hh)), hl]
          simp only [List.append_nil]
          exact ih k v hm1 v' (ha.val hm1) (hb.val hm2) (wa.val hm1) (wb.val hm2) he _
      rw [DE.diffNode_obj_obj, hkv kvs (fun _ hh => hh),
        filter_added_nil (kvs := kvs) (kvs' := kvs') (fun k' v' hm' => by
          obtain ⟨w, hl, _⟩ := hflip k' v' hm'
          simp [hl])]
      rfl
    | _ => simp [equivB] at h

/-! ## 3. the merge-strategy diff, purely (set / multiset reading of arrays) -/

mutual
/-- `diffNode o true a b p` on documents as read from text, in the set modes: relative key paths and
    bare values (`void` = delete). Arrays that `Equals` tells apart are replaced by the TYPED node
    (`jsonSet` / `jsonMultiset`) the second array was dispatched to. -/
def ds (o : Opts) : Json → Json → List (List String × Json)
  | .obj kvs, b =>
    match b with
    | .obj kvs' =>
      dsKvs o kvs' kvs ++
        (kvs'.filter (fun kv => (alookup kv.1 kvs).isNone)).map (fun kv => ([kv.1], kv.2))
    | _ => [([], b)]
  | .arr _ xs, b =>
    match b with
    | .arr _ ys =>
      if equals o (.arr .raw xs) (.arr .raw ys) then [] else [([], .arr (dispatchTag o) ys)]
    | _ => [([], b)]
  | a, b => if equals [] a b then [] else [([], b)]
def dsKvs (o : Opts) (kvs' : List (String × Json)) :
    List (String × Json) → List (List String × Json)
  | [] => []
  | (k, v) :: r =>
    (match alookup k kvs' with
     | some v' => (ds o v v').map (consE k)
     | none => [([k], .void)]) ++ dsKvs o kvs' r
end

theorem ds_obj_obj (o : Opts) (kvs kvs' : List (String × Json)) :
    ds o (.obj kvs) (.obj kvs') = dsKvs o kvs' kvs ++
      (kvs'.filter (fun kv => (alookup kv.1 kvs).isNone)).map (fun kv => ([kv.1], kv.2)) := by
  simp [ds]

theorem ds_obj_other (o : Opts) (kvs : List (String × Json)) {b : Json} (hb : b.isObj = false) :
    ds o (.obj kvs) b = [([], b)] := by
  cases b <;> simp_all [ds, Json.isObj]

theorem ds_arr_arr (o : Opts) (t t' : Tag) (xs ys : List Json) :
    ds o (.arr t xs) (.arr t' ys)
      = if equals o (.arr .raw xs) (.arr .raw ys) then [] else [([], .arr (dispatchTag o) ys)] := by
  simp [ds]

theorem ds_arr_other (o : Opts) (t : Tag) (xs : List Json) {b : Json} (hb : Merge.isArr b = false) :
    ds o (.arr t xs) b = [([], b)] := by
  cases b <;> simp_all [ds, Merge.isArr]

theorem ds_scalar (o : Opts) {a : Json} (h1 : a.isObj = false) (h2 : Merge.isArr a = false)
    (b : Json) : ds o a b = if equals [] a b then [] else [([], b)] := by
  cases a <;> simp_all [ds, Json.isObj, Merge.isArr]

theorem dsKvs_nil (o : Opts) (kvs' : List (String × Json)) : dsKvs o kvs' [] = [] := by
  simp [dsKvs]

theorem dsKvs_cons (o : Opts) (kvs' : List (String × Json)) (k : String) (v : Json)
    (r : List (String × Json)) :
    dsKvs o kvs' ((k, v) :: r) =
      (match alookup k kvs' with
       | some v' => (ds o v v').map (consE k)
       | none => [([k], .void)]) ++ dsKvs o kvs' r := by
  simp [dsKvs]

theorem diffNode_merge_arr_other {o : Opts} (hm : dispatchTag o = .set ∨ dispatchTag o = .mset)
    (xs : List Json) (b : Json) (hb : Merge.isArr b = false) (p : Path) :
    diffNode o true (.arr .raw xs) b p = [{ merge := true, path := p, add := [b] }] := by
  rw [diffNode.eq_def]
  rcases hm with hd | hd <;> cases b <;>
    simp_all [effTag, Json.dispatch, Merge.isArr]

/-- the library's merge diff is `ds`, hunk by hunk -/
theorem diffNode_eq_ds (F : FloatEq0) {o : Opts}
    (hm : dispatchTag o = .set ∨ dispatchTag o = .mset) (hk : keysOf o = none) (hp : precOf o = 0)
    {S : List Json} (HF : HashFaithful o S) :
    ∀ a b, DocOk a → DocOk b → SetDP.Within S a → SetDP.Within S b → objVoidFree b = true →
      ∀ q : List String,
        diffNode o true a b (q.map .key) = (ds o a b).map (fun e => mh (q ++ e.1) e.2) := by
  have scalar : ∀ a b : Json, a.isObj = false → Merge.isArr a = false → ∀ q : List String,
      diffNode o true a b (q.map .key) = (ds o a b).map (fun e => mh (q ++ e.1) e.2) := by
    intro a b h1 h2 q
    rw [Merge.diffNode_scalar o h1 h2, ds_scalar o h1 h2, diffCommon]
    split <;> simp [mh]
  intro a
  induction a using jsonInd with
  | void => intro b _ _ _ _ _ q; exact scalar _ b rfl rfl q
  | null => intro b _ _ _ _ _ q; exact scalar _ b rfl rfl q
  | bool x => intro b _ _ _ _ _ q; exact scalar _ b rfl rfl q
  | num x => intro b _ _ _ _ _ q; exact scalar _ b rfl rfl q
  | str x => intro b _ _ _ _ _ q; exact scalar _ b rfl rfl q
  | arr t xs _ =>
    intro b ha hb wa wb hv q
    have ht := ha.raw
    subst ht
    cases b with
    | arr t' ys =>
      have ht' := hb.raw
      subst ht'
      rw [ds_arr_arr]
      cases he : equals o (.arr .raw xs) (.arr .raw ys) with
      | true =>
        have heq : equivB o (.arr .raw xs) (.arr .raw ys) = true := by
          rw [← SetDP.equals_eq_equivB_of F hm hp HF ha hb wa wb]; exact he
        rw [diffNode_merge_nil_of_equivB F hm hk hp HF _ _ ha hb wa wb heq]
        simp
      | false =>
        rw [diffNode_merge_arr_ne hm xs ys _ he]
        simp [mh]
    | _ => rw [diffNode_merge_arr_other hm xs _ rfl, ds_arr_other o _ xs rfl]; simp [mh]
  | obj kvs ih =>
    intro b ha hb wa wb hv q
    cases b with
    | obj kvs' =>
      simp only [objVoidFree] at hv
      have hkv : ∀ r : List (String × Json), (∀ kv ∈ r, kv ∈ kvs) →
          diffKvs o true (q.map .key) kvs' r
            = (dsKvs o kvs' r).map (fun e => mh (q ++ e.1) e.2) := by
        intro r
        induction r with
        | nil => intro _; rw [DE.diffKvs_nil, dsKvs_nil]; rfl
        | cons kv r ihr =>
          intro hsub
          obtain ⟨k, v⟩ := kv
          have hm1 : (k, v) ∈ kvs := hsub _ List.mem_cons_self
          rw [DE.diffKvs_cons, dsKvs_cons, List.map_append,
            ihr (fun kv hh => hsub kv (List.mem_cons_of_mem _ hh))]
          congr 1
          cases hl : alookup k kvs' with
          | none => simp [mh]
          | some v' =>
            have hm2 := mem_of_alookup hl
            have := ih k v hm1 v' (ha.val hm1) (hb.val hm2) (wa.val hm1) (wb.val hm2)
              (alookup_objVoidFree hl hv) (q ++ [k])
            simp only [List.map_append, List.map_cons, List.map_nil] at this
            simp only [this]
            simp [consE, Function.comp_def]
      rw [DE.diffNode_obj_obj, ds_obj_obj, List.map_append, hkv kvs (fun _ hh => hh),
        additions_eq q kvs kvs' hv]
    | _ =>
      rw [diffNode.eq_def, ds_obj_other o kvs rfl]; simp [mh]

/-! ## 4. rendering the merge diff -/

/-- `RenderMerge` of a list of merge hunks with key paths: `void` becomes `null`, then the hunks are
    applied to nothing -/
theorem renderMergeDoc_mh (l : List (List String × Json)) :
    renderMergeDoc (l.map (fun e => mh e.1 e.2))
      = .ok (if l = [] then .obj [] else mapply (l.map nulE) .void) := by
  unfold renderMergeDoc
  cases l with
  | nil => simp
  | cons e l =>
    have h1 : ((e :: l).map (fun e => mh e.1 e.2)).isEmpty = false := by simp
    have h2 : ((e :: l).map (fun e => mh e.1 e.2)).any (fun h => !h.merge) = false := by
      simp [mh]
    rw [h1, h2]
    simp only [Bool.false_eq_true, if_false, List.map_map]
    have h3 : ((fun h : Hunk => { h with add := h.add.map (fun v => if v.isVoid then Json.null else v) })
        ∘ fun e : List String × Json => mh e.1 e.2) = (fun e => mh e.1 e.2) ∘ nulE := by
      funext e; simp [mh, nulE]
    rw [h3, ← List.map_map, patchAll_mh]
    simp

/-- the hunks of the merge diff as `RenderMerge` applies them -/
def rs (o : Opts) (a b : Json) : List (List String × Json) := (ds o a b).map nulE

/-- the hunks for a key of the first object -/
def grpS (o : Opts) (kvs' : List (String × Json)) (k : String) (v : Json) :
    List (List String × Json) :=
  match alookup k kvs' with
  | some v' => rs o v v'
  | none => [([], .null)]

def groupsS (o : Opts) (kvs' kvs : List (String × Json)) :
    List (String × List (List String × Json)) :=
  kvs.map (fun kv => (kv.1, grpS o kvs' kv.1 kv.2))

theorem dsKvs_groups (o : Opts) (kvs' : List (String × Json)) :
    ∀ kvs : List (String × Json), (dsKvs o kvs' kvs).map nulE = flatG (groupsS o kvs' kvs)
  | [] => by simp [dsKvs, groupsS, flatG]
  | (k, v) :: r => by
    have ih := dsKvs_groups o kvs' r
    rw [dsKvs, List.map_append, ih]
    have : flatG (groupsS o kvs' ((k, v) :: r))
        = (grpS o kvs' k v).map (consE k) ++ flatG (groupsS o kvs' r) := by
      simp [flatG, groupsS]
    rw [this]
    congr 1
    unfold grpS
    cases alookup k kvs' with
    | none => simp [nulE, consE, Json.isVoid]
    | some v' => simp only [nulE_consE]; rfl

theorem rs_obj_obj (o : Opts) (kvs kvs' : List (String × Json))
    (hv : objVoidFreeKvs kvs' = true) :
    rs o (.obj kvs) (.obj kvs') = flatG (groupsS o kvs' kvs ++ groupsB kvs kvs') := by
  rw [rs, ds_obj_obj, List.map_append, dsKvs_groups, additions_groups kvs kvs' hv, flatG_append]

theorem groupsS_lookup (o : Opts) (kvs kvs' : List (String × Json)) (j : String) :
    alookup j (groupsS o kvs' kvs ++ groupsB kvs kvs') = match alookup j kvs with
      | some v => some (grpS o kvs' j v)
      | none => (alookup j kvs').map (fun v' => [([], v')]) := by
  rw [alookup_append, groupsS, alookup_mapk (fun k v => grpS o kvs' k v) j kvs]
  cases hj : alookup j kvs with
  | some v => rfl
  | none =>
    simp only [Option.map_none]
    rw [groupsB, alookup_mapk (fun _ v => [(([] : List String), v)]) j,
      alookup_filter (fun k => (alookup k kvs).isNone) j kvs']
    simp [hj]

theorem groupsS_nodup (o : Opts) {kvs kvs' : List (String × Json)} (hs : keysSorted kvs = true)
    (hs' : keysSorted kvs' = true) :
    ((groupsS o kvs' kvs ++ groupsB kvs kvs').map Prod.fst).Nodup := by
  have h := groups_nodup o hs hs'
  have hA : (groupsS o kvs' kvs).map Prod.fst = (groupsA o kvs' kvs).map Prod.fst := by
    simp [groupsS, groupsA, Function.comp_def]
  rw [List.map_append] at h ⊢
  rw [hA]; exact h

/-! ## 5. the two readings of "equal to `b`": `Equals` under the options, and the advertised
      equivalence -/

/-- `x` is `b` for the library's `Equals` and for the specification's equivalence -/
def Rel (o : Opts) (x b : Json) : Prop := equals o x b = true ∧ equivB o x b = true

/-- lookups of two objects related: both absent, or both present with related values -/
def RelOptS (o : Opts) : Option Json → Option Json → Prop
  | some x, some y => Rel o x y
  | none, none => True
  | _, _ => False

theorem equalsKvs_of_lookups (o : Opts) (Y : List (String × Json)) :
    ∀ (R : List (String × Json)),
      (∀ k v, (k, v) ∈ R → ∃ v', alookup k Y = some v' ∧ equals o v v' = true) →
      equalsKvs o R Y = true
  | [], _ => by rw [equalsKvs]
  | (k, v) :: r, h => by
    rw [equalsKvs]
    obtain ⟨v', hl, he⟩ := h k v List.mem_cons_self
    rw [hl]
    simp only [he, Bool.true_and]
    exact equalsKvs_of_lookups o Y r (fun k0 v0 hm => h k0 v0 (List.mem_cons_of_mem _ hm))

theorem rel_obj_of_lookups (o : Opts) {R Y : List (String × Json)}
    (hR : keysSorted R = true) (hY : keysSorted Y = true)
    (h : ∀ j, RelOptS o (alookup j R) (alookup j Y)) : Rel o (.obj R) (.obj Y) := by
  constructor
  · have hlen : R.length = Y.length := by
      have : R.map (fun kv => (kv.1, ())) = Y.map (fun kv => (kv.1, ())) := by
        refine kvs_ext (keysSorted_map (fun _ => ()) hR) (keysSorted_map (fun _ => ()) hY)
          (fun j => ?_)
        rw [alookup_map (fun _ => ()) j R, alookup_map (fun _ => ()) j Y]
        have := h j
        cases h1 : alookup j R <;> cases h2 : alookup j Y <;> simp_all [RelOptS]
      have := congrArg List.length this
      simpa using this
    have hk : equalsKvs o R Y = true := by
      apply equalsKvs_of_lookups
      intro k v hm
      have h1 := alookup_of_mem hR hm
      have := h k
      rw [h1] at this
      cases h2 : alookup k Y with
      | none => simp [h2, RelOptS] at this
      | some v' =>
        rw [h2] at this
        exact ⟨v', rfl, this.1⟩
    rw [equals]
    simp [hlen, hk]
  · refine equivB_obj_of_lookups o hR hY (fun j => ?_)
    have := h j
    cases h1 : alookup j R <;> cases h2 : alookup j Y <;> simp_all [RelOptS, RelOpt]
    exact this.2

/-- the typed node stored by the hunk is the plain array for both relations -/
theorem rel_typed_arr (F : FloatEq0) {o : Opts}
    (hm : dispatchTag o = .set ∨ dispatchTag o = .mset) (hp : precOf o = 0)
    {S : List Json} (HF : HashFaithful o S) {ys : List Json} (hb : DocOk (.arr .raw ys))
    (wb : SetDP.Within S (.arr .raw ys)) :
    Rel o (.arr (dispatchTag o) ys) (.arr .raw ys) := by
  have e := equals_arr_raw_refl hm ys
  have e' : equivB o (.arr .raw ys) (.arr .raw ys) = true := by
    rw [← SetDP.equals_eq_equivB_of F hm hp HF hb hb wb wb]; exact e
  constructor
  · rcases hm with hd | hd
    · rw [hd]
      simp [equals, effTag, Json.dispatch, hd]
    · rw [hd]
      simp [equals, effTag, Json.dispatch, hd]
  · rw [equivB] at e' ⊢
    exact e'

/-! ## 6. C11 in the set modes: the rendered merge patch, applied by RFC 7386, yields the second
      document under the set / multiset reading -/

/-- the hypotheses on the second document: as read from JSON text (unique keys, plain arrays, no
    void, finite numbers, no `-0`), null-free, its sub-terms among `S` -/
structure GoodS (S : List Json) (b : Json) : Prop where
  wf : b.wf = true
  raw : b.rawDoc = true
  fin : b.finiteNums = true
  nf : b.nullFree = true
  vf : objVoidFree b = true
  ok : DocOk b
  wi : SetDP.Within S b

theorem GoodS.member {S : List Json} {kvs' : List (String × Json)} (G : GoodS S (.obj kvs'))
    {j : String} {v' : Json} (h : alookup j kvs' = some v') : GoodS S v' := by
  obtain ⟨h1, h2, h3, h4, h5, h6, h7⟩ := G
  simp only [Json.wf, Json.rawDoc, Json.nullFree, objVoidFree, Json.finiteNums,
    Bool.and_eq_true] at h1 h2 h3 h4 h5
  exact ⟨alookup_wf h h1.2, alookup_rawDoc h h2, alookup_finiteNums h h3, alookup_nullFree h h4,
    alookup_objVoidFree h h5, h6.val (mem_of_alookup h), h7.val (mem_of_alookup h)⟩

theorem GoodS.notVoid {S : List Json} {b : Json} (G : GoodS S b) : b.isVoid = false := by
  have := G.vf; cases b <;> simp_all [Json.isVoid, objVoidFree]

theorem GoodS.notNull {S : List Json} {b : Json} (G : GoodS S b) : b.isNull = false := by
  have := G.nf; cases b <;> simp_all [Json.isNull, Json.nullFree]

theorem GoodS.refl (F : FloatEq0) (L : FloatLaws) {o : Opts}
    (hm : dispatchTag o = .set ∨ dispatchTag o = .mset) (hp : precOf o = 0)
    {S : List Json} (HF : HashFaithful o S) {b : Json} (G : GoodS S b) : Rel o b b := by
  have e := equals_refl_setmode L o hm (SetDP.nonneg_of_prec0 hp) b G.raw G.wf G.fin
  exact ⟨e, by rw [← SetDP.equals_eq_equivB_of F hm hp HF G.ok G.ok G.wi G.wi]; exact e⟩

/-- what is proved of a pair of documents: an empty diff means `a` is `b` (both readings); a
    non-empty diff renders to a patch document (not void, not null) that RFC 7386 turns `a` into
    a document that is `b` (both readings) -/
def Sound (o : Opts) (a b : Json) : Prop :=
  (ds o a b = [] → Rel o a b) ∧
  (ds o a b ≠ [] →
    (mapply (rs o a b) .void).isVoid = false ∧ (mapply (rs o a b) .void).isNull = false ∧
    Rel o (mergePatch a (mapply (rs o a b) .void)) b)

theorem sound_of_nil {o : Opts} {a b : Json} (h : ds o a b = []) (he : Rel o a b) :
    Sound o a b := ⟨fun _ => he, fun hne => absurd h hne⟩

theorem sound_of_single {o : Opts} {a b x : Json} (h : ds o a b = [([], x)])
    (hv : x.isVoid = false) (hn : x.isNull = false) (he : Rel o (mergePatch a x) b) :
    Sound o a b := by
  have hm : mapply (rs o a b) .void = x := by simp [rs, h, nulE, hv, mapply, mset]
  refine ⟨fun h0 => by simp [h] at h0, fun _ => ?_⟩
  rw [hm]; exact ⟨hv, hn, he⟩

/-- the second document is taken wholesale -/
theorem sound_wholesale (F : FloatEq0) (L : FloatLaws) {o : Opts}
    (hm : dispatchTag o = .set ∨ dispatchTag o = .mset) (hp : precOf o = 0)
    {S : List Json} (HF : HashFaithful o S) {a b : Json} (h : ds o a b = [([], b)])
    (hab : a.isObj = false ∨ b.isObj = false) (G : GoodS S b) : Sound o a b := by
  refine sound_of_single h G.notVoid G.notNull ?_
  have : mergePatch a b = b := by
    rcases hab with ha | hb
    · exact mergePatch_copy b G.wf G.nf a ha
    · cases b <;> simp_all [mergePatch, Json.isObj]
  rw [this]; exact G.refl F L hm hp HF

theorem sound_scalar (F : FloatEq0) (L : FloatLaws) {o : Opts}
    (hm : dispatchTag o = .set ∨ dispatchTag o = .mset) (hp : precOf o = 0)
    {S : List Json} (HF : HashFaithful o S) {a b : Json} (h1 : a.isObj = false)
    (h2 : Merge.isArr a = false) (G : GoodS S b) : Sound o a b := by
  have hd := ds_scalar o h1 h2 b
  cases he : equals [] a b with
  | true =>
    rw [he, if_pos rfl] at hd
    refine sound_of_nil hd ⟨?_, equivB_of_equals_nil_scalar o hp h1 h2 he⟩
    rw [← equals_scalar_noopts hp a b (fun t xs e => by subst e; simp [Merge.isArr] at h2)
      (fun kvs e => by subst e; simp [Json.isObj] at h1)]
    exact he
  | false =>
    rw [he] at hd
    exact sound_wholesale F L hm hp HF (by simpa using hd) (Or.inl h1) G

theorem sound (F : FloatEq0) (L : FloatLaws) {o : Opts}
    (hm : dispatchTag o = .set ∨ dispatchTag o = .mset) (hp : precOf o = 0)
    {S : List Json} (HF : HashFaithful o S) :
    ∀ a, DocOk a → SetDP.Within S a → ∀ b, GoodS S b → Sound o a b := by
  intro a
  induction a using jsonInd with
  | void => intro _ _ b G; exact sound_scalar F L hm hp HF rfl rfl G
  | null => intro _ _ b G; exact sound_scalar F L hm hp HF rfl rfl G
  | bool x => intro _ _ b G; exact sound_scalar F L hm hp HF rfl rfl G
  | num x => intro _ _ b G; exact sound_scalar F L hm hp HF rfl rfl G
  | str x => intro _ _ b G; exact sound_scalar F L hm hp HF rfl rfl G
  | arr t xs _ =>
    intro ha wa b G
    have ht := ha.raw
    subst ht
    cases b with
    | arr t' ys =>
      have ht' := G.ok.raw
      subst ht'
      have hd := ds_arr_arr o .raw .raw xs ys
      cases he : equals o (.arr .raw xs) (.arr .raw ys) with
      | true =>
        rw [he, if_pos rfl] at hd
        refine sound_of_nil hd ⟨he, ?_⟩
        rw [← SetDP.equals_eq_equivB_of F hm hp HF ha G.ok wa G.wi]; exact he
      | false =>
        rw [he] at hd
        refine sound_of_single (by simpa using hd) rfl rfl ?_
        have := rel_typed_arr F hm hp HF G.ok G.wi
        simpa [mergePatch] using this
    | _ => exact sound_wholesale F L hm hp HF (ds_arr_other o _ xs rfl) (Or.inl rfl) G
  | obj kvs ih =>
    intro ha wa b G
    cases b with
    | obj kvs' =>
      have hs : keysSorted kvs = true := ha.sorted
      have hs' : keysSorted kvs' = true := G.ok.sorted
      have hvf : objVoidFreeKvs kvs' = true := by simpa [objVoidFree] using G.vf
      have hrl := rs_obj_obj o kvs kvs' hvf
      obtain ⟨acc', he, hsa, hl⟩ := mapply_groups (groupsS o kvs' kvs ++ groupsB kvs kvs') []
        (fun _ _ _ => by simp [alookup]) (groupsS_nodup o hs hs') rfl
      -- the patch document, member by member, against `b`
      have key : Rel o (mergePatch (.obj kvs) (.obj acc')) (.obj kvs') := by
        rw [mergePatch_obj]
        refine rel_obj_of_lookups o (keysSorted_mergeMembers _ _ hs) hs' (fun j => ?_)
        have hlj := hl j
        rw [groupsS_lookup] at hlj
        rw [alookup_mergeMembers j acc' (objKvs (.obj kvs)) hsa hs, hlj]
        simp only [objKvs]
        have hgv : getK j ([] : List (String × Json)) = .void := rfl
        cases hja : alookup j kvs with
        | some v =>
          simp only [grpS]
          cases hjb : alookup j kvs' with
          | some v' =>
            have hm1 := mem_of_alookup hja
            have Sv := ih j v hm1 (ha.val hm1) (wa.val hm1) v' (G.member hjb)
            simp only [hgv]
            by_cases hd : ds o v v' = []
            · have : rs o v v' = [] := by simp [rs, hd]
              simp only [this, mapply, List.foldl_nil, toOpt, Json.isVoid, if_true]
              exact Sv.1 hd
            · obtain ⟨h1, h2, h3⟩ := Sv.2 hd
              simp only [toOpt, h1, Bool.false_eq_true, if_false, h2, getK, hja, Option.getD_some]
              exact h3
          | none =>
            simp [hgv, mapply, mset, toOpt, Json.isVoid, Json.isNull, RelOptS]
        | none =>
          cases hjb : alookup j kvs' with
          | none => simp [RelOptS, alookup]
          | some v' =>
            have Gv := G.member hjb
            simp only [Option.map_some, mapply, List.foldl_cons, List.foldl_nil, mset, toOpt,
              Gv.notVoid, Bool.false_eq_true, if_false, Gv.notNull, getK, hja, Option.getD_none]
            rw [mergePatch_copy v' Gv.wf Gv.nf .void rfl]
            exact Gv.refl F L hm hp HF
      constructor
      · intro hd
        have h0 : rs o (.obj kvs) (.obj kvs') = [] := by simp [rs, hd]
        rw [← hrl, h0] at he
        simp only [mapply, List.foldl_nil, Json.obj.injEq] at he
        subst he
        have : mergePatch (.obj kvs) (.obj []) = .obj kvs := by
          simp [mergePatch, mergeMembers]
        rw [this] at key
        exact key
      · intro hd
        have hne : flatG (groupsS o kvs' kvs ++ groupsB kvs kvs') ≠ [] := by
          rw [← hrl]; simpa [rs] using hd
        rw [hrl, mapply_flatG_nonobj _ (t := .void) rfl hne, he]
        exact ⟨rfl, rfl, key⟩
    | _ => exact sound_wholesale F L hm hp HF (ds_obj_other o kvs rfl) (Or.inr rfl) G

/-- what `RenderMerge` returns on the diff of two documents of the domain -/
theorem renderMergeDoc_diffM_setmodes (F : FloatEq0) (o : Opts) (hmg : isMerge o = true)
    (hm : dispatchTag o = .set ∨ dispatchTag o = .mset) (hk : keysOf o = none) (hp : precOf o = 0)
    (a b : Json) (ha : a.setDoc = true) (hb : b.setDoc = true) (hbv : objVoidFree b = true)
    (HF : HashFaithful o (subterms a ++ subterms b)) :
    renderMergeDoc (diffM o a b)
      = .ok (if ds o a b = [] then .obj [] else mapply (rs o a b) .void) := by
  have hd := diffNode_eq_ds F hm hk hp HF a b (docOk_of_setDoc ha) (docOk_of_setDoc hb)
    (fun z hz => List.mem_append.2 (Or.inl hz)) (fun z hz => List.mem_append.2 (Or.inr hz)) hbv []
  simp only [List.map_nil, List.nil_append] at hd
  unfold diffM
  rw [hmg, hd, renderMergeDoc_mh]
  rfl

theorem goodS_of_setDoc {a b : Json} (hb : b.setDoc = true) (hbn : b.nullFree = true)
    (hbv : objVoidFree b = true) : GoodS (subterms a ++ subterms b) b := by
  have hb' := hb
  simp only [Json.setDoc, Bool.and_eq_true] at hb'
  exact ⟨hb'.1.1.2, hb'.1.1.1, hb'.1.2, hbn, hbv, docOk_of_setDoc hb,
    fun z hz => List.mem_append.2 (Or.inr hz)⟩

/-- **C11, SET+MERGE and MULTISET+MERGE.** For documents as read from JSON text, `b` null-free, that
    `Equals` (under the options) tells apart, the merge diff renders to a JSON Merge Patch document
    `m`, and RFC 7386 `MergePatch(a, m)` is `b` under the array reading in force: for the
    library's `Equals` AND for the advertised equivalence `equivB`. -/
theorem merge_render_correct_setmodes (F : FloatEq0) (L : FloatLaws) (o : Opts)
    (hmg : isMerge o = true) (hm : dispatchTag o = .set ∨ dispatchTag o = .mset)
    (hk : keysOf o = none) (hp : precOf o = 0) (a b : Json)
    (ha : a.setDoc = true) (hb : b.setDoc = true) (hbn : b.nullFree = true)
    (hbv : objVoidFree b = true) (HF : HashFaithful o (subterms a ++ subterms b))
    (hne : equals o a b = false) :
    ∃ m, renderMergeDoc (diffM o a b) = .ok m ∧
      equals o (mergePatch a m) b = true ∧ equivB o (mergePatch a m) b = true := by
  have G : GoodS (subterms a ++ subterms b) b := goodS_of_setDoc hb hbn hbv
  have Sd := sound F L hm hp HF a (docOk_of_setDoc ha)
    (fun z hz => List.mem_append.2 (Or.inl hz)) b G
  rw [renderMergeDoc_diffM_setmodes F o hmg hm hk hp a b ha hb hbv HF]
  by_cases hd : ds o a b = []
  · have := (Sd.1 hd).1
    rw [hne] at this
    cases this
  · rw [if_neg hd]
    exact ⟨_, rfl, (Sd.2 hd).2.2.1, (Sd.2 hd).2.2.2⟩

/-- the same without the hypothesis `a ≠ b` when the first document is an object: the empty diff
    renders to `{}`, which RFC 7386 applies as the identity on objects -/
theorem merge_render_correct_setmodes_obj (F : FloatEq0) (L : FloatLaws) (o : Opts)
    (hmg : isMerge o = true) (hm : dispatchTag o = .set ∨ dispatchTag o = .mset)
    (hk : keysOf o = none) (hp : precOf o = 0) (a b : Json)
    (ha : a.setDoc = true) (hb : b.setDoc = true) (hbn : b.nullFree = true)
    (hbv : objVoidFree b = true) (HF : HashFaithful o (subterms a ++ subterms b))
    (hobj : a.isObj = true) :
    ∃ m, renderMergeDoc (diffM o a b) = .ok m ∧
      equals o (mergePatch a m) b = true ∧ equivB o (mergePatch a m) b = true := by
  have G : GoodS (subterms a ++ subterms b) b := goodS_of_setDoc hb hbn hbv
  have Sd := sound F L hm hp HF a (docOk_of_setDoc ha)
    (fun z hz => List.mem_append.2 (Or.inl hz)) b G
  rw [renderMergeDoc_diffM_setmodes F o hmg hm hk hp a b ha hb hbv HF]
  by_cases hd : ds o a b = []
  · rw [if_pos hd]
    refine ⟨_, rfl, ?_⟩
    have : mergePatch a (.obj []) = a := by
      cases a <;> simp_all [Json.isObj, mergePatch, mergeMembers]
    rw [this]; exact Sd.1 hd
  · rw [if_neg hd]
    exact ⟨_, rfl, (Sd.2 hd).2.2.1, (Sd.2 hd).2.2.2⟩

/-- the rendered patch is a proper merge patch document: never void, and `null` never at the root -/
theorem merge_render_doc_setmodes (F : FloatEq0) (L : FloatLaws) (o : Opts)
    (hmg : isMerge o = true) (hm : dispatchTag o = .set ∨ dispatchTag o = .mset)
    (hk : keysOf o = none) (hp : precOf o = 0) (a b : Json)
    (ha : a.setDoc = true) (hb : b.setDoc = true) (hbn : b.nullFree = true)
    (hbv : objVoidFree b = true) (HF : HashFaithful o (subterms a ++ subterms b)) :
    ∃ m, renderMergeDoc (diffM o a b) = .ok m ∧ m.isVoid = false ∧ m.isNull = false := by
  have G : GoodS (subterms a ++ subterms b) b := goodS_of_setDoc hb hbn hbv
  have Sd := sound F L hm hp HF a (docOk_of_setDoc ha)
    (fun z hz => List.mem_append.2 (Or.inl hz)) b G
  rw [renderMergeDoc_diffM_setmodes F o hmg hm hk hp a b ha hb hbv HF]
  by_cases hd : ds o a b = []
  · rw [if_pos hd]; exact ⟨_, rfl, rfl, rfl⟩
  · rw [if_neg hd]; exact ⟨_, rfl, (Sd.2 hd).1, (Sd.2 hd).2.1⟩

/-- C11 for the option list `[SET, MERGE]` itself -/
theorem merge_render_correct_SET_MERGE (F : FloatEq0) (L : FloatLaws) (a b : Json)
    (ha : a.setDoc = true) (hb : b.setDoc = true) (hbn : b.nullFree = true)
    (hbv : objVoidFree b = true) (HF : HashFaithful [.set, .merge] (subterms a ++ subterms b))
    (hne : equals [.set, .merge] a b = false) :
    ∃ m, renderMergeDoc (diffM [.set, .merge] a b) = .ok m ∧
      equals [.set, .merge] (mergePatch a m) b = true ∧
      equivB [.set, .merge] (mergePatch a m) b = true :=
  merge_render_correct_setmodes F L [.set, .merge] rfl (Or.inl rfl) rfl rfl a b ha hb hbn hbv HF hne

/-- C11 for the option list `[MULTISET, MERGE]` itself -/
theorem merge_render_correct_MULTISET_MERGE (F : FloatEq0) (L : FloatLaws) (a b : Json)
    (ha : a.setDoc = true) (hb : b.setDoc = true) (hbn : b.nullFree = true)
    (hbv : objVoidFree b = true) (HF : HashFaithful [.mset, .merge] (subterms a ++ subterms b))
    (hne : equals [.mset, .merge] a b = false) :
    ∃ m, renderMergeDoc (diffM [.mset, .merge] a b) = .ok m ∧
      equals [.mset, .merge] (mergePatch a m) b = true ∧
      equivB [.mset, .merge] (mergePatch a m) b = true :=
  merge_render_correct_setmodes F L [.mset, .merge] rfl (Or.inr rfl) rfl rfl a b ha hb hbn hbv HF hne

/-! ## 7. why the hash hypothesis is there -/

theorem renderMergeDoc_err_of_strict (d : Diff) (h : Hunk) (hh : h.merge = false) :
    renderMergeDoc (d ++ [h]) = .err := by
  unfold renderMergeDoc
  have h1 : (d ++ [h]).isEmpty = false := by cases d <;> simp
  have h2 : (d ++ [h]).any (fun h => !h.merge) = true := by simp [hh]
  rw [h1, h2]; simp

/-- why a hash hypothesis is needed even for `.ok`: arrays that `Equals` (one comparison of combined
    hash codes) takes for equal are handed to the strict set diff, which works identity by identity;
    if that finds a member of `b` whose identity is not in `a` (possible only under an FNV collision
    of the combined code) the diff contains a non-merge hunk and `RenderMerge` fails. -/
theorem render_err_of_collision_set {o : Opts} (hmg : isMerge o = true) (hd : dispatchTag o = .set)
    (xs ys : List Json) (he : equals o (.arr .raw xs) (.arr .raw ys) = true)
    (hadd : SetDP.setAdd o xs ys ≠ []) :
    renderMergeDoc (diffM o (.arr .raw xs) (.arr .raw ys)) = .err := by
  unfold diffM
  rw [hmg, diffNode_merge_set_eq hd xs ys [] he]
  have : (SetDP.setAdd o xs ys).isEmpty = false := by
    cases h : SetDP.setAdd o xs ys with
    | nil => exact absurd h hadd
    | cons _ _ => rfl
  rw [this, Bool.and_false]
  exact renderMergeDoc_err_of_strict _ _ rfl

theorem render_err_of_collision_mset {o : Opts} (hmg : isMerge o = true)
    (hd : dispatchTag o = .mset) (xs ys : List Json)
    (he : equals o (.arr .raw xs) (.arr .raw ys) = true)
    (hadd : SetDP.bagSurplus o ys xs ≠ []) :
    renderMergeDoc (diffM o (.arr .raw xs) (.arr .raw ys)) = .err := by
  unfold diffM
  rw [hmg, diffNode_merge_mset_eq hd xs ys [] he]
  have : (SetDP.bagSurplus o ys xs).isEmpty = false := by
    cases h : SetDP.bagSurplus o ys xs with
    | nil => exact absurd h hadd
    | cons _ _ => rfl
  rw [this, Bool.and_false]
  exact renderMergeDoc_err_of_strict [] _ rfl

/-! ## 8. non-vacuity; the conclusion is about the SET reading; `HashFaithful` is needed -/

namespace Example

/-- `{"s":["x","y"],"u":"x","v":["x"]}` -/
def exA : Json :=
  .obj [("s", .arr .raw [.str "x", .str "y"]), ("u", .str "x"), ("v", .arr .raw [.str "x"])]
/-- `{"s":["y","x"],"t":[true],"v":["x","z"]}` -/
def exB : Json :=
  .obj [("s", .arr .raw [.str "y", .str "x"]), ("t", .arr .raw [.bool true]),
    ("v", .arr .raw [.str "x", .str "z"])]

theorem ex_docs : exA.setDoc = true ∧ exB.setDoc = true ∧ exB.nullFree = true ∧
    objVoidFree exB = true := by decide

theorem ex_ne : equals [.set, .merge] exA exB = false ∧ equals [.mset, .merge] exA exB = false := by
  constructor <;> decide +kernel

theorem ex_hashFaithful_set : HashFaithful [.set, .merge] (subterms exA ++ subterms exB) := by
  intro x hx y hy
  simp only [exA, exB, subterms, subtermsList, subtermsKvs, List.cons_append, List.nil_append,
    List.append_nil, List.mem_cons, List.not_mem_nil, or_false] at hx hy
  rcases hx with rfl | rfl | rfl | rfl | rfl | rfl | rfl | rfl | rfl | rfl | rfl | rfl | rfl | rfl | rfl | rfl <;>
  rcases hy with rfl | rfl | rfl | rfl | rfl | rfl | rfl | rfl | rfl | rfl | rfl | rfl | rfl | rfl | rfl | rfl <;>
  first
  | (intro _; simp [equivB, dispatchTag, allIn, allCovered, anyEquiv, equivKvs, alookup]; done)
  | (intro e; exact absurd e (by decide +kernel))

/-- the rendered patch `{"t":[true],"u":null,"v":["x","z"]}` -/
def exM (t : Tag) : Json :=
  .obj [("t", .arr .raw [.bool true]), ("u", .null), ("v", .arr t [.str "x", .str "z"])]
/-- RFC 7386 result: the member `s` is `a`'s array `["x","y"]`, not `b`'s `["y","x"]` -/
def exR (t : Tag) : Json :=
  .obj [("s", .arr .raw [.str "x", .str "y"]), ("t", .arr .raw [.bool true]),
    ("v", .arr t [.str "x", .str "z"])]

theorem ex_run_set (F : FloatEq0) :
    renderMergeDoc (diffM [.set, .merge] exA exB) = .ok (exM .set) ∧
    mergePatch exA (exM .set) = exR .set ∧
    equals [.set, .merge] (exR .set) exB = true ∧ equivB [.set, .merge] (exR .set) exB = true ∧
    equivB [.merge] (exR .set) exB = false := by
  refine ⟨?_, ?_, ?_, ?_, ?_⟩
  · rw [renderMergeDoc_diffM_setmodes F [.set, .merge] rfl (Or.inl rfl) rfl rfl exA exB ex_docs.1
      ex_docs.2.1 ex_docs.2.2.2 ex_hashFaithful_set]
    have e1 : equals [.set, .merge] (.arr .raw [.str "x", .str "y"]) (.arr .raw [.str "y", .str "x"])
        = true := by decide +kernel
    have e2 : equals [.set, .merge] (.arr .raw [.str "x"]) (.arr .raw [.str "x", .str "z"])
        = false := by decide +kernel
    have hds : ds [.set, .merge] exA exB
        = [(["u"], .void), (["v"], .arr .set [.str "x", .str "z"]), (["t"], .arr .raw [.bool true])] := by
      simp [exA, exB, ds, dsKvs, alookup, e1, e2, consE, dispatchTag]
    simp [rs, hds, nulE, Json.isVoid, mapply, mset, nest, putKvs, ainsert, exM]
  · simp [exA, exM, exR, mergePatch, mergeMembers, ainsert, aerase]
  · decide +kernel
  · simp [exR, exB, equivB, dispatchTag, allIn, allCovered, anyEquiv, equivKvs, alookup]
  · simp [exR, exB, equivB, dispatchTag, equivList, equivKvs, alookup]


/-! the multiset reading of the same pair: `["x","y"]` and `["y","x"]` are the same bag -/

theorem ex_hashFaithful_mset : HashFaithful [.mset, .merge] (subterms exA ++ subterms exB) := by
  intro x hx y hy
  simp only [exA, exB, subterms, subtermsList, subtermsKvs, List.cons_append, List.nil_append,
    List.append_nil, List.mem_cons, List.not_mem_nil, or_false] at hx hy
  rcases hx with rfl | rfl | rfl | rfl | rfl | rfl | rfl | rfl | rfl | rfl | rfl | rfl | rfl | rfl | rfl | rfl <;>
  rcases hy with rfl | rfl | rfl | rfl | rfl | rfl | rfl | rfl | rfl | rfl | rfl | rfl | rfl | rfl | rfl | rfl <;>
  first
  | (intro _; simp [equivB, dispatchTag, bagSub, removeFirst, equivKvs, alookup]; done)
  | (intro e; exact absurd e (by decide +kernel))

theorem ex_run_mset (F : FloatEq0) :
    renderMergeDoc (diffM [.mset, .merge] exA exB) = .ok (exM .mset) ∧
    mergePatch exA (exM .mset) = exR .mset ∧
    equals [.mset, .merge] (exR .mset) exB = true ∧ equivB [.mset, .merge] (exR .mset) exB = true ∧
    equivB [.merge] (exR .mset) exB = false := by
  refine ⟨?_, ?_, ?_, ?_, ?_⟩
  · rw [renderMergeDoc_diffM_setmodes F [.mset, .merge] rfl (Or.inr rfl) rfl rfl exA exB ex_docs.1
      ex_docs.2.1 ex_docs.2.2.2 ex_hashFaithful_mset]
    have e1 : equals [.mset, .merge] (.arr .raw [.str "x", .str "y"]) (.arr .raw [.str "y", .str "x"])
        = true := by decide +kernel
    have e2 : equals [.mset, .merge] (.arr .raw [.str "x"]) (.arr .raw [.str "x", .str "z"])
        = false := by decide +kernel
    have hds : ds [.mset, .merge] exA exB
        = [(["u"], .void), (["v"], .arr .mset [.str "x", .str "z"]), (["t"], .arr .raw [.bool true])] := by
      simp [exA, exB, ds, dsKvs, alookup, e1, e2, consE, dispatchTag]
    simp [rs, hds, nulE, Json.isVoid, mapply, mset, nest, putKvs, ainsert, exM]
  · simp [exA, exM, exR, mergePatch, mergeMembers, ainsert, aerase]
  · decide +kernel
  · simp [exR, exB, equivB, dispatchTag, bagSub, removeFirst, equivKvs, alookup]
  · simp [exR, exB, equivB, dispatchTag, equivList, equivKvs, alookup]


/-- the concrete pair satisfies every hypothesis of the SET+MERGE theorem -/
theorem ex_set (F : FloatEq0) (L : FloatLaws) :
    ∃ m, renderMergeDoc (diffM [.set, .merge] exA exB) = .ok m ∧
      equals [.set, .merge] (mergePatch exA m) exB = true ∧
      equivB [.set, .merge] (mergePatch exA m) exB = true :=
  merge_render_correct_SET_MERGE F L exA exB ex_docs.1 ex_docs.2.1 ex_docs.2.2.1 ex_docs.2.2.2
    ex_hashFaithful_set ex_ne.1

/-- the concrete pair satisfies every hypothesis of the MULTISET+MERGE theorem -/
theorem ex_mset (F : FloatEq0) (L : FloatLaws) :
    ∃ m, renderMergeDoc (diffM [.mset, .merge] exA exB) = .ok m ∧
      equals [.mset, .merge] (mergePatch exA m) exB = true ∧
      equivB [.mset, .merge] (mergePatch exA m) exB = true :=
  merge_render_correct_MULTISET_MERGE F L exA exB ex_docs.1 ex_docs.2.1 ex_docs.2.2.1
    ex_docs.2.2.2 ex_hashFaithful_mset ex_ne.2

/-- ... and of the object / document variants -/
theorem ex_set_obj (F : FloatEq0) (L : FloatLaws) :
    ∃ m, renderMergeDoc (diffM [.set, .merge] exA exB) = .ok m ∧
      equals [.set, .merge] (mergePatch exA m) exB = true ∧
      equivB [.set, .merge] (mergePatch exA m) exB = true :=
  merge_render_correct_setmodes_obj F L [.set, .merge] rfl (Or.inl rfl) rfl rfl exA exB ex_docs.1
    ex_docs.2.1 ex_docs.2.2.1 ex_docs.2.2.2 ex_hashFaithful_set rfl

theorem ex_set_doc (F : FloatEq0) (L : FloatLaws) :
    ∃ m, renderMergeDoc (diffM [.set, .merge] exA exB) = .ok m ∧ m.isVoid = false ∧
      m.isNull = false :=
  merge_render_doc_setmodes F L [.set, .merge] rfl (Or.inl rfl) rfl rfl exA exB ex_docs.1
    ex_docs.2.1 ex_docs.2.2.1 ex_docs.2.2.2 ex_hashFaithful_set

/-- `{"k":[[]]}` -/
def alA : Json := .obj [("k", .arr .raw [.arr .raw []])]
/-- `{"k":[""],"z":true}` -/
def alB : Json := .obj [("k", .arr .raw [.str ""]), ("z", .bool true)]

theorem al_inner_nil (p : Path) :
    diffNode [.set, .merge] true (.arr .raw [.arr .raw []]) (.arr .raw [.str ""]) p = [] := by
  have he : equals [.set, .merge] (.arr .raw [.arr .raw []]) (.arr .raw [.str ""]) = true := by
    decide +kernel
  have hh : hashCode [.set, .merge] (.str "") = hashCode [.set, .merge] (.arr .raw []) := by
    decide +kernel
  rw [diffNode_merge_arr_eq (Or.inl rfl) _ _ p he (by simp), SetDP.diffNode_set_set rfl]
  simp [SetDP.diffSetElems_cons, SetDP.diffSetElems_nil, identLookup, identOf, hh, SetDP.setAdd,
    ksort, hsort, hdedup]

/-- `HashFaithful` is needed for the `equivB` conclusion (known finding KF-C04-alias: `[]` and `""`
    have the same hash code): the arrays under `k` are `Equal`, the merge diff says nothing about
    them, RFC 7386 keeps `[[]]`; the result `Equals` `b` but is not equivalent to it. -/
theorem alias_needs_hashFaithful :
    alA.setDoc = true ∧ alB.setDoc = true ∧ alB.nullFree = true ∧ objVoidFree alB = true ∧
    equals [.set, .merge] alA alB = false ∧
    renderMergeDoc (diffM [.set, .merge] alA alB) = .ok (.obj [("z", .bool true)]) ∧
    mergePatch alA (.obj [("z", .bool true)])
      = .obj [("k", .arr .raw [.arr .raw []]), ("z", .bool true)] ∧
    equals [.set, .merge] (.obj [("k", .arr .raw [.arr .raw []]), ("z", .bool true)]) alB = true ∧
    equivB [.set, .merge] (.obj [("k", .arr .raw [.arr .raw []]), ("z", .bool true)]) alB
      = false := by
  refine ⟨by decide, by decide, by decide, by decide, by decide +kernel, ?_, ?_, by decide +kernel, ?_⟩
  · have hd : diffM [.set, .merge] alA alB
        = [(["z"], Json.bool true)].map (fun e => mh e.1 e.2) := by
      unfold diffM
      simp only [isMerge, alA, alB]
      rw [DE.diffNode_obj_obj, DE.diffKvs_cons, DE.diffKvs_nil]
      simp [alookup, al_inner_nil, mh, Json.nodeList, Json.isVoid]
    rw [hd, renderMergeDoc_mh]
    simp [nulE, Json.isVoid, mapply, mset, nest, putKvs, ainsert]
  · simp [alA, mergePatch, mergeMembers, ainsert]
  · simp [alB, equivB, dispatchTag, allIn, allCovered, anyEquiv, equivKvs, alookup]

end Example

end Jd.MSet

#print axioms Jd.MSet.merge_render_correct_setmodes
#print axioms Jd.MSet.merge_render_correct_setmodes_obj
#print axioms Jd.MSet.merge_render_doc_setmodes
#print axioms Jd.MSet.merge_render_correct_SET_MERGE
#print axioms Jd.MSet.merge_render_correct_MULTISET_MERGE
#print axioms Jd.MSet.diffNode_merge_nil_of_equivB
#print axioms Jd.MSet.diffNode_eq_ds
#print axioms Jd.MSet.sound
#print axioms Jd.MSet.render_err_of_collision_set
#print axioms Jd.MSet.render_err_of_collision_mset
#print axioms Jd.MSet.Example.ex_set
#print axioms Jd.MSet.Example.ex_mset
#print axioms Jd.MSet.Example.ex_run_set
#print axioms Jd.MSet.Example.alias_needs_hashFaithful
#print axioms Jd.MSet.Example.ex_run_mset
