/-
  JdProofs.CliRoundTripModes (namespace `Jd.CliRTM`; continued in JdProofs.CliRoundTripModesPatch,
  non-vacuity and two witnesses in JdProofs.CliRoundTripModesEx) — property C14, last sentence:
  "Feeding the output of `jd [flags] a b` to `jd -p [flags]` on a reproduces b, in jd, patch and merge
  formats, for JSON and YAML."

  JdProofs.CliRoundTrip proves the CLI-level theorem RELATIVE to the library round trip
  (`CliRT.LibRoundTrip`) and discharges the library hypothesis for the native format in the list
  reading only (`CliRT.native_cli_round_trip`).  Here `LibRoundTrip` is discharged, for the model of
  the v2 library `CliRT.nativeLib nc Y` (`readJsonM`, `diffM`, `renderM`, `renderPatchM`,
  `renderMergeM`, `readDiffM`, `readPatchM`, `readMergeM`, `patchM`, `jsonM`; the YAML carrier `Y` is a
  parameter about which nothing is assumed), for
     §3  the native format with `-set` / `-mset` (strict strategy)        — from `Jd.E2ES`,
     §4  the native format with `-setkeys k1,k2` (with or without `-set`)  — from `Jd.E2EK`,
     §5  `-f merge` (RFC 7386 text), list reading                           — NEW library composite,
     (CliRoundTripModesPatch)  `-f patch` (RFC 6902 text), list reading    — NEW library composite,
  and the end-to-end CLI statements are derived.  All of them are TOTAL: the first process is PROVED
  not to fail (no `exit ≠ 2` hypothesis), as in `native_cli_round_trip`.

  ═══ SHAPE OF THE CLI THEOREMS ═══
  Common hypotheses (those of `CliRT.native_cli_round_trip`): `Ls false` is `nativeLib nc Y`;
  `isDiffMode fl`; `PatchTwin fl fl2` (`fl2` = `jd -p [same flags]`, any `-o`, one or two arguments);
  `libIsV1 b fl = false` (v2 library; any of the three binaries); `fl.nargs = 1 ∨ 2`; the two inputs
  are read (`e1.in1 = ok ta`, `e1.in2 = ok tb`) and parsed by the reader for `-yaml` to `a`, `b'`;
  writing `-o` succeeds in either run if asked for; FILE1 of the second run holds the bytes the
  first run emitted (`e2.in1 = ok (emitted (proc … fl e1))`), its second input the bytes of the first
  input of the first run (`e2.in2 = e1.in1`).
  Common conclusion: the option list `main` parsed is the one named; the library facts
  (`render… = T`, `read… T = ok d'`, `patchM a d' = ok r`, `r` equal to `b'` in the sense stated);
  and `TwoRuns P1 P2 fl fl2 T code out` (a structure, §1): the first process emits `T` (stdout
  without `-o`; the file, and nothing on stdout, with `-o`), exit status `code` (`firstExit`: native
  `T = ""` ↦ 0 else 1; patch `T = "[]"` ↦ 0 else 1; merge `len(diff) > 0` ↦ 1 else 0), nothing on
  stderr; the second process exits 0, nothing on stderr, and emits exactly `out` =
  `Json(options…)` / `Yaml(options…)` of `r`, on stdout or in its `-o` file.

  ═══ THEOREMS ═══
  §0  `splitOn_comma` (`s.splitOn "," = (splitOnP (· == ',') s.toList).map ofList`, the proof of
      `PatchRender.splitOn_slash` for `,`), `splitKeys_ne_nil`: the key list `parseMetadata` builds
      from a `-setkeys` value is NEVER empty — so the hypothesis `ks ≠ []` of `Jd.E2EK` (needed at
      library level: `E2EK.EmptyKeys.emptyKeys_witness`) always holds on the command line.
  §1  `total_core_round_trip` (any `Lib`, any format, on `cliM`), `native_total_cli_round_trip` (on
      `proc`, for `nativeLib`): the CLI step, once the three library calls of the round trip are
      known to succeed (`renderAs … = ok T`, `readDiff fmt T = ok d'`, `patch a d' = ok r`).  Total
      counterpart of `CliRT.core_round_trip`; everything below goes through it.
  §2  `libRoundTrip_jd_of_total`: a total native-format library round trip gives `LibRoundTrip`.
  §3  `parsedOptions_setmodes` (the option list is `modeOpts fl` = `[SET]?, [MULTISET]?, Precision`),
      `libRoundTrip_setmodes` (`LibRoundTrip (nativeLib nc Y) .jd false (modeOpts fl) a b
      (fun r => equals … r b ∧ equivB … r b)`), `native_cli_round_trip_setmodes` (TARGET 1).
      Flags: `fl.set ∨ fl.mset` (also both: the reading is then SET), `fl.setkeys = ""`,
      `formatOf fl.f = jd`, `fl.color = false`, `fl.precision = 0`.
      Documents: those of `E2ES.diff_print_read_patch_set`: `a.setDoc`, `b'.setDoc`, `E2E.voidFree`,
      `HashFaithful (modeOpts fl) (subterms a ++ subterms b')`, the codec contract (`marshalNode …
      isSome`, `ValOK`) on the sub-terms and (`jsonM (pathToJson path) isSome`, `PathOK`) on the
      paths of the diff; `FloatEq0`, `FloatLaws`.
  §4  `parsedOptions_setkeys` (`keysOpts fl ks` = `[SET]?, SetKeys ks, Precision`),
      `libRoundTrip_setkeys`, `native_cli_round_trip_setkeys` (TARGET 4).  Flags: `fl.setkeys ≠ ""`,
      `splitKeys fl.setkeys = ok ks`, `fl.mset = false`, native format, no `-color`,
      `fl.precision = 0`.  Documents: those of `E2EK.diff_print_read_patch_setkeys` (`setDoc`,
      `voidFree`, `DPK.KeysHyp (keysOpts fl ks) ks a b'`, codec contract).
  §5  `dl_optcongr` (the pure merge diff `Merge.dl o` is `Merge.dl []` in the list reading without a
      precision), `merge_lib_round_trip` (LIBRARY LEVEL, new):
         ∃ text d' r, renderMergeM nc (diffM o a b) = ok (some text) ∧ readMergeM nc text = ok d' ∧
           patchM a d' = ok r ∧ equals o r b ∧ equivB o r b ∧ specEq r b ∧ r.listDoc
      for `isMerge o`, `dispatchTag o = .list`, `precOf o = 0`; `a.wf`, `a.rawDoc` (`a` may contain
      nulls); `b.wf`, `b.rawDoc`, `b.nullFree`, `b.finiteNums`, `Yaml.voidFree b`, `JText.NumOK nc b`;
      `a.isObj ∨ b ≠ {}`.  Composition of `Merge.renderMergeDoc_diffM`, `Merge.sound`,
      `V1M.pdoc_clean` (the rendered document is `Clean` for `a`: it is a statement about the pure
      functions `Merge.dl []` / `V1M.pdoc`, shared by both libraries), `V1T.tok_pdoc`,
      `JText.readMergeM_renderMergeM` (text layer), `Merge.merge_read_apply_partial` (C12),
      `V1T.clean_untag` / `mergePatch_untag_right` (the text loses the `jsonList` tags).  An EMPTY
      diff (equal documents) renders to `{}`, which reads back as the empty diff: covered, with no
      condition on `a`.
      `libRoundTrip_merge`, `merge_cli_round_trip` (TARGET 2): `fl.f = "merge"`, no `-set -mset
      -setkeys`, `fl.precision = 0`, ANY `-color` (colour is not used by `RenderMerge`); the domain
      `mergeRTDom a b'` (Bool) = `a.isObj || !isEmptyObj b'`.
  §6  COUNTER-WITNESSES for `-f merge` (every codec, with or without `-color`):
      `merge_emptyobj_no_libRoundTrip` — `mergeRTDom` is NEEDED: for EVERY non-object `a` (as read)
        and `b = {}` the round trip fails: the text is that of `{}`, `ReadMergeString` reads the empty
        diff, `Patch` returns `a` (known finding KF-C12-emptyobj, class (a) of `Merge.Clean`).
      `merge_null_no_libRoundTrip` — `b.nullFree` is NEEDED: `{}` → `{"k":null}` (a `null` in the
        text means "delete"; the domain of RFC 7386; known).
      KF-C12 rootnull (patch `null` at the root) does not arise: `b` is null-free and not void, so
      the rendered document is never `null` (`Merge.sound`).  Class (b) of `Merge.Clean` (nested
      `{}` over a non-empty object) never arises from own output (`V1M.pdoc_clean`).

  ═══ HYPOTHESES: which are inherited, which are new, which are shown necessary ═══
   * All document hypotheses of §3 / §4 are exactly those of the `Jd.E2ES` / `Jd.E2EK` theorems; their
     necessity is documented THERE (`E2ES.Witness.void_element_witness_set`, KF-C04 for
     `HashFaithful`, `E2EK.KeysHypNeeded.*`, `E2EK.VoidWitness.*`).
   * `fl.color = false` (§3, §4): NEEDED — `CliRT.ColorWitness` (list reading) and
     `Ex.ColorSet.color_no_libRoundTrip_set` (the same pair under `[SET, Precision 0]`).
   * `fl.precision = 0` (§3, §4, §5): the library theorems composed here carry `precOf o = 0`.
       §3: `main` refuses a non-zero `-precision` with `-set` / `-mset`, so the only command line
           excluded is `-precision=-0` (bit pattern 0x8000…0, accepted by `precNonZero`); the
           statement is presumably true for it (IEEE: `|x-y| ≤ -0` iff `≤ +0`) but needs a float law
           that `FloatLaws` does not contain — NOT DECIDED here.
       §4: `-setkeys` alone admits any `-precision`; whether `precOf o = 0` is necessary was not
           decided in `Jd.E2EK` either.
       §5: `-f merge -precision eps`: JdProofs.MergePrecision proves the in-memory and RFC 7386
           statements for `eps ≥ 0`; the read-back (`Clean`-ness of the rendered document, which is
           proved for `Merge.dl []` only) is NOT lifted to a precision here.
   * `mergeRTDom`, `nullFree` (§5): NEEDED, §6.
   * `Yaml.voidFree b'`, `JText.NumOK nc b'` (§5): the text layer (void is not a JSON value; the
     number codec `strconv` is a parameter of the model — `JText.numOK_int` proves it for integers).
   * `libIsV1 b fl = false`: no `Lib` instance of the v1 model is built (the v1 text-level library
     theorems exist: `V1T.v1_merge_text_readback`, `V1T.v1_patch_text_readback`).

  NOT PROVED: `-f merge` with `-set` / `-mset` / `-setkeys` (option lists `[SET, MERGE, …]`: the
  library theorems `MSet.*` stop at the merge DOCUMENT; the `Clean`-ness of the document rendered from
  `MSet.ds` is not established); `-f patch` with the set readings (C10 is a list-mode property); a
  non-zero precision outside `-f patch`; the v1 library; YAML beyond "whatever `Y.read` returns"
  (the document hypotheses are on what the reader returned, so they apply to YAML input as well).

  Model remarks: none — no suspected inaccuracy of `JdModel/Cli.lean` was found; `Lib` / `nativeLib`
  expose every format and reading needed (`readDiff .patch`, `readDiff .merge` included).
-/
import JdModel
import JdSpec
import JdProofs.CliProofs
import JdProofs.CliRoundTrip
import JdProofs.NativeEndToEndSet
import JdProofs.NativeEndToEndKeys
import JdProofs.JsonTextRoundTrip
import JdProofs.V1JsonText
import JdProofs.PatchOwnOutput

set_option linter.unusedVariables false
set_option autoImplicit false

namespace Jd.CliRTM
open Jd Jd.Spec Jd.Cli Jd.CliRT

/-! ## 0. `strings.Split(*setkeys, ",")`: the key list is never empty -/

section SplitOn
open String

theorem splitOnAux_comma (l m r : List Char) (acc : List String) :
    splitOnAux (ofList (l ++ m ++ r)) "," ⟨utf8Len l⟩ ⟨utf8Len l + utf8Len m⟩ 0 acc =
      acc.reverse ++ (List.splitOnPPrepend (· == ',') r m.reverse).map ofList := by
  unfold splitOnAux
  simp only [List.append_assoc, atEnd_iff, rawEndPos_ofList, utf8Len_append, Pos.Raw.mk_le_mk,
    Nat.add_le_add_iff_left, (by omega : utf8Len m + utf8Len r ≤ utf8Len m ↔ utf8Len r = 0),
    utf8Len_eq_zero, List.reverse_cons]
  split
  · subst r
    simpa using extract_of_valid l m []
  · obtain ⟨c, r, rfl⟩ := r.exists_cons_of_ne_nil ‹_›
    have hg : Pos.Raw.get "," 0 = ',' := by decide
    have hn : Pos.Raw.next "," 0 = ⟨1⟩ := by decide
    have he : ",".rawEndPos = ⟨1⟩ := by decide
    have hu : ({ byteIdx := utf8Len l + utf8Len m } : Pos.Raw).unoffsetBy 0 = ⟨utf8Len l + utf8Len m⟩ := rfl
    simp only [hg, hn, he, hu, Pos.Raw.le_refl, if_true]
    simp only [by
      simpa [-ofList_append] using
        (⟨get_of_valid (l ++ m) (c :: r), next_of_valid (l ++ m) c r⟩ : _ ∧ _)]
    split <;> rename_i h
    · have hc : c = ',' := by simpa using h
      subst hc
      have hx : ({ byteIdx := utf8Len l + utf8Len m + ','.utf8Size } : Pos.Raw).unoffsetBy ⟨1⟩ = ⟨utf8Len l + utf8Len m⟩ := by
        have : ','.utf8Size = 1 := by decide
        simp [Pos.Raw.unoffsetBy, this]
      rw [hx]
      have := extract_of_valid l m (',' :: r)
      simp only [List.append_assoc] at this
      rw [this]
      simpa [Nat.add_assoc, List.splitOnPPrepend_cons_eq_if] using
        splitOnAux_comma (l ++ m ++ [',']) [] r ((ofList m) :: acc)
    · simpa [List.splitOnPPrepend_cons_eq_if, h, Nat.add_assoc] using
        splitOnAux_comma l (m ++ [c]) r acc
termination_by r.length

theorem splitOn_comma (s : String) :
    s.splitOn "," = (List.splitOnP (· == ',') s.toList).map ofList := by
  have : ("," == "") = false := by decide
  simp only [splitOn, this]
  simpa using splitOnAux_comma [] [] s.toList []

end SplitOn

theorem mapM_except_length {α β ε} (f : α → Except ε β) : ∀ (l : List α) (r : List β),
    l.mapM f = .ok r → r.length = l.length
  | [], r, h => by simp [List.mapM_nil, pure, Except.pure] at h; subst h; rfl
  | x :: l, r, h => by
    rw [List.mapM_cons] at h
    cases hx : f x with
    | error e => rw [hx] at h; cases h
    | ok y =>
      rw [hx] at h
      cases hl : l.mapM f with
      | error e => rw [hl] at h; cases h
      | ok r' =>
        rw [hl] at h
        have : r = y :: r' := by cases h; rfl
        subst this
        simp [mapM_except_length f l r' hl]

/-- the key list `parseMetadata` builds from a `-setkeys` value is never empty -/
theorem splitKeys_ne_nil {s : String} {ks : List String} (h : splitKeys s = .ok ks) : ks ≠ [] := by
  unfold splitKeys at h
  have := mapM_except_length _ _ _ h
  rw [splitOn_comma, List.length_map] at this
  intro hk
  subst hk
  have hne := List.splitOnP_ne_nil (· == ',') s.toList
  cases hs : List.splitOnP (· == ',') s.toList with
  | nil => exact hne hs
  | cons a b => rw [hs] at this; simp at this

/-! ## 1. the two runs, once the three library calls of the round trip are known to succeed -/

/-- the exit status of a diff run that does not fail, per format (`haveDiff` of `main`):
    native: the text is not empty; patch: the text is not `[]`; merge: `len(diff) > 0` -/
def firstExit {N D} (L : Lib N D) (fmt : Format) (d : D) (T : String) : Nat :=
  match fmt with
  | .jd => if T = "" then 0 else 1
  | .patch => if T = "[]" then 0 else 1
  | .merge => if L.diffLen d > 0 then 1 else 0

/-- what is concluded of the two processes `P1` (`jd [flags] a b`) and `P2` (`jd -p [flags] T a`):
    `P1` emits `T` (stdout, or the `-o` file and then nothing on stdout) with exit status `code` and
    nothing on stderr; `P2` exits 0 with nothing on stderr and emits exactly `out`. -/
structure TwoRuns (P1 P2 : Cli.Outcome) (fl fl2 : Flags) (T : String) (code : Nat) (out : String) :
    Prop where
  emit1 : emitted P1 = T
  exit1 : P1.exit = code
  err1 : P1.stderr = ""
  std1 : fl.o = "" → P1.stdout = T ∧ P1.outfile = none
  file1 : fl.o ≠ "" → P1.stdout = "" ∧ P1.outfile = some T
  exit2 : P2.exit = 0
  err2 : P2.stderr = ""
  emit2 : emitted P2 = out
  std2 : fl2.o = "" → P2.stdout = out ∧ P2.outfile = none
  file2 : fl2.o ≠ "" → P2.stdout = "" ∧ P2.outfile = some out

/-- **total form of `CliRT.core_round_trip`** for one library `L`, any format: if the two inputs are
    read and parsed, the diff renders to `T`, the reader of the format reads `T` back as `d'` and
    `Patch` of `d'` on `a` gives `r`, then the first process does NOT fail (exit status `firstExit`)
    and emits `T`, the second exits 0 and emits `renderDoc r`. -/
theorem total_core_round_trip {N D} (L : Lib N D) (b : Binary) {fl fl2 : Flags} {e1 e2 : Env}
    {opts : List Opt} {fmt : Format} (hm : isDiffMode fl) (h : PatchTwin fl fl2)
    (ho : parsedOptions b fl = .ok opts) (hn : fl.nargs = 1 ∨ fl.nargs = 2)
    (hfmt : formatOf fl.f = some fmt)
    {ta tb : String} {a b' : N}
    (hi1 : e1.in1 = .ok ta) (hi2 : e1.in2 = .ok tb) (hw1 : fl.o = "" ∨ e1.write = .ok ())
    (hra : L.readDoc fl.yaml ta = .ok a) (hrb : L.readDoc fl.yaml tb = .ok b')
    {T : String} {d' : D} {r : N}
    (hren : renderAs L fmt fl.color (L.diff opts a b') = .ok T)
    (hrd : L.readDiff fmt T = .ok d') (hpa : L.patch a d' = .ok r)
    (hT : e2.in1 = .ok (emitted (cliM b fl (resultsDiff L opts fl.color fl e1))))
    (ha : e2.in2 = e1.in1) (hw : fl2.o = "" ∨ e2.write = .ok ()) :
    TwoRuns (cliM b fl (resultsDiff L opts fl.color fl e1))
      (cliM b fl2 (resultsPatch L opts fl2 e2)) fl fl2 T
      (firstExit L fmt (L.diff opts a b') T) (L.renderDoc fl.yaml opts r) := by
  -- the first run
  have hR : libRendering fl (resultsDiff L opts fl.color fl e1) = some T := by
    cases fmt <;>
      simp [libRendering, hfmt, resultsDiff, hi1, hi2, hra, hrb, renderAs, okText] at hren ⊢
    · exact hren
    · rw [hren]
    · rw [hren]
  have hrun1 := run_diff_ok (b := b) (r := resultsDiff L opts fl.color fl e1) hm hn ho
    (by simp [resultsDiff, hi1]) (by simp [resultsDiff, hi2])
    (by simp [resultsDiff, hi1, hra]) (by simp [resultsDiff, hi2, hrb]) hR
    (by rcases hw1 with hw1 | hw1
        · exact .inl hw1
        · exact .inr (by simp [resultsDiff, hw1]))
  have hcode : (if haveDiff fl (resultsDiff L opts fl.color fl e1) T = true then 1 else 0)
      = firstExit L fmt (L.diff opts a b') T := by
    cases fmt <;> simp [haveDiff, hfmt, firstExit, resultsDiff, hi1, hi2, hra, hrb]
  rw [hcode] at hrun1
  have hP1 : cliM b fl (resultsDiff L opts fl.color fl e1)
      = outcomeOf b (.ok ⟨firstExit L fmt (L.diff opts a b') T, T, fl.o != ""⟩) := by
    unfold cliM; rw [hrun1]
  obtain ⟨y1, y2, y3, y4, y5⟩ :=
    outcome_emit b (firstExit L fmt (L.diff opts a b') T) T (fl.o != "")
  rw [hP1] at hT ⊢
  rw [y2] at hT
  rw [hi1] at ha
  -- the second run
  have hf2 : formatOf fl2.f = some fmt := by rw [h.f, hfmt]
  have ho2 : parsedOptions b fl2 = .ok opts := by rw [parsedOptions_twin b h, ho]
  have hrun : run b fl2 (resultsPatch L opts fl2 e2) =
      .ok ⟨0, L.renderDoc fl.yaml opts r, fl2.o != ""⟩ := by
    have := run_patch_ok (b := b) (fl2 := fl2) (r := resultsPatch L opts fl2 e2) (opts := opts)
      (fmt := fmt) h.version h.port h.git h.p h.t h.nargs ho2 hf2
      (by simp [resultsPatch, hT]) (by simp [resultsPatch, ha])
      (by simp [resultsPatch, hf2, hT, hrd]) (by simp [resultsPatch, ha, h.yaml, hra])
      (by simp [resultsPatch, hf2, hT, hrd, ha, h.yaml, hra, hpa])
      (by rcases hw with hw | hw
          · exact .inl hw
          · exact .inr (by simp [resultsPatch, hw]))
    rw [this]
    simp [resultsPatch, hf2, hT, hrd, ha, h.yaml, hra, hpa]
  have hP2 : cliM b fl2 (resultsPatch L opts fl2 e2)
      = outcomeOf b (.ok ⟨0, L.renderDoc fl.yaml opts r, fl2.o != ""⟩) := by
    unfold cliM; rw [hrun]
  obtain ⟨x1, x2, x3, x4, x5⟩ := outcome_emit b 0 (L.renderDoc fl.yaml opts r) (fl2.o != "")
  rw [hP2]
  exact ⟨y2, y1, y3, fun ho => y4 (by simp [ho]), fun ho => y5 (by simp [ho]),
    x1, x3, x2, fun ho => x4 (by simp [ho]), fun ho => x5 (by simp [ho])⟩

/-- the same on the PROCESS (`proc`), for the model of the v2 library `nativeLib nc Y` -/
theorem native_total_cli_round_trip (nc : NumCodec) (Y : YamlCarrier)
    (Ls : Bool → LibPack) (hL : Ls false = ⟨Json, Diff, nativeLib nc Y⟩)
    (b : Binary) {fl fl2 : Flags} {e1 e2 : Env} {opts : List Opt} {fmt : Format}
    (hm : isDiffMode fl) (h : PatchTwin fl fl2) (hv2 : libIsV1 b fl = false)
    (ho : parsedOptions b fl = .ok opts) (hn : fl.nargs = 1 ∨ fl.nargs = 2)
    (hfmt : formatOf fl.f = some fmt)
    {ta tb : String} {a b' : Json}
    (hi1 : e1.in1 = .ok ta) (hi2 : e1.in2 = .ok tb) (hw1 : fl.o = "" ∨ e1.write = .ok ())
    (hra : (nativeLib nc Y).readDoc fl.yaml ta = .ok a)
    (hrb : (nativeLib nc Y).readDoc fl.yaml tb = .ok b')
    {T : String} {d' : Diff} {r : Json}
    (hren : renderAs (nativeLib nc Y) fmt fl.color (diffM opts a b') = .ok T)
    (hrd : (nativeLib nc Y).readDiff fmt T = .ok d') (hpa : patchM a d' = .ok r)
    (hT : e2.in1 = .ok (emitted (proc Ls b fl e1)))
    (ha : e2.in2 = e1.in1) (hw : fl2.o = "" ∨ e2.write = .ok ()) :
    TwoRuns (proc Ls b fl e1) (proc Ls b fl2 e2) fl fl2 T
      (firstExit (nativeLib nc Y) fmt (diffM opts a b') T)
      ((nativeLib nc Y).renderDoc fl.yaml opts r) := by
  have hplan := planOf_diff_ok b hm ho hn
  rw [proc_diff Ls b e1 hplan] at hT ⊢
  rw [proc_twin Ls b e2 h ho]
  rw [hv2, hL] at hT ⊢
  simp only at hT ⊢
  exact total_core_round_trip (nativeLib nc Y) b hm h ho hn hfmt hi1 hi2 hw1 hra hrb hren hrd
    (by rw [nativeLib_patch, hpa]; rfl) hT ha hw

/-! ## 2. native format: what `renderAs` / `readDiff` of `nativeLib` are -/

theorem renderAs_jd_plain (nc : NumCodec) (Y : YamlCarrier) (d : Diff) {text : String}
    (h : renderM nc [] d = some text) : renderAs (nativeLib nc Y) .jd false d = .ok text := by
  simp [renderAs, nativeLib_renderJd_plain, h]

theorem readDiff_jd_ok (nc : NumCodec) (Y : YamlCarrier) {T : String} {d' : Diff}
    (h : readDiffM nc T = .ok d') : (nativeLib nc Y).readDiff .jd T = .ok d' := by
  rw [nativeLib_readDiff_jd, h]; rfl

/-- the library-level total round trip in the native format gives `LibRoundTrip` -/
theorem libRoundTrip_jd_of_total (nc : NumCodec) (Y : YamlCarrier) (opts : List Opt) (a b : Json)
    (Post : Json → Prop)
    (h : ∃ text d' r, renderM nc [] (diffM opts a b) = some text ∧ readDiffM nc text = .ok d' ∧
      patchM a d' = .ok r ∧ Post r) :
    LibRoundTrip (nativeLib nc Y) .jd false opts a b Post := by
  obtain ⟨text, d', r, h1, h2, h3, h4⟩ := h
  intro T hT
  rw [nativeLib_diff, renderAs_jd_plain nc Y _ h1] at hT
  cases hT
  exact ⟨d', r, readDiff_jd_ok nc Y h2, by rw [nativeLib_patch, h3]; rfl, h4⟩

/-! ## 3. `-set`, `-mset` (strict strategy, native format) -/

/-- the option list `parseMetadata` builds for `jd -set` / `jd -mset` / `jd -set -mset` in the
    native format: `[SET]`, `[MULTISET]` or `[SET, MULTISET]` followed by the Precision option -/
def modeOpts (fl : Flags) : List Opt :=
  (if fl.set then [Opt.set] else []) ++ (if fl.mset then [Opt.mset] else []) ++
    [Opt.prec fl.precision]

theorem parsedOptions_setmodes (b : Binary) {fl : Flags} (hkeys : fl.setkeys = "")
    (hprec : fl.precision = 0) (hfmt : formatOf fl.f = some .jd) :
    parsedOptions b fl = .ok (modeOpts fl) := by
  rw [parsedOptions_same]
  simp [optionsOf, modeOpts, hkeys, hprec, not_merge_of_jd hfmt, precNonZero]

theorem modeOpts_facts {fl : Flags} (hsm : fl.set = true ∨ fl.mset = true)
    (hprec : fl.precision = 0) :
    (dispatchTag (modeOpts fl) = .set ∨ dispatchTag (modeOpts fl) = .mset) ∧
    keysOf (modeOpts fl) = none ∧ isMerge (modeOpts fl) = false ∧ precOf (modeOpts fl) = 0 := by
  unfold modeOpts
  rw [hprec]
  cases hs : fl.set <;> cases hms : fl.mset <;> simp_all [dispatchTag, keysOf, isMerge, precOf]

/-- **`LibRoundTrip` for `-set` / `-mset`**, from `E2ES.diff_print_read_patch_set` -/
theorem libRoundTrip_setmodes (F : FloatEq0) (FL : FloatLaws) (nc : NumCodec) (Y : YamlCarrier)
    {fl : Flags} (hsm : fl.set = true ∨ fl.mset = true) (hprec : fl.precision = 0) (a b : Json)
    (ha : a.setDoc = true) (hb : b.setDoc = true)
    (hva : E2E.voidFree a = true) (hvb : E2E.voidFree b = true)
    (HF : HashFaithful (modeOpts fl) (subterms a ++ subterms b))
    (hv : ∀ z ∈ subterms a ++ subterms b, (marshalNode nc z).isSome = true ∧ NativeRT.ValOK nc z)
    (hp : ∀ h ∈ diffM (modeOpts fl) a b,
      (jsonM nc (pathToJson h.path)).isSome = true ∧ NativeRT.PathOK nc h.path) :
    LibRoundTrip (nativeLib nc Y) .jd false (modeOpts fl) a b
      (fun r => equals (modeOpts fl) r b = true ∧ equivB (modeOpts fl) r b = true) := by
  obtain ⟨m1, m2, m3, m4⟩ := modeOpts_facts hsm hprec
  obtain ⟨text, d', r, g1, g2, g3, g4, g5⟩ :=
    E2ES.diff_print_read_patch_set F FL nc (modeOpts fl) m1 m2 m3 m4 a b ha hb hva hvb HF hv hp
  exact libRoundTrip_jd_of_total nc Y _ a b _ ⟨text, d', r, g1, g2, g3, g5, g4⟩

/-- **END TO END, native format, `-set` / `-mset`, v2 library** (`native_cli_round_trip_setmodes`):
    the statement of `CliRT.native_cli_round_trip` for the SET / MULTISET readings; no library
    hypothesis left — the library round trip is `E2ES.diff_print_read_patch_set`. -/
theorem native_cli_round_trip_setmodes (F : FloatEq0) (FL : FloatLaws) (nc : NumCodec)
    (Y : YamlCarrier) (Ls : Bool → LibPack) (hL : Ls false = ⟨Json, Diff, nativeLib nc Y⟩)
    (b : Binary) {fl fl2 : Flags} {e1 e2 : Env}
    (hm : isDiffMode fl) (h : PatchTwin fl fl2) (hv2 : libIsV1 b fl = false)
    (hsm : fl.set = true ∨ fl.mset = true) (hkeys : fl.setkeys = "") (hprec : fl.precision = 0)
    (hfmt : formatOf fl.f = some .jd) (hcolor : fl.color = false)
    (hn : fl.nargs = 1 ∨ fl.nargs = 2)
    {ta tb : String} {a b' : Json}
    (hi1 : e1.in1 = .ok ta) (hi2 : e1.in2 = .ok tb) (hw1 : fl.o = "" ∨ e1.write = .ok ())
    (hra : (nativeLib nc Y).readDoc fl.yaml ta = .ok a)
    (hrb : (nativeLib nc Y).readDoc fl.yaml tb = .ok b')
    (ha : a.setDoc = true) (hb : b'.setDoc = true)
    (hva : E2E.voidFree a = true) (hvb : E2E.voidFree b' = true)
    (HF : HashFaithful (modeOpts fl) (subterms a ++ subterms b'))
    (hv : ∀ z ∈ subterms a ++ subterms b', (marshalNode nc z).isSome = true ∧ NativeRT.ValOK nc z)
    (hp : ∀ h ∈ diffM (modeOpts fl) a b',
      (jsonM nc (pathToJson h.path)).isSome = true ∧ NativeRT.PathOK nc h.path)
    (hT : e2.in1 = .ok (emitted (proc Ls b fl e1)))
    (ha2 : e2.in2 = e1.in1) (hw : fl2.o = "" ∨ e2.write = .ok ()) :
    ∃ T d' r,
      parsedOptions b fl = .ok (modeOpts fl) ∧
      renderM nc [] (diffM (modeOpts fl) a b') = some T ∧
      readDiffM nc T = .ok d' ∧ patchM a d' = .ok r ∧
      equivB (modeOpts fl) r b' = true ∧ equals (modeOpts fl) r b' = true ∧
      TwoRuns (proc Ls b fl e1) (proc Ls b fl2 e2) fl fl2 T (if T = "" then 0 else 1)
        ((nativeLib nc Y).renderDoc fl.yaml (modeOpts fl) r) := by
  have ho := parsedOptions_setmodes b hkeys hprec hfmt
  obtain ⟨m1, m2, m3, m4⟩ := modeOpts_facts hsm hprec
  obtain ⟨text, d', r, g1, g2, g3, g4, g5⟩ :=
    E2ES.diff_print_read_patch_set F FL nc (modeOpts fl) m1 m2 m3 m4 a b' ha hb hva hvb HF hv hp
  refine ⟨text, d', r, ho, g1, g2, g3, g4, g5, ?_⟩
  exact native_total_cli_round_trip nc Y Ls hL b hm h hv2 ho hn hfmt hi1 hi2 hw1 hra hrb
    (by rw [hcolor]; exact renderAs_jd_plain nc Y _ g1) (readDiff_jd_ok nc Y g2) g3 hT ha2 hw

/-! ## 4. `-setkeys k1,k2` (strict strategy, native format) -/

/-- the option list for `jd -setkeys …` (with or without `-set`) in the native format -/
def keysOpts (fl : Flags) (ks : List String) : List Opt :=
  (if fl.set then [Opt.set] else []) ++ [Opt.setKeys ks, Opt.prec fl.precision]

theorem parsedOptions_setkeys (b : Binary) {fl : Flags} {ks : List String}
    (hkeys : fl.setkeys ≠ "") (hks : splitKeys fl.setkeys = .ok ks) (hmset : fl.mset = false)
    (hprec : fl.precision = 0) (hfmt : formatOf fl.f = some .jd) :
    parsedOptions b fl = .ok (keysOpts fl ks) := by
  rw [parsedOptions_same]
  simp [optionsOf, keysOpts, hkeys, hks, hmset, hprec, not_merge_of_jd hfmt, precNonZero,
    Except.map]

theorem keysOpts_facts (fl : Flags) (ks : List String) (hprec : fl.precision = 0) :
    dispatchTag (keysOpts fl ks) = .set ∧ keysOf (keysOpts fl ks) = some ks ∧
    isMerge (keysOpts fl ks) = false ∧ precOf (keysOpts fl ks) = 0 := by
  unfold keysOpts
  rw [hprec]
  cases hs : fl.set <;> simp [dispatchTag, keysOf, isMerge, precOf]

/-- **`LibRoundTrip` for `-setkeys`**, from `E2EK.diff_print_read_patch_setkeys` -/
theorem libRoundTrip_setkeys (F : FloatEq0) (FL : FloatLaws) (nc : NumCodec) (Y : YamlCarrier)
    {fl : Flags} (ks : List String) (hks : ks ≠ []) (hprec : fl.precision = 0) (a b : Json)
    (ha : a.setDoc = true) (hb : b.setDoc = true)
    (hva : E2E.voidFree a = true) (hvb : E2E.voidFree b = true)
    (KH : DPK.KeysHyp (keysOpts fl ks) ks a b)
    (hv : ∀ z ∈ subterms a ++ subterms b, (marshalNode nc z).isSome = true ∧ NativeRT.ValOK nc z)
    (hp : ∀ h ∈ diffM (keysOpts fl ks) a b,
      (jsonM nc (pathToJson h.path)).isSome = true ∧ NativeRT.PathOK nc h.path) :
    LibRoundTrip (nativeLib nc Y) .jd false (keysOpts fl ks) a b
      (fun r => equals (keysOpts fl ks) r b = true ∧ equivB (keysOpts fl ks) r b = true) := by
  obtain ⟨m1, m2, m3, m4⟩ := keysOpts_facts fl ks hprec
  exact libRoundTrip_jd_of_total nc Y _ a b _
    (E2EK.diff_print_read_patch_setkeys F FL nc (keysOpts fl ks) ks m1 m2 m3 m4 hks a b ha hb hva
      hvb KH hv hp)

/-- **END TO END, native format, `-setkeys`, v2 library** (`native_cli_round_trip_setkeys`) -/
theorem native_cli_round_trip_setkeys (F : FloatEq0) (FL : FloatLaws) (nc : NumCodec)
    (Y : YamlCarrier) (Ls : Bool → LibPack) (hL : Ls false = ⟨Json, Diff, nativeLib nc Y⟩)
    (b : Binary) {fl fl2 : Flags} {e1 e2 : Env}
    (hm : isDiffMode fl) (h : PatchTwin fl fl2) (hv2 : libIsV1 b fl = false)
    {ks : List String} (hkeys : fl.setkeys ≠ "") (hsk : splitKeys fl.setkeys = .ok ks)
    (hmset : fl.mset = false) (hprec : fl.precision = 0)
    (hfmt : formatOf fl.f = some .jd) (hcolor : fl.color = false)
    (hn : fl.nargs = 1 ∨ fl.nargs = 2)
    {ta tb : String} {a b' : Json}
    (hi1 : e1.in1 = .ok ta) (hi2 : e1.in2 = .ok tb) (hw1 : fl.o = "" ∨ e1.write = .ok ())
    (hra : (nativeLib nc Y).readDoc fl.yaml ta = .ok a)
    (hrb : (nativeLib nc Y).readDoc fl.yaml tb = .ok b')
    (ha : a.setDoc = true) (hb : b'.setDoc = true)
    (hva : E2E.voidFree a = true) (hvb : E2E.voidFree b' = true)
    (KH : DPK.KeysHyp (keysOpts fl ks) ks a b')
    (hv : ∀ z ∈ subterms a ++ subterms b', (marshalNode nc z).isSome = true ∧ NativeRT.ValOK nc z)
    (hp : ∀ h ∈ diffM (keysOpts fl ks) a b',
      (jsonM nc (pathToJson h.path)).isSome = true ∧ NativeRT.PathOK nc h.path)
    (hT : e2.in1 = .ok (emitted (proc Ls b fl e1)))
    (ha2 : e2.in2 = e1.in1) (hw : fl2.o = "" ∨ e2.write = .ok ()) :
    ∃ T d' r,
      parsedOptions b fl = .ok (keysOpts fl ks) ∧
      renderM nc [] (diffM (keysOpts fl ks) a b') = some T ∧
      readDiffM nc T = .ok d' ∧ patchM a d' = .ok r ∧
      equivB (keysOpts fl ks) r b' = true ∧ equals (keysOpts fl ks) r b' = true ∧
      TwoRuns (proc Ls b fl e1) (proc Ls b fl2 e2) fl fl2 T (if T = "" then 0 else 1)
        ((nativeLib nc Y).renderDoc fl.yaml (keysOpts fl ks) r) := by
  have ho := parsedOptions_setkeys b hkeys hsk hmset hprec hfmt
  have hks := splitKeys_ne_nil hsk
  obtain ⟨m1, m2, m3, m4⟩ := keysOpts_facts fl ks hprec
  obtain ⟨text, d', r, g1, g2, g3, g4, g5⟩ :=
    E2EK.diff_print_read_patch_setkeys F FL nc (keysOpts fl ks) ks m1 m2 m3 m4 hks a b' ha hb hva
      hvb KH hv hp
  refine ⟨text, d', r, ho, g1, g2, g3, g5, g4, ?_⟩
  exact native_total_cli_round_trip nc Y Ls hL b hm h hv2 ho hn hfmt hi1 hi2 hw1 hra hrb
    (by rw [hcolor]; exact renderAs_jd_plain nc Y _ g1) (readDiff_jd_ok nc Y g2) g3 hT ha2 hw

/-! ## 5. `-f merge` (RFC 7386 text), list reading -/

section MergeFmt
open Jd.Merge

mutual
/-- the pure merge diff depends on the options only through `Equals` on arrays: in the list reading
    without a Precision option it is the one of the empty option list -/
theorem dl_optcongr {o : Opts} (ho : dispatchTag o = .list) (hp : precOf o = 0) :
    ∀ a b : Json, dl o a b = dl [] a b
  | .obj kvs, b => by
    cases b with
    | obj kvs' => rw [dl_obj_obj, dl_obj_obj, dlKvs_optcongr ho hp kvs' kvs]
    | _ => simp [dl]
  | .arr t xs, b => by
    cases b with
    | arr t' ys =>
      rw [dl_arr_arr, dl_arr_arr,
        SetDP.equals_optcongr (o := o) (o' := []) (by rw [ho]; rfl) (by rw [hp]; rfl)]
    | _ => simp [dl]
  | .void, b => by simp [dl]
  | .null, b => by simp [dl]
  | .bool _, b => by simp [dl]
  | .num _, b => by simp [dl]
  | .str _, b => by simp [dl]
theorem dlKvs_optcongr {o : Opts} (ho : dispatchTag o = .list) (hp : precOf o = 0)
    (kvs' : List (String × Json)) : ∀ kvs : List (String × Json), dlKvs o kvs' kvs = dlKvs [] kvs' kvs
  | [] => by simp [dlKvs]
  | (k, v) :: r => by
    simp only [dlKvs]
    rw [dlKvs_optcongr ho hp kvs' r]
    cases alookup k kvs' with
    | none => rfl
    | some v' => simp only [dl_optcongr ho hp v v']
end

/-- the excluded pairs of the merge round trip: the FIRST document is not an object and the second
    is the empty object `{}` (known finding KF-C12-emptyobj, class (a) of `Merge.Clean`) -/
def isEmptyObj : Json → Bool
  | .obj [] => true
  | _ => false

/-- the domain of the merge round trip (Bool): `a` is an object or `b` is not `{}` -/
def mergeRTDom (a b : Json) : Bool := a.isObj || !isEmptyObj b

theorem mergeRTDom_iff (a b : Json) : mergeRTDom a b = true ↔ (a.isObj = true ∨ b ≠ .obj []) := by
  unfold mergeRTDom
  cases b with
  | obj kvs => cases kvs <;> simp [isEmptyObj]
  | _ => simp [isEmptyObj]

/-- **LIBRARY-LEVEL round trip, RFC 7386 format, list reading** (`merge_lib_round_trip`):
    `a.Diff(b, MERGE).RenderMerge()` returns a text, `ReadMergeString` reads it, `a.Patch` of the
    diff read succeeds, and the result `Equals` `b` (and is structurally equal to it). -/
theorem merge_lib_round_trip (L : FloatLaws) (nc : NumCodec) (o : Opts) (hm : isMerge o = true)
    (ho : dispatchTag o = .list) (hprec : precOf o = 0) (a b : Json)
    (haw : a.wf = true) (har : a.rawDoc = true)
    (hbw : b.wf = true) (hbr : b.rawDoc = true) (hbn : b.nullFree = true)
    (hbf : b.finiteNums = true) (hbv : Yaml.voidFree b = true) (hbN : JText.NumOK nc b = true)
    (hab : a.isObj = true ∨ b ≠ .obj []) :
    ∃ text d' r, renderMergeM nc (diffM o a b) = .ok (some text) ∧
      readMergeM nc text = .ok d' ∧ patchM a d' = .ok r ∧
      equals o r b = true ∧ equivB o r b = true ∧ specEq r b = true ∧ r.listDoc = true := by
  have hov := V1T.objVoidFree_of_voidFree b hbv
  have G : GoodB b := ⟨hbw, hbr, hbn, hov, hbf⟩
  have hdl := dl_optcongr ho hprec a b
  have hrd := renderMergeDoc_diffM o ho hm a b har hbr hov
  have hrl : rl o a b = rl [] a b := by simp only [rl, hdl]
  rw [hrl, hdl] at hrd
  have S := sound L [] rfl rfl a haw har b G
  have hbl := rawDoc_listDoc b hbr
  have fin : ∀ r : Json, r.listDoc = true → specEq r b = true →
      equals o r b = true ∧ equivB o r b = true ∧ specEq r b = true ∧ r.listDoc = true := by
    intro r hrl hs
    have e : equivB o r b = true := by
      rw [DPL.equivB_congr o [] ho rfl (by rw [hprec]; rfl)]; exact hs
    exact ⟨by rw [equals_eq_equivB_list o ho r b hrl hbl]; exact e, e, hs, hrl⟩
  by_cases hd : dl [] a b = []
  · rw [if_pos hd] at hrd
    obtain ⟨s, h1, h2⟩ := JText.readMergeM_renderMergeM nc _ _ hrd (Or.inr rfl)
    refine ⟨s, _, a, h1, h2, ?_, fin a (rawDoc_listDoc a har) (S.1 hd)⟩
    rfl
  · rw [if_neg hd] at hrd
    have S2 := S.2 hd
    obtain ⟨c1, c2, c3, c4⟩ := V1M.pdoc_clean L a b haw har G hd hab
    have hT := V1T.tok_pdoc nc a b ⟨hbv, hbN⟩ hd
    have hp : JText.preOK nc (V1M.pdoc a b) = true := by
      rw [JText.preOK_iff, c1, hT.1, hT.2]; rfl
    obtain ⟨s, h1, h2⟩ := JText.readMergeM_renderMergeM nc _ (V1M.pdoc a b) hrd (Or.inr hp)
    rw [JText.rawNorm_eq_untag _ (JText.setFree_of_listDoc _ c3)] at h2
    have hs : specEq (mergePatch a (untag (V1M.pdoc a b))) b = true := by
      rw [V1T.mergePatch_untag_right har, specEq_untag_left]; exact S2.2.2
    have hl : (mergePatch a (untag (V1M.pdoc a b))).listDoc = true := by
      rw [V1T.mergePatch_untag_right har]; exact untag_listDoc _
    refine ⟨s, _, _, h1, h2, ?_, fin _ hl hs⟩
    exact merge_read_apply_partial a _ haw (by rw [untag_wf]; exact c1)
      (by rw [V1T.objVoidFree_untag]; exact c2) (by rw [V1T.clean_untag]; exact c4)

/-- the option list for `jd -f merge` (no `-set -mset -setkeys`) -/
def mergeOpts (fl : Flags) : List Opt := [Opt.merge, Opt.prec fl.precision]

theorem parsedOptions_mergeList (b : Binary) {fl : Flags} (hset : fl.set = false)
    (hmset : fl.mset = false) (hkeys : fl.setkeys = "") (hprec : fl.precision = 0)
    (hf : fl.f = "merge") : parsedOptions b fl = .ok (mergeOpts fl) := by
  rw [parsedOptions_same]
  simp [optionsOf, mergeOpts, hset, hmset, hkeys, hprec, hf, precNonZero]

theorem renderAs_merge_ok (nc : NumCodec) (Y : YamlCarrier) (color : Bool) (d : Diff) {text : String}
    (h : renderMergeM nc d = .ok (some text)) :
    renderAs (nativeLib nc Y) .merge color d = .ok text := by
  show ofOutcomeText (renderMergeM nc d) = .ok text
  rw [h]; rfl

theorem readDiff_merge_ok (nc : NumCodec) (Y : YamlCarrier) {T : String} {d' : Diff}
    (h : readMergeM nc T = .ok d') : (nativeLib nc Y).readDiff .merge T = .ok d' := by
  show ofOutcome (readMergeM nc T) = .ok d'
  rw [h]; rfl

/-- **`LibRoundTrip` for `-f merge`** (list reading), from `merge_lib_round_trip` -/
theorem libRoundTrip_merge (L : FloatLaws) (nc : NumCodec) (Y : YamlCarrier) (color : Bool)
    (o : Opts) (hm : isMerge o = true) (ho : dispatchTag o = .list) (hprec : precOf o = 0)
    (a b : Json) (haw : a.wf = true) (har : a.rawDoc = true)
    (hbw : b.wf = true) (hbr : b.rawDoc = true) (hbn : b.nullFree = true)
    (hbf : b.finiteNums = true) (hbv : Yaml.voidFree b = true) (hbN : JText.NumOK nc b = true)
    (hab : mergeRTDom a b = true) :
    LibRoundTrip (nativeLib nc Y) .merge color o a b
      (fun r => equals o r b = true ∧ equivB o r b = true ∧ specEq r b = true) := by
  obtain ⟨text, d', r, g1, g2, g3, g4, g5, g6, _⟩ := merge_lib_round_trip L nc o hm ho hprec a b haw
    har hbw hbr hbn hbf hbv hbN ((mergeRTDom_iff a b).1 hab)
  intro T hT
  rw [nativeLib_diff, renderAs_merge_ok nc Y color _ g1] at hT
  cases hT
  exact ⟨d', r, readDiff_merge_ok nc Y g2, by rw [nativeLib_patch, g3]; rfl, g4, g5, g6⟩

/-- **END TO END, `-f merge` (RFC 7386), list reading, v2 library** (`merge_cli_round_trip`):
    `jd -f merge [-yaml] [-color] [-o F] a b` followed by `jd -p -f merge [same flags] [-o G] T a`. -/
theorem merge_cli_round_trip (L : FloatLaws) (nc : NumCodec)
    (Y : YamlCarrier) (Ls : Bool → LibPack) (hL : Ls false = ⟨Json, Diff, nativeLib nc Y⟩)
    (b : Binary) {fl fl2 : Flags} {e1 e2 : Env}
    (hm : isDiffMode fl) (h : PatchTwin fl fl2) (hv2 : libIsV1 b fl = false)
    (hf : fl.f = "merge") (hset : fl.set = false) (hmset : fl.mset = false)
    (hkeys : fl.setkeys = "") (hprec : fl.precision = 0)
    (hn : fl.nargs = 1 ∨ fl.nargs = 2)
    {ta tb : String} {a b' : Json}
    (hi1 : e1.in1 = .ok ta) (hi2 : e1.in2 = .ok tb) (hw1 : fl.o = "" ∨ e1.write = .ok ())
    (hra : (nativeLib nc Y).readDoc fl.yaml ta = .ok a)
    (hrb : (nativeLib nc Y).readDoc fl.yaml tb = .ok b')
    (haw : a.wf = true) (har : a.rawDoc = true)
    (hbw : b'.wf = true) (hbr : b'.rawDoc = true) (hbn : b'.nullFree = true)
    (hbf : b'.finiteNums = true) (hbv : Yaml.voidFree b' = true) (hbN : JText.NumOK nc b' = true)
    (hab : mergeRTDom a b' = true)
    (hT : e2.in1 = .ok (emitted (proc Ls b fl e1)))
    (ha2 : e2.in2 = e1.in1) (hw : fl2.o = "" ∨ e2.write = .ok ()) :
    ∃ T d' r,
      parsedOptions b fl = .ok (mergeOpts fl) ∧
      renderMergeM nc (diffM (mergeOpts fl) a b') = .ok (some T) ∧
      readMergeM nc T = .ok d' ∧ patchM a d' = .ok r ∧
      equals (mergeOpts fl) r b' = true ∧ equivB (mergeOpts fl) r b' = true ∧
      specEq r b' = true ∧ r.listDoc = true ∧
      TwoRuns (proc Ls b fl e1) (proc Ls b fl2 e2) fl fl2 T
        (if (diffM (mergeOpts fl) a b').length > 0 then 1 else 0)
        ((nativeLib nc Y).renderDoc fl.yaml (mergeOpts fl) r) := by
  have ho := parsedOptions_mergeList b hset hmset hkeys hprec hf
  have hfmt : formatOf fl.f = some .merge := by rw [hf]; rfl
  obtain ⟨text, d', r, g1, g2, g3, g4, g5, g6, g7⟩ := merge_lib_round_trip L nc (mergeOpts fl) rfl rfl
    (by simp [mergeOpts, precOf, hprec]) a b' haw har hbw hbr hbn hbf hbv hbN
    ((mergeRTDom_iff a b').1 hab)
  refine ⟨text, d', r, ho, g1, g2, g3, g4, g5, g6, g7, ?_⟩
  exact native_total_cli_round_trip nc Y Ls hL b hm h hv2 ho hn hfmt hi1 hi2 hw1 hra hrb
    (renderAs_merge_ok nc Y _ _ g1) (readDiff_merge_ok nc Y g2) g3 hT ha2 hw

end MergeFmt

/-! ## 6. COUNTER-WITNESS (`-f merge`): a non-object against `{}` (KF-C12-emptyobj) -/

section MergeWitness
open Jd.Merge

/-- **`mergeRTDom` is needed**: for EVERY first document `a` that is not an object (as read from
    text) and `b = {}`, every codec, with or without `-color`: the documents differ, `RenderMerge`
    prints a text (the text of `{}`), `ReadMergeString` reads it as the EMPTY diff, `Patch` returns
    `a` unchanged, which does not `Equals` `b`: the library round trip FAILS. -/
theorem merge_emptyobj_no_libRoundTrip (nc : NumCodec) (Y : YamlCarrier) (color : Bool) (o : Opts)
    (hm : isMerge o = true) (ho : dispatchTag o = .list) (a : Json) (har : a.rawDoc = true)
    (hobj : a.isObj = false) :
    mergeRTDom a (.obj []) = false ∧
    ¬ LibRoundTrip (nativeLib nc Y) .merge color o a (.obj [])
        (fun r => equals o r (.obj []) = true) := by
  refine ⟨by simp [mergeRTDom, hobj, isEmptyObj], ?_⟩
  have hd : dl o a (.obj []) = [([], .obj [])] := by
    cases a with
    | arr t xs => exact dl_arr_other o t xs rfl
    | obj _ => simp [Json.isObj] at hobj
    | _ => simp [dl, equals, Json.isVoid, Json.isNull]
  have hrd : renderMergeDoc (diffM o a (.obj [])) = .ok (.obj []) := by
    rw [renderMergeDoc_diffM o ho hm a _ har rfl rfl]
    simp [rl, hd, nulE, mapply, mset, Json.isVoid]
  obtain ⟨s, h1, h2⟩ := JText.readMergeM_renderMergeM nc _ _ hrd (Or.inr rfl)
  have h3 : readMergeM nc s = .ok [] := h2
  intro H
  obtain ⟨d', r, g1, g2, g3⟩ := H s (by rw [nativeLib_diff]; exact renderAs_merge_ok nc Y color _ h1)
  rw [readDiff_merge_ok nc Y h3] at g1
  cases g1
  have : (nativeLib nc Y).patch a [] = .ok a := rfl
  rw [this] at g2
  cases g2
  revert g3
  cases a with
  | obj _ => simp [Json.isObj] at hobj
  | arr t xs =>
    simp only [Json.rawDoc, Bool.and_eq_true, beq_iff_eq] at har
    obtain ⟨rfl, _⟩ := har
    simp [equals, Json.dispatch]
  | _ => simp [equals, Json.isVoid, Json.isNull]

/-- **`nullFree b` is needed** (the domain of JSON Merge Patch; known): `{}` → `{"k":null}`.  The
    diff renders to the text of `{"k":null}`, which `ReadMergeString` reads as "delete `k`"; `Patch`
    returns `{}`, which does not `Equals` `{"k":null}`.  Every other hypothesis of
    `merge_lib_round_trip` holds for the pair (`mergeRTDom` included). -/
theorem merge_null_no_libRoundTrip (nc : NumCodec) (Y : YamlCarrier) (color : Bool) :
    mergeRTDom (.obj []) (.obj [("k", .null)]) = true ∧
    ¬ LibRoundTrip (nativeLib nc Y) .merge color [Opt.merge, Opt.prec 0] (.obj [])
        (.obj [("k", .null)])
        (fun r => equals [Opt.merge, Opt.prec 0] r (.obj [("k", .null)]) = true) := by
  refine ⟨rfl, ?_⟩
  have hrd : renderMergeDoc (diffM [Opt.merge, Opt.prec 0] (.obj []) (.obj [("k", .null)]))
      = .ok (.obj [("k", .null)]) := by
    rw [renderMergeDoc_diffM _ rfl rfl _ _ rfl rfl rfl]
    simp [rl, dl, dlKvs, alookup, nulE, mapply, mset, nest, putKvs, ainsert, Json.isVoid]
  obtain ⟨s, h1, h2⟩ := JText.readMergeM_renderMergeM nc _ _ hrd (Or.inr rfl)
  have h3 : readMergeM nc s = .ok [mh ["k"] .void] := by
    rw [h2, Yaml.rawNorm_of_rawDoc _ rfl, readMergeDoc_eq]
    simp [rdInto, rdKvs, consE, Json.isObj, objKvs, mh]
  intro H
  obtain ⟨d', r, g1, g2, g3⟩ := H s (by rw [nativeLib_diff]; exact renderAs_merge_ok nc Y color _ h1)
  rw [readDiff_merge_ok nc Y h3] at g1
  cases g1
  have : (nativeLib nc Y).patch (.obj []) [mh ["k"] .void] = .ok (.obj []) := by
    rw [nativeLib_patch]
    show ofOutcome (patchAll true _ ([(["k"], Json.void)].map (fun e => mh e.1 e.2))) = _
    rw [patchAll_mh]
    simp [mapply, mset, putKvs, aerase, Json.isVoid, ofOutcome]
  rw [this] at g2
  cases g2
  simp [equals, equalsKvs] at g3

end MergeWitness

#print axioms splitKeys_ne_nil
#print axioms total_core_round_trip
#print axioms native_total_cli_round_trip
#print axioms libRoundTrip_setmodes
#print axioms native_cli_round_trip_setmodes
#print axioms libRoundTrip_setkeys
#print axioms native_cli_round_trip_setkeys
#print axioms merge_lib_round_trip
#print axioms libRoundTrip_merge
#print axioms merge_cli_round_trip
#print axioms merge_emptyobj_no_libRoundTrip
#print axioms merge_null_no_libRoundTrip

end Jd.CliRTM
