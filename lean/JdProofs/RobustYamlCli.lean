/-
  JdProofs.RobustYamlCli (namespace `Jd.RobustYC`) — property C13, the two parts that had no theorem:
  (1) the YAML reader never panics; (2) the CLI clause "exits with status 2 and a one-line message
  rather than a Go stack trace".                                   STAGE REACHED: C (A, B, C all done).

  ═══ PART 1 — `NewJsonNode`, `raw()`, the `yamlize` contract, `ReadYamlString` (JdModel/Yaml.lean) ═══

  WHAT THE MODEL IS.  The text level of yaml.v2 / encoding/json is external code: no YAML text enters
  Lean.  `Raw` is Go's `interface{}` universe, `newJsonNodeM : Raw → Glue Json` is `NewJsonNode` of
  v2/node.go, `Glue = Except GlueErr`.  THERE IS NO `.panic` CONSTRUCTOR in `Glue`; the type switches of
  `NewJsonNode` all have a `default:` / `!ok` branch returning an error (`.unsupported`: int64, uint64,
  foreign types such as time.Time, NaN / ±Inf float64, a non-string map key, a jd node at the top).
  `int → float64` is a total conversion (`intToF64`, any magnitude, round to nearest even).  The ONE
  faulty path is `GlueErr.nilElem`: under `[]interface{}` an element that already is a jd `JsonNode` is
  skipped and its slot stays a nil interface — no error is returned and ANY later use of the node
  panics.  That is the model's latent panic; `glueOutcome` maps it to `Outcome.panic`.  `rawM : Json → Raw`
  and `yamlize : Raw → Raw` are total functions (nothing to prove about panics: by type).  The model has
  no `readYamlM`; it is defined HERE from the model's `unmarshalM` (`unmarshal` of node_read.go):
     `readYamlM dec s = glueOutcome (unmarshalM (trimGoSpace s).isEmpty (dec s))`,
  `dec : YamlDecoder = String → Option Raw` being `yaml.Unmarshal` (a PARAMETER: `none` = decoder error).

  MAIN THEOREMS (all hypotheses decidable predicates on the input)
   · `newJsonNodeM_classified`, `newJsonNodeM_nilElem_iff`, `newJsonNodeM_unsupported_iff`,
     `newJsonNodeM_ok_iff`, `newJsonNodeM_panic_iff` — for ALL `r : Raw`, NO hypothesis: the result is
     `.error .unsupported` iff `bad r`; `.error .nilElem` (= `.panic` under `glueOutcome`) iff
     `bad r = false ∧ slot r = true`; `.ok _` otherwise.  `bad` / `slot` are structural Boolean functions
     following the traversal (`slot`: a visited slice has an element that is a jd node).
   · `newJsonNodeM_ne_nilElem`, `newJsonNodeM_ne_panic`, `newJsonNodeM_decoder_value` — hypothesis
     `nodeFree r` (no jd node anywhere in the value).  JUSTIFICATION: that is every value a decoder can
     return — yaml.v2 and encoding/json do not know jd's types; they build maps, slices, float64, int,
     int64, uint64, string, bool, nil, time.Time.  Non-string keys, overflowing integers (uint64), NaN,
     ±Inf, duplicate keys, `map[string]` inside `map[interface{}]`, … are all INSIDE the hypothesis.
     Then the result is a node (iff `bad r = false`) or an error; never a nil slot.
   · `jsonRoundTripM_total`, `yamlRoundTripM_total`, `…_ne_nilElem` — for EVERY node `j` (typed arrays,
     void inside, unsorted / duplicate keys; NO `wf` hypothesis): `ReadJsonString(j.Json())` and
     `ReadYamlString(j.Yaml())` (through the contract) are `.ok _` iff all numbers of `rawNorm j` are
     finite and `.error .unsupported` otherwise.  (YamlProofs has the VALUE of the round trip under
     `wf`; this is totality without it.)
   · `readYamlM_ne_panic`, `readYamlM_cases` — hypothesis `DecoderValues dec` (the decoder returns
     `nodeFree` values — see above; nothing else is assumed of yaml.v2): for ANY string the reader returns
     void (blank text), an error (decoder error or `bad` value) or a node.
   · `read_yaml_then_patch_ne_panic`, `cli_patch_pipeline_ne_panic`,
     `yaml_round_trip_then_patch_ne_panic` — read YAML (or JSON), read a diff in ANY of the three
     formats, apply: never `.panic`, for any two strings, any `NumCodec`, any decoder behaviour
     (reusing `Jd.Robust.*_ne_panic`, `patchM_ne_panic`).
  BOUNDARY (not a decoder value; a defect for API callers of `NewJsonNode`, already noted in C16):
  `nilSlot_witness` — `NewJsonNode([]interface{}{jsonNode})` returns NO error and a node with a nil
  element (`.panic`); `dropped_member_witness` — under `map[interface{}]interface{}` a jd node member is
  silently dropped while under `map[string]interface{}` it is kept.
  NOT PROVED / NOT MODELLED: faults inside yaml.v2 itself (decoder panics, stack / memory exhaustion,
  alias bombs); `yaml.Marshal` failing inside `Yaml()` (`renderYaml` ends in `panic(err)`) — the
  proposition `Ym` of PART 2.

  ═══ PART 2 — the CLI clause, on `Jd.Cli.cliM` (JdModel/Cli.lean) ═══

  WHAT `LibResults` ABSTRACTS.  `cliM b fl r` is the decision logic of `main` as a pure function of the
  binary, the parsed flags and `r : LibResults`: for every call `main` may make (reading the inputs,
  `Read{Json,Yaml}String`, `Diff`, the renderers, `Read{Diff,Patch,Merge}String`, `Patch`, `WriteFile`,
  `serveWeb`) the record holds WHAT THE CALL RETURNED — a value or an error MESSAGE (`Except String _`).
  The bytes of library / OS messages are data, not modelled; the messages `main` composes itself are
  modelled exactly.  THE MODEL'S STDERR is a single string: empty, or exactly one record of Go's `log`
  package without its timestamp prefix, `logRecord m` = the message plus a newline unless it ends with
  one; `stderrClass` says whether that record is one line.  `cliM` HAS NO PANIC OUTCOME (a panicking
  call does not return anything `LibResults` could record); `CliRT.ofOutcome` maps `.panic` to an
  ordinary error.  The clause "rather than a Go stack trace" is therefore stated on a LIFTING defined
  here: `cliP b fl r cr`, where `cr : Call → Bool` says which calls do not return; it is `.goPanic`
  (exit 2, `panic: …` + stack trace) iff a call that is actually made does not return, and
  `.exited (cliM b fl r)` otherwise.

  `program b fl : List Step` — the steps of `main` for these flags in program order (checks of the
  command line with their verdict; calls), a function of the command line alone; `program_sound`: its
  first failing step is the error `Jd.Cli.run` ends with (through `run_error_eq_firstErr`), so the
  program IS what `main` does as far as errors are concerned.

  MAIN THEOREMS (no hypothesis unless stated; `b`, `fl`, `r` arbitrary)
   · `exit_two_iff` — exit status 2 ⇔ a check of the command line rejects it (bad flags: `-precision`
     with `-set`, an empty set key, `-port` with arguments, git driver without 7 arguments, `-p` with
     `-t`, wrong argument count, unknown `-f`, unknown `-t`) OR a call of the program returned an error
     (`failing_call_exits_two`, `rejected_flags_exit_two` for ⇐; exit ∈ {0,1,2} is `Cli.exit_range`).
   · `error_exit_contract` (MAIN 1) — on exit 2 EITHER stdout is empty, no `-o` file is written and
     stderr is exactly ONE log record `logRecord m`, `m` the error of the FIRST failing step (every
     earlier step succeeded), one line iff `oneLineMsg m` (no interior newline, `class_oneLine_iff`);
     OR `usageExit b fl` (decided by the flags alone, `usage_iff`): the usage text is on STDOUT and
     stderr is EMPTY.
   · `failing_call_contract` (MAIN 2) — a call of the program fails ⇒ the first alternative.
   · `own_messages_oneLine`, `exit_two_oneLine` (MAIN 7) — every message `main` composes is one line
     (`%q` escapes newlines: `goQuote_no_nl`) EXCEPT `invalid set key: %v`; so the record is one line if
     the library / OS messages are and no refused piece of `-setkeys` has an interior newline.
   · `cliP_goPanic_iff`, `cliP_of_no_crash`, `callsMade_of_no_plan` (MAIN 3) — a call that does not
     return AND is reached is the only way to `.goPanic`; a rejected plan (`planOf = none`) makes no
     library call (except `serveWeb`).
   · `modelPanics_only_render`, `model_readOrApply_never_panics` (MAIN 4), `cli_stack_trace_only_from_marshal`,
     `cli_never_stack_trace` (MAIN 5) — for the MODEL library behind the calls (JSON and YAML carrier;
     hypothesis `DecoderValues dec` of PART 1): no document reader, diff reader (3 formats), `Patch`,
     `RenderPatch`, `RenderMerge`, nor the reading part of `-t` can panic on any input, so if `cr` is
     justified by the model (`cr c → ModelPanics … c`), a stack trace implies `RenderPanics nc Ym`
     (`json.Marshal` / `yaml.Marshal` failing inside `Render()` / `Json()` / `Yaml()`, which end in
     `panic(err)` and have no error result); under `¬ RenderPanics` there is none.
   · `shielded_never_stack_trace`, `patch_mode_error_shielded`, `diff_mode_error_shielded` (MAIN 6) —
     on the ERROR PATHS the clause is about (unreadable input, malformed document, malformed diff /
     patch / merge patch, patch that does not apply) no marshalling call is reached, so NO hypothesis on
     marshalling is needed: exit 2, one record, no stack trace.
  COUNTER-WITNESSES to the clause as worded ("exit 2 and a one-line message"), all faithful to main.go:
   · `usage_witness` — `jd` without arguments (any wrong argument count): exit 2, NOTHING on stderr,
     the multi-line usage text on STDOUT (`printUsageAndExit`: `fmt.Println` + `os.Exit(2)`).
   · `multiLine_setkeys_witness` — `jd -setkeys $'a,\n\n' x y`: the record `invalid set key: \n\n` has
     two lines (`%v`, not `%q`).  Cosmetic.
   · `multiLine_library_message_witness` — a library / OS message with an interior newline gives a
     multi-line record; whether real messages have one is outside the model (`LibResults`).
  NOT PROVED: `¬ RenderPanics nc Ym` (it is FALSE for an arbitrary `NumCodec`: `renderM` / `jsonM` return
  `none` when the codec cannot print a number, e.g. NaN; that the documents the CLI reads never contain
  such a number is a property of the codec contract, see NativeEndToEnd `marshalNode … isSome`); the v1
  library (`-v2=false`: `cliM` covers the binary, but `ModelPanics` speaks of the v2 model only);
  `runAsGitHubAction`; the timestamp prefix; that `main` itself has no faulting operation is by
  inspection of main.go (no indexing / assertion / nil dereference on the modelled paths), not a theorem.
-/
import JdModel.Yaml
import JdModel.Cli
import JdProofs.NoPanic
import JdProofs.RobustReaders
import JdProofs.YamlProofs
import JdProofs.CliProofs
import Batteries.Data.String.Lemmas

set_option autoImplicit false

namespace Jd.RobustYC
open Jd Jd.Yaml

/-! ## §1 the glue `NewJsonNode`: exact classification of the result for ALL `Raw` inputs -/

/-- the error (if any) of a glue result -/
def errOf? {α} : Glue α → Option GlueErr
  | .ok _ => none
  | .error e => some e

/-- how the errors of two sub-results combine in `both`: `unsupported` anywhere wins, then a nil slot -/
def combine : Option GlueErr → Option GlueErr → Option GlueErr
  | some .unsupported, _ => some .unsupported
  | _, some .unsupported => some .unsupported
  | none, none => none
  | _, _ => some .nilElem

theorem errOf?_both {α β γ} (f : α → β → γ) (x : Glue α) (y : Glue β) :
    errOf? (both f x y) = combine (errOf? x) (errOf? y) := by
  cases x with
  | ok a =>
    cases y with
    | ok b => rfl
    | error e => cases e <;> rfl
  | error e =>
    cases e with
    | unsupported => rfl
    | nilElem =>
      cases y with
      | ok b => rfl
      | error e' => cases e' <;> rfl

theorem errOf?_map {α β} (f : α → β) (x : Glue α) : errOf? (x.map f) = errOf? x := by
  cases x <;> rfl

mutual
/-- `NewJsonNode` returns an error: somewhere on the traversal there is a value of an unsupported
    dynamic type (int64, uint64, a foreign type, a JsonNode at the top), a NaN / ±Inf float64, or a
    map key that is not a string.  Values that already are JsonNodes are NOT visited below a map or a
    slice (they are stored, dropped, or leave a nil slot). -/
def bad : Raw → Bool
  | .mapS kvs => badS kvs
  | .mapI kvs => badI kvs
  | .slice xs => badL xs
  | .f64 b => !isFinite64 b
  | .int _ => false
  | .str _ => false
  | .bool _ => false
  | .nil => false
  | .int64 _ => true
  | .uint64 _ => true
  | .other _ => true
  | .node _ => true
def badS : List (String × Raw) → Bool
  | [] => false
  | (_, v) :: r =>
    (match asNode? v with
      | some _ => false
      | none => bad v) || badS r
def badI : List (Raw × Raw) → Bool
  | [] => false
  | (key, v) :: r =>
    (match key with
      | .str _ =>
        (match asNode? v with
          | some _ => false
          | none => bad v)
      | _ => true) || badI r
def badL : List Raw → Bool
  | [] => false
  | x :: r =>
    (match asNode? x with
      | some _ => false
      | none => bad x) || badL r
end

mutual
/-- the traversal of `NewJsonNode` meets a `[]interface{}` with an element that already is a
    JsonNode: the slot of the result stays a nil interface (a LATENT PANIC) -/
def slot : Raw → Bool
  | .mapS kvs => slotS kvs
  | .mapI kvs => slotI kvs
  | .slice xs => slotL xs
  | _ => false
def slotS : List (String × Raw) → Bool
  | [] => false
  | (_, v) :: r =>
    (match asNode? v with
      | some _ => false
      | none => slot v) || slotS r
def slotI : List (Raw × Raw) → Bool
  | [] => false
  | (key, v) :: r =>
    (match key with
      | .str _ =>
        (match asNode? v with
          | some _ => false
          | none => slot v)
      | _ => false) || slotI r
def slotL : List Raw → Bool
  | [] => false
  | x :: r =>
    (match asNode? x with
      | some _ => true
      | none => slot x) || slotL r
end

/-- the classification as one function -/
def classify (b s : Bool) : Option GlueErr :=
  if b then some .unsupported else if s then some .nilElem else none

theorem combine_classify (b1 s1 b2 s2 : Bool) :
    combine (classify b1 s1) (classify b2 s2) = classify (b1 || b2) (s1 || s2) := by
  cases b1 <;> cases s1 <;> cases b2 <;> cases s2 <;> rfl

mutual
theorem errOf?_new : ∀ r : Raw, errOf? (newJsonNodeM r) = classify (bad r) (slot r)
  | .mapS kvs => by
    simp only [newJsonNodeM, errOf?_map, bad, slot]; exact errOf?_newMapS kvs
  | .mapI kvs => by
    simp only [newJsonNodeM, errOf?_map, bad, slot]; exact errOf?_newMapI kvs
  | .slice xs => by
    simp only [newJsonNodeM, errOf?_map, bad, slot]; exact errOf?_newSlice xs
  | .f64 b => by
    simp only [newJsonNodeM, bad, slot]
    cases isFinite64 b <;> rfl
  | .int _ => rfl
  | .str _ => rfl
  | .bool _ => rfl
  | .nil => rfl
  | .int64 _ => rfl
  | .uint64 _ => rfl
  | .other _ => rfl
  | .node _ => rfl
theorem errOf?_newMapS : ∀ kvs : List (String × Raw),
    errOf? (newMapS kvs) = classify (badS kvs) (slotS kvs)
  | [] => rfl
  | (k, v) :: r => by
    simp only [newMapS, errOf?_both, badS, slotS, ← combine_classify]
    rw [errOf?_newMapS r]
    congr 1
    cases h : asNode? v with
    | some j => rfl
    | none => exact errOf?_new v
theorem errOf?_newMapI : ∀ kvs : List (Raw × Raw),
    errOf? (newMapI kvs) = classify (badI kvs) (slotI kvs)
  | [] => rfl
  | (key, v) :: r => by
    have ih := errOf?_newMapI r
    cases key with
    | str k =>
      simp only [newMapI, badI, slotI]
      cases h : asNode? v with
      | some j =>
        simp only [ih, Bool.false_or]
      | none =>
        simp only [errOf?_both, ← combine_classify, ih]
        congr 1
        exact errOf?_new v
    | _ =>
      simp only [newMapI, errOf?_both, badI, slotI, ← combine_classify, ih]
      rfl
theorem errOf?_newSlice : ∀ xs : List Raw,
    errOf? (newSlice xs) = classify (badL xs) (slotL xs)
  | [] => rfl
  | x :: r => by
    have ih := errOf?_newSlice r
    simp only [newSlice, badL, slotL]
    cases h : asNode? x with
    | some j =>
      simp only [errOf?_both, ← combine_classify, ih]
      rfl
    | none =>
      simp only [errOf?_both, ← combine_classify, ih]
      congr 1
      exact errOf?_new x
end

/-- **the result of `NewJsonNode`, for EVERY Go value**: an error iff `bad`, otherwise a result
    with a nil slot iff `slot`, otherwise a proper node -/
theorem newJsonNodeM_classified (r : Raw) :
    (bad r = true → newJsonNodeM r = .error .unsupported) ∧
    (bad r = false → slot r = true → newJsonNodeM r = .error .nilElem) ∧
    (bad r = false → slot r = false → ∃ j, newJsonNodeM r = .ok j) := by
  have h := errOf?_new r
  refine ⟨fun hb => ?_, fun hb hs => ?_, fun hb hs => ?_⟩
  · simp only [hb, classify] at h
    cases hn : newJsonNodeM r with
    | ok j => rw [hn] at h; cases h
    | error e => rw [hn] at h; injection h with h; rw [h]
  · simp only [hb, hs, classify] at h
    cases hn : newJsonNodeM r with
    | ok j => rw [hn] at h; cases h
    | error e => rw [hn] at h; injection h with h; rw [h]
  · simp only [hb, hs, classify] at h
    cases hn : newJsonNodeM r with
    | ok j => exact ⟨j, rfl⟩
    | error e => rw [hn] at h; cases h

theorem newJsonNodeM_nilElem_iff (r : Raw) :
    newJsonNodeM r = .error .nilElem ↔ bad r = false ∧ slot r = true := by
  have h := errOf?_new r
  constructor
  · intro hn
    rw [hn] at h
    cases hb : bad r <;> cases hs : slot r <;> simp [hb, hs, classify, errOf?] at h ⊢
  · rintro ⟨hb, hs⟩
    exact (newJsonNodeM_classified r).2.1 hb hs

theorem newJsonNodeM_unsupported_iff (r : Raw) :
    newJsonNodeM r = .error .unsupported ↔ bad r = true := by
  have h := errOf?_new r
  constructor
  · intro hn
    rw [hn] at h
    cases hb : bad r <;> cases hs : slot r <;> simp [hb, hs, classify, errOf?] at h ⊢
  · exact (newJsonNodeM_classified r).1

theorem newJsonNodeM_ok_iff (r : Raw) :
    (∃ j, newJsonNodeM r = .ok j) ↔ bad r = false ∧ slot r = false := by
  have h := errOf?_new r
  constructor
  · rintro ⟨j, hn⟩
    rw [hn] at h
    cases hb : bad r <;> cases hs : slot r <;> simp [hb, hs, classify, errOf?] at h ⊢
  · rintro ⟨hb, hs⟩
    exact (newJsonNodeM_classified r).2.2 hb hs

/-! ### values a DECODER can return: no jd node inside -/

mutual
/-- no value that already is a jd `JsonNode` occurs anywhere (keys included).  This is what
    encoding/json and yaml.v2 return: neither package knows jd's node types, they build
    `map[string]interface{}` / `map[interface{}]interface{}`, `[]interface{}`, float64, int, int64,
    uint64, string, bool, nil and (yaml.v2, for `!!timestamp`) `time.Time` = `.other`. -/
def nodeFree : Raw → Bool
  | .mapS kvs => nodeFreeS kvs
  | .mapI kvs => nodeFreeI kvs
  | .slice xs => nodeFreeL xs
  | .node _ => false
  | _ => true
def nodeFreeS : List (String × Raw) → Bool
  | [] => true
  | (_, v) :: r => nodeFree v && nodeFreeS r
def nodeFreeI : List (Raw × Raw) → Bool
  | [] => true
  | (k, v) :: r => nodeFree k && nodeFree v && nodeFreeI r
def nodeFreeL : List Raw → Bool
  | [] => true
  | x :: r => nodeFree x && nodeFreeL r
end

theorem asNode?_of_nodeFree {r : Raw} (h : nodeFree r = true) : asNode? r = none := by
  cases r <;> first | rfl | (simp [nodeFree] at h)

mutual
theorem slot_of_nodeFree : ∀ r : Raw, nodeFree r = true → slot r = false
  | .mapS kvs, h => by simp only [nodeFree] at h; simp only [slot]; exact slotS_of_nodeFree kvs h
  | .mapI kvs, h => by simp only [nodeFree] at h; simp only [slot]; exact slotI_of_nodeFree kvs h
  | .slice xs, h => by simp only [nodeFree] at h; simp only [slot]; exact slotL_of_nodeFree xs h
  | .f64 _, _ => rfl
  | .int _, _ => rfl
  | .int64 _, _ => rfl
  | .uint64 _, _ => rfl
  | .str _, _ => rfl
  | .bool _, _ => rfl
  | .nil, _ => rfl
  | .other _, _ => rfl
  | .node _, _ => rfl
theorem slotS_of_nodeFree : ∀ kvs : List (String × Raw), nodeFreeS kvs = true → slotS kvs = false
  | [], _ => rfl
  | (k, v) :: r, h => by
    simp only [nodeFreeS, Bool.and_eq_true] at h
    simp only [slotS, asNode?_of_nodeFree h.1, slot_of_nodeFree v h.1, slotS_of_nodeFree r h.2,
      Bool.or_self]
theorem slotI_of_nodeFree : ∀ kvs : List (Raw × Raw), nodeFreeI kvs = true → slotI kvs = false
  | [], _ => rfl
  | (key, v) :: r, h => by
    simp only [nodeFreeI, Bool.and_eq_true] at h
    have ih := slotI_of_nodeFree r h.2
    cases key <;>
      simp only [slotI, asNode?_of_nodeFree h.1.2, slot_of_nodeFree v h.1.2, ih, Bool.or_self]
theorem slotL_of_nodeFree : ∀ xs : List Raw, nodeFreeL xs = true → slotL xs = false
  | [], _ => rfl
  | x :: r, h => by
    simp only [nodeFreeL, Bool.and_eq_true] at h
    simp only [slotL, asNode?_of_nodeFree h.1, slot_of_nodeFree x h.1, slotL_of_nodeFree r h.2,
      Bool.or_self]
end

/-- **`NewJsonNode` on a decoder value never leaves a nil slot** (the latent panic of the glue is
    unreachable from `ReadJsonString` / `ReadYamlString`): the result is a node or an error -/
theorem newJsonNodeM_ne_nilElem (r : Raw) (h : nodeFree r = true) :
    newJsonNodeM r ≠ .error .nilElem := by
  intro hn
  have := ((newJsonNodeM_nilElem_iff r).1 hn).2
  rw [slot_of_nodeFree r h] at this
  cases this

/-- … and which of the two it is, is decided by `bad` -/
theorem newJsonNodeM_decoder_value (r : Raw) (h : nodeFree r = true) :
    (bad r = true ∧ newJsonNodeM r = .error .unsupported) ∨
    (bad r = false ∧ ∃ j, newJsonNodeM r = .ok j) := by
  cases hb : bad r
  · exact .inr ⟨rfl, (newJsonNodeM_classified r).2.2 hb (slot_of_nodeFree r h)⟩
  · exact .inl ⟨rfl, (newJsonNodeM_classified r).1 hb⟩

/-! ### `raw()`, the `yamlize` contract, and the two round trips, for EVERY node -/

theorem isFinite64_of_floatToInt {b : UInt64} {i : Int} (h : floatToInt? b = some i) :
    isFinite64 b = true := by
  unfold floatToInt? at h
  simp only at h
  split at h
  · cases h
  · rename_i hne
    unfold isFinite64
    simp only [bne_iff_ne, ne_eq]
    intro heq
    apply hne
    rw [heq]
    rfl

theorem nodeFree_yamlizeNum (b : UInt64) : nodeFree (yamlizeNum b) = true := by
  unfold yamlizeNum
  split
  · split <;> rfl
  · rfl

theorem bad_yamlizeNum (b : UInt64) : bad (yamlizeNum b) = !isFinite64 b := by
  unfold yamlizeNum
  split
  · rename_i i hi
    rw [isFinite64_of_floatToInt hi]
    split <;> simp [bad, isFinite64_of_floatToInt hi]
  · rfl

mutual
theorem nodeFree_rawOf : ∀ d : Json, nodeFree (rawOf d) = true
  | .void => rfl
  | .null => rfl
  | .bool _ => rfl
  | .num _ => rfl
  | .str _ => rfl
  | .arr _ xs => by simp only [rawOf, nodeFree]; exact nodeFreeL_rawOfList xs
  | .obj kvs => by simp only [rawOf, nodeFree]; exact nodeFreeS_rawOfKvs kvs
theorem nodeFreeL_rawOfList : ∀ xs : List Json, nodeFreeL (rawOfList xs) = true
  | [] => rfl
  | x :: r => by simp only [rawOfList, nodeFreeL, nodeFree_rawOf x, nodeFreeL_rawOfList r, Bool.and_self]
theorem nodeFreeS_rawOfKvs : ∀ kvs : List (String × Json), nodeFreeS (rawOfKvs kvs) = true
  | [] => rfl
  | (k, v) :: r => by
    simp only [rawOfKvs, nodeFreeS, nodeFree_rawOf v, nodeFreeS_rawOfKvs r, Bool.and_self]
end

mutual
/-- the contract `yamlize` does not create jd nodes -/
theorem nodeFree_yamlize : ∀ r : Raw, nodeFree r = true → nodeFree (yamlize r) = true
  | .mapS kvs, h => by
    simp only [nodeFree] at h; simp only [yamlize, nodeFree]; exact nodeFreeI_yamlizeKvs kvs h
  | .slice xs, h => by
    simp only [nodeFree] at h; simp only [yamlize, nodeFree]; exact nodeFreeL_yamlizeList xs h
  | .f64 b, _ => by simp only [yamlize]; exact nodeFree_yamlizeNum b
  | .mapI _, h => h
  | .int _, _ => rfl
  | .int64 _, _ => rfl
  | .uint64 _, _ => rfl
  | .str _, _ => rfl
  | .bool _, _ => rfl
  | .nil, _ => rfl
  | .other _, _ => rfl
  | .node _, h => h
theorem nodeFreeL_yamlizeList : ∀ xs : List Raw, nodeFreeL xs = true → nodeFreeL (yamlizeList xs) = true
  | [], _ => rfl
  | x :: r, h => by
    simp only [nodeFreeL, Bool.and_eq_true] at h
    simp only [yamlizeList, nodeFreeL, nodeFree_yamlize x h.1, nodeFreeL_yamlizeList r h.2, Bool.and_self]
theorem nodeFreeI_yamlizeKvs : ∀ kvs : List (String × Raw), nodeFreeS kvs = true →
    nodeFreeI (yamlizeKvs kvs) = true
  | [], _ => rfl
  | (k, v) :: r, h => by
    simp only [nodeFreeS, Bool.and_eq_true] at h
    simp only [yamlizeKvs, nodeFreeI, nodeFree, nodeFree_yamlize v h.1, nodeFreeI_yamlizeKvs r h.2,
      Bool.and_self]
end

mutual
/-- on `raw()` values the glue errs exactly on a non-finite number … -/
theorem bad_rawOf : ∀ d : Json, bad (rawOf d) = !finite d
  | .void => rfl
  | .null => rfl
  | .bool _ => rfl
  | .num _ => rfl
  | .str _ => rfl
  | .arr _ xs => by simp only [rawOf, bad, finite]; exact badL_rawOfList xs
  | .obj kvs => by simp only [rawOf, bad, finite]; exact badS_rawOfKvs kvs
theorem badL_rawOfList : ∀ xs : List Json, badL (rawOfList xs) = !finiteList xs
  | [] => rfl
  | x :: r => by
    simp only [rawOfList, badL, finiteList, asNode?_rawOf, bad_rawOf x, badL_rawOfList r, Bool.not_and]
theorem badS_rawOfKvs : ∀ kvs : List (String × Json), badS (rawOfKvs kvs) = !finiteKvs kvs
  | [] => rfl
  | (k, v) :: r => by
    simp only [rawOfKvs, badS, finiteKvs, asNode?_rawOf, bad_rawOf v, badS_rawOfKvs r, Bool.not_and]
end

mutual
/-- … and so it does on what yaml.v2 makes of them (the contract) -/
theorem bad_yamlize_rawOf : ∀ d : Json, bad (yamlize (rawOf d)) = !finite d
  | .void => rfl
  | .null => rfl
  | .bool _ => rfl
  | .num b => by simp only [rawOf, yamlize, finite]; exact bad_yamlizeNum b
  | .str _ => rfl
  | .arr _ xs => by simp only [rawOf, yamlize, bad, finite]; exact badL_yamlize_rawOfList xs
  | .obj kvs => by simp only [rawOf, yamlize, bad, finite]; exact badI_yamlize_rawOfKvs kvs
theorem badL_yamlize_rawOfList : ∀ xs : List Json, badL (yamlizeList (rawOfList xs)) = !finiteList xs
  | [] => rfl
  | x :: r => by
    simp only [rawOfList, yamlizeList, badL, finiteList, asNode?_yamlize_rawOf, bad_yamlize_rawOf x,
      badL_yamlize_rawOfList r, Bool.not_and]
theorem badI_yamlize_rawOfKvs : ∀ kvs : List (String × Json),
    badI (yamlizeKvs (rawOfKvs kvs)) = !finiteKvs kvs
  | [] => rfl
  | (k, v) :: r => by
    simp only [rawOfKvs, yamlizeKvs, badI, finiteKvs, asNode?_yamlize_rawOf, bad_yamlize_rawOf v,
      badI_yamlize_rawOfKvs r, Bool.not_and]
end

/-- `raw()` is a total function (no partial operation: type `Json → Raw`) and yields a decoder-like
    value; so does the `yamlize` contract on it -/
theorem nodeFree_rawM (j : Json) : nodeFree (rawM j) = true := nodeFree_rawOf _
theorem nodeFree_yamlize_rawM (j : Json) : nodeFree (yamlize (rawM j)) = true :=
  nodeFree_yamlize _ (nodeFree_rawM j)

/-- **`ReadJsonString(n.Json())` on the glue, for EVERY node `n`** (typed arrays, void inside,
    duplicate or unsorted keys, anything): a node when all numbers are finite, an error otherwise;
    never a nil slot -/
theorem jsonRoundTripM_total (j : Json) :
    (finite (rawNorm j) = true ∧ ∃ d, jsonRoundTripM j = .ok d) ∨
    (finite (rawNorm j) = false ∧ jsonRoundTripM j = .error .unsupported) := by
  unfold jsonRoundTripM
  rcases newJsonNodeM_decoder_value _ (nodeFree_rawM j) with ⟨hb, h⟩ | ⟨hb, h⟩
  · right
    refine ⟨?_, h⟩
    rw [rawM, bad_rawOf] at hb
    simpa using hb
  · left
    refine ⟨?_, h⟩
    rw [rawM, bad_rawOf] at hb
    simpa using hb

/-- **`ReadYamlString(n.Yaml())` through the contract, for EVERY node `n`**: the same -/
theorem yamlRoundTripM_total (j : Json) :
    (finite (rawNorm j) = true ∧ ∃ d, yamlRoundTripM j = .ok d) ∨
    (finite (rawNorm j) = false ∧ yamlRoundTripM j = .error .unsupported) := by
  unfold yamlRoundTripM
  rcases newJsonNodeM_decoder_value _ (nodeFree_yamlize_rawM j) with ⟨hb, h⟩ | ⟨hb, h⟩
  · right
    refine ⟨?_, h⟩
    rw [rawM, bad_yamlize_rawOf] at hb
    simpa using hb
  · left
    refine ⟨?_, h⟩
    rw [rawM, bad_yamlize_rawOf] at hb
    simpa using hb

theorem jsonRoundTripM_ne_nilElem (j : Json) : jsonRoundTripM j ≠ .error .nilElem :=
  newJsonNodeM_ne_nilElem _ (nodeFree_rawM j)
theorem yamlRoundTripM_ne_nilElem (j : Json) : yamlRoundTripM j ≠ .error .nilElem :=
  newJsonNodeM_ne_nilElem _ (nodeFree_yamlize_rawM j)

/-! ## §2 the YAML reader as an `Outcome`, and the pipeline read – read – apply -/

/-- a glue result in the three-valued `Outcome` of the library model: an error value is `.err`; a
    result with a nil slot is counted as `.panic` (no error is returned, and ANY later use of the
    node — `Json()`, `Equals`, `Diff`, `Patch`, `hashCode` — dereferences the nil interface) -/
def glueOutcome {α} : Glue α → Jd.Outcome α
  | .ok a => .ok a
  | .error .unsupported => .err
  | .error .nilElem => .panic

/-- the text level of yaml.v2 (`yaml.Unmarshal` into an `interface{}`) is external code and is NOT
    modelled: a decoder is a parameter — `none` is a decoder error, `some r` the Go value -/
abbrev YamlDecoder := String → Option Raw

/-- the only thing assumed of yaml.v2: it does not manufacture jd nodes (it cannot: it does not
    import jd; see `nodeFree`).  Non-string keys, int64 / uint64, `time.Time`, NaN and ±Inf, duplicate
    keys … are all ALLOWED. -/
def DecoderValues (dec : YamlDecoder) : Prop := ∀ s r, dec s = some r → nodeFree r = true

/-- `ReadYamlString` (node_read.go: `unmarshal(bytes, yaml.Unmarshal)`): blank text
    (`strings.Trim(s, " \t\r\n") == ""`, the same test as in `readJsonM`) is the void document and
    the decoder is not called; otherwise `NewJsonNode` of what the decoder returned -/
def readYamlM (dec : YamlDecoder) (s : String) : Jd.Outcome Json :=
  glueOutcome (unmarshalM (trimGoSpace s).isEmpty (dec s))

theorem glueOutcome_panic_iff {α} (x : Glue α) : glueOutcome x = .panic ↔ x = .error .nilElem := by
  cases x with
  | ok a => simp [glueOutcome]
  | error e => cases e <;> simp [glueOutcome]

/-- `NewJsonNode` as an `Outcome`, for ALL Go values: `.panic` (the latent nil slot) exactly when a
    visited `[]interface{}` holds a jd node and nothing on the traversal is unsupported -/
theorem newJsonNodeM_panic_iff (r : Raw) :
    glueOutcome (newJsonNodeM r) = .panic ↔ bad r = false ∧ slot r = true := by
  rw [glueOutcome_panic_iff, newJsonNodeM_nilElem_iff]

/-- **`NewJsonNode` never panics on a decoder value** -/
theorem newJsonNodeM_ne_panic (r : Raw) (h : nodeFree r = true) :
    glueOutcome (newJsonNodeM r) ≠ .panic := by
  rw [Ne, glueOutcome_panic_iff]
  exact newJsonNodeM_ne_nilElem r h

/-- `unmarshal` never panics whatever the decoder did, as long as its value holds no jd node -/
theorem unmarshalM_ne_panic (blank : Bool) (d : Option Raw)
    (h : ∀ r, d = some r → nodeFree r = true) : glueOutcome (unmarshalM blank d) ≠ .panic := by
  unfold unmarshalM
  cases blank
  · cases d with
    | none => simp [glueOutcome]
    | some r => simpa using newJsonNodeM_ne_panic r (h r rfl)
  · simp [glueOutcome]

/-- **reading ANY string as YAML: a document or an error** -/
theorem readYamlM_ne_panic (dec : YamlDecoder) (hd : DecoderValues dec) (s : String) :
    readYamlM dec s ≠ .panic :=
  unmarshalM_ne_panic _ _ (fun r hr => hd s r hr)

/-- what `ReadYamlString` returns, exactly -/
theorem readYamlM_cases (dec : YamlDecoder) (hd : DecoderValues dec) (s : String) :
    ((trimGoSpace s).isEmpty = true ∧ readYamlM dec s = .ok .void) ∨
    ((trimGoSpace s).isEmpty = false ∧ dec s = none ∧ readYamlM dec s = .err) ∨
    (∃ r, (trimGoSpace s).isEmpty = false ∧ dec s = some r ∧ bad r = true ∧ readYamlM dec s = .err) ∨
    (∃ r j, (trimGoSpace s).isEmpty = false ∧ dec s = some r ∧ bad r = false ∧
      newJsonNodeM r = .ok j ∧ readYamlM dec s = .ok j) := by
  unfold readYamlM unmarshalM
  cases hb : (trimGoSpace s).isEmpty
  · cases hds : dec s with
    | none => right; left; simp [glueOutcome]
    | some r =>
      rcases newJsonNodeM_decoder_value r (hd s r hds) with ⟨hbad, h⟩ | ⟨hbad, j, h⟩
      · right; right; left
        exact ⟨r, rfl, rfl, hbad, by simp [h, glueOutcome]⟩
      · right; right; right
        exact ⟨r, j, rfl, rfl, hbad, h, by simp [h, glueOutcome]⟩
  · left; simp [glueOutcome]

/-- the document reader the CLI selects with `-yaml` -/
def readDocM (nc : NumCodec) (dec : YamlDecoder) (yaml : Bool) (s : String) : Jd.Outcome Json :=
  if yaml then readYamlM dec s else readJsonM nc s

theorem readDocM_ne_panic (nc : NumCodec) (dec : YamlDecoder) (hd : DecoderValues dec)
    (yaml : Bool) (s : String) : readDocM nc dec yaml s ≠ .panic := by
  unfold readDocM
  split
  · exact readYamlM_ne_panic dec hd s
  · exact Robust.readJsonM_ne_panic nc s

/-- the diff reader the CLI selects with `-f` -/
def readDiffFmtM (nc : NumCodec) : Cli.Format → String → Jd.Outcome Diff
  | .jd => readDiffM nc
  | .patch => readPatchM nc
  | .merge => readMergeM nc

theorem readDiffFmtM_ne_panic (nc : NumCodec) (fmt : Cli.Format) (s : String) :
    readDiffFmtM nc fmt s ≠ .panic := by
  cases fmt
  · exact Robust.readDiffM_ne_panic nc s
  · exact Robust.readPatchM_ne_panic nc s
  · exact Robust.readMergeM_ne_panic nc s

/-- **the pipeline: read `doc` as YAML, read `text` as a diff in any of the three formats, apply —
    for ANY two strings and ANY decoder behaviour the outcome is a result or an error** -/
theorem read_yaml_then_patch_ne_panic (nc : NumCodec) (dec : YamlDecoder) (hd : DecoderValues dec)
    (doc text : String) :
    (readYamlM dec doc >>= fun c => readDiffM nc text >>= fun d => patchM c d) ≠ .panic ∧
    (readYamlM dec doc >>= fun c => readPatchM nc text >>= fun d => patchM c d) ≠ .panic ∧
    (readYamlM dec doc >>= fun c => readMergeM nc text >>= fun d => patchM c d) ≠ .panic := by
  refine ⟨?_, ?_, ?_⟩
  · refine Outcome.bind_ne_panic _ _ (readYamlM_ne_panic dec hd _) fun c _ => ?_
    exact Outcome.bind_ne_panic _ _ (Robust.readDiffM_ne_panic _ _) fun d _ => patchM_ne_panic c d
  · refine Outcome.bind_ne_panic _ _ (readYamlM_ne_panic dec hd _) fun c _ => ?_
    exact Outcome.bind_ne_panic _ _ (Robust.readPatchM_ne_panic _ _) fun d _ => patchM_ne_panic c d
  · refine Outcome.bind_ne_panic _ _ (readYamlM_ne_panic dec hd _) fun c _ => ?_
    exact Outcome.bind_ne_panic _ _ (Robust.readMergeM_ne_panic _ _) fun d _ => patchM_ne_panic c d

/-- the same in the order `printPatch` makes the calls (diff first, then the document), for both
    carriers and all formats -/
theorem cli_patch_pipeline_ne_panic (nc : NumCodec) (dec : YamlDecoder) (hd : DecoderValues dec)
    (yaml : Bool) (fmt : Cli.Format) (text doc : String) :
    (readDiffFmtM nc fmt text >>= fun d => readDocM nc dec yaml doc >>= fun a => patchM a d)
      ≠ .panic := by
  refine Outcome.bind_ne_panic _ _ (readDiffFmtM_ne_panic nc fmt text) fun d _ => ?_
  exact Outcome.bind_ne_panic _ _ (readDocM_ne_panic nc dec hd yaml doc) fun a _ => patchM_ne_panic a d

/-- a YAML document round-tripped through the contract and then patched with any read diff -/
theorem yaml_round_trip_then_patch_ne_panic (nc : NumCodec) (j : Json) (fmt : Cli.Format)
    (text : String) :
    (glueOutcome (yamlRoundTripM j) >>= fun c => readDiffFmtM nc fmt text >>= fun d => patchM c d)
      ≠ .panic := by
  refine Outcome.bind_ne_panic _ _ ?_ fun c _ => ?_
  · rw [Ne, glueOutcome_panic_iff]; exact yamlRoundTripM_ne_nilElem j
  · exact Outcome.bind_ne_panic _ _ (readDiffFmtM_ne_panic nc fmt text) fun d _ => patchM_ne_panic c d

/-! ### non-vacuity and the boundary of §1–§2 -/

/-- a hostile yaml.v2 value: nested maps and sequences with an int key, a uint64, a NaN, a
    timestamp and an int64 — it satisfies the hypothesis `nodeFree` and is rejected with an error -/
def hostile : Raw :=
  .mapI [(.str "a", .slice [.int 1, .f64 0x7ff8000000000000, .mapI [(.int 3, .nil)]]),
         (.str "b", .uint64 18446744073709551615), (.bool true, .other "time.Time"),
         (.str "c", .int64 (-1))]

example : nodeFree hostile = true := by decide
theorem hostile_rejected : newJsonNodeM hostile = .error .unsupported :=
  (newJsonNodeM_classified _).1 (by decide)
example : glueOutcome (newJsonNodeM hostile) = .err := by rw [hostile_rejected]; rfl

/-- an accepted yaml.v2 value with an int beyond 2^53 (rounded, no overflow fault) -/
example : nodeFree (.mapI [(.str "k", .slice [.int 9007199254740993, .str "x", .nil])]) = true := by
  decide
example : ∃ j, newJsonNodeM (.mapI [(.str "k", .slice [.int (-5), .str "x", .nil])]) = .ok j :=
  (newJsonNodeM_classified _).2.2 (by decide) (by decide)

/-- a decoder that satisfies `DecoderValues` and returns the hostile value for every text -/
def hostileDec : YamlDecoder := fun _ => some hostile
theorem hostileDec_values : DecoderValues hostileDec := by
  intro s r h
  cases h
  decide
example : readYamlM hostileDec "a: 1" = .err := by
  have h : (trimGoSpace "a: 1").isEmpty = false := by decide
  simp [readYamlM, unmarshalM, h, hostileDec, hostile_rejected, glueOutcome]

/-- THE BOUNDARY (API callers, not decoders): `NewJsonNode([]interface{}{someJsonNode})` returns
    NO error and a node whose only element is a nil interface — the classification says `.panic` -/
theorem nilSlot_witness :
    nodeFree (.slice [.node (.str "x")]) = false ∧
    bad (.slice [.node (.str "x")]) = false ∧ slot (.slice [.node (.str "x")]) = true ∧
    newJsonNodeM (.slice [.node (.str "x")]) = .error .nilElem ∧
    glueOutcome (newJsonNodeM (.slice [.node (.str "x")])) = .panic := by
  refine ⟨by decide, by decide, by decide, rfl, rfl⟩

/-- … and a jd node as a member of a `map[interface{}]interface{}` is silently DROPPED (no panic, no
    error, wrong result) while under `map[string]interface{}` it is kept -/
theorem dropped_member_witness :
    newJsonNodeM (.mapI [(.str "a", .node (.str "x"))]) = .ok (.obj []) ∧
    newJsonNodeM (.mapS [("a", .node (.str "x"))]) = .ok (.obj [("a", .str "x")]) := ⟨rfl, rfl⟩

/-! ## §3 the CLI clause: exit status 2 and ONE log record, never a stack trace -/

section CliPart
open Jd.Cli

/-- the calls `main` makes to the library and to the operating system.  `diff` (`a.Diff(b, …)`),
    `renderJd` (`diff.Render(…)`) and `renderDoc` (`n.Json(…)` / `n.Yaml(…)`) have NO error result in
    Go: `LibResults` holds their value only. -/
inductive Call where
  | serve | file1 | file2 | parse1 | parse2 | diff | renderJd | renderPatch | renderMerge
  | readDiff | patch | renderDoc | translate | write
deriving DecidableEq, Repr, Inhabited

/-- what `LibResults` records of a call, the value forgotten: returned normally / returned this error -/
def Call.result (r : LibResults) : Call → Except Err Unit
  | .serve => chk r.serve
  | .file1 => chk r.file1
  | .file2 => chk r.file2
  | .parse1 => chk r.parse1
  | .parse2 => chk r.parse2
  | .renderPatch => chk r.renderPatch
  | .renderMerge => chk r.renderMerge
  | .readDiff => chk r.readDiff
  | .patch => chk r.patch
  | .translate => chk r.translate
  | .write => chk r.write
  | .diff => .ok ()
  | .renderJd => .ok ()
  | .renderDoc => .ok ()

/-- one step of `main`: a check of the command line alone (its verdict is a function of the flags),
    or a call -/
inductive Step where
  | flag (verdict : Except Err Unit)
  | call (c : Call)
deriving Repr, Inhabited

def Step.verdict (r : LibResults) : Step → Except Err Unit
  | .flag v => v
  | .call c => c.result r

def inputSteps (srcs : List Src) : List Step :=
  .call .file1 :: (if srcs.length ≥ 2 then [.call .file2] else [])

/-- `diff(a, b, options)` of main.go -/
def diffSteps (fl : Flags) : List Step :=
  [.call .parse1, .call .parse2, .call .diff,
   match formatOf fl.f with
   | some .jd => .call .renderJd
   | some .patch => .call .renderPatch
   | some .merge => .call .renderMerge
   | none => .flag (.error (.msg ("Invalid format: " ++ goQuote fl.f)))]

/-- `printPatch` -/
def patchSteps (fl : Flags) : List Step :=
  [.flag (match formatOf fl.f with
          | none => .error (.msg ("Invalid format: " ++ goQuote fl.f))
          | some _ => .ok ()),
   .call .readDiff, .call .parse2, .call .patch, .call .renderDoc]

/-- `printTranslation` -/
def translateSteps (fl : Flags) : List Step :=
  [.flag (guardMsg (!translations.contains fl.t) ("unsupported translation: " ++ goQuote fl.t)),
   .call .translate]

def writeSteps (fl : Flags) : List Step := if fl.o == "" then [] else [.call .write]

/-- THE PROGRAM: the steps `main` goes through for these flags when every step succeeds, in program
    order.  A function of the command line ALONE. -/
def program (b : Binary) (fl : Flags) : List Step :=
  if fl.version then []
  else if fl.port != 0 then [.flag (guardMsg (fl.nargs > 0) portArgs), .call .serve]
  else
    .flag (chk (parsedOptions b fl)) ::
    (if fl.gitDiffDriver then
      .flag (guardMsg (fl.nargs != 7) gitDriverArgs) :: (inputSteps [.arg 1, .arg 4] ++ diffSteps fl)
    else
      .flag (guardMsg (fl.p && fl.t != "") patchAndTranslate) ::
      (match inputsOf fl with
       | .error e => [.flag (.error e)]
       | .ok srcs =>
         inputSteps srcs ++
         ((match modeOf fl with
          | .diff => diffSteps fl
          | .patch => patchSteps fl
          | .translate => translateSteps fl) ++
         writeSteps fl)))

def verdicts (b : Binary) (fl : Flags) (r : LibResults) : List (Except Err Unit) :=
  (program b fl).map (Step.verdict r)

theorem firstErr_ok' (l : List (Except Err Unit)) : firstErr (.ok () :: l) = firstErr l := rfl

theorem verdicts_inputSteps (srcs : List Src) (r : LibResults) :
    (inputSteps srcs).map (Step.verdict r) = inputChecks srcs r := by
  unfold inputSteps inputChecks
  by_cases h : srcs.length ≥ 2 <;> simp [h, Step.verdict, Call.result]

theorem firstErr_diffSteps (fl : Flags) (r : LibResults) (l : List (Except Err Unit)) :
    firstErr ((diffSteps fl).map (Step.verdict r) ++ l) = firstErr (renderChecks fl r ++ l) := by
  unfold diffSteps renderChecks
  cases formatOf fl.f with
  | none =>
    simp only [List.map_cons, List.map_nil, Step.verdict, Call.result]
    cases r.parse1 <;> cases r.parse2 <;> simp
  | some f =>
    cases f <;> simp only [List.map_cons, List.map_nil, Step.verdict, Call.result] <;>
      cases r.parse1 <;> cases r.parse2 <;> simp

theorem firstErr_patchSteps (fl : Flags) (r : LibResults) (l : List (Except Err Unit)) :
    firstErr ((patchSteps fl).map (Step.verdict r) ++ l) = firstErr (patchChecks fl r ++ l) := by
  unfold patchSteps patchChecks
  cases formatOf fl.f <;> simp only [List.map_cons, List.map_nil, Step.verdict, Call.result] <;>
    cases r.readDiff <;> cases r.parse2 <;> cases r.patch <;> simp

theorem verdicts_translateSteps (fl : Flags) (r : LibResults) :
    (translateSteps fl).map (Step.verdict r) = translateChecks fl r := by
  simp [translateSteps, translateChecks, Step.verdict, Call.result]

theorem verdicts_writeSteps (fl : Flags) (r : LibResults) :
    (writeSteps fl).map (Step.verdict r) = writeChecks fl r := by
  unfold writeSteps writeChecks
  split <;> simp [Step.verdict, Call.result]

/-- **the program is what `main` does**: the first failing step of the program is the first failing
    check of `Jd.Cli.checks`, i.e. (by `run_error_eq_firstErr`) the error `run` ends with -/
theorem program_sound (b : Binary) (fl : Flags) (r : LibResults) :
    firstErr (verdicts b fl r) = errOf (run b fl r) := by
  rw [run_error_eq_firstErr]
  unfold verdicts program checks
  by_cases hv : fl.version = true
  · simp [hv]
  simp only [hv]
  by_cases hp : (fl.port != 0) = true
  · simp [hp, Step.verdict, Call.result]
  simp only [hp]
  simp only [Bool.false_eq_true, if_false, List.map_cons, Step.verdict]
  cases parsedOptions b fl with
  | error e => simp
  | ok opts =>
    simp only [chk_ok, firstErr_ok]
    by_cases hg : fl.gitDiffDriver = true
    · simp only [hg, if_true, List.map_cons, Step.verdict, List.map_append, verdicts_inputSteps]
      cases guardMsg (fl.nargs != 7) gitDriverArgs with
      | error e => simp
      | ok u =>
        simp only [firstErr_ok]
        rw [firstErr_append, firstErr_append (inputChecks _ r)]
        have := firstErr_diffSteps fl r []
        simp only [List.append_nil] at this
        rw [this]
    · simp only [hg, Bool.false_eq_true, if_false, List.map_cons, Step.verdict]
      cases guardMsg (fl.p && fl.t != "") patchAndTranslate with
      | error e => simp
      | ok u =>
        simp only [firstErr_ok]
        cases inputsOf fl with
        | error e => simp [Step.verdict]
        | ok srcs =>
          simp only [List.map_append, verdicts_inputSteps, verdicts_writeSteps]
          rw [firstErr_append, firstErr_append (inputChecks _ r)]
          cases modeOf fl with
          | diff => simp only [firstErr_diffSteps]
          | patch => simp only [firstErr_patchSteps]
          | translate => simp only [verdicts_translateSteps]

/-! ### the three shapes of the outcome -/

theorem run_of_firstErr {b : Binary} {fl : Flags} {r : LibResults} {e : Err}
    (h : firstErr (verdicts b fl r) = some e) : run b fl r = .error e := by
  rw [program_sound] at h
  cases hr : run b fl r with
  | ok v => rw [hr] at h; cases h
  | error e' => rw [hr] at h; simp only [errOf_error, Option.some.injEq] at h; rw [h]

/-- (a) the first failing step has a message `m`: exit 2, NOTHING on stdout, no `-o` file, and stderr
    is exactly ONE log record, `logRecord m` (the message, newline-terminated; the timestamp prefix of
    Go's `log` package is not part of the model) -/
theorem outcome_of_message {b : Binary} {fl : Flags} {r : LibResults} {m : String}
    (h : firstErr (verdicts b fl r) = some (.msg m)) :
    cliM b fl r = ⟨2, "", none, logRecord m, classOfRecord (logRecord m)⟩ := by
  unfold cliM; rw [run_of_firstErr h]; rfl

/-- (b) the first failing step is the argument-count switch: exit 2, the usage text on STDOUT,
    nothing on stderr -/
theorem outcome_of_usage {b : Binary} {fl : Flags} {r : LibResults}
    (h : firstErr (verdicts b fl r) = some .usage) :
    cliM b fl r = ⟨2, usageText b, none, "", .usage⟩ := by
  unfold cliM; rw [run_of_firstErr h]; rfl

/-- (c) no step fails: exit 0 or 1, nothing on stderr -/
theorem outcome_of_success {b : Binary} {fl : Flags} {r : LibResults}
    (h : firstErr (verdicts b fl r) = none) :
    ((cliM b fl r).exit = 0 ∨ (cliM b fl r).exit = 1) ∧ (cliM b fl r).stderr = "" ∧
      (cliM b fl r).stderrClass = .none := by
  rw [program_sound] at h
  unfold cliM
  cases hr : run b fl r with
  | error e => rw [hr] at h; cases h
  | ok v =>
    have hc := run_code hr
    simp only [outcomeOf]
    split <;> exact ⟨hc, rfl, rfl⟩

/-! ### exit 2 ⇔ a step of the program failed -/

theorem mem_verdicts {b : Binary} {fl : Flags} {r : LibResults} {x : Except Err Unit} :
    x ∈ verdicts b fl r ↔ ∃ s ∈ program b fl, s.verdict r = x := by
  simp [verdicts, List.mem_map]

/-- **exit status 2 exactly when a step of the program failed**: a check of the command line
    rejected it, or a call of the plan returned an error -/
theorem exit_two_iff (b : Binary) (fl : Flags) (r : LibResults) :
    (cliM b fl r).exit = 2 ↔
      (∃ e, Step.flag (.error e) ∈ program b fl) ∨
      (∃ c e, Step.call c ∈ program b fl ∧ c.result r = .error e) := by
  have h1 : (cliM b fl r).exit = 2 ↔ (firstErr (verdicts b fl r)).isSome := by
    rw [program_sound, run_error_eq_firstErr, firstErr_some_iff]
    exact exit_two_iff_error b fl r
  rw [h1, firstErr_some_iff]
  constructor
  · rintro ⟨x, hx, e, rfl⟩
    obtain ⟨s, hs, hv⟩ := mem_verdicts.1 hx
    cases s with
    | flag v => left; simp only [Step.verdict] at hv; subst hv; exact ⟨e, hs⟩
    | call c => right; exact ⟨c, e, hs, hv⟩
  · rintro (⟨e, hs⟩ | ⟨c, e, hs, hv⟩)
    · exact ⟨.error e, mem_verdicts.2 ⟨_, hs, rfl⟩, e, rfl⟩
    · exact ⟨.error e, mem_verdicts.2 ⟨_, hs, hv⟩, e, rfl⟩

/-- ⇒ spelled out: ANY failing call of the program makes the exit status 2 -/
theorem failing_call_exits_two {b : Binary} {fl : Flags} {r : LibResults} {c : Call} {e : Err}
    (hc : Step.call c ∈ program b fl) (he : c.result r = .error e) : (cliM b fl r).exit = 2 :=
  (exit_two_iff b fl r).2 (.inr ⟨c, e, hc, he⟩)

theorem rejected_flags_exit_two {b : Binary} {fl : Flags} {r : LibResults} {e : Err}
    (hc : Step.flag (.error e) ∈ program b fl) : (cliM b fl r).exit = 2 :=
  (exit_two_iff b fl r).2 (.inl ⟨e, hc⟩)

/-! ### which of (a) / (b): the usage exit is decided by the command line alone -/

/-- the run reaches the argument-count switch and the count is wrong (`printUsageAndExit`) -/
def usageExit (b : Binary) (fl : Flags) : Bool :=
  !fl.version && !(fl.port != 0) &&
  (match parsedOptions b fl with | .ok _ => true | .error _ => false) &&
  !fl.gitDiffDriver && !(fl.p && fl.t != "") &&
  (match inputsOf fl with | .ok _ => false | .error _ => true)

theorem chk_ne_usage {α} (x : Except String α) : chk x ≠ .error .usage := by
  cases x <;> simp [chk]

theorem guardMsg_ne_usage (c : Bool) (m : String) : guardMsg c m ≠ .error .usage := by
  cases c <;> simp [guardMsg]

theorem Call.result_ne_usage (r : LibResults) (c : Call) : c.result r ≠ .error .usage := by
  cases c <;> simp [Call.result, chk_ne_usage]

theorem firstErr_mem {l : List (Except Err Unit)} {e : Err} (h : firstErr l = some e) :
    .error e ∈ l := by
  induction l with
  | nil => cases h
  | cons x l ih =>
    cases x with
    | ok u => exact List.mem_cons_of_mem _ (ih h)
    | error e' => simp only [firstErr_error, Option.some.injEq] at h; subst h; exact List.mem_cons_self

def flagsNoUsage (l : List Step) : Prop := ∀ v, Step.flag v ∈ l → v ≠ .error .usage

theorem firstErr_ne_usage {l : List Step} (h : flagsNoUsage l) (r : LibResults) :
    firstErr (l.map (Step.verdict r)) ≠ some .usage := by
  intro hf
  have hm := firstErr_mem hf
  obtain ⟨s, hs, hv⟩ := List.mem_map.1 hm
  cases s with
  | flag v => exact h v hs hv
  | call c => exact Call.result_ne_usage r c hv

theorem flagsNoUsage_append {l₁ l₂ : List Step} (h₁ : flagsNoUsage l₁) (h₂ : flagsNoUsage l₂) :
    flagsNoUsage (l₁ ++ l₂) := by
  intro v hv
  rcases List.mem_append.1 hv with h | h
  · exact h₁ v h
  · exact h₂ v h

theorem flagsNoUsage_cons {s : Step} {l : List Step}
    (h₁ : ∀ v, s = .flag v → v ≠ .error .usage) (h₂ : flagsNoUsage l) : flagsNoUsage (s :: l) := by
  intro v hv
  rcases List.mem_cons.1 hv with h | h
  · exact h₁ v h.symm
  · exact h₂ v h

theorem flagsNoUsage_nil : flagsNoUsage [] := by intro v hv; cases hv

theorem flagsNoUsage_inputSteps (srcs : List Src) : flagsNoUsage (inputSteps srcs) := by
  intro v hv
  unfold inputSteps at hv
  split at hv <;> simp at hv

theorem flagsNoUsage_diffSteps (fl : Flags) : flagsNoUsage (diffSteps fl) := by
  intro v hv
  unfold diffSteps at hv
  cases hf : formatOf fl.f with
  | none => simp [hf] at hv; subst hv; simp
  | some f => cases f <;> simp [hf] at hv

theorem flagsNoUsage_patchSteps (fl : Flags) : flagsNoUsage (patchSteps fl) := by
  intro v hv
  unfold patchSteps at hv
  cases hf : formatOf fl.f <;> simp [hf] at hv <;> subst hv <;> simp

theorem flagsNoUsage_translateSteps (fl : Flags) : flagsNoUsage (translateSteps fl) := by
  intro v hv
  unfold translateSteps at hv
  simp at hv
  subst hv
  exact guardMsg_ne_usage _ _

theorem flagsNoUsage_writeSteps (fl : Flags) : flagsNoUsage (writeSteps fl) := by
  intro v hv
  unfold writeSteps at hv
  split at hv <;> simp at hv

theorem inputsOf_error {fl : Flags} {e : Err} (h : inputsOf fl = .error e) : e = .usage := by
  unfold inputsOf at h
  split at h <;> first | (cases h; done) | (cases h; rfl)

/-- the usage exit happens exactly when `usageExit` says so — whatever the library returns -/
theorem usage_iff (b : Binary) (fl : Flags) (r : LibResults) :
    firstErr (verdicts b fl r) = some .usage ↔ usageExit b fl = true := by
  unfold verdicts program usageExit
  by_cases hv : fl.version = true
  · simp [hv]
  simp only [hv]
  by_cases hp : (fl.port != 0) = true
  · simp only [hp, if_true, Bool.not_true, Bool.and_false, Bool.false_and, Bool.false_eq_true, iff_false]
    refine firstErr_ne_usage (l := [_, _]) ?_ r
    exact flagsNoUsage_cons (fun v h => by cases h; exact guardMsg_ne_usage _ _)
      (flagsNoUsage_cons (fun v h => by cases h) flagsNoUsage_nil)
  simp only [hp, Bool.false_eq_true, if_false, List.map_cons, Step.verdict]
  cases ho : parsedOptions b fl with
  | error e => simp
  | ok opts =>
    simp only [chk_ok, firstErr_ok]
    by_cases hg : fl.gitDiffDriver = true
    · simp only [hg, if_true, Bool.not_true, Bool.and_false, Bool.false_and, Bool.false_eq_true,
        iff_false]
      refine firstErr_ne_usage (l := _ :: _) ?_ r
      exact flagsNoUsage_cons (fun v h => by cases h; exact guardMsg_ne_usage _ _)
        (flagsNoUsage_append (flagsNoUsage_inputSteps _) (flagsNoUsage_diffSteps fl))
    · simp only [hg, Bool.false_eq_true, if_false, List.map_cons, Step.verdict]
      by_cases hpt : (fl.p && fl.t != "") = true
      · simp [hpt, guardMsg]
      · simp only [hpt, guardMsg_false, firstErr_ok]
        cases hi : inputsOf fl with
        | error e =>
          have := inputsOf_error hi
          subst this
          simp [Step.verdict]
        | ok srcs =>
          simp only [Bool.not_false, Bool.and_true, Bool.and_false,
            Bool.false_eq_true, iff_false]
          refine firstErr_ne_usage ?_ r
          refine flagsNoUsage_append (flagsNoUsage_inputSteps _)
            (flagsNoUsage_append ?_ (flagsNoUsage_writeSteps fl))
          cases modeOf fl
          · exact flagsNoUsage_diffSteps fl
          · exact flagsNoUsage_patchSteps fl
          · exact flagsNoUsage_translateSteps fl

/-! ### what stderr is: ONE log record; when it is one line -/

theorem count_nl (l : List Char) :
    ((if l.getLast? = some '\n' then l else l ++ ['\n']).filter (· == '\n')).length = 1 ↔
      '\n' ∉ l.dropLast := by
  rcases List.eq_nil_or_concat l with rfl | ⟨ys, a, rfl⟩
  · simp
  · simp only [List.concat_eq_append]
    have hfil : ∀ zs : List Char, (zs.filter (· == '\n')).length = 0 ↔ '\n' ∉ zs := by
      intro zs
      rw [List.length_eq_zero_iff, List.filter_eq_nil_iff]
      constructor
      · intro h hm; exact h _ hm (by simp)
      · intro h c hc hcc; simp at hcc; subst hcc; exact h hc
    by_cases ha : a = '\n'
    · subst ha
      have : (ys ++ ['\n']).getLast? = some '\n' := by simp
      rw [if_pos this, List.dropLast_concat, List.filter_append, List.length_append, ← hfil ys]
      simp
    · have : ¬ ((ys ++ [a]).getLast? = some '\n') := by simp [ha]
      rw [if_neg this, List.dropLast_concat, List.filter_append, List.filter_append,
        List.length_append, List.length_append, ← hfil ys]
      simp [ha]

def oneLineMsg (m : String) : Bool := !(m.toList.dropLast.contains '\n')

theorem logRecord_toList (m : String) :
    (logRecord m).toList = if m.toList.getLast? = some '\n' then m.toList else m.toList ++ ['\n'] := by
  unfold logRecord
  by_cases h : m.toList.getLast? = some '\n'
  · simp [h]
  · simp [h, String.toList_append]

theorem class_oneLine_iff (m : String) :
    classOfRecord (logRecord m) = .oneLine ↔ oneLineMsg m = true := by
  unfold classOfRecord oneLineMsg
  rw [logRecord_toList]
  have := count_nl m.toList
  by_cases h : '\n' ∈ m.toList.dropLast
  · have h2 := (not_congr this).2 (by simpa using h)
    simp [h]
    intro h3; exact absurd h3 h2
  · have h2 := this.2 h
    simp [h, h2]

theorem logRecord_last (m : String) : (logRecord m).toList.getLast? = some '\n' := by
  rw [logRecord_toList]
  split
  · assumption
  · simp

theorem logRecord_ne_empty (m : String) : logRecord m ≠ "" := by
  intro h
  have := logRecord_last m
  rw [h] at this
  cases this

/-! ### the messages `main` composes itself -/

theorem hexNibble_ne_nl : ∀ k, k < 16 → hexNibble k ≠ '\n' := by decide

theorem goQuoteChar_no_nl (c : Char) : '\n' ∉ (goQuoteChar c).toList := by
  unfold goQuoteChar
  simp only
  split
  · decide
  split
  · decide
  split
  · decide
  split
  · decide
  split
  · decide
  split
  · decide
  split
  · decide
  split
  · decide
  split
  · decide
  rename_i h10 _ _ _
  split
  · rename_i hlt
    have h1 : c.toNat / 16 < 16 := by
      simp only [Bool.or_eq_true, decide_eq_true_eq, beq_iff_eq] at hlt
      omega
    have h2 : c.toNat % 16 < 16 := by omega
    simp only [String.toList_append, String.toList_ofList, List.mem_append, List.mem_cons,
      List.not_mem_nil, or_false]
    intro h
    rcases h with h | h | h
    · revert h; decide
    · exact hexNibble_ne_nl _ h1 h.symm
    · exact hexNibble_ne_nl _ h2 h.symm
  · simp only [String.toList_singleton, List.mem_singleton]
    intro h
    apply h10
    rw [← h]
    rfl

theorem goQuote_no_nl (s : String) : '\n' ∉ (goQuote s).toList := by
  unfold goQuote
  simp only [String.toList_append, String.toList_join, List.mem_append, List.mem_flatMap,
    List.mem_map]
  intro h
  rcases h with (h | ⟨t, ⟨c, _, rfl⟩, h⟩) | h
  · revert h; decide
  · exact goQuoteChar_no_nl c h
  · revert h; decide

theorem oneLineMsg_of_no_nl {m : String} (h : '\n' ∉ m.toList) : oneLineMsg m = true := by
  unfold oneLineMsg
  simp only [Bool.not_eq_true', List.contains_eq_mem, decide_eq_false_iff_not]
  exact fun hm => h (List.dropLast_subset _ hm)

theorem oneLineMsg_prefix_goQuote (pre s : String) (hp : '\n' ∉ pre.toList) :
    oneLineMsg (pre ++ goQuote s) = true := by
  apply oneLineMsg_of_no_nl
  rw [String.toList_append, List.mem_append]
  rintro (h | h)
  · exact hp h
  · exact goQuote_no_nl s h

theorem mapM_error {α β ε} (f : α → Except ε β) : ∀ (l : List α) (e : ε),
    l.mapM f = .error e → ∃ a ∈ l, f a = .error e
  | [], e, h => by simp [pure, Except.pure] at h
  | a :: l, e, h => by
    rw [List.mapM_cons] at h
    cases hf : f a with
    | error e' =>
      simp only [hf, bind, Except.bind] at h
      injection h with h
      exact ⟨a, List.mem_cons_self, by rw [hf, h]⟩
    | ok b =>
      simp only [hf, bind, Except.bind] at h
      cases hl : l.mapM f with
      | error e' =>
        simp only [hl] at h
        injection h with h
        obtain ⟨a', ha', hfa'⟩ := mapM_error f l e' hl
        exact ⟨a', List.mem_cons_of_mem _ ha', by rw [hfa', h]⟩
      | ok bs => simp [hl, pure, Except.pure] at h

/-- the only messages `parseMetadata` produces -/
theorem parsedOptions_error {b : Binary} {fl : Flags} {m : String}
    (h : parsedOptions b fl = .error m) :
    m = precisionRefusal ∨ ∃ k ∈ fl.setkeys.splitOn ",", m = "invalid set key: " ++ k := by
  rw [parsedOptions_same] at h
  unfold optionsOf at h
  split at h
  · injection h with h; exact .inl h.symm
  · split at h
    · rename_i e he
      injection h with h
      subst h
      right
      split at he
      · cases hs : splitKeys fl.setkeys with
        | ok ks => rw [hs] at he; cases he
        | error e' =>
          rw [hs] at he
          simp only [Except.map] at he
          injection he with he
          subst he
          unfold splitKeys at hs
          obtain ⟨k, hk, hfk⟩ := mapM_error _ _ _ hs
          refine ⟨k, hk, ?_⟩
          simp only at hfk
          split at hfk
          · injection hfk with hfk; exact hfk.symm
          · cases hfk
      · cases he
    · cases h

/-- **every message `main` composes itself is one line, except `invalid set key: …`**, which shows
    the offending piece of `-setkeys` verbatim (`%v`, not `%q`) -/
theorem own_messages_oneLine {b : Binary} {fl : Flags} {m : String}
    (h : Step.flag (.error (.msg m)) ∈ program b fl) :
    oneLineMsg m = true ∨ ∃ k ∈ fl.setkeys.splitOn ",", m = "invalid set key: " ++ k := by
  have hfmt : oneLineMsg ("Invalid format: " ++ goQuote fl.f) = true :=
    oneLineMsg_prefix_goQuote _ _ (by decide)
  have htr : oneLineMsg ("unsupported translation: " ++ goQuote fl.t) = true :=
    oneLineMsg_prefix_goQuote _ _ (by decide)
  have hguard : ∀ (c : Bool) (m' : String), oneLineMsg m' = true →
      guardMsg c m' = .error (.msg m) → oneLineMsg m = true := by
    intro c m' hm' hg
    cases c
    · cases hg
    · simp only [guardMsg_true, Except.error.injEq, Err.msg.injEq] at hg; rw [← hg]; exact hm'
  have hdiff : Step.flag (.error (.msg m)) ∈ diffSteps fl → oneLineMsg m = true := by
    intro hd
    unfold diffSteps at hd
    cases hf : formatOf fl.f with
    | none =>
      simp only [hf, List.mem_cons, reduceCtorEq, List.not_mem_nil, or_false, false_or,
        Step.flag.injEq, Except.error.injEq, Err.msg.injEq] at hd
      rw [hd]; exact hfmt
    | some f => cases f <;> simp [hf] at hd
  have hinp : ∀ srcs, Step.flag (.error (.msg m)) ∉ inputSteps srcs := by
    intro srcs hi
    unfold inputSteps at hi
    split at hi <;> simp at hi
  unfold program at h
  split at h
  · cases h
  split at h
  · simp only [List.mem_cons, Step.flag.injEq, reduceCtorEq, List.not_mem_nil, or_false] at h
    exact .inl (hguard _ _ (by decide) h.symm)
  rcases List.mem_cons.1 h with h | h
  · injection h with h
    cases ho : parsedOptions b fl with
    | ok o => rw [ho] at h; cases h
    | error e =>
      rw [ho] at h
      simp only [chk_error, Except.error.injEq, Err.msg.injEq] at h
      subst h
      rcases parsedOptions_error ho with h1 | h1
      · left; rw [h1]; decide
      · exact .inr h1
  left
  split at h
  · rcases List.mem_cons.1 h with h | h
    · injection h with h; exact hguard _ _ (by decide) h.symm
    · rcases List.mem_append.1 h with h | h
      · exact absurd h (hinp _)
      · exact hdiff h
  · rcases List.mem_cons.1 h with h | h
    · injection h with h; exact hguard _ _ (by decide) h.symm
    · split at h
      · rename_i e he
        have := inputsOf_error he
        subst this
        simp at h
      · rcases List.mem_append.1 h with h | h
        · exact absurd h (hinp _)
        · rcases List.mem_append.1 h with h | h
          · split at h
            · exact hdiff h
            · unfold patchSteps at h
              cases hf : formatOf fl.f with
              | none =>
                simp only [hf, List.mem_cons, reduceCtorEq, List.not_mem_nil, or_false,
                  Step.flag.injEq, Except.error.injEq, Err.msg.injEq] at h
                rw [h]; exact hfmt
              | some f => simp [hf] at h
            · unfold translateSteps at h
              simp only [List.mem_cons, Step.flag.injEq, reduceCtorEq, List.not_mem_nil,
                or_false] at h
              exact hguard _ _ htr h.symm
          · unfold writeSteps at h
            split at h <;> simp at h

/-! ### MAIN: the error exit -/

theorem exit_two_iff_firstErr (b : Binary) (fl : Flags) (r : LibResults) :
    (cliM b fl r).exit = 2 ↔ (firstErr (verdicts b fl r)).isSome := by
  rw [program_sound, run_error_eq_firstErr, firstErr_some_iff]
  exact exit_two_iff_error b fl r

/-- the error shown is that of the FIRST failing step: everything before it succeeded -/
theorem firstErr_split {l : List Step} {r : LibResults} {e : Err}
    (h : firstErr (l.map (Step.verdict r)) = some e) :
    ∃ pre s post, l = pre ++ s :: post ∧ (∀ s' ∈ pre, s'.verdict r = .ok ()) ∧
      s.verdict r = .error e := by
  induction l with
  | nil => cases h
  | cons s l ih =>
    cases hs : s.verdict r with
    | error e' =>
      simp only [List.map_cons, hs, firstErr_error, Option.some.injEq] at h
      subst h
      exact ⟨[], s, l, rfl, by simp, hs⟩
    | ok u =>
      simp only [List.map_cons, hs, firstErr_ok] at h
      obtain ⟨pre, s', post, hl, hpre, hs'⟩ := ih h
      refine ⟨s :: pre, s', post, by rw [hl]; rfl, ?_, hs'⟩
      intro x hx
      rcases List.mem_cons.1 hx with rfl | hx
      · exact hs
      · exact hpre x hx

/-- **MAIN 1 — exit status 2: what the program has done.**  If `cliM` exits 2 then EITHER
    (message exit) nothing is on stdout, no `-o` file is written, stderr is exactly ONE log record
    `logRecord m` — `m` being the error of the first failing step of the program, all earlier steps
    having succeeded — and that record is a single line iff `m` has no interior newline;
    OR (usage exit, decided by the command line alone: wrong number of positional arguments) the
    usage text is on STDOUT, nothing is on stderr and no file is written. -/
theorem error_exit_contract (b : Binary) (fl : Flags) (r : LibResults)
    (h : (cliM b fl r).exit = 2) :
    (usageExit b fl = false ∧ ∃ m,
        cliM b fl r = ⟨2, "", none, logRecord m, classOfRecord (logRecord m)⟩ ∧
        (∃ pre s post, program b fl = pre ++ s :: post ∧ (∀ s' ∈ pre, s'.verdict r = .ok ()) ∧
          s.verdict r = .error (.msg m)) ∧
        ((cliM b fl r).stderrClass = .oneLine ↔ oneLineMsg m = true)) ∨
    (usageExit b fl = true ∧ cliM b fl r = ⟨2, usageText b, none, "", .usage⟩) := by
  have hs := (exit_two_iff_firstErr b fl r).1 h
  cases hf : firstErr (verdicts b fl r) with
  | none => rw [hf] at hs; cases hs
  | some e =>
    cases e with
    | usage => exact .inr ⟨(usage_iff b fl r).1 hf, outcome_of_usage hf⟩
    | msg m =>
      left
      refine ⟨?_, m, outcome_of_message hf, firstErr_split hf, ?_⟩
      · cases hu : usageExit b fl
        · rfl
        · rw [(usage_iff b fl r).2 hu] at hf; cases hf
      · rw [outcome_of_message hf]
        exact class_oneLine_iff m

theorem no_call_of_usageExit {b : Binary} {fl : Flags} (h : usageExit b fl = true) (c : Call) :
    Step.call c ∉ program b fl := by
  unfold usageExit at h
  simp only [Bool.and_eq_true, Bool.not_eq_true', bne_eq_false_iff_eq] at h
  obtain ⟨⟨⟨⟨⟨hv, hp⟩, ho⟩, hg⟩, hpt⟩, hi⟩ := h
  unfold program
  cases hio : inputsOf fl with
  | ok srcs => rw [hio] at hi; cases hi
  | error e => simp [hv, hp, hg]

/-- **MAIN 2 — any failing call of the program** (missing / unreadable input: `file1`, `file2`;
    malformed document: `parse1`, `parse2`; malformed diff / patch / merge patch: `readDiff`; a patch
    that does not apply: `patch`; a diff that cannot be translated: `renderPatch`, `renderMerge`,
    `translate`; the `-o` file cannot be written: `write`; the web UI: `serve`): exit status 2,
    NOTHING on stdout, no `-o` file, stderr exactly one log record -/
theorem failing_call_contract {b : Binary} {fl : Flags} {r : LibResults} {c : Call} {e : Err}
    (hc : Step.call c ∈ program b fl) (he : c.result r = .error e) :
    ∃ m, cliM b fl r = ⟨2, "", none, logRecord m, classOfRecord (logRecord m)⟩ ∧
      firstErr (verdicts b fl r) = some (.msg m) := by
  have h2 := failing_call_exits_two hc he
  have hs := (exit_two_iff_firstErr b fl r).1 h2
  cases hf : firstErr (verdicts b fl r) with
  | none => rw [hf] at hs; cases hs
  | some e' =>
    cases e' with
    | usage => exact absurd hc (no_call_of_usageExit ((usage_iff b fl r).1 hf) c)
    | msg m => exact ⟨m, outcome_of_message hf, rfl⟩

/-! ### the Go panic: a lifting of `cliM`

  `Jd.Cli.cliM` HAS NO PANIC OUTCOME: `LibResults` records what each call RETURNED (`Except String _`:
  a value or an error message), and `Cli.Outcome` is what `main` then does.  A Go panic inside a
  library call is a call that does not return: the runtime prints `panic: …` and a goroutine stack
  trace on stderr and exits with status 2.  The lifting below adds exactly that: `cr c = true` says
  "call `c` does not return".  `main` itself has no partial operation (no indexing, no type
  assertion, no nil dereference on the paths modelled by `run`), so a crashing call is the only
  source. -/

/-- the calls actually made: the calls of the program up to the first failing step or the first
    call that does not return -/
def callsMade (r : LibResults) (cr : Call → Bool) : List Step → List Call
  | [] => []
  | .flag (.ok _) :: l => callsMade r cr l
  | .flag (.error _) :: _ => []
  | .call c :: l =>
    c :: (if cr c then [] else
      match c.result r with
      | .ok _ => callsMade r cr l
      | .error _ => [])

inductive POutcome where
  /-- `main` ended through `os.Exit` / `return`: the outcome of `cliM` -/
  | exited (o : Cli.Outcome)
  /-- a call panicked: exit status 2, `panic: …` and a multi-line stack trace on stderr -/
  | goPanic
deriving DecidableEq, Repr

/-- the panic-aware CLI -/
def cliP (b : Binary) (fl : Flags) (r : LibResults) (cr : Call → Bool) : POutcome :=
  if (callsMade r cr (program b fl)).any cr then .goPanic else .exited (cliM b fl r)

theorem callsMade_subset (r : LibResults) (cr : Call → Bool) : ∀ (l : List Step) (c : Call),
    c ∈ callsMade r cr l → Step.call c ∈ l
  | [], c, h => by cases h
  | .flag (.ok u) :: l, c, h => List.mem_cons_of_mem _ (callsMade_subset r cr l c h)
  | .flag (.error e) :: l, c, h => by cases h
  | .call c' :: l, c, h => by
    simp only [callsMade, List.mem_cons] at h
    rcases h with rfl | h
    · exact List.mem_cons_self
    · split at h
      · cases h
      · split at h
        · exact List.mem_cons_of_mem _ (callsMade_subset r cr l c h)
        · cases h

/-- **MAIN 3 — a call that does not return is the ONLY way to a stack trace**, and only if it is
    actually reached -/
theorem cliP_goPanic_iff (b : Binary) (fl : Flags) (r : LibResults) (cr : Call → Bool) :
    cliP b fl r cr = .goPanic ↔ ∃ c ∈ callsMade r cr (program b fl), cr c = true := by
  unfold cliP
  split
  · rename_i h
    simp only [true_iff]
    simpa using h
  · rename_i h
    simp only [reduceCtorEq, false_iff]
    simpa using h

/-- if no call of the program panics, the process ends as `cliM` says — in particular with exit
    status 0 or 1, or with exit status 2 and the single log record / the usage text of MAIN 1 -/
theorem cliP_of_no_crash (b : Binary) (fl : Flags) (r : LibResults) (cr : Call → Bool)
    (h : ∀ c, Step.call c ∈ program b fl → cr c = false) :
    cliP b fl r cr = .exited (cliM b fl r) := by
  cases hc : cliP b fl r cr with
  | exited o =>
    unfold cliP at hc
    split at hc
    · cases hc
    · exact hc.symm
  | goPanic =>
    obtain ⟨c, hm, hcr⟩ := (cliP_goPanic_iff b fl r cr).1 hc
    rw [h c (callsMade_subset r cr _ c hm)] at hcr
    cases hcr

/-- a rejected plan (`planOf b fl = none`: `-version`, `-port`, bad `-precision` / `-setkeys`, a wrong
    argument count, `-p` with `-t`) makes no library call at all, except `serveWeb` for `-port` -/
theorem callsMade_of_no_plan {b : Binary} {fl : Flags} (r : LibResults) (cr : Call → Bool)
    (h : planOf b fl = none) : ∀ c ∈ callsMade r cr (program b fl), c = .serve := by
  intro c hc
  unfold planOf at h
  unfold program at hc
  split at h
  · rename_i hvp
    simp only [Bool.or_eq_true] at hvp
    by_cases hv : fl.version = true
    · simp [hv, callsMade] at hc
    · have hp : (fl.port != 0) = true := by rcases hvp with h1 | h1; exact absurd h1 hv; exact h1
      simp only [hv, hp, Bool.false_eq_true, if_false, if_true] at hc
      unfold guardMsg at hc
      split at hc
      · simp [callsMade] at hc
      · simp only [callsMade, List.mem_cons] at hc
        rcases hc with rfl | hc
        · rfl
        · split at hc
          · cases hc
          · split at hc <;> simp at hc
  · rename_i hvp
    simp only [Bool.or_eq_true, not_or, Bool.not_eq_true] at hvp
    simp only [hvp.1, hvp.2, Bool.false_eq_true, if_false] at hc
    split at h
    · rename_i e ho
      simp [ho, callsMade] at hc
    · rename_i opts ho
      simp only [ho, chk_ok, callsMade] at hc
      split at h
      · rename_i hg
        simp only [hg, if_true] at hc
        split at h
        · rename_i h7
          simp [h7, guardMsg, callsMade] at hc
        · cases h
      · rename_i hg
        simp only [hg, Bool.false_eq_true, if_false] at hc
        split at h
        · rename_i hpt
          simp [hpt, guardMsg, callsMade] at hc
        · rename_i hpt
          simp only [hpt, guardMsg_false, callsMade] at hc
          split at h
          · rename_i e hi
            simp [hi, callsMade] at hc
          · cases h

/-! ### the model library behind the calls: which of them can fail to return -/

/-- the reading / error-returning part of `printTranslation` for `-t` (the final `Render()` / `Json()` /
    `Yaml()` have no error result; they are accounted for in `RenderPanics`) -/
def translateM (nc : NumCodec) (dec : YamlDecoder) (t : String) (s : String) : Jd.Outcome Unit :=
  if t == "jd2patch" then readDiffM nc s >>= fun d => renderPatchM nc d >>= fun _ => pure ()
  else if t == "patch2jd" then readPatchM nc s >>= fun _ => pure ()
  else if t == "jd2merge" then readDiffM nc s >>= fun d => renderMergeM nc d >>= fun _ => pure ()
  else if t == "merge2jd" then readMergeM nc s >>= fun _ => pure ()
  else if t == "json2yaml" then readJsonM nc s >>= fun _ => pure ()
  else if t == "yaml2json" then readYamlM dec s >>= fun _ => pure ()
  else .err

/-- the calls WITHOUT an error result panic in Go when marshalling fails (`renderJson` / `renderYaml`
    of node_write.go and the renderer of diff_write.go end in `panic(err)`): in the model `renderM` and
    `jsonM` return `none` then.  `Ym` stands for "yaml.Marshal fails on some `raw()` value"
    (external code, not modelled). -/
def RenderPanics (nc : NumCodec) (Ym : Prop) : Prop :=
  (∃ o d, renderM nc o d = none) ∨ (∃ n, jsonM nc n = none) ∨ Ym

/-- "some input makes the model's library function behind call `c` panic".  `diffM` is a total
    function of the model; the operating-system calls (`ioutil.ReadFile`, stdin, `WriteFile`,
    `http.ListenAndServe`) are Go runtime calls with `(value, error)` results, not jd code. -/
def ModelPanics (nc : NumCodec) (dec : YamlDecoder) (Ym : Prop) : Call → Prop
  | .parse1 => ∃ yaml s, readDocM nc dec yaml s = .panic
  | .parse2 => ∃ yaml s, readDocM nc dec yaml s = .panic
  | .readDiff => ∃ fmt s, readDiffFmtM nc fmt s = .panic
  | .patch => ∃ a d, patchM a d = .panic
  | .renderPatch => ∃ d, renderPatchM nc d = .panic
  | .renderMerge => ∃ d, renderMergeM nc d = .panic
  | .translate => (∃ t s, translateM nc dec t s = .panic) ∨ RenderPanics nc Ym
  | .renderJd => RenderPanics nc Ym
  | .renderDoc => RenderPanics nc Ym
  | .diff => False
  | .serve => False
  | .file1 => False
  | .file2 => False
  | .write => False

theorem translateM_ne_panic (nc : NumCodec) (dec : YamlDecoder) (hd : DecoderValues dec)
    (t s : String) : translateM nc dec t s ≠ .panic := by
  unfold translateM
  split
  · refine Outcome.bind_ne_panic _ _ (Robust.readDiffM_ne_panic nc s) fun d _ => ?_
    exact Outcome.bind_ne_panic _ _ (Robust.renderPatchM_ne_panic nc d) fun _ _ => by simp [pure]
  split
  · exact Outcome.bind_ne_panic _ _ (Robust.readPatchM_ne_panic nc s) fun _ _ => by simp [pure]
  split
  · refine Outcome.bind_ne_panic _ _ (Robust.readDiffM_ne_panic nc s) fun d _ => ?_
    exact Outcome.bind_ne_panic _ _ (Robust.renderMergeM_ne_panic nc d) fun _ _ => by simp [pure]
  split
  · exact Outcome.bind_ne_panic _ _ (Robust.readMergeM_ne_panic nc s) fun _ _ => by simp [pure]
  split
  · exact Outcome.bind_ne_panic _ _ (Robust.readJsonM_ne_panic nc s) fun _ _ => by simp [pure]
  split
  · exact Outcome.bind_ne_panic _ _ (readYamlM_ne_panic dec hd s) fun _ _ => by simp [pure]
  · simp

/-- **MAIN 4 — with §1–§2 and the library no-panic theorems, NO reading, applying or
    error-returning rendering call of the model can fail to return, for the JSON and the YAML
    carrier**: whatever panics is a marshalling failure inside a call without an error result -/
theorem modelPanics_only_render (nc : NumCodec) (dec : YamlDecoder) (hd : DecoderValues dec)
    (Ym : Prop) (c : Call) (h : ModelPanics nc dec Ym c) : RenderPanics nc Ym := by
  cases c with
  | serve => exact h.elim
  | file1 => exact h.elim
  | file2 => exact h.elim
  | write => exact h.elim
  | diff => exact h.elim
  | parse1 => obtain ⟨y, s, hs⟩ := h; exact absurd hs (readDocM_ne_panic nc dec hd y s)
  | parse2 => obtain ⟨y, s, hs⟩ := h; exact absurd hs (readDocM_ne_panic nc dec hd y s)
  | renderJd => exact h
  | renderDoc => exact h
  | renderPatch => obtain ⟨d, hs⟩ := h; exact absurd hs (Robust.renderPatchM_ne_panic nc d)
  | renderMerge => obtain ⟨d, hs⟩ := h; exact absurd hs (Robust.renderMergeM_ne_panic nc d)
  | readDiff => obtain ⟨f, s, hs⟩ := h; exact absurd hs (readDiffFmtM_ne_panic nc f s)
  | patch => obtain ⟨a, d, hs⟩ := h; exact absurd hs (patchM_ne_panic a d)
  | translate =>
    rcases h with ⟨t, s, hs⟩ | h
    · exact absurd hs (translateM_ne_panic nc dec hd t s)
    · exact h

/-- the calls C13 speaks about (reading arbitrary text, applying a read diff) and the
    error-returning renderers -/
def Call.readOrApply : Call → Bool
  | .parse1 | .parse2 | .readDiff | .patch | .renderPatch | .renderMerge => true
  | _ => false

theorem model_readOrApply_never_panics (nc : NumCodec) (dec : YamlDecoder)
    (hd : DecoderValues dec) (Ym : Prop) (c : Call) (hc : c.readOrApply = true) :
    ¬ ModelPanics nc dec Ym c := by
  intro h
  have := modelPanics_only_render nc dec hd Ym c h
  cases c with
  | parse1 => obtain ⟨y, s, hs⟩ := h; exact absurd hs (readDocM_ne_panic nc dec hd y s)
  | parse2 => obtain ⟨y, s, hs⟩ := h; exact absurd hs (readDocM_ne_panic nc dec hd y s)
  | renderPatch => obtain ⟨d, hs⟩ := h; exact absurd hs (Robust.renderPatchM_ne_panic nc d)
  | renderMerge => obtain ⟨d, hs⟩ := h; exact absurd hs (Robust.renderMergeM_ne_panic nc d)
  | readDiff => obtain ⟨f, s, hs⟩ := h; exact absurd hs (readDiffFmtM_ne_panic nc f s)
  | patch => obtain ⟨a, d, hs⟩ := h; exact absurd hs (patchM_ne_panic a d)
  | _ => simp [Call.readOrApply] at hc

/-- **MAIN 5 — the CLI clause on the model library.**  `cr` is any account of which calls did not
    return that is justified by the model (`cr c = true` only if the model function behind `c` can
    panic at all).  Then a stack trace can only come from a marshalling failure … -/
theorem cli_stack_trace_only_from_marshal (nc : NumCodec) (dec : YamlDecoder)
    (hd : DecoderValues dec) (Ym : Prop) (b : Binary) (fl : Flags) (r : LibResults)
    (cr : Call → Bool) (hsound : ∀ c, cr c = true → ModelPanics nc dec Ym c)
    (h : cliP b fl r cr = .goPanic) : RenderPanics nc Ym := by
  obtain ⟨c, _, hc⟩ := (cliP_goPanic_iff b fl r cr).1 h
  exact modelPanics_only_render nc dec hd Ym c (hsound c hc)

/-- … and if marshalling cannot fail there is none: the process ends as `cliM` says (exit 0 / 1, or
    exit 2 with ONE log record resp. the usage text, MAIN 1) -/
theorem cli_never_stack_trace (nc : NumCodec) (dec : YamlDecoder) (hd : DecoderValues dec)
    (Ym : Prop) (hr : ¬ RenderPanics nc Ym) (b : Binary) (fl : Flags) (r : LibResults)
    (cr : Call → Bool) (hsound : ∀ c, cr c = true → ModelPanics nc dec Ym c) :
    cliP b fl r cr = .exited (cliM b fl r) := by
  cases h : cliP b fl r cr with
  | goPanic => exact absurd (cli_stack_trace_only_from_marshal nc dec hd Ym b fl r cr hsound h) hr
  | exited o =>
    unfold cliP at h
    split at h
    · cases h
    · exact h.symm

/-! ### error paths: no marshalling hypothesis is needed -/

/-- the calls whose panic would be a marshalling failure -/
def Call.isRender : Call → Bool
  | .renderJd | .renderDoc | .translate => true
  | _ => false

def Step.isRender : Step → Bool
  | .call c => c.isRender
  | .flag _ => false

/-- no marshalling call is reached: every one of them is preceded by a failing step (decidable) -/
def renderShielded (r : LibResults) : List Step → Bool
  | [] => true
  | s :: l =>
    !s.isRender && (match s.verdict r with
      | .error _ => true
      | .ok _ => renderShielded r l)

theorem callsMade_of_shielded (r : LibResults) (cr : Call → Bool) : ∀ (l : List Step),
    renderShielded r l = true → ∀ c ∈ callsMade r cr l, c.isRender = false
  | [], _, c, hc => by cases hc
  | .flag (.ok u) :: l, h, c, hc => by
    simp only [renderShielded, Step.isRender, Step.verdict, Bool.not_false, Bool.true_and] at h
    exact callsMade_of_shielded r cr l h c hc
  | .flag (.error e) :: l, _, c, hc => by cases hc
  | .call c' :: l, h, c, hc => by
    simp only [renderShielded, Step.isRender, Step.verdict, Bool.and_eq_true,
      Bool.not_eq_true'] at h
    simp only [callsMade, List.mem_cons] at hc
    rcases hc with rfl | hc
    · exact h.1
    · split at hc
      · cases hc
      · split at hc
        · rename_i u hu
          rw [hu] at h
          exact callsMade_of_shielded r cr l h.2 c hc
        · cases hc

theorem modelPanics_not_render (nc : NumCodec) (dec : YamlDecoder) (hd : DecoderValues dec)
    (Ym : Prop) (c : Call) (hc : c.isRender = false) : ¬ ModelPanics nc dec Ym c := by
  intro h
  cases c with
  | serve => exact h.elim
  | file1 => exact h.elim
  | file2 => exact h.elim
  | write => exact h.elim
  | diff => exact h.elim
  | parse1 => obtain ⟨y, s, hs⟩ := h; exact absurd hs (readDocM_ne_panic nc dec hd y s)
  | parse2 => obtain ⟨y, s, hs⟩ := h; exact absurd hs (readDocM_ne_panic nc dec hd y s)
  | renderPatch => obtain ⟨d, hs⟩ := h; exact absurd hs (Robust.renderPatchM_ne_panic nc d)
  | renderMerge => obtain ⟨d, hs⟩ := h; exact absurd hs (Robust.renderMergeM_ne_panic nc d)
  | readDiff => obtain ⟨f, s, hs⟩ := h; exact absurd hs (readDiffFmtM_ne_panic nc f s)
  | patch => obtain ⟨a, d, hs⟩ := h; exact absurd hs (patchM_ne_panic a d)
  | renderJd => cases hc
  | renderDoc => cases hc
  | translate => cases hc

/-- **MAIN 6 — on a run in which no marshalling call is reached there is NO stack trace, without
    any hypothesis on marshalling** -/
theorem shielded_never_stack_trace (nc : NumCodec) (dec : YamlDecoder) (hd : DecoderValues dec)
    (Ym : Prop) (b : Binary) (fl : Flags) (r : LibResults) (cr : Call → Bool)
    (hsound : ∀ c, cr c = true → ModelPanics nc dec Ym c)
    (hsh : renderShielded r (program b fl) = true) :
    cliP b fl r cr = .exited (cliM b fl r) := by
  cases h : cliP b fl r cr with
  | exited o =>
    unfold cliP at h
    split at h
    · cases h
    · exact h.symm
  | goPanic =>
    obtain ⟨c, hm, hc⟩ := (cliP_goPanic_iff b fl r cr).1 h
    exact absurd (hsound c hc)
      (modelPanics_not_render nc dec hd Ym c (callsMade_of_shielded r cr _ hsh c hm))

theorem inputsOf_length_two {fl : Flags} {srcs : List Src} (ht : fl.t = "")
    (h : inputsOf fl = .ok srcs) : srcs.length = 2 := by
  have hm : modeOf fl ≠ .translate := by
    unfold modeOf; simp only [ht, bne_self_eq_false, Bool.false_eq_true, if_false]
    split <;> simp
  unfold inputsOf at h
  split at h
  · rename_i h1 _; exact absurd h1 hm
  · rename_i h1 _; exact absurd h1 hm
  · cases h
  · cases h; rfl
  · cases h; rfl
  · cases h

/-- the C13 CLI clause in PATCH mode (`jd -p [-f …] [-yaml] DIFF FILE`): the input cannot be read,
    the diff / patch / merge patch is malformed, the document is malformed, or the patch does not
    apply — the marshalling call `Json()` / `Yaml()` is never reached -/
theorem patch_mode_error_shielded (b : Binary) (fl : Flags) (r : LibResults)
    (hv : fl.version = false) (hp : fl.port = 0) (hg : fl.gitDiffDriver = false)
    (hpp : fl.p = true) (ht : fl.t = "")
    (herr : (∃ e, r.file1 = .error e) ∨ (∃ e, r.file2 = .error e) ∨ (∃ e, r.readDiff = .error e) ∨
      (∃ e, r.parse2 = .error e) ∨ (∃ e, r.patch = .error e)) :
    renderShielded r (program b fl) = true := by
  have hmode : modeOf fl = .patch := by simp [modeOf, hpp, ht]
  unfold program
  simp only [hv, hp, hg, hpp, ht, hmode, Bool.false_eq_true, if_false, bne_self_eq_false,
    Bool.and_false, guardMsg_false]
  cases parsedOptions b fl with
  | error e => simp [renderShielded, Step.isRender, Step.verdict]
  | ok o =>
    cases hi : inputsOf fl with
    | error e => simp [renderShielded, Step.isRender, Step.verdict]
    | ok srcs =>
      have hl := inputsOf_length_two ht hi
      simp only [inputSteps, hl, ge_iff_le, Nat.le_refl, if_true, patchSteps, List.cons_append,
        List.nil_append, renderShielded, Step.isRender, Step.verdict, Call.isRender, Call.result,
        chk_ok, Bool.not_false, Bool.true_and]
      rcases herr with ⟨e, h⟩ | ⟨e, h⟩ | ⟨e, h⟩ | ⟨e, h⟩ | ⟨e, h⟩
      · simp [h]
      · cases r.file1 <;> simp [h]
      · cases r.file1 <;> cases r.file2 <;> cases formatOf fl.f <;> simp [h]
      · cases r.file1 <;> cases r.file2 <;> cases formatOf fl.f <;> cases r.readDiff <;> simp [h]
      · cases r.file1 <;> cases r.file2 <;> cases formatOf fl.f <;> cases r.readDiff <;>
          cases r.parse2 <;> simp [h]

/-- the same in DIFF mode: an input cannot be read or is not a document — `Diff` / `Render` are
    never reached -/
theorem diff_mode_error_shielded (b : Binary) (fl : Flags) (r : LibResults)
    (hv : fl.version = false) (hp : fl.port = 0) (hg : fl.gitDiffDriver = false)
    (hpp : fl.p = false) (ht : fl.t = "")
    (herr : (∃ e, r.file1 = .error e) ∨ (∃ e, r.file2 = .error e) ∨ (∃ e, r.parse1 = .error e) ∨
      (∃ e, r.parse2 = .error e)) :
    renderShielded r (program b fl) = true := by
  have hmode : modeOf fl = .diff := by simp [modeOf, hpp, ht]
  unfold program
  simp only [hv, hp, hg, hpp, ht, hmode, Bool.false_eq_true, if_false, bne_self_eq_false,
    Bool.and_false, guardMsg_false]
  cases parsedOptions b fl with
  | error e => simp [renderShielded, Step.isRender, Step.verdict]
  | ok o =>
    cases hi : inputsOf fl with
    | error e => simp [renderShielded, Step.isRender, Step.verdict]
    | ok srcs =>
      have hl := inputsOf_length_two ht hi
      simp only [inputSteps, hl, ge_iff_le, Nat.le_refl, if_true, diffSteps, List.cons_append,
        List.nil_append, renderShielded, Step.isRender, Step.verdict, Call.isRender, Call.result,
        chk_ok, Bool.not_false, Bool.true_and]
      rcases herr with ⟨e, h⟩ | ⟨e, h⟩ | ⟨e, h⟩ | ⟨e, h⟩
      · simp [h]
      · cases r.file1 <;> simp [h]
      · cases r.file1 <;> cases r.file2 <;> simp [h]
      · cases r.file1 <;> cases r.file2 <;> cases r.parse1 <;> simp [h]

/-- **MAIN 7 — "a ONE-LINE message"**: on a message exit the record on stderr is a single line
    provided (i) every error message the LIBRARY / the OS returned for a call of the program is one
    line (the bytes of those messages are NOT modelled: `LibResults` carries them as data) and
    (ii) no piece of `-setkeys` that is refused contains an interior newline.  All other messages are
    composed by `main` itself and are one line (`own_messages_oneLine`). -/
theorem exit_two_oneLine (b : Binary) (fl : Flags) (r : LibResults)
    (h : (cliM b fl r).exit = 2) (hu : usageExit b fl = false)
    (hlib : ∀ c m, Step.call c ∈ program b fl → c.result r = .error (.msg m) → oneLineMsg m = true)
    (hkeys : ∀ k ∈ fl.setkeys.splitOn ",", oneLineMsg ("invalid set key: " ++ k) = true) :
    (cliM b fl r).stderrClass = .oneLine := by
  rcases error_exit_contract b fl r h with ⟨_, m, _, ⟨pre, s, post, hprog, _, hs⟩, hcl⟩ | ⟨hu', _⟩
  · rw [hcl]
    have hmem : s ∈ program b fl := by rw [hprog]; simp
    cases s with
    | call c => exact hlib c m hmem hs
    | flag v =>
      simp only [Step.verdict] at hs
      subst hs
      rcases own_messages_oneLine hmem with h1 | ⟨k, hk, rfl⟩
      · exact h1
      · exact hkeys k hk
  · rw [hu] at hu'; cases hu'

/-! ### witnesses: where the clause "exit 2 with a one-line message" FAILS on the model -/

/-- COUNTER-WITNESS 1 (`jd` with no argument; likewise 3 or more arguments, or 2 with `-t`): exit
    status 2, NOTHING on stderr, the multi-line usage text on STDOUT.  This is `printUsageAndExit`
    of main.go (`fmt.Println` + `os.Exit(2)`) -/
theorem usage_witness :
    usageExit .v2jd {} = true ∧
    ∀ r : LibResults, cliM .v2jd {} r = ⟨2, usageText .v2jd, none, "", .usage⟩ := by
  have h : usageExit .v2jd {} = true := by decide
  exact ⟨h, fun r => outcome_of_usage ((usage_iff _ _ r).2 h)⟩

/-- COUNTER-WITNESS 2 (library / OS message with an interior newline; whether a real message has one
    is outside the model): ONE record, two lines -/
theorem multiLine_library_message_witness :
    cliM .v2jd { nargs := 2 } { file1 := .error "open x: no such file\nsecond line" } =
      ⟨2, "", none, "open x: no such file\nsecond line\n", .multiLine⟩ := by decide

section SplitOn
open String

theorem splitOnAux_comma (l m r : List Char) (acc : List String) :
    splitOnAux (ofList (l ++ m ++ r)) "," ⟨utf8Len l⟩ ⟨utf8Len l + utf8Len m⟩ 0 acc =
      acc.reverse ++ (List.splitOnPPrepend (· == ',') r m.reverse).map ofList := by
  unfold splitOnAux
  simp only [List.append_assoc, atEnd_iff, rawEndPos_ofList, utf8Len_append, Pos.Raw.mk_le_mk,
    Nat.add_le_add_iff_left, (by omega : utf8Len m + utf8Len r ≤ utf8Len m ↔ utf8Len r = 0),
    utf8Len_eq_zero, List.reverse_cons]
  split
  · subst r
    simpa using extract_of_valid l m []
  · obtain ⟨c, r, rfl⟩ := r.exists_cons_of_ne_nil ‹_›
    have hg : Pos.Raw.get "," 0 = ',' := by decide
    have hn : Pos.Raw.next "," 0 = ⟨1⟩ := by decide
    have he : ",".rawEndPos = ⟨1⟩ := by decide
    have hu : ({ byteIdx := utf8Len l + utf8Len m } : Pos.Raw).unoffsetBy 0 = ⟨utf8Len l + utf8Len m⟩ := rfl
    simp only [hg, hn, he, hu, Pos.Raw.le_refl, if_true]
    simp only [by
      simpa [-ofList_append] using
        (⟨get_of_valid (l ++ m) (c :: r), next_of_valid (l ++ m) c r⟩ : _ ∧ _)]
    split <;> rename_i h
    · have hc : c = ',' := by simpa using h
      subst hc
      have hx : ({ byteIdx := utf8Len l + utf8Len m + ','.utf8Size } : Pos.Raw).unoffsetBy ⟨1⟩ = ⟨utf8Len l + utf8Len m⟩ := by
        have : ','.utf8Size = 1 := by decide
        simp [Pos.Raw.unoffsetBy, this]
      rw [hx]
      have := extract_of_valid l m (',' :: r)
      simp only [List.append_assoc] at this
      rw [this]
      simpa [Nat.add_assoc, List.splitOnPPrepend_cons_eq_if] using
        splitOnAux_comma (l ++ m ++ [',']) [] r ((ofList m) :: acc)
    · simpa [List.splitOnPPrepend_cons_eq_if, h, Nat.add_assoc] using
        splitOnAux_comma l (m ++ [c]) r acc
termination_by r.length

theorem splitOn_comma (s : String) :
    s.splitOn "," = (List.splitOnP (· == ',') s.toList).map ofList := by
  have : ("," == "") = false := by decide
  simp only [splitOn, this]
  simpa using splitOnAux_comma [] [] s.toList []

end SplitOn

/-- COUNTER-WITNESS 3 (a message `main` composes itself): `jd -setkeys $'a,\n\n' x y` is refused
    with the piece shown verbatim — ONE record, two lines (the second one empty) -/
theorem multiLine_setkeys_witness (r : LibResults) :
    cliM .v2jd { setkeys := "a,\n\n", nargs := 2 } r =
      ⟨2, "", none, "invalid set key: \n\n", .multiLine⟩ := by
  have hs : splitKeys "a,\n\n" = .error "invalid set key: \n\n" := by
    unfold splitKeys
    rw [splitOn_comma]
    have : List.splitOnP (· == ',') "a,\n\n".toList = [['a'], ['\n','\n']] := by decide
    rw [this]
    have h1 : goTrimSpace (String.ofList ['a']) = "a" := by decide
    have h2 : goTrimSpace (String.ofList ['\n', '\n']) = "" := by decide
    simp [List.mapM_cons, h1, h2, bind, Except.bind]
  have hp : parsedOptions .v2jd { setkeys := "a,\n\n", nargs := 2 } =
      .error "invalid set key: \n\n" := by
    simp only [parsedOptions, optionsOf, hs]
    rfl
  have hr : run .v2jd { setkeys := "a,\n\n", nargs := 2 } r =
      .error (.msg "invalid set key: \n\n") := by
    simp [run, hp, step]
  unfold cliM
  rw [hr]
  decide

/-! ### non-vacuity of the main theorems of §3 -/

/-- MAIN 1 / MAIN 2: `jd -p d.jd a.json` where the diff is malformed -/
theorem program_patch_example : program .v2jd { p := true, nargs := 2 } =
    [.flag (.ok ()), .flag (.ok ()), .call .file1, .call .file2, .flag (.ok ()), .call .readDiff,
     .call .parse2, .call .patch, .call .renderDoc] := by rfl

example : ∃ m, cliM .v2jd { p := true, nargs := 2 }
      { file1 := .ok (), file2 := .ok (), readDiff := .error "invalid diff at line 2" } =
      ⟨2, "", none, logRecord m, classOfRecord (logRecord m)⟩ ∧
      firstErr (verdicts .v2jd { p := true, nargs := 2 }
        { file1 := .ok (), file2 := .ok (), readDiff := .error "invalid diff at line 2" }) =
        some (.msg m) :=
  failing_call_contract (c := .readDiff) (e := .msg "invalid diff at line 2")
    (by rw [program_patch_example]; simp) rfl

example : cliM .v2jd { p := true, nargs := 2 }
      { file1 := .ok (), file2 := .ok (), readDiff := .error "invalid diff at line 2" } =
      ⟨2, "", none, "invalid diff at line 2\n", .oneLine⟩ := by decide

/-- a patch that does not apply, with `-o`: no file is written -/
example : cliM .top { p := true, nargs := 1, o := "out.json", yaml := true }
      { file1 := .ok (), file2 := .ok (), readDiff := .ok (), parse2 := .ok (),
        patch := .error "wanted 1. found 2" } =
      ⟨2, "", none, "wanted 1. found 2\n", .oneLine⟩ := by decide

/-- MAIN 3 / MAIN 6: the same run, with the (justified) account that nothing panics -/
example : cliP .v2jd { p := true, nargs := 2 }
      { file1 := .ok (), file2 := .ok (), readDiff := .error "invalid diff at line 2" } (fun _ => false)
      = .exited ⟨2, "", none, "invalid diff at line 2\n", .oneLine⟩ := by decide

example : renderShielded
      { file1 := .ok (), file2 := .ok (), readDiff := .error "invalid diff at line 2" }
      (program .v2jd { p := true, nargs := 2 }) = true := by decide

/-- `cliP` does distinguish: a `Patch` call that does not return is a stack trace -/
example : cliP .v2jd { p := true, nargs := 2 }
      { file1 := .ok (), file2 := .ok (), readDiff := .ok (), parse2 := .ok () }
      (fun c => c == .patch) = .goPanic := by decide

/-- … but not if it is not reached (the diff was rejected before) -/
example : cliP .v2jd { p := true, nargs := 2 }
      { file1 := .ok (), file2 := .ok (), readDiff := .error "bad", parse2 := .ok () }
      (fun c => c == .patch) = .exited ⟨2, "", none, "bad\n", .oneLine⟩ := by decide

/-- MAIN 5 is applicable: the constantly-false account is justified by any model -/
example (nc : NumCodec) (Ym : Prop) (b : Binary) (fl : Flags) (r : LibResults)
    (hr : ¬ RenderPanics nc Ym) :
    cliP b fl r (fun _ => false) = .exited (cliM b fl r) :=
  cli_never_stack_trace nc hostileDec hostileDec_values Ym hr b fl r _ (fun _ h => by cases h)

/-- the program of a plain diff run -/
example : program .v2jd { nargs := 2 } =
    [.flag (.ok ()), .flag (.ok ()), .call .file1, .call .file2, .call .parse1, .call .parse2,
     .call .diff, .call .renderJd] := by rfl

end CliPart

end Jd.RobustYC

#print axioms Jd.RobustYC.newJsonNodeM_classified
#print axioms Jd.RobustYC.newJsonNodeM_nilElem_iff
#print axioms Jd.RobustYC.newJsonNodeM_panic_iff
#print axioms Jd.RobustYC.newJsonNodeM_ne_nilElem
#print axioms Jd.RobustYC.newJsonNodeM_ne_panic
#print axioms Jd.RobustYC.newJsonNodeM_decoder_value
#print axioms Jd.RobustYC.jsonRoundTripM_total
#print axioms Jd.RobustYC.yamlRoundTripM_total
#print axioms Jd.RobustYC.readYamlM_ne_panic
#print axioms Jd.RobustYC.readYamlM_cases
#print axioms Jd.RobustYC.read_yaml_then_patch_ne_panic
#print axioms Jd.RobustYC.cli_patch_pipeline_ne_panic
#print axioms Jd.RobustYC.yaml_round_trip_then_patch_ne_panic
#print axioms Jd.RobustYC.nilSlot_witness
#print axioms Jd.RobustYC.program_sound
#print axioms Jd.RobustYC.exit_two_iff
#print axioms Jd.RobustYC.usage_iff
#print axioms Jd.RobustYC.error_exit_contract
#print axioms Jd.RobustYC.failing_call_contract
#print axioms Jd.RobustYC.class_oneLine_iff
#print axioms Jd.RobustYC.own_messages_oneLine
#print axioms Jd.RobustYC.exit_two_oneLine
#print axioms Jd.RobustYC.cliP_goPanic_iff
#print axioms Jd.RobustYC.cliP_of_no_crash
#print axioms Jd.RobustYC.callsMade_of_no_plan
#print axioms Jd.RobustYC.modelPanics_only_render
#print axioms Jd.RobustYC.model_readOrApply_never_panics
#print axioms Jd.RobustYC.cli_stack_trace_only_from_marshal
#print axioms Jd.RobustYC.cli_never_stack_trace
#print axioms Jd.RobustYC.shielded_never_stack_trace
#print axioms Jd.RobustYC.patch_mode_error_shielded
#print axioms Jd.RobustYC.diff_mode_error_shielded
#print axioms Jd.RobustYC.usage_witness
#print axioms Jd.RobustYC.multiLine_library_message_witness
#print axioms Jd.RobustYC.multiLine_setkeys_witness
