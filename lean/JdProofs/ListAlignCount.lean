/-
  JdProofs.ListAlignCount — property C06 (v2 library, LIST reading, STRICT strategy): the alignment
  that `jsonList.diffRest` follows, as an EXECUTABLE function of the inputs, and what can be counted
  and located on it. Namespace `Jd.Align`.

  A. `walk o a b c R A`: the alignment `Script` (JdProofs/RealDiffList.lean) the cursor walk of
     `diffRest` produces — the decisions of the code, without hunks, paths, context or sub-diffs.
     `keeps`, `subs`, `removedOf`, `addedOf` of a script; `walk_src`, `walk_tgt`, `walk_keeps`
     (the kept pairs are exactly the common sequence handed to the walk).
  B. EXACT COUNTS (only `listDocList`): `removedTop_diffRest` / `addedTop_diffRest` (what the
     array-level hunks remove / add IS what the `edit` steps of the walk remove / add, as lists),
     `diffM_counts_exact`.
  C. the walk IS the alignment of `RealL.Aligned` (`diffRest_walk`, `diffNode_aligned_walk`).
  D. STATIC CRITERION for recursion: `locate` (gap number and offset of a position with respect to
     the leftmost embedding of the common sequence), `walk_sub_of_locate`, `diffNode_recurses_static`.
     `locate_of_walk_sub`, `alignment_sub_iff`: the criterion is EXACT (if and only if).
  E. the criterion without computing the common sequence: single gap (`pairedAt_of_apart`),
     `Diagonal` arrays (`locate_diag`, `pairedAt_of_diagonal`).
  F. context lines at every depth in index form (`LocatedAt`, `diffM_context_static_all_levels`).
  G. non-vacuity and witnesses (`Example`).
-/
import JdProofs.RealDiffList

set_option autoImplicit false

namespace Jd.Align
open Jd Jd.Spec Jd.DPL Jd.Rec Jd.RealL

/-! ## A. the walk as a function -/

/-- the alignment the cursor walk of `jsonList.diffRest` follows: same arguments as `diffRest`
    (remaining elements `a`, `b`, remaining common sequence `c`, pending `R`, `A`), same five
    decisions, but only the alignment steps are recorded -/
def walk (o : Opts) : List Json → List Json → List UInt64 → List Json → List Json → Script
  | [], b, _, R, A => editIf R (A ++ b)
  | x :: a', [], _, R, A => editIf (R ++ x :: a') A
  | x :: a', y :: b', c, R, A =>
    if atC o x c && atC o y c then editIf R A ++ .keep x y :: walk o a' b' c.tail [] []
    else if atC o x c then walk o (x :: a') b' c R (A ++ [y])
    else if atC o y c then walk o a' (y :: b') c (R ++ [x]) A
    else if sameContainerType o x y then editIf R A ++ .sub x y :: walk o a' b' c [] []
    else walk o a' b' c (R ++ [x]) (A ++ [y])
termination_by a b => a.length + b.length

theorem walk_nilA (o : Opts) (b : List Json) (c : List UInt64) (R A : List Json) :
    walk o [] b c R A = editIf R (A ++ b) := by
  rw [walk]

theorem walk_nilB (o : Opts) (a : List Json) (c : List UInt64) (R A : List Json) (ha : a ≠ []) :
    walk o a [] c R A = editIf (R ++ a) A := by
  cases a with
  | nil => exact absurd rfl ha
  | cons x a' => rw [walk]

theorem walk_cons (o : Opts) (x y : Json) (a' b' : List Json) (c : List UInt64) (R A : List Json) :
    walk o (x :: a') (y :: b') c R A =
      if atC o x c && atC o y c then editIf R A ++ .keep x y :: walk o a' b' c.tail [] []
      else if atC o x c then walk o (x :: a') b' c R (A ++ [y])
      else if atC o y c then walk o a' (y :: b') c (R ++ [x]) A
      else if sameContainerType o x y then editIf R A ++ .sub x y :: walk o a' b' c [] []
      else walk o a' b' c (R ++ [x]) (A ++ [y]) := by
  rw [walk]

/-- number of kept pairs -/
def keeps : Script → Nat
  | [] => 0
  | .keep _ _ :: r => keeps r + 1
  | _ :: r => keeps r

/-- number of pairs recursed into -/
def subs : Script → Nat
  | [] => 0
  | .sub _ _ :: r => subs r + 1
  | _ :: r => subs r

/-- what the `edit` steps remove, in order -/
def removedOf : Script → List Json
  | [] => []
  | .edit R _ :: r => R ++ removedOf r
  | _ :: r => removedOf r

/-- what the `edit` steps add, in order -/
def addedOf : Script → List Json
  | [] => []
  | .edit _ A :: r => A ++ addedOf r
  | _ :: r => addedOf r

theorem keeps_append : ∀ (S1 S2 : Script), keeps (S1 ++ S2) = keeps S1 + keeps S2
  | [], _ => by simp [keeps]
  | .keep _ _ :: r, S2 => by simp [keeps, keeps_append r S2]; omega
  | .sub _ _ :: r, S2 => by simp [keeps, keeps_append r S2]
  | .edit _ _ :: r, S2 => by simp [keeps, keeps_append r S2]

theorem subs_append : ∀ (S1 S2 : Script), subs (S1 ++ S2) = subs S1 + subs S2
  | [], _ => by simp [subs]
  | .keep _ _ :: r, S2 => by simp [subs, subs_append r S2]
  | .sub _ _ :: r, S2 => by simp [subs, subs_append r S2]; omega
  | .edit _ _ :: r, S2 => by simp [subs, subs_append r S2]

theorem removedOf_append : ∀ (S1 S2 : Script), removedOf (S1 ++ S2) = removedOf S1 ++ removedOf S2
  | [], _ => by simp [removedOf]
  | .keep _ _ :: r, S2 => by simp [removedOf, removedOf_append r S2]
  | .sub _ _ :: r, S2 => by simp [removedOf, removedOf_append r S2]
  | .edit _ _ :: r, S2 => by simp [removedOf, removedOf_append r S2]

theorem addedOf_append : ∀ (S1 S2 : Script), addedOf (S1 ++ S2) = addedOf S1 ++ addedOf S2
  | [], _ => by simp [addedOf]
  | .keep _ _ :: r, S2 => by simp [addedOf, addedOf_append r S2]
  | .sub _ _ :: r, S2 => by simp [addedOf, addedOf_append r S2]
  | .edit _ _ :: r, S2 => by simp [addedOf, addedOf_append r S2]

@[simp] theorem keeps_editIf (R A : List Json) : keeps (editIf R A) = 0 := by
  unfold editIf; split <;> simp [keeps]

@[simp] theorem subs_editIf (R A : List Json) : subs (editIf R A) = 0 := by
  unfold editIf; split <;> simp [subs]

@[simp] theorem removedOf_editIf (R A : List Json) : removedOf (editIf R A) = R := by
  unfold editIf
  split
  · next h =>
    simp only [Bool.and_eq_true, List.isEmpty_iff] at h
    simp [removedOf, h.1]
  · simp [removedOf]

@[simp] theorem addedOf_editIf (R A : List Json) : addedOf (editIf R A) = A := by
  unfold editIf
  split
  · next h =>
    simp only [Bool.and_eq_true, List.isEmpty_iff] at h
    simp [addedOf, h.2]
  · simp [addedOf]

theorem removedOf_length : ∀ (S : Script), (removedOf S).length = removedLen S
  | [] => rfl
  | .keep _ _ :: r => by simp [removedOf, removedLen, removedOf_length r]
  | .sub _ _ :: r => by simp [removedOf, removedLen, removedOf_length r]
  | .edit _ _ :: r => by simp [removedOf, removedLen, removedOf_length r]

theorem addedOf_length : ∀ (S : Script), (addedOf S).length = addedLen S
  | [] => rfl
  | .keep _ _ :: r => by simp [addedOf, addedLen, addedOf_length r]
  | .sub _ _ :: r => by simp [addedOf, addedLen, addedOf_length r]
  | .edit _ _ :: r => by simp [addedOf, addedLen, addedOf_length r]

/-- what an alignment removes is a sublist of its first array -/
theorem removedOf_sublist : ∀ (S : Script), (removedOf S).Sublist (src S)
  | [] => List.Sublist.refl _
  | .keep x _ :: r => by
    simpa [removedOf, Step.src] using (removedOf_sublist r).cons x
  | .sub x _ :: r => by
    simpa [removedOf, Step.src] using (removedOf_sublist r).cons x
  | .edit R _ :: r => by
    simpa [removedOf, Step.src] using List.Sublist.append (List.Sublist.refl R) (removedOf_sublist r)

/-- what an alignment adds is a sublist of its second array -/
theorem addedOf_sublist : ∀ (S : Script), (addedOf S).Sublist (tgt S)
  | [] => List.Sublist.refl _
  | .keep _ y :: r => by
    simpa [addedOf, Step.tgt] using (addedOf_sublist r).cons y
  | .sub _ y :: r => by
    simpa [addedOf, Step.tgt] using (addedOf_sublist r).cons y
  | .edit _ A :: r => by
    simpa [addedOf, Step.tgt] using List.Sublist.append (List.Sublist.refl A) (addedOf_sublist r)

/-- every element of the first array is kept, recursed into, or removed — exactly one of the three -/
theorem src_length_count : ∀ (S : Script), (src S).length = keeps S + subs S + removedLen S
  | [] => rfl
  | .keep _ _ :: r => by
    have := src_length_count r
    simp only [src_cons, Step.src, List.length_append, List.length_cons, List.length_nil, keeps,
      subs, removedLen]
    omega
  | .sub _ _ :: r => by
    have := src_length_count r
    simp only [src_cons, Step.src, List.length_append, List.length_cons, List.length_nil, keeps,
      subs, removedLen]
    omega
  | .edit _ _ :: r => by
    have := src_length_count r
    simp only [src_cons, Step.src, List.length_append, keeps, subs, removedLen]
    omega

/-- every element of the second array is kept, recursed into, or added — exactly one of the three -/
theorem tgt_length_count : ∀ (S : Script), (tgt S).length = keeps S + subs S + addedLen S
  | [] => rfl
  | .keep _ _ :: r => by
    have := tgt_length_count r
    simp only [tgt_cons, Step.tgt, List.length_append, List.length_cons, List.length_nil, keeps,
      subs, addedLen]
    omega
  | .sub _ _ :: r => by
    have := tgt_length_count r
    simp only [tgt_cons, Step.tgt, List.length_append, List.length_cons, List.length_nil, keeps,
      subs, addedLen]
    omega
  | .edit _ _ :: r => by
    have := tgt_length_count r
    simp only [tgt_cons, Step.tgt, List.length_append, keeps, subs, addedLen]
    omega

/-- the walk consumes the pending removals and the remaining first array … -/
theorem walk_src (o : Opts) : ∀ (a b : List Json) (c : List UInt64) (R A : List Json),
    src (walk o a b c R A) = R ++ a := by
  intro a b c R A
  fun_induction walk o a b c R A with
  | case1 b c R A => simp [src_editIf]
  | case2 x a' c R A => simp [src_editIf]
  | case3 x a' y b' c R A h ih => simp [src_append, src_editIf, Step.src, ih]
  | case4 x a' y b' c R A h1 h2 ih => simpa using ih
  | case5 x a' y b' c R A h1 h2 h3 ih => simpa using ih
  | case6 x a' y b' c R A h1 h2 h3 h4 ih => simp [src_append, src_editIf, Step.src, ih]
  | case7 x a' y b' c R A h1 h2 h3 h4 ih => simpa using ih

/-- … and produces the pending additions and the remaining second array -/
theorem walk_tgt (o : Opts) : ∀ (a b : List Json) (c : List UInt64) (R A : List Json),
    tgt (walk o a b c R A) = A ++ b := by
  intro a b c R A
  fun_induction walk o a b c R A with
  | case1 b c R A => simp [tgt_editIf]
  | case2 x a' c R A => simp [tgt_editIf]
  | case3 x a' y b' c R A h ih => simp [tgt_append, tgt_editIf, Step.tgt, ih]
  | case4 x a' y b' c R A h1 h2 ih => simpa using ih
  | case5 x a' y b' c R A h1 h2 h3 ih => simpa using ih
  | case6 x a' y b' c R A h1 h2 h3 h4 ih => simp [tgt_append, tgt_editIf, Step.tgt, ih]
  | case7 x a' y b' c R A h1 h2 h3 h4 ih => simpa using ih

/-- **the kept pairs are the common sequence**: when `c` is a common subsequence of the two
    remaining hash lists, the walk keeps exactly `|c|` pairs -/
theorem walk_keeps (o : Opts) : ∀ (a b : List Json) (c : List UInt64) (R A : List Json),
    c.Sublist (hashList o a) → c.Sublist (hashList o b) → keeps (walk o a b c R A) = c.length := by
  intro a b c R A
  fun_induction walk o a b c R A with
  | case1 b c R A =>
    intro h _
    have : c = [] := by simpa [hashList] using h
    simp [this]
  | case2 x a' c R A =>
    intro _ h
    have : c = [] := by simpa [hashList] using h
    simp [this]
  | case3 x a' y b' c R A h ih =>
    intro hca hcb
    simp only [Bool.and_eq_true] at h
    rw [hashList_cons] at hca hcb
    have ec := atC_true h.1
    have hca' : c.tail.Sublist (hashList o a') := by
      rw [ec] at hca; exact List.cons_sublist_cons.1 hca
    have hcb' : c.tail.Sublist (hashList o b') := by
      rw [atC_true h.2] at hcb; exact List.cons_sublist_cons.1 hcb
    have hlen : c.length = c.tail.length + 1 := by
      conv => lhs; rw [ec]
      simp
    rw [keeps_append, keeps_editIf, keeps, ih hca' hcb', hlen]
    omega
  | case4 x a' y b' c R A h1 h2 ih =>
    intro hca hcb
    have hB : atC o y c = false := by
      cases hB : atC o y c with
      | false => rfl
      | true => simp [h2, hB] at h1
    rw [hashList_cons] at hcb
    exact ih hca (sublist_of_head_ne hcb (atC_false hB))
  | case5 x a' y b' c R A h1 h2 h3 ih =>
    intro hca hcb
    rw [hashList_cons] at hca
    exact ih (sublist_of_head_ne hca (atC_false (by simpa using h2))) hcb
  | case6 x a' y b' c R A h1 h2 h3 h4 ih =>
    intro hca hcb
    rw [hashList_cons] at hca hcb
    simp [keeps_append, keeps,
      ih (sublist_of_head_ne hca (atC_false (by simpa using h2)))
        (sublist_of_head_ne hcb (atC_false (by simpa using h3)))]
  | case7 x a' y b' c R A h1 h2 h3 h4 ih =>
    intro hca hcb
    rw [hashList_cons] at hca hcb
    exact ih (sublist_of_head_ne hca (atC_false (by simpa using h2)))
      (sublist_of_head_ne hcb (atC_false (by simpa using h3)))

/-! ## B. exact counts: what the array-level hunks remove and add -/

/-- **loop invariant, containers allowed, list documents only**: in hunk order, the array-level hunks
    of the walk remove EXACTLY what the `edit` steps of the alignment remove, and add exactly what
    they add (the sub-diffs contribute no array-level hunk) -/
theorem top_diffRest {o : Opts} (ho : dispatchTag o = .list) (p : Path) :
    ∀ (a b : List Json) (c : List UInt64) (R A : List Json),
      listDocList a = true → listDocList b = true → ∀ (k s : Nat) (prev : Json),
      removedTop p (diffRest o p k s prev a b c R A) = removedOf (walk o a b c R A) ∧
      addedTop p (diffRest o p k s prev a b c R A) = addedOf (walk o a b c R A) := by
  intro a b c R A
  fun_induction walk o a b c R A with
  | case1 b c R A =>
    intro _ _ k s prev
    rw [diffRest_nilA]
    simp
  | case2 x a' c R A =>
    intro _ _ k s prev
    rw [diffRest_nilB _ _ _ _ _ _ _ _ _ (by simp)]
    simp
  | case3 x a' y b' c R A h ih =>
    intro hla hlb k s prev
    simp only [listDocList, Bool.and_eq_true] at hla hlb
    obtain ⟨h1, h2⟩ := ih hla.2 hlb.2 (k + 1) (k + 1) y
    rw [diffRest_cons, if_pos h]
    simp only [removedTop_append, addedTop_append, removedTop_accHunk, addedTop_accHunk,
      removedOf_append, addedOf_append, removedOf_editIf, addedOf_editIf, removedOf, addedOf, h1, h2]
    exact ⟨trivial, trivial⟩
  | case4 x a' y b' c R A h1 h2 ih =>
    intro hla hlb k s prev
    simp only [listDocList, Bool.and_eq_true] at hlb
    rw [diffRest_cons, if_neg h1, if_pos h2]
    exact ih hla hlb.2 (k + 1) s prev
  | case5 x a' y b' c R A h1 h2 h3 ih =>
    intro hla hlb k s prev
    simp only [listDocList, Bool.and_eq_true] at hla
    rw [diffRest_cons, if_neg h1, if_neg h2, if_pos h3]
    exact ih hla.2 hlb k s prev
  | case6 x a' y b' c R A h1 h2 h3 h4 ih =>
    intro hla hlb k s prev
    simp only [listDocList, Bool.and_eq_true] at hla hlb
    obtain ⟨e1, e2⟩ := ih hla.2 hlb.2 (k + 1) (k + 1) y
    have hf := subAfter_isTop_false ho hla.1 hlb.1 h4 p (k : Int)
      (R.isEmpty && A.isEmpty) (a'.headD .void)
    rw [diffRest_cons, if_neg h1, if_neg h2, if_neg h3, if_pos h4]
    simp only [removedTop_append, addedTop_append, removedTop_accHunk, addedTop_accHunk,
      removedTop_of_all_false hf, addedTop_of_all_false hf, List.append_nil,
      removedOf_append, addedOf_append, removedOf_editIf, addedOf_editIf, removedOf, addedOf, e1, e2]
    exact ⟨trivial, trivial⟩
  | case7 x a' y b' c R A h1 h2 h3 h4 ih =>
    intro hla hlb k s prev
    simp only [listDocList, Bool.and_eq_true] at hla hlb
    rw [diffRest_cons, if_neg h1, if_neg h2, if_neg h3, if_neg h4]
    exact ih hla.2 hlb.2 (k + 1) s prev

/-- the alignment of two arrays: the walk started on the whole arrays with the common sequence
    golcs returns for their hash lists -/
def alignment (o : Opts) (xs ys : List Json) : Script :=
  walk o xs ys (lcsValues (hashList o xs) (hashList o ys)) [] []

theorem alignment_src (o : Opts) (xs ys : List Json) : src (alignment o xs ys) = xs := by
  simp [alignment, walk_src]

theorem alignment_tgt (o : Opts) (xs ys : List Json) : tgt (alignment o xs ys) = ys := by
  simp [alignment, walk_tgt]

/-- the kept pairs of the alignment are a LONGEST common subsequence of the hash lists -/
theorem alignment_keeps (o : Opts) (xs ys : List Json) :
    keeps (alignment o xs ys) = lcsLenSpec (hashList o xs) (hashList o ys) := by
  rw [alignment, walk_keeps o _ _ _ _ _ (lcsValues_sublist_left _ _) (lcsValues_sublist_right _ _),
    lcsValues_length_spec]

/-- what the array-level hunks of `a.Diff(b)` remove and add, as lists, in hunk order -/
theorem diffM_top_eq {o : Opts} (ho : dispatchTag o = .list) (hm : isMerge o = false)
    {t t' : Tag} (xs ys : List Json)
    (ht : (t == .raw || t == .list) = true) (ht' : (t' == .raw || t' == .list) = true)
    (htt : t = .raw ∨ t' = .list)
    (hla : listDocList xs = true) (hlb : listDocList ys = true) :
    removedTop [] (diffM o (.arr t xs) (.arr t' ys)) = removedOf (alignment o xs ys) ∧
    addedTop [] (diffM o (.arr t xs) (.arr t' ys)) = addedOf (alignment o xs ys) := by
  rw [diffM, hm, diffNode_arr_arr ho xs ys ht ht' htt []]
  exact top_diffRest ho [] xs ys _ [] [] hla hlb 0 0 .void

/-- **EXACT COUNT with containers.** Every element of the first array is kept (`LCS` of them),
    recursed into (`subs`) or removed by an array-level hunk; every element of the second is kept,
    recursed into or added. As equalities between natural numbers without subtraction. -/
theorem diffM_counts_exact {o : Opts} (ho : dispatchTag o = .list) (hm : isMerge o = false)
    {t t' : Tag} (xs ys : List Json)
    (ht : (t == .raw || t == .list) = true) (ht' : (t' == .raw || t' == .list) = true)
    (htt : t = .raw ∨ t' = .list)
    (hla : listDocList xs = true) (hlb : listDocList ys = true) :
    (removedTop [] (diffM o (.arr t xs) (.arr t' ys))).length +
        lcsLenSpec (hashList o xs) (hashList o ys) + subs (alignment o xs ys) = xs.length ∧
    (addedTop [] (diffM o (.arr t xs) (.arr t' ys))).length +
        lcsLenSpec (hashList o xs) (hashList o ys) + subs (alignment o xs ys) = ys.length := by
  obtain ⟨e1, e2⟩ := diffM_top_eq ho hm xs ys ht ht' htt hla hlb
  have s1 := src_length_count (alignment o xs ys)
  have s2 := tgt_length_count (alignment o xs ys)
  rw [alignment_src, alignment_keeps] at s1
  rw [alignment_tgt, alignment_keeps] at s2
  rw [e1, e2, removedOf_length, addedOf_length]
  omega

/-- the same with subtraction, and the bound by an optimal LCS edit script as a corollary -/
theorem diffM_counts_exact_sub {o : Opts} (ho : dispatchTag o = .list) (hm : isMerge o = false)
    {t t' : Tag} (xs ys : List Json)
    (ht : (t == .raw || t == .list) = true) (ht' : (t' == .raw || t' == .list) = true)
    (htt : t = .raw ∨ t' = .list)
    (hla : listDocList xs = true) (hlb : listDocList ys = true) :
    (removedTop [] (diffM o (.arr t xs) (.arr t' ys))).length =
        xs.length - lcsLenSpec (hashList o xs) (hashList o ys) - subs (alignment o xs ys) ∧
    (addedTop [] (diffM o (.arr t xs) (.arr t' ys))).length =
        ys.length - lcsLenSpec (hashList o xs) (hashList o ys) - subs (alignment o xs ys) := by
  have := diffM_counts_exact ho hm xs ys ht ht' htt hla hlb
  omega

/-- a step that is not `sub`-free: scalars on one side never recurse -/
theorem subs_walk_zero_of_scalars (o : Opts) : ∀ (a b : List Json) (c : List UInt64) (R A : List Json),
    (∀ x ∈ a, isScalar x = true) → subs (walk o a b c R A) = 0 := by
  intro a b c R A
  fun_induction walk o a b c R A with
  | case1 b c R A => intro _; simp
  | case2 x a' c R A => intro _; simp
  | case3 x a' y b' c R A h ih =>
    intro hs
    simp [subs_append, subs, ih (fun z hz => hs z (List.mem_cons_of_mem _ hz))]
  | case4 x a' y b' c R A h1 h2 ih => intro hs; exact ih hs
  | case5 x a' y b' c R A h1 h2 h3 ih =>
    intro hs; exact ih (fun z hz => hs z (List.mem_cons_of_mem _ hz))
  | case6 x a' y b' c R A h1 h2 h3 h4 ih =>
    intro hs
    exfalso
    rw [sameContainerType_scalar o y (hs x List.mem_cons_self)] at h4
    cases h4
  | case7 x a' y b' c R A h1 h2 h3 h4 ih =>
    intro hs; exact ih (fun z hz => hs z (List.mem_cons_of_mem _ hz))

/-! ## C. the walk IS the alignment the diff renders -/

/-- **the loop invariant of `RealL.diffRest_script` with the alignment named**: under the same
    hypotheses the script is `walk o a b c R A` -/
theorem diffRest_walk (o : Opts) :
    ∀ (n : Nat) (a b : List Json), a.length + b.length = n →
      (∀ x ∈ a, ∀ y ∈ b, mixedPair x y = false) →
      ∀ (k s : Nat) (prev : Json) (c : List UInt64) (R A : List Json),
        EmptyMeansSameHash o a b → LOpt c (hashList o a) (hashList o b) →
        Real.HashApart o R A →
        (R.length < A.length → ∃ x a', a = x :: a' ∧ atC o x c = true) →
        (A.length < R.length → ∃ y b', b = y :: b' ∧ atC o y c = true) →
        k = s + A.length →
        (∀ st ∈ walk o a b c R A, st.ok o) ∧
          ∀ p, diffRest o p k s prev a b c R A = hunks o p s prev (walk o a b c R A) := by
  intro n
  induction n using Nat.strongRecOn with
  | _ n ih =>
    intro a b hn hnm k s prev c R A hE hL hRA hphA hphB hk
    cases a with
    | nil =>
      have hc : c = [] := Real.lopt_nil_left hL
      have hle : R.length ≤ A.length := by
        apply Nat.le_of_not_lt
        intro hlt
        obtain ⟨y, b', _, hy⟩ := hphB hlt
        rw [hc] at hy
        simp [atC] at hy
      rw [walk_nilA]
      refine ⟨ok_editIf (hRA.append_right hle b), fun p => ?_⟩
      rw [diffRest_nilA]
      have := accHunk_append_hunks o p s prev R (A ++ b) []
      simpa [hunks] using this
    | cons x a' =>
      cases b with
      | nil =>
        have hc : c = [] := Real.lopt_nil_right hL
        have hle : A.length ≤ R.length := by
          apply Nat.le_of_not_lt
          intro hlt
          obtain ⟨x0, a0, _, hx⟩ := hphA hlt
          rw [hc] at hx
          simp [atC] at hx
        rw [walk_nilB _ _ _ _ _ (by simp)]
        refine ⟨ok_editIf (hRA.append_left hle _), fun p => ?_⟩
        rw [diffRest_nilB _ _ _ _ _ _ _ _ _ (by simp)]
        have := accHunk_append_hunks o p s prev (R ++ x :: a') A []
        simpa [hunks] using this
      | cons y b' =>
        simp only [List.length_cons] at hn
        have hAA : ∀ z ∈ a', ∀ w ∈ b', mixedPair z w = false := fun z hz w hw =>
          hnm z (List.mem_cons_of_mem _ hz) w (List.mem_cons_of_mem _ hw)
        have hA1 : ∀ z ∈ a', ∀ w ∈ y :: b', mixedPair z w = false := fun z hz w hw =>
          hnm z (List.mem_cons_of_mem _ hz) w hw
        have h1B : ∀ z ∈ x :: a', ∀ w ∈ b', mixedPair z w = false := fun z hz w hw =>
          hnm z hz w (List.mem_cons_of_mem _ hw)
        rw [hashList_cons, hashList_cons] at hL
        have hxA : ∀ x0 a0, x :: a' = x0 :: a0 → atC o x0 c = true → atC o x c = true := by
          intro x0 a0 e hx; cases e; exact hx
        have hyB : ∀ y0 b0, y :: b' = y0 :: b0 → atC o y0 c = true → atC o y c = true := by
          intro y0 b0 e hy; cases e; exact hy
        rw [walk_cons]
        cases hA : atC o x c with
        | true =>
          cases hB : atC o y c with
          | true =>
            have hxy : hashCode o x = hashCode o y := atC_both_hash hA hB
            have hL' : LOpt c.tail (hashList o a') (hashList o b') := by
              have hc := atC_true hA
              rw [hc, ← hxy] at hL
              exact hL.both
            obtain ⟨hok, hd⟩ := ih (a'.length + b'.length) (by omega) a' b' rfl hAA
              (k + 1) (k + 1) y c.tail [] [] hE.tailA.tailB hL' (Real.HashApart.nil o) (by simp)
              (by simp) (by simp)
            simp only [Bool.and_self, if_true]
            refine ⟨?_, fun p => ?_⟩
            · intro st hst
              rcases List.mem_append.1 hst with hst | hst
              · exact ok_editIf hRA st hst
              · rcases List.mem_cons.1 hst with rfl | hst
                · exact hxy
                · exact hok st hst
            · rw [diffRest_cons]
              simp only [hA, hB, Bool.and_self, if_true]
              rw [hd p, ← accHunk_append_hunks]
              simp [hunks, Step.src, hk]
          | false =>
            have hle : R.length ≤ A.length := by
              apply Nat.le_of_not_lt
              intro hlt
              obtain ⟨y0, b0, e, hy⟩ := hphB hlt
              rw [hyB y0 b0 e hy] at hB
              cases hB
            obtain ⟨hok, hd⟩ := ih ((x :: a').length + b'.length) (by simp; omega)
              (x :: a') b' rfl h1B (k + 1) s prev c R (A ++ [y]) hE.tailB
              (by rw [hashList_cons]; exact hL.skipB (atC_false hB))
              (hRA.append_right hle _) (fun _ => ⟨x, a', rfl, hA⟩)
              (by
                intro hlt
                simp only [List.length_append, List.length_cons, List.length_nil] at hlt
                omega)
              (by simp; omega)
            simp only [Bool.and_false, Bool.false_eq_true, if_false, if_true]
            refine ⟨hok, fun p => ?_⟩
            rw [diffRest_cons]
            simp only [hA, hB, Bool.and_false, Bool.false_eq_true, if_false, if_true]
            exact hd p
        | false =>
          have hleA : A.length ≤ R.length := by
            apply Nat.le_of_not_lt
            intro hlt
            obtain ⟨x0, a0, e, hx⟩ := hphA hlt
            rw [hxA x0 a0 e hx] at hA
            cases hA
          cases hB : atC o y c with
          | true =>
            obtain ⟨hok, hd⟩ := ih (a'.length + (y :: b').length) (by simp; omega)
              a' (y :: b') rfl hA1 k s prev c (R ++ [x]) A hE.tailA
              (by rw [hashList_cons]; exact hL.skipA (atC_false hA))
              (hRA.append_left hleA _)
              (by
                intro hlt
                simp only [List.length_append, List.length_cons, List.length_nil] at hlt
                omega)
              (fun _ => ⟨y, b', rfl, hB⟩) hk
            simp only [Bool.false_and, Bool.false_eq_true, if_false, if_true]
            refine ⟨hok, fun p => ?_⟩
            rw [diffRest_cons]
            simp only [hA, hB, Bool.false_and, Bool.false_eq_true, if_false, if_true]
            exact hd p
          | false =>
            have hleB : R.length ≤ A.length := by
              apply Nat.le_of_not_lt
              intro hlt
              obtain ⟨y0, b0, e, hy⟩ := hphB hlt
              rw [hyB y0 b0 e hy] at hB
              cases hB
            have hlen : R.length = A.length := by omega
            have hne : hashCode o x ≠ hashCode o y := by
              intro e
              rw [← e] at hL
              exact hL.heads_ne (atC_false hA)
            have hL' : LOpt c (hashList o a') (hashList o b') :=
              (hL.skipA (atC_false hA)).skipB (atC_false hB)
            cases hsame : sameContainerType o x y with
            | false =>
              obtain ⟨hok, hd⟩ := ih (a'.length + b'.length) (by omega) a' b' rfl hAA
                (k + 1) s prev c (R ++ [x]) (A ++ [y]) hE.tailA.tailB hL' (hRA.snoc hlen hne)
                (by
                  intro hlt
                  simp only [List.length_append, List.length_cons, List.length_nil] at hlt
                  omega)
                (by
                  intro hlt
                  simp only [List.length_append, List.length_cons, List.length_nil] at hlt
                  omega)
                (by simp; omega)
              simp only [Bool.false_and, Bool.false_eq_true, if_false]
              refine ⟨hok, fun p => ?_⟩
              rw [diffRest_cons]
              simp only [hA, hB, hsame, Bool.false_and, Bool.false_eq_true, if_false]
              exact hd p
            | true =>
              obtain ⟨hok, hd⟩ := ih (a'.length + b'.length) (by omega) a' b' rfl hAA
                (k + 1) (k + 1) y c [] [] hE.tailA.tailB hL' (Real.HashApart.nil o) (by simp)
                (by simp) (by simp)
              simp only [Bool.false_and, Bool.false_eq_true, if_false, if_true]
              refine ⟨?_, fun p => ?_⟩
              · intro st hst
                rcases List.mem_append.1 hst with hst | hst
                · exact ok_editIf hRA st hst
                · rcases List.mem_cons.1 hst with rfl | hst
                  · exact ⟨hsame, hne⟩
                  · exact hok st hst
              · have hD : (diffNode o false x y (p ++ [.idx (k : Int)])).isEmpty = false := by
                  cases hdn : diffNode o false x y (p ++ [.idx (k : Int)]) with
                  | nil => exact absurd (hE x List.mem_cons_self y List.mem_cons_self _ hdn) hne
                  | cons _ _ => rfl
                rw [diffRest_cons]
                simp only [hA, hB, hsame, hD, Bool.false_and, Bool.false_eq_true, if_false, if_true]
                rw [Real.subAfter_diffNode_of_not_mixed o hsame
                  (hnm x List.mem_cons_self y List.mem_cons_self), hd p, List.append_assoc,
                  ← accHunk_append_hunks]
                simp [hunks, Step.src, hk]

/-- **the diff of two arrays is the rendering of `alignment o xs ys`** (hypotheses of
    `RealL.diffNode_aligned`) -/
theorem diffNode_aligned_walk {o : Opts} (ho : dispatchTag o = .list) {t t' : Tag} (xs ys : List Json)
    (ht : (t == .raw || t == .list) = true) (ht' : (t' == .raw || t' == .list) = true)
    (htt : t = .raw ∨ t' = .list) (gx : GoodL xs) (gy : GoodL ys)
    (Z : NumHashOK o (subtermsList xs) (subtermsList ys))
    (nomix : ∀ x ∈ xs, ∀ y ∈ ys, mixedPair x y = false) :
    Aligned o t xs t' ys (alignment o xs ys) := by
  obtain ⟨hok, hd⟩ := diffRest_walk o _ xs ys rfl nomix 0 0 .void
    (lcsValues (hashList o xs) (hashList o ys)) [] []
    (emptyMeansSameHash_of_good ho gx gy Z) (LOpt.lcs _ _) (Real.HashApart.nil o) (by simp)
    (by simp) (by simp)
  exact ⟨alignment_src o xs ys, alignment_tgt o xs ys, hok,
    fun p => by rw [diffNode_arr_arr ho xs ys ht ht' htt p]; exact hd p⟩

/-! ## D. a static criterion for recursion -/

/-- **where a position stands with respect to the common sequence.** The walk stops each cursor at
    the FIRST remaining element whose hash code is the next common element: the common sequence `c`
    is embedded leftmost in each array; the embedded elements are the ANCHORS, the runs between
    them the GAPS. `locate o a c i g off`: `a` the (remaining) array, `c` the (remaining) common
    sequence, `g` the number of the gap `a` starts in and `off` the offset in that gap of its first
    element. Result: `none` when `a[i]` is an anchor (or `i` is out of range), else `some (gap,
    offset)` of `a[i]`. Depends on ONE array and the common sequence only. -/
def locate (o : Opts) : List Json → List UInt64 → Nat → Nat → Nat → Option (Nat × Nat)
  | [], _, _, _, _ => none
  | x :: a, c, i, g, off =>
    if atC o x c then
      (match i with
       | 0 => none
       | i' + 1 => locate o a c.tail i' (g + 1) 0)
    else
      (match i with
       | 0 => some (g, off)
       | i' + 1 => locate o a c i' g (off + 1))

/-- gap numbers only grow, and inside the starting gap offsets only grow -/
theorem locate_ge (o : Opts) : ∀ (a : List Json) (c : List UInt64) (i g off : Nat) (r : Nat × Nat),
    locate o a c i g off = some r → g ≤ r.1 ∧ (r.1 = g → off ≤ r.2)
  | [], _, _, _, _, _, h => by simp [locate] at h
  | x :: a, c, i, g, off, r, h => by
    simp only [locate] at h
    split at h
    · cases i with
      | zero => simp at h
      | succ i' =>
        have := locate_ge o a c.tail i' (g + 1) 0 r h
        exact ⟨by omega, fun e => by omega⟩
    · cases i with
      | zero =>
        simp only [Option.some.injEq] at h
        subst h
        exact ⟨Nat.le_refl _, fun _ => Nat.le_refl _⟩
      | succ i' =>
        have := locate_ge o a c i' g (off + 1) r h
        exact ⟨this.1, fun e => by have := this.2 e; omega⟩

/-- **the criterion implies recursion, along the walk.** State `(a, b, c)` of the walk (reached from
    `(a0, b0, c0)`), gap number `g`, offsets `offA`, `offB` of the two cursors in that gap — equal,
    unless one cursor waits at its anchor while the other side is being added / removed. If `a[i]`
    and `b[j]` stand in the SAME gap at the SAME offset (`locate` gives the same answer) and are
    same-kind containers, then the alignment has the step `sub a[i] b[j]` at that place, and the
    walk reaches the position with both cursor elements off the common sequence. -/
theorem walk_sub_of_locate (o : Opts) (a0 b0 : List Json) (c0 : List UInt64) :
    ∀ (a b : List Json) (c : List UInt64) (R A : List Json), Reach o a0 b0 c0 a b c →
      ∀ (i j g offA offB : Nat) (r : Nat × Nat) (x y : Json),
        locate o a c i g offA = some r → locate o b c j g offB = some r →
        (offA < offB → ∃ x0 a', a = x0 :: a' ∧ atC o x0 c = true) →
        (offB < offA → ∃ y0 b', b = y0 :: b' ∧ atC o y0 c = true) →
        a[i]? = some x → b[j]? = some y → sameContainerType o x y = true →
        (∃ S1 S2, walk o a b c R A = S1 ++ .sub x y :: S2 ∧
          (src S1).length = R.length + i ∧ (tgt S1).length = A.length + j) ∧
        (∃ c', Reach o a0 b0 c0 (x :: a.drop (i + 1)) (y :: b.drop (j + 1)) c' ∧
          atC o x c' = false ∧ atC o y c' = false) := by
  intro a b c R A
  fun_induction walk o a b c R A with
  | case1 b c R A => intro _ i j g offA offB r x y _ _ _ _ hx; simp at hx
  | case2 x0 a' c R A => intro _ i j g offA offB r x y _ _ _ _ _ hy; simp at hy
  | case3 x0 a' y0 b' c R A h ih =>
    intro hr i j g offA offB r x y hlA hlB _ _ hx hy hs
    simp only [Bool.and_eq_true] at h
    simp only [locate, h.1, h.2, if_true] at hlA hlB
    cases i with
    | zero => simp at hlA
    | succ i' =>
      cases j with
      | zero => simp at hlB
      | succ j' =>
        simp only [List.getElem?_cons_succ] at hx hy
        obtain ⟨⟨S1, S2, e, e1, e2⟩, c', hr', hc'⟩ :=
          ih (Reach.both hr h.1 h.2) i' j' (g + 1) 0 0 r x y hlA hlB (by simp) (by simp) hx hy hs
        refine ⟨⟨editIf R A ++ .keep x0 y0 :: S1, S2, by simp [e], ?_, ?_⟩, c', ?_, hc'⟩
        · simp only [src_append, src_cons, src_editIf, Step.src, List.length_append,
            List.length_cons, List.length_nil, e1]
          omega
        · simp only [tgt_append, tgt_cons, tgt_editIf, Step.tgt, List.length_append,
            List.length_cons, List.length_nil, e2]
          omega
        · simpa using hr'
  | case4 x0 a' y0 b' c R A h1 h2 ih =>
    intro hr i j g offA offB r x y hlA hlB hpA hpB hx hy hs
    have hB : atC o y0 c = false := by
      cases hB : atC o y0 c with
      | false => rfl
      | true => simp [h2, hB] at h1
    have hle : offA ≤ offB := by
      apply Nat.le_of_not_lt
      intro hlt
      obtain ⟨y1, b1, e, hy1⟩ := hpB hlt
      cases e
      rw [hB] at hy1
      cases hy1
    cases j with
    | zero =>
      exfalso
      simp only [locate, hB, Bool.false_eq_true, if_false, Option.some.injEq] at hlB
      subst hlB
      simp only [locate, h2, if_true] at hlA
      cases i with
      | zero => simp at hlA
      | succ i' =>
        have := (locate_ge o a' c.tail i' (g + 1) 0 _ hlA).1
        omega
    | succ j' =>
      simp only [locate, hB, Bool.false_eq_true, if_false] at hlB
      simp only [List.getElem?_cons_succ] at hy
      obtain ⟨⟨S1, S2, e, e1, e2⟩, c', hr', hc'⟩ :=
        ih (Reach.addB hr h2 hB) i j' g offA (offB + 1) r x y hlA hlB
          (fun _ => ⟨x0, a', rfl, h2⟩) (fun hlt => by omega) hx hy hs
      refine ⟨⟨S1, S2, e, e1, ?_⟩, c', ?_, hc'⟩
      · simp only [List.length_append, List.length_cons, List.length_nil] at e2
        omega
      · simpa using hr'
  | case5 x0 a' y0 b' c R A h1 h2 h3 ih =>
    intro hr i j g offA offB r x y hlA hlB hpA hpB hx hy hs
    have hA : atC o x0 c = false := by simpa using h2
    have hle : offB ≤ offA := by
      apply Nat.le_of_not_lt
      intro hlt
      obtain ⟨x1, a1, e, hx1⟩ := hpA hlt
      cases e
      rw [hA] at hx1
      cases hx1
    cases i with
    | zero =>
      exfalso
      simp only [locate, hA, Bool.false_eq_true, if_false, Option.some.injEq] at hlA
      subst hlA
      simp only [locate, h3, if_true] at hlB
      cases j with
      | zero => simp at hlB
      | succ j' =>
        have := (locate_ge o b' c.tail j' (g + 1) 0 _ hlB).1
        omega
    | succ i' =>
      simp only [locate, hA, Bool.false_eq_true, if_false] at hlA
      simp only [List.getElem?_cons_succ] at hx
      obtain ⟨⟨S1, S2, e, e1, e2⟩, c', hr', hc'⟩ :=
        ih (Reach.remA hr hA h3) i' j g (offA + 1) offB r x y hlA hlB
          (fun hlt => by omega) (fun _ => ⟨y0, b', rfl, h3⟩) hx hy hs
      refine ⟨⟨S1, S2, e, ?_, e2⟩, c', ?_, hc'⟩
      · simp only [List.length_append, List.length_cons, List.length_nil] at e1
        omega
      · simpa using hr'
  | case6 x0 a' y0 b' c R A h1 h2 h3 h4 ih =>
    intro hr i j g offA offB r x y hlA hlB hpA hpB hx hy hs
    have hA : atC o x0 c = false := by simpa using h2
    have hB : atC o y0 c = false := by simpa using h3
    have hoff : offA = offB := by
      apply Nat.le_antisymm
      · apply Nat.le_of_not_lt
        intro hlt
        obtain ⟨y1, b1, e, hy1⟩ := hpB hlt
        cases e
        rw [hB] at hy1
        cases hy1
      · apply Nat.le_of_not_lt
        intro hlt
        obtain ⟨x1, a1, e, hx1⟩ := hpA hlt
        cases e
        rw [hA] at hx1
        cases hx1
    subst hoff
    simp only [locate, hA, hB, Bool.false_eq_true, if_false] at hlA hlB
    cases i with
    | zero =>
      simp only [Option.some.injEq] at hlA
      subst hlA
      cases j with
      | zero =>
        simp only [List.getElem?_cons_zero, Option.some.injEq] at hx hy
        subst hx; subst hy
        exact ⟨⟨editIf R A, walk o a' b' c [] [], rfl, by simp [src_editIf], by simp [tgt_editIf]⟩,
          c, by simpa using hr, hA, hB⟩
      | succ j' =>
        exfalso
        have := (locate_ge o b' c j' g (offA + 1) _ hlB).2 rfl
        omega
    | succ i' =>
      cases j with
      | zero =>
        exfalso
        simp only [Option.some.injEq] at hlB
        subst hlB
        have := (locate_ge o a' c i' g (offA + 1) _ hlA).2 rfl
        omega
      | succ j' =>
        simp only [List.getElem?_cons_succ] at hx hy
        obtain ⟨⟨S1, S2, e, e1, e2⟩, c', hr', hc'⟩ :=
          ih (Reach.sub hr hA hB h4) i' j' g (offA + 1) (offA + 1) r x y hlA hlB
            (fun hlt => by omega) (fun hlt => by omega) hx hy hs
        refine ⟨⟨editIf R A ++ .sub x0 y0 :: S1, S2, by simp [e], ?_, ?_⟩, c', ?_, hc'⟩
        · simp only [src_append, src_cons, src_editIf, Step.src, List.length_append,
            List.length_cons, List.length_nil, e1]
          omega
        · simp only [tgt_append, tgt_cons, tgt_editIf, Step.tgt, List.length_append,
            List.length_cons, List.length_nil, e2]
          omega
        · simpa using hr'
  | case7 x0 a' y0 b' c R A h1 h2 h3 h4 ih =>
    intro hr i j g offA offB r x y hlA hlB hpA hpB hx hy hs
    have hA : atC o x0 c = false := by simpa using h2
    have hB : atC o y0 c = false := by simpa using h3
    have hoff : offA = offB := by
      apply Nat.le_antisymm
      · apply Nat.le_of_not_lt
        intro hlt
        obtain ⟨y1, b1, e, hy1⟩ := hpB hlt
        cases e
        rw [hB] at hy1
        cases hy1
      · apply Nat.le_of_not_lt
        intro hlt
        obtain ⟨x1, a1, e, hx1⟩ := hpA hlt
        cases e
        rw [hA] at hx1
        cases hx1
    subst hoff
    simp only [locate, hA, hB, Bool.false_eq_true, if_false] at hlA hlB
    cases i with
    | zero =>
      simp only [Option.some.injEq] at hlA
      subst hlA
      cases j with
      | zero =>
        exfalso
        simp only [List.getElem?_cons_zero, Option.some.injEq] at hx hy
        subst hx; subst hy
        exact h4 hs
      | succ j' =>
        exfalso
        have := (locate_ge o b' c j' g (offA + 1) _ hlB).2 rfl
        omega
    | succ i' =>
      cases j with
      | zero =>
        exfalso
        simp only [Option.some.injEq] at hlB
        subst hlB
        have := (locate_ge o a' c i' g (offA + 1) _ hlA).2 rfl
        omega
      | succ j' =>
        simp only [List.getElem?_cons_succ] at hx hy
        have h4' : sameContainerType o x0 y0 = false := by simpa using h4
        obtain ⟨⟨S1, S2, e, e1, e2⟩, c', hr', hc'⟩ :=
          ih (Reach.repl hr hA hB h4') i' j' g (offA + 1) (offA + 1) r x y hlA hlB
            (fun hlt => by omega) (fun hlt => by omega) hx hy hs
        refine ⟨⟨S1, S2, e, ?_, ?_⟩, c', ?_, hc'⟩
        · simp only [List.length_append, List.length_cons, List.length_nil] at e1
          omega
        · simp only [List.length_append, List.length_cons, List.length_nil] at e2
          omega
        · simpa using hr'

/-- **the static criterion**: position `i` of `xs` and position `j` of `ys` are not anchors and stand
    in the same gap at the same offset, with respect to the common sequence golcs returns for the
    two hash lists. Decidable; computed from the hash lists alone, without running the diff. -/
def pairedAt (o : Opts) (xs ys : List Json) (i j : Nat) : Bool :=
  match locate o xs (lcsValues (hashList o xs) (hashList o ys)) i 0 0,
        locate o ys (lcsValues (hashList o xs) (hashList o ys)) j 0 0 with
  | some r, some r' => r.1 == r'.1 && r.2 == r'.2
  | _, _ => false

theorem pairedAt_iff {o : Opts} {xs ys : List Json} {i j : Nat} :
    pairedAt o xs ys i j = true ↔
      ∃ r, locate o xs (lcsValues (hashList o xs) (hashList o ys)) i 0 0 = some r ∧
        locate o ys (lcsValues (hashList o xs) (hashList o ys)) j 0 0 = some r := by
  unfold pairedAt
  constructor
  · intro h
    split at h
    · next r r' e1 e2 =>
      simp only [Bool.and_eq_true, beq_iff_eq] at h
      refine ⟨r, e1, ?_⟩
      rw [e2]
      congr 1
      exact (Prod.ext h.1 h.2).symm
    · cases h
  · rintro ⟨r, e1, e2⟩
    rw [e1, e2]
    simp

theorem prefix_eq_take {xs pre post : List Json} {x : Json} {i : Nat}
    (e : xs = pre ++ x :: post) (hp : post = xs.drop (i + 1)) (hi : i < xs.length) :
    pre = xs.take i ∧ pre.length = i := by
  have hl := congrArg List.length e
  rw [hp] at hl
  simp only [List.length_append, List.length_cons, List.length_drop] at hl
  have hlen : pre.length = i := by omega
  refine ⟨?_, hlen⟩
  conv => rhs; rw [e]
  rw [List.take_left' hlen]

/-- the alignment has the step `sub x y` where the criterion holds -/
theorem alignment_sub_of_paired {o : Opts} {xs ys : List Json} {i j : Nat} {x y : Json}
    (hp : pairedAt o xs ys i j = true) (hx : xs[i]? = some x) (hy : ys[j]? = some y)
    (hs : sameContainerType o x y = true) :
    ∃ S1 S2, alignment o xs ys = S1 ++ .sub x y :: S2 ∧ (src S1).length = i ∧
      (tgt S1).length = j := by
  obtain ⟨r, e1, e2⟩ := pairedAt_iff.1 hp
  obtain ⟨⟨S1, S2, e, h1, h2⟩, _⟩ := walk_sub_of_locate o xs ys _ xs ys _ [] [] Reach.start
    i j 0 0 0 r x y e1 e2 (by simp) (by simp) hx hy hs
  exact ⟨S1, S2, e, by simpa using h1, by simpa using h2⟩

/-- **static criterion ⇒ recursion, not replacement** (list documents; the pair not a typed list
    against a plain array). If `xs[i] = x` and `ys[j] = y` are same-kind containers standing in the
    same gap at the same offset (`pairedAt`), then `a.Diff(b) = D1 ++ (sub-diff of x, y at [j]) ++ D2`;
    no hunk of the sub-diff is an array-level hunk; the array-level hunks of `D1` remove only
    elements of `xs` standing before `i` and add only elements of `ys` standing before `j`, those
    of `D2` only elements standing after: no array-level hunk removes `x` or adds `y`. -/
theorem diffM_recurses_static {o : Opts} (ho : dispatchTag o = .list) (hm : isMerge o = false)
    {t t' : Tag} (xs ys : List Json)
    (ht : (t == .raw || t == .list) = true) (ht' : (t' == .raw || t' == .list) = true)
    (htt : t = .raw ∨ t' = .list)
    (hla : listDocList xs = true) (hlb : listDocList ys = true)
    {i j : Nat} {x y : Json}
    (hp : pairedAt o xs ys i j = true) (hx : xs[i]? = some x) (hy : ys[j]? = some y)
    (hs : sameContainerType o x y = true) (hnm : mixedPair x y = false) :
    ∃ (D1 D2 : Diff),
      diffM o (.arr t xs) (.arr t' ys) = D1 ++ diffNode o false x y [.idx (j : Int)] ++ D2 ∧
      (∀ h ∈ diffNode o false x y [.idx (j : Int)], isTop [] h = false) ∧
      (removedTop [] D1).Sublist (xs.take i) ∧ (addedTop [] D1).Sublist (ys.take j) ∧
      (removedTop [] D2).Sublist (xs.drop (i + 1)) ∧ (addedTop [] D2).Sublist (ys.drop (j + 1)) := by
  obtain ⟨r, e1, e2⟩ := pairedAt_iff.1 hp
  obtain ⟨_, c', hr, hA, hB⟩ := walk_sub_of_locate o xs ys _ xs ys _ [] [] Reach.start
    i j 0 0 0 r x y e1 e2 (by simp) (by simp) hx hy hs
  obtain ⟨D1, D2, preA, preB, ea, eb, e, hf, h1, h2, h3, h4⟩ :=
    diffM_recurses_at ho hm xs ys ht ht' htt hla hlb hr hA hB hs hnm
  have hi : i < xs.length := (List.getElem?_eq_some_iff.1 hx).1
  have hj : j < ys.length := (List.getElem?_eq_some_iff.1 hy).1
  obtain ⟨pa, pal⟩ := prefix_eq_take ea rfl hi
  obtain ⟨pb, pbl⟩ := prefix_eq_take eb rfl hj
  rw [pbl] at e hf
  rw [pa] at h1
  rw [pb] at h2
  exact ⟨D1, D2, e, hf, h1, h2, h3, h4⟩

/-- the same about the whole diff: all array-level hunks together remove a sublist of `xs` with
    position `i` taken out and add a sublist of `ys` with position `j` taken out (no `mixedPair`
    hypothesis) -/
theorem diffM_recurses_static_whole {o : Opts} (ho : dispatchTag o = .list) (hm : isMerge o = false)
    {t t' : Tag} (xs ys : List Json)
    (ht : (t == .raw || t == .list) = true) (ht' : (t' == .raw || t' == .list) = true)
    (htt : t = .raw ∨ t' = .list)
    (hla : listDocList xs = true) (hlb : listDocList ys = true)
    {i j : Nat} {x y : Json}
    (hp : pairedAt o xs ys i j = true) (hx : xs[i]? = some x) (hy : ys[j]? = some y)
    (hs : sameContainerType o x y = true) :
    (removedTop [] (diffM o (.arr t xs) (.arr t' ys))).Sublist (xs.take i ++ xs.drop (i + 1)) ∧
    (addedTop [] (diffM o (.arr t xs) (.arr t' ys))).Sublist (ys.take j ++ ys.drop (j + 1)) := by
  obtain ⟨r, e1, e2⟩ := pairedAt_iff.1 hp
  obtain ⟨_, c', hr, hA, hB⟩ := walk_sub_of_locate o xs ys _ xs ys _ [] [] Reach.start
    i j 0 0 0 r x y e1 e2 (by simp) (by simp) hx hy hs
  obtain ⟨preA, preB, ea, eb, h1, h2⟩ :=
    diffM_recurses_at_whole ho hm xs ys ht ht' htt hla hlb hr hA hB hs
  have hi : i < xs.length := (List.getElem?_eq_some_iff.1 hx).1
  have hj : j < ys.length := (List.getElem?_eq_some_iff.1 hy).1
  obtain ⟨pa, _⟩ := prefix_eq_take ea rfl hi
  obtain ⟨pb, _⟩ := prefix_eq_take eb rfl hj
  rw [pa] at h1
  rw [pb] at h2
  exact ⟨h1, h2⟩

/-! ### the converse: a pair that is recursed into satisfies the criterion -/

theorem editIf_ne_sub {R A : List Json} {S1 S2 : Script} {x y : Json} :
    editIf R A ≠ S1 ++ .sub x y :: S2 := by
  unfold editIf
  split
  · intro e; simp at e
  · intro e
    cases S1 with
    | nil => simp at e
    | cons s S1' => simp at e

theorem editIf_split {R A : List Json} {st : Step} {W S1 S2 : Script} {x y : Json}
    (e : editIf R A ++ st :: W = S1 ++ .sub x y :: S2) :
    (st = .sub x y ∧ S1 = editIf R A ∧ S2 = W) ∨
    (∃ S1', S1 = editIf R A ++ st :: S1' ∧ W = S1' ++ .sub x y :: S2) := by
  have key : ∀ (T : Script), st :: W = T ++ .sub x y :: S2 →
      (st = .sub x y ∧ T = [] ∧ S2 = W) ∨ (∃ S1', T = st :: S1' ∧ W = S1' ++ .sub x y :: S2) := by
    intro T eT
    cases T with
    | nil =>
      simp only [List.nil_append, List.cons.injEq] at eT
      exact .inl ⟨eT.1, rfl, eT.2.symm⟩
    | cons s T' =>
      simp only [List.cons_append, List.cons.injEq] at eT
      exact .inr ⟨T', by rw [eT.1], eT.2⟩
  by_cases h : (R.isEmpty && A.isEmpty) = true
  · have he : editIf R A = [] := by simp only [editIf, h, if_true]
    rw [he] at e ⊢
    simp only [List.nil_append] at e ⊢
    rcases key S1 e with ⟨h1, h2, h3⟩ | ⟨S1', h1, h2⟩
    · exact .inl ⟨h1, h2, h3⟩
    · exact .inr ⟨S1', h1, h2⟩
  · have he : editIf R A = [.edit R A] := by simp [editIf, h]
    rw [he] at e ⊢
    cases S1 with
    | nil => simp at e
    | cons s T =>
      simp only [List.cons_append, List.nil_append, List.cons.injEq] at e
      obtain ⟨rfl, e⟩ := e
      rcases key T e with ⟨h1, h2, h3⟩ | ⟨S1', h1, h2⟩
      · exact .inl ⟨h1, by rw [h2], h3⟩
      · exact .inr ⟨S1', by rw [h1]; rfl, h2⟩

/-- **recursion implies the criterion, along the walk**: a `sub x y` step of the walk stands at
    positions `i`, `j` (counted in the remaining arrays) that `locate` puts in the same gap at the
    same offset, and `x`, `y` are same-kind containers -/
theorem locate_of_walk_sub (o : Opts) :
    ∀ (a b : List Json) (c : List UInt64) (R A : List Json) (g offA offB : Nat)
      (S1 S2 : Script) (x y : Json),
      walk o a b c R A = S1 ++ .sub x y :: S2 →
      (offA < offB → ∃ x0 a', a = x0 :: a' ∧ atC o x0 c = true) →
      (offB < offA → ∃ y0 b', b = y0 :: b' ∧ atC o y0 c = true) →
      sameContainerType o x y = true ∧
      ∃ (i j : Nat) (r : Nat × Nat), (src S1).length = R.length + i ∧
        (tgt S1).length = A.length + j ∧
        locate o a c i g offA = some r ∧ locate o b c j g offB = some r := by
  intro a b c R A
  fun_induction walk o a b c R A with
  | case1 b c R A => intro g offA offB S1 S2 x y e; exact absurd e editIf_ne_sub
  | case2 x0 a' c R A => intro g offA offB S1 S2 x y e; exact absurd e editIf_ne_sub
  | case3 x0 a' y0 b' c R A h ih =>
    intro g offA offB S1 S2 x y e _ _
    simp only [Bool.and_eq_true] at h
    rcases editIf_split e with ⟨h1, _, _⟩ | ⟨S1', e1, eW⟩
    · cases h1
    · obtain ⟨hs, i', j', r, l1, l2, l3, l4⟩ := ih (g + 1) 0 0 S1' S2 x y eW (by simp) (by simp)
      refine ⟨hs, i' + 1, j' + 1, r, ?_, ?_, ?_, ?_⟩
      · rw [e1]
        simp only [src_append, src_cons, src_editIf, Step.src, List.length_append,
          List.length_cons, List.length_nil] at l1 ⊢
        omega
      · rw [e1]
        simp only [tgt_append, tgt_cons, tgt_editIf, Step.tgt, List.length_append,
          List.length_cons, List.length_nil] at l2 ⊢
        omega
      · simp only [locate, h.1, if_true]; exact l3
      · simp only [locate, h.2, if_true]; exact l4
  | case4 x0 a' y0 b' c R A h1 h2 ih =>
    intro g offA offB S1 S2 x y e hpA hpB
    have hB : atC o y0 c = false := by
      cases hB : atC o y0 c with
      | false => rfl
      | true => simp [h2, hB] at h1
    have hle : offA ≤ offB := by
      apply Nat.le_of_not_lt
      intro hlt
      obtain ⟨y1, b1, e', hy1⟩ := hpB hlt
      cases e'
      rw [hB] at hy1
      cases hy1
    obtain ⟨hs, i, j', r, l1, l2, l3, l4⟩ := ih g offA (offB + 1) S1 S2 x y e
      (fun _ => ⟨x0, a', rfl, h2⟩) (fun hlt => by omega)
    refine ⟨hs, i, j' + 1, r, l1, ?_, l3, ?_⟩
    · simp only [List.length_append, List.length_cons, List.length_nil] at l2
      omega
    · simp only [locate, hB, Bool.false_eq_true, if_false]; exact l4
  | case5 x0 a' y0 b' c R A h1 h2 h3 ih =>
    intro g offA offB S1 S2 x y e hpA hpB
    have hA : atC o x0 c = false := by simpa using h2
    have hle : offB ≤ offA := by
      apply Nat.le_of_not_lt
      intro hlt
      obtain ⟨x1, a1, e', hx1⟩ := hpA hlt
      cases e'
      rw [hA] at hx1
      cases hx1
    obtain ⟨hs, i', j, r, l1, l2, l3, l4⟩ := ih g (offA + 1) offB S1 S2 x y e
      (fun hlt => by omega) (fun _ => ⟨y0, b', rfl, h3⟩)
    refine ⟨hs, i' + 1, j, r, ?_, l2, ?_, l4⟩
    · simp only [List.length_append, List.length_cons, List.length_nil] at l1
      omega
    · simp only [locate, hA, Bool.false_eq_true, if_false]; exact l3
  | case6 x0 a' y0 b' c R A h1 h2 h3 h4 ih =>
    intro g offA offB S1 S2 x y e hpA hpB
    have hA : atC o x0 c = false := by simpa using h2
    have hB : atC o y0 c = false := by simpa using h3
    have hoff : offA = offB := by
      apply Nat.le_antisymm
      · apply Nat.le_of_not_lt
        intro hlt
        obtain ⟨y1, b1, e', hy1⟩ := hpB hlt
        cases e'
        rw [hB] at hy1
        cases hy1
      · apply Nat.le_of_not_lt
        intro hlt
        obtain ⟨x1, a1, e', hx1⟩ := hpA hlt
        cases e'
        rw [hA] at hx1
        cases hx1
    subst hoff
    rcases editIf_split e with ⟨h1', e1, _⟩ | ⟨S1', e1, eW⟩
    · cases h1'
      refine ⟨h4, 0, 0, (g, offA), ?_, ?_, ?_, ?_⟩
      · rw [e1]; simp [src_editIf]
      · rw [e1]; simp [tgt_editIf]
      · simp [locate, hA]
      · simp [locate, hB]
    · obtain ⟨hs, i', j', r, l1, l2, l3, l4⟩ := ih g (offA + 1) (offA + 1) S1' S2 x y eW
        (fun hlt => by omega) (fun hlt => by omega)
      refine ⟨hs, i' + 1, j' + 1, r, ?_, ?_, ?_, ?_⟩
      · rw [e1]
        simp only [src_append, src_cons, src_editIf, Step.src, List.length_append,
          List.length_cons, List.length_nil] at l1 ⊢
        omega
      · rw [e1]
        simp only [tgt_append, tgt_cons, tgt_editIf, Step.tgt, List.length_append,
          List.length_cons, List.length_nil] at l2 ⊢
        omega
      · simp only [locate, hA, Bool.false_eq_true, if_false]; exact l3
      · simp only [locate, hB, Bool.false_eq_true, if_false]; exact l4
  | case7 x0 a' y0 b' c R A h1 h2 h3 h4 ih =>
    intro g offA offB S1 S2 x y e hpA hpB
    have hA : atC o x0 c = false := by simpa using h2
    have hB : atC o y0 c = false := by simpa using h3
    have hoff : offA = offB := by
      apply Nat.le_antisymm
      · apply Nat.le_of_not_lt
        intro hlt
        obtain ⟨y1, b1, e', hy1⟩ := hpB hlt
        cases e'
        rw [hB] at hy1
        cases hy1
      · apply Nat.le_of_not_lt
        intro hlt
        obtain ⟨x1, a1, e', hx1⟩ := hpA hlt
        cases e'
        rw [hA] at hx1
        cases hx1
    subst hoff
    obtain ⟨hs, i', j', r, l1, l2, l3, l4⟩ := ih g (offA + 1) (offA + 1) S1 S2 x y e
      (fun hlt => by omega) (fun hlt => by omega)
    refine ⟨hs, i' + 1, j' + 1, r, ?_, ?_, ?_, ?_⟩
    · simp only [List.length_append, List.length_cons, List.length_nil] at l1
      omega
    · simp only [List.length_append, List.length_cons, List.length_nil] at l2
      omega
    · simp only [locate, hA, Bool.false_eq_true, if_false]; exact l3
    · simp only [locate, hB, Bool.false_eq_true, if_false]; exact l4

/-- **the criterion is exact**: the alignment recurses into the pair (`xs[i]`, `ys[j]`) if and only
    if the two are same-kind containers standing in the same gap at the same offset -/
theorem alignment_sub_iff {o : Opts} {xs ys : List Json} {i j : Nat} {x y : Json} :
    (∃ S1 S2, alignment o xs ys = S1 ++ .sub x y :: S2 ∧ (src S1).length = i ∧
      (tgt S1).length = j) ↔
    (pairedAt o xs ys i j = true ∧ xs[i]? = some x ∧ ys[j]? = some y ∧
      sameContainerType o x y = true) := by
  constructor
  · rintro ⟨S1, S2, e, h1, h2⟩
    obtain ⟨hs, i', j', r, l1, l2, l3, l4⟩ :=
      locate_of_walk_sub o xs ys _ [] [] 0 0 0 S1 S2 x y e (by simp) (by simp)
    simp only [List.length_nil, Nat.zero_add] at l1 l2
    have hi : i' = i := by omega
    have hj : j' = j := by omega
    subst hi; subst hj
    refine ⟨pairedAt_iff.2 ⟨r, l3, l4⟩, ?_, ?_, hs⟩
    · have := alignment_src o xs ys
      rw [e] at this
      rw [← this, ← h1]
      simp [src_append, Step.src]
    · have := alignment_tgt o xs ys
      rw [e] at this
      rw [← this, ← h2]
      simp [tgt_append, Step.tgt]
  · rintro ⟨hp, hx, hy, hs⟩
    exact alignment_sub_of_paired hp hx hy hs

/-! ## E. the criterion without computing the common sequence: two special cases -/

/-- no anchor at all: every position stands in the starting gap, at its own index -/
theorem locate_nil (o : Opts) : ∀ (a : List Json) (i g off : Nat), i < a.length →
    locate o a [] i g off = some (g, off + i)
  | [], _, _, _, h => by simp at h
  | x :: a, 0, g, off, _ => by simp [locate, atC]
  | x :: a, i' + 1, g, off, h => by
    simp only [locate, atC, Bool.false_eq_true, if_false]
    rw [locate_nil o a i' g (off + 1) (by simpa using h)]
    congr 2
    omega

/-- **single gap**: when no element of `xs` has the hash code of an element of `ys` (the common
    sequence is empty), the same index on both sides satisfies the criterion -/
theorem pairedAt_of_apart {o : Opts} {xs ys : List Json}
    (apart : ∀ x ∈ xs, ∀ y ∈ ys, hashCode o x ≠ hashCode o y) {i : Nat}
    (hi : i < xs.length) (hj : i < ys.length) : pairedAt o xs ys i i = true := by
  rw [pairedAt_iff, lcsValues_nil_of_apart o xs ys apart]
  exact ⟨(0, 0 + i), locate_nil o xs i 0 0 hi, locate_nil o ys i 0 0 hj⟩

/-- and different indices do not -/
theorem not_pairedAt_of_apart {o : Opts} {xs ys : List Json}
    (apart : ∀ x ∈ xs, ∀ y ∈ ys, hashCode o x ≠ hashCode o y) {i j : Nat}
    (hi : i < xs.length) (hj : j < ys.length) (hne : i ≠ j) : pairedAt o xs ys i j = false := by
  cases h : pairedAt o xs ys i j with
  | false => rfl
  | true =>
    exfalso
    rw [pairedAt_iff, lcsValues_nil_of_apart o xs ys apart] at h
    obtain ⟨r, h1, h2⟩ := h
    rw [locate_nil o xs i 0 0 hi] at h1
    rw [locate_nil o ys j 0 0 hj] at h2
    cases h1
    simp only [Option.some.injEq, Prod.mk.injEq, true_and] at h2
    omega

theorem mem_hashList {o : Opts} {h : UInt64} : ∀ {l : List Json}, h ∈ hashList o l →
    ∃ (j : Nat) (y : Json), l[j]? = some y ∧ hashCode o y = h
  | [], hm => by simp [hashList] at hm
  | x :: l, hm => by
    rw [hashList_cons] at hm
    rcases List.mem_cons.1 hm with e | hm
    · exact ⟨0, x, rfl, e.symm⟩
    · obtain ⟨j, y, hy, e⟩ := mem_hashList hm
      exact ⟨j + 1, y, by simpa using hy, e⟩

/-- equal hash codes only at equal indices: no element of `a` has the hash code of an element of
    `b` standing at ANOTHER index -/
def Diagonal (o : Opts) (a b : List Json) : Prop :=
  ∀ (i j : Nat) (x y : Json), a[i]? = some x → b[j]? = some y → hashCode o x = hashCode o y → i = j

theorem Diagonal.tail {o : Opts} {x y : Json} {a b : List Json} (h : Diagonal o (x :: a) (y :: b)) :
    Diagonal o a b := by
  intro i j x' y' hx hy e
  have := h (i + 1) (j + 1) x' y' (by simpa using hx) (by simpa using hy) e
  omega

/-- on diagonal arrays the anchors are exactly the positions with equal hash codes, on both sides:
    a position with different hash codes is located alike in the two arrays -/
theorem locate_diag (o : Opts) : ∀ (a b : List Json) (c : List UInt64) (i g off : Nat) (x y : Json),
    Diagonal o a b → LOpt c (hashList o a) (hashList o b) →
    a[i]? = some x → b[i]? = some y → hashCode o x ≠ hashCode o y →
    ∃ r, locate o a c i g off = some r ∧ locate o b c i g off = some r
  | [], _, _, _, _, _, _, _, _, _, hx, _, _ => by simp at hx
  | _ :: _, [], _, _, _, _, _, _, _, _, _, hy, _ => by simp at hy
  | x0 :: a', y0 :: b', c, i, g, off, x, y, hD, hL, hx, hy, hne => by
    rw [hashList_cons, hashList_cons] at hL
    by_cases e : hashCode o x0 = hashCode o y0
    · have hA : atC o x0 c = true := by
        cases hA : atC o x0 c with
        | true => rfl
        | false =>
          exfalso
          rw [← e] at hL
          exact hL.heads_ne (atC_false hA)
      have hB : atC o y0 c = true := by
        rw [atC_true hA]
        simp [atC, e]
      cases i with
      | zero =>
        simp only [List.getElem?_cons_zero, Option.some.injEq] at hx hy
        subst hx; subst hy
        exact absurd e hne
      | succ i' =>
        simp only [List.getElem?_cons_succ] at hx hy
        have hL' : LOpt c.tail (hashList o a') (hashList o b') := by
          have hc := atC_true hA
          rw [hc, ← e] at hL
          exact hL.both
        simp only [locate, hA, hB, if_true]
        exact locate_diag o a' b' c.tail i' (g + 1) 0 x y hD.tail hL' hx hy hne
    · have hA : atC o x0 c = false := by
        cases hA : atC o x0 c with
        | false => rfl
        | true =>
          exfalso
          have hc := atC_true hA
          have hsub := sublist_of_head_ne hL.2.1 (by
            rw [hc]
            simp only [List.head?_cons, ne_eq, Option.some.injEq]
            exact e)
          have hmem : hashCode o x0 ∈ hashList o b' := hsub.subset (by rw [hc]; simp)
          obtain ⟨j, y', hy', e'⟩ := mem_hashList hmem
          have := hD 0 (j + 1) x0 y' rfl (by simpa using hy') e'.symm
          omega
      have hB : atC o y0 c = false := by
        cases hB : atC o y0 c with
        | false => rfl
        | true =>
          exfalso
          have hc := atC_true hB
          have hsub := sublist_of_head_ne hL.1 (by
            rw [hc]
            simp only [List.head?_cons, ne_eq, Option.some.injEq]
            exact fun e' => e e'.symm)
          have hmem : hashCode o y0 ∈ hashList o a' := hsub.subset (by rw [hc]; simp)
          obtain ⟨j, x', hx', e'⟩ := mem_hashList hmem
          have := hD (j + 1) 0 x' y0 (by simpa using hx') rfl e'
          omega
      cases i with
      | zero => exact ⟨(g, off), by simp [locate, hA], by simp [locate, hB]⟩
      | succ i' =>
        simp only [List.getElem?_cons_succ] at hx hy
        simp only [locate, hA, hB, Bool.false_eq_true, if_false]
        exact locate_diag o a' b' c i' g (off + 1) x y hD.tail
          ((hL.skipA (atC_false hA)).skipB (atC_false hB)) hx hy hne

/-- **position-wise arrays**: when equal hash codes only occur at equal indices, every index whose
    two elements have different hash codes satisfies the criterion with itself -/
theorem pairedAt_of_diagonal {o : Opts} {xs ys : List Json} (hD : Diagonal o xs ys) {i : Nat}
    {x y : Json} (hx : xs[i]? = some x) (hy : ys[i]? = some y)
    (hne : hashCode o x ≠ hashCode o y) : pairedAt o xs ys i i = true := by
  rw [pairedAt_iff]
  exact locate_diag o xs ys _ i 0 0 x y hD (LOpt.lcs _ _) hx hy hne

/-! ## F. the context lines, statically, at every depth, in index form -/

/-- `Real.Located` read with indices: `h` is addressed to index `n` of `Y`; it removes the run of `X`
    standing at some index `m` and adds the run of `Y` standing at `n`; its before-context is the
    boundary marker when `n = 0` and otherwise LITERALLY `Y[n-1]`; its after-context is LITERALLY
    the element of `X` following the removed run, or the boundary marker when the run ends `X` -/
structure LocatedAt (p : Path) (X Y : List Json) (h : Hunk) (n m : Nat) : Prop where
  path_eq : h.path = p ++ [PathElem.idx (n : Int)]
  remove_eq : h.remove = (X.drop m).take h.remove.length
  add_eq : h.add = (Y.drop n).take h.add.length
  remove_fits : m + h.remove.length ≤ X.length
  add_fits : n + h.add.length ≤ Y.length
  ctx : ∃ prev next, h.before = [prev] ∧ h.after = [next] ∧
    (n = 0 → prev = .void) ∧ (∀ k, n = k + 1 → Y[k]? = some prev) ∧
    (match X[m + h.remove.length]? with
     | some z => next = z
     | none => next = .void)

theorem locatedAt_of_located {p : Path} {X Y : List Json} {h : Hunk} (L : Real.Located p X Y h) :
    ∃ n m, LocatedAt p X Y h n m := by
  obtain ⟨i, preA, postA, preB, postB, hp, eX, eY, hl, hb, ha⟩ := L
  refine ⟨i, preA.length, hp, ?_, ?_, ?_, ?_, preB.getLast?.getD .void, postA.headD .void, hb, ha,
    ?_, ?_, ?_⟩
  · rw [eX]; simp
  · rw [eY, ← hl]; simp
  · rw [eX]; simp only [List.length_append]; omega
  · rw [eY]; simp only [List.length_append]; omega
  · intro h0
    rw [h0] at hl
    have : preB = [] := List.eq_nil_of_length_eq_zero hl
    simp [this]
  · intro k hk
    have hne : preB ≠ [] := by
      intro e; rw [e] at hl; simp at hl; omega
    have hk' : k < preB.length := by omega
    rw [eY, List.append_assoc, List.getElem?_append_left hk']
    rw [List.getLast?_eq_getElem?]
    have : preB.length - 1 = k := by omega
    rw [this, List.getElem?_eq_getElem hk']
    simp
  · have e : X[preA.length + h.remove.length]? = postA[0]? := by
      rw [eX, ← List.length_append, List.getElem?_append_right (Nat.le_refl _)]
      simp
    rw [e]
    cases postA <;> simp

/-- **the context clause at every depth, statically** (documents as read from text, `Good`: list
    documents, sorted unique keys, finite numbers, no void member; `NumHashOK`; no Precision; NO
    hash-collision hypothesis). For every hunk `h` of `a.Diff(b)` whose path ends with a list index
    (`h.path = q ++ [i]`): `b` holds an array `ys` at `q`; `a` holds an array `xs` at a path `qa` of
    the same shape; and `h` is `LocatedAt` in the two arrays: exactly one before- and one
    after-context line, LITERALLY the neighbouring elements or the boundary marker. -/
theorem diffM_context_static_all_levels {o : Opts} (ho : dispatchTag o = .list) (hp : precOf o = 0)
    (hm : isMerge o = false) {a b : Json} (hr : a.rawDoc = true) (ha : Good a) (hb : Good b)
    (N : NumHashOK o (subterms a) (subterms b)) :
    ∀ h ∈ diffM o a b, ∀ (q : Path) (i : Int), h.path = q ++ [.idx i] →
      ∃ (qa : Path) (t : Tag) (xs : List Json) (t' : Tag) (ys : List Json) (n m : Nat),
        i = (n : Int) ∧ Real.getAt a qa = some (.arr t xs) ∧ Real.getAt b q = some (.arr t' ys) ∧
        sameShape qa q ∧ LocatedAt q xs ys h n m := by
  intro h hmem q i hpath
  obtain ⟨qa, t, xs, t', ys, _, ga, gb, hsh, L, _⟩ :=
    hunkReal_list (diffM_hunk_real ho hp hm hr ha hb N h hmem) hpath
  obtain ⟨n, m, hL⟩ := locatedAt_of_located L
  refine ⟨qa, t, xs, t', ys, n, m, ?_, ga, gb, hsh, hL⟩
  have := hL.path_eq
  rw [hpath] at this
  have := List.append_inj_right' this rfl
  simpa using this

/-- `Diagonal`, decidably -/
def diagonalB (o : Opts) (a b : List Json) : Bool :=
  a.zipIdx.all fun xi => b.zipIdx.all fun yj => hashCode o xi.1 != hashCode o yj.1 || xi.2 == yj.2

theorem diagonal_of_diagonalB {o : Opts} {a b : List Json} (h : diagonalB o a b = true) :
    Diagonal o a b := by
  intro i j x y hx hy e
  simp only [diagonalB, List.all_eq_true] at h
  have := h (x, i) (List.mem_zipIdx_iff_getElem?.2 hx) (y, j) (List.mem_zipIdx_iff_getElem?.2 hy)
  simpa [e] using this

/-! ## G. non-vacuity and witnesses -/

namespace Example

def oA : Json := .obj [("a", .str "u")]
def oB : Json := .obj [("a", .str "v")]
def oC : Json := .obj [("a", .str "w")]

/-- `["k", {"a":"u"}, "s", ["p"]]` against `["k", {"a":"v"}, "t", ["p","q"]]`: one kept pair, two pairs
    recursed into, one scalar replaced -/
def xsM : List Json := [.str "k", oA, .str "s", .arr .raw [.str "p"]]
def ysM : List Json := [.str "k", oB, .str "t", .arr .raw [.str "p", .str "q"]]

theorem diagM : Diagonal [] xsM ysM := diagonal_of_diagonalB (by decide +kernel)

theorem listDocM : listDocList xsM = true ∧ listDocList ysM = true := by decide +kernel

/-- position 1 (two objects) satisfies the criterion -/
theorem paired1 : pairedAt [] xsM ysM 1 1 = true :=
  pairedAt_of_diagonal diagM (x := oA) (y := oB) rfl rfl (by decide +kernel)

/-- position 3 (two arrays) satisfies the criterion -/
theorem paired3 : pairedAt [] xsM ysM 3 3 = true :=
  pairedAt_of_diagonal diagM (x := .arr .raw [.str "p"]) (y := .arr .raw [.str "p", .str "q"]) rfl rfl
    (by decide +kernel)

/-- **WITNESS, same gap, different offsets: replaced, not recursed.** `[{"a":"u"}]` against
    `["s", {"a":"v"}]`: the two objects stand in the same (only) gap at offsets 0 and 1; the code
    pairs `{"a":"u"}` with `"s"` and the diff is ONE array-level hunk replacing the object -/
theorem different_offsets_not_paired : pairedAt [] [oA] [.str "s", oB] 0 1 = false :=
  not_pairedAt_of_apart (by decide +kernel) (by simp) (by simp) (by omega)

theorem different_offsets_replaced :
    diffM [] (.arr .raw [oA]) (.arr .raw [.str "s", oB]) =
      [{ path := [.idx 0], before := [.void], remove := [oA], add := [.str "s", oB],
         after := [.void] }] := by
  have hap : ∀ x ∈ [oA], ∀ y ∈ [Json.str "s", oB], hashCode [] x ≠ hashCode [] y := by
    decide +kernel
  rw [diffM]
  simp only [isMerge]
  rw [diffNode_arr_arr rfl _ _ rfl rfl (.inl rfl) [], lcsValues_nil_of_apart [] _ _ hap]
  rw [diffRest_cons]
  have s1 : sameContainerType [] oA (.str "s") = false := by decide +kernel
  simp only [atC_nil, s1, Bool.and_self, Bool.false_eq_true, if_false, List.nil_append]
  rw [diffRest_nilA]
  simp [accHunk]

/-- the same pair at the same offset IS recursed into -/
theorem same_offset_paired : pairedAt [] [oA] [oB, .str "s"] 0 0 = true :=
  pairedAt_of_apart (by decide +kernel) (by simp) (by simp)

/-- **WITNESS: "same kind position by position" is not enough.** `[A, B]` against `[C, A]` (three
    objects with different hash codes): at both positions the elements are same-kind containers
    (`Rec.sameKinds`), but `A` is the common sequence; `C` is added before it and `B` removed after
    it: nothing is recursed into. The arrays are not `Diagonal` (`A` occurs at index 0 and 1). -/
theorem lcs_shifted : lcsValues (hashList [] [oA, oB]) (hashList [] [oC, oA]) = [hashCode [] oA] := by
  have h1 : hashCode [] oA ≠ hashCode [] oB := by decide +kernel
  have h2 : hashCode [] oA ≠ hashCode [] oC := by decide +kernel
  have h3 : hashCode [] oB ≠ hashCode [] oC := by decide +kernel
  show lcsValues [hashCode [] oA, hashCode [] oB] [hashCode [] oC, hashCode [] oA] = _
  generalize hashCode [] oA = a at *
  generalize hashCode [] oB = b at *
  generalize hashCode [] oC = c at *
  simp [lcsValues, lcsRows, lcsRow, lcsRowGo, lcsBack, h2, h3]

theorem shifted_alignment : sameKinds [] [oA, oB] [oC, oA] = true ∧
    alignment [] [oA, oB] [oC, oA] = [.edit [] [oC], .keep oA oA, .edit [oB] []] := by
  refine ⟨by decide +kernel, ?_⟩
  have a1 : atC [] oA [hashCode [] oA] = true := by simp [atC]
  have a2 : atC [] oC [hashCode [] oA] = false := by decide +kernel
  rw [alignment, lcs_shifted, walk_cons]
  simp only [a1, a2, Bool.and_false, Bool.false_eq_true, if_false, if_true, List.nil_append]
  rw [walk_cons]
  simp only [a1, Bool.and_self, if_true, List.tail_cons]
  rw [walk_nilB _ _ _ _ _ (by simp)]
  simp [editIf]

theorem shifted_nothing_recursed : subs (alignment [] [oA, oB] [oC, oA]) = 0 := by
  rw [shifted_alignment.2]; rfl

theorem goodXM : GoodL xsM := ⟨by decide +kernel, by decide +kernel, by decide +kernel, by decide +kernel⟩
theorem goodYM : GoodL ysM := ⟨by decide +kernel, by decide +kernel, by decide +kernel, by decide +kernel⟩
theorem numM : NumHashOK [] (subtermsList xsM) (subtermsList ysM) := by
  intro u v hu
  simp [xsM, oA, subtermsList, subterms, subtermsKvs] at hu
theorem nomixM : ∀ x ∈ xsM, ∀ y ∈ ysM, mixedPair x y = false := by decide +kernel
theorem rawM : (Json.arr .raw xsM).rawDoc = true := by decide +kernel
theorem goodAM : Good (.arr .raw xsM) :=
  ⟨by decide +kernel, by decide +kernel, by decide +kernel, by decide +kernel⟩
theorem goodBM : Good (.arr .raw ysM) :=
  ⟨by decide +kernel, by decide +kernel, by decide +kernel, by decide +kernel⟩
theorem numM' : NumHashOK [] (subterms (.arr .raw xsM)) (subterms (.arr .raw ysM)) := by
  intro u v hu
  simp [xsM, oA, subtermsList, subterms, subtermsKvs] at hu

end Example

end Jd.Align
