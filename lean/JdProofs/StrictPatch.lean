/-
  JdProofs.StrictPatch — property C03: strict patches apply only where they match; otherwise an
  error, never a silently different document.

  On list-mode documents the library's patch of a strict hunk whose path consists of object keys
  and list indices IS the reference interpreter `applyStrict` (JdSpec.HunkSem), up to the Go dynamic
  type tags of array nodes (`untag`).
-/
import JdModel
import JdSpec
import JdProofs.EqualsList
import JdProofs.NoPanic

namespace Jd
open Jd.Spec

/-! ### 1. `untag` -/

theorem untagList_eq_map : ∀ xs : List Json, untagList xs = xs.map untag
  | [] => by simp [untagList]
  | x :: r => by simp [untagList, untagList_eq_map r]

mutual
theorem untag_idem : ∀ a : Json, untag (untag a) = untag a
  | .void => by simp [untag]
  | .null => by simp [untag]
  | .bool _ => by simp [untag]
  | .num _ => by simp [untag]
  | .str _ => by simp [untag]
  | .arr t xs => by simp [untag, untagList_idem xs]
  | .obj kvs => by simp [untag, untagKvs_idem kvs]
theorem untagList_idem : ∀ xs : List Json, untagList (untagList xs) = untagList xs
  | [] => by simp [untagList]
  | x :: r => by simp [untagList, untag_idem x, untagList_idem r]
theorem untagKvs_idem : ∀ kvs : List (String × Json), untagKvs (untagKvs kvs) = untagKvs kvs
  | [] => by simp [untagKvs]
  | (k, v) :: r => by simp [untagKvs, untag_idem v, untagKvs_idem r]
end

theorem untag_comp_untag : untag ∘ untag = untag := funext untag_idem

theorem untag_isVoid (a : Json) : (untag a).isVoid = a.isVoid := by
  cases a <;> simp [untag, Json.isVoid]

theorem alookup_untagKvs (k : String) :
    ∀ kvs : List (String × Json), alookup k (untagKvs kvs) = (alookup k kvs).map untag
  | [] => by simp [untagKvs, alookup]
  | (k', v) :: r => by
    simp only [untagKvs, alookup]
    split
    · rfl
    · exact alookup_untagKvs k r

theorem untagKvs_length : ∀ kvs : List (String × Json), (untagKvs kvs).length = kvs.length
  | [] => by simp [untagKvs]
  | (k, v) :: r => by simp [untagKvs, untagKvs_length r]

theorem untagKvs_aerase (k : String) :
    ∀ kvs : List (String × Json), untagKvs (aerase k kvs) = aerase k (untagKvs kvs)
  | [] => by simp [untagKvs, aerase]
  | (k', v) :: r => by
    simp only [untagKvs, aerase]
    split
    · rfl
    · simp [untagKvs, untagKvs_aerase k r]

theorem untagKvs_ainsert (k : String) (v : Json) :
    ∀ kvs : List (String × Json), untagKvs (ainsert k v kvs) = ainsert k (untag v) (untagKvs kvs)
  | [] => by simp [untagKvs, ainsert]
  | (k', v') :: r => by
    simp only [untagKvs, ainsert]
    split
    · simp [untagKvs]
    · split
      · simp [untagKvs]
      · simp [untagKvs, untagKvs_ainsert k v r]

/-! the reference equality ignores the tags -/

mutual
theorem equivB_untag_left (o : Opts) (h : dispatchTag o = .list) :
    ∀ a b : Json, equivB o (untag a) b = equivB o a b
  | .void, b => by simp [untag]
  | .null, b => by simp [untag]
  | .bool _, b => by simp [untag]
  | .num _, b => by simp [untag]
  | .str _, b => by simp [untag]
  | .arr t xs, b => by
    cases b <;> simp [untag, equivB, h, equivList_untag_left o h xs]
  | .obj kvs, b => by
    cases b <;> simp [untag, equivB, untagKvs_length, equivKvs_untag_left o h kvs]
theorem equivList_untag_left (o : Opts) (h : dispatchTag o = .list) :
    ∀ xs ys : List Json, equivList o (untagList xs) ys = equivList o xs ys
  | [], ys => by simp [untagList]
  | x :: r, [] => by simp [untagList, equivList]
  | x :: r, y :: ys => by
    simp [untagList, equivList, equivB_untag_left o h x y, equivList_untag_left o h r ys]
theorem equivKvs_untag_left (o : Opts) (h : dispatchTag o = .list) :
    ∀ kvs kvs' : List (String × Json), equivKvs o (untagKvs kvs) kvs' = equivKvs o kvs kvs'
  | [], kvs' => by simp [untagKvs]
  | (k, v) :: r, kvs' => by
    rw [untagKvs, equivKvs, equivKvs, equivKvs_untag_left o h r kvs']
    cases alookup k kvs' with
    | none => rfl
    | some v' => simp [equivB_untag_left o h v v']
end

mutual
theorem equivB_untag_right (o : Opts) (h : dispatchTag o = .list) :
    ∀ a b : Json, equivB o a (untag b) = equivB o a b
  | .void, b => by cases b <;> simp [untag, equivB]
  | .null, b => by cases b <;> simp [untag, equivB]
  | .bool _, b => by cases b <;> simp [untag, equivB]
  | .num _, b => by cases b <;> simp [untag, equivB]
  | .str _, b => by cases b <;> simp [untag, equivB]
  | .arr t xs, b => by
    cases b <;> simp [untag, equivB, h, equivList_untag_right o h xs]
  | .obj kvs, b => by
    cases b <;> simp [untag, equivB, untagKvs_length, equivKvs_untag_right o h kvs]
theorem equivList_untag_right (o : Opts) (h : dispatchTag o = .list) :
    ∀ xs ys : List Json, equivList o xs (untagList ys) = equivList o xs ys
  | [], ys => by cases ys <;> simp [untagList, equivList]
  | x :: r, [] => by simp [untagList]
  | x :: r, y :: ys => by
    simp [untagList, equivList, equivB_untag_right o h x y, equivList_untag_right o h r ys]
theorem equivKvs_untag_right (o : Opts) (h : dispatchTag o = .list) :
    ∀ kvs kvs' : List (String × Json), equivKvs o kvs (untagKvs kvs') = equivKvs o kvs kvs'
  | [], kvs' => by simp [equivKvs]
  | (k, v) :: r, kvs' => by
    rw [equivKvs, equivKvs, equivKvs_untag_right o h r kvs', alookup_untagKvs]
    cases alookup k kvs' with
    | none => rfl
    | some v' => simp [equivB_untag_right o h v v']
end

theorem specEq_untag_left (a b : Json) : specEq (untag a) b = specEq a b :=
  equivB_untag_left [] rfl a b

theorem specEq_untag_right (a b : Json) : specEq a (untag b) = specEq a b :=
  equivB_untag_right [] rfl a b

/-! ### 2. list-mode documents -/

theorem listDocList_iff : ∀ {l : List Json}, listDocList l = true ↔ ∀ x ∈ l, x.listDoc = true
  | [] => by simp [listDocList]
  | x :: r => by simp [listDocList, listDocList_iff (l := r)]

theorem listDocList_append {l l' : List Json} :
    listDocList (l ++ l') = true ↔ listDocList l = true ∧ listDocList l' = true := by
  simp only [listDocList_iff, List.mem_append]
  exact ⟨fun h => ⟨fun x hx => h x (Or.inl hx), fun x hx => h x (Or.inr hx)⟩,
    fun h x hx => hx.elim (h.1 x) (h.2 x)⟩

theorem listDocList_take {l : List Json} (k : Nat) (h : listDocList l = true) :
    listDocList (l.take k) = true :=
  listDocList_iff.2 fun x hx => listDocList_iff.1 h x (List.mem_of_mem_take hx)

theorem listDocList_drop {l : List Json} (k : Nat) (h : listDocList l = true) :
    listDocList (l.drop k) = true :=
  listDocList_iff.2 fun x hx => listDocList_iff.1 h x (List.mem_of_mem_drop hx)

theorem listDocList_getElem? {l : List Json} {k : Nat} {x : Json} (h : listDocList l = true)
    (hx : l[k]? = some x) : x.listDoc = true :=
  listDocList_iff.1 h x (List.mem_of_getElem? hx)

theorem listDocList_set {l : List Json} {k : Nat} {v : Json} (h : listDocList l = true)
    (hv : v.listDoc = true) : listDocList (l.set k v) = true :=
  listDocList_iff.2 fun x hx => by
    rcases List.mem_or_eq_of_mem_set hx with hm | he
    · exact listDocList_iff.1 h x hm
    · exact he ▸ hv

theorem listDocKvs_aerase (k : String) :
    ∀ {kvs : List (String × Json)}, listDocKvs kvs = true → listDocKvs (aerase k kvs) = true
  | [], _ => by simp [aerase, listDocKvs]
  | (k', v) :: r, h => by
    simp only [listDocKvs, Bool.and_eq_true] at h
    simp only [aerase]
    split
    · exact h.2
    · simp [listDocKvs, h.1, listDocKvs_aerase k h.2]

theorem listDocKvs_ainsert (k : String) {v : Json} (hv : v.listDoc = true) :
    ∀ {kvs : List (String × Json)}, listDocKvs kvs = true → listDocKvs (ainsert k v kvs) = true
  | [], _ => by simp [ainsert, listDocKvs, hv]
  | (k', v') :: r, h => by
    simp only [listDocKvs, Bool.and_eq_true] at h
    simp only [ainsert]
    split
    · simp [listDocKvs, hv, h.1, h.2]
    · split
      · simp [listDocKvs, hv, h.2]
      · simp [listDocKvs, h.1, listDocKvs_ainsert k hv h.2]

theorem singleValue_listDoc {l : List Json} (h : listDocList l = true) :
    (Json.singleValue l).listDoc = true := by
  cases l with
  | nil => simp [Json.singleValue, Json.listDoc]
  | cons x r => simp only [listDocList, Bool.and_eq_true] at h; exact h.1

/-- on list-mode documents the library's `Equals` with no options is the reference equality -/
theorem equals_nil_eq_specEq {a b : Json} (ha : a.listDoc = true) (hb : b.listDoc = true) :
    equals [] a b = specEq a b :=
  equals_eq_equivB_list [] rfl a b ha hb


/-! ### 3. the list leaf: `patchListLeaf` is `splice` -/

theorem idxP_eq {l : List Json} {i : Int} {x : Json} (h0 : 0 ≤ i) (hx : l[i.toNat]? = some x) :
    idxP l i = .ok x := by
  simp [idxP, show ¬ i < 0 by omega, hx]

theorem checkBefore_eq (l : List Json) (i : Int) (n : Nat) :
    ∀ (j : Nat) (bs : List Json), i ≤ (l.length : Int) → j + bs.length = n →
      listDocList l = true → listDocList bs = true →
      checkBefore l i n j bs = cond (beforeOk l i n j bs) (.ok ()) .err
  | _, [], _, _, _, _ => by simp [checkBefore, beforeOk]
  | j, b :: r, hi, hj, hl, hb => by
    simp only [listDocList, Bool.and_eq_true] at hb
    have ih := checkBefore_eq l i n (j + 1) r hi (by simp at hj; omega) hl hb.2
    simp only [checkBefore, beforeOk]
    split
    · rw [ih]
      cases hc : (i - ((n : Int) - (j : Int)) == -1 && b.isVoid) <;> simp
    · rename_i hneg
      have hlt : (i - ((n : Int) - (j : Int))).toNat < l.length := by simp at hj; omega
      have hx := List.getElem?_eq_getElem hlt
      rw [idxP_eq (by omega) hx, Outcome.bind_ok, hx]
      simp only
      rw [equals_nil_eq_specEq hb.1 (listDocList_getElem? hl hx), ih]
      cases specEq b l[(i - ((n : Int) - (j : Int))).toNat] <;> simp

theorem removeLoop_eq (pre : List Json) :
    ∀ (rs rest : List Json), listDocList rest = true → listDocList rs = true →
      removeLoop (pre ++ rest) (pre.length : Int) rs =
        cond (prefixEq rs rest) (.ok (pre ++ rest.drop rs.length)) .err
  | [], rest, _, _ => by simp [removeLoop, prefixEq]
  | r :: rs, [], _, _ => by
    simp only [removeLoop, prefixEq]
    rw [if_pos (by simp; omega)]; simp
  | r :: rs, x :: xs, hl, hr => by
    simp only [listDocList, Bool.and_eq_true] at hl hr
    have ih := removeLoop_eq pre rs xs hl.2 hr.2
    simp only [removeLoop, prefixEq]
    rw [if_neg (by simp; omega)]
    rw [idxP_eq (x := x) (by omega) (by simp), Outcome.bind_ok, equals_nil_eq_specEq hl.1 hr.1]
    cases specEq x r
    · simp
    · have hrm : removeAtP (pre ++ x :: xs) (pre.length : Int) = .ok (pre ++ xs) := by
        simp [removeAtP, List.eraseIdx_append_of_length_le]
      simp [hrm, ih]

theorem checkAfter_eq (pre post : List Json) :
    ∀ (j : Nat) (as : List Json), listDocList post = true → listDocList as = true →
      checkAfter (pre ++ post) (pre.length : Int) j as = cond (afterOk post j as) (.ok ()) .err
  | _, [], _, _ => by simp [checkAfter, afterOk]
  | j, a :: r, hl, ha => by
    simp only [listDocList, Bool.and_eq_true] at ha
    have ih := checkAfter_eq pre post (j + 1) r hl ha.2
    simp only [checkAfter, afterOk]
    by_cases hlt : j < post.length
    case neg =>
      have hge : post.length ≤ j := by omega
      rw [if_pos (by simp; omega), ih, List.getElem?_eq_none hge]
      simp only
      have : (((pre.length : Int) + (j : Int)) == (((pre ++ post).length : Nat) : Int))
          = (j == post.length) := by
        rw [Bool.eq_iff_iff]
        simp only [beq_iff_eq, List.length_append]
        omega
      rw [this]
      cases hc : (j == post.length && a.isVoid) <;> simp
    case pos =>
      have hx := List.getElem?_eq_getElem hlt
      generalize post[j] = x at hx
      rw [if_neg (by simp; omega), hx]
      simp only
      have hx' : (pre ++ post)[((pre.length : Int) + (j : Int)).toNat]? = some x := by
        have : ((pre.length : Int) + (j : Int)).toNat = pre.length + j := by omega
        rw [this, List.getElem?_append_right (by omega)]
        simpa using hx
      rw [idxP_eq (by omega) hx', Outcome.bind_ok,
        equals_nil_eq_specEq ha.1 (listDocList_getElem? hl hx), ih]
      cases specEq a x <;> simp


theorem spliceP_eq (pre post add : List Json) :
    spliceP (pre ++ post) (pre.length : Int) add = .ok (pre ++ add ++ post) := by
  simp [spliceP]

/-- the list leaf of `jsonList.patch` is the reference `splice` (the result is a `jsonList`) -/
theorem patchListLeaf_eq_splice (l : List Json) (i : Int) (h : Hunk)
    (hl : listDocList l = true) (hh : hunkListDoc h = true) :
    patchListLeaf l i h.before h.remove h.add h.after
      = optToOutcome ((splice l i h).map (Json.arr .list)) := by
  simp only [hunkListDoc, Bool.and_eq_true] at hh
  obtain ⟨⟨⟨hb, hr⟩, ha⟩, haf⟩ := hh
  unfold patchListLeaf splice
  split
  · cases hrm : h.remove <;> simp [optToOutcome]
  · split
    · simp [optToOutcome]
    · rename_i h1 h2
      have h0 : 0 ≤ i := by simp at h2; omega
      have hi : i ≤ (l.length : Int) := by simp at h2; omega
      obtain ⟨pre, rest, rfl, rfl⟩ : ∃ pre rest, l = pre ++ rest ∧ i = (pre.length : Int) :=
        ⟨l.take i.toNat, l.drop i.toNat, (List.take_append_drop _ _).symm, by simp; omega⟩
      have hrest : listDocList rest = true := (listDocList_append.1 hl).2
      rw [checkBefore_eq _ _ _ 0 h.before hi (by simp) hl hb, removeLoop_eq pre h.remove rest hrest hr]
      simp only [Int.toNat_natCast, List.take_left', List.drop_left']
      cases prefixEq h.remove rest
      · cases beforeOk (pre ++ rest) (↑pre.length) h.before.length 0 h.before <;> simp [optToOutcome]
      · cases beforeOk (pre ++ rest) (↑pre.length) h.before.length 0 h.before
        · simp [optToOutcome]
        · simp only [cond_true, Outcome.bind_ok, spliceP_eq,
            checkAfter_eq pre _ 0 h.after (listDocList_drop _ hrest) haf]
          cases afterOk (List.drop h.remove.length rest) 0 h.after <;> simp [optToOutcome, pure]


/-! ### 4. one step of `patchNode` on a strict path (strict strategy) -/

theorem patchObjChild_eq (sw merge : Bool) (k : String) (rest : Path)
    (before remove add after : List Json) :
    ∀ (kvs : List (String × Json)) (v : Json), alookup k kvs = some v →
      patchObjChild sw merge kvs k rest before remove add after
        = patchNode sw merge v rest before remove add after
  | [], _, h => by simp [alookup] at h
  | (k', v') :: r, v, h => by
    rw [patchObjChild.eq_def]
    simp only [alookup] at h
    simp only
    split
    · rename_i hk; rw [if_pos hk] at h; cases h; rfl
    · rename_i hk; rw [if_neg hk] at h
      exact patchObjChild_eq sw merge k rest before remove add after r v h

theorem patchListChild_eq (sw : Bool) (rest : Path) (before remove add after : List Json) :
    ∀ (xs : List Json) (i : Nat) (x : Json), xs[i]? = some x →
      patchListChild sw i rest before remove add after xs
        = patchNode sw false x rest before remove add after
  | [], _, _, h => by simp at h
  | y :: r, 0, x, h => by
    rw [patchListChild.eq_def]; simp at h; subst h; rfl
  | y :: r, i + 1, x, h => by
    rw [patchListChild.eq_def]
    simp only [List.getElem?_cons_succ] at h
    exact patchListChild_eq sw rest before remove add after r i x h

theorem patchNode_void (sw : Bool) (pa : Path) (before remove add after : List Json) :
    patchNode sw false .void pa before remove add after
      = patchFresh false .void pa before remove add after := by
  rw [patchNode.eq_def]

/-- root of the path: replace the value -/
theorem patchNode_nil (sw : Bool) (n : Json) (before remove add after : List Json)
    (hn : n.listDoc = true) :
    patchNode sw false n [] before remove add after
      = if remove.length > 1 || add.length > 1 then .err
        else if equals [] n (Json.singleValue remove) then .ok (Json.singleValue add) else .err := by
  rw [patchNode.eq_def]
  cases n with
  | arr t xs =>
    simp only [Json.listDoc, Bool.and_eq_true] at hn
    have ht : effTag (pathMeta []) t = .list := effTag_list rfl hn.1
    have he : ∀ r, equals [] (.arr t xs) r = equals [] (.arr .list xs) r := by
      intro r
      rcases (by simpa using hn.1 : t = .raw ∨ t = .list) with rfl | rfl <;> simp [equals, effTag, dispatchTag]
    simp only [ht, he]
    have hv : equals [] (.arr .list xs) .void = false := by simp [equals, effTag, Json.dispatch]
    cases remove <;> cases add <;> simp only [Json.singleValue, hv] <;> first | rfl | simp
  | obj kvs => simp
  | _ => simp [patchFresh, Path.isLeaf]

/-- an object key: patch the member (absent = void), then store or delete -/
theorem patchNode_key (sw : Bool) (n : Json) (k : String) (rest : Path)
    (before remove add after : List Json) (hn : n.listDoc = true) :
    patchNode sw false n (.key k :: rest) before remove add after
      = match n with
        | .obj kvs => do
          let v ← patchNode sw false ((alookup k kvs).getD .void) rest before remove add after
          if v.isVoid then pure (.obj (aerase k kvs)) else pure (.obj (ainsert k v kvs))
        | _ => .err := by
  rw [patchNode.eq_def]
  cases n with
  | arr t xs =>
    simp only [Json.listDoc, Bool.and_eq_true] at hn
    have ht : effTag (pathMeta (.key k :: rest)) t = .list := effTag_list rfl hn.1
    simp [ht]
  | obj kvs =>
    simp only
    cases hl : alookup k kvs with
    | some v => simp [patchObjChild_eq _ _ _ _ _ _ _ _ kvs v hl]
    | none => simp [patchNew, patchNode_void]
  | _ => simp [patchFresh, Path.isLeaf]


/-- a final list index: the list leaf -/
theorem patchNode_idx_leaf (sw : Bool) (n : Json) (i : Int)
    (before remove add after : List Json) (hn : n.listDoc = true) :
    patchNode sw false n [.idx i] before remove add after
      = match n with
        | .arr _ xs => patchListLeaf xs i before remove add after
        | _ => .err := by
  rw [patchNode.eq_def]
  cases n with
  | arr t xs =>
    simp only [Json.listDoc, Bool.and_eq_true] at hn
    have ht : effTag (pathMeta [.idx i]) t = .list := effTag_list rfl hn.1
    simp [ht]
  | obj kvs => simp
  | _ => simp [patchFresh, Path.isLeaf]

/-- a list index with more path ahead: patch the element in place -/
theorem patchNode_idx_deep (sw : Bool) (n : Json) (i : Int) (rest : Path)
    (before remove add after : List Json) (hrest : rest ≠ []) (hn : n.listDoc = true) :
    patchNode sw false n (.idx i :: rest) before remove add after
      = match n with
        | .arr _ xs =>
          if i < 0 then .err
          else match xs[i.toNat]? with
            | some x => do
              let v ← patchNode sw false x rest before remove add after
              pure (.arr .list (xs.set i.toNat v))
            | none => .err
        | _ => .err := by
  rw [patchNode.eq_def]
  cases n with
  | arr t xs =>
    simp only [Json.listDoc, Bool.and_eq_true] at hn
    have ht : effTag (pathMeta (.idx i :: rest)) t = .list := effTag_list rfl hn.1
    have hre : rest.isEmpty = false := by cases rest <;> simp_all
    simp only [ht, hre]
    by_cases h0 : i < 0
    · simp [h0]
    · by_cases h1 : i.toNat < xs.length
      · have hx := List.getElem?_eq_getElem h1
        have hs : setAtP xs i = fun v => .ok (xs.set i.toNat v) := by
          funext v; simp [setAtP, h0, h1]
        rw [hx]
        simp only [patchListChild_eq sw rest before remove add after xs i.toNat _ hx, hs]
        simp [h0, show ¬ (i > (xs.length : Int) - 1) by omega]
      · rw [List.getElem?_eq_none (by omega)]
        simp [h0, show (i > (xs.length : Int) - 1) by omega]
  | obj kvs => simp
  | _ =>
    have : Path.isLeaf (.idx i :: rest) = false := by cases rest <;> simp_all [Path.isLeaf]
    simp [patchFresh, this]


/-! ### 5. one strict hunk: the library is the reference interpreter -/

theorem untag_objUpdate (k : String) (kvs : List (String × Json)) {v v' : Json}
    (h : untag v = untag v') :
    untag (if v.isVoid then Json.obj (aerase k kvs) else Json.obj (ainsert k v kvs))
      = untag (if v'.isVoid then Json.obj (aerase k kvs) else Json.obj (ainsert k v' kvs)) := by
  have hv : v.isVoid = v'.isVoid := by rw [← untag_isVoid v, h, untag_isVoid]
  rw [hv]
  cases v'.isVoid
  · simp [untag, untagKvs_ainsert, h]
  · simp

theorem untag_arrSet (t t' : Tag) (xs : List Json) (k : Nat) {v v' : Json}
    (h : untag v = untag v') :
    untag (.arr t (xs.set k v)) = untag (.arr t' (xs.set k v')) := by
  simp [untag, untagList_eq_map, List.map_set, h]

theorem patchNode_strict_eq_ref (sw : Bool) (n : Json) (h : Hunk) (p : Path)
    (hp : strictPath p = true) (hn : n.listDoc = true) (hh : hunkListDoc h = true) :
    Outcome.mapO untag (patchNode sw false n p h.before h.remove h.add h.after)
      = Outcome.mapO untag (optToOutcome (applyStrict n p h)) := by
  have hh' := hh
  simp only [hunkListDoc, Bool.and_eq_true] at hh'
  obtain ⟨⟨⟨hb, hr⟩, ha⟩, haf⟩ := hh'
  induction p generalizing n with
  | nil =>
    rw [patchNode_nil _ _ _ _ _ _ hn, applyStrict, equals_nil_eq_specEq hn (singleValue_listDoc hr)]
    simp only [single]
    split
    · rfl
    · split <;> simp [*, optToOutcome]
  | cons e rest ih =>
    cases e with
    | key k =>
      simp only [strictPath] at hp
      rw [patchNode_key _ _ _ _ _ _ _ _ hn]
      cases n with
      | obj kvs =>
        have hv : ((alookup k kvs).getD .void).listDoc = true := by
          cases hl : alookup k kvs with
          | none => simp [Json.listDoc]
          | some v => simpa using alookup_listDoc hl (by simpa [Json.listDoc] using hn)
        have := ih _ hp hv
        simp only [applyStrict]
        revert this
        generalize patchNode sw false ((alookup k kvs).getD .void) rest _ _ _ _ = P
        generalize applyStrict ((alookup k kvs).getD .void) rest h = S
        intro this
        cases P <;> cases S <;> simp [Outcome.mapO, optToOutcome] at this ⊢
        rename_i v v'
        rw [← untag_objUpdate k kvs this]
        cases v.isVoid <;> simp [pure]
      | _ => simp [applyStrict, optToOutcome, Outcome.mapO]
    | idx i =>
      simp only [strictPath] at hp
      cases rest with
      | nil =>
        rw [patchNode_idx_leaf _ _ _ _ _ _ _ hn]
        cases n with
        | arr t xs =>
          simp only [Json.listDoc, Bool.and_eq_true] at hn
          simp only [applyStrict, patchListLeaf_eq_splice xs i h hn.2 hh]
          cases splice xs i h <;> simp [optToOutcome, Outcome.mapO, untag]
        | _ => simp [applyStrict, optToOutcome, Outcome.mapO]
      | cons e' rest' =>
        rw [patchNode_idx_deep _ _ _ _ _ _ _ _ (by simp) hn]
        cases n with
        | arr t xs =>
          simp only [Json.listDoc, Bool.and_eq_true] at hn
          simp only [applyStrict]
          split
          · simp [optToOutcome, Outcome.mapO]
          · cases hx : xs[i.toNat]? with
            | none => simp [optToOutcome, Outcome.mapO]
            | some x =>
              have := ih x hp (listDocList_getElem? hn.2 hx)
              simp only
              revert this
              generalize patchNode sw false x (e' :: rest') _ _ _ _ = P
              generalize applyStrict x (e' :: rest') h = S
              intro this
              cases P <;> cases S <;> simp [Outcome.mapO, optToOutcome] at this ⊢
              rename_i v v'
              simpa [pure] using untag_arrSet .list .raw xs i.toNat this
        | _ => simp [applyStrict, optToOutcome, Outcome.mapO]
    | _ => simp [strictPath] at hp


/-! ### 6. list-mode documents stay list-mode documents -/

theorem splice_listDoc {l l' : List Json} {i : Int} {h : Hunk} (he : splice l i h = some l')
    (hl : listDocList l = true) (ha : listDocList h.add = true) : listDocList l' = true := by
  unfold splice at he
  split at he
  · split at he
    · cases he; exact listDocList_append.2 ⟨hl, ha⟩
    · cases he
  · split at he
    · cases he
    · simp only at he
      split at he
      · cases he
        exact listDocList_append.2 ⟨listDocList_append.2 ⟨listDocList_take _ hl, ha⟩,
          listDocList_drop _ (listDocList_drop _ hl)⟩
      · cases he

theorem patchNode_strict_listDoc (sw : Bool) (n : Json) (h : Hunk) (p : Path)
    (hp : strictPath p = true) (hn : n.listDoc = true) (hh : hunkListDoc h = true) (n1 : Json)
    (he : patchNode sw false n p h.before h.remove h.add h.after = .ok n1) : n1.listDoc = true := by
  have hh' := hh
  simp only [hunkListDoc, Bool.and_eq_true] at hh'
  obtain ⟨⟨⟨hb, hr⟩, ha⟩, haf⟩ := hh'
  induction p generalizing n n1 with
  | nil =>
    rw [patchNode_nil _ _ _ _ _ _ hn] at he
    split at he
    · cases he
    · split at he
      · cases he; exact singleValue_listDoc ha
      · cases he
  | cons e rest ih =>
    cases e with
    | key k =>
      simp only [strictPath] at hp
      rw [patchNode_key _ _ _ _ _ _ _ _ hn] at he
      cases n with
      | obj kvs =>
        have hkvs : listDocKvs kvs = true := by simpa [Json.listDoc] using hn
        have hv : ((alookup k kvs).getD .void).listDoc = true := by
          cases hl : alookup k kvs with
          | none => simp [Json.listDoc]
          | some v => simpa using alookup_listDoc hl hkvs
        have := ih _ hp hv
        simp only at he
        revert this he
        generalize patchNode sw false ((alookup k kvs).getD .void) rest _ _ _ _ = P
        intro he this
        cases P with
        | ok v =>
          have hv' := this v rfl
          simp only [Outcome.bind_ok] at he
          split at he <;> cases he
          · simpa [Json.listDoc] using listDocKvs_aerase k hkvs
          · simpa [Json.listDoc] using listDocKvs_ainsert k hv' hkvs
        | err => cases he
        | panic => cases he
      | _ => cases he
    | idx i =>
      simp only [strictPath] at hp
      cases rest with
      | nil =>
        rw [patchNode_idx_leaf _ _ _ _ _ _ _ hn] at he
        cases n with
        | arr t xs =>
          simp only [Json.listDoc, Bool.and_eq_true] at hn
          simp only [patchListLeaf_eq_splice xs i h hn.2 hh] at he
          cases hs : splice xs i h with
          | none => simp [hs, optToOutcome] at he
          | some l' =>
            simp only [hs, optToOutcome, Option.map_some, Outcome.ok.injEq] at he
            subst he
            simpa [Json.listDoc] using splice_listDoc hs hn.2 ha
        | _ => cases he
      | cons e' rest' =>
        rw [patchNode_idx_deep _ _ _ _ _ _ _ _ (by simp) hn] at he
        cases n with
        | arr t xs =>
          simp only [Json.listDoc, Bool.and_eq_true] at hn
          simp only at he
          split at he
          · cases he
          · cases hx : xs[i.toNat]? with
            | none => simp [hx] at he
            | some x =>
              have := ih x hp (listDocList_getElem? hn.2 hx)
              simp only [hx] at he
              revert this he
              generalize patchNode sw false x (e' :: rest') _ _ _ _ = P
              intro this he
              cases P with
              | ok v =>
                have hv' := this v rfl
                simp only [Outcome.bind_ok] at he
                cases he
                simpa [Json.listDoc] using listDocList_set hn.2 hv'
              | err => cases he
              | panic => cases he
        | _ => cases he
    | _ => simp [strictPath] at hp


/-! ### 7. the reference interpreter does not look at the tags of the document -/

theorem prefixEq_untag : ∀ rs l : List Json, prefixEq rs (l.map untag) = prefixEq rs l
  | [], _ => by simp [prefixEq]
  | _ :: _, [] => by simp [prefixEq]
  | r :: rs, x :: xs => by
    simp [prefixEq, specEq_untag_left, prefixEq_untag rs xs]

theorem beforeOk_untag (l : List Json) (i : Int) (n : Nat) :
    ∀ (j : Nat) (bs : List Json), beforeOk (l.map untag) i n j bs = beforeOk l i n j bs
  | _, [] => by simp [beforeOk]
  | j, b :: r => by
    simp only [beforeOk, beforeOk_untag l i n (j + 1) r, List.getElem?_map]
    cases l[(i - ((n : Int) - (j : Int))).toNat]? <;> simp [specEq_untag_right]

theorem afterOk_untag (post : List Json) :
    ∀ (j : Nat) (as : List Json), afterOk (post.map untag) j as = afterOk post j as
  | _, [] => by simp [afterOk]
  | j, a :: r => by
    simp only [afterOk, afterOk_untag post (j + 1) r, List.getElem?_map, List.length_map]
    cases post[j]? <;> simp [specEq_untag_right]

theorem splice_untag (l : List Json) (i : Int) (h : Hunk) :
    (splice (l.map untag) i h).map (List.map untag) = (splice l i h).map (List.map untag) := by
  unfold splice
  simp only [List.length_map, ← List.map_take, ← List.map_drop, prefixEq_untag, beforeOk_untag,
    afterOk_untag]
  split
  · split <;> simp [untag_comp_untag]
  · split
    · rfl
    · split <;> simp [untag_comp_untag]

theorem applyStrict_untag (n : Json) (p : Path) (h : Hunk) :
    (applyStrict (untag n) p h).map untag = (applyStrict n p h).map untag := by
  induction p generalizing n with
  | nil => simp [applyStrict, specEq_untag_left]
  | cons e rest ih =>
    cases e with
    | key k =>
      cases n with
      | obj kvs =>
        have hg : (alookup k (untagKvs kvs)).getD .void = untag ((alookup k kvs).getD .void) := by
          rw [alookup_untagKvs]; cases alookup k kvs <;> simp [untag]
        have := ih ((alookup k kvs).getD .void)
        simp only [untag, applyStrict, hg]
        revert this
        generalize applyStrict (untag ((alookup k kvs).getD .void)) rest h = S
        generalize applyStrict ((alookup k kvs).getD .void) rest h = S'
        intro this
        cases S <;> cases S' <;> simp at this ⊢
        rename_i v v'
        rw [untag_objUpdate k (untagKvs kvs) this]
        cases v'.isVoid <;>
          simp [untag, untagKvs_aerase, untagKvs_ainsert, untagKvs_idem]
      | _ => simp [untag, applyStrict]
    | idx i =>
      cases rest with
      | nil =>
        cases n with
        | arr t xs =>
          have := splice_untag xs i h
          simp only [untag, applyStrict, untagList_eq_map, Option.map_map]
          revert this
          generalize splice (xs.map untag) i h = S
          generalize splice xs i h = S'
          intro this
          cases S <;> cases S' <;> simp at this ⊢
          simpa [untag, untagList_eq_map] using this
        | _ => simp [untag, applyStrict]
      | cons e' rest' =>
        cases n with
        | arr t xs =>
          simp only [untag, applyStrict, untagList_eq_map, List.getElem?_map]
          split
          · rfl
          · cases hx : xs[i.toNat]? with
            | none => simp
            | some x =>
              have := ih x
              simp only [Option.map_some]
              revert this
              generalize applyStrict (untag x) (e' :: rest') h = S
              generalize applyStrict x (e' :: rest') h = S'
              intro this
              cases S <;> cases S' <;> simp at this ⊢
              rename_i v v'
              simp [untag, untagList_eq_map, List.map_set, this, untag_comp_untag]
        | _ => simp [untag, applyStrict]
    | _ => simp [applyStrict]


theorem applyStrict_untag_congr {n n' : Json} (e : untag n = untag n') (p : Path) (h : Hunk) :
    (applyStrict n p h).map untag = (applyStrict n' p h).map untag := by
  rw [← applyStrict_untag n, ← applyStrict_untag n', e]

/-! ### 8. sequences of strict hunks -/

/-- the library run on `n` and the reference run on any document equal to `n` up to tags agree up to
    tags (after the first hunk the two sides continue from documents that agree only up to tags) -/
theorem patchAll_strict_eq_ref_gen (sw : Bool) (d : Diff) :
    ∀ (n n' : Json), untag n = untag n' → n.listDoc = true →
      d.all (fun h => !h.merge && strictPath h.path && hunkListDoc h) = true →
      Outcome.mapO untag (patchAll sw n d) = Outcome.mapO untag (optToOutcome (applyStrictAll n' d)) := by
  induction d with
  | nil =>
    intro n n' e _ _
    simp [patchAll, applyStrictAll, optToOutcome, Outcome.mapO, e]
  | cons h d ih =>
    intro n n' e hn hd
    simp only [List.all_cons, Bool.and_eq_true, Bool.not_eq_true'] at hd
    obtain ⟨⟨⟨hm, hp⟩, hh⟩, hd⟩ := hd
    have h1 := patchNode_strict_eq_ref sw n h h.path hp hn hh
    have h2 := applyStrict_untag_congr e h.path h
    have h3 := patchNode_strict_listDoc sw n h h.path hp hn hh
    simp only [patchAll, applyStrictAll, hm]
    cases hP : patchNode sw false n h.path h.before h.remove h.add h.after with
    | ok n1 =>
      rw [hP] at h1 h3
      cases hS : applyStrict n h.path h with
      | none => simp [hS, optToOutcome, Outcome.mapO] at h1
      | some m =>
        cases hS' : applyStrict n' h.path h with
        | none => simp [hS, hS'] at h2
        | some m' =>
          simp only [hS, optToOutcome, Outcome.mapO, Outcome.ok.injEq] at h1
          simp only [hS, hS', Option.map_some, Option.some.injEq] at h2
          simpa using ih n1 m' (h1.trans h2) (h3 n1 rfl) hd
    | err =>
      rw [hP] at h1
      cases hS : applyStrict n h.path h with
      | some m => simp [hS, optToOutcome, Outcome.mapO] at h1
      | none =>
        cases hS' : applyStrict n' h.path h with
        | some m' => simp [hS, hS'] at h2
        | none => simp [optToOutcome, Outcome.mapO]
    | panic =>
      rw [hP] at h1
      cases hS : applyStrict n h.path h <;> simp [hS, optToOutcome, Outcome.mapO] at h1

/-- C03, sequences: `patchAll` on strict key / index hunks is the reference interpreter up to tags -/
theorem patchAll_strict_eq_ref (sw : Bool) (n : Json) (d : Diff)
    (hd : d.all (fun h => !h.merge && strictPath h.path && hunkListDoc h) = true)
    (hn : n.listDoc = true) :
    Outcome.mapO untag (patchAll sw n d) = Outcome.mapO untag (optToOutcome (applyStrictAll n d)) :=
  patchAll_strict_eq_ref_gen sw d n n rfl hn hd


/-! ### 9. the clauses of property C03 -/

theorem mapO_untag_cases {P : Outcome Json} {S : Option Json}
    (e : Outcome.mapO untag P = Outcome.mapO untag (optToOutcome S)) :
    (∃ a b, P = .ok a ∧ S = some b ∧ untag a = untag b) ∨ (P = .err ∧ S = none) := by
  cases P <;> cases S <;> simp_all [Outcome.mapO, optToOutcome]

/-- a strict hunk applies exactly when the reference interpreter accepts it (every expectation
    encoded in the hunk holds in the document), and the patch never panics -/
theorem strict_applies_iff (sw : Bool) (n : Json) (h : Hunk) (p : Path)
    (hp : strictPath p = true) (hn : n.listDoc = true) (hh : hunkListDoc h = true) :
    ((∃ r, patchNode sw false n p h.before h.remove h.add h.after = .ok r)
      ↔ (applyStrict n p h).isSome = true)
    ∧ patchNode sw false n p h.before h.remove h.add h.after ≠ .panic := by
  refine ⟨?_, patchNode_ne_panic _ _ _ _ _ _ _ _⟩
  rcases mapO_untag_cases (patchNode_strict_eq_ref sw n h p hp hn hh) with
    ⟨a, b, hP, hS, _⟩ | ⟨hP, hS⟩
  · simp [hP, hS]
  · simp [hP, hS]

/-- … and otherwise the outcome is an error (never a panic, never a document) -/
theorem strict_rejects_iff (sw : Bool) (n : Json) (h : Hunk) (p : Path)
    (hp : strictPath p = true) (hn : n.listDoc = true) (hh : hunkListDoc h = true) :
    patchNode sw false n p h.before h.remove h.add h.after = .err ↔ applyStrict n p h = none := by
  rcases mapO_untag_cases (patchNode_strict_eq_ref sw n h p hp hn hh) with
    ⟨a, b, hP, hS, _⟩ | ⟨hP, hS⟩
  · simp [hP, hS]
  · simp [hP, hS]

/-- when a strict hunk applies, the result is the reference result up to array tags, and it is
    again a list-mode document -/
theorem strict_result (sw : Bool) (n : Json) (h : Hunk) (p : Path)
    (hp : strictPath p = true) (hn : n.listDoc = true) (hh : hunkListDoc h = true) (r : Json)
    (he : patchNode sw false n p h.before h.remove h.add h.after = .ok r) :
    (∃ m, applyStrict n p h = some m ∧ untag r = untag m) ∧ r.listDoc = true := by
  refine ⟨?_, patchNode_strict_listDoc sw n h p hp hn hh r he⟩
  rcases mapO_untag_cases (patchNode_strict_eq_ref sw n h p hp hn hh) with
    ⟨a, b, hP, hS, hu⟩ | ⟨hP, hS⟩
  · rw [hP] at he; cases he; exact ⟨b, hS, hu⟩
  · rw [hP] at he; cases he

/-- the same three clauses for a sequence of strict hunks -/
theorem strictAll_applies_iff (sw : Bool) (n : Json) (d : Diff)
    (hd : d.all (fun h => !h.merge && strictPath h.path && hunkListDoc h) = true)
    (hn : n.listDoc = true) :
    (∃ r, patchAll sw n d = .ok r) ↔ (applyStrictAll n d).isSome = true := by
  rcases mapO_untag_cases (patchAll_strict_eq_ref sw n d hd hn) with ⟨a, b, hP, hS, _⟩ | ⟨hP, hS⟩
  · simp [hP, hS]
  · simp [hP, hS]

theorem strictAll_rejects_iff (sw : Bool) (n : Json) (d : Diff)
    (hd : d.all (fun h => !h.merge && strictPath h.path && hunkListDoc h) = true)
    (hn : n.listDoc = true) :
    patchAll sw n d = .err ↔ applyStrictAll n d = none := by
  rcases mapO_untag_cases (patchAll_strict_eq_ref sw n d hd hn) with ⟨a, b, hP, hS, _⟩ | ⟨hP, hS⟩
  · simp [hP, hS]
  · simp [hP, hS]

theorem strictAll_result (sw : Bool) (n : Json) (d : Diff)
    (hd : d.all (fun h => !h.merge && strictPath h.path && hunkListDoc h) = true)
    (hn : n.listDoc = true) (r : Json) (he : patchAll sw n d = .ok r) :
    ∃ m, applyStrictAll n d = some m ∧ untag r = untag m := by
  rcases mapO_untag_cases (patchAll_strict_eq_ref sw n d hd hn) with ⟨a, b, hP, hS, hu⟩ | ⟨hP, hS⟩
  · rw [hP] at he; cases he; exact ⟨b, hS, hu⟩
  · rw [hP] at he; cases he

/-- the library's behaviour (`sw = true`, the code as it is) on strict key / index hunks -/
theorem patchM_strict_eq_ref (n : Json) (d : Diff)
    (hd : d.all (fun h => !h.merge && strictPath h.path && hunkListDoc h) = true)
    (hn : n.listDoc = true) :
    Outcome.mapO untag (patchM n d) = Outcome.mapO untag (optToOutcome (applyStrictAll n d)) :=
  patchAll_strict_eq_ref true n d hd hn

/-! ### axioms -/

#print axioms patchListLeaf_eq_splice
#print axioms patchNode_strict_eq_ref
#print axioms patchNode_strict_listDoc
#print axioms applyStrict_untag
#print axioms patchAll_strict_eq_ref
#print axioms strict_applies_iff
#print axioms strict_rejects_iff
#print axioms strict_result
#print axioms strictAll_applies_iff
#print axioms strictAll_rejects_iff
#print axioms strictAll_result

end Jd
