/-
  JdProofs.V1PrecisionModes — property C17 (v1 API `lib/`), `SetPrecision(eps)` with eps ≠ 0 allowed,
  COMBINED with the SET and MULTISET readings (this file, namespace `Jd.V1PS`) and with MERGE (list
  reading; JdProofs/V1PrecisionMerge.lean, namespace `Jd.V1PM`, imported here). JdProofs/V1Precision.lean
  has the precision with the plain list reading; V1SetDiffPatch.lean has SET / MULTISET / MERGE at
  precision 0 only.

    patching `a` with `a.Diff(b, m...)`, directly or after `Render` and `ReadDiffString`, yields a
    document that `Equals` `b` WITH THE METADATA, and the diff is empty exactly when `Equals` (with
    the metadata) holds.

  HOW v1 TREATS THE PRECISION IN THE SET READINGS (read from /repo/lib; the model follows it)
    * `jsonNumber.hashCode` (number.go:44) hashes the bits (0 and -0 alike) and never looks at the
      metadata; `jsonSet.Equals` / `jsonMultiset.Equals` compare hash codes. So INSIDE an array read
      as a set / multiset the precision is ignored: `[1]` and `[1.05]` under `SET, SetPrecision(0.1)`
      are NOT `Equals` (`Witness.precision_ignored_inside_sets`, kernel computation), the diff is
      `- 1 + 1.05`.
    * OUTSIDE arrays (the root, object members reached through object keys only) `diff` of
      diff_common.go calls `a.Equals(b, metadata...)` WITH the precision and `jsonObject.Equals`
      passes the metadata down: a number within eps of its counterpart produces no hunk and the
      patched document keeps the number of `a`.
    * the patch never sees the precision: the path metadata hold only "set" / "multiset"; removed
      values are compared exactly (they are values of `a` itself).
    Consequence: diff-then-patch yields `r` with `Equals(r, b, m...)`; `r` is in general not equal
    to `b` without the precision (`Witness.result_not_structural`).

  METHOD. Everything that happens inside an array is precision-blind, so the array step of the
  induction is TRANSFERRED from V1SetDiffPatch: `diffNode_arr_noPrec` (the diff of two plain arrays
  computed under `m` is the diff computed under `noPrec m`, given that same-identity members have an
  empty sub-diff under both — `members_nil`, from `diffNode_nil_of_equivB0`, the port of
  `V1S.diffNode_nil_of_equivB` to a precision), then `V1S.set_step` / `V1S.mset_step` at `noPrec m`,
  then `equals_arrRaw_congr` (against a plain array `Equals` compares hash codes only). Scalars and
  objects are re-done with the relation "`Equals` under `m`" (`StepE`, `kvs_stepE`, `obj_resultE`,
  `node_stepE`); `V1S.patch_adds`, `V1S.patchAll_key_frame`, `V1S.patch_replace` are reused as they are.

  MAIN RESULTS (`PMode m o`: SET or MULTISET by `V1.dispatchTag m = dispatchTag o`, `o` without
  precision — the reading of the hash hypothesis —, no setkeys, no MERGE, `nonnegBits (V1.precOf m)`;
  `PSetMode m` / `PMsetMode m`: the same as the caller writes the metadata, decidable)
    1. `v1_diff_patch_setmodes_precision` (`_set_`, `_mset_`): `a b : setDoc`, `memOK`, `FloatEq0`,
       `FloatLaws`, `V1S.HashFaithful m o (subterms a ++ subterms b)`:
         ∃ r, V1.patchM a (V1.diffM m a b) = .ok r ∧ V1.equals m r b = true
    2. `v1_diff_empty_iff_equals_setmodes_precision` (`_set_`, `_mset_`): same hypotheses,
         V1.diffM m a b = [] ↔ V1.equals m a b = true          (BOTH directions hold)
    3. `v1_text_roundtrip_setmodes_precision`: + `vfree a`, `vfree b`, `b` not void, `V1S.CodecOK`,
       render success: `V1.readDiffM nc text = .ok (V1.diffM m a b)` and (1).
    MERGE (V1PrecisionMerge.lean): `V1PM.v1_merge_diff_patch_precision`,
    `V1PM.v1_merge_diff_empty_iff_equals_precision` (`_anyprec`: any precision bit pattern),
    `V1PM.v1_text_roundtrip_merge_precision`.
  HYPOTHESES: those of V1SetDiffPatch (see there) with `precision 0` replaced by `precNN`. No
    monotonicity law (`DPL.PrecMono`) is needed: a value compared at precision 0 is re-read at
    precision eps only against itself (`FloatEq0` turns "equivalent at 0" into "same bits" on
    `setDoc` documents, then `FloatLaws.refl`). The hash hypothesis is the precision-0 one: the hash
    codes do not depend on the precision (`hashFaithful_noPrec`).
  WITNESSES (`Witness`, relative to the float facts they name; all replayed on /repo/lib, see
    /tmp/pf/pd/gocheck): `precNN_needed` (eps = -1: `1` vs `1` gives `- 1 + 1`, patched `1`, not
    `Equals` under the metadata), `result_not_structural`, `precision_ignored_inside_sets`.
  NON-VACUITY: `Example.p_set`, `Example.p_mset` (`{"k":1,"s":[1,2,{"x":1}],"u":{"v":2}}` →
    `{"k":1.05,"s":[2,1.05,{"x":1.05}],"t":3,"u":{"v":2.05}}`, eps 0.1; hash hypothesis discharged
    by kernel computation relative to `FloatLaws.refl`).
  NOT PROVED: a precision together with setkeys (SET + Setkeys, MULTISET + Setkeys, MERGE over the
    set readings); eps = +Inf; `equivB` with a precision in the set readings is NOT what `Equals`
    decides (see `precision_ignored_inside_sets`), so no `equivB` conclusion is stated here.
-/
import JdModel
import JdSpec
import JdProofs.V1SetDiffPatch
import JdProofs.V1Precision
import JdProofs.V1PrecisionMerge

namespace Jd.V1PS
open Jd Jd.Spec Jd.V1S
open Jd.SetDP (Ok Within)
open Jd.V1P (shift ap)

/-! ## 0. the metadata: SET or MULTISET together with a precision -/

/-- the metadata list without its precision entries -/
def noPrec : V1.Metas → V1.Metas
  | [] => []
  | .prec _ :: r => noPrec r
  | .set :: r => .set :: noPrec r
  | .mset :: r => .mset :: noPrec r
  | .merge :: r => .merge :: noPrec r
  | .setkeys ks :: r => .setkeys ks :: noPrec r

theorem hasSet_noPrec : ∀ m, V1.hasSet (noPrec m) = V1.hasSet m
  | [] => rfl
  | x :: r => by cases x <;> simp [noPrec, V1.hasSet, hasSet_noPrec r]

theorem hasMset_noPrec : ∀ m, V1.hasMset (noPrec m) = V1.hasMset m
  | [] => rfl
  | x :: r => by cases x <;> simp [noPrec, V1.hasMset, hasMset_noPrec r]

theorem hasMerge_noPrec : ∀ m, V1.hasMerge (noPrec m) = V1.hasMerge m
  | [] => rfl
  | x :: r => by cases x <;> simp [noPrec, V1.hasMerge, hasMerge_noPrec r]

theorem keysOf_noPrec : ∀ m, V1.keysOf (noPrec m) = V1.keysOf m
  | [] => rfl
  | x :: r => by cases x <;> simp [noPrec, V1.keysOf, keysOf_noPrec r]

theorem precOf_noPrec : ∀ m, V1.precOf (noPrec m) = 0
  | [] => rfl
  | x :: r => by cases x <;> simp [noPrec, V1.precOf, precOf_noPrec r]

theorem tag_noPrec (m : V1.Metas) : V1.dispatchTag (noPrec m) = V1.dispatchTag m := by
  simp [V1.dispatchTag, hasSet_noPrec, hasMset_noPrec]

/-- the metadata of the theorems of this file, tied to the (precision-free) options `o` under which
    the hash hypothesis is read: SET or MULTISET (v1: SET wins when both are given), no setkeys, no
    MERGE, and ANY finite non-negative precision (`nonnegBits`: sign bit clear, exponent not all
    ones). `V1S.Mode m o` is the special case precision 0. -/
structure PMode (m : V1.Metas) (o : Opts) : Prop where
  tag : V1.dispatchTag m = dispatchTag o
  sm : dispatchTag o = .set ∨ dispatchTag o = .mset
  prec : precOf o = 0
  precNN : nonnegBits (V1.precOf m) = true
  keys : V1.keysOf m = none
  noMerge : V1.hasMerge m = false

theorem PMode.vsm {m : V1.Metas} {o : Opts} (M : PMode m o) :
    V1.dispatchTag m = .set ∨ V1.dispatchTag m = .mset := by
  rw [M.tag]; exact M.sm

/-- the same metadata without the precision are a `V1S.Mode` of V1SetDiffPatch -/
theorem PMode.mode0 {m : V1.Metas} {o : Opts} (M : PMode m o) : V1S.Mode (noPrec m) o :=
  ⟨(tag_noPrec m).trans M.tag, M.sm, M.prec, precOf_noPrec m,
    (keysOf_noPrec m).trans M.keys, (hasMerge_noPrec m).trans M.noMerge⟩

theorem PMode.of_mode {m : V1.Metas} {o : Opts} (M : V1S.Mode m o) : PMode m o :=
  ⟨M.tag, M.sm, M.prec, by rw [M.vprec]; decide, M.keys, M.noMerge⟩

theorem hashCode_noPrec (m : V1.Metas) (x : Json) :
    V1.hashCode (noPrec m) x = V1.hashCode m x := V1S.hashCode_congr (tag_noPrec m) x

theorem identOf_noPrec {m : V1.Metas} (hk : V1.keysOf m = none) :
    V1.identOf (noPrec m) = V1.identOf m :=
  V1S.identOf_congr (tag_noPrec m) ((keysOf_noPrec m).trans hk) hk

/-- the hash hypothesis does not see the precision -/
theorem hashFaithful_noPrec {m : V1.Metas} {o : Opts} {S : List Json} (HF : V1S.HashFaithful m o S) :
    V1S.HashFaithful (noPrec m) o S := by
  intro x hx y hy e
  rw [hashCode_noPrec, hashCode_noPrec] at e
  exact HF x hx y hy e

/-! ## 1. `Equals` with a precision in the set readings -/

mutual
/-- the v1 `Equals` is reflexive in the set modes with a finite non-negative precision -/
theorem equals_refl_prec (L : FloatLaws) {m : V1.Metas}
    (hm : V1.dispatchTag m = .set ∨ V1.dispatchTag m = .mset)
    (hp : nonnegBits (V1.precOf m) = true) :
    ∀ (a : Json), a.rawDoc = true → a.wf = true → a.finiteNums = true → V1.equals m a a = true
  | .void, _, _, _ => by simp [V1.equals, Json.isVoid]
  | .null, _, _, _ => by simp [V1.equals, Json.isNull]
  | .bool x, _, _, _ => by simp [V1.equals]
  | .num x, _, _, hf => by
    simp only [Json.finiteNums] at hf
    simp [V1.equals, L.refl _ x hf hp]
  | .str x, _, _, _ => by simp [V1.equals]
  | .arr t xs, ha, _, _ => by
    simp only [Json.rawDoc, Bool.and_eq_true, beq_iff_eq] at ha
    obtain ⟨rfl, _⟩ := ha
    exact V1S.equals_arr_raw_refl hm xs
  | .obj kvs, ha, hw, hf => by
    simp only [Json.rawDoc] at ha
    simp only [Json.wf, Bool.and_eq_true] at hw
    simp only [Json.finiteNums] at hf
    simp only [V1.equals, beq_self_eq_true, Bool.true_and]
    exact equalsKvs_refl_prec L hm hp kvs kvs (fun k v h => alookup_of_mem hw.1 h) ha hw.2 hf
theorem equalsKvs_refl_prec (L : FloatLaws) {m : V1.Metas}
    (hm : V1.dispatchTag m = .set ∨ V1.dispatchTag m = .mset)
    (hp : nonnegBits (V1.precOf m) = true) :
    ∀ (r kvs : List (String × Json)), (∀ k v, (k, v) ∈ r → alookup k kvs = some v) →
      rawDocKvs r = true → wfKvs r = true → finiteNumsKvs r = true → V1.equalsKvs m r kvs = true
  | [], _, _, _, _, _ => by simp [V1.equalsKvs]
  | (k, v) :: r, kvs, hsub, ha, hw, hf => by
    simp only [rawDocKvs, wfKvs, finiteNumsKvs, Bool.and_eq_true] at ha hw hf
    rw [V1.equalsKvs, hsub k v List.mem_cons_self]
    simp [equals_refl_prec L hm hp v ha.1 hw.1 hf.1,
      equalsKvs_refl_prec L hm hp r kvs
        (fun k' v' h => hsub k' v' (List.mem_cons_of_mem _ h)) ha.2 hw.2 hf.2]
end

theorem equals_refl_ok (L : FloatLaws) {m : V1.Metas} {o : Opts} (M : PMode m o) {b : Json}
    (hb : Ok b) : V1.equals m b b = true :=
  equals_refl_prec L M.vsm M.precNN b hb.rawDoc hb.wf hb.fin

/-- `Equals` never identifies void with something else -/
theorem equals_isVoid {m : V1.Metas} {r b : Json} (h : V1.equals m r b = true) :
    r.isVoid = b.isVoid := by
  cases r with
  | arr t xs =>
    cases b with
    | void =>
      rw [V1.equals.eq_def] at h
      simp only [V1.dispatch] at h
      split at h <;> simp_all
    | _ => rfl
  | _ => cases b <;> simp_all [V1.equals, Json.isVoid, Json.isNull]

/-- against a plain array, in the set readings, `Equals` compares hash codes only: the precision
    plays no part -/
theorem equals_arrRaw_congr {m m' : V1.Metas} (h : V1.dispatchTag m = V1.dispatchTag m')
    (hm : V1.dispatchTag m = .set ∨ V1.dispatchTag m = .mset) (r : Json) (ys : List Json) :
    V1.equals m r (.arr .raw ys) = V1.equals m' r (.arr .raw ys) := by
  cases r with
  | arr t zs =>
    rw [V1.equals.eq_def, V1.equals.eq_def]
    simp only [← V1S.effTag_congr h t, V1.dispatch, ← h, ← V1S.hashCode_congr h]
    rcases hm with hd | hd <;> cases t <;> simp [V1.effTag, hd]
  | obj kvs => simp [V1.equals]
  | _ => simp [V1.equals, Json.isVoid, Json.isNull]

/-! ## 2. documents equivalent at precision 0 have an empty diff at any precision -/

/-- on a scalar receiver: equivalent at precision 0 ⇒ `Equals` at the precision of `m` -/
theorem scalar_equals_of_equivB (F : FloatEq0) (L : FloatLaws) {m : V1.Metas} {o : Opts}
    (M : PMode m o) {a b : Json} (ha : ∀ t xs, a ≠ .arr t xs) (ha' : ∀ kvs, a ≠ .obj kvs)
    (da : DocOk a) (db : DocOk b) (h : equivB o a b = true) : V1.equals m a b = true := by
  cases a with
  | num x =>
    cases b with
    | num y =>
      have hx := da _ (mem_subterms_self _)
      have hy := db _ (mem_subterms_self _)
      simp only [nodeOk, Bool.and_eq_true, bne_iff_ne, ne_eq] at hx hy
      simp only [equivB, M.prec] at h
      have e := F.eq_of_within0 x y hx.1 hy.1 hx.2 hy.2 h
      subst e
      simp [V1.equals, L.refl _ x hx.1 M.precNN]
    | _ => simp [equivB] at h
  | arr t xs => exact absurd rfl (ha t xs)
  | obj kvs => exact absurd rfl (ha' kvs)
  | _ => cases b <;> simp_all [equivB, V1.equals, Json.isVoid, Json.isNull]

theorem diffNode_nil_of_equivB0 (F : FloatEq0) (L : FloatLaws) {m : V1.Metas} {o : Opts}
    (M : PMode m o) {S : List Json} (HF : V1S.HashFaithful m o S) :
    ∀ a b, DocOk a → DocOk b → Within S a → Within S b → equivB o a b = true →
      ∀ p, V1.diffNode m false a b p = [] := by
  have hk := M.keys
  have scalar : ∀ a b : Json, (∀ t xs, a ≠ .arr t xs) → (∀ kvs, a ≠ .obj kvs) →
      DocOk a → DocOk b → equivB o a b = true → ∀ p, V1.diffNode m false a b p = [] := by
    intro a b h1 h2 da db h p
    rw [V1P.diffNode_scalar m a b h1 h2 p, V1S.diffCommon_nil_iff]
    exact scalar_equals_of_equivB F L M h1 h2 da db h
  intro a
  induction a using jsonInd with
  | void => intro b da db _ _ h; exact scalar _ b (fun _ _ e => by cases e) (fun _ e => by cases e) da db h
  | null => intro b da db _ _ h; exact scalar _ b (fun _ _ e => by cases e) (fun _ e => by cases e) da db h
  | bool x => intro b da db _ _ h; exact scalar _ b (fun _ _ e => by cases e) (fun _ e => by cases e) da db h
  | num x => intro b da db _ _ h; exact scalar _ b (fun _ _ e => by cases e) (fun _ e => by cases e) da db h
  | str x => intro b da db _ _ h; exact scalar _ b (fun _ _ e => by cases e) (fun _ e => by cases e) da db h
  | arr t xs ih =>
    intro b ha hb wa wb h p
    cases b with
    | arr t' ys =>
      have ht := ha.raw
      have ht' := hb.raw
      subst ht ht'
      have hhash : ∀ x ∈ xs, ∀ y ∈ ys, equivB o x y = true →
          V1.hashCode m x = V1.hashCode m y := by
        intro x hx y hy e
        rw [← hashCode_noPrec m x, ← hashCode_noPrec m y]
        exact V1S.equivB_hash_core F M.mode0 x y (ha.elem hx) (hb.elem hy) e
      rcases M.sm with hd | hd
      · have hd' : V1.dispatchTag m = .set := M.tag.trans hd
        simp only [equivB, hd, Bool.and_eq_true, allIn_iff, allCovered_iff] at h
        have H : ∀ x ∈ xs, ∀ y ∈ ys, V1.identOf m x = V1.identOf m y →
            ∀ q, V1.diffNode m false x y q = [] := by
          intro x hx y hy e q
          rw [V1S.identOf_eq_hashCode hk, V1S.identOf_eq_hashCode hk] at e
          exact ih x hx y (ha.elem hx) (hb.elem hy) (wa.elem hx) (wb.elem hy)
            (HF x (wa.elem hx).self y (wb.elem hy).self e) q
        obtain ⟨a1, _, _, a4⟩ := V1S.parts_spec m p xs ys H
        obtain ⟨_, b2⟩ := V1S.setAdd_spec m xs ys
        have hrem : (ksort (V1.diffSetElems m false p ys xs)).filterMap V1S.remOf = [] := by
          rw [List.eq_nil_iff_forall_not_mem]
          intro z hz
          obtain ⟨h1, h2⟩ := (a4 _).1 (List.mem_map_of_mem (f := V1.identOf m) hz)
          obtain ⟨x, hx, ex⟩ := List.mem_map.1 h1
          obtain ⟨y, hy, e⟩ := h.1 x hx
          apply h2
          rw [← ex, V1S.identOf_eq_hashCode hk, hhash x hx y hy e, ← V1S.identOf_eq_hashCode hk]
          exact List.mem_map_of_mem hy
        have hadd : V1S.setAdd m xs ys = [] := by
          rw [List.eq_nil_iff_forall_not_mem]
          intro z hz
          obtain ⟨h1, h2⟩ := (b2 _).1 (List.mem_map_of_mem (f := V1.identOf m) hz)
          obtain ⟨y, hy, ey⟩ := List.mem_map.1 h1
          obtain ⟨x, hx, e⟩ := h.2 y hy
          apply h2
          rw [← ey, V1S.identOf_eq_hashCode hk, ← hhash x hx y hy e, ← V1S.identOf_eq_hashCode hk]
          exact List.mem_map_of_mem hx
        rw [V1S.diffNode_set_set hd', a1, hrem, hadd]
        rfl
      · have hd' : V1.dispatchTag m = .mset := M.tag.trans hd
        simp only [equivB, hd, Bool.and_eq_true, beq_iff_eq] at h
        have hperm := V1S.bagSub_key_perm (V1.hashCode m) o xs ys h.1 h.2 hhash
        have hc : ∀ c, countOcc c (V1.hashList m xs) = countOcc c (V1.hashList m ys) := by
          intro c
          rw [countOcc_eq_count, countOcc_eq_count, V1S.hashList_eq_map, V1S.hashList_eq_map]
          exact hperm.count_eq c
        rw [V1S.diffNode_mset_mset hd', V1S.bagSurplus_nil (fun c => Nat.le_of_eq (hc c)),
          V1S.bagSurplus_nil (fun c => Nat.le_of_eq (hc c).symm)]
        rfl
    | _ => simp [equivB] at h
  | obj kvs ih =>
    intro b ha hb wa wb h p
    cases b with
    | obj kvs' =>
      have hs := ha.sorted
      have hs' := hb.sorted
      simp only [equivB, Bool.and_eq_true, beq_iff_eq, equivKvs_eq_lookAll, lookAll_iff] at h
      have hflip := AllLook.flip hs hs' h.1 h.2
      have hkv : ∀ r : List (String × Json), (∀ kv ∈ r, kv ∈ kvs) →
          V1.diffKvs m false p kvs' r = [] := by
        intro r
        induction r with
        | nil => intro _; exact V1P.diffKvs_nil m p kvs'
        | cons kv r ihr =>
          intro hsub
          obtain ⟨k, v⟩ := kv
          have hm1 : (k, v) ∈ kvs := hsub _ List.mem_cons_self
          obtain ⟨v', hl, he⟩ := h.2 k v hm1
          have hm2 := mem_of_alookup hl
          rw [V1P.diffKvs_cons, ihr (fun kv hh => hsub kv (List.mem_cons_of_mem _ hh)), hl]
          simp only [List.append_nil]
          exact ih k v hm1 v' (ha.val hm1) (hb.val hm2) (wa.val hm1) (wb.val hm2) he _
      rw [V1P.diffNode_obj_obj, hkv kvs (fun _ hh => hh),
        filter_added_nil (kvs := kvs) (kvs' := kvs') (fun k' v' hm' => by
          obtain ⟨w, hl, _⟩ := hflip k' v' hm'
          simp [hl])]
      rfl
    | _ => simp [equivB] at h

/-! ## 3. the diff of two arrays read as sets / multisets does not see the precision -/

theorem identLookup_congr {m m' : V1.Metas} (e : V1.identOf m = V1.identOf m') (h : UInt64) :
    ∀ l, V1.identLookup m h l = V1.identLookup m' h l
  | [] => rfl
  | x :: r => by simp only [V1.identLookup, identLookup_congr e h r, e]

theorem hashLookup_congr {m m' : V1.Metas} (hd : V1.dispatchTag m = V1.dispatchTag m')
    (h : UInt64) : ∀ l, V1.hashLookup m h l = V1.hashLookup m' h l
  | [] => rfl
  | x :: r => by simp only [V1.hashLookup, hashLookup_congr hd h r, V1S.hashCode_congr hd x]

theorem appendIndex_noPrec (p : List Json) (o : List (String × Json)) (m : V1.Metas) :
    V1.appendIndex p o (noPrec m) = V1.appendIndex p o m := by
  simp only [V1.appendIndex, hasSet_noPrec, hasMset_noPrec, keysOf_noPrec]

theorem pathObject_noPrec (m : V1.Metas) (kvs : List (String × Json)) :
    V1.pathObject (noPrec m) kvs = V1.pathObject m kvs := by
  simp only [V1.pathObject, keysOf_noPrec]

theorem diffSetElems_noPrec {m : V1.Metas} (hk : V1.keysOf m = none) (p ys : List Json) :
    ∀ xs : List Json,
      (∀ x ∈ xs, ∀ y ∈ ys, V1.identOf m x = V1.identOf m y → ∀ q,
        V1.diffNode m false x y q = [] ∧ V1.diffNode (noPrec m) false x y q = []) →
      V1.diffSetElems (noPrec m) false p ys xs = V1.diffSetElems m false p ys xs
  | [], _ => by rw [V1S.diffSetElems_nil, V1S.diffSetElems_nil]
  | x :: r, H => by
    have ih := diffSetElems_noPrec hk p ys r (fun x' hx' => H x' (List.mem_cons_of_mem _ hx'))
    rw [V1S.diffSetElems_cons, V1S.diffSetElems_cons, ih, identOf_noPrec hk,
      identLookup_congr (identOf_noPrec hk)]
    split
    · rfl
    · cases hl : V1.identLookup m (V1.identOf m x) ys with
      | none => rfl
      | some y =>
        obtain ⟨hy, ey⟩ := V1S.identLookup_some hl
        cases x with
        | obj kvs =>
          cases y with
          | obj kvs2 =>
            simp only []
            rw [(H _ List.mem_cons_self _ hy ey.symm _).1, (H _ List.mem_cons_self _ hy ey.symm _).2]
          | _ => rfl
        | _ => rfl

/-- two plain arrays under SET / MULTISET whose same-identity members have empty sub-diffs: the diff
    computed with the precision is the diff computed without -/
theorem diffNode_arr_noPrec {m : V1.Metas} {o : Opts} (M : PMode m o) (xs ys p : List Json)
    (H : ∀ x ∈ xs, ∀ y ∈ ys, V1.identOf m x = V1.identOf m y → ∀ q,
      V1.diffNode m false x y q = [] ∧ V1.diffNode (noPrec m) false x y q = []) :
    V1.diffNode (noPrec m) false (.arr .raw xs) (.arr .raw ys) p =
      V1.diffNode m false (.arr .raw xs) (.arr .raw ys) p := by
  rcases M.vsm with hd | hd
  · have e : V1S.setAdd (noPrec m) xs ys = V1S.setAdd m xs ys := by
      unfold V1S.setAdd
      rw [identOf_noPrec M.keys]
      congr 1
      funext h
      exact identLookup_congr (identOf_noPrec M.keys) h ys
    rw [V1S.diffNode_set_set ((tag_noPrec m).trans hd), V1S.diffNode_set_set hd,
      diffSetElems_noPrec M.keys p ys xs H, appendIndex_noPrec, e]
  · have e : ∀ xs ys, V1S.bagSurplus (noPrec m) xs ys = V1S.bagSurplus m xs ys := by
      intro xs ys
      unfold V1S.bagSurplus
      simp only [V1S.hashList_congr (tag_noPrec m), hashLookup_congr (tag_noPrec m)]
    rw [V1S.diffNode_mset_mset ((tag_noPrec m).trans hd), V1S.diffNode_mset_mset hd, appendIndex_noPrec,
      e, e]

/-! ## 4. the induction: diff, then patch -/

/-- what one node of the diff has to achieve, with a precision: the hunks are hunks below the
    path, none announces the merge strategy, they apply to the source in sequence (`V1.patchAll`:
    the library's patch loop), and the result `Equals` the target under the metadata -/
def StepE (m : V1.Metas) (a b : Json) (p : List Json) : Prop :=
  ∃ D r, V1.diffNode m false a b p = D.map (shift p) ∧ (∀ h ∈ D, V1S.NM h) ∧
    V1.patchAll a D = .ok r ∧ V1.equals m r b = true

theorem arr_stepE (F : FloatEq0) (L : FloatLaws) {m : V1.Metas} {o : Opts} (M : PMode m o)
    {S : List Json} (HF : V1S.HashFaithful m o S)
    (xs ys : List Json) (ha : Ok (.arr .raw xs)) (hb : Ok (.arr .raw ys))
    (wa : Within S (.arr .raw xs)) (wb : Within S (.arr .raw ys)) (p : List Json) :
    StepE m (.arr .raw xs) (.arr .raw ys) p := by
  have M0 := M.mode0
  have HF0 := hashFaithful_noPrec HF
  have H : ∀ x ∈ xs, ∀ y ∈ ys, V1.identOf m x = V1.identOf m y → ∀ q,
      V1.diffNode m false x y q = [] ∧ V1.diffNode (noPrec m) false x y q = [] := by
    intro x hx y hy e q
    rw [V1S.identOf_eq_hashCode M.keys, V1S.identOf_eq_hashCode M.keys] at e
    have eq := HF x (wa.elem hx).self y (wb.elem hy).self e
    exact ⟨diffNode_nil_of_equivB0 F L M HF x y (ha.elem hx).docOk (hb.elem hy).docOk
        (wa.elem hx) (wb.elem hy) eq q,
      V1S.diffNode_nil_of_equivB F M0 HF0 x y (ha.elem hx).docOk (hb.elem hy).docOk
        (wa.elem hx) (wb.elem hy) eq q⟩
  have st : V1S.Step (noPrec m) o (.arr .raw xs) (.arr .raw ys) p := by
    rcases M.sm with hd | hd
    · exact V1S.set_step F M0 hd HF0 xs ys ha hb wa wb p
    · exact V1S.mset_step F M0 hd HF0 xs ys ha hb wa wb p
  obtain ⟨D, r, e, nm, hp, _, he⟩ := st
  refine ⟨D, r, ?_, nm, hp, ?_⟩
  · rw [← diffNode_arr_noPrec M xs ys p H]; exact e
  · rw [equals_arrRaw_congr (tag_noPrec m).symm M.vsm]; exact he

theorem replace_stepE (L : FloatLaws) {m : V1.Metas} {o : Opts} (M : PMode m o)
    {a b : Json} (ha : Ok a) (hb : Ok b) (p : List Json) (addl : List Json)
    (hl : addl.length ≤ 1) (hs : Json.singleValue addl = b)
    (hdiff : V1.diffNode m false a b p = [{ path := p, old := a.nodeList, new := addl }]) :
    StepE m a b p := by
  refine ⟨[{ path := [], old := a.nodeList, new := addl }], b, ?_, ?_, ?_, equals_refl_ok L M hb⟩
  · rw [hdiff]; simp [shift]
  · intro h hh
    simp only [List.mem_singleton] at hh
    subst hh; exact V1S.nm_nil _ _
  · rw [V1S.patch_replace L ha addl hl, hs]

theorem scalar_stepE (L : FloatLaws) {m : V1.Metas} {o : Opts} (M : PMode m o)
    {a b : Json} (h1 : ∀ t xs, a ≠ .arr t xs) (h2 : ∀ kvs, a ≠ .obj kvs) (ha : Ok a) (hb : Ok b)
    (p : List Json) : StepE m a b p := by
  have hd := V1P.diffNode_scalar m a b h1 h2 p
  by_cases he : V1.equals m a b = true
  · refine ⟨[], a, ?_, by simp, rfl, he⟩
    rw [hd]; simp [V1.diffCommon, he]
  · apply replace_stepE L M ha hb p b.nodeList (V1S.nodeList_length_le b) (V1S.singleValue_nodeList b)
    rw [hd]; simp [V1.diffCommon, he]

/-- two objects with sorted keys: the first has exactly the members of the second, up to `Equals` -/
theorem obj_resultE {m : V1.Metas} {cur kvs' : List (String × Json)}
    (hs : keysSorted cur = true) (hs' : keysSorted kvs' = true)
    (h : ∀ k, match alookup k kvs' with
      | none => alookup k cur = none
      | some v' => ∃ z, alookup k cur = some z ∧ V1.equals m z v' = true) :
    V1.equals m (.obj cur) (.obj kvs') = true := by
  have hsub1 : cur.map Prod.fst ⊆ kvs'.map Prod.fst := by
    intro k hk
    rw [DPL.mem_keys_iff_lookup] at hk ⊢
    have := h k
    cases hl : alookup k kvs' with
    | none => rw [hl] at this; simp [this] at hk
    | some v' => rfl
  have hsub2 : kvs'.map Prod.fst ⊆ cur.map Prod.fst := by
    intro k hk
    rw [DPL.mem_keys_iff_lookup] at hk ⊢
    have := h k
    cases hl : alookup k kvs' with
    | none => simp [hl] at hk
    | some v' =>
      rw [hl] at this
      obtain ⟨z, hz, _⟩ := this
      simp [hz]
  have hlen : cur.length = kvs'.length := by
    have h1 := DPL.nodup_subset_length_le _ _ (keysSorted_nodup hs) hsub1
    have h2 := DPL.nodup_subset_length_le _ _ (keysSorted_nodup hs') hsub2
    simp only [List.length_map] at h1 h2
    omega
  have key : ∀ k z, (k, z) ∈ cur → ∃ v', alookup k kvs' = some v' ∧
      V1.equals m z v' = true := by
    intro k z hm
    have hz := alookup_of_mem hs hm
    have := h k
    cases hl : alookup k kvs' with
    | none => rw [hl] at this; simp [this] at hz
    | some v' =>
      rw [hl] at this
      obtain ⟨z', hz', hr⟩ := this
      rw [hz] at hz'
      cases hz'
      exact ⟨v', rfl, hr⟩
  simp only [V1.equals, Bool.and_eq_true, beq_iff_eq, V1S.equalsKvs_eq_lookAll, lookAll_iff]
  exact ⟨hlen, key⟩

/-- the first loop of `jsonObject.diff`: the members of the source in key order -/
theorem kvs_stepE (L : FloatLaws) (m : V1.Metas) (kvs' : List (String × Json))
    (hb : Ok (.obj kvs')) (p : List Json) :
    ∀ (r : List (String × Json)),
      (∀ k v, (k, v) ∈ r → Ok v ∧ v.isVoid = false ∧
        ∀ v', alookup k kvs' = some v' → ∀ q, StepE m v v' q) →
      keysSorted r = true →
      ∀ cur, keysSorted cur = true → (∀ k v, (k, v) ∈ r → alookup k cur = some v) →
      ∃ D cur', V1.diffKvs m false p kvs' r = D.map (shift p) ∧ (∀ h ∈ D, V1S.NM h) ∧
        V1.patchAll (.obj cur) D = .ok (.obj cur') ∧ keysSorted cur' = true ∧
        (∀ k0, (∀ v, (k0, v) ∉ r) → alookup k0 cur' = alookup k0 cur) ∧
        (∀ k v, (k, v) ∈ r → match alookup k kvs' with
          | none => alookup k cur' = none
          | some v' => ∃ z, alookup k cur' = some z ∧ V1.equals m z v' = true)
  | [], _, _, cur, hs, _ =>
    ⟨[], cur, by simp [V1P.diffKvs_nil], by simp, rfl, hs, fun _ _ => rfl, fun _ _ h => by cases h⟩
  | (k, v) :: r, hr, hsk, cur, hs, hcur => by
    obtain ⟨okv, hnv, ihv⟩ := hr k v List.mem_cons_self
    have hsk' := DPL.keysSorted_cons_iff.1 hsk
    have hx : alookup k cur = (if v.isVoid then none else some v) := by
      rw [hcur k v List.mem_cons_self, hnv]; rfl
    have hknr : ∀ w, (k, w) ∉ r := fun w hm => String.lt_irrefl k (hsk'.1 k w hm)
    have step : ∀ (D0 : V1.VDiff) (r0 : Json), (∀ h ∈ D0, V1S.NM h) →
        V1.patchAll v D0 = .ok r0 →
        ((r0 = .void ∧ alookup k kvs' = none) ∨
          ∃ v', alookup k kvs' = some v' ∧ V1.equals m r0 v' = true) →
        ∃ D cur', D0.map (shift (p ++ [.str k])) ++ V1.diffKvs m false p kvs' r =
            D.map (shift p) ∧ (∀ h ∈ D, V1S.NM h) ∧
          V1.patchAll (.obj cur) D = .ok (.obj cur') ∧ keysSorted cur' = true ∧
          (∀ k0, (∀ v_1, (k0, v_1) ∉ (k, v) :: r) → alookup k0 cur' = alookup k0 cur) ∧
          (∀ k_1 v_1, (k_1, v_1) ∈ (k, v) :: r → match alookup k_1 kvs' with
            | none => alookup k_1 cur' = none
            | some v' => ∃ z, alookup k_1 cur' = some z ∧ V1.equals m z v' = true) := by
      intro D0 r0 hD0 hr0 hres
      obtain ⟨cur1, g1, g2, g3, g4⟩ := V1S.patchAll_key_frame D0 hD0 k cur v hs hx r0 hr0
      obtain ⟨Dr, cur', f0, f0', f1, f2, f3, f4⟩ := kvs_stepE L m kvs' hb p r
        (fun k1 v1 hm => hr k1 v1 (List.mem_cons_of_mem _ hm)) hsk'.2 cur1 g2 (fun k1 v1 hm => by
          have hne : k1 ≠ k := fun e => String.lt_irrefl k (e ▸ hsk'.1 k1 v1 hm)
          rw [g3 k1 hne]
          exact hcur k1 v1 (List.mem_cons_of_mem _ hm))
      refine ⟨D0.map (shift [.str k]) ++ Dr, cur', ?_, ?_, ?_, f2, ?_, ?_⟩
      · rw [f0, List.map_append, List.map_map]
        congr 1
        apply List.map_congr_left
        intro h _
        simp [V1S.shift_shift]
      · intro h hh
        rcases List.mem_append.1 hh with hh | hh
        · obtain ⟨h0, _, rfl⟩ := List.mem_map.1 hh
          exact V1S.nm_shift_str k h0
        · exact f0' h hh
      · rw [V1S.patchAll_append_ok _ _ _ _ g1]
        exact f1
      · intro k0 hk0
        have hne : k0 ≠ k := fun e => hk0 v (e ▸ List.mem_cons_self)
        rw [f3 k0 (fun w hm => hk0 w (List.mem_cons_of_mem _ hm)), g3 k0 hne]
      · intro k1 v1 hm
        rcases List.mem_cons.1 hm with e | hm
        · cases e
          rw [f3 k hknr, g4]
          rcases hres with ⟨rfl, hlk⟩ | ⟨v', hlk, hres⟩
          · rw [hlk]; rfl
          · rw [hlk]
            have hnv' : r0.isVoid = false := by
              rw [equals_isVoid hres]; exact (hb.lookup hlk).2
            exact ⟨r0, by rw [hnv']; rfl, hres⟩
        · exact f4 k1 v1 hm
    rw [V1P.diffKvs_cons]
    cases hlk : alookup k kvs' with
    | some v' =>
      obtain ⟨D0, r0, d1, d2, d3, d5⟩ := ihv v' hlk (p ++ [.str k])
      simp only []
      rw [d1]
      exact step D0 r0 d2 d3 (.inr ⟨v', hlk, d5⟩)
    | none =>
      simp only []
      have h1 : V1.patchAll v [{ path := [], old := v.nodeList, new := [] }] = .ok .void :=
        V1S.patch_replace L okv [] (by simp)
      have := step [{ path := [], old := v.nodeList, new := [] }] .void
        (fun h hm => by simp only [List.mem_singleton] at hm; subst hm; exact V1S.nm_nil _ _)
        h1 (.inl ⟨rfl, hlk⟩)
      simpa [shift] using this

theorem node_stepE (F : FloatEq0) (L : FloatLaws) {m : V1.Metas} {o : Opts} (M : PMode m o)
    {S : List Json} (HF : V1S.HashFaithful m o S) :
    ∀ a b, Ok a → Ok b → Within S a → Within S b → ∀ p, StepE m a b p := by
  intro a
  induction a using jsonInd with
  | void =>
    intro b ha hb _ _ p
    exact scalar_stepE L M (fun _ _ e => by cases e) (fun _ e => by cases e) ha hb p
  | null =>
    intro b ha hb _ _ p
    exact scalar_stepE L M (fun _ _ e => by cases e) (fun _ e => by cases e) ha hb p
  | bool x =>
    intro b ha hb _ _ p
    exact scalar_stepE L M (fun _ _ e => by cases e) (fun _ e => by cases e) ha hb p
  | num x =>
    intro b ha hb _ _ p
    exact scalar_stepE L M (fun _ _ e => by cases e) (fun _ e => by cases e) ha hb p
  | str x =>
    intro b ha hb _ _ p
    exact scalar_stepE L M (fun _ _ e => by cases e) (fun _ e => by cases e) ha hb p
  | arr t xs _ =>
    intro b ha hb wa wb p
    have ht := ha.raw
    subst ht
    cases b with
    | arr t' ys =>
      have ht' := hb.raw
      subst ht'
      exact arr_stepE F L M HF xs ys ha hb wa wb p
    | _ =>
      refine replace_stepE L M ha hb p _ (V1S.nodeList_length_le _) (V1S.singleValue_nodeList _) ?_
      rw [V1S.diffNode_arr_other M.vsm xs _ (fun _ _ e => by cases e) p]
      rfl
  | obj kvs ih =>
    intro b ha hb wa wb p
    cases b with
    | obj kvs' =>
      have hsa := ha.sorted
      have hsb := hb.sorted
      obtain ⟨D1, cur1, e1, m1, h1, hs1, hother1, hmem1⟩ := kvs_stepE L m kvs' hb p kvs
        (fun k v hm => ⟨(ha.val hm).1, (ha.val hm).2, fun v' hl q =>
          ih k v hm v' (ha.val hm).1 (hb.lookup hl).1 (wa.val hm) (wb.val (mem_of_alookup hl)) q⟩)
        hsa kvs hsa (fun k v hm => alookup_of_mem hsa hm)
      obtain ⟨cur2, h2, hs2, hother2, hmem2⟩ := V1S.patch_adds L (fun k => (alookup k kvs).isNone)
        kvs' hsb (fun k v hm => (hb.val hm).2) cur1 hs1 (fun k v' _ hP => by
          have hkn : alookup k kvs = none := by simpa using hP
          rw [hother1 k (fun v hm => by rw [alookup_of_mem hsa hm] at hkn; cases hkn), hkn])
      have hfin : ∀ k, match alookup k kvs' with
          | none => alookup k cur2 = none
          | some v' => ∃ z, alookup k cur2 = some z ∧ V1.equals m z v' = true := by
        intro k
        cases hlk' : alookup k kvs' with
        | some v' =>
          simp only []
          have hm' := mem_of_alookup hlk'
          cases hlk : alookup k kvs with
          | none =>
            exact ⟨v', hmem2 k v' hm' (by simp [hlk]), equals_refl_ok L M (hb.val hm').1⟩
          | some v =>
            have := hmem1 k v (mem_of_alookup hlk)
            rw [hlk'] at this
            obtain ⟨z, hz, hr⟩ := this
            refine ⟨z, ?_, hr⟩
            rw [hother2 k (fun _ _ => by simp [hlk]), hz]
        | none =>
          simp only []
          rw [hother2 k (fun v' hm => by rw [alookup_of_mem hsb hm] at hlk'; cases hlk')]
          cases hlk : alookup k kvs with
          | none =>
            rw [hother1 k (fun v hm => by rw [alookup_of_mem hsa hm] at hlk; cases hlk), hlk]
          | some v =>
            have := hmem1 k v (mem_of_alookup hlk)
            rw [hlk'] at this
            exact this
      have r2 := obj_resultE (m := m) hs2 hsb hfin
      refine ⟨D1 ++ (kvs'.filter (fun kv => (alookup kv.1 kvs).isNone)).map V1S.addHunk,
        .obj cur2, ?_, ?_, ?_, r2⟩
      · rw [V1P.diffNode_obj_obj, e1, List.map_append, List.map_map]
        congr 1
      · intro h hh
        rcases List.mem_append.1 hh with hh | hh
        · exact m1 h hh
        · obtain ⟨kv, _, rfl⟩ := List.mem_map.1 hh
          rfl
      · rw [V1S.patchAll_append_ok _ _ _ _ h1]
        exact h2
    | _ =>
      refine replace_stepE L M ha hb p [_] (by simp) rfl ?_
      rw [V1P.diffNode_obj_other m kvs _ (fun _ e => by cases e) p]
      rfl

/-! ## 5. the theorems -/

/-- **C17, SET / MULTISET readings together with `SetPrecision(eps)`, in memory.** -/
theorem v1_diff_patch_setmodes_precision (F : FloatEq0) (L : FloatLaws) {m : V1.Metas} {o : Opts}
    (M : PMode m o) (a b : Json)
    (ha : a.setDoc = true) (hb : b.setDoc = true)
    (ha' : DPL.memOK a = true) (hb' : DPL.memOK b = true)
    (HF : V1S.HashFaithful m o (subterms a ++ subterms b)) :
    ∃ r, V1.patchM a (V1.diffM m a b) = .ok r ∧ V1.equals m r b = true := by
  obtain ⟨D, r, e, _, h, h2⟩ := node_stepE F L M HF a b ⟨ha, ha'⟩ ⟨hb, hb'⟩
    (fun z hz => List.mem_append.2 (Or.inl hz)) (fun z hz => List.mem_append.2 (Or.inr hz)) []
  refine ⟨r, ?_, h2⟩
  unfold V1.diffM V1.patchM
  rw [M.noMerge, e, V1S.shift_nil_map]
  exact h

/-- `Equals` under the metadata ⇒ empty diff (SET / MULTISET with a precision) -/
theorem diffNode_nil_of_equals (F : FloatEq0) (L : FloatLaws) {m : V1.Metas} {o : Opts}
    (M : PMode m o) {S : List Json} (HF : V1S.HashFaithful m o S) :
    ∀ a b, Ok a → Ok b → Within S a → Within S b → V1.equals m a b = true →
      ∀ p, V1.diffNode m false a b p = [] := by
  have scalar : ∀ a b : Json, (∀ t xs, a ≠ .arr t xs) → (∀ kvs, a ≠ .obj kvs) →
      V1.equals m a b = true → ∀ p, V1.diffNode m false a b p = [] := by
    intro a b h1 h2 h p
    rw [V1P.diffNode_scalar m a b h1 h2 p, V1S.diffCommon_nil_iff]
    exact h
  intro a
  induction a using jsonInd with
  | void => intro b _ _ _ _ h; exact scalar _ b (fun _ _ e => by cases e) (fun _ e => by cases e) h
  | null => intro b _ _ _ _ h; exact scalar _ b (fun _ _ e => by cases e) (fun _ e => by cases e) h
  | bool x => intro b _ _ _ _ h; exact scalar _ b (fun _ _ e => by cases e) (fun _ e => by cases e) h
  | num x => intro b _ _ _ _ h; exact scalar _ b (fun _ _ e => by cases e) (fun _ e => by cases e) h
  | str x => intro b _ _ _ _ h; exact scalar _ b (fun _ _ e => by cases e) (fun _ e => by cases e) h
  | arr t xs _ =>
    intro b ha hb wa wb h p
    have ht := ha.raw
    subst ht
    cases b with
    | arr t' ys =>
      have ht' := hb.raw
      subst ht'
      rw [equals_arrRaw_congr (tag_noPrec m).symm M.vsm,
        V1S.equals_eq_equivB_of F M.mode0 (hashFaithful_noPrec HF) ha.docOk hb.docOk wa wb] at h
      exact diffNode_nil_of_equivB0 F L M HF _ _ ha.docOk hb.docOk wa wb h p
    | _ =>
      exfalso
      rw [V1.equals.eq_def] at h
      rcases M.vsm with hd | hd <;> simp [V1.effTag, V1.dispatch, hd] at h
  | obj kvs ih =>
    intro b ha hb wa wb h p
    cases b with
    | obj kvs' =>
      have hs := ha.sorted
      have hs' := hb.sorted
      simp only [V1.equals, Bool.and_eq_true, beq_iff_eq, V1S.equalsKvs_eq_lookAll, lookAll_iff] at h
      have hflip := AllLook.flip hs hs' h.1 h.2
      have hkv : ∀ r : List (String × Json), (∀ kv ∈ r, kv ∈ kvs) →
          V1.diffKvs m false p kvs' r = [] := by
        intro r
        induction r with
        | nil => intro _; exact V1P.diffKvs_nil m p kvs'
        | cons kv r ihr =>
          intro hsub
          obtain ⟨k, v⟩ := kv
          have hm1 : (k, v) ∈ kvs := hsub _ List.mem_cons_self
          obtain ⟨v', hl, he⟩ := h.2 k v hm1
          have hm2 := mem_of_alookup hl
          rw [V1P.diffKvs_cons, ihr (fun kv hh => hsub kv (List.mem_cons_of_mem _ hh)), hl]
          simp only [List.append_nil]
          exact ih k v hm1 v' (ha.val hm1).1 (hb.val hm2).1 (wa.val hm1) (wb.val hm2) he _
      rw [V1P.diffNode_obj_obj, hkv kvs (fun _ hh => hh),
        filter_added_nil (kvs := kvs) (kvs' := kvs') (fun k' v' hm' => by
          obtain ⟨w, hl, _⟩ := hflip k' v' hm'
          simp [hl])]
      rfl
    | _ => simp [V1.equals] at h

/-- **C17, second half, SET / MULTISET readings with a precision: the diff is empty exactly when
    `Equals` (with the metadata) holds.** -/
theorem v1_diff_empty_iff_equals_setmodes_precision (F : FloatEq0) (L : FloatLaws)
    {m : V1.Metas} {o : Opts} (M : PMode m o) (a b : Json)
    (ha : a.setDoc = true) (hb : b.setDoc = true)
    (ha' : DPL.memOK a = true) (hb' : DPL.memOK b = true)
    (HF : V1S.HashFaithful m o (subterms a ++ subterms b)) :
    V1.diffM m a b = [] ↔ V1.equals m a b = true := by
  constructor
  · intro hd
    obtain ⟨r, h1, h2⟩ := v1_diff_patch_setmodes_precision F L M a b ha hb ha' hb' HF
    rw [hd] at h1
    cases h1
    exact h2
  · intro he
    unfold V1.diffM
    rw [M.noMerge]
    exact diffNode_nil_of_equals F L M HF a b ⟨ha, ha'⟩ ⟨hb, hb'⟩
      (fun z hz => List.mem_append.2 (Or.inl hz)) (fun z hz => List.mem_append.2 (Or.inr hz)) he []

/-! ## 6. through the text: `Render`, then `ReadDiffString` -/

section Text
open Jd.V1P (vfree vfreeList vfreeKvs)

/-- members of the two arrays with the same identity have an empty sub-diff, with and without the
    precision -/
theorem members_nil (F : FloatEq0) (L : FloatLaws) {m : V1.Metas} {o : Opts} (M : PMode m o)
    {S : List Json} (HF : V1S.HashFaithful m o S) {xs ys : List Json}
    (ha : Ok (.arr .raw xs)) (hb : Ok (.arr .raw ys))
    (wa : Within S (.arr .raw xs)) (wb : Within S (.arr .raw ys)) :
    ∀ x ∈ xs, ∀ y ∈ ys, V1.identOf m x = V1.identOf m y → ∀ q,
      V1.diffNode m false x y q = [] ∧ V1.diffNode (noPrec m) false x y q = [] := by
  intro x hx y hy e q
  rw [V1S.identOf_eq_hashCode M.keys, V1S.identOf_eq_hashCode M.keys] at e
  have eq := HF x (wa.elem hx).self y (wb.elem hy).self e
  exact ⟨diffNode_nil_of_equivB0 F L M HF x y (ha.elem hx).docOk (hb.elem hy).docOk
      (wa.elem hx) (wb.elem hy) eq q,
    V1S.diffNode_nil_of_equivB F M.mode0 (hashFaithful_noPrec HF) x y (ha.elem hx).docOk
      (hb.elem hy).docOk (wa.elem hx) (wb.elem hy) eq q⟩

theorem shape_nodeE (F : FloatEq0) (L : FloatLaws) {m : V1.Metas} {o : Opts} (M : PMode m o)
    {S : List Json} (HF : V1S.HashFaithful m o S) :
    ∀ a b, Ok a → Ok b → vfree a = true → vfree b = true → b.isVoid = false →
      Within S a → Within S b → V1S.Shape m a b := by
  intro a
  induction a using jsonInd with
  | void =>
    intro b ha hb _ _ hbv _ _
    exact V1S.shape_scalar (fun _ _ e => by cases e) (fun _ e => by cases e) ha.rawDoc hb.rawDoc hbv
  | null =>
    intro b ha hb _ _ hbv _ _
    exact V1S.shape_scalar (fun _ _ e => by cases e) (fun _ e => by cases e) ha.rawDoc hb.rawDoc hbv
  | bool x =>
    intro b ha hb _ _ hbv _ _
    exact V1S.shape_scalar (fun _ _ e => by cases e) (fun _ e => by cases e) ha.rawDoc hb.rawDoc hbv
  | num x =>
    intro b ha hb _ _ hbv _ _
    exact V1S.shape_scalar (fun _ _ e => by cases e) (fun _ e => by cases e) ha.rawDoc hb.rawDoc hbv
  | str x =>
    intro b ha hb _ _ hbv _ _
    exact V1S.shape_scalar (fun _ _ e => by cases e) (fun _ e => by cases e) ha.rawDoc hb.rawDoc hbv
  | arr t xs _ =>
    intro b ha hb va vb hbv wa wb
    have ht := ha.raw
    subst ht
    cases b with
    | arr t' ys =>
      have ht' := hb.raw
      subst ht'
      intro p
      obtain ⟨D, e, g⟩ := V1S.shape_node F M.mode0 (hashFaithful_noPrec HF) _ _ ha hb va vb hbv wa wb p
      exact ⟨D, by rw [← diffNode_arr_noPrec M xs ys p (members_nil F L M HF ha hb wa wb)]; exact e, g⟩
    | _ =>
      apply V1S.shape_single (x := .arr .raw xs) ha.rawDoc hb.rawDoc (by simp [Json.isVoid])
      intro p
      rw [V1S.diffNode_arr_other M.vsm xs _ (fun _ _ e => by cases e) p]
      rfl
  | obj kvs ih =>
    intro b ha hb va vb hbv wa wb
    cases b with
    | obj kvs' =>
      have vkvs : vfreeKvs kvs = true := by simpa [vfree] using va
      have vkvs' : vfreeKvs kvs' = true := by simpa [vfree] using vb
      intro p
      obtain ⟨D1, e1, g1⟩ := V1S.shape_kvs (m := m) kvs' kvs
        (fun k v hm => ⟨(ha.val hm).1.rawDoc, (ha.val hm).2, fun v' hl =>
          ih k v hm v' (ha.val hm).1 (hb.lookup hl).1 (V1S.vfreeKvs_mem vkvs hm).2
            (V1S.vfreeKvs_mem vkvs' (mem_of_alookup hl)).2 (hb.lookup hl).2 (wa.val hm)
            (wb.val (mem_of_alookup hl))⟩) p
      obtain ⟨D2, e2, g2⟩ := V1S.shape_adds kvs kvs'
        (fun k v hm => ⟨(hb.val hm).1.rawDoc, (hb.val hm).2⟩) p
      refine ⟨D1 ++ D2, ?_, ?_⟩
      · rw [V1P.diffNode_obj_obj, e1, e2, List.map_append]
      · intro h hh
        rcases List.mem_append.1 hh with hh | hh
        · exact g1 h hh
        · exact g2 h hh
    | _ =>
      apply V1S.shape_single (x := .obj kvs) ha.rawDoc hb.rawDoc (by simp [Json.isVoid])
      intro p
      rw [V1P.diffNode_obj_other m kvs _ (fun _ e => by cases e) p]
      first
      | (simp [Json.nodeList, Json.isVoid]; done)
      | exact absurd hbv (by simp [Json.isVoid])

/-- **C17, SET / MULTISET readings with a precision, through the text** (`Render`, then
    `ReadDiffString`): the diff read back from its rendered text IS the diff, hence patching `a`
    with it yields a document that `Equals` `b` under the metadata. Relative to the codec contract
    `V1S.CodecOK` on the paths and values of the diff. -/
theorem v1_text_roundtrip_setmodes_precision (F : FloatEq0) (L : FloatLaws) (nc : NumCodec)
    {m : V1.Metas} {o : Opts} (M : PMode m o) (a b : Json)
    (ha : a.setDoc = true) (hb : b.setDoc = true)
    (ha' : DPL.memOK a = true) (hb' : DPL.memOK b = true)
    (va : vfree a = true) (vb : vfree b = true) (hbv : b.isVoid = false)
    (HF : V1S.HashFaithful m o (subterms a ++ subterms b))
    (hc : V1S.CodecOK nc (V1.diffM m a b)) (text : String)
    (hr : V1.renderM nc false (V1.liftDiff (V1.diffM m a b)) = .ok (some text)) :
    V1.readDiffM nc text = .ok (V1.diffM m a b) ∧
    ∃ r, V1.patchM a (V1.diffM m a b) = .ok r ∧ V1.equals m r b = true := by
  refine ⟨?_, v1_diff_patch_setmodes_precision F L M a b ha hb ha' hb' HF⟩
  obtain ⟨D, e, g⟩ := shape_nodeE F L M HF a b ⟨ha, ha'⟩ ⟨hb, hb'⟩ va vb hbv
    (fun z hz => List.mem_append.2 (Or.inl hz)) (fun z hz => List.mem_append.2 (Or.inr hz)) []
  rw [V1S.shift_nil_map] at e
  have hd : V1.diffM m a b = D := by unfold V1.diffM; rw [M.noMerge, e]
  rw [hd] at hc hr ⊢
  exact V1S.v1_read_render_raw nc D text g hc hr

end Text

/-! ## 7. the statements for the metadata as the caller gives them -/

/-- SET reading with a precision: SET present (v1: SET wins over MULTISET whatever the order), no
    setkeys, no MERGE, the precision (first `SetPrecision`, +0 when there is none) a finite
    non-negative float64. Decidable. -/
structure PSetMode (m : V1.Metas) : Prop where
  set : V1.hasSet m = true
  keys : V1.keysOf m = none
  noMerge : V1.hasMerge m = false
  precNN : nonnegBits (V1.precOf m) = true

/-- MULTISET reading with a precision: MULTISET present, SET absent, no setkeys, no MERGE, the
    precision a finite non-negative float64. Decidable. -/
structure PMsetMode (m : V1.Metas) : Prop where
  noSet : V1.hasSet m = false
  mset : V1.hasMset m = true
  keys : V1.keysOf m = none
  noMerge : V1.hasMerge m = false
  precNN : nonnegBits (V1.precOf m) = true

def pSetModeB (m : V1.Metas) : Bool :=
  V1.hasSet m && (V1.keysOf m).isNone && !V1.hasMerge m && nonnegBits (V1.precOf m)

def pMsetModeB (m : V1.Metas) : Bool :=
  !V1.hasSet m && V1.hasMset m && (V1.keysOf m).isNone && !V1.hasMerge m &&
    nonnegBits (V1.precOf m)

theorem pSetMode_iff (m : V1.Metas) : PSetMode m ↔ pSetModeB m = true := by
  simp only [pSetModeB, Bool.and_eq_true, Bool.not_eq_true', Option.isNone_iff_eq_none]
  exact ⟨fun h => ⟨⟨⟨h.set, h.keys⟩, h.noMerge⟩, h.precNN⟩, fun h => ⟨h.1.1.1, h.1.1.2, h.1.2, h.2⟩⟩

theorem pMsetMode_iff (m : V1.Metas) : PMsetMode m ↔ pMsetModeB m = true := by
  simp only [pMsetModeB, Bool.and_eq_true, Bool.not_eq_true', Option.isNone_iff_eq_none]
  exact ⟨fun h => ⟨⟨⟨⟨h.noSet, h.mset⟩, h.keys⟩, h.noMerge⟩, h.precNN⟩,
    fun h => ⟨h.1.1.1.1, h.1.1.1.2, h.1.1.2, h.1.2, h.2⟩⟩

instance (m : V1.Metas) : Decidable (PSetMode m) := decidable_of_iff _ (pSetMode_iff m).symm
instance (m : V1.Metas) : Decidable (PMsetMode m) := decidable_of_iff _ (pMsetMode_iff m).symm

theorem PSetMode.mode {m : V1.Metas} (h : PSetMode m) : PMode m [.set] :=
  ⟨by simp [V1.dispatchTag, h.set, dispatchTag], Or.inl rfl, rfl, h.precNN, h.keys, h.noMerge⟩

theorem PMsetMode.mode {m : V1.Metas} (h : PMsetMode m) : PMode m [.mset] :=
  ⟨by simp [V1.dispatchTag, h.noSet, h.mset, dispatchTag], Or.inr rfl, rfl, h.precNN, h.keys,
    h.noMerge⟩

theorem PSetMode.prec (eps : UInt64) (h : nonnegBits eps = true) : PSetMode [.set, .prec eps] :=
  ⟨rfl, rfl, rfl, h⟩

theorem PMsetMode.prec (eps : UInt64) (h : nonnegBits eps = true) : PMsetMode [.mset, .prec eps] :=
  ⟨rfl, rfl, rfl, rfl, h⟩

/-- precision 0 is the case of V1SetDiffPatch -/
theorem PSetMode.of_setMode {m : V1.Metas} (h : V1S.SetMode m) : PSetMode m :=
  ⟨h.set, h.keys, h.noMerge, by rw [h.prec0]; decide⟩

theorem PMsetMode.of_msetMode {m : V1.Metas} (h : V1S.MsetMode m) : PMsetMode m :=
  ⟨h.noSet, h.mset, h.keys, h.noMerge, by rw [h.prec0]; decide⟩

/-- **C17, SET reading with `SetPrecision(eps)`, in memory.** -/
theorem v1_diff_patch_set_precision (F : FloatEq0) (L : FloatLaws) {m : V1.Metas}
    (hm : PSetMode m) (a b : Json) (ha : a.setDoc = true) (hb : b.setDoc = true)
    (ha' : DPL.memOK a = true) (hb' : DPL.memOK b = true)
    (HF : V1S.HashFaithful m [.set] (subterms a ++ subterms b)) :
    ∃ r, V1.patchM a (V1.diffM m a b) = .ok r ∧ V1.equals m r b = true :=
  v1_diff_patch_setmodes_precision F L hm.mode a b ha hb ha' hb' HF

/-- **C17, MULTISET reading with `SetPrecision(eps)`, in memory.** -/
theorem v1_diff_patch_mset_precision (F : FloatEq0) (L : FloatLaws) {m : V1.Metas}
    (hm : PMsetMode m) (a b : Json) (ha : a.setDoc = true) (hb : b.setDoc = true)
    (ha' : DPL.memOK a = true) (hb' : DPL.memOK b = true)
    (HF : V1S.HashFaithful m [.mset] (subterms a ++ subterms b)) :
    ∃ r, V1.patchM a (V1.diffM m a b) = .ok r ∧ V1.equals m r b = true :=
  v1_diff_patch_setmodes_precision F L hm.mode a b ha hb ha' hb' HF

theorem v1_diff_empty_iff_equals_set_precision (F : FloatEq0) (L : FloatLaws) {m : V1.Metas}
    (hm : PSetMode m) (a b : Json) (ha : a.setDoc = true) (hb : b.setDoc = true)
    (ha' : DPL.memOK a = true) (hb' : DPL.memOK b = true)
    (HF : V1S.HashFaithful m [.set] (subterms a ++ subterms b)) :
    V1.diffM m a b = [] ↔ V1.equals m a b = true :=
  v1_diff_empty_iff_equals_setmodes_precision F L hm.mode a b ha hb ha' hb' HF

theorem v1_diff_empty_iff_equals_mset_precision (F : FloatEq0) (L : FloatLaws) {m : V1.Metas}
    (hm : PMsetMode m) (a b : Json) (ha : a.setDoc = true) (hb : b.setDoc = true)
    (ha' : DPL.memOK a = true) (hb' : DPL.memOK b = true)
    (HF : V1S.HashFaithful m [.mset] (subterms a ++ subterms b)) :
    V1.diffM m a b = [] ↔ V1.equals m a b = true :=
  v1_diff_empty_iff_equals_setmodes_precision F L hm.mode a b ha hb ha' hb' HF

/-! ## 8. witnesses (relative to the float facts they need: `numWithin` is opaque to the kernel)
    and a concrete run -/

namespace Witness

/-- **`precNN` cannot be dropped** (SET, MULTISET or neither; any metadata without MERGE): when
    `|x - x| ≤ eps` is false (negative or NaN `eps`; `SetPrecision` does not validate) the diff of
    `x` and `x` is the hunk `- x + x`, the patch applies (old values are compared WITHOUT metadata)
    and returns `x`, which does not `Equals` `x` under the metadata. -/
theorem precNN_needed (m : V1.Metas) (hm : V1.hasMerge m = false) (x : UInt64)
    (h0 : numWithin 0 x x = true) (hneg : numWithin (V1.precOf m) x x = false) :
    V1.diffM m (.num x) (.num x) = [{ path := [], old := [.num x], new := [.num x] }] ∧
    V1.patchM (.num x) (V1.diffM m (.num x) (.num x)) = .ok (.num x) ∧
    V1.equals m (.num x) (.num x) = false := by
  have hd : V1.diffM m (.num x) (.num x) =
      [{ path := [], old := [.num x], new := [.num x] }] := by
    simp only [V1.diffM, hm]
    rw [V1P.diffNode_scalar _ _ _ (fun _ _ h => by cases h) (fun _ h => by cases h)]
    simp [V1.diffCommon, V1.equals, hneg, Json.nodeList, Json.isVoid]
  refine ⟨hd, ?_, by simpa [V1.equals] using hneg⟩
  rw [hd]
  exact V1P.patch_root (.num x) [.num x] [.num x] rfl (by simp) (by simp)
    (by simpa [V1.equals, V1.precOf, Json.singleValue] using h0)

/-- **the result is not structurally equal to `b`** (any metadata without MERGE): `{"k":x}` against
    `{"k":y}` with `|x - y| ≤ eps` but `x ≠ y`: the diff is EMPTY, the patch returns `a`, which
    `Equals` `b` with the metadata but not without the precision, and is not `specEq` to it. So
    "equal to b" in C17 can only be read as `Equals(b, metadata...)`. -/
theorem result_not_structural (m : V1.Metas) (hm : V1.hasMerge m = false) (x y : UInt64)
    (h1 : numWithin (V1.precOf m) x y = true) (h0 : numWithin 0 x y = false) :
    V1.diffM m (.obj [("k", .num x)]) (.obj [("k", .num y)]) = [] ∧
    V1.patchM (.obj [("k", .num x)]) (V1.diffM m (.obj [("k", .num x)]) (.obj [("k", .num y)])) =
      .ok (.obj [("k", .num x)]) ∧
    V1.equals m (.obj [("k", .num x)]) (.obj [("k", .num y)]) = true ∧
    V1.equals (noPrec m) (.obj [("k", .num x)]) (.obj [("k", .num y)]) = false ∧
    specEq (.obj [("k", .num x)]) (.obj [("k", .num y)]) = false := by
  have hd : V1.diffM m (.obj [("k", .num x)]) (.obj [("k", .num y)]) = [] := by
    simp only [V1.diffM, hm]
    rw [V1P.diffNode_obj_obj, V1P.diffKvs_cons, V1P.diffKvs_nil]
    simp only [alookup, if_true]
    rw [V1P.diffNode_scalar _ _ _ (fun _ _ h => by cases h) (fun _ h => by cases h)]
    simp [V1.diffCommon, V1.equals, h1]
  refine ⟨hd, ?_, ?_, ?_, ?_⟩
  · rw [hd]; rfl
  · simp [V1.equals, V1.equalsKvs, alookup, h1]
  · simp [V1.equals, V1.equalsKvs, alookup, precOf_noPrec, h0]
  · simp [specEq, equivB, equivKvs, alookup, precOf, h0]

/-- **inside an array read as a set or a multiset the precision is IGNORED** (members are compared
    by hash code, and `jsonNumber.hashCode` hashes the bits): `[1]` and `[1.05]` under
    `SET, SetPrecision(0.1)` (or `MULTISET, …`) are NOT `Equals` — kernel computation, no float
    fact — although `1` and `1.05` are (`numWithin 0.1 1 1.05`), and although the list reading
    with the same precision finds the arrays equal. -/
theorem precision_ignored_inside_sets :
    V1.equals [.set, .prec 0x3FB999999999999A] (.arr .raw [.num 0x3FF0000000000000])
      (.arr .raw [.num 0x3FF0CCCCCCCCCCCD]) = false ∧
    V1.equals [.mset, .prec 0x3FB999999999999A] (.arr .raw [.num 0x3FF0000000000000])
      (.arr .raw [.num 0x3FF0CCCCCCCCCCCD]) = false ∧
    (numWithin 0x3FB999999999999A 0x3FF0000000000000 0x3FF0CCCCCCCCCCCD = true →
      V1.equals [.prec 0x3FB999999999999A] (.arr .raw [.num 0x3FF0000000000000])
        (.arr .raw [.num 0x3FF0CCCCCCCCCCCD]) = true ∧
      equivB [.set, .prec 0x3FB999999999999A] (.arr .raw [.num 0x3FF0000000000000])
        (.arr .raw [.num 0x3FF0CCCCCCCCCCCD]) = true) := by
  refine ⟨by decide +kernel, by decide +kernel, fun h => ⟨?_, ?_⟩⟩
  · simp [V1.equals, V1.effTag, V1.dispatchTag, V1.hasSet, V1.hasMset, V1.dispatch,
      V1.equalsList, V1.precOf, h]
  · simp [equivB, dispatchTag, allIn, allCovered, anyEquiv, precOf, h]

end Witness

namespace Example

/-- `0.1` -/
def eps : UInt64 := 0x3FB999999999999A
def one : Json := .num 0x3FF0000000000000
def x105 : Json := .num 0x3FF0CCCCCCCCCCCD
def two : Json := .num 0x4000000000000000
def x205 : Json := .num 0x4000666666666666
def three : Json := .num 0x4008000000000000

/-- `{"k":1,"s":[1,2,{"x":1}],"u":{"v":2}}` -/
def pA : Json := .obj [("k", one), ("s", .arr .raw [one, two, .obj [("x", one)]]),
  ("u", .obj [("v", two)])]
/-- `{"k":1.05,"s":[2,1.05,{"x":1.05}],"t":3,"u":{"v":2.05}}` -/
def pB : Json := .obj [("k", x105), ("s", .arr .raw [two, x105, .obj [("x", x105)]]),
  ("t", three), ("u", .obj [("v", x205)])]

theorem p_docs : pA.setDoc = true ∧ pB.setDoc = true ∧ DPL.memOK pA = true ∧
    DPL.memOK pB = true ∧ V1P.vfree pA = true ∧ V1P.vfree pB = true ∧ pB.isVoid = false := by
  decide

theorem eps_set : PSetMode [.set, .prec eps] := PSetMode.prec eps (by decide)
theorem eps_mset : PMsetMode [.mset, .prec eps] := PMsetMode.prec eps (by decide)
/-- the order of the metadata does not matter, and SET wins over MULTISET -/
example : PSetMode [.prec eps, .mset, .set] := by decide
/-- a negative precision is outside the domain -/
example : ¬ PSetMode [.set, .prec 0xBFF0000000000000] := by decide

theorem p_hashFaithful_set (L : FloatLaws) :
    V1S.HashFaithful [.set, .prec eps] [.set] (subterms pA ++ subterms pB) := by
  have r1 : numWithin 0 0x3FF0000000000000 0x3FF0000000000000 = true :=
    L.refl 0 _ (by decide) (by decide)
  have r2 : numWithin 0 0x3FF0CCCCCCCCCCCD 0x3FF0CCCCCCCCCCCD = true :=
    L.refl 0 _ (by decide) (by decide)
  have r3 : numWithin 0 0x4000000000000000 0x4000000000000000 = true :=
    L.refl 0 _ (by decide) (by decide)
  have r4 : numWithin 0 0x4000666666666666 0x4000666666666666 = true :=
    L.refl 0 _ (by decide) (by decide)
  have r5 : numWithin 0 0x4008000000000000 0x4008000000000000 = true :=
    L.refl 0 _ (by decide) (by decide)
  intro x hx y hy
  simp only [pA, pB, one, two, three, x105, x205, subterms, subtermsList, subtermsKvs,
    List.cons_append, List.nil_append, List.append_nil, List.mem_cons, List.not_mem_nil,
    or_false] at hx hy
  rcases hx with rfl | rfl | rfl | rfl | rfl | rfl | rfl | rfl | rfl | rfl | rfl | rfl | rfl |
    rfl | rfl | rfl | rfl | rfl | rfl | rfl <;>
  rcases hy with rfl | rfl | rfl | rfl | rfl | rfl | rfl | rfl | rfl | rfl | rfl | rfl | rfl |
    rfl | rfl | rfl | rfl | rfl | rfl | rfl <;>
  first
  | (intro _; simp [equivB, dispatchTag, precOf, allIn, allCovered, anyEquiv, equivKvs, alookup,
      r1, r2, r3, r4, r5]; done)
  | (intro e; exact absurd e (by decide +kernel))

/-- the SET theorem with `SetPrecision(0.1)` describes an actual run: the model and the Go library
    both produce `@ ["s",["set"],{}] - 1 - {"x":1} + 1.05 + {"x":1.05}`, `@ ["t"] + 3` and the
    result `{"k":1,"s":[1.05,2,{"x":1.05}],"t":3,"u":{"v":2}}` (`"k"` and `"u"."v"` keep the numbers
    of `a`, within 0.1 of `b`'s; inside the set the precision plays no part) -/
theorem p_set (F : FloatEq0) (L : FloatLaws) :
    ∃ r, V1.patchM pA (V1.diffM [.set, .prec eps] pA pB) = .ok r ∧
      V1.equals [.set, .prec eps] r pB = true :=
  v1_diff_patch_set_precision F L eps_set pA pB p_docs.1 p_docs.2.1 p_docs.2.2.1 p_docs.2.2.2.1
    (p_hashFaithful_set L)

example (F : FloatEq0) (L : FloatLaws) :
    V1.diffM [.set, .prec eps] pA pB = [] ↔ V1.equals [.set, .prec eps] pA pB = true :=
  v1_diff_empty_iff_equals_set_precision F L eps_set pA pB p_docs.1 p_docs.2.1 p_docs.2.2.1
    p_docs.2.2.2.1 (p_hashFaithful_set L)

theorem p_hashFaithful_mset (L : FloatLaws) :
    V1S.HashFaithful [.mset, .prec eps] [.mset] (subterms pA ++ subterms pB) := by
  have r1 : numWithin 0 0x3FF0000000000000 0x3FF0000000000000 = true :=
    L.refl 0 _ (by decide) (by decide)
  have r2 : numWithin 0 0x3FF0CCCCCCCCCCCD 0x3FF0CCCCCCCCCCCD = true :=
    L.refl 0 _ (by decide) (by decide)
  have r3 : numWithin 0 0x4000000000000000 0x4000000000000000 = true :=
    L.refl 0 _ (by decide) (by decide)
  have r4 : numWithin 0 0x4000666666666666 0x4000666666666666 = true :=
    L.refl 0 _ (by decide) (by decide)
  have r5 : numWithin 0 0x4008000000000000 0x4008000000000000 = true :=
    L.refl 0 _ (by decide) (by decide)
  intro x hx y hy
  simp only [pA, pB, one, two, three, x105, x205, subterms, subtermsList, subtermsKvs,
    List.cons_append, List.nil_append, List.append_nil, List.mem_cons, List.not_mem_nil,
    or_false] at hx hy
  rcases hx with rfl | rfl | rfl | rfl | rfl | rfl | rfl | rfl | rfl | rfl | rfl | rfl | rfl |
    rfl | rfl | rfl | rfl | rfl | rfl | rfl <;>
  rcases hy with rfl | rfl | rfl | rfl | rfl | rfl | rfl | rfl | rfl | rfl | rfl | rfl | rfl |
    rfl | rfl | rfl | rfl | rfl | rfl | rfl <;>
  first
  | (intro _; simp [equivB, dispatchTag, precOf, bagSub, removeFirst, equivKvs, alookup,
      r1, r2, r3, r4, r5]; done)
  | (intro e; exact absurd e (by decide +kernel))


theorem p_mset (F : FloatEq0) (L : FloatLaws) :
    ∃ r, V1.patchM pA (V1.diffM [.mset, .prec eps] pA pB) = .ok r ∧
      V1.equals [.mset, .prec eps] r pB = true :=
  v1_diff_patch_mset_precision F L eps_mset pA pB p_docs.1 p_docs.2.1 p_docs.2.2.1 p_docs.2.2.2.1
    (p_hashFaithful_mset L)

end Example

end Jd.V1PS
