/-
  JdProofs.PatchNeverMorePermissive (namespace `Jd.NMP`) — property C10 (v2 library):
  "whenever jd reads a JSON Patch and applies it to a document successfully, an independent RFC 6902
  evaluation of the same patch on the same document succeeds with the same result; jd may be
  stricter but never more permissive or different. Reading jd's own JSON Patch output and applying
  it to a reproduces b."

  Library side (model): `readPatchOps` / `readPatchDoc` (= `ReadPatchString` AFTER the fix "check
  that JSON Patch context tests are adjacent to the edit": the element loop `readPatchLoop` /
  `readPatchHunk` / `setPatchCtx`, then `checkPatchCtx` on every element with the context operations
  `ctxOf` remembered by `readPatchCtxLoop`), `readPointer`, `writePointerPath`, `patchM`.
  Spec side: `Jd.Spec.eval` (JdSpec/Rfc6902.lean) on the same operations (`PatchOp.toSpec`),
  `Jd.Spec.parsePointer` (RFC 6901). Results are compared up to the Go dynamic type of array nodes
  (`untag`).

  ═══ RESULT IN ONE LINE ═══
  The claim is PROVED for EVERY operation list the reader accepts (hypotheses: real values, index
  tokens and written indices below 2^53, two IEEE laws) — since the repair of D30 WITHOUT any
  hypothesis on the spelling of the pointer texts (`readPatchOps_never_more_permissive_all_pointers`,
  section 9b; the former hypothesis `canonPtr` survives only in corollaries under the former names).
  The former findings F1–F3b (the element loop took tests for context looking only at the last
  index of their pointers, D28) and the former OBSERVATIONS about token spelling (`01`, `+1`, `-1` read
  as array indices, `~2` kept as text: jd applied patches RFC 6902 rejects, D30) were genuine defects
  of the Go code, HAVE BEEN FIXED (v2/diff_read.go, v2/pointer.go), and are kept as regression
  theorems `fixed_…`.

  ═══ MAIN THEOREMS ═══
  T0 `readPatchOps_never_more_permissive_all_pointers` (section 9b; FloatLaws, FloatEq0; ANY list `ops`):
        as T1 below with `idxTokensOK o.path` (Bool: every token that is an RFC 6901 array index is
        below 2^53) INSTEAD OF `canonPtr o.path`. Proved from `readPatchOps_never_more_permissive_r`
        (hypothesis `ptrOKr`: if `readPointer` accepts the text then writing the path read token by
        token — `wpL`, a pointer writer that does not refuse number-like member names — gives the
        text back) and `ptrOKr_of_idxTokens` (the repaired reader is injective). Variants: `_min`,
        `readPatchDoc_…_all_pointers`, `checkedPatchAll_never_more_permissive`,
        `readPatchOps_faithful_all_pointers`. `rerender` (section 1) now writes pointers with `wpL`;
        on paths `writePointer` accepts the two writers agree (`wpL_eq_write`, `wpL_of_write`).
  T1 `readPatchOps_never_more_permissive` (FloatLaws, FloatEq0; ANY list `ops`; COROLLARY of T0's proof):
        t.wf, t.listDoc, every op value `valueOK`, every op pointer `canonPtr`,
        `readPatchOps ops = .ok d`, `∀ h ∈ d, HunkRange h`, `patchM t d = .ok r`
        ⟹ `∃ r', eval t (ops.map toSpec) = some r' ∧ untag r' = untag r`.
     `readPatchOps_never_more_permissive_rfc6901`: the same with the pointer hypothesis stated with
        the independent RFC 6901 parser (`canonicalPointer`: `parsePointer` accepts the text and every
        token `strconv.Atoi` accepts is the decimal text of an index in [0, 2^53)) and the range
        hypothesis in minimal form (`i + |Remove| < 2^53` for every element read).
     `readPatchDoc_never_more_permissive`: T1 from the entry point, value hypotheses on the parsed
        document (`doc.wf`, `doc.listDoc`, `Yaml.voidFree doc`).
     `checkedPatch_never_more_permissive`: T1 with ONE executable predicate on the operations
        (`checkedPatch ops : Bool`), and `grammar_checkedPatch`: the grammar `Gwf` is inside it.
  T1a `readPatchOps_faithful` (FloatEq0): what the reader accepts is a fixed point of read-then-write:
        `readPatchOps ops = .ok d`, values not void, pointers `canonPtr`, no element at the append
        index removes ⟹ `Faithful d ops` (re-rendering `d` gives `ops` back up to the ignored value
        member of `remove`). This replaces the former HYPOTHESIS `Faithful` by what the reader checks.
  T2 `readPatchOps_rerender` (FloatLaws, FloatEq0) PARSE-BACK with the reader after the fix: for every
        diff `d0` of the grammar `Gwf` (jd's own layout: per hunk an optional `test` of the element
        before the edit position, an optional `test` of the element after the removed run, the
        `test`/`remove` pairs, the `add`s in reverse; or a run of `add`s at `-`; any values; any
        indices in [0, 2^53)), `readPatchOps (rerender d0) = .ok (d0.map normG)`: jd's own layout
        PASSES the new context check.
     `readPatchOps_render`, `readPatchOps_render_patch`: the same for the library renderer
        `renderPatchOps` on the domain `PB.PBwf` of JdProofs.PatchParseBack (whose statements are about
        `readPatchLoop`): `readPatchOps ops = .ok (normPB d)`, and if `d` turns `a` into `b` then
        what `ReadPatchString` reads from `RenderPatch(d)`, applied to `a` by `Patch`, gives `b`.
     `grammar_never_more_permissive`: on the grammar the reader ACCEPTS and RFC 6902 agrees.
  Kept from the previous version (statements about the element loop alone, still true):
     `read_patch_never_more_permissive` (hypothesis `Faithful d ops`, any fuel),
     `faithfulPatch_never_more_permissive`, `grammar_never_more_permissive_partial`,
     `readPatch_rerender`, `grammar_faithfulPatch`, `readPatchOps_never_more_permissive_of_faithful`,
     `readPatchDoc_never_more_permissive_of_faithful`.

  ═══ REGRESSIONS (former findings, fixed; Go code at head dca0b4d replayed: same behaviour) ═══
    `fixed_context_of_another_array`   F1  `test /a/0 "x"; add /b/1 "y"`: `readPatchOps … = .err`
        (the parent of the context test is not the parent of the edit).
    `fixed_non_test_taken_as_context`  F2  `test /1 "b"; remove /3; add /2 "x"`: `.err` (the operation
        consumed as after-context is not a `test`).
    `fixed_context_indices_unchecked`  F3  `test /0 "a"; test /5 "b"; add /3 "x"`: `.err` (the tests
        are not at 3 − 1 and 3 + 0).
    `fixed_after_context_vs_coalesced_removals` F3b (FloatLaws, reading coalesces): `.err` — the check
        runs once the elements are complete, with the removals coalesced later (1 + 2 = 3 ≠ 2).
    `fixed_unrestricted_goal_witness`  the witness that refuted the unrestricted goal is no longer read.
    `loop_alone_…` (five theorems): the OLD statements, kept as documentation of what the element
        loop alone (`readPatchLoop` + `patchM` + `eval`) would do with the same witnesses.
  ═══ REGRESSIONS of D30 (former observations about JSON Pointer token SYNTAX; fixed in v2/pointer.go) ═══
    `fixed_noncanonical_index_tokens`  the tokens `01` and `-1` (formerly: index 1 / "append", applied
        to `["a","b"]` where RFC 6902 rejects) are member names: `Patch` fails on the array as the RFC
        does; on `{}` jd and the RFC both add the member. `fixed_index_token_reading`: the reader on
        `01`, `-1`, `+1`, `-0`, `-`, `0`, `1`.
    `fixed_invalid_escape_rejected`    `readPointer` rejects `/~2` and `/a~` (`checkPointerEscapes`).
    `before_repair_readings_applied`   the diffs the OLD reader built apply where the RFC fails.
    `fixed_pointers_not_canonical`, `fixed_canonical_pointers_witness`: the pointers are still outside
        `canonPtr`, but the witness that showed `canonPtr` necessary is no longer one — and the
        hypothesis is gone (T0).

  ═══ THE READER, ONE ELEMENT ═══
  `readPatchHunk_shape`: whenever `readPatchDiffElement` succeeds (values not void), `patch = g ++
  rest` and `Shape g e (ctxOf patch)`, an inductive relation with NINE constructors listing the
  operations consumed, the element built and the operations remembered as context: `add`; `remKey` /
  `remIdx` (test+remove, context none / boundary markers); `afterAdd`, `beforeAdd` (one context test
  + add); `bothAdd`, `bothRem` (two context operations + edit); `afterRem`, `beforeRem` (one context
  test + test+remove). (`setPatchCtx_case`, `finishHunk_case`, `ctxOf_of_test` are the parts.)

  ═══ DEFINITIONS ═══
    `rerender d`      what jd writes for `d` (`renderPatchHunk` of the model), except that an append
                      hunk lists its values in application order (the library renderer reverses
                      them, `cex_append_reversed` of JdProofs.PatchRender; the reader keeps order).
    `OpSim a b`       same op, same path, same value unless the op is `remove` (RFC ignores it).
    `Faithful d ops`  `∃ ops', rerender d = .ok ops' ∧ Forall₂ OpSim ops' ops`.
    `canonPtr s`      Bool: `readPointer s = .ok p`, `p` consists of keys and indices in [−1, 2^53)
                      (`pathOK'`), and `writePointerPath p = .ok s`: the text is what jd writes.
    `canonicalPointer s`, `canonTok`  Bool, the same in RFC 6901 terms (see T1);
                      `canonPtr_of_canonicalPointer` (via `toList_of_parsePointer`: RFC 6901 parsing
                      is injective, `escChars_of_decode`).
    `Seg s h c`, `Segs pre acc cs`   the operations `s` consumed for the element `h` with remembered
                      context `c`: context operations, `test`/`remove` pairs, `add`s, all at the
                      pointer jd writes for `h.path`; the loop invariant of the two loops in step.
    `checkedPatch`, `faithfulPatch`, `jsonEqB`, `opSimB`, `sameOpsB`, `hunkRangeB`: executable
                      predicates + soundness.
    `Gwf`, `GH`, `appendH`, `sepG`, `chainG`, `normG`: the grammar (extends `PB.PBwf` by appends).

  ═══ HYPOTHESES and why ═══
    `FloatLaws` (symm/refl of IEEE |x-y| ≤ eps, opaque to the kernel): a context `test` compares
       document and patch value in the other order than jd's patch; parse-back compares paths and
       test/remove values with `Equals` when reading.
    `FloatEq0` (JdProofs.Common: |x-y| ≤ +0 only for x == y): the reader coalesces two elements when
       their paths compare `Equals`, and `checkPatchCtx` compares the parents of the context pointers
       the same way; index elements are compared as float64. Without the law nothing excludes that
       `/1` and `/2` are coalesced. Used only to turn the reader's comparison into equality of paths
       whose indices are below 2^53 (`pathEq_eq`).
    `t.wf` (unique sorted keys = Go map) and `t.listDoc` (no set/multiset typed nodes): domain of
       C03 (`applyStrict` = library Patch) and of the RFC simulation (`remove k; add k`).
    `valueOK o.value` (Bool): not the void marker, well-formed, list-mode — what `json.Unmarshal`
       produces (`patchOpsOfJson_values` derives it from the parsed document).
    `canonPtr o.path` / `canonicalPointer o.path` (Bool, on the TOKENS of the input): necessary, see
       the observations. For jd's own output it holds (`canonPtr_of_write`, `gdiff_opOK`).
    `HunkRange` / `hunkRangeB`: indices written are below 2^53 (they travel through a float64); for
       accepted canonical patches it reduces to `i + |Remove| < 2^53` (`hunkRange_of_pathOK'`,
       `readPatchOps_pathOK`).
    An element at the append index (`-`) that removes, or an `add` at `-` after context tests, is not
    a hypothesis: the reader accepts or rejects them as the Go code does, and where it accepts,
    jd's `Patch` never applies them (`applyStrict_append_remove`), so T1 holds for them too.
  No hypothesis excludes a counterexample silently: the witnesses are stated as theorems.

  ═══ PROOF ═══ (reused: StrictPatch `strictAll_result`; PatchRender `renderPatchHunk_correct`, `nav`,
    `repL_map_add`, `eval_of_rep`, `applyStrict_wf`, `renderPatchHunk_ok`, `ctxOps_ok`,
    `writePointerPath_ok`, `splitOn_slash`; PatchParseBack `hunk_loop`, `readPointer_write` machinery;
    Common `FloatEq0`.)
    Old part: (a) every hunk the reader builds has a key/index path and carries op values
    (`readPatchLoop_props`); (b) library Patch = `applyStrictAll` on such hunks; (c) `rerender_sim`:
    hunk by hunk the re-rendered operations simulate `applyStrict` under `eval`; (d) `eval` cannot
    tell `OpSim` operations apart. Hence T1 under `Faithful`.
    New part: (e) `loops_segs`: the two runs of the element loop keep, for every element, the
    segment of operations consumed for it (`seg_of_shape` for the nine shapes, `segP_merge_add` /
    `segP_merge_rem` for coalescing, where `pathEq_eq` and `canonPtr` make the pointer texts equal);
    (f) `ctxTestOK_true`: a context operation that passes the check IS the test jd writes for that
    line (`seg_rerender`), so `faithful_of_segs` gives `Faithful`; (g) elements at the append index
    that remove never apply. Parse-back: (h) `check_of_segs`: when the operations ARE what jd writes
    for the diff read, the segments align with the rendered hunks (`seg_length`) and every context
    operation is the written test, which passes the check (`ctxTestOK_of_written`).
  Non-vacuity: `example`s in section 10 (replacement with both context lines, through T1, T1-rfc6901,
  T2 and the `PBwf` corollaries; object member with a differently tagged `remove` value, outside the
  grammar; two values appended to a member array).
-/
import JdProofs.PatchParseBack
import JdProofs.Common

namespace Jd.NMP
open Jd Jd.Spec Jd.PB

/-! ## 0. a pointer writer that does not refuse member names

`writePointer` refuses a member name that `strconv.Atoi` accepts (and the name `-`): such a name cannot
be told from an index by the OLD reader. Since the repair D30 `readPointer` reads the tokens `01`, `+1`,
`-1`, `-0`, … as member names, so the reader produces paths `writePointer` refuses. `wpL` is
`writePointerPath` without that refusal: the text of the path, token by token. -/

def wtokL : PathElem → Option String
  | .key k => some (ptrEscape k)
  | .idx i => wtok (.idx i)
  | _ => none

def wpL : Path → Outcome String
  | [] => .ok ""
  | e :: p =>
    match wtokL e with
    | some t => (match wpL p with | .ok rest => .ok ("/" ++ t ++ rest) | e' => e')
    | none => .err

theorem wtokL_of_wtok {e : PathElem} {t : String} (h : wtok e = some t) : wtokL e = some t := by
  cases e with
  | key k =>
    simp only [wtok] at h
    split at h
    · cases h
    · split at h
      · cases h
      · exact h
  | idx i => exact h
  | _ => simp [wtok] at h

/-- what `writePointerPath` writes, `wpL` writes -/
theorem wpL_of_write : ∀ {p : Path} {s : String}, writePointerPath p = .ok s → wpL p = .ok s
  | [], s, h => by rw [writePointerPath_nil] at h; exact h
  | e :: p, s, h => by
    rw [writePointerPath_cons] at h
    cases ht : wtok e with
    | none => rw [ht] at h; cases h
    | some t =>
      rw [ht] at h
      cases hp : writePointerPath p with
      | err => rw [hp] at h; cases h
      | panic => rw [hp] at h; cases h
      | ok rest =>
        rw [hp] at h
        simp only [wpL, wtokL_of_wtok ht, wpL_of_write hp]
        exact h

theorem wtokL_some {e : PathElem} {t : String} (h : wtokL e = some t)
    (hr : ∀ i, e = .idx i → IdxRT i) : t.toList = escChars (elemTok e).toList := by
  cases e with
  | key k =>
    simp only [wtokL] at h
    injection h with h; subst h
    exact ptrEscape_toList k
  | idx i => exact (wtok_some (e := .idx i) h hr).2
  | _ => simp [wtokL] at h

theorem wpL_ok : ∀ {p : Path} {s : String}, wpL p = .ok s → idxRange p →
    s.toList = (ptoks p).flatMap (fun t => '/' :: escChars t.toList)
  | [], s, h, _ => by
    simp only [wpL] at h; injection h with h; subst h; rfl
  | e :: p, s, h, hr => by
    simp only [wpL] at h
    cases ht : wtokL e with
    | none => rw [ht] at h; cases h
    | some t =>
      rw [ht] at h
      cases hp : wpL p with
      | err => rw [hp] at h; cases h
      | panic => rw [hp] at h; cases h
      | ok rest =>
        rw [hp] at h
        injection h with h; subst h
        have h2 := wtokL_some ht (fun i hi => hr i (by rw [hi]; exact List.mem_cons_self))
        have h4 := wpL_ok hp (fun i hi => hr i (List.mem_cons_of_mem _ hi))
        simp [ptoks, h2, h4]

/-- the member names of the path are names `writePointer` does not refuse -/
def keysOK (q : Path) : Prop := ∀ k, PathElem.key k ∈ q → atoi? k = none ∧ k ≠ "-"

/-- on such paths the two writers agree -/
theorem wpL_eq_write : ∀ {q : Path}, keysOK q → wpL q = writePointerPath q
  | [], _ => rfl
  | e :: q, h => by
    rw [writePointerPath_cons]
    simp only [wpL]
    rw [wpL_eq_write (q := q) (fun k hk => h k (List.mem_cons_of_mem _ hk))]
    have : wtokL e = wtok e := by
      cases e with
      | key k =>
        obtain ⟨h1, h2⟩ := h k List.mem_cons_self
        have h2' : (k == "-") = false := by simpa using h2
        simp [wtokL, wtok, h1, h2']
      | idx i => rfl
      | _ => rfl
    rw [this]
    cases wtok e with
    | none => rfl
    | some t => cases writePointerPath q <;> rfl

theorem keysOK_setLastIdx {p : Path} (h : keysOK p) (j : Int) : keysOK (setLastIdx p j) := by
  intro k hk
  simp only [setLastIdx, List.mem_append, List.mem_singleton] at hk
  rcases hk with hk | hk
  · exact h k (List.dropLast_subset _ hk)
  · cases hk

theorem renderPatchHunkW_wpL {h : Hunk} (hk : keysOK h.path) :
    renderPatchHunkW wpL h = renderPatchHunk h := by
  rw [renderPatchHunk_eq_W]
  have h1 : ∀ j, wpL (setLastIdx h.path j) = writePointerPath (setLastIdx h.path j) :=
    fun j => wpL_eq_write (keysOK_setLastIdx hk j)
  unfold renderPatchHunkW ctxOpsW
  simp only [wpL_eq_write hk, h1]

theorem ptrOKW_wpL {p : Path} (hr : idxRange p) : PtrOKW wpL p := by
  intro s hs
  exact parsePointer_of_toList (wpL_ok hs hr)

theorem hunkPtrOKW_of_range {h : Hunk} (hr : HunkRange h) : HunkPtrOKW wpL h where
  ptr := ptrOKW_wpL (fun i hi => idxRT_of_bound (hr.path i hi))
  ptrBefore := fun i hi => ptrOKW_wpL (idxRange_setLastIdx hr.path (hr.ctx i hi).1)
  ptrAfter := fun i hi => ptrOKW_wpL (idxRange_setLastIdx hr.path (hr.ctx i hi).2)

/-! ## 1. what jd itself would write for a diff it has read -/

/-- the operations of one hunk, as `Diff.RenderPatch` writes them, except that a hunk appending to
    an array (index −1, pointer token `-`) lists its added values in application order (the
    library's renderer reverses them, finding `cex_append_reversed` of JdProofs.PatchRender, while the
    reader keeps consecutive `-` additions in order) -/
def rerenderHunk (h : Hunk) : Outcome (List PatchOp) :=
  if lastIdx? h.path == some (-1) then
    (match wpL h.path with
     | .ok s => .ok (h.add.map (adp s))
     | .err => .err
     | .panic => .panic)
  else renderPatchHunkW wpL h

def rerender : Diff → Outcome (List PatchOp)
  | [] => .ok []
  | h :: d =>
    match rerenderHunk h, rerender d with
    | .ok a, .ok b => .ok (a ++ b)
    | _, _ => .err

/-- two operations that RFC 6902 cannot tell apart: same `op`, same `path`, same `value` except on a
    `remove` (whose value member RFC 6902 ignores) -/
def OpSim (a b : PatchOp) : Prop :=
  a.op = b.op ∧ a.path = b.path ∧ (a.op ≠ "remove" → a.value = b.value)

theorem OpSim.refl (a : PatchOp) : OpSim a a := ⟨rfl, rfl, fun _ => rfl⟩

theorem forall₂_opSim_refl : ∀ l : List PatchOp, List.Forall₂ OpSim l l
  | [] => .nil
  | a :: l => .cons (OpSim.refl a) (forall₂_opSim_refl l)

theorem evalOp_opSim {a b : PatchOp} (h : OpSim a b) (n : Json) :
    evalOp n a.toSpec = evalOp n b.toSpec := by
  obtain ⟨h1, h2, h3⟩ := h
  by_cases hr : a.op = "remove"
  · have hb : b.op = "remove" := h1 ▸ hr
    unfold evalOp
    simp only [PatchOp.toSpec, hr, hb, h2]
    cases parsePointer b.path <;> simp
  · have : a.toSpec = b.toSpec := by
      simp only [PatchOp.toSpec, h1, h2, h3 hr]
    rw [this]

theorem eval_opSim {l l' : List PatchOp} (h : List.Forall₂ OpSim l l') (n : Json) :
    eval n (l.map PatchOp.toSpec) = eval n (l'.map PatchOp.toSpec) := by
  induction h generalizing n with
  | nil => rfl
  | cons hab _ ih =>
    simp only [List.map_cons, eval, evalOp_opSim hab]
    cases evalOp n _ with
    | none => rfl
    | some n' => simpa using ih n'

/-! ## 2. one hunk appending to an array -/

theorem append_run : ∀ (bs xs : List Json) (tg : Tag),
    ∃ tg', evalTs (.arr tg xs) (bs.map (fun e => TOp.add ["-"] e)) = some (.arr tg' (xs ++ bs))
  | [], xs, tg => ⟨tg, by simp [evalTs]⟩
  | e :: bs, xs, tg => by
    obtain ⟨tg', ih⟩ := append_run bs (xs ++ [e]) .raw
    refine ⟨tg', ?_⟩
    simp [evalTs, evalT, addP, ih]

/-- list hunk at index −1: every added value is appended, in order; nothing can be removed and no
    context is looked at -/
theorem idx_leaf_append_all {n r : Json} {h : Hunk}
    (e : applyStrict n [.idx (-1)] h = some r) :
    ∃ r', evalTs n (h.add.map (fun e => TOp.add ["-"] e)) = some r' ∧ untag r' = untag r := by
  rw [applyStrict_idx_nil] at e
  cases n with
  | arr tg xs =>
    simp only [Option.map_eq_some_iff] at e
    obtain ⟨l', e, rfl⟩ := e
    unfold splice at e
    simp only [show ((-1 : Int) == -1) = true from rfl, if_true] at e
    split at e
    · injection e with e; subst e
      obtain ⟨tg', h1⟩ := append_run h.add xs tg
      exact ⟨_, h1, by simp [untag]⟩
    · cases e
  | _ => simp at e


/-! ## 3. one hunk, then a diff: the re-rendered operations simulate the hunks -/

/-- side conditions on the values a hunk carries (`HunkOK` of JdProofs.PatchRender without its
    restriction on append hunks) -/
structure HunkVals (h : Hunk) : Prop where
  remNoVoid : noVoid h.remove
  addNoVoid : noVoid h.add
  wfBefore : wfList h.before = true
  wfAfter : wfList h.after = true
  wfAdd : wfList h.add = true

theorem lastIdx_snoc {p : Path} {i : Int} (h : lastIdx? p = some i) : ∃ pp, p = pp ++ [.idx i] := by
  rcases eq_nil_or_snoc p with rfl | ⟨pp, last, rfl⟩
  · simp [lastIdx?] at h
  · refine ⟨pp, ?_⟩
    cases last <;> simp [lastIdx?] at h
    subst h; rfl

theorem rerenderHunk_sim (L : FloatLaws) {c r : Json} {h : Hunk} {ops : List PatchOp}
    (hw : c.wf = true) (hv : HunkVals h) (hr : HunkRange h)
    (e : applyStrict c h.path h = some r) (er : rerenderHunk h = .ok ops) :
    ∃ r', eval c (ops.map PatchOp.toSpec) = some r' ∧ untag r' = untag r := by
  unfold rerenderHunk at er
  split at er
  · rename_i hl
    have hl : lastIdx? h.path = some (-1) := by simpa using hl
    obtain ⟨pp, hpath⟩ := lastIdx_snoc hl
    cases hs : wpL h.path with
    | err => rw [hs] at er; cases er
    | panic => rw [hs] at er; cases er
    | ok s =>
      rw [hs] at er
      injection er with er
      subst er
      have hp : parsePointer s = some (ptoks pp ++ ["-"]) := by
        have := ptrOKW_wpL (fun i hi => idxRT_of_bound (hr.path i hi)) s hs
        rw [hpath, ptoks_concat] at this
        exact this
      rw [hpath] at e
      have hne : ∀ o ∈ h.add.map (fun e => TOp.add ["-"] e), o.path ≠ [] := by
        intro o ho
        obtain ⟨_, _, rfl⟩ := List.mem_map.1 ho
        simp [TOp.path]
      obtain ⟨r', ev, hu⟩ := nav _ hne (.idx (-1)) h
        (fun n r _ e => idx_leaf_append_all e) pp c r hw e
      refine ⟨r', ?_, hu⟩
      have hR : RepL (h.add.map (adp s)) (h.add.map (fun e => TOp.add (ptoks pp ++ ["-"]) e)) :=
        repL_map_add hp h.add
      rw [eval_of_rep hR]
      rw [List.map_map] at ev
      exact ev
  · rename_i hl
    have hl : lastIdx? h.path ≠ some (-1) := by simpa using hl
    exact renderPatchHunkW_sim L hw
      ⟨hv.remNoVoid, hv.addNoVoid, hv.wfBefore, hv.wfAfter, hv.wfAdd, fun h' => absurd h' hl⟩
      (hunkPtrOKW_of_range hr) e er

theorem rerender_ok_cons {h : Hunk} {d : Diff} {ops : List PatchOp}
    (e : rerender (h :: d) = .ok ops) :
    ∃ a b, rerenderHunk h = .ok a ∧ rerender d = .ok b ∧ ops = a ++ b := by
  simp only [rerender] at e
  split at e
  · rename_i a b ha hb
    injection e with e
    exact ⟨a, b, ha, hb, e.symm⟩
  · cases e

/-- wherever the hunks apply one after the other (reference semantics), the re-rendered operations
    evaluated by the independent RFC 6902 evaluator succeed with the same result up to array tags -/
theorem rerender_sim (L : FloatLaws) :
    ∀ (d : Diff) {c r : Json} {ops : List PatchOp}, c.wf = true →
      (∀ h ∈ d, HunkVals h ∧ HunkRange h) →
      applyStrictAll c d = some r → rerender d = .ok ops →
      ∃ r', eval c (ops.map PatchOp.toSpec) = some r' ∧ untag r' = untag r
  | [], c, r, ops, _, _, e, er => by
    simp only [applyStrictAll] at e; injection e with e; subst e
    rw [rerender] at er; injection er with er; subst er
    exact ⟨c, rfl, rfl⟩
  | h :: d, c, r, ops, hw, hd, e, er => by
    obtain ⟨a, b, ha, hb, rfl⟩ := rerender_ok_cons er
    simp only [applyStrictAll] at e
    cases h1 : applyStrict c h.path h with
    | none => rw [h1] at e; cases e
    | some r1 =>
      rw [h1] at e; simp only [Option.bind_some] at e
      obtain ⟨hok, hrg⟩ := hd h List.mem_cons_self
      obtain ⟨r1', e1, u1⟩ := rerenderHunk_sim L hw hok hrg h1 ha
      have hw1 : r1.wf = true := applyStrict_wf hw hok.wfAdd h1
      have hw1' : r1'.wf = true := by rw [← untag_wf, u1, untag_wf]; exact hw1
      have hc := applyStrictAll_untag_congr d u1
      rw [e] at hc
      cases h2 : applyStrictAll r1' d with
      | none => rw [h2] at hc; cases hc
      | some r2 =>
        rw [h2] at hc
        simp only [Option.map_some, Option.some.injEq] at hc
        obtain ⟨r', e2, u2⟩ := rerender_sim L d hw1'
          (fun h' hm => hd h' (List.mem_cons_of_mem _ hm)) h2 hb
        refine ⟨r', ?_, by rw [u2, hc]⟩
        rw [List.map_append, eval_append, e1]
        exact e2


/-! ## 4. what the reader puts into the hunks -/


/-- a value an operation may carry: a real, well-formed list-mode document (what `json.Unmarshal`
    gives; a missing `value` member is `null`) -/
def valueOK (v : Json) : Bool := !v.isVoid && v.listDoc && v.wf

theorem setPatchCtx_cases {p0 p1 : PatchOp} {tail : List PatchOp} {c : CtxRes}
    (h : setPatchCtx (p0 :: p1 :: tail) = .ok c) :
    (c.before = none ∨ c.before = some [.void] ∨ c.before = some [p0.value]) ∧
    (c.after = none ∨ c.after = some [.void] ∨ c.after = some [p0.value] ∨ c.after = some [p1.value]) ∧
    (c.rest = p0 :: p1 :: tail ∨ c.rest = p1 :: tail ∨ c.rest = tail) := by
  unfold setPatchCtx at h
  simp only at h
  repeat' split at h
  all_goals first
    | (cases h; done)
    | (injection h with h; subst h; simp)

theorem setPatchCtx_props {patch : List PatchOp} {c : CtxRes} (h : setPatchCtx patch = .ok c)
    (hv : ∀ o ∈ patch, valueOK o.value = true) :
    (∀ v ∈ c.before.getD [] ++ c.after.getD [], v.listDoc = true ∧ v.wf = true) ∧
    (∀ o ∈ c.rest, o ∈ patch) := by
  match patch, h with
  | [], h => simp [setPatchCtx] at h
  | [p], h =>
    simp only [setPatchCtx] at h
    injection h with h; subst h
    simp [Json.listDoc, Json.wf]
  | p0 :: p1 :: tail, h =>
    obtain ⟨hb, ha, hr⟩ := setPatchCtx_cases h
    have h0 := hv p0 (by simp)
    have h1 := hv p1 (by simp)
    simp only [valueOK, Bool.and_eq_true] at h0 h1
    constructor
    · intro v hm
      rcases List.mem_append.1 hm with hm | hm
      · rcases hb with hb | hb | hb <;> rw [hb] at hm <;> simp at hm
        · subst hm; simp [Json.listDoc, Json.wf]
        · subst hm; exact ⟨h0.1.2, h0.2⟩
      · rcases ha with ha | ha | ha | ha <;> rw [ha] at hm <;> simp at hm
        · subst hm; simp [Json.listDoc, Json.wf]
        · subst hm; exact ⟨h0.1.2, h0.2⟩
        · subst hm; exact ⟨h1.1.2, h1.2⟩
    · intro o ho
      rcases hr with hr | hr | hr <;> rw [hr] at ho
      · exact ho
      · exact List.mem_cons_of_mem _ ho
      · exact List.mem_cons_of_mem _ (List.mem_cons_of_mem _ ho)

theorem finishHunk_props {c : CtxRes} {e : Hunk} {rest : List PatchOp}
    (h : finishHunk c = .ok (e, rest)) :
    e.merge = false ∧ e.before = c.before.getD [] ∧ e.after = c.after.getD [] ∧
    (∃ q ∈ c.rest, readPointer q.path = .ok e.path ∧
      ((e.remove = [q.value] ∧ e.add = []) ∨ (e.remove = [] ∧ e.add = [q.value]))) ∧
    (∀ o ∈ rest, o ∈ c.rest) := by
  unfold finishHunk at h
  split at h
  · cases h
  · rename_i q rest' hc
    simp only at h
    repeat' split at h
    all_goals first
      | (cases h; done)
      | (injection h with h; injection h with h1 h2; subst h1; subst h2
         refine ⟨rfl, rfl, rfl, ⟨q, by rw [hc]; simp, by assumption, by simp⟩, ?_⟩
         intro o ho; rw [hc]; simp [ho])


theorem tokJson_cases (t : String) : (∃ b, tokJson t = .num b) ∨ (∃ s, tokJson t = .str s) := by
  unfold tokJson
  split
  · exact Or.inl ⟨_, rfl⟩
  · split
    · exact Or.inl ⟨_, rfl⟩
    · exact Or.inr ⟨_, rfl⟩

theorem newPathM_go_strict : ∀ (toks : List String) {p : Path},
    newPathM.go (toks.map tokJson) = .ok p → strictPath p = true
  | [], p, h => by
    simp only [List.map_nil, newPathM.go] at h
    injection h with h; subst h; rfl
  | t :: r, p, h => by
    simp only [List.map_cons] at h
    cases hr : newPathM.go (r.map tokJson) with
    | ok p' =>
      have ih := newPathM_go_strict r hr
      rcases tokJson_cases t with ⟨b, hb⟩ | ⟨s, hb⟩ <;>
        (rw [hb] at h; simp only [newPathM.go, hr] at h; injection h with h; subst h
         simpa [strictPath] using ih)
    | err =>
      rcases tokJson_cases t with ⟨b, hb⟩ | ⟨s, hb⟩ <;>
        (rw [hb] at h; simp [newPathM.go, hr] at h)
    | panic =>
      rcases tokJson_cases t with ⟨b, hb⟩ | ⟨s, hb⟩ <;>
        (rw [hb] at h; simp [newPathM.go, hr] at h)

theorem readPointer_strict {s : String} {p : Path} (h : readPointer s = .ok p) :
    strictPath p = true := by
  rw [readPointer_eq] at h
  split at h
  · simp only [newPathM, newPathM.go] at h
    injection h with h; subst h; rfl
  · split at h
    · cases h
    · split at h
      · cases h
      · simp only [newPathM] at h
        exact newPathM_go_strict _ h


/-- what every hunk the reader builds satisfies when the operations carry real values -/
structure ReadHunk (h : Hunk) : Prop where
  merge : h.merge = false
  strict : strictPath h.path = true
  vals : ∀ v ∈ h.remove ++ h.add, valueOK v = true
  ctx : ∀ v ∈ h.before ++ h.after, v.listDoc = true ∧ v.wf = true

theorem readPatchHunk_props {patch : List PatchOp} {e : Hunk} {rest : List PatchOp}
    (h : readPatchHunk patch = .ok (e, rest)) (hv : ∀ o ∈ patch, valueOK o.value = true) :
    ReadHunk e ∧ ∀ o ∈ rest, o ∈ patch := by
  cases patch with
  | nil => simp [readPatchHunk] at h
  | cons p tl =>
    rw [readPatchHunk_cons] at h
    split at h
    · cases h
    · cases h
    · rename_i c hc
      have hprops : (∀ v ∈ c.before.getD [] ++ c.after.getD [], v.listDoc = true ∧ v.wf = true) ∧
          (∀ o ∈ c.rest, o ∈ p :: tl) := by
        split at hc
        · exact setPatchCtx_props hc hv
        · injection hc with hc; subst hc; simp
      obtain ⟨hm, hb, ha, ⟨q, hq, hrp, hra⟩, hrest⟩ := finishHunk_props h
      have hqv := hv q (hprops.2 q hq)
      refine ⟨⟨hm, readPointer_strict hrp, ?_, ?_⟩, fun o ho => hprops.2 o (hrest o ho)⟩
      · intro v hm
        rcases hra with ⟨h1, h2⟩ | ⟨h1, h2⟩ <;> rw [h1, h2] at hm <;> simp at hm <;> subst hm <;>
          exact hqv
      · rw [hb, ha]; exact hprops.1

theorem pushElem_props {acc : Diff} {e : Hunk} (ha : ∀ h ∈ acc, ReadHunk h) (he : ReadHunk e) :
    ∀ h ∈ pushElem acc e, ReadHunk h := by
  unfold pushElem
  split
  · intro h hm; simp at hm; subst hm; exact he
  · rename_i last hl
    obtain ⟨pre, rfl⟩ := List.getLast?_eq_some_iff.1 hl
    have hlast := ha last (by simp)
    split
    · intro h hm
      simp only [List.dropLast_concat, List.mem_append, List.mem_singleton] at hm
      rcases hm with hm | rfl
      · exact ha h (by simp [hm])
      · refine ⟨hlast.merge, hlast.strict, ?_, hlast.ctx⟩
        intro v hv
        simp only [List.mem_append] at hv
        have h1 := hlast.vals
        have h2 := he.vals
        simp only [List.mem_append] at h1 h2
        rcases hv with (hv | hv) | hv
        · exact h1 v (Or.inl hv)
        · exact h2 v (Or.inl hv)
        · split at hv <;> simp only [List.mem_append] at hv <;> rcases hv with hv | hv
          · exact h1 v (Or.inr hv)
          · exact h2 v (Or.inr hv)
          · exact h2 v (Or.inr hv)
          · exact h1 v (Or.inr hv)
    · intro h hm
      simp only [List.mem_append, List.mem_singleton] at hm
      rcases hm with hm | rfl
      · exact ha h (by simpa using hm)
      · exact he

theorem readPatchLoop_props : ∀ (fuel : Nat) (patch : List PatchOp) (acc d : Diff),
    readPatchLoop fuel patch acc = .ok d → (∀ o ∈ patch, valueOK o.value = true) →
    (∀ h ∈ acc, ReadHunk h) → ∀ h ∈ d, ReadHunk h
  | 0, _, _, _, h, _, _ => by simp [readPatchLoop] at h
  | fuel + 1, [], acc, d, h, _, ha => by
    simp only [readPatchLoop] at h
    injection h with h; subst h; exact ha
  | fuel + 1, o :: patch, acc, d, h, hv, ha => by
    rw [readPatchLoop_cons] at h
    split at h
    · cases h
    · cases h
    · rename_i e rest hr
      obtain ⟨he, hsub⟩ := readPatchHunk_props hr hv
      exact readPatchLoop_props fuel rest _ d h (fun o ho => hv o (hsub o ho))
        (pushElem_props ha he)


/-! ### 4.1 every way the reader forms one element: which operations are context, which are edits -/


/-- an append (`-`) must not carry a real context line -/
def appendCtxOK (path : Path) (before after : List Json) : Prop :=
  (lastIdx? path == some (-1) && (before.any (fun n => !n.isVoid) || after.any (fun n => !n.isVoid))) = false

/-- **every way the reader forms one diff element** from the head of the operation list: the
    operations consumed (`g`), the element built, and the operations remembered as its context
    (`patchContext` of the Go code, `ctxOf` of the model). `c`, `c0`, `c1` are the operations consumed
    as CONTEXT, `q` (and `r`) the edit. The element loop compares only the LAST index of each
    pointer and does not look at the `op` of `c1`: that is what `checkPatchCtx` makes up for. -/
inductive Shape : List PatchOp → Hunk → PatchCtx → Prop
  | add {q : PatchOp} {path : Path} :
      q.op = "add" → readPointer q.path = .ok path →
      Shape [q] { path := path, add := [q.value] } {}
  | remKey {q r : PatchOp} {path : Path} :
      q.op = "test" → r.op = "remove" → r.path = q.path → equals [] q.value r.value = true →
      readPointer q.path = .ok path → lastIdx? path = none →
      Shape [q, r] { path := path, remove := [q.value] } {}
  | remIdx {q r : PatchOp} {path : Path} {i : Int} :
      q.op = "test" → r.op = "remove" → r.path = q.path → equals [] q.value r.value = true →
      readPointer q.path = .ok path → lastIdx? path = some i →
      Shape [q, r] { path := path, before := [.void], after := [.void], remove := [q.value] } {}
  | afterAdd {c q : PatchOp} {pc path : Path} {i : Int} :
      c.op = "test" → q.op = "add" → readPointer c.path = .ok pc → readPointer q.path = .ok path →
      lastIdx? pc = some i → lastIdx? path = some i → appendCtxOK path [.void] [c.value] →
      Shape [c, q] { path := path, before := [.void], after := [c.value], add := [q.value] }
        { after := some c }
  | beforeAdd {c q : PatchOp} {pc path : Path} {i : Int} :
      c.op = "test" → q.op = "add" → readPointer c.path = .ok pc → readPointer q.path = .ok path →
      lastIdx? pc = some (i - 1) → lastIdx? path = some i → appendCtxOK path [c.value] [.void] →
      Shape [c, q] { path := path, before := [c.value], after := [.void], add := [q.value] }
        { before := some c }
  | bothAdd {c0 c1 q : PatchOp} {p0 p1 path : Path} {f s t : Int} :
      c0.op = "test" → q.op = "add" →
      readPointer c0.path = .ok p0 → readPointer c1.path = .ok p1 → readPointer q.path = .ok path →
      lastIdx? p0 = some f → lastIdx? p1 = some s → lastIdx? path = some t → t ≤ s →
      appendCtxOK path [c0.value] [c1.value] →
      Shape [c0, c1, q] { path := path, before := [c0.value], after := [c1.value], add := [q.value] }
        { before := some c0, after := some c1 }
  | bothRem {c0 c1 q r : PatchOp} {p0 p1 path : Path} {f s t : Int} :
      c0.op = "test" → q.op = "test" → r.op = "remove" → r.path = q.path →
      equals [] q.value r.value = true →
      readPointer c0.path = .ok p0 → readPointer c1.path = .ok p1 → readPointer q.path = .ok path →
      lastIdx? p0 = some f → lastIdx? p1 = some s → lastIdx? path = some t → t ≤ s →
      Shape [c0, c1, q, r] { path := path, before := [c0.value], after := [c1.value], remove := [q.value] }
        { before := some c0, after := some c1 }
  | afterRem {c q r : PatchOp} {pc path : Path} {f s : Int} :
      c.op = "test" → q.op = "test" → r.op = "remove" → r.path = q.path →
      equals [] q.value r.value = true →
      readPointer c.path = .ok pc → readPointer q.path = .ok path →
      lastIdx? pc = some f → lastIdx? path = some s → s < f →
      Shape [c, q, r] { path := path, before := [.void], after := [c.value], remove := [q.value] }
        { after := some c }
  | beforeRem {c q r : PatchOp} {pc path : Path} {f s : Int} :
      c.op = "test" → q.op = "test" → r.op = "remove" → r.path = q.path →
      equals [] q.value r.value = true →
      readPointer c.path = .ok pc → readPointer q.path = .ok path →
      lastIdx? pc = some f → lastIdx? path = some s → f < s →
      Shape [c, q, r] { path := path, before := [c.value], after := [.void], remove := [q.value] }
        { before := some c }

/-! which operations `readPatchDiffElement` remembers as the context of the element (`ctxOf`) -/

theorem used0 {α} (l : List α) : l.take (l.length - l.length) = [] := by simp

theorem used1 {α} (a : α) (l : List α) : (a :: l).take ((a :: l).length - l.length) = [a] := by
  have : (a :: l).length - l.length = 1 := by simp
  rw [this]; rfl

theorem used2 {α} (a b : α) (l : List α) :
    (a :: b :: l).take ((a :: b :: l).length - l.length) = [a, b] := by
  have : (a :: b :: l).length - l.length = 2 := by simp only [List.length_cons]; omega
  rw [this]; rfl

theorem ctxOf_of_test {p : PatchOp} {tl : List PatchOp} {c : CtxRes} (ht : p.op = "test")
    (hc : setPatchCtx (p :: tl) = .ok c) :
    ctxOf (p :: tl) =
      (match (p :: tl).take ((p :: tl).length - c.rest.length) with
       | [u0, u1] => { before := some u0, after := some u1 }
       | [u0] =>
         (match c.before with
          | some [b] => if !b.isVoid then { before := some u0 } else { after := some u0 }
          | _ => { after := some u0 })
       | _ => {}) := by
  simp only [ctxOf, ht, beq_self_eq_true, if_true, hc]
  rfl

theorem ctxOf_not_test {p : PatchOp} {tl : List PatchOp} (ht : ¬ p.op = "test") :
    ctxOf (p :: tl) = {} := by
  have : (p.op == "test") = false := by simpa using ht
  simp only [ctxOf, this, Bool.false_eq_true, if_false]

theorem lastIdxOfPointer_ok {s : String} {o : Option Int} (h : lastIdxOfPointer s = .ok o) :
    ∃ p, readPointer s = .ok p ∧ lastIdx? p = o := by
  unfold lastIdxOfPointer at h
  split at h
  · rename_i p hp; injection h with h; exact ⟨p, hp, h⟩
  · cases h
  · cases h

/-- the outcomes of the context inference on a patch that starts with a `test` and has at least two
    operations -/
inductive CtxCase (p0 p1 : PatchOp) (tail : List PatchOp) : CtxRes → Prop
  | untouched :
      (lastIdxOfPointer p0.path = .ok none ∨ ¬ (p1.op = "remove" ∧ p1.path = p0.path)) →
      CtxCase p0 p1 tail { before := none, after := none, rest := p0 :: p1 :: tail }
  | boundary {f : Int} :
      lastIdxOfPointer p0.path = .ok (some f) →
      CtxCase p0 p1 tail { before := some [.void], after := some [.void], rest := p0 :: p1 :: tail }
  | afterAdd {f : Int} :
      lastIdxOfPointer p0.path = .ok (some f) → lastIdxOfPointer p1.path = .ok (some f) →
      p1.op = "add" →
      CtxCase p0 p1 tail { before := some [.void], after := some [p0.value], rest := p1 :: tail }
  | beforeAdd {f s : Int} :
      lastIdxOfPointer p0.path = .ok (some f) → lastIdxOfPointer p1.path = .ok (some s) →
      f = s - 1 → p1.op = "add" →
      CtxCase p0 p1 tail { before := some [p0.value], after := some [.void], rest := p1 :: tail }
  | both {f s t : Int} {p2 : PatchOp} {t2 : List PatchOp} {path2 : Path} :
      tail = p2 :: t2 →
      lastIdxOfPointer p0.path = .ok (some f) → lastIdxOfPointer p1.path = .ok (some s) →
      readPointer p2.path = .ok path2 → lastIdx? path2 = some t → t ≤ s →
      (p2.op = "test" ∨ p2.op = "add") →
      CtxCase p0 p1 tail { before := some [p0.value], after := some [p1.value], rest := tail }
  | afterRem {f s : Int} {p2 : PatchOp} {t2 : List PatchOp} :
      tail = p2 :: t2 →
      lastIdxOfPointer p0.path = .ok (some f) → lastIdxOfPointer p1.path = .ok (some s) →
      s < f → p1.op = "test" → (p2.op = "replace" ∨ p2.op = "remove") →
      CtxCase p0 p1 tail { before := some [.void], after := some [p0.value], rest := p1 :: tail }
  | beforeRem {f s : Int} {p2 : PatchOp} {t2 : List PatchOp} :
      tail = p2 :: t2 →
      lastIdxOfPointer p0.path = .ok (some f) → lastIdxOfPointer p1.path = .ok (some s) →
      f < s → p1.op = "test" → (p2.op = "replace" ∨ p2.op = "remove") →
      CtxCase p0 p1 tail { before := some [p0.value], after := some [.void], rest := p1 :: tail }

theorem setPatchCtx_case {p0 p1 : PatchOp} {tail : List PatchOp} {c : CtxRes}
    (ht : p0.op = "test") (h : setPatchCtx (p0 :: p1 :: tail) = .ok c) : CtxCase p0 p1 tail c := by
  unfold setPatchCtx at h
  simp only [ht, bne_self_eq_false, Bool.false_eq_true, if_false] at h
  cases h0 : lastIdxOfPointer p0.path with
  | err => rw [h0] at h; cases h
  | panic => rw [h0] at h; cases h
  | ok o0 =>
    rw [h0] at h
    cases o0 with
    | none => simp only at h; injection h with h; subst h; exact .untouched (Or.inl h0)
    | some f =>
      simp only at h
      cases h1 : lastIdxOfPointer p1.path with
      | err => rw [h1] at h; cases h
      | panic => rw [h1] at h; cases h
      | ok o1 =>
        rw [h1] at h
        cases o1 with
        | none =>
          simp only at h; injection h with h; subst h
          refine .untouched (Or.inr ?_)
          rintro ⟨_, hp⟩
          rw [hp, h0] at h1; cases h1
        | some s =>
          simp only at h
          have hU : ¬ (f = s ∧ (p1.op = "replace" ∨ p1.op = "remove")) →
              ¬ (p1.op = "remove" ∧ p1.path = p0.path) := by
            rintro hn ⟨hr, hp⟩
            rw [hp, h0] at h1
            injection h1 with h1; injection h1 with h1
            exact hn ⟨h1, Or.inr hr⟩
          split at h
          · rename_i hc
            injection h with h; subst h
            exact .boundary h0
          rename_i hc1
          have hc1' : ¬ (f = s ∧ (p1.op = "replace" ∨ p1.op = "remove")) := by
            simpa using hc1
          split at h
          · rename_i hc
            simp only [Bool.and_eq_true, beq_iff_eq] at hc
            injection h with h; subst h
            obtain ⟨rfl, ha⟩ := hc
            exact .afterAdd h0 h1 ha
          split at h
          · rename_i _ hc
            simp only [Bool.and_eq_true, beq_iff_eq] at hc
            injection h with h; subst h
            exact .beforeAdd h0 h1 hc.1 hc.2
          split at h
          · injection h with h; subst h
            exact .untouched (Or.inr (hU hc1'))
          · rename_i p2 t2
            split at h
            · cases h
            · cases h
            · rename_i path2 hp2
              split at h
              · cases h
              · split at h
                · cases h
                · rename_i t ht3
                  split at h
                  · rename_i hc
                    simp only [Bool.and_eq_true, Bool.or_eq_true, beq_iff_eq, decide_eq_true_eq] at hc
                    injection h with h; subst h
                    exact .both rfl h0 h1 hp2 ht3 hc.2 hc.1
                  split at h
                  · rename_i _ hc
                    simp only [Bool.and_eq_true, Bool.or_eq_true, beq_iff_eq, decide_eq_true_eq] at hc
                    injection h with h; subst h
                    exact .afterRem rfl h0 h1 hc.2 hc.1.1 hc.1.2
                  split at h
                  · rename_i _ _ hc
                    simp only [Bool.and_eq_true, Bool.or_eq_true, beq_iff_eq, decide_eq_true_eq] at hc
                    injection h with h; subst h
                    exact .beforeRem rfl h0 h1 hc.2 hc.1.1 hc.1.2
                  · injection h with h; subst h
                    exact .untouched (Or.inr (hU hc1'))

/-- the two ways `readPatchDiffElement` finishes an element once the context is known -/
theorem finishHunk_case {c : CtxRes} {e : Hunk} {rest : List PatchOp}
    (h : finishHunk c = .ok (e, rest)) :
    (∃ q r path, c.rest = q :: r :: rest ∧ q.op = "test" ∧ r.op = "remove" ∧ r.path = q.path ∧
      equals [] q.value r.value = true ∧ readPointer q.path = .ok path ∧
      e = { path := path, before := c.before.getD [], after := c.after.getD [], remove := [q.value] }) ∨
    (∃ q path, c.rest = q :: rest ∧ q.op ≠ "test" ∧ q.op = "add" ∧ readPointer q.path = .ok path ∧
      appendCtxOK path (c.before.getD []) (c.after.getD []) ∧
      e = { path := path, before := c.before.getD [], after := c.after.getD [], add := [q.value] }) := by
  unfold finishHunk at h
  split at h
  · cases h
  · rename_i q rest' hc
    simp only at h
    split at h
    · rename_i hq
      split at h
      · rename_i path hp
        split at h
        · cases h
        · rename_i r1 rest2
          split at h
          · cases h
          rename_i h1
          split at h
          · cases h
          rename_i h2
          split at h
          · cases h
          rename_i h3
          injection h with h; injection h with he hr
          subst he; subst hr
          left
          refine ⟨q, r1, path, hc, by simpa using hq, by simpa using h1, by simpa using h2,
            by simpa using h3, hp, rfl⟩
      · cases h
      · cases h
    · rename_i hq
      split at h
      · rename_i ha
        split at h
        · rename_i path hp
          split at h
          · cases h
          · rename_i hap
            injection h with h; injection h with he hr
            subst he; subst hr
            right
            refine ⟨q, path, hc, by simpa using hq, by simpa using ha, hp, ?_, rfl⟩
            simpa [appendCtxOK] using hap
        · cases h
        · cases h
      · cases h

/-- **what the reader consumes, and as what** (plan step (i)): whenever `readPatchDiffElement`
    succeeds, the operations it consumed, the element it built and the operations it remembers as
    context (`ctxOf`) are in one of the nine shapes. (The values are not the void marker — true of
    everything `json.Unmarshal` produces; the Go code tells a before-context from an after-context
    by `!isVoid(d.Before[0])`.) -/
theorem readPatchHunk_shape {patch : List PatchOp} {e : Hunk} {rest : List PatchOp}
    (h : readPatchHunk patch = .ok (e, rest)) (hnv : ∀ o ∈ patch, o.value.isVoid = false) :
    ∃ g, patch = g ++ rest ∧ Shape g e (ctxOf patch) := by
  cases patch with
  | nil => simp [readPatchHunk] at h
  | cons p tl =>
    rw [readPatchHunk_cons] at h
    by_cases ht : p.op = "test"
    · -- a patch that starts with a test
      simp only [ht, beq_self_eq_true, if_true] at h
      cases hc : setPatchCtx (p :: tl) with
      | err => rw [hc] at h; cases h
      | panic => rw [hc] at h; cases h
      | ok c =>
        rw [hc] at h
        simp only at h
        have hctx := ctxOf_of_test ht hc
        cases tl with
        | nil =>
          simp only [setPatchCtx] at hc
          injection hc with hc; subst hc
          rcases finishHunk_case h with ⟨q, r, path, hr, _⟩ | ⟨q, path, hr, hq, _⟩
          · simp at hr
          · simp only [List.cons.injEq] at hr
            rw [← hr.1] at hq; exact absurd ht hq
        | cons p1 tail =>
          have hp0v : p.value.isVoid = false := hnv p (by simp)
          have hcase := setPatchCtx_case ht hc
          cases hcase with
          | untouched hU =>
            simp only [used0] at hctx
            rw [hctx]
            rcases finishHunk_case h with ⟨q, r, path, hr, hq, hrr, hrp, heq, hp, rfl⟩ | ⟨q, path, hr, hq, _⟩
            · simp only [List.cons.injEq] at hr
              obtain ⟨rfl, rfl, rfl⟩ := hr
              rcases hU with hU | hU
              · obtain ⟨p', hp', hl⟩ := lastIdxOfPointer_ok hU
                rw [hp] at hp'; injection hp' with hp'; subst hp'
                exact ⟨[p, p1], rfl, .remKey hq hrr hrp heq hp hl⟩
              · exact absurd ⟨hrr, hrp⟩ hU
            · simp only [List.cons.injEq] at hr
              rw [← hr.1] at hq; exact absurd ht hq
          | boundary h0 =>
            simp only [used0] at hctx
            rw [hctx]
            rcases finishHunk_case h with ⟨q, r, path, hr, hq, hrr, hrp, heq, hp, rfl⟩ | ⟨q, path, hr, hq, _⟩
            · simp only [List.cons.injEq] at hr
              obtain ⟨rfl, rfl, rfl⟩ := hr
              obtain ⟨p', hp', hl⟩ := lastIdxOfPointer_ok h0
              rw [hp] at hp'; injection hp' with hp'; subst hp'
              exact ⟨[p, p1], rfl, .remIdx hq hrr hrp heq hp hl⟩
            · simp only [List.cons.injEq] at hr
              rw [← hr.1] at hq; exact absurd ht hq
          | afterAdd h0 h1 ha =>
            simp only [used1, Json.isVoid, Bool.not_true, Bool.false_eq_true, if_false] at hctx
            rw [hctx]
            rcases finishHunk_case h with ⟨q, r, path, hr, hq, _⟩ | ⟨q, path, hr, hq, hqa, hp, hap, rfl⟩
            · simp only [List.cons.injEq] at hr
              rw [← hr.1, ha] at hq; exact absurd hq (by decide)
            · simp only [List.cons.injEq] at hr
              obtain ⟨rfl, rfl⟩ := hr
              obtain ⟨pc, hpc, hlc⟩ := lastIdxOfPointer_ok h0
              obtain ⟨p', hp', hl⟩ := lastIdxOfPointer_ok h1
              rw [hp] at hp'; injection hp' with hp'; subst hp'
              exact ⟨[p, p1], rfl, .afterAdd ht hqa hpc hp hlc hl hap⟩
          | beforeAdd h0 h1 hfs ha =>
            simp only [used1, hp0v, Bool.not_false, if_true] at hctx
            rw [hctx]
            rcases finishHunk_case h with ⟨q, r, path, hr, hq, _⟩ | ⟨q, path, hr, hq, hqa, hp, hap, rfl⟩
            · simp only [List.cons.injEq] at hr
              rw [← hr.1, ha] at hq; exact absurd hq (by decide)
            · simp only [List.cons.injEq] at hr
              obtain ⟨rfl, rfl⟩ := hr
              obtain ⟨pc, hpc, hlc⟩ := lastIdxOfPointer_ok h0
              obtain ⟨p', hp', hl⟩ := lastIdxOfPointer_ok h1
              rw [hp] at hp'; injection hp' with hp'; subst hp'
              subst hfs
              exact ⟨[p, p1], rfl, .beforeAdd ht hqa hpc hp hlc hl hap⟩
          | both htl h0 h1 hp2 hl2 hts hop =>
            subst htl
            simp only [used2] at hctx
            rw [hctx]
            obtain ⟨pc0, hpc0, hlc0⟩ := lastIdxOfPointer_ok h0
            obtain ⟨pc1, hpc1, hlc1⟩ := lastIdxOfPointer_ok h1
            rcases finishHunk_case h with ⟨q, r, path, hr, hq, hrr, hrp, heq, hp, rfl⟩ |
              ⟨q, path, hr, hq, hqa, hp, hap, rfl⟩
            · simp only [List.cons.injEq] at hr
              obtain ⟨rfl, rfl⟩ := hr
              rw [hp] at hp2; injection hp2 with hp2; subst hp2
              exact ⟨[p, p1, _, _], rfl, .bothRem ht hq hrr hrp heq hpc0 hpc1 hp hlc0 hlc1 hl2 hts⟩
            · simp only [List.cons.injEq] at hr
              obtain ⟨rfl, rfl⟩ := hr
              rw [hp] at hp2; injection hp2 with hp2; subst hp2
              exact ⟨[p, p1, _], rfl, .bothAdd ht hqa hpc0 hpc1 hp hlc0 hlc1 hl2 hts hap⟩
          | afterRem htl h0 h1 hsf h1t hop =>
            subst htl
            simp only [used1, Json.isVoid, Bool.not_true, Bool.false_eq_true, if_false] at hctx
            rw [hctx]
            obtain ⟨pc0, hpc0, hlc0⟩ := lastIdxOfPointer_ok h0
            obtain ⟨pc1, hpc1, hlc1⟩ := lastIdxOfPointer_ok h1
            rcases finishHunk_case h with ⟨q, r, path, hr, hq, hrr, hrp, heq, hp, rfl⟩ |
              ⟨q, path, hr, hq, _⟩
            · simp only [List.cons.injEq] at hr
              obtain ⟨rfl, rfl, rfl⟩ := hr
              rw [hp] at hpc1; injection hpc1 with hpc1; subst hpc1
              exact ⟨[p, p1, _], rfl, .afterRem ht hq hrr hrp heq hpc0 hp hlc0 hlc1 hsf⟩
            · simp only [List.cons.injEq] at hr
              rw [← hr.1] at hq; exact absurd h1t hq
          | beforeRem htl h0 h1 hsf h1t hop =>
            subst htl
            simp only [used1, hp0v, Bool.not_false, if_true] at hctx
            rw [hctx]
            obtain ⟨pc0, hpc0, hlc0⟩ := lastIdxOfPointer_ok h0
            obtain ⟨pc1, hpc1, hlc1⟩ := lastIdxOfPointer_ok h1
            rcases finishHunk_case h with ⟨q, r, path, hr, hq, hrr, hrp, heq, hp, rfl⟩ |
              ⟨q, path, hr, hq, _⟩
            · simp only [List.cons.injEq] at hr
              obtain ⟨rfl, rfl, rfl⟩ := hr
              rw [hp] at hpc1; injection hpc1 with hpc1; subst hpc1
              exact ⟨[p, p1, _], rfl, .beforeRem ht hq hrr hrp heq hpc0 hp hlc0 hlc1 hsf⟩
            · simp only [List.cons.injEq] at hr
              rw [← hr.1] at hq; exact absurd h1t hq
    · -- a patch that starts with something else: no context
      rw [ctxOf_not_test ht]
      have ht' : (p.op == "test") = false := by simpa using ht
      simp only [ht', Bool.false_eq_true, if_false] at h
      rcases finishHunk_case h with ⟨q, r, path, hr, hq, _⟩ | ⟨q, path, hr, hq, hqa, hp, hap, rfl⟩
      · simp only [List.cons.injEq] at hr
        rw [← hr.1] at hq; exact absurd hq ht
      · simp only [List.cons.injEq] at hr
        obtain ⟨rfl, rfl⟩ := hr
        exact ⟨[p], rfl, .add hqa hp⟩


/-! ### the values of a parsed patch document -/


theorem alookup_voidFree {k : String} {v : Json} :
    ∀ {kvs : List (String × Json)}, alookup k kvs = some v → Yaml.voidFreeKvs kvs = true →
      Yaml.voidFree v = true
  | [], h, _ => by simp [alookup] at h
  | (k', v') :: r, h, hd => by
    simp only [Yaml.voidFreeKvs, Bool.and_eq_true] at hd
    simp only [alookup] at h
    split at h
    · cases h; exact hd.1
    · exact alookup_voidFree h hd.2

theorem isVoid_of_voidFree {v : Json} (h : Yaml.voidFree v = true) : v.isVoid = false := by
  cases v <;> simp_all [Yaml.voidFree, Json.isVoid]

theorem go_values : ∀ (xs : List Json) (ops : List PatchOp), patchOpsOfJson.go xs = .ok ops →
    wfList xs = true → listDocList xs = true → Yaml.voidFreeList xs = true →
    ∀ o ∈ ops, valueOK o.value = true
  | [], ops, h, _, _, _ => by
    simp only [patchOpsOfJson.go] at h
    injection h with h; subst h; simp
  | .obj kvs :: r, ops, h, hw, hl, hv => by
    simp only [wfList, listDocList, Yaml.voidFreeList, Json.wf, Json.listDoc, Yaml.voidFree,
      Bool.and_eq_true] at hw hl hv
    simp only [patchOpsOfJson.go] at h
    cases h1 : patchOpsOfJson.strField kvs "op" with
    | err => rw [h1] at h; cases h
    | panic => rw [h1] at h; cases h
    | ok op =>
      cases h2 : patchOpsOfJson.strField kvs "path" with
      | err => rw [h1, h2] at h; cases h
      | panic => rw [h1, h2] at h; cases h
      | ok path =>
        cases h4 : patchOpsOfJson.valueField kvs op with
        | err => rw [h1, h2] at h; simp only [Outcome.bind_ok] at h; rw [h4] at h; cases h
        | panic => rw [h1, h2] at h; simp only [Outcome.bind_ok] at h; rw [h4] at h; cases h
        | ok value =>
          cases h3 : patchOpsOfJson.go r with
          | err => rw [h1, h2] at h; simp only [Outcome.bind_ok] at h; rw [h4, h3] at h; cases h
          | panic => rw [h1, h2] at h; simp only [Outcome.bind_ok] at h; rw [h4, h3] at h; cases h
          | ok rest =>
            rw [h1, h2] at h
            simp only [Outcome.bind_ok] at h
            rw [h4, h3] at h
            simp only [Outcome.bind_ok] at h
            injection h with h
            subst h
            intro o ho
            rcases List.mem_cons.1 ho with rfl | ho
            · simp only
              unfold patchOpsOfJson.valueField at h4
              cases hk : alookup "value" kvs with
              | none =>
                rw [hk] at h4
                simp only at h4
                split at h4
                · cases h4
                · injection h4 with h4; subst h4; rfl
              | some v =>
                rw [hk] at h4
                simp only at h4
                injection h4 with h4
                subst h4
                simp only [valueOK, Bool.and_eq_true, Bool.not_eq_true']
                exact ⟨⟨isVoid_of_voidFree (alookup_voidFree hk hv.1), alookup_listDoc hk hl.1⟩,
                  alookup_wf hk hw.1.2⟩
            · exact go_values r rest h3 hw.2 hl.2 hv.2 o ho
  | .null :: r, ops, h, _, _, _ => by simp [patchOpsOfJson.go] at h
  | .void :: r, ops, h, _, _, _ => by simp [patchOpsOfJson.go] at h
  | .bool _ :: r, ops, h, _, _, _ => by simp [patchOpsOfJson.go] at h
  | .num _ :: r, ops, h, _, _, _ => by simp [patchOpsOfJson.go] at h
  | .str _ :: r, ops, h, _, _, _ => by simp [patchOpsOfJson.go] at h
  | .arr _ _ :: r, ops, h, _, _, _ => by simp [patchOpsOfJson.go] at h

/-- the operations of a parsed patch document carry real values: `json.Unmarshal` never produces the
    void marker, objects have unique keys, arrays are plain arrays -/
theorem patchOpsOfJson_values {doc : Json} {ops : List PatchOp} (h : patchOpsOfJson doc = .ok ops)
    (hw : doc.wf = true) (hl : doc.listDoc = true) (hv : Yaml.voidFree doc = true) :
    ∀ o ∈ ops, valueOK o.value = true := by
  cases doc with
  | arr t xs =>
    simp only [patchOpsOfJson] at h
    simp only [Json.wf] at hw
    simp only [Json.listDoc, Bool.and_eq_true] at hl
    simp only [Yaml.voidFree] at hv
    exact go_values xs ops h hw hl.2 hv
  | _ => simp [patchOpsOfJson] at h


/-! ## 5. the theorem -/

/-- **the faithful sub-grammar**: the operations are what jd itself writes (`rerender`) for the diff
    `d`, up to the ignored value member of `remove` operations. Decidable: `rerender` is a program
    and the comparison is structural. With `d` the diff jd READ from `ops` this says that the patch
    is a fixed point of read-then-write: every `test` the reader consumed as a context line is the
    test jd writes for that line (same array, index `i - 1` resp. `i + |Remove|`), and every JSON
    Pointer is in the canonical form jd writes. -/
def Faithful (d : Diff) (ops : List PatchOp) : Prop :=
  ∃ ops', rerender d = .ok ops' ∧ List.Forall₂ OpSim ops' ops

theorem readHunk_strictOK {h : Hunk} (hr : ReadHunk h) :
    (!h.merge && strictPath h.path && hunkListDoc h) = true := by
  have hv := hr.vals
  have hc := hr.ctx
  simp only [List.mem_append] at hv hc
  have hvl : ∀ v, valueOK v = true → v.listDoc = true := by
    intro v h; simp only [valueOK, Bool.and_eq_true] at h; exact h.1.2
  simp only [hr.merge, hr.strict, hunkListDoc, Bool.not_false, Bool.true_and, Bool.and_eq_true,
    listDocList_iff]
  exact ⟨⟨⟨fun x hx => (hc x (Or.inl hx)).1, fun x hx => hvl x (hv x (Or.inl hx))⟩,
    fun x hx => hvl x (hv x (Or.inr hx))⟩, fun x hx => (hc x (Or.inr hx)).1⟩

theorem readHunk_vals {h : Hunk} (hr : ReadHunk h) : HunkVals h := by
  have hv := hr.vals
  have hc := hr.ctx
  simp only [List.mem_append] at hv hc
  have hvv : ∀ v, valueOK v = true → v.isVoid = false ∧ v.wf = true := by
    intro v h; simp only [valueOK, Bool.and_eq_true, Bool.not_eq_true'] at h; exact ⟨h.1.1, h.2⟩
  exact ⟨fun x hx => (hvv x (hv x (Or.inl hx))).1, fun x hx => (hvv x (hv x (Or.inr hx))).1,
    wfList_iff.2 (fun x hx => (hc x (Or.inl hx)).2), wfList_iff.2 (fun x hx => (hc x (Or.inr hx)).2),
    wfList_iff.2 (fun x hx => (hvv x (hv x (Or.inr hx))).2)⟩

/-- **C10, never more permissive (faithful sub-grammar).** `ops` is ANY list of operations the
    reader accepts (any fuel), `d` the diff it reads, `t` any well-formed list-mode document. If the
    library's `Patch` applies `d` to `t` with result `r`, then the independent RFC 6902 evaluator
    applies `ops` to `t` with the same result up to the Go dynamic type of array nodes. -/
theorem read_patch_never_more_permissive (L : FloatLaws) {fuel : Nat} {ops : List PatchOp}
    {d : Diff} {t r : Json} (hw : t.wf = true) (hl : t.listDoc = true)
    (hv : ∀ o ∈ ops, valueOK o.value = true)
    (hread : readPatchLoop fuel ops [] = .ok d)
    (hf : Faithful d ops) (hrange : ∀ h ∈ d, HunkRange h)
    (hp : patchM t d = .ok r) :
    ∃ r', eval t (ops.map PatchOp.toSpec) = some r' ∧ untag r' = untag r := by
  have hR := readPatchLoop_props fuel ops [] d hread hv (by simp)
  have hd : d.all (fun h => !h.merge && strictPath h.path && hunkListDoc h) = true :=
    List.all_eq_true.2 (fun h hm => readHunk_strictOK (hR h hm))
  obtain ⟨m, hm, hu⟩ := strictAll_result true t d hd hl r hp
  obtain ⟨ops', hre, hsim⟩ := hf
  obtain ⟨r', h1, h2⟩ := rerender_sim L d hw (fun h hmem => ⟨readHunk_vals (hR h hmem), hrange h hmem⟩)
    hm hre
  exact ⟨r', by rw [← eval_opSim hsim]; exact h1, by rw [h2, hu]⟩

/-- **the reader after the fix** (`ReadPatchString` = element loop, then `checkPatchContext` on every
    element): whatever `readPatchOps` accepts, the element loop alone reads to the same diff, the
    second run of the loop yields the context operations of the elements, and all of them pass the
    check -/
theorem readPatchOps_ok {ops : List PatchOp} {d : Diff} (h : readPatchOps ops = .ok d) :
    readPatchLoop (ops.length + 1) ops [] = .ok d ∧
    ∃ cs, readPatchCtxLoop (ops.length + 1) ops [] [] = .ok cs ∧ checkPatchCtxs d cs = .ok () := by
  unfold readPatchOps at h
  cases h1 : readPatchLoop (ops.length + 1) ops [] with
  | err => rw [h1] at h; cases h
  | panic => rw [h1] at h; cases h
  | ok d' =>
    rw [h1] at h
    simp only at h
    cases h2 : readPatchCtxLoop (ops.length + 1) ops [] [] with
    | err => rw [h2] at h; cases h
    | panic => rw [h2] at h; cases h
    | ok cs =>
      rw [h2] at h
      simp only at h
      cases h3 : checkPatchCtxs d' cs with
      | err => rw [h3] at h; cases h
      | panic => rw [h3] at h; cases h
      | ok u =>
        rw [h3] at h
        injection h with h
        subst h
        exact ⟨rfl, cs, rfl, h3⟩

/-- the new reader is never more permissive than the element loop alone -/
theorem readPatchOps_loop {ops : List PatchOp} {d : Diff} (h : readPatchOps ops = .ok d) :
    readPatchLoop (ops.length + 1) ops [] = .ok d := (readPatchOps_ok h).1

theorem readPatchDoc_ok {doc : Json} {d : Diff} (h : readPatchDoc doc = .ok d) :
    ∃ ops, patchOpsOfJson doc = .ok ops ∧ readPatchOps ops = .ok d := by
  unfold readPatchDoc at h
  cases h1 : patchOpsOfJson doc with
  | err => rw [h1] at h; cases h
  | panic => rw [h1] at h; cases h
  | ok ops => rw [h1] at h; exact ⟨ops, rfl, h⟩

/-- T1 from the reader `readPatchOps` (element loop + context check), still with `Faithful` -/
theorem readPatchOps_never_more_permissive_of_faithful (L : FloatLaws) {ops : List PatchOp}
    {d : Diff} {t r : Json} (hw : t.wf = true) (hl : t.listDoc = true)
    (hv : ∀ o ∈ ops, valueOK o.value = true)
    (hread : readPatchOps ops = .ok d)
    (hf : Faithful d ops) (hrange : ∀ h ∈ d, HunkRange h)
    (hp : patchM t d = .ok r) :
    ∃ r', eval t (ops.map PatchOp.toSpec) = some r' ∧ untag r' = untag r :=
  read_patch_never_more_permissive L hw hl hv (readPatchOps_loop hread) hf hrange hp

/-- the same from the entry point `ReadPatchString`, with the hypotheses on the parsed JSON document
    of the patch (what `json.Unmarshal` gives: unique keys, plain arrays, no void marker) -/
theorem readPatchDoc_never_more_permissive_of_faithful (L : FloatLaws) {doc : Json}
    {ops : List PatchOp}
    {d : Diff} {t r : Json} (hw : t.wf = true) (hl : t.listDoc = true)
    (hdw : doc.wf = true) (hdl : doc.listDoc = true) (hdv : Yaml.voidFree doc = true)
    (hdoc : patchOpsOfJson doc = .ok ops)
    (hread : readPatchDoc doc = .ok d)
    (hf : Faithful d ops) (hrange : ∀ h ∈ d, HunkRange h)
    (hp : patchM t d = .ok r) :
    ∃ r', eval t (ops.map PatchOp.toSpec) = some r' ∧ untag r' = untag r := by
  obtain ⟨ops', h1, h2⟩ := readPatchDoc_ok hread
  rw [hdoc] at h1
  injection h1 with h1
  subst h1
  exact readPatchOps_never_more_permissive_of_faithful L hw hl
    (patchOpsOfJson_values hdoc hdw hdl hdv) h2 hf hrange hp

/-! ### 5.1 the same with ONE executable predicate on the operations -/


mutual
/-- structural equality of documents, as a program -/
def jsonEqB : Json → Json → Bool
  | .void, .void => true
  | .null, .null => true
  | .bool a, .bool b => a == b
  | .num a, .num b => a == b
  | .str a, .str b => a == b
  | .arr t xs, .arr t' ys => t == t' && jsonEqBList xs ys
  | .obj k, .obj k' => jsonEqBKvs k k'
  | _, _ => false
def jsonEqBList : List Json → List Json → Bool
  | [], [] => true
  | x :: xs, y :: ys => jsonEqB x y && jsonEqBList xs ys
  | _, _ => false
def jsonEqBKvs : List (String × Json) → List (String × Json) → Bool
  | [], [] => true
  | (k, x) :: xs, (k', y) :: ys => k == k' && jsonEqB x y && jsonEqBKvs xs ys
  | _, _ => false
end

mutual
theorem jsonEqB_eq : ∀ (a b : Json), jsonEqB a b = true → a = b
  | .void, b, h => by cases b <;> simp_all [jsonEqB]
  | .null, b, h => by cases b <;> simp_all [jsonEqB]
  | .bool x, b, h => by cases b <;> simp_all [jsonEqB]
  | .num x, b, h => by cases b <;> simp_all [jsonEqB]
  | .str x, b, h => by cases b <;> simp_all [jsonEqB]
  | .arr t xs, b, h => by
    cases b <;> simp only [jsonEqB, Bool.and_eq_true, beq_iff_eq, Bool.false_eq_true] at h
    rename_i t' ys
    rw [h.1, jsonEqBList_eq xs ys h.2]
  | .obj k, b, h => by
    cases b <;> simp only [jsonEqB, Bool.false_eq_true] at h
    rename_i k'
    rw [jsonEqBKvs_eq k k' h]
theorem jsonEqBList_eq : ∀ (a b : List Json), jsonEqBList a b = true → a = b
  | [], b, h => by cases b <;> simp_all [jsonEqBList]
  | x :: xs, b, h => by
    cases b <;> simp only [jsonEqBList, Bool.and_eq_true, Bool.false_eq_true] at h
    rename_i y ys
    rw [jsonEqB_eq x y h.1, jsonEqBList_eq xs ys h.2]
theorem jsonEqBKvs_eq : ∀ (a b : List (String × Json)), jsonEqBKvs a b = true → a = b
  | [], b, h => by cases b <;> simp_all [jsonEqBKvs]
  | (k, x) :: xs, b, h => by
    cases b with
    | nil => simp [jsonEqBKvs] at h
    | cons kv ys =>
      obtain ⟨k', y⟩ := kv
      simp only [jsonEqBKvs, Bool.and_eq_true, beq_iff_eq] at h
      rw [h.1.1, jsonEqB_eq x y h.1.2, jsonEqBKvs_eq xs ys h.2]
end

def opSimB (a b : PatchOp) : Bool :=
  a.op == b.op && a.path == b.path && (a.op == "remove" || jsonEqB a.value b.value)

theorem opSimB_sound {a b : PatchOp} (h : opSimB a b = true) : OpSim a b := by
  simp only [opSimB, Bool.and_eq_true, beq_iff_eq, Bool.or_eq_true] at h
  refine ⟨h.1.1, h.1.2, fun hr => ?_⟩
  rcases h.2 with h2 | h2
  · exact absurd h2 hr
  · exact jsonEqB_eq _ _ h2

def sameOpsB : List PatchOp → List PatchOp → Bool
  | [], [] => true
  | a :: l, b :: l' => opSimB a b && sameOpsB l l'
  | _, _ => false

theorem sameOpsB_sound : ∀ {l l' : List PatchOp}, sameOpsB l l' = true → List.Forall₂ OpSim l l'
  | [], [], _ => .nil
  | a :: l, b :: l', h => by
    simp only [sameOpsB, Bool.and_eq_true] at h
    exact .cons (opSimB_sound h.1) (sameOpsB_sound h.2)
  | [], _ :: _, h => by simp [sameOpsB] at h
  | _ :: _, [], h => by simp [sameOpsB] at h

/-- every index the re-rendering of the hunk writes is of magnitude below 2^53 -/
def hunkRangeB (h : Hunk) : Bool :=
  h.path.all (fun e => match e with | .idx i => decide (i.natAbs < 2 ^ 53) | _ => true) &&
  (match lastIdx? h.path with
   | some i => decide ((i - 1).natAbs < 2 ^ 53) && decide ((i + (h.remove.length : Int)).natAbs < 2 ^ 53)
   | none => true)

theorem hunkRangeB_sound {h : Hunk} (hb : hunkRangeB h = true) : HunkRange h := by
  simp only [hunkRangeB, Bool.and_eq_true] at hb
  constructor
  · intro i hi
    have := List.all_eq_true.1 hb.1 _ hi
    simpa using this
  · intro i hi
    have := hb.2
    rw [hi] at this
    simpa using this

/-- **the faithful sub-grammar as ONE executable predicate on the operations**: the reader accepts
    them, every operation carries a real value, re-rendering what was read gives the operations back
    (up to the value member of `remove`), and every index written is below 2^53 -/
def faithfulPatch (ops : List PatchOp) : Bool :=
  ops.all (fun o => valueOK o.value) &&
  (match readPatchLoop (ops.length + 1) ops [] with
   | .ok d =>
     d.all hunkRangeB &&
     (match rerender d with
      | .ok ops' => sameOpsB ops' ops
      | _ => false)
   | _ => false)

/-- **C10, never more permissive**, hypotheses as decidable predicates on the inputs only -/
theorem faithfulPatch_never_more_permissive (L : FloatLaws) {ops : List PatchOp} {t : Json}
    (hf : faithfulPatch ops = true) (hw : t.wf = true) (hl : t.listDoc = true) :
    ∃ d, readPatchLoop (ops.length + 1) ops [] = .ok d ∧
      ∀ r, patchM t d = .ok r →
        ∃ r', eval t (ops.map PatchOp.toSpec) = some r' ∧ untag r' = untag r := by
  simp only [faithfulPatch, Bool.and_eq_true] at hf
  obtain ⟨hv, hf⟩ := hf
  cases hread : readPatchLoop (ops.length + 1) ops [] with
  | err => rw [hread] at hf; cases hf
  | panic => rw [hread] at hf; cases hf
  | ok d =>
    rw [hread] at hf
    simp only [Bool.and_eq_true] at hf
    obtain ⟨hrg, hf⟩ := hf
    refine ⟨d, rfl, fun r hp => ?_⟩
    cases hre : rerender d with
    | err => rw [hre] at hf; cases hf
    | panic => rw [hre] at hf; cases hf
    | ok ops' =>
      rw [hre] at hf
      exact read_patch_never_more_permissive L hw hl
        (fun o ho => List.all_eq_true.1 hv o ho) hread ⟨ops', hre, sameOpsB_sound hf⟩
        (fun h hm => hunkRangeB_sound (List.all_eq_true.1 hrg h hm)) hp


/-! ## 6. an intrinsic grammar: jd's own layout, any values, any indices, appends

### 6.1 the pointer layer with the append index -/


/-- a path element of the grammar: as `PB.elemOK`, plus the append index −1 -/
def elemOK' : PathElem → Bool
  | .key k => (atoi? k).isNone && k != "-"
  | .idx i => decide (-1 ≤ i) && decide (i < 2 ^ 53)
  | _ => false

def pathOK' (p : Path) : Bool := p.all elemOK'

theorem pathOK'_of_pathOK {p : Path} (h : pathOK p = true) : pathOK' p = true := by
  unfold pathOK at h; unfold pathOK'
  rw [List.all_eq_true] at h ⊢
  intro e he
  have := h e he
  cases e <;> simp_all [elemOK, elemOK']
  omega

/-- a path element the REPAIRED reader can produce within the range of the model: ANY member name,
    or an index in [−1, 2^53) -/
def elemOKr : PathElem → Bool
  | .key _ => true
  | .idx i => decide (-1 ≤ i) && decide (i < 2 ^ 53)
  | _ => false

def pathOKr (p : Path) : Bool := p.all elemOKr

theorem pathOKr_of_pathOK' {p : Path} (h : pathOK' p = true) : pathOKr p = true := by
  unfold pathOK' at h; unfold pathOKr
  rw [List.all_eq_true] at h ⊢
  intro e he
  have := h e he
  cases e <;> simp_all [elemOKr, elemOK']

theorem natAbs_of_pathOKr {p : Path} (h : pathOKr p = true) :
    ∀ i, PathElem.idx i ∈ p → i.natAbs < 2 ^ 53 := by
  intro i hi
  have := List.all_eq_true.1 h _ hi
  simp only [elemOKr, Bool.and_eq_true, decide_eq_true_eq] at this
  omega

theorem idxRange_of_pathOKr {p : Path} (h : pathOKr p = true) : idxRange p :=
  fun i hi => floatTrunc_intToFloatBits (natAbs_of_pathOKr h i hi)

theorem pathOKr_append {p q : Path} : pathOKr (p ++ q) = (pathOKr p && pathOKr q) := by
  simp [pathOKr, List.all_append]

theorem go_tok' {e : PathElem} (he : elemOK' e = true) (r : List Json) :
    newPathM.go (tokJson (elemTok e) :: r) =
      (match newPathM.go r with | .ok p => .ok (e :: p) | e' => e') := by
  cases e with
  | key k => exact go_tok (e := .key k) (by simpa [elemOK, elemOK'] using he) r
  | idx i =>
    simp only [elemOK', Bool.and_eq_true, decide_eq_true_eq] at he
    by_cases h0 : 0 ≤ i
    · exact go_tok (e := .idx i) (by simp only [elemOK, Bool.and_eq_true, decide_eq_true_eq]; exact ⟨h0, he.2⟩) r
    · have : i = -1 := by omega
      subst this
      have h1 : elemTok (.idx (-1)) = "-" := rfl
      have h2 : tokJson "-" = .num (intToFloatBits (-1)) := by
        have : indexToken? "-" = none := by decide
        simp [tokJson, this]
      rw [h1, h2]
      simp only [newPathM.go, floatTrunc_intToFloatBits (i := -1) (by decide)]
      cases newPathM.go r <;> rfl
  | _ => simp [elemOK'] at he

theorem go_toks' : ∀ {p : Path}, pathOK' p = true → newPathM.go ((ptoks p).map tokJson) = .ok p
  | [], _ => rfl
  | e :: p, h => by
    simp only [pathOK', List.all_cons, Bool.and_eq_true] at h
    simp only [ptoks, List.map_cons]
    rw [go_tok' h.1]
    have := go_toks' (p := p) h.2
    simp only [ptoks] at this
    rw [this]

theorem natAbs_of_pathOK' {p : Path} (h : pathOK' p = true) :
    ∀ i, PathElem.idx i ∈ p → i.natAbs < 2 ^ 53 := by
  intro i hi
  have := List.all_eq_true.1 h _ hi
  simp only [elemOK', Bool.and_eq_true, decide_eq_true_eq] at this
  omega

theorem idxRange_of_pathOK' {p : Path} (h : pathOK' p = true) : idxRange p :=
  fun i hi => floatTrunc_intToFloatBits (natAbs_of_pathOK' h i hi)

/-- pointer round trip, paths with the append index included -/
theorem readPointer_write' {p : Path} {s : String} (hp : pathOK' p = true)
    (hs : writePointerPath p = .ok s) : readPointer s = .ok p := by
  have h := (writePointerPath_ok hs (idxRange_of_pathOK' hp)).2
  rw [readPointer_eq]
  cases hpt : ptoks p with
  | nil =>
    have hp0 : p = [] := by simpa [ptoks] using hpt
    rw [hpt] at h
    have : s = "" := by apply String.toList_inj.1; simpa using h
    subst this; subst hp0
    simp [newPathM, newPathM.go]
  | cons t r =>
    rw [hpt] at h
    have hne : (s == "") = false := by
      rw [beq_eq_false_iff_ne]
      intro he; rw [he] at h; simp at h
    have hsw : s.startsWith "/" = true := by
      rw [String.startsWith_string_iff, h]
      exact ⟨_, rfl⟩
    have hesc : escapesOK s.toList = true := by rw [h]; exact escapesOK_ptrText _
    simp only [hne, hsw, hesc, Bool.false_eq_true, if_false, Bool.not_true]
    rw [splitOn_slash, h]
    have := splitOnP_tokens (· == '/') '/' (by simp)
      ((t :: r).map (fun t => escChars t.toList)) [] (by simp)
      (by
        intro t' ht' x hx
        obtain ⟨t'', _, rfl⟩ := List.mem_map.1 ht'
        have := escChars_no_slash t''.toList
        simp only [beq_eq_false_iff_ne, ne_eq]
        intro he; subst he; exact this hx)
    simp only [List.nil_append, List.flatMap_map] at this
    rw [this]
    simp only [List.map_cons, List.drop_succ_cons, List.drop_zero, List.map_map]
    have hm : (List.map (tokJson ∘ ptrUnescape ∘ String.ofList ∘ fun t => escChars t.toList) r)
        = r.map tokJson := by
      apply List.map_congr_left
      intro a _
      simp only [Function.comp, ptrUnescape_esc, String.ofList_toList]
    rw [ptrUnescape_esc, String.ofList_toList, hm]
    have := go_toks' hp
    rw [hpt] at this
    simpa [newPathM] using this

theorem pathEq_self' (L : FloatLaws) {p : Path} (hp : pathOK' p = true) : pathEq p p = true := by
  unfold pathEq pathToJson
  rw [equals_arr_list (o := []) rfl _ _ (by rfl) (by rfl)]
  induction p with
  | nil => simp [equalsList]
  | cons e p ih =>
    simp only [pathOK', List.all_cons, Bool.and_eq_true] at hp
    simp only [List.map_cons, equalsList, Bool.and_eq_true]
    refine ⟨?_, ih hp.2⟩
    cases e with
    | key k => simp [equals]
    | idx i =>
      simp only [elemOK', Bool.and_eq_true, decide_eq_true_eq] at hp
      simp only [equals]
      exact L.refl _ _ (finiteBits_intToFloatBits (by omega)) (by decide)
    | _ => simp [elemOK'] at hp


/-! ### 6.2 the reader's normal form renders like the hunk -/


theorem ctxOps_path {h h' : Hunk} (hp : h'.path = h.path) (c : List Json) (f : Int → Int) :
    ctxOps h' c f = ctxOps h c f := by
  unfold ctxOps
  rw [hp]

theorem ctxOps_not_real {h : Hunk} {c : List Json} (hl : c.length ≤ 1) (hr : realCtx c = false)
    (f : Int → Int) : ctxOps h c f = .ok [] := by
  match c, hl with
  | [], _ => rfl
  | [b], _ =>
    have : b.isVoid = true := by simpa [realCtx] using hr
    simp [ctxOps, this]

theorem normCtx_length {c : List Json} (hl : c.length ≤ 1) : (normCtx c).length ≤ 1 := by
  unfold normCtx; split
  · exact hl
  · simp

theorem ctxOps_normCtx {h : Hunk} {c : List Json} (hl : c.length ≤ 1) (f : Int → Int) :
    ctxOps h (normCtx c) f = ctxOps h c f := by
  cases hr : realCtx c with
  | true => simp [normCtx, hr]
  | false =>
    rw [ctxOps_not_real hl hr, ctxOps_not_real (normCtx_length hl) (by rw [realCtx_normCtx]; exact hr)]

theorem renderPatchHunk'_congr {h h' : Hunk} (hp : h'.path = h.path) (hr : h'.remove = h.remove)
    (ha : h'.add = h.add) (hbl' : h'.before.length ≤ 1) (hbl : h.before.length ≤ 1)
    (hal' : h'.after.length ≤ 1) (hal : h.after.length ≤ 1)
    (hb : ∀ f, ctxOps h h'.before f = ctxOps h h.before f)
    (hc : ∀ f, ctxOps h h'.after f = ctxOps h h.after f) :
    renderPatchHunk' h' = renderPatchHunk' h := by
  unfold renderPatchHunk'
  rw [ctxOps_path hp, ctxOps_path hp, hp, hr, ha, hb, hc]
  have h1 : ¬ h'.before.length > 1 := by omega
  have h2 : ¬ h'.after.length > 1 := by omega
  have h3 : ¬ h.before.length > 1 := by omega
  have h4 : ¬ h.after.length > 1 := by omega
  simp only [h1, h2, h3, h4, if_false]

/-- the normal form of a hunk renders like the hunk -/
theorem renderPatchHunk_normH {h : Hunk} (hw : PBwfH h = true) :
    renderPatchHunk (normH h) = renderPatchHunk h := by
  simp only [PBwfH, Bool.and_eq_true, Bool.not_eq_true', decide_eq_true_eq] at hw
  obtain ⟨⟨⟨⟨⟨⟨⟨hm, hp⟩, hbl⟩, hal⟩, hR⟩, hS⟩, _⟩, hcase⟩ := hw
  rw [renderPatchHunk_eq, renderPatchHunk_eq]
  unfold normH
  split
  · exact renderPatchHunk'_congr rfl rfl rfl (normCtx_length hbl) hbl (normCtx_length hal) hal
      (fun f => ctxOps_normCtx hbl f) (fun f => ctxOps_normCtx hal f)
  · rename_i hc
    have hrb : realCtx h.before = false ∧ realCtx h.after = false := by
      cases hl : lastIdx? h.path with
      | none =>
        rw [hl] at hcase
        simp only [Bool.and_eq_true, Bool.not_eq_true', decide_eq_true_eq] at hcase
        exact ⟨hcase.1.1.1, hcase.1.1.2⟩
      | some i =>
        rw [hl] at hc
        simp only [Option.isSome_some, Bool.true_and, Bool.or_eq_true, Bool.not_eq_true',
          not_or, Bool.not_eq_true] at hc
        exact ⟨hc.1.1, hc.1.2⟩
    exact renderPatchHunk'_congr rfl rfl rfl (by simp) hbl (by simp) hal
      (fun f => by rw [ctxOps_not_real hbl hrb.1]; rfl)
      (fun f => by rw [ctxOps_not_real hal hrb.2]; rfl)


/-! ### 6.3 the grammar, the reader on it, the theorem -/


/-- a hunk appending to an array: index −1 at the end of a supported path, nothing removed, at least
    one real value added (its context lines, if any, are neither written nor looked at) -/
def appendH (h : Hunk) : Bool :=
  !h.merge && pathOK' h.path && (lastIdx? h.path == some (-1)) && h.remove.isEmpty &&
  !h.add.isEmpty && h.add.all (fun v => !v.isVoid)

/-- the grammar, one hunk: a hunk of the parse-back domain `PB.PBwfH` or an append hunk -/
def GH (h : Hunk) : Bool := PBwfH h || appendH h

/-- what the reader gives back for a hunk of the grammar -/
def normG (h : Hunk) : Hunk :=
  if lastIdx? h.path == some (-1) then { path := h.path, add := h.add } else normH h

/-- consecutive hunks are told apart by the reader: different paths, or the second starts with a
    real context test -/
def sepG (h1 h2 : Hunk) : Bool :=
  !(pathEq h1.path h2.path) || (hasContext h2 && !(lastIdx? h2.path == some (-1)))

def chainG : Diff → Bool
  | h1 :: h2 :: r => sepG h1 h2 && chainG (h2 :: r)
  | _ => true

/-- **the grammar** -/
def Gwf (d : Diff) : Bool := d.all GH && chainG d

theorem lastIdx_ne_of_PBwfH {h : Hunk} (hw : PBwfH h = true) : (lastIdx? h.path == some (-1)) = false := by
  simp only [PBwfH, Bool.and_eq_true] at hw
  have hp := hw.1.1.1.1.1.1.2
  cases hl : lastIdx? h.path with
  | none => rfl
  | some i =>
    have := lastIdx_bounds hp hl
    simp only [beq_eq_false_iff_ne, ne_eq, Option.some.injEq]
    omega

theorem keysOK_of_pathOK' {p : Path} (h : pathOK' p = true) : keysOK p := by
  intro k hk
  have := List.all_eq_true.1 h _ hk
  simpa [elemOK'] using this

theorem keysOK_of_PBwfH {h : Hunk} (hw : PBwfH h = true) : keysOK h.path := by
  simp only [PBwfH, Bool.and_eq_true] at hw
  exact keysOK_of_pathOK' (pathOK'_of_pathOK hw.1.1.1.1.1.1.2)

theorem rerenderHunk_of_PBwfH {h : Hunk} (hw : PBwfH h = true) : rerenderHunk h = renderPatchHunk h := by
  simp [rerenderHunk, lastIdx_ne_of_PBwfH hw, renderPatchHunkW_wpL (keysOK_of_PBwfH hw)]

theorem normG_of_PBwfH {h : Hunk} (hw : PBwfH h = true) : normG h = normH h := by
  simp [normG, lastIdx_ne_of_PBwfH hw]

/-- an element that starts with an `add`, whatever its path -/
theorem readHunk_add' {s : String} {x : Json} {tl : List PatchOp} {p : Path}
    (hp : readPointer s = .ok p) :
    readPatchHunk (adp s x :: tl) = .ok ({ path := p, add := [x] }, tl) := by
  rw [readPatchHunk_cons]
  simp only [adp, show (("add" : String) == "test") = false by decide, Bool.false_eq_true, if_false]
  simp [finishHunk, hp]

theorem pushElem_merge_append {pre : Diff} {cur e : Hunk} (hpath : e.path = cur.path)
    (heq : pathEq cur.path cur.path = true) (hl : lastIdx? cur.path = some (-1))
    (hc : hasContext e = false) (hr : e.remove = []) :
    pushElem (pre ++ [cur]) e =
      pre ++ [{ cur with remove := cur.remove, add := cur.add ++ e.add }] := by
  have hl' : (lastIdx? cur.path == some (-1)) = true := by simp [hl]
  unfold pathEq at heq
  simp only [pushElem, List.getLast?_append, List.getLast?_singleton, Option.some_or, hpath, heq, hc,
    hr, Bool.not_false, Bool.and_self, if_true, List.dropLast_concat, hl', List.isEmpty_nil,
    Bool.not_true, Bool.false_and, List.append_nil]

theorem absorb_appends {s : String} {p : Path} (rp : readPointer s = .ok p)
    (heq : pathEq p p = true) (hl : lastIdx? p = some (-1)) :
    ∀ (bs : List Json) (n : Nat) (tl : List PatchOp) (pre : Diff) (cur : Hunk),
      cur.path = p →
      readPatchLoop (n + bs.length) (bs.map (adp s) ++ tl) (pre ++ [cur]) =
        readPatchLoop n tl (pre ++ [{ cur with add := cur.add ++ bs }])
  | [], n, tl, pre, cur, _ => by simp
  | b :: bs, n, tl, pre, cur, hc => by
    have : (b :: bs).map (adp s) ++ tl = adp s b :: (bs.map (adp s) ++ tl) := by simp
    rw [this, show n + (b :: bs).length = (n + bs.length) + 1 by simp; omega, readPatchLoop_cons,
      readHunk_add' rp]
    simp only
    rw [pushElem_merge_append (by exact hc.symm) (by rw [hc]; exact heq) (by rw [hc]; exact hl) rfl rfl]
    refine (absorb_appends rp heq hl bs n tl pre _ ?_).trans ?_
    · exact hc
    · simp

/-- **one append hunk**: its additions are read and coalesced, in order, into one hunk -/
theorem append_loop (L : FloatLaws) {h : Hunk} (hw : appendH h = true) {ops : List PatchOp}
    (hr : rerenderHunk h = .ok ops) (n : Nat) (tl : List PatchOp) (acc : Diff)
    (hs : sep acc h.path false = true) :
    readPatchLoop (n + (h.remove.length + h.add.length)) (ops ++ tl) acc =
      readPatchLoop n tl (acc ++ [normG h]) := by
  simp only [appendH, Bool.and_eq_true, Bool.not_eq_true', beq_iff_eq] at hw
  obtain ⟨⟨⟨⟨⟨hm, hp⟩, hl⟩, hrem⟩, hne⟩, hS⟩ := hw
  have hrem' : h.remove = [] := by simpa using hrem
  unfold rerenderHunk at hr
  simp only [hl, beq_self_eq_true, if_true] at hr
  cases hws : wpL h.path with
  | err => rw [hws] at hr; cases hr
  | panic => rw [hws] at hr; cases hr
  | ok s =>
    rw [hws] at hr
    injection hr with hr; subst hr
    rw [wpL_eq_write (keysOK_of_pathOK' hp)] at hws
    have rp := readPointer_write' hp hws
    have heq := pathEq_self' L hp
    have hN : normG h = { path := h.path, add := h.add } := by simp [normG, hl]
    cases hadd : h.add with
    | nil => rw [hadd] at hne; simp at hne
    | cons b bs =>
      rw [hrem', hN, hadd]
      simp only [List.length_nil, Nat.zero_add, List.length_cons, List.map_cons, List.cons_append]
      rw [show n + (bs.length + 1) = (n + bs.length) + 1 by omega, readPatchLoop_cons,
        readHunk_add' rp]
      simp only
      rw [pushElem_sep (by exact hs)]
      exact absorb_appends rp heq hl bs n tl acc _ rfl


theorem normG_path (h : Hunk) : (normG h).path = h.path := by
  unfold normG; split
  · rfl
  · exact normH_path h

/-- **one hunk of the grammar** -/
theorem ghunk_loop (L : FloatLaws) {h : Hunk} (hw : GH h = true) {ops : List PatchOp}
    (hr : rerenderHunk h = .ok ops) (n : Nat) (tl : List PatchOp) (acc : Diff)
    (hs : sep acc h.path (hasContext h && !(lastIdx? h.path == some (-1))) = true) :
    readPatchLoop (n + (h.remove.length + h.add.length)) (ops ++ tl) acc =
      readPatchLoop n tl (acc ++ [normG h]) := by
  cases hP : PBwfH h with
  | true =>
    rw [rerenderHunk_of_PBwfH hP] at hr
    rw [lastIdx_ne_of_PBwfH hP] at hs
    simp only [Bool.not_false, Bool.and_true] at hs
    rw [normG_of_PBwfH hP]
    exact hunk_loop L hP hr n tl acc hs
  | false =>
    have hA : appendH h = true := by simpa [GH, hP] using hw
    have hl : (lastIdx? h.path == some (-1)) = true := by
      simp only [appendH, Bool.and_eq_true] at hA
      exact hA.1.1.1.2
    rw [hl] at hs
    simp only [Bool.not_true, Bool.and_false] at hs
    exact append_loop L hA hr n tl acc hs

theorem ghunk_len {h : Hunk} (hw : GH h = true) {ops : List PatchOp}
    (hr : rerenderHunk h = .ok ops) : h.remove.length + h.add.length ≤ ops.length := by
  cases hP : PBwfH h with
  | true =>
    rw [rerenderHunk_of_PBwfH hP] at hr
    exact hunk_len hP hr
  | false =>
    have hA : appendH h = true := by simpa [GH, hP] using hw
    simp only [appendH, Bool.and_eq_true, Bool.not_eq_true', beq_iff_eq] at hA
    obtain ⟨⟨⟨⟨⟨_, _⟩, hl⟩, hrem⟩, _⟩, _⟩ := hA
    have hrem' : h.remove = [] := by simpa using hrem
    unfold rerenderHunk at hr
    simp only [hl, beq_self_eq_true, if_true] at hr
    cases hws : wpL h.path with
    | err => rw [hws] at hr; cases hr
    | panic => rw [hws] at hr; cases hr
    | ok s =>
      rw [hws] at hr
      injection hr with hr; subst hr
      simp [hrem']

theorem gdiff_len : ∀ {d : Diff}, d.all GH = true → ∀ {ops : List PatchOp},
    rerender d = .ok ops → cnt d ≤ ops.length
  | [], _, ops, _ => by simp [cnt]
  | h :: d, hw, ops, hr => by
    simp only [List.all_cons, Bool.and_eq_true] at hw
    obtain ⟨a, b, ha, hb, rfl⟩ := rerender_ok_cons hr
    have := ghunk_len hw.1 ha
    have := gdiff_len hw.2 hb
    simp only [cnt, List.length_append]
    omega

theorem gdiff_loop (L : FloatLaws) : ∀ (d : Diff), d.all GH = true → chainG d = true →
    ∀ (ops : List PatchOp), rerender d = .ok ops → ∀ (n : Nat) (tl : List PatchOp) (acc : Diff),
      (match d with
       | [] => true
       | h :: _ => sep acc h.path (hasContext h && !(lastIdx? h.path == some (-1)))) = true →
      readPatchLoop (n + cnt d) (ops ++ tl) acc = readPatchLoop n tl (acc ++ d.map normG)
  | [], _, _, ops, hr, n, tl, acc, _ => by
    rw [rerender] at hr; injection hr with hr; subst hr
    simp [cnt]
  | h :: d, hw, hc, ops, hr, n, tl, acc, hs => by
    simp only [List.all_cons, Bool.and_eq_true] at hw
    obtain ⟨a, b, ha, hb, rfl⟩ := rerender_ok_cons hr
    rw [List.append_assoc, cnt,
      show n + (h.remove.length + h.add.length + cnt d) = (n + cnt d) + (h.remove.length + h.add.length) by omega,
      ghunk_loop L hw.1 ha (n + cnt d) (b ++ tl) acc hs]
    have hc' : chainG d = true := by
      cases d with
      | nil => rfl
      | cons h2 r => simp only [chainG, Bool.and_eq_true] at hc; exact hc.2
    rw [gdiff_loop L d hw.2 hc' b hb n tl (acc ++ [normG h])]
    · simp
    · cases d with
      | nil => rfl
      | cons h2 r =>
        simp only [chainG, Bool.and_eq_true] at hc
        simp only [sep, List.getLast?_append, List.getLast?_singleton, Option.some_or, normG_path]
        exact hc.1

/-- **reading back a patch of the grammar** gives its diff in normal form -/
theorem readPatch_rerender (L : FloatLaws) (d : Diff) (hwf : Gwf d = true) (ops : List PatchOp)
    (h : rerender d = .ok ops) :
    readPatchLoop (ops.length + 1) ops [] = .ok (d.map normG) := by
  simp only [Gwf, Bool.and_eq_true] at hwf
  have hlen := gdiff_len hwf.1 h
  have := gdiff_loop L d hwf.1 hwf.2 ops h (ops.length + 1 - cnt d) [] []
    (by cases d <;> rfl)
  rw [show ops.length + 1 - cnt d + cnt d = ops.length + 1 by omega, List.append_nil] at this
  rw [this, show ops.length + 1 - cnt d = (ops.length - cnt d) + 1 by omega]
  simp [readPatchLoop]


theorem rerenderHunk_normG {h : Hunk} (hw : GH h = true) : rerenderHunk (normG h) = rerenderHunk h := by
  cases hP : PBwfH h with
  | true =>
    rw [normG_of_PBwfH hP, rerenderHunk_of_PBwfH hP]
    have : (lastIdx? (normH h).path == some (-1)) = false := by
      rw [normH_path]; exact lastIdx_ne_of_PBwfH hP
    simp only [rerenderHunk, this, Bool.false_eq_true, if_false]
    rw [renderPatchHunkW_wpL (by rw [normH_path]; exact keysOK_of_PBwfH hP)]
    exact renderPatchHunk_normH hP
  | false =>
    have hA : appendH h = true := by simpa [GH, hP] using hw
    have hl : (lastIdx? h.path == some (-1)) = true := by
      simp only [appendH, Bool.and_eq_true] at hA
      exact hA.1.1.1.2
    simp [rerenderHunk, normG, hl]

theorem rerender_map_normG : ∀ {d : Diff}, d.all GH = true → rerender (d.map normG) = rerender d
  | [], _ => rfl
  | h :: d, hw => by
    simp only [List.all_cons, Bool.and_eq_true] at hw
    simp only [List.map_cons, rerender, rerenderHunk_normG hw.1, rerender_map_normG hw.2]

theorem hunkRange_normG {h : Hunk} (hw : GH h = true) : HunkRange (normG h) := by
  cases hP : PBwfH h with
  | true =>
    rw [normG_of_PBwfH hP]
    simp only [PBwfH, Bool.and_eq_true, Bool.not_eq_true', decide_eq_true_eq] at hP
    obtain ⟨⟨⟨⟨⟨⟨⟨_, hp⟩, _⟩, _⟩, _⟩, _⟩, _⟩, hcase⟩ := hP
    constructor
    · intro i hi
      rw [normH_path] at hi
      have := List.all_eq_true.1 hp _ hi
      simp only [elemOK, Bool.and_eq_true, decide_eq_true_eq] at this
      omega
    · intro i hi
      rw [normH_path] at hi
      rw [normH_remove]
      have hb := lastIdx_bounds hp hi
      rw [hi] at hcase
      simp only [Bool.and_eq_true, decide_eq_true_eq] at hcase
      omega
  | false =>
    have hA : appendH h = true := by simpa [GH, hP] using hw
    simp only [appendH, Bool.and_eq_true, Bool.not_eq_true', beq_iff_eq] at hA
    obtain ⟨⟨⟨⟨⟨_, hp⟩, hl⟩, _⟩, _⟩, _⟩ := hA
    have hN : normG h = { path := h.path, add := h.add } := by simp [normG, hl]
    rw [hN]
    constructor
    · exact natAbs_of_pathOK' hp
    · intro i hi
      simp only at hi
      rw [hl] at hi; injection hi with hi; subst hi
      simp

/-- **C10, never more permissive, on the grammar.** `ops` is the JSON Patch in jd's own layout for
    ANY diff `d0` of the grammar `Gwf` (per hunk: an optional `test` of the element before the edit
    position, an optional `test` of the element after the removed run, the `test`/`remove` pairs,
    the `add`s; or a run of `add`s at `-`; any values, any indices below 2^53; consecutive hunks on
    different paths or the second one starting with a context test). Then jd reads `ops` (into the
    normal form of `d0`), and on EVERY well-formed list-mode document `t` on which jd's `Patch`
    applies what it read, the independent RFC 6902 evaluator applies `ops` with the same result. -/
theorem grammar_never_more_permissive_partial (L : FloatLaws) {d0 : Diff} {ops : List PatchOp} {t : Json}
    (hG : Gwf d0 = true) (hr : rerender d0 = .ok ops)
    (hv : ∀ o ∈ ops, valueOK o.value = true) (hw : t.wf = true) (hl : t.listDoc = true) :
    readPatchLoop (ops.length + 1) ops [] = .ok (d0.map normG) ∧
    ∀ r, patchM t (d0.map normG) = .ok r →
      ∃ r', eval t (ops.map PatchOp.toSpec) = some r' ∧ untag r' = untag r := by
  have hread := readPatch_rerender L d0 hG ops hr
  refine ⟨hread, fun r hp => ?_⟩
  simp only [Gwf, Bool.and_eq_true] at hG
  have hall := List.all_eq_true.1 hG.1
  refine read_patch_never_more_permissive L hw hl hv hread
    ⟨ops, by rw [rerender_map_normG hG.1]; exact hr, forall₂_opSim_refl ops⟩ ?_ hp
  intro h hm
  obtain ⟨h0, hm0, rfl⟩ := List.mem_map.1 hm
  exact hunkRange_normG (hall h0 hm0)


/-! ### 6.4 the grammar is recognised by the executable predicate -/


mutual
theorem jsonEqB_refl : ∀ a : Json, jsonEqB a a = true
  | .void => rfl
  | .null => rfl
  | .bool _ => by simp [jsonEqB]
  | .num _ => by simp [jsonEqB]
  | .str _ => by simp [jsonEqB]
  | .arr t xs => by simp [jsonEqB, jsonEqBList_refl xs]
  | .obj k => by simp [jsonEqB, jsonEqBKvs_refl k]
theorem jsonEqBList_refl : ∀ a : List Json, jsonEqBList a a = true
  | [] => rfl
  | x :: xs => by simp [jsonEqBList, jsonEqB_refl x, jsonEqBList_refl xs]
theorem jsonEqBKvs_refl : ∀ a : List (String × Json), jsonEqBKvs a a = true
  | [] => rfl
  | (k, x) :: xs => by simp [jsonEqBKvs, jsonEqB_refl x, jsonEqBKvs_refl xs]
end

theorem sameOpsB_refl : ∀ l : List PatchOp, sameOpsB l l = true
  | [] => rfl
  | a :: l => by simp [sameOpsB, opSimB, jsonEqB_refl, sameOpsB_refl l]

theorem hunkRangeB_complete {h : Hunk} (hr : HunkRange h) : hunkRangeB h = true := by
  simp only [hunkRangeB, Bool.and_eq_true, List.all_eq_true]
  constructor
  · intro e he
    cases e with
    | idx i => simpa using hr.path i he
    | _ => rfl
  · cases hl : lastIdx? h.path with
    | none => rfl
    | some i => simpa using hr.ctx i hl

/-- the grammar is inside the executable predicate: every patch in jd's own layout is recognised -/
theorem grammar_faithfulPatch (L : FloatLaws) {d0 : Diff} {ops : List PatchOp}
    (hG : Gwf d0 = true) (hr : rerender d0 = .ok ops) (hv : ∀ o ∈ ops, valueOK o.value = true) :
    faithfulPatch ops = true := by
  have hread := readPatch_rerender L d0 hG ops hr
  simp only [Gwf, Bool.and_eq_true] at hG
  have hall := List.all_eq_true.1 hG.1
  simp only [faithfulPatch, hread, rerender_map_normG hG.1, hr, sameOpsB_refl, Bool.and_true,
    Bool.and_eq_true, List.all_eq_true]
  refine ⟨hv, ?_⟩
  intro h hm
  obtain ⟨h0, hm0, rfl⟩ := List.mem_map.1 hm
  exact hunkRangeB_complete (hunkRange_normG (hall h0 hm0))


/-! ## 7. every patch the new reader accepts is faithful -/

/-! ### 7.1 the reader's path comparison is equality on canonical paths -/

theorem intToFloatBits_inj {i j : Int} (hi : i.natAbs < 2 ^ 53) (hj : j.natAbs < 2 ^ 53)
    (h : intToFloatBits i = intToFloatBits j) : i = j := by
  have := congrArg floatTrunc h
  rwa [floatTrunc_intToFloatBits hi, floatTrunc_intToFloatBits hj] at this

theorem intToFloatBits_ne_negZero {i : Int} (hi : i.natAbs < 2 ^ 53) :
    intToFloatBits i ≠ negZeroBits := by
  intro h
  have h1 := congrArg floatTrunc h
  rw [floatTrunc_intToFloatBits hi] at h1
  have h0 : floatTrunc negZeroBits = 0 := by decide
  rw [h0] at h1
  subst h1
  revert h
  decide

/-- the element of `Path.JsonNode()` for one path element -/
def pj (e : PathElem) : Json :=
  match e with
  | .key k => .str k
  | .idx i => .num (intToFloatBits i)
  | .set => .obj []
  | .mset => .arr .raw []
  | .setKeys o => .obj o
  | .msetKeys o => .arr .raw [.obj o]

theorem pathToJson_eq (p : Path) : pathToJson p = .arr .raw (p.map pj) := by
  unfold pathToJson
  congr 1

theorem elem_eq_of_equals (F : FloatEq0) {e e' : PathElem} (he : elemOKr e = true)
    (he' : elemOKr e' = true) (h : equals [] (pj e) (pj e') = true) : e = e' := by
  cases e with
  | key k =>
    cases e' with
    | key k' => simp only [pj, equals, beq_iff_eq] at h; rw [h]
    | idx j => simp [pj, equals] at h
    | _ => simp [elemOKr] at he'
  | idx i =>
    cases e' with
    | key k' => simp [pj, equals] at h
    | idx j =>
      simp only [elemOKr, Bool.and_eq_true, decide_eq_true_eq] at he he'
      have hi : i.natAbs < 2 ^ 53 := by omega
      have hj : j.natAbs < 2 ^ 53 := by omega
      simp only [pj, equals, precOf] at h
      have := F.eq_of_within0 _ _ (finiteBits_intToFloatBits hi) (finiteBits_intToFloatBits hj)
        (intToFloatBits_ne_negZero hi) (intToFloatBits_ne_negZero hj) h
      rw [intToFloatBits_inj hi hj this]
    | _ => simp [elemOKr] at he'
  | _ => simp [elemOKr] at he

theorem pathEq_eq_r (F : FloatEq0) : ∀ {p q : Path}, pathOKr p = true → pathOKr q = true →
    pathEq p q = true → p = q := by
  intro p q hp hq h
  unfold pathEq at h
  rw [pathToJson_eq, pathToJson_eq, equals_arr_list (o := []) rfl _ _ (by rfl) (by rfl)] at h
  induction p generalizing q with
  | nil =>
    cases q with
    | nil => rfl
    | cons e' q => simp [equalsList] at h
  | cons e p ih =>
    cases q with
    | nil => simp [equalsList] at h
    | cons e' q =>
      simp only [pathOKr, List.all_cons, Bool.and_eq_true] at hp hq
      simp only [List.map_cons, equalsList, Bool.and_eq_true] at h
      rw [elem_eq_of_equals F hp.1 hq.1 h.1, ih hp.2 hq.2 h.2]

/-- the former statement (paths `writePointer` can express), kept under its name -/
theorem pathEq_eq (F : FloatEq0) {p q : Path} (hp : pathOK' p = true) (hq : pathOK' q = true)
    (h : pathEq p q = true) : p = q :=
  pathEq_eq_r F (pathOKr_of_pathOK' hp) (pathOKr_of_pathOK' hq) h

theorem pathOK'_append {p q : Path} : pathOK' (p ++ q) = (pathOK' p && pathOK' q) := by
  simp [pathOK', List.all_append]

/-! ### 7.2 canonical pointers -/

/-- **canonical pointer text**: `readPointer` accepts it, the path consists of object keys and
    array indices in [−1, 2^53) (−1 = the token `-`), and `writePointerPath` writes the path back as
    the SAME text. Excludes exactly the token spellings jd reads but never writes: index tokens with a
    sign or leading zeros (`01`, `-1`, `+0`), indices of magnitude ≥ 2^53, and `~` not followed by
    `0` or `1` (the token `~2`, written back as `~02`). -/
def canonPtr (s : String) : Bool :=
  match readPointer s with
  | .ok p => pathOK' p && (match writePointerPath p with | .ok s' => s' == s | _ => false)
  | _ => false

theorem canonPtr_ok {s : String} {p : Path} (h : canonPtr s = true) (hr : readPointer s = .ok p) :
    pathOK' p = true ∧ writePointerPath p = .ok s := by
  unfold canonPtr at h
  rw [hr] at h
  simp only [Bool.and_eq_true] at h
  refine ⟨h.1, ?_⟩
  cases hw : writePointerPath p with
  | ok s' => rw [hw] at h; simp only [beq_iff_eq] at h; rw [h.2]
  | err => rw [hw] at h; simp at h
  | panic => rw [hw] at h; simp at h

/-- what jd writes for a path of keys and indices in [−1, 2^53) is canonical -/
theorem canonPtr_of_write {p : Path} {s : String} (hp : pathOK' p = true)
    (hw : writePointerPath p = .ok s) : canonPtr s = true := by
  simp [canonPtr, readPointer_write' hp hw, hp, hw]

/-- **the pointer hypothesis of the main theorem after the repair D30**: IF `readPointer` accepts the
    text, THEN the path read consists of member names (any) and indices in [−1, 2^53), and the text is
    the path written token by token (`wpL`: escaped member names, decimal indices, `-`). A text the
    reader rejects satisfies it: no accepted patch contains one. It follows from `canonPtr`
    (`ptrOKr_of_canonPtr`) and — the point — from a condition on the index tokens alone
    (`ptrOKr_of_idxTokens`, section 7.10): the repaired reader is injective. -/
def ptrOKr (s : String) : Bool :=
  match readPointer s with
  | .ok p => pathOKr p && (match wpL p with | .ok s' => s' == s | _ => false)
  | _ => true

theorem ptrOKr_ok {s : String} {p : Path} (h : ptrOKr s = true) (hr : readPointer s = .ok p) :
    pathOKr p = true ∧ wpL p = .ok s := by
  unfold ptrOKr at h
  rw [hr] at h
  simp only [Bool.and_eq_true] at h
  refine ⟨h.1, ?_⟩
  cases hw : wpL p with
  | ok s' => rw [hw] at h; simp only [beq_iff_eq] at h; rw [h.2]
  | err => rw [hw] at h; simp at h
  | panic => rw [hw] at h; simp at h

theorem ptrOKr_of_canonPtr {s : String} (h : canonPtr s = true) : ptrOKr s = true := by
  unfold ptrOKr
  cases hr : readPointer s with
  | ok p =>
    obtain ⟨h1, h2⟩ := canonPtr_ok h hr
    simp [pathOKr_of_pathOK' h1, wpL_of_write h2]
  | err => rfl
  | panic => rfl

theorem ptrOKr_of_write {p : Path} {s : String} (hp : pathOK' p = true)
    (hw : writePointerPath p = .ok s) : ptrOKr s = true :=
  ptrOKr_of_canonPtr (canonPtr_of_write hp hw)

/-! ### 7.3 the operations consumed for one diff element -/

def ctxList (c : PatchCtx) : List PatchOp := c.before.toList ++ c.after.toList

/-- the added values in the order of their `add` operations -/
def addPart (h : Hunk) : List Json := if lastIdx? h.path == some (-1) then h.add else h.add.reverse

/-- the `test`/`remove` pairs and the `add`s of a diff element at the pointer text `sp` -/
def editOps (sp : String) (h : Hunk) : List PatchOp := remPairs sp h.remove ++ addRun sp (addPart h)

/-- a context line of the element and the operation remembered for it -/
def CtxSide (t : Option PatchOp) (l : List Json) : Prop :=
  match t with
  | none => l = [] ∨ l = [.void]
  | some t => l = [t.value] ∧ t.value.isVoid = false ∧ ptrOKr t.path = true

/-- **the operations `s` the reader consumed for the diff element `h` whose context operations are
    `c`**: up to `OpSim`, the remembered context operations followed by the `test`/`remove` pairs and
    the `add`s at the pointer text `sp` that jd writes for `h.path` -/
structure SegP (sp : String) (s : List PatchOp) (h : Hunk) (c : PatchCtx) : Prop where
  wr : wpL h.path = .ok sp
  pok : pathOKr h.path = true
  sim : List.Forall₂ OpSim (ctxList c ++ editOps sp h) s
  vals : ∀ v ∈ h.remove ++ h.add, v.isVoid = false
  before : CtxSide c.before h.before
  after : CtxSide c.after h.after
  nonEmpty : (h.remove.isEmpty && h.add.isEmpty) = false
  appendNoCtx : lastIdx? h.path = some (-1) → h.remove = [] → c.before = none ∧ c.after = none

def Seg (s : List PatchOp) (h : Hunk) (c : PatchCtx) : Prop := ∃ sp, SegP sp s h c

theorem forall₂_append {α β} {R : α → β → Prop} {a a' : List α} {b b' : List β}
    (h1 : List.Forall₂ R a b) (h2 : List.Forall₂ R a' b') : List.Forall₂ R (a ++ a') (b ++ b') := by
  induction h1 with
  | nil => exact h2
  | cons h _ ih => exact .cons h ih

theorem forall₂_length {α β} {R : α → β → Prop} {a : List α} {b : List β}
    (h : List.Forall₂ R a b) : a.length = b.length := by
  induction h with
  | nil => rfl
  | cons _ _ ih => simp [ih]

theorem opSim_adp {q : PatchOp} (hq : q.op = "add") : OpSim (adp q.path q.value) q :=
  ⟨hq.symm, rfl, fun _ => rfl⟩

theorem opSim_tst {q : PatchOp} (hq : q.op = "test") : OpSim (tst q.path q.value) q :=
  ⟨hq.symm, rfl, fun _ => rfl⟩

theorem opSim_rmv {q r : PatchOp} (hr : r.op = "remove") (hp : r.path = q.path) :
    OpSim (rmv q.path q.value) r :=
  ⟨hr.symm, hp.symm, fun h => absurd rfl h⟩

theorem addPart_single {path : Path} {b a : List Json} {v : Json} {m : Bool} {r : List Json} :
    addPart { merge := m, path := path, before := b, after := a, remove := r, add := [v] } = [v] := by
  unfold addPart; split <;> rfl

/-- an element that adds one value -/
theorem segP_add {cx : PatchCtx} {q : PatchOp} {path : Path} {before after : List Json}
    (hq : q.op = "add") (hp : readPointer q.path = .ok path) (hcan : ptrOKr q.path = true)
    (hv : q.value.isVoid = false) (hb : CtxSide cx.before before) (ha : CtxSide cx.after after)
    (happ : lastIdx? path = some (-1) → cx.before = none ∧ cx.after = none) :
    SegP q.path (ctxList cx ++ [q])
      { path := path, before := before, after := after, add := [q.value] } cx := by
  obtain ⟨hok, hwr⟩ := ptrOKr_ok hcan hp
  refine ⟨hwr, hok, ?_, ?_, hb, ha, rfl, fun h _ => happ h⟩
  · refine forall₂_append (forall₂_opSim_refl _) ?_
    simp only [editOps, remPairs, List.flatMap_nil, List.nil_append, addPart_single, addRun,
      List.map_cons, List.map_nil]
    exact .cons (opSim_adp hq) .nil
  · intro v hm
    simp only [List.nil_append, List.mem_singleton] at hm
    subst hm; exact hv

/-- an element that removes one value -/
theorem segP_rem {cx : PatchCtx} {q r : PatchOp} {path : Path} {before after : List Json}
    (hq : q.op = "test") (hr : r.op = "remove") (hrp : r.path = q.path)
    (hp : readPointer q.path = .ok path) (hcan : ptrOKr q.path = true)
    (hv : q.value.isVoid = false) (hb : CtxSide cx.before before) (ha : CtxSide cx.after after) :
    SegP q.path (ctxList cx ++ [q, r])
      { path := path, before := before, after := after, remove := [q.value] } cx := by
  obtain ⟨hok, hwr⟩ := ptrOKr_ok hcan hp
  refine ⟨hwr, hok, ?_, ?_, hb, ha, rfl, fun _ h => by simp at h⟩
  · refine forall₂_append (forall₂_opSim_refl _) ?_
    have : addPart { path := path, before := before, after := after, remove := [q.value] } = [] := by
      unfold addPart; split <;> rfl
    simp only [editOps, remPairs, this, addRun, List.map_nil, List.append_nil, List.flatMap_cons,
      List.flatMap_nil]
    exact .cons (opSim_tst hq) (.cons (opSim_rmv hr hrp) .nil)
  · intro v hm
    simp only [List.append_nil, List.mem_singleton] at hm
    subst hm; exact hv

theorem ctxSide_none_nil : CtxSide none [] := Or.inl rfl
theorem ctxSide_none_void : CtxSide none [.void] := Or.inr rfl
theorem ctxSide_some {c : PatchOp} (hv : c.value.isVoid = false) (hc : ptrOKr c.path = true) :
    CtxSide (some c) [c.value] := ⟨rfl, hv, hc⟩

theorem not_append_of_ctxOK {path : Path} {b a : List Json}
    (h : appendCtxOK path b a) (hr : (b.any (fun n => !n.isVoid) || a.any (fun n => !n.isVoid)) = true) :
    ¬ lastIdx? path = some (-1) := by
  intro hl
  unfold appendCtxOK at h
  rw [hl, hr] at h
  simp at h

/-- every shape is a segment -/
theorem seg_of_shape {g : List PatchOp} {e : Hunk} {c : PatchCtx} (hs : Shape g e c)
    (hg : ∀ o ∈ g, o.value.isVoid = false ∧ ptrOKr o.path = true) : Seg g e c := by
  cases hs with
  | @add q path hq hp =>
    have h := hg q (by simp)
    exact ⟨q.path, segP_add (cx := {}) hq hp h.2 h.1 ctxSide_none_nil ctxSide_none_nil (fun _ => ⟨rfl, rfl⟩)⟩
  | @remKey q r path hq hr hrp _ hp _ =>
    have h := hg q (by simp)
    exact ⟨q.path, segP_rem (cx := {}) hq hr hrp hp h.2 h.1 ctxSide_none_nil ctxSide_none_nil⟩
  | @remIdx q r path i hq hr hrp _ hp _ =>
    have h := hg q (by simp)
    exact ⟨q.path, segP_rem (cx := {}) hq hr hrp hp h.2 h.1 ctxSide_none_void ctxSide_none_void⟩
  | @afterAdd c q pc path i hc hq hpc hp _ _ hap =>
    have h := hg q (by simp)
    have h' := hg c (by simp)
    exact ⟨q.path, segP_add (cx := { after := some c }) hq hp h.2 h.1 ctxSide_none_void
      (ctxSide_some h'.1 h'.2)
      (fun hl => absurd hl (not_append_of_ctxOK hap (by simp [h'.1])))⟩
  | @beforeAdd c q pc path i hc hq hpc hp _ _ hap =>
    have h := hg q (by simp)
    have h' := hg c (by simp)
    exact ⟨q.path, segP_add (cx := { before := some c }) hq hp h.2 h.1 (ctxSide_some h'.1 h'.2)
      ctxSide_none_void
      (fun hl => absurd hl (not_append_of_ctxOK hap (by simp [h'.1])))⟩
  | @bothAdd c0 c1 q p0 p1 path f s t hc hq hp0 hp1 hp _ _ _ _ hap =>
    have h := hg q (by simp)
    have h0 := hg c0 (by simp)
    have h1 := hg c1 (by simp)
    exact ⟨q.path, segP_add (cx := { before := some c0, after := some c1 }) hq hp h.2 h.1
      (ctxSide_some h0.1 h0.2) (ctxSide_some h1.1 h1.2)
      (fun hl => absurd hl (not_append_of_ctxOK hap (by simp [h0.1])))⟩
  | @bothRem c0 c1 q r p0 p1 path f s t hc hq hr hrp _ hp0 hp1 hp _ _ _ _ =>
    have h := hg q (by simp)
    have h0 := hg c0 (by simp)
    have h1 := hg c1 (by simp)
    exact ⟨q.path, segP_rem (cx := { before := some c0, after := some c1 }) hq hr hrp hp h.2 h.1
      (ctxSide_some h0.1 h0.2) (ctxSide_some h1.1 h1.2)⟩
  | @afterRem c q r pc path f s hc hq hr hrp _ hpc hp _ _ _ =>
    have h := hg q (by simp)
    have h' := hg c (by simp)
    exact ⟨q.path, segP_rem (cx := { after := some c }) hq hr hrp hp h.2 h.1 ctxSide_none_void
      (ctxSide_some h'.1 h'.2)⟩
  | @beforeRem c q r pc path f s hc hq hr hrp _ hpc hp _ _ _ =>
    have h := hg q (by simp)
    have h' := hg c (by simp)
    exact ⟨q.path, segP_rem (cx := { before := some c }) hq hr hrp hp h.2 h.1 (ctxSide_some h'.1 h'.2)
      ctxSide_none_void⟩


/-! ### 7.4 coalescing -/

theorem addRun_append (s : String) (a b : List Json) : addRun s (a ++ b) = addRun s a ++ addRun s b := by
  simp [addRun]

theorem remPairs_append (s : String) (a b : List Json) :
    remPairs s (a ++ b) = remPairs s a ++ remPairs s b := by
  simp [remPairs]

/-- an `add` element coalesced into the element before it -/
theorem segP_merge_add (F : FloatEq0) {sp : String} {s : List PatchOp} {last e : Hunk} {c : PatchCtx}
    {q : PatchOp} (hS : SegP sp s last c) (hq : q.op = "add") (hp : readPointer q.path = .ok e.path)
    (hcan : ptrOKr q.path = true) (hv : q.value.isVoid = false)
    (hr : e.remove = []) (ha : e.add = [q.value])
    (heq : pathEq last.path e.path = true) :
    SegP sp (s ++ [q])
      { last with remove := last.remove ++ e.remove,
                  add := if lastIdx? e.path == some (-1) then last.add ++ e.add else e.add ++ last.add }
      c := by
  obtain ⟨hok, hwr⟩ := ptrOKr_ok hcan hp
  have hpath : last.path = e.path := pathEq_eq_r F hS.pok hok heq
  have hsp : q.path = sp := by
    have := hS.wr
    rw [hpath, hwr] at this
    injection this
  have hvals := hS.vals
  simp only [List.mem_append] at hvals
  refine ⟨hS.wr, hS.pok, ?_, ?_, hS.before, hS.after, ?_, ?_⟩
  · have hedit : editOps sp
        { last with remove := last.remove ++ e.remove,
                    add := if lastIdx? e.path == some (-1) then last.add ++ e.add else e.add ++ last.add }
        = editOps sp last ++ [adp sp q.value] := by
      simp only [editOps, addPart, hr, ha, List.append_nil, ← hpath]
      split
      · simp [addRun]
      · simp [addRun]
    rw [hedit, ← List.append_assoc]
    refine forall₂_append hS.sim (.cons ?_ .nil)
    rw [← hsp]
    exact opSim_adp hq
  · intro v hm
    simp only [hr, ha, List.append_nil, List.mem_append] at hm
    rcases hm with hm | hm
    · exact hvals v (Or.inl hm)
    · split at hm
      · simp only [List.mem_append, List.mem_singleton] at hm
        rcases hm with hm | rfl
        · exact hvals v (Or.inr hm)
        · exact hv
      · simp only [List.cons_append, List.nil_append, List.mem_cons] at hm
        rcases hm with rfl | hm
        · exact hv
        · exact hvals v (Or.inr hm)
  · simp only [ha, Bool.and_eq_false_iff]
    right
    split <;> simp
  · intro hl hrem
    simp only [hr, List.append_nil] at hrem
    exact hS.appendNoCtx hl hrem

/-- a `test`/`remove` element coalesced into the element before it (which does not add) -/
theorem segP_merge_rem (F : FloatEq0) {sp : String} {s : List PatchOp} {last e : Hunk} {c : PatchCtx}
    {q r : PatchOp} (hS : SegP sp s last c) (hq : q.op = "test") (hrr : r.op = "remove")
    (hrp : r.path = q.path) (hp : readPointer q.path = .ok e.path)
    (hcan : ptrOKr q.path = true) (hv : q.value.isVoid = false)
    (hr : e.remove = [q.value]) (ha : e.add = []) (hla : last.add = [])
    (heq : pathEq last.path e.path = true) :
    SegP sp (s ++ [q, r])
      { last with remove := last.remove ++ e.remove,
                  add := if lastIdx? e.path == some (-1) then last.add ++ e.add else e.add ++ last.add }
      c := by
  obtain ⟨hok, hwr⟩ := ptrOKr_ok hcan hp
  have hpath : last.path = e.path := pathEq_eq_r F hS.pok hok heq
  have hsp : q.path = sp := by
    have := hS.wr
    rw [hpath, hwr] at this
    injection this
  have hvals := hS.vals
  simp only [List.mem_append] at hvals
  have hadd : (if lastIdx? e.path == some (-1) then last.add ++ e.add else e.add ++ last.add) = [] := by
    rw [ha, hla]; split <;> rfl
  rw [hadd]
  refine ⟨hS.wr, hS.pok, ?_, ?_, hS.before, hS.after, ?_, ?_⟩
  · have hedit : editOps sp { last with remove := last.remove ++ e.remove, add := [] }
        = editOps sp last ++ [tst sp q.value, rmv sp q.value] := by
      have h1 : ∀ R, addPart { last with remove := R, add := [] } = [] := by
        intro R; unfold addPart; split <;> rfl
      have h2 : addPart last = [] := by
        unfold addPart; rw [hla]; split <;> rfl
      simp only [editOps, h1, h2, hr, remPairs_append, addRun, List.map_nil, List.append_nil]
      simp [remPairs]
    rw [hedit, ← List.append_assoc]
    refine forall₂_append hS.sim (.cons ?_ (.cons ?_ .nil))
    · rw [← hsp]; exact opSim_tst hq
    · rw [← hsp]; exact opSim_rmv hrr hrp
  · intro v hm
    simp only [hr, List.append_nil, List.mem_append, List.mem_singleton] at hm
    rcases hm with hm | rfl
    · exact hvals v (Or.inl hm)
    · exact hv
  · simp [hr]
  · intro _ hrem
    simp [hr] at hrem

/-! ### 7.5 the two loops, in step -/

/-- the coalescing step of `readPatchCtxLoop` on the list of contexts -/
def pushCtx (acc : Diff) (e : Hunk) (cs : List PatchCtx) (c : PatchCtx) : List PatchCtx :=
  match acc.getLast? with
  | none => cs ++ [c]
  | some last =>
    if equals [] (pathToJson last.path) (pathToJson e.path) && !(hasContext e) &&
       !(!e.remove.isEmpty && !last.add.isEmpty) then cs
    else cs ++ [c]

theorem readPatchCtxLoop_cons (fuel : Nat) (o : PatchOp) (patch : List PatchOp) (acc : Diff)
    (cs : List PatchCtx) :
    readPatchCtxLoop (fuel + 1) (o :: patch) acc cs =
      match readPatchHunk (o :: patch) with
      | .err => .err
      | .panic => .panic
      | .ok (e, rest) =>
        readPatchCtxLoop fuel rest (pushElem acc e) (pushCtx acc e cs (ctxOf (o :: patch))) := by
  rw [readPatchCtxLoop]
  cases readPatchHunk (o :: patch) with
  | err => rfl
  | panic => rfl
  | ok x =>
    obtain ⟨e, rest⟩ := x
    simp only [pushElem, pushCtx]
    cases acc.getLast? with
    | none => rfl
    | some last =>
      simp only
      split <;> rfl
  · intro h; cases h

/-- the second loop fails only where the first one does -/
theorem readPatchCtxLoop_ok : ∀ (fuel : Nat) (patch : List PatchOp) (acc d : Diff) (cs : List PatchCtx),
    readPatchLoop fuel patch acc = .ok d → ∃ cs', readPatchCtxLoop fuel patch acc cs = .ok cs'
  | 0, _, _, _, _, h => by simp [readPatchLoop] at h
  | fuel + 1, [], acc, d, cs, _ => ⟨cs, by simp [readPatchCtxLoop]⟩
  | fuel + 1, o :: patch, acc, d, cs, h => by
    rw [readPatchLoop_cons] at h
    rw [readPatchCtxLoop_cons]
    cases hr : readPatchHunk (o :: patch) with
    | err => rw [hr] at h; cases h
    | panic => rw [hr] at h; cases h
    | ok x =>
      obtain ⟨e, rest⟩ := x
      rw [hr] at h
      exact readPatchCtxLoop_ok fuel rest _ d _ h

/-- the diff elements built so far, each with its context operations and the operations consumed
    for it -/
def Segs (pre : List PatchOp) (acc : Diff) (cs : List PatchCtx) : Prop :=
  ∃ segs : List (List PatchOp × Hunk × PatchCtx),
    pre = segs.flatMap (·.1) ∧ acc = segs.map (·.2.1) ∧ cs = segs.map (·.2.2) ∧
    ∀ x ∈ segs, Seg x.1 x.2.1 x.2.2

theorem hasContext_of_before {e : Hunk} {v : Json} (h : e.before = [v]) (hv : v.isVoid = false) :
    hasContext e = true := by
  simp [hasContext, h, hv]

theorem hasContext_of_after {e : Hunk} {v : Json} (h : e.after = [v]) (hv : v.isVoid = false) :
    hasContext e = true := by
  simp [hasContext, h, hv]

/-- one step of the two loops keeps the segments -/
theorem push_segs (F : FloatEq0) {pre : List PatchOp} {acc : Diff} {cs : List PatchCtx}
    {g : List PatchOp} {e : Hunk} {c0 : PatchCtx} (hS : Segs pre acc cs) (hsh : Shape g e c0)
    (hg : ∀ o ∈ g, o.value.isVoid = false ∧ ptrOKr o.path = true) :
    Segs (pre ++ g) (pushElem acc e) (pushCtx acc e cs c0) := by
  obtain ⟨segs, rfl, rfl, rfl, hall⟩ := hS
  have hnew : Seg g e c0 := seg_of_shape hsh hg
  rcases eq_nil_or_snoc segs with rfl | ⟨init, x, rfl⟩
  · refine ⟨[(g, e, c0)], by simp, by simp [pushElem], by simp [pushCtx], ?_⟩
    intro y hy
    simp only [List.mem_singleton] at hy
    subst hy; exact hnew
  · have hlast : (List.map (fun x => x.2.1) (init ++ [x])).getLast? = some x.2.1 := by simp
    unfold pushElem pushCtx
    rw [hlast]
    simp only
    split
    · -- coalesced
      rename_i hcond
      simp only [Bool.and_eq_true, Bool.not_eq_true', Bool.and_eq_false_iff, Bool.not_eq_false',
        List.isEmpty_iff] at hcond
      obtain ⟨⟨heq, hctx⟩, hguard⟩ := hcond
      obtain ⟨sp, hx⟩ := hall x (by simp)
      have hmerged : Seg (x.1 ++ g)
          { x.2.1 with remove := x.2.1.remove ++ e.remove,
                       add := if lastIdx? e.path == some (-1) then x.2.1.add ++ e.add
                              else e.add ++ x.2.1.add } x.2.2 := by
        cases hsh with
        | @add q path hq hp =>
          have h := hg q (by simp)
          exact ⟨sp, segP_merge_add F hx hq hp h.2 h.1 rfl rfl heq⟩
        | @remKey q r path hq hr hrp _ hp _ =>
          have h := hg q (by simp)
          have hla : x.2.1.add = [] := by
            rcases hguard with hg' | hg'
            · simp at hg'
            · exact hg'
          exact ⟨sp, segP_merge_rem F hx hq hr hrp hp h.2 h.1 rfl rfl hla heq⟩
        | @remIdx q r path i hq hr hrp _ hp _ =>
          have h := hg q (by simp)
          have hla : x.2.1.add = [] := by
            rcases hguard with hg' | hg'
            · simp at hg'
            · exact hg'
          exact ⟨sp, segP_merge_rem F hx hq hr hrp hp h.2 h.1 rfl rfl hla heq⟩
        | @afterAdd c q pc path i hc hq hpc hp _ _ hap =>
          rw [hasContext_of_after rfl (hg c (by simp)).1] at hctx; cases hctx
        | @beforeAdd c q pc path i hc hq hpc hp _ _ hap =>
          rw [hasContext_of_before rfl (hg c (by simp)).1] at hctx; cases hctx
        | @bothAdd c0 c1 q p0 p1 path f s t hc hq hp0 hp1 hp _ _ _ _ hap =>
          rw [hasContext_of_before rfl (hg c0 (by simp)).1] at hctx; cases hctx
        | @bothRem c0 c1 q r p0 p1 path f s t hc hq hr hrp _ hp0 hp1 hp _ _ _ _ =>
          rw [hasContext_of_before rfl (hg c0 (by simp)).1] at hctx; cases hctx
        | @afterRem c q r pc path f s hc hq hr hrp _ hpc hp _ _ _ =>
          rw [hasContext_of_after rfl (hg c (by simp)).1] at hctx; cases hctx
        | @beforeRem c q r pc path f s hc hq hr hrp _ hpc hp _ _ _ =>
          rw [hasContext_of_before rfl (hg c (by simp)).1] at hctx; cases hctx
      refine ⟨init ++ [(x.1 ++ g,
          { x.2.1 with remove := x.2.1.remove ++ e.remove,
                       add := if lastIdx? e.path == some (-1) then x.2.1.add ++ e.add
                              else e.add ++ x.2.1.add }, x.2.2)], by simp, by simp, by simp, ?_⟩
      intro y hy
      simp only [List.mem_append, List.mem_singleton] at hy
      rcases hy with hy | rfl
      · exact hall y (by simp [hy])
      · exact hmerged
    · refine ⟨init ++ [x] ++ [(g, e, c0)], by simp, by simp, by simp, ?_⟩
      intro y hy
      simp only [List.mem_append, List.mem_singleton] at hy
      rcases hy with hy | rfl
      · exact hall y (by simp only [List.mem_append, List.mem_singleton]; exact hy)
      · exact hnew

/-- **the two runs of the element loop, in step**: the diff read and the contexts remembered come
    with a partition of the operations into the segments consumed for each element -/
theorem loops_segs (F : FloatEq0) : ∀ (fuel : Nat) (patch : List PatchOp) (acc d : Diff)
    (cs cs' : List PatchCtx) (pre : List PatchOp),
    readPatchLoop fuel patch acc = .ok d → readPatchCtxLoop fuel patch acc cs = .ok cs' →
    (∀ o ∈ patch, o.value.isVoid = false ∧ ptrOKr o.path = true) →
    Segs pre acc cs → Segs (pre ++ patch) d cs'
  | 0, _, _, _, _, _, _, h, _, _, _ => by simp [readPatchLoop] at h
  | fuel + 1, [], acc, d, cs, cs', pre, h, h', _, hS => by
    simp only [readPatchLoop] at h
    simp only [readPatchCtxLoop] at h'
    injection h with h; injection h' with h'
    subst h; subst h'
    simpa using hS
  | fuel + 1, o :: patch, acc, d, cs, cs', pre, h, h', hv, hS => by
    rw [readPatchLoop_cons] at h
    rw [readPatchCtxLoop_cons] at h'
    cases hr : readPatchHunk (o :: patch) with
    | err => rw [hr] at h; cases h
    | panic => rw [hr] at h; cases h
    | ok x =>
      obtain ⟨e, rest⟩ := x
      rw [hr] at h h'
      simp only at h h'
      obtain ⟨g, hg, hsh⟩ := readPatchHunk_shape hr (fun o ho => (hv o ho).1)
      have hgv : ∀ o ∈ g, o.value.isVoid = false ∧ ptrOKr o.path = true := by
        intro o' ho'
        exact hv o' (by rw [hg]; exact List.mem_append_left _ ho')
      have hrv : ∀ o ∈ rest, o.value.isVoid = false ∧ ptrOKr o.path = true := by
        intro o' ho'
        exact hv o' (by rw [hg]; exact List.mem_append_right _ ho')
      have := loops_segs F fuel rest _ d _ cs' (pre ++ g) h h' hrv (push_segs F hS hsh hgv)
      rw [hg, ← List.append_assoc]
      exact this


/-! ### 7.6 the context check pins the context tests to what jd writes -/

/-- `check(test, offset)` of `checkPatchContext` on an optional context operation -/
def checkOne (h : Hunk) (t : Option PatchOp) (offset : Int) : Outcome Unit :=
  match t with
  | none => .ok ()
  | some t =>
    match ctxTestOK h t offset with
    | .ok true => .ok ()
    | .ok false => .err
    | .err => .err
    | .panic => .panic

theorem checkPatchCtx_eq (h : Hunk) (c : PatchCtx) :
    checkPatchCtx h c =
      (match checkOne h c.before (-1) with
       | .ok () => checkOne h c.after h.remove.length
       | e => e) := rfl

theorem checkPatchCtx_ok {h : Hunk} {c : PatchCtx} (hk : checkPatchCtx h c = .ok ()) :
    checkOne h c.before (-1) = .ok () ∧ checkOne h c.after h.remove.length = .ok () := by
  rw [checkPatchCtx_eq] at hk
  cases h1 : checkOne h c.before (-1) with
  | ok u => rw [h1] at hk; exact ⟨rfl, hk⟩
  | err => rw [h1] at hk; cases hk
  | panic => rw [h1] at hk; cases hk

/-- **what the check establishes**: the operation is a `test`, the element's path ends in an index
    `j ≥ 0`, and the pointer of the test is the text jd writes for the element's path with its last
    index moved to `j + offset` -/
theorem ctxTestOK_true (F : FloatEq0) {h : Hunk} {t : PatchOp} {off : Int}
    (hpok : pathOKr h.path = true) (hcan : ptrOKr t.path = true)
    (hk : ctxTestOK h t off = .ok true) :
    t.op = "test" ∧ ∃ j, lastIdx? h.path = some j ∧ 0 ≤ j ∧
      wpL (setLastIdx h.path (j + off)) = .ok t.path := by
  unfold ctxTestOK at hk
  cases hr : readPointer t.path with
  | err => rw [hr] at hk; cases hk
  | panic => rw [hr] at hk; cases hk
  | ok p =>
    rw [hr] at hk
    simp only at hk
    injection hk with hk
    obtain ⟨hok, hwr⟩ := ptrOKr_ok hcan hr
    simp only [Bool.and_eq_true, beq_iff_eq] at hk
    obtain ⟨⟨⟨hop, _⟩, hlen⟩, hm⟩ := hk
    refine ⟨hop, ?_⟩
    cases hi : lastIdx? p with
    | none => rw [hi] at hm; simp at hm
    | some i =>
      cases hj : lastIdx? h.path with
      | none => rw [hi, hj] at hm; simp at hm
      | some j =>
        rw [hi, hj] at hm
        simp only [Bool.and_eq_true, decide_eq_true_eq, beq_iff_eq] at hm
        obtain ⟨⟨hj0, hij⟩, heq⟩ := hm
        obtain ⟨pp, rfl⟩ := lastIdx_snoc hi
        obtain ⟨hp, hhp⟩ := lastIdx_snoc hj
        rw [hhp] at heq hpok ⊢
        simp only [List.dropLast_concat] at heq
        rw [pathOKr_append, Bool.and_eq_true] at hok hpok
        have : pp = hp := pathEq_eq_r F hok.1 hpok.1 heq
        subst this
        refine ⟨j, rfl, hj0, ?_⟩
        rw [setLastIdx_concat, ← hij]
        exact hwr

/-- the context test jd writes for a context line = the operation the reader remembered for it -/
theorem ctxOps_of_side (F : FloatEq0) {h : Hunk} {t : Option PatchOp} {l : List Json} {off : Int}
    {f : Int → Int} (hf : ∀ i, f i = i + off) (hpok : pathOKr h.path = true) (hs : CtxSide t l)
    (hk : checkOne h t off = .ok ()) : ctxOpsW wpL h l f = .ok t.toList ∧ l.length ≤ 1 := by
  cases t with
  | none =>
    rcases hs with rfl | rfl
    · exact ⟨rfl, by simp⟩
    · exact ⟨by simp [ctxOpsW, Json.isVoid], by simp⟩
  | some t =>
    obtain ⟨rfl, hv, hcan⟩ := hs
    refine ⟨?_, by simp⟩
    simp only [checkOne] at hk
    cases hc : ctxTestOK h t off with
    | err => rw [hc] at hk; cases hk
    | panic => rw [hc] at hk; cases hk
    | ok b =>
      rw [hc] at hk
      cases b with
      | false => cases hk
      | true =>
        obtain ⟨hop, j, hj, _, hwr⟩ := ctxTestOK_true F hpok hcan hc
        have hne : h.path.isEmpty = false := isEmpty_of_lastIdx hj
        simp only [ctxOpsW, hv, Bool.false_eq_true, if_false, hne, hj, hf, hwr]
        cases t
        simp only at hop
        subst hop
        rfl

/-- **one element**: the operations consumed for it are, up to `OpSim`, what jd writes for it -/
theorem seg_rerender (F : FloatEq0) {s : List PatchOp} {h : Hunk} {c : PatchCtx} (hS : Seg s h c)
    (hk : checkPatchCtx h c = .ok ()) (happ : lastIdx? h.path = some (-1) → h.remove = []) :
    ∃ ops', rerenderHunk h = .ok ops' ∧ List.Forall₂ OpSim ops' s := by
  obtain ⟨sp, hS⟩ := hS
  have hvals := hS.vals
  simp only [List.mem_append] at hvals
  by_cases hl : lastIdx? h.path = some (-1)
  · have hrem := happ hl
    obtain ⟨hcb, hca⟩ := hS.appendNoCtx hl hrem
    refine ⟨h.add.map (adp sp), ?_, ?_⟩
    · simp [rerenderHunk, hl, hS.wr]
    · have := hS.sim
      simpa [ctxList, hcb, hca, editOps, hrem, remPairs, addRun, addPart, hl] using this
  · obtain ⟨hk1, hk2⟩ := checkPatchCtx_ok hk
    obtain ⟨hb, hbl⟩ := ctxOps_of_side F (f := fun i => i - 1) (fun i => by omega) hS.pok hS.before hk1
    obtain ⟨ha, hal⟩ := ctxOps_of_side F (f := fun i => i + (h.remove.length : Int)) (fun i => rfl)
      hS.pok hS.after hk2
    have hl' : (lastIdx? h.path == some (-1)) = false := by simpa using hl
    refine ⟨ctxList c ++ editOps sp h, ?_, hS.sim⟩
    simp only [rerenderHunk, hl', Bool.false_eq_true, if_false]
    unfold renderPatchHunkW
    have h1 : ¬ h.before.length > 1 := by omega
    have h2 : ¬ h.after.length > 1 := by omega
    simp only [hS.wr, Outcome.bind_ok, hS.nonEmpty, Bool.false_eq_true, if_false, h1, h2, hb, ha]
    rw [remOpsOf_eq (fun x hx => hvals x (Or.inl hx)), addOpsOf_eq (fun x hx => hvals x (Or.inr hx))]
    simp only [ctxList, editOps, remPairs, addRun, addPart, hl', Bool.false_eq_true, if_false, tst,
      rmv, List.append_assoc]
    rfl

theorem checkPatchCtxs_cons {h : Hunk} {d : Diff} {c : PatchCtx} {cs : List PatchCtx}
    (hk : checkPatchCtxs (h :: d) (c :: cs) = .ok ()) :
    checkPatchCtx h c = .ok () ∧ checkPatchCtxs d cs = .ok () := by
  simp only [checkPatchCtxs] at hk
  cases h1 : checkPatchCtx h c with
  | ok u => rw [h1] at hk; exact ⟨rfl, hk⟩
  | err => rw [h1] at hk; cases hk
  | panic => rw [h1] at hk; cases hk

theorem faithful_of_segs (F : FloatEq0) : ∀ (segs : List (List PatchOp × Hunk × PatchCtx)),
    (∀ x ∈ segs, Seg x.1 x.2.1 x.2.2) →
    checkPatchCtxs (segs.map (·.2.1)) (segs.map (·.2.2)) = .ok () →
    (∀ x ∈ segs, lastIdx? x.2.1.path = some (-1) → x.2.1.remove = []) →
    ∃ ops', rerender (segs.map (·.2.1)) = .ok ops' ∧ List.Forall₂ OpSim ops' (segs.flatMap (·.1))
  | [], _, _, _ => ⟨[], rfl, .nil⟩
  | x :: segs, hall, hk, happ => by
    simp only [List.map_cons] at hk
    obtain ⟨hk1, hk2⟩ := checkPatchCtxs_cons hk
    obtain ⟨a, ha, hsa⟩ := seg_rerender F (hall x (by simp)) hk1 (happ x (by simp))
    obtain ⟨b, hb, hsb⟩ := faithful_of_segs F segs (fun y hy => hall y (by simp [hy])) hk2
      (fun y hy => happ y (by simp [hy]))
    refine ⟨a ++ b, ?_, ?_⟩
    · simp only [List.map_cons, rerender, ha, hb]
    · simp only [List.flatMap_cons]
      exact forall₂_append hsa hsb

/-! ### 7.7 an element at the append index that removes never applies -/

theorem lastIdx_cons_cons (e e' : PathElem) (r : Path) : lastIdx? (e :: e' :: r) = lastIdx? (e' :: r) := by
  simp [lastIdx?, List.getLast?_cons_cons]

theorem applyStrict_append_remove : ∀ (p : Path) {n r : Json} {h : Hunk},
    applyStrict n p h = some r → lastIdx? p = some (-1) → h.remove = []
  | [], _, _, _, _, hl => by simp [lastIdx?] at hl
  | [.idx i], n, r, h, e, hl => by
    have : i = -1 := by simpa [lastIdx?] using hl
    subst this
    rw [applyStrict_idx_nil] at e
    cases n with
    | arr tg xs =>
      simp only [Option.map_eq_some_iff] at e
      obtain ⟨l', e, _⟩ := e
      unfold splice at e
      simp only [show ((-1 : Int) == -1) = true from rfl, if_true] at e
      split at e
      · rename_i hr; simpa using hr
      · cases e
    | _ => simp at e
  | .idx i :: e' :: rest, n, r, h, e, hl => by
    rw [lastIdx_cons_cons] at hl
    cases n with
    | arr tg xs =>
      simp only [applyStrict] at e
      split at e
      · cases e
      · split at e
        · rename_i x hx
          simp only [Option.map_eq_some_iff] at e
          obtain ⟨v, e, _⟩ := e
          exact applyStrict_append_remove (e' :: rest) e hl
        · cases e
    | _ => simp [applyStrict] at e
  | [.key k], _, _, _, _, hl => by simp [lastIdx?] at hl
  | .key k :: e' :: rest, n, r, h, e, hl => by
    rw [lastIdx_cons_cons] at hl
    cases n with
    | obj kvs =>
      simp only [applyStrict, Option.map_eq_some_iff] at e
      obtain ⟨v, e, _⟩ := e
      exact applyStrict_append_remove (e' :: rest) e hl
    | _ => simp [applyStrict] at e
  | .set :: _, _, _, _, e, _ => by simp [applyStrict] at e
  | .mset :: _, _, _, _, e, _ => by simp [applyStrict] at e
  | .setKeys _ :: _, _, _, _, e, _ => by simp [applyStrict] at e
  | .msetKeys _ :: _, _, _, _, e, _ => by simp [applyStrict] at e

theorem applyStrictAll_append_remove : ∀ (d : Diff) {n r : Json}, applyStrictAll n d = some r →
    ∀ h ∈ d, lastIdx? h.path = some (-1) → h.remove = []
  | [], _, _, _, h, hm, _ => by simp at hm
  | h0 :: d, n, r, e, h, hm, hl => by
    simp only [applyStrictAll] at e
    cases h1 : applyStrict n h0.path h0 with
    | none => rw [h1] at e; cases e
    | some r1 =>
      rw [h1] at e
      simp only [Option.bind_some] at e
      rcases List.mem_cons.1 hm with rfl | hm
      · exact applyStrict_append_remove _ h1 hl
      · exact applyStrictAll_append_remove d e h hm hl

/-! ### 7.8 the theorems -/

/-- **every patch the new reader accepts is faithful** (canonical pointer texts; the elements at the
    append index do not remove): re-rendering the diff that was read gives the operations back, up
    to the ignored value member of `remove` operations -/
theorem readPatchOps_faithful_r (F : FloatEq0) {ops : List PatchOp} {d : Diff}
    (hv : ∀ o ∈ ops, o.value.isVoid = false) (hc : ∀ o ∈ ops, ptrOKr o.path = true)
    (hread : readPatchOps ops = .ok d)
    (happ : ∀ h ∈ d, lastIdx? h.path = some (-1) → h.remove = []) : Faithful d ops := by
  obtain ⟨h1, cs, h2, h3⟩ := readPatchOps_ok hread
  have hS := loops_segs F (ops.length + 1) ops [] d [] cs [] h1 h2 (fun o ho => ⟨hv o ho, hc o ho⟩)
    ⟨[], rfl, rfl, rfl, by simp⟩
  obtain ⟨segs, hpre, rfl, rfl, hall⟩ := hS
  simp only [List.nil_append] at hpre
  rw [hpre]
  exact faithful_of_segs F segs hall h3 (fun x hx => happ x.2.1 (List.mem_map.2 ⟨x, hx, rfl⟩))

/-- the paths of the elements read from canonical pointers consist of keys and indices in [−1, 2^53) -/
theorem readPatchOps_pathOKr (F : FloatEq0) {ops : List PatchOp} {d : Diff}
    (hv : ∀ o ∈ ops, o.value.isVoid = false) (hc : ∀ o ∈ ops, ptrOKr o.path = true)
    (hread : readPatchOps ops = .ok d) : ∀ h ∈ d, pathOKr h.path = true := by
  obtain ⟨h1, cs, h2, _⟩ := readPatchOps_ok hread
  have hS := loops_segs F (ops.length + 1) ops [] d [] cs [] h1 h2 (fun o ho => ⟨hv o ho, hc o ho⟩)
    ⟨[], rfl, rfl, rfl, by simp⟩
  obtain ⟨segs, _, rfl, _, hall⟩ := hS
  intro h hm
  obtain ⟨x, hx, rfl⟩ := List.mem_map.1 hm
  obtain ⟨sp, hS⟩ := hall x hx
  exact hS.pok

/-- on such a path the hypothesis `HunkRange` only says that the index of the after-context line,
    `i + |Remove|`, is below 2^53 -/
theorem hunkRange_of_pathOKr {h : Hunk} (hp : pathOKr h.path = true)
    (hb : ∀ i, lastIdx? h.path = some i → i + (h.remove.length : Int) < 2 ^ 53) : HunkRange h := by
  refine ⟨natAbs_of_pathOKr hp, fun i hi => ?_⟩
  have := List.all_eq_true.1 hp _ (mem_of_lastIdx hi)
  simp only [elemOKr, Bool.and_eq_true, decide_eq_true_eq] at this
  have := hb i hi
  omega

theorem valueOK_not_void {v : Json} (h : valueOK v = true) : v.isVoid = false := by
  simp only [valueOK, Bool.and_eq_true, Bool.not_eq_true'] at h
  exact h.1.1

/-- **C10, never more permissive — every operation list the reader accepts.** -/
theorem readPatchOps_never_more_permissive_r (L : FloatLaws) (F : FloatEq0) {ops : List PatchOp}
    {d : Diff} {t r : Json} (hw : t.wf = true) (hl : t.listDoc = true)
    (hv : ∀ o ∈ ops, valueOK o.value = true) (hc : ∀ o ∈ ops, ptrOKr o.path = true)
    (hread : readPatchOps ops = .ok d) (hrange : ∀ h ∈ d, HunkRange h)
    (hp : patchM t d = .ok r) :
    ∃ r', eval t (ops.map PatchOp.toSpec) = some r' ∧ untag r' = untag r := by
  have hloop := readPatchOps_loop hread
  have hR := readPatchLoop_props _ ops [] d hloop hv (by simp)
  have hd : d.all (fun h => !h.merge && strictPath h.path && hunkListDoc h) = true :=
    List.all_eq_true.2 (fun h hm => readHunk_strictOK (hR h hm))
  obtain ⟨m, hm, _⟩ := strictAll_result true t d hd hl r hp
  have hf := readPatchOps_faithful_r F (fun o ho => valueOK_not_void (hv o ho)) hc hread
    (applyStrictAll_append_remove d hm)
  exact read_patch_never_more_permissive L hw hl hv hloop hf hrange hp


/-- `readPatchOps_faithful_r` under the stronger, former hypothesis `canonPtr` (the text jd writes) -/
theorem readPatchOps_faithful (F : FloatEq0) {ops : List PatchOp} {d : Diff}
    (hv : ∀ o ∈ ops, o.value.isVoid = false) (hc : ∀ o ∈ ops, canonPtr o.path = true)
    (hread : readPatchOps ops = .ok d)
    (happ : ∀ h ∈ d, lastIdx? h.path = some (-1) → h.remove = []) : Faithful d ops :=
  readPatchOps_faithful_r F hv (fun o ho => ptrOKr_of_canonPtr (hc o ho)) hread happ

/-- `readPatchOps_never_more_permissive_r` under the stronger, former hypothesis `canonPtr` -/
theorem readPatchOps_never_more_permissive (L : FloatLaws) (F : FloatEq0) {ops : List PatchOp}
    {d : Diff} {t r : Json} (hw : t.wf = true) (hl : t.listDoc = true)
    (hv : ∀ o ∈ ops, valueOK o.value = true) (hc : ∀ o ∈ ops, canonPtr o.path = true)
    (hread : readPatchOps ops = .ok d) (hrange : ∀ h ∈ d, HunkRange h)
    (hp : patchM t d = .ok r) :
    ∃ r', eval t (ops.map PatchOp.toSpec) = some r' ∧ untag r' = untag r :=
  readPatchOps_never_more_permissive_r L F hw hl hv (fun o ho => ptrOKr_of_canonPtr (hc o ho)) hread
    hrange hp

/-! ### 7.9 canonical pointers in terms of RFC 6901 -/

/-- the reference tokens of the text after a leading slash -/
def slashToks : List Char → List (List Char)
  | [] => [[]]
  | c :: r =>
    if c = '/' then [] :: slashToks r
    else match slashToks r with
      | t :: ts => (c :: t) :: ts
      | [] => [[c]]

theorem slashToks_spec : ∀ l : List Char,
    (slashToks l).flatMap (fun t => '/' :: t) = '/' :: l ∧
    ∀ t ∈ slashToks l, ∀ x ∈ t, (x == '/') = false
  | [] => by simp [slashToks]
  | c :: r => by
    obtain ⟨h1, h2⟩ := slashToks_spec r
    unfold slashToks
    by_cases hc : c = '/'
    · subst hc
      simp only [if_true, List.flatMap_cons, h1, List.mem_cons]
      refine ⟨rfl, ?_⟩
      rintro t (rfl | ht)
      · simp
      · exact h2 t ht
    · simp only [hc, if_false]
      cases hs : slashToks r with
      | nil => rw [hs] at h1; simp at h1
      | cons t ts =>
        rw [hs] at h1 h2
        simp only [List.flatMap_cons, List.cons_append, List.cons.injEq, true_and] at h1
        simp only [List.flatMap_cons, List.cons_append, h1, List.mem_cons]
        refine ⟨trivial, ?_⟩
        rintro t' (rfl | ht')
        · intro x hx
          rcases List.mem_cons.1 hx with rfl | hx
          · simpa using hc
          · exact h2 t (by simp) x hx
        · exact h2 t' (by simp [ht'])

/-- escaping what RFC 6901 decoding gives returns the token (a token has no raw slash) -/
theorem escChars_of_decode : ∀ (r u : List Char), decodeToken r = some u →
    (∀ x ∈ r, (x == '/') = false) → escChars u = r
  | [], u, h, _ => by
    simp only [decodeToken] at h
    injection h with h; subst h; rfl
  | c :: r, u, h, hs => by
    have hs' : ∀ x ∈ r, (x == '/') = false := fun x hx => hs x (List.mem_cons_of_mem _ hx)
    have hc : c ≠ '/' := by simpa using hs c List.mem_cons_self
    by_cases h1 : c = '~'
    · subst h1
      cases r with
      | nil => simp [decodeToken] at h
      | cons c2 r2 =>
        have hs2 : ∀ x ∈ r2, (x == '/') = false := fun x hx => hs' x (List.mem_cons_of_mem _ hx)
        by_cases h20 : c2 = '0'
        · subst h20
          simp only [decodeToken, Option.map_eq_some_iff] at h
          obtain ⟨u', hu', rfl⟩ := h
          simp [escChars, escChars_of_decode r2 u' hu' hs2]
        · by_cases h21 : c2 = '1'
          · subst h21
            simp only [decodeToken, Option.map_eq_some_iff] at h
            obtain ⟨u', hu', rfl⟩ := h
            simp [escChars, escChars_of_decode r2 u' hu' hs2]
          · rw [decodeToken] at h
            · cases h
            · intro r' hr'; injection hr' with hr' _; exact h20 hr'
            · intro r' hr'; injection hr' with hr' _; exact h21 hr'
    · rw [decodeToken] at h
      · simp only [Option.map_eq_some_iff] at h
        obtain ⟨u', hu', rfl⟩ := h
        simp [escChars, h1, hc, escChars_of_decode r u' hu' hs']
      · intro r' hr' _; exact h1 hr'
      · intro r' hr' _; exact h1 hr'
      · intro hr'; exact h1 hr'


theorem mapM_decode_inv : ∀ (raw : List (List Char)) (toks : List String),
    (raw.map String.ofList).mapM (fun t => (decodeToken t.toList).map String.ofList) = some toks →
    (∀ t ∈ raw, ∀ x ∈ t, (x == '/') = false) →
    toks.flatMap (fun t => '/' :: escChars t.toList) = raw.flatMap (fun t => '/' :: t)
  | [], toks, h, _ => by
    simp only [List.map_nil, List.mapM_nil] at h
    injection h with h; subst h; rfl
  | r :: raw, toks, h, hs => by
    simp only [List.map_cons, List.mapM_cons, String.toList_ofList] at h
    cases hd : decodeToken r with
    | none => rw [hd] at h; simp at h
    | some u =>
      rw [hd] at h
      cases hm : (raw.map String.ofList).mapM (fun t => (decodeToken t.toList).map String.ofList) with
      | none => rw [hm] at h; simp at h
      | some toks' =>
        rw [hm] at h
        simp only [Option.map_some, Option.pure_def, Option.bind_eq_bind, Option.bind_some,
          Option.some.injEq] at h
        subst h
        have ih := mapM_decode_inv raw toks' hm (fun t ht => hs t (List.mem_cons_of_mem _ ht))
        simp only [List.flatMap_cons, String.toList_ofList, ih,
          escChars_of_decode r u hd (hs r List.mem_cons_self)]

/-- **RFC 6901 parsing is injective**: a pointer text is determined by its reference tokens — it is
    the escaped tokens, each after a slash -/
theorem toList_of_parsePointer {s : String} {toks : List String} (h : parsePointer s = some toks) :
    s.toList = toks.flatMap (fun t => '/' :: escChars t.toList) := by
  unfold parsePointer at h
  by_cases h0 : (s == "") = true
  · rw [if_pos h0] at h
    injection h with h; subst h
    have : s = "" := by simpa using h0
    subst this; rfl
  · rw [if_neg h0] at h
    by_cases hsw : s.startsWith "/" = true
    · simp only [hsw, Bool.not_true, Bool.false_eq_true, if_false] at h
      rw [String.startsWith_string_iff] at hsw
      obtain ⟨rest, hrest⟩ := hsw
      have hrest' : s.toList = '/' :: rest := by simpa using hrest.symm
      obtain ⟨hj, hns⟩ := slashToks_spec rest
      rw [splitOn_slash, hrest', ← hj] at h
      have := splitOnP_tokens (· == '/') '/' (by simp) (slashToks rest) [] (by simp) hns
      simp only [List.nil_append] at this
      rw [this] at h
      simp only [List.map_cons, List.drop_succ_cons, List.drop_zero] at h
      rw [mapM_decode_inv _ _ h hns, hj, hrest']
    · simp only [hsw, Bool.not_false, if_true] at h
      cases h

/-- the path element `readPointer` makes of a (decoded) reference token -/
def elemOf (u : String) : PathElem :=
  match atoi? u with
  | some i => .idx i
  | none => if u == "-" then .idx (-1) else .key u

/-- a reference token in canonical spelling: if `strconv.Atoi` accepts it, it is the decimal text
    of an index in [0, 2^53) (no sign, no leading zero: an RFC 6901 array index) -/
def canonTok (u : String) : Bool :=
  match atoi? u with
  | some i => decide (0 ≤ i) && decide (i < 2 ^ 53) && (toString i == u)
  | none => true

theorem elemOf_ok {u : String} (h : canonTok u = true) :
    elemOK' (elemOf u) = true ∧ elemTok (elemOf u) = u := by
  unfold canonTok at h
  unfold elemOf
  cases ha : atoi? u with
  | some i =>
    rw [ha] at h
    simp only [Bool.and_eq_true, decide_eq_true_eq, beq_iff_eq] at h
    obtain ⟨⟨h0, h1⟩, h2⟩ := h
    refine ⟨by simp only [elemOK', Bool.and_eq_true, decide_eq_true_eq]; omega, ?_⟩
    simp only [elemTok]
    rw [idxTok_nonneg h0, h2]
  | none =>
    simp only
    by_cases hd : (u == "-") = true
    · simp only [hd, if_true]
      have : u = "-" := by simpa using hd
      subst this
      exact ⟨by decide, rfl⟩
    · have hd' : (u == "-") = false := by simpa using hd
      simp only [hd', Bool.false_eq_true, if_false, elemOK', ha, Option.isNone_none, Bool.true_and,
        elemTok, and_true]
      simpa using hd

theorem pathOK'_map_elemOf : ∀ {toks : List String}, toks.all canonTok = true →
    pathOK' (toks.map elemOf) = true ∧ ptoks (toks.map elemOf) = toks
  | [], _ => ⟨rfl, rfl⟩
  | u :: toks, h => by
    simp only [List.all_cons, Bool.and_eq_true] at h
    obtain ⟨h1, h2⟩ := elemOf_ok h.1
    obtain ⟨h3, h4⟩ := pathOK'_map_elemOf h.2
    simp only [ptoks] at h4
    simp only [List.map_cons, pathOK', List.all_cons, h1, Bool.true_and, ptoks, h2, h4, and_true]
    exact h3

/-- `writePointerPath` accepts every path of keys and indices in [−1, 2^53) -/
theorem writePointerPath_total : ∀ {p : Path}, pathOK' p = true → ∃ s, writePointerPath p = .ok s
  | [], _ => ⟨"", rfl⟩
  | e :: p, h => by
    simp only [pathOK', List.all_cons, Bool.and_eq_true] at h
    obtain ⟨rest, hr⟩ := writePointerPath_total (p := p) h.2
    rw [writePointerPath_cons, hr]
    cases e with
    | key k =>
      have := h.1
      simp only [elemOK', Bool.and_eq_true, Option.isNone_iff_eq_none, bne_iff_ne, ne_eq] at this
      have hk : (k == "-") = false := by simpa using this.2
      simp only [wtok, this.1, Option.isSome_none, Bool.false_eq_true, if_false, hk]
      exact ⟨_, rfl⟩
    | idx i => simp only [wtok]; exact ⟨_, rfl⟩
    | _ => simp [elemOK'] at h

/-- **canonical pointer text, in terms of RFC 6901**: the independent RFC 6901 parser accepts the
    text (in particular every `~` is followed by `0` or `1`), and every reference token that
    `strconv.Atoi` accepts is the decimal text of an index in [0, 2^53) -/
def canonicalPointer (s : String) : Bool :=
  match parsePointer s with
  | some toks => toks.all canonTok
  | none => false

/-- the RFC 6901 form of the hypothesis implies the round-trip form the proofs use -/
theorem canonPtr_of_canonicalPointer {s : String} (h : canonicalPointer s = true) :
    canonPtr s = true := by
  unfold canonicalPointer at h
  cases hp : parsePointer s with
  | none => rw [hp] at h; cases h
  | some toks =>
    rw [hp] at h
    simp only at h
    obtain ⟨hok, hpt⟩ := pathOK'_map_elemOf h
    obtain ⟨s', hw⟩ := writePointerPath_total hok
    have h1 := (writePointerPath_ok hw (idxRange_of_pathOK' hok)).2
    rw [hpt, ← toList_of_parsePointer hp] at h1
    have : s' = s := String.toList_inj.1 h1
    subst this
    exact canonPtr_of_write hok hw


/-- **C10, never more permissive — every operation list the reader accepts; the hypothesis on the
    pointers in terms of RFC 6901, the range hypothesis in its minimal form** (`i + |Remove|`, the
    index of the after-context line jd would write, below 2^53 for every element read). -/
theorem readPatchOps_never_more_permissive_rfc6901 (L : FloatLaws) (F : FloatEq0)
    {ops : List PatchOp} {d : Diff} {t r : Json} (hw : t.wf = true) (hl : t.listDoc = true)
    (hv : ∀ o ∈ ops, valueOK o.value = true) (hc : ∀ o ∈ ops, canonicalPointer o.path = true)
    (hread : readPatchOps ops = .ok d)
    (hafter : ∀ h ∈ d, ∀ i, lastIdx? h.path = some i → i + (h.remove.length : Int) < 2 ^ 53)
    (hp : patchM t d = .ok r) :
    ∃ r', eval t (ops.map PatchOp.toSpec) = some r' ∧ untag r' = untag r := by
  have hc' : ∀ o ∈ ops, canonPtr o.path = true := fun o ho => canonPtr_of_canonicalPointer (hc o ho)
  have hpok := readPatchOps_pathOKr F (fun o ho => valueOK_not_void (hv o ho))
    (fun o ho => ptrOKr_of_canonPtr (hc' o ho)) hread
  exact readPatchOps_never_more_permissive L F hw hl hv hc' hread
    (fun h hm => hunkRange_of_pathOKr (hpok h hm) (hafter h hm)) hp

/-! ## 8. parse-back and the grammar with the reader after the fix -/

theorem forall₂_append_inv {α β} {R : α → β → Prop} : ∀ {a : List α} {b : List β} {a' : List α}
    {b' : List β}, List.Forall₂ R (a ++ a') (b ++ b') → a.length = b.length →
    List.Forall₂ R a b ∧ List.Forall₂ R a' b'
  | [], [], _, _, h, _ => ⟨.nil, h⟩
  | x :: a, y :: b, a', b', h, hl => by
    cases h with
    | cons hxy ht =>
      obtain ⟨h1, h2⟩ := forall₂_append_inv ht (by simpa using hl)
      exact ⟨.cons hxy h1, h2⟩
  | [], _ :: _, _, _, _, hl => by simp at hl
  | _ :: _, [], _, _, _, hl => by simp at hl

/-- the context test jd writes passes the context check -/
theorem ctxTestOK_of_written (L : FloatLaws) {h : Hunk} {t : PatchOp} {off i : Int}
    (hpok : pathOK' h.path = true) (hi : lastIdx? h.path = some i) (h0 : 0 ≤ i)
    (hb : -1 ≤ i + off ∧ i + off < 2 ^ 53) (hop : t.op = "test")
    (hw : writePointerPath (setLastIdx h.path (i + off)) = .ok t.path) :
    ctxTestOK h t off = .ok true := by
  obtain ⟨hp, hhp⟩ := lastIdx_snoc hi
  rw [hhp, setLastIdx_concat] at hw
  rw [hhp, pathOK'_append, Bool.and_eq_true] at hpok
  have hok : pathOK' (hp ++ [.idx (i + off)]) = true := by
    rw [pathOK'_append, hpok.1]
    simp only [pathOK', List.all_cons, List.all_nil, elemOK', Bool.and_true, Bool.true_and,
      Bool.and_eq_true, decide_eq_true_eq]
    exact hb
  have hr := readPointer_write' hok hw
  have heq := pathEq_self' L hpok.1
  unfold pathEq at heq
  unfold ctxTestOK
  rw [hr, hhp]
  simp [hop, lastIdx_concat_idx, heq, h0]


/-- the context test written for a context line, against the operation remembered for the line -/
theorem ctxOps_side {h : Hunk} {ctx : List Json} {f : Int → Int} {bo : List PatchOp}
    {t : Option PatchOp} (e : ctxOps h ctx f = .ok bo) (hs : CtxSide t ctx) :
    bo.length = t.toList.length ∧
    ∀ t', t = some t' → ∃ i pp, lastIdx? h.path = some i ∧
      writePointerPath (setLastIdx h.path (f i)) = .ok pp ∧
      bo = [{ op := "test", path := pp, value := t'.value }] := by
  cases t with
  | none =>
    have : bo = [] := by
      rcases hs with rfl | rfl
      · simp [ctxOps] at e; exact e
      · simp [ctxOps, Json.isVoid] at e; exact e
    subst this
    exact ⟨rfl, fun t' ht => by cases ht⟩
  | some t =>
    obtain ⟨rfl, hv, _⟩ := hs
    rcases ctxOps_ok e with ⟨_, h2⟩ | ⟨b, i, pp, hb, _, hi, hw, rfl⟩
    · have := h2 rfl
      injection this with this
      rw [this] at hv; cases hv
    · injection hb with hb
      subst hb
      refine ⟨rfl, fun t' ht => ?_⟩
      injection ht with ht; subst ht
      exact ⟨i, pp, hi, hw, rfl⟩

/-- the elements for which the check can be replayed: an element at the append index has no
    context lines and removes nothing, the others end in an index `0 ≤ i`, `i + |Remove| < 2^53` -/
structure CheckDom (h : Hunk) : Prop where
  pok : pathOK' h.path = true
  app : lastIdx? h.path = some (-1) → h.remove = [] ∧ h.before = [] ∧ h.after = []
  idx : ∀ i, lastIdx? h.path = some i → i ≠ -1 → 0 ≤ i ∧ i + (h.remove.length : Int) < 2 ^ 53

theorem ctxSide_nil {t : Option PatchOp} (h : CtxSide t []) : t = none := by
  cases t with
  | none => rfl
  | some t => exact absurd h.1 (by simp)

/-- what jd writes for the element has as many operations as the reader consumed for it -/
theorem seg_length {sp : String} {s a : List PatchOp} {h : Hunk} {c : PatchCtx} (hS : SegP sp s h c)
    (hr : rerenderHunk h = .ok a) (hD : CheckDom h) : a.length = s.length := by
  have hvals := hS.vals
  simp only [List.mem_append] at hvals
  rw [← forall₂_length hS.sim]
  by_cases hl : lastIdx? h.path = some (-1)
  · obtain ⟨hrem, hb, ha⟩ := hD.app hl
    have hcb := hS.before; have hca := hS.after
    rw [hb] at hcb; rw [ha] at hca
    simp only [rerenderHunk, hl, beq_self_eq_true, if_true, hS.wr] at hr
    injection hr with hr; subst hr
    simp [ctxList, ctxSide_nil hcb, ctxSide_nil hca, editOps, hrem, remPairs, addRun, addPart, hl]
  · have hl' : (lastIdx? h.path == some (-1)) = false := by simpa using hl
    simp only [rerenderHunk, hl', Bool.false_eq_true, if_false] at hr
    rw [renderPatchHunkW_wpL (keysOK_of_pathOK' hD.pok)] at hr
    obtain ⟨s', bo, ao, hw, _, _, _, hbo, hao, rfl⟩ := renderPatchHunk_ok hr
    rw [← wpL_eq_write (keysOK_of_pathOK' hD.pok), hS.wr] at hw; injection hw with hw; subst hw
    rw [remOpsOf_eq (fun x hx => hvals x (Or.inl hx)), addOpsOf_eq (fun x hx => hvals x (Or.inr hx))]
    simp [ctxList, editOps, remPairs, addRun, addPart, hl', (ctxOps_side hbo hS.before).1,
      (ctxOps_side hao hS.after).1]

theorem checkOne_of_written (L : FloatLaws) {h : Hunk} {t : Option PatchOp} {off : Int} {f : Int → Int}
    {bo : List PatchOp} {ctx : List Json}
    (hf : ∀ i, f i = i + off) (hpok : pathOK' h.path = true) (hbo : ctxOps h ctx f = .ok bo)
    (hs : CtxSide t ctx) (hsim : List.Forall₂ OpSim t.toList bo)
    (hdom : ∀ i, lastIdx? h.path = some i → 0 ≤ i ∧ -1 ≤ i + off ∧ i + off < 2 ^ 53) :
    checkOne h t off = .ok () := by
  cases t with
  | none => rfl
  | some t =>
    obtain ⟨i, pp, hi, hw, rfl⟩ := (ctxOps_side hbo hs).2 t rfl
    cases hsim with
    | cons hx _ =>
      obtain ⟨hop, hpath, _⟩ := hx
      simp only at hop hpath
      obtain ⟨h0, hb⟩ := hdom i hi
      rw [hf, ← hpath] at hw
      simp only [checkOne, ctxTestOK_of_written L hpok hi h0 hb hop hw]

/-- **the operations jd writes for an element pass the context check of that element** -/
theorem seg_check (L : FloatLaws) {sp : String} {a : List PatchOp} {h : Hunk} {c : PatchCtx}
    (hS : SegP sp a h c) (hr : rerenderHunk h = .ok a) (hD : CheckDom h) :
    checkPatchCtx h c = .ok () := by
  have hvals := hS.vals
  simp only [List.mem_append] at hvals
  by_cases hl : lastIdx? h.path = some (-1)
  · obtain ⟨hrem, hb, ha⟩ := hD.app hl
    have hcb := hS.before; have hca := hS.after
    rw [hb] at hcb; rw [ha] at hca
    rw [checkPatchCtx_eq, ctxSide_nil hcb, ctxSide_nil hca]
    rfl
  · have hl' : (lastIdx? h.path == some (-1)) = false := by simpa using hl
    simp only [rerenderHunk, hl', Bool.false_eq_true, if_false] at hr
    rw [renderPatchHunkW_wpL (keysOK_of_pathOK' hD.pok)] at hr
    obtain ⟨s', bo, ao, hw, _, _, _, hbo, hao, rfl⟩ := renderPatchHunk_ok hr
    have hsim := hS.sim
    simp only [ctxList, List.append_assoc] at hsim
    obtain ⟨hsb, hsim⟩ := forall₂_append_inv hsim (ctxOps_side hbo hS.before).1.symm
    obtain ⟨hsa, _⟩ := forall₂_append_inv hsim (ctxOps_side hao hS.after).1.symm
    have hidx : ∀ i, lastIdx? h.path = some i → 0 ≤ i ∧ i + (h.remove.length : Int) < 2 ^ 53 :=
      fun i hi => hD.idx i hi (fun e => hl (e ▸ hi))
    have h1 := checkOne_of_written L (off := -1) (fun i => by omega) hD.pok hbo hS.before hsb
      (fun i hi => by have := hidx i hi; omega)
    have h2 := checkOne_of_written L (off := (h.remove.length : Int)) (fun i => rfl) hD.pok hao
      hS.after hsa (fun i hi => by have := hidx i hi; omega)
    rw [checkPatchCtx_eq, h1]
    exact h2

/-- **the segments of a patch that IS what jd writes for the diff read from it pass the check** -/
theorem check_of_segs (L : FloatLaws) : ∀ (segs : List (List PatchOp × Hunk × PatchCtx))
    (ops : List PatchOp), (∀ x ∈ segs, Seg x.1 x.2.1 x.2.2) →
    rerender (segs.map (·.2.1)) = .ok ops → ops = segs.flatMap (·.1) →
    (∀ x ∈ segs, CheckDom x.2.1) →
    checkPatchCtxs (segs.map (·.2.1)) (segs.map (·.2.2)) = .ok ()
  | [], _, _, _, _, _ => rfl
  | x :: segs, ops, hall, hr, hops, hD => by
    simp only [List.map_cons] at hr
    obtain ⟨a, b, ha, hb, rfl⟩ := rerender_ok_cons hr
    obtain ⟨sp, hS⟩ := hall x (by simp)
    have hlen := seg_length hS ha (hD x (by simp))
    simp only [List.flatMap_cons] at hops
    obtain ⟨h1, h2⟩ := List.append_inj hops hlen
    subst h1
    have hk := seg_check L hS ha (hD x (by simp))
    have ih := check_of_segs L segs b (fun y hy => hall y (by simp [hy])) hb h2
      (fun y hy => hD y (by simp [hy]))
    simp only [List.map_cons, checkPatchCtxs, hk]
    exact ih


/-! ### the operations of the grammar: real values, canonical pointers -/

theorem pathOK'_setLastIdx {p : Path} {j : Int} (hp : pathOK' p = true) (h0 : -1 ≤ j)
    (h1 : j < 2 ^ 53) : pathOK' (setLastIdx p j) = true := by
  unfold setLastIdx
  rw [pathOK'_append]
  have : pathOK' p.dropLast = true := by
    unfold pathOK' at hp ⊢
    rw [List.all_eq_true] at hp ⊢
    exact fun e he => hp e (List.dropLast_subset _ he)
  rw [this]
  simp only [pathOK', List.all_cons, List.all_nil, elemOK', Bool.and_true, Bool.true_and,
    Bool.and_eq_true, decide_eq_true_eq]
  exact ⟨h0, h1⟩

def OpOK (o : PatchOp) : Prop := o.value.isVoid = false ∧ canonPtr o.path = true

theorem ctxOps_opOK {h : Hunk} {ctx : List Json} {f : Int → Int} {bo : List PatchOp}
    (e : ctxOps h ctx f = .ok bo) (hp : pathOK' h.path = true)
    (hf : ∀ i, lastIdx? h.path = some i → -1 ≤ f i ∧ f i < 2 ^ 53) : ∀ o ∈ bo, OpOK o := by
  rcases ctxOps_ok e with ⟨rfl, _⟩ | ⟨b, i, pp, _, hb, hi, hw, rfl⟩
  · intro o ho; simp at ho
  · intro o ho
    simp only [List.mem_singleton] at ho
    subst ho
    obtain ⟨h0, h1⟩ := hf i hi
    exact ⟨hb, canonPtr_of_write (pathOK'_setLastIdx hp h0 h1) hw⟩

theorem ghunk_opOK {h : Hunk} (hw : GH h = true) {ops : List PatchOp}
    (hr : rerenderHunk h = .ok ops) : ∀ o ∈ ops, OpOK o := by
  cases hP : PBwfH h with
  | true =>
    rw [rerenderHunk_of_PBwfH hP] at hr
    simp only [PBwfH, Bool.and_eq_true, Bool.not_eq_true', decide_eq_true_eq] at hP
    obtain ⟨⟨⟨⟨⟨⟨⟨_, hp⟩, _⟩, _⟩, hR⟩, hA⟩, _⟩, hcase⟩ := hP
    have hp' := pathOK'_of_pathOK hp
    obtain ⟨s, bo, ao, hws, _, _, _, hbo, hao, rfl⟩ := renderPatchHunk_ok hr
    have hcs := canonPtr_of_write hp' hws
    have hRv : noVoid h.remove := by
      intro x hx
      have := List.all_eq_true.1 hR x hx
      simp only [valOK, Bool.and_eq_true, Bool.not_eq_true'] at this
      exact this.1.1.1
    have hAv : noVoid h.add := by
      intro x hx
      simpa using List.all_eq_true.1 hA x hx
    have hidx : ∀ i, lastIdx? h.path = some i → 0 ≤ i ∧ i + (h.remove.length : Int) < 2 ^ 53 := by
      intro i hi
      have := lastIdx_bounds hp hi
      rw [hi] at hcase
      simp only [Bool.and_eq_true, decide_eq_true_eq] at hcase
      exact ⟨this.1, hcase.2⟩
    rw [remOpsOf_eq hRv, addOpsOf_eq hAv]
    intro o ho
    simp only [List.mem_append, List.mem_flatMap, List.mem_map, List.mem_reverse] at ho
    rcases ho with ((ho | ho) | ⟨x, hx, ho⟩) | ⟨x, hx, rfl⟩
    · exact ctxOps_opOK hbo hp' (fun i hi => by have := hidx i hi; omega) o ho
    · exact ctxOps_opOK hao hp' (fun i hi => by have := hidx i hi; omega) o ho
    · simp only [List.mem_cons, List.not_mem_nil, or_false] at ho
      rcases ho with rfl | rfl <;> exact ⟨hRv x hx, hcs⟩
    · exact ⟨hAv x hx, hcs⟩
  | false =>
    have hA : appendH h = true := by simpa [GH, hP] using hw
    simp only [appendH, Bool.and_eq_true, Bool.not_eq_true', beq_iff_eq] at hA
    obtain ⟨⟨⟨⟨⟨_, hp⟩, hl⟩, _⟩, _⟩, hS⟩ := hA
    unfold rerenderHunk at hr
    simp only [hl, beq_self_eq_true, if_true] at hr
    cases hws : wpL h.path with
    | err => rw [hws] at hr; cases hr
    | panic => rw [hws] at hr; cases hr
    | ok s =>
      rw [hws] at hr
      injection hr with hr; subst hr
      rw [wpL_eq_write (keysOK_of_pathOK' hp)] at hws
      intro o ho
      obtain ⟨x, hx, rfl⟩ := List.mem_map.1 ho
      have hxv : x.isVoid = false := by simpa using List.all_eq_true.1 hS x hx
      exact ⟨hxv, canonPtr_of_write hp hws⟩

theorem gdiff_opOK : ∀ {d : Diff}, d.all GH = true → ∀ {ops : List PatchOp},
    rerender d = .ok ops → ∀ o ∈ ops, OpOK o
  | [], _, ops, hr => by
    rw [rerender] at hr; injection hr with hr; subst hr
    intro o ho; simp at ho
  | h :: d, hw, ops, hr => by
    simp only [List.all_cons, Bool.and_eq_true] at hw
    obtain ⟨a, b, ha, hb, rfl⟩ := rerender_ok_cons hr
    intro o ho
    rcases List.mem_append.1 ho with ho | ho
    · exact ghunk_opOK hw.1 ha o ho
    · exact gdiff_opOK hw.2 hb o ho

theorem checkDom_normG {h : Hunk} (hw : GH h = true) : CheckDom (normG h) := by
  cases hP : PBwfH h with
  | true =>
    rw [normG_of_PBwfH hP]
    have hne := lastIdx_ne_of_PBwfH hP
    simp only [PBwfH, Bool.and_eq_true, Bool.not_eq_true', decide_eq_true_eq] at hP
    obtain ⟨⟨⟨⟨⟨⟨⟨_, hp⟩, _⟩, _⟩, _⟩, _⟩, _⟩, hcase⟩ := hP
    constructor
    · rw [normH_path]; exact pathOK'_of_pathOK hp
    · intro hl
      rw [normH_path] at hl
      rw [hl] at hne
      simp at hne
    · intro i hi _
      rw [normH_path] at hi
      rw [normH_remove]
      have := lastIdx_bounds hp hi
      rw [hi] at hcase
      simp only [Bool.and_eq_true, decide_eq_true_eq] at hcase
      exact ⟨this.1, hcase.2⟩
  | false =>
    have hA : appendH h = true := by simpa [GH, hP] using hw
    simp only [appendH, Bool.and_eq_true, Bool.not_eq_true', beq_iff_eq] at hA
    obtain ⟨⟨⟨⟨⟨_, hpk⟩, hl⟩, _⟩, _⟩, _⟩ := hA
    have hN : normG h = { path := h.path, add := h.add } := by simp [normG, hl]
    rw [hN]
    constructor
    · exact hpk
    · intro _; exact ⟨rfl, rfl, rfl⟩
    · intro i hi hne
      simp only at hi
      rw [hl] at hi
      injection hi with hi
      exact absurd hi.symm hne

/-- **PARSE-BACK with the reader after the fix**: jd's own layout passes the context check. For
    every diff `d0` of the grammar `Gwf`, `ReadPatchString` (= `readPatchOps`) reads the operations
    jd writes for `d0` to the normal form of `d0`. -/
theorem readPatchOps_rerender (L : FloatLaws) (F : FloatEq0) (d0 : Diff) (hG : Gwf d0 = true)
    (ops : List PatchOp) (h : rerender d0 = .ok ops) :
    readPatchOps ops = .ok (d0.map normG) := by
  have h1 := readPatch_rerender L d0 hG ops h
  simp only [Gwf, Bool.and_eq_true] at hG
  obtain ⟨cs, h2⟩ := readPatchCtxLoop_ok (ops.length + 1) ops [] _ [] h1
  have hS := loops_segs F (ops.length + 1) ops [] _ [] cs [] h1 h2
    (fun o ho => ⟨(gdiff_opOK hG.1 h o ho).1, ptrOKr_of_canonPtr (gdiff_opOK hG.1 h o ho).2⟩)
    ⟨[], rfl, rfl, rfl, by simp⟩
  obtain ⟨segs, hpre, hd, rfl, hall⟩ := hS
  simp only [List.nil_append] at hpre
  have hr : rerender (segs.map (·.2.1)) = .ok ops := by
    rw [← hd, rerender_map_normG hG.1]; exact h
  have hD : ∀ x ∈ segs, CheckDom x.2.1 := by
    intro x hx
    have : x.2.1 ∈ d0.map normG := by rw [hd]; exact List.mem_map.2 ⟨x, hx, rfl⟩
    obtain ⟨h0, hm0, he⟩ := List.mem_map.1 this
    rw [← he]
    exact checkDom_normG (List.all_eq_true.1 hG.1 h0 hm0)
  have h3 := check_of_segs L segs ops hall hr hpre hD
  rw [← hd] at h3
  simp only [readPatchOps, h1, h2, h3]


/-! ### jd's own output (`renderPatchOps`, the domain `PB.PBwf` of JdProofs.PatchParseBack) -/

theorem chainG_of_chainOK : ∀ {d : Diff}, d.all PBwfH = true → chainOK d = true → chainG d = true
  | [], _, _ => rfl
  | [_], _, _ => rfl
  | h1 :: h2 :: r, hw, hc => by
    simp only [List.all_cons, Bool.and_eq_true] at hw
    simp only [chainOK, Bool.and_eq_true] at hc
    simp only [chainG, Bool.and_eq_true]
    refine ⟨?_, chainG_of_chainOK (by simp [hw.2.1, hw.2.2]) hc.2⟩
    have := hc.1
    simp only [sepH, sepG, lastIdx_ne_of_PBwfH hw.2.1, Bool.not_false, Bool.and_true] at this ⊢
    exact this

theorem gwf_of_PBwf {d : Diff} (hwf : PBwf d = true) : Gwf d = true := by
  simp only [PBwf, Bool.and_eq_true] at hwf
  simp only [Gwf, Bool.and_eq_true]
  refine ⟨?_, chainG_of_chainOK hwf.1 hwf.2⟩
  rw [List.all_eq_true] at hwf ⊢
  intro h hm
  simp [GH, hwf.1 h hm]

theorem rerender_of_renderPatchOps : ∀ {d : Diff}, d.all PBwfH = true → ∀ {ops : List PatchOp},
    renderPatchOps d = .ok ops → rerender d = .ok ops
  | [], _, ops, h => by
    rw [renderPatchOps] at h; injection h with h; subst h; rfl
  | h0 :: d, hw, ops, h => by
    simp only [List.all_cons, Bool.and_eq_true] at hw
    obtain ⟨a, b, ha, hb, rfl⟩ := renderPatchOps_ok_cons h
    simp only [rerender, rerenderHunk_of_PBwfH hw.1, ha, rerender_of_renderPatchOps hw.2 hb]

theorem map_normG_of_PBwfH {d : Diff} (hw : d.all PBwfH = true) : d.map normG = normPB d := by
  unfold normPB
  apply List.map_congr_left
  intro h hm
  exact normG_of_PBwfH (List.all_eq_true.1 hw h hm)

/-- **C10, last sentence, with the reader after the fix** (operations): `ReadPatchString` reads
    what `Diff.RenderPatch` writes for a diff of the parse-back domain `PB.PBwf` to its normal form
    (`PB.readPatch_render` for `readPatchOps` instead of the element loop alone) -/
theorem readPatchOps_render (L : FloatLaws) (F : FloatEq0) (d : Diff) (hwf : PBwf d = true)
    (ops : List PatchOp) (h : renderPatchOps d = .ok ops) : readPatchOps ops = .ok (normPB d) := by
  have hall : d.all PBwfH = true := by
    simp only [PBwf, Bool.and_eq_true] at hwf; exact hwf.1
  rw [← map_normG_of_PBwfH hall]
  exact readPatchOps_rerender L F d (gwf_of_PBwf hwf) ops (rerender_of_renderPatchOps hall h)

/-- **C10, last sentence, library semantics, reader after the fix**: if the diff turns `a` into `b`,
    then what `ReadPatchString` reads from jd's own JSON Patch output for the diff, applied by the
    library's `Patch` to `a`, gives `b` (up to the Go dynamic type of array nodes) -/
theorem readPatchOps_render_patch (L : FloatLaws) (F : FloatEq0) (d : Diff) (hwf : PBwf d = true)
    (hs : d.all jdShaped = true) (hld : d.all hunkListDoc = true)
    (ops : List PatchOp) (h : renderPatchOps d = .ok ops)
    (a b : Json) (ha : a.listDoc = true) (hab : applyStrictAll a d = some b) :
    ∃ d' r, readPatchOps ops = .ok d' ∧ patchM a d' = .ok r ∧ untag r = untag b := by
  obtain ⟨d', r, h1, h2, h3⟩ := readPatch_render_patch L d hwf hs hld ops h a b ha hab
  have h4 := readPatchOps_render L F d hwf ops h
  have h5 := readPatchOps_loop h4
  rw [h1] at h5
  injection h5 with h5
  exact ⟨normPB d, r, h4, h5 ▸ h2, h3⟩

/-- the same from the parsed JSON document of the patch text -/
theorem readPatchDoc_of_ops {doc : Json} {ops : List PatchOp} (h : patchOpsOfJson doc = .ok ops) :
    readPatchDoc doc = readPatchOps ops := by
  simp only [readPatchDoc, h]

/-! ### the grammar theorem and the entry point, with the reader after the fix -/

/-- **C10, never more permissive, from the entry point `ReadPatchString`**: the hypotheses on the
    parsed JSON document of the patch are what `json.Unmarshal` gives (unique keys, plain arrays, no
    void marker) -/
theorem readPatchDoc_never_more_permissive (L : FloatLaws) (F : FloatEq0) {doc : Json}
    {ops : List PatchOp} {d : Diff} {t r : Json} (hw : t.wf = true) (hl : t.listDoc = true)
    (hdw : doc.wf = true) (hdl : doc.listDoc = true) (hdv : Yaml.voidFree doc = true)
    (hdoc : patchOpsOfJson doc = .ok ops) (hc : ∀ o ∈ ops, canonPtr o.path = true)
    (hread : readPatchDoc doc = .ok d) (hrange : ∀ h ∈ d, HunkRange h)
    (hp : patchM t d = .ok r) :
    ∃ r', eval t (ops.map PatchOp.toSpec) = some r' ∧ untag r' = untag r := by
  rw [readPatchDoc_of_ops hdoc] at hread
  exact readPatchOps_never_more_permissive L F hw hl (patchOpsOfJson_values hdoc hdw hdl hdv) hc
    hread hrange hp

/-- **C10 on the grammar, reader after the fix**: for every diff `d0` of the grammar `Gwf` and
    `ops` = jd's own layout for it, `ReadPatchString` ACCEPTS `ops` (reading the normal form of `d0`),
    and wherever jd's `Patch` applies what was read, RFC 6902 evaluation of `ops` agrees -/
theorem grammar_never_more_permissive (L : FloatLaws) (F : FloatEq0) {d0 : Diff}
    {ops : List PatchOp} {t : Json}
    (hG : Gwf d0 = true) (hr : rerender d0 = .ok ops)
    (hv : ∀ o ∈ ops, valueOK o.value = true) (hw : t.wf = true) (hl : t.listDoc = true) :
    readPatchOps ops = .ok (d0.map normG) ∧
    ∀ r, patchM t (d0.map normG) = .ok r →
      ∃ r', eval t (ops.map PatchOp.toSpec) = some r' ∧ untag r' = untag r :=
  ⟨readPatchOps_rerender L F d0 hG ops hr,
   (grammar_never_more_permissive_partial L hG hr hv hw hl).2⟩

/-- **every hypothesis as ONE executable predicate on the operations**: real values, canonical
    pointers, accepted by `ReadPatchString`, indices written below 2^53 -/
def checkedPatch (ops : List PatchOp) : Bool :=
  ops.all (fun o => valueOK o.value && canonPtr o.path) &&
  (match readPatchOps ops with
   | .ok d => d.all hunkRangeB
   | _ => false)

theorem checkedPatch_never_more_permissive (L : FloatLaws) (F : FloatEq0) {ops : List PatchOp}
    {t : Json} (hf : checkedPatch ops = true) (hw : t.wf = true) (hl : t.listDoc = true) :
    ∃ d, readPatchOps ops = .ok d ∧
      ∀ r, patchM t d = .ok r →
        ∃ r', eval t (ops.map PatchOp.toSpec) = some r' ∧ untag r' = untag r := by
  simp only [checkedPatch, Bool.and_eq_true] at hf
  obtain ⟨hv, hf⟩ := hf
  cases hread : readPatchOps ops with
  | err => rw [hread] at hf; cases hf
  | panic => rw [hread] at hf; cases hf
  | ok d =>
    rw [hread] at hf
    refine ⟨d, rfl, fun r hp => ?_⟩
    have hv' := List.all_eq_true.1 hv
    simp only [Bool.and_eq_true] at hv'
    exact readPatchOps_never_more_permissive L F hw hl (fun o ho => (hv' o ho).1)
      (fun o ho => (hv' o ho).2) hread
      (fun h hm => hunkRangeB_sound (List.all_eq_true.1 hf h hm)) hp

/-- the grammar is inside the executable predicate -/
theorem grammar_checkedPatch (L : FloatLaws) (F : FloatEq0) {d0 : Diff} {ops : List PatchOp}
    (hG : Gwf d0 = true) (hr : rerender d0 = .ok ops) (hv : ∀ o ∈ ops, valueOK o.value = true) :
    checkedPatch ops = true := by
  have hread := readPatchOps_rerender L F d0 hG ops hr
  simp only [Gwf, Bool.and_eq_true] at hG
  have hall := List.all_eq_true.1 hG.1
  have hok := gdiff_opOK hG.1 hr
  simp only [checkedPatch, hread, Bool.and_eq_true, List.all_eq_true]
  refine ⟨fun o ho => ⟨hv o ho, (hok o ho).2⟩, ?_⟩
  intro h hm
  obtain ⟨h0, hm0, rfl⟩ := List.mem_map.1 hm
  exact hunkRangeB_complete (hunkRange_normG (hall h0 hm0))


/-! ## 9. REGRESSIONS (former findings, fixed) and OBSERVATIONS (pointer token syntax)

### 9.0 evaluating the reader on concrete pointers -/


/-- `readPointer` on a text `/t₁/t₂…` given by its raw tokens -/
theorem readPointer_of_toks {s : String} {toks : List String} (hne : toks ≠ [])
    (h : s.toList = toks.flatMap (fun t => '/' :: t.toList))
    (hns : ∀ t ∈ toks, ∀ x ∈ t.toList, (x == '/') = false)
    (hesc : escapesOK s.toList = true) :
    readPointer s = newPathM (.arr .raw (toks.map (fun t => tokJson (ptrUnescape t)))) := by
  rw [readPointer_eq]
  cases toks with
  | nil => exact absurd rfl hne
  | cons t r =>
    have hne' : (s == "") = false := by
      rw [beq_eq_false_iff_ne]
      intro he; rw [he] at h; simp at h
    have hsw : s.startsWith "/" = true := by
      rw [String.startsWith_string_iff, h]
      exact ⟨_, rfl⟩
    simp only [hne', hsw, hesc, Bool.false_eq_true, if_false, Bool.not_true]
    rw [splitOn_slash, h]
    have := splitOnP_tokens (· == '/') '/' (by simp) ((t :: r).map String.toList) [] (by simp)
      (by
        intro t' ht' x hx
        obtain ⟨t'', h1, rfl⟩ := List.mem_map.1 ht'
        exact hns t'' h1 x hx)
    simp only [List.nil_append, List.flatMap_map] at this
    rw [this]
    simp only [List.map_cons, List.drop_succ_cons, List.drop_zero, List.map_map, String.ofList_toList]
    have hm : ∀ (l : List String), List.map (tokJson ∘ ptrUnescape ∘ String.ofList ∘ String.toList) l
        = l.map (fun t => tokJson (ptrUnescape t)) := by
      intro l
      apply List.map_congr_left
      intro a _
      simp [Function.comp]
    rw [hm]

theorem go_num (b : UInt64) (r : List Json) :
    newPathM.go (.num b :: r) =
      (match newPathM.go r with | .ok p => .ok (.idx (floatTrunc b) :: p) | e' => e') := by
  simp only [newPathM.go]; cases newPathM.go r <;> rfl

theorem go_str (k : String) (r : List Json) :
    newPathM.go (.str k :: r) =
      (match newPathM.go r with | .ok p => .ok (.key k :: p) | e' => e') := by
  simp only [newPathM.go]; cases newPathM.go r <;> rfl

theorem tokJson_of_atoi {t : String} {i : Int} (h : indexToken? t = some i) :
    tokJson t = .num (intToFloatBits i) := by simp [tokJson, h]

theorem tokJson_of_key {t : String} (h : indexToken? t = none) (h2 : (t == "-") = false) :
    tokJson t = .str t := by simp [tokJson, h, h2]

theorem patchM_of_ref {t m : Json} {d : Diff}
    (hd : d.all (fun h => !h.merge && strictPath h.path && hunkListDoc h) = true)
    (hn : t.listDoc = true) (h : applyStrictAll t d = some m) :
    ∃ r, patchM t d = .ok r ∧ untag r = untag m := by
  obtain ⟨r, hr⟩ := (strictAll_applies_iff true t d hd hn).2 (by simp [h])
  obtain ⟨m', hm', hu⟩ := strictAll_result true t d hd hn r hr
  rw [h] at hm'; cases hm'; exact ⟨r, hr, hu⟩

/-! pointers of the witnesses -/

theorem rp_a0 : readPointer "/a/0" = .ok [.key "a", .idx 0] := by
  rw [readPointer_of_toks (toks := ["a", "0"]) (by simp) (by decide) (by decide) (by decide)]
  simp only [List.map_cons, List.map_nil, show ptrUnescape "a" = "a" by decide,
    show ptrUnescape "0" = "0" by decide,
    tokJson_of_key (t := "a") (by decide) (by decide), tokJson_of_atoi (t := "0") (i := 0) (by decide),
    newPathM, go_str, newPathM.go, floatTrunc_intToFloatBits (i := 0) (by decide)]

theorem rp_b1 : readPointer "/b/1" = .ok [.key "b", .idx 1] := by
  rw [readPointer_of_toks (toks := ["b", "1"]) (by simp) (by decide) (by decide) (by decide)]
  simp only [List.map_cons, List.map_nil, show ptrUnescape "b" = "b" by decide,
    show ptrUnescape "1" = "1" by decide,
    tokJson_of_key (t := "b") (by decide) (by decide), tokJson_of_atoi (t := "1") (i := 1) (by decide),
    newPathM, go_str, newPathM.go, floatTrunc_intToFloatBits (i := 1) (by decide)]

theorem pp_a0 : parsePointer "/a/0" = some ["a", "0"] := parsePointer_of_toList (by decide)

/-! ### W1: a context test addressed to ANOTHER array is taken as context of the edited array -/

def w1Ops : List PatchOp := [tst "/a/0" (.str "x"), adp "/b/1" (.str "y")]
def w1Doc : Json := .obj [("a", .arr .raw [.str "z"]), ("b", .arr .raw [.str "x"])]
def w1Diff : Diff := [{ path := [.key "b", .idx 1], before := [.str "x"], after := [.void], add := [.str "y"] }]

theorem w1_read : readPatchLoop (w1Ops.length + 1) w1Ops [] = .ok w1Diff := by
  simp [w1Ops, w1Diff, readPatchLoop, readPatchHunk, setPatchCtx, lastIdxOfPointer, rp_a0, rp_b1,
    lastIdx?, tst, adp]


theorem w1_patch : ∃ r, patchM w1Doc w1Diff = .ok r ∧
    untag r = .obj [("a", .arr .raw [.str "z"]), ("b", .arr .raw [.str "x", .str "y"])] := by
  have : applyStrictAll w1Doc w1Diff
      = some (.obj [("a", .arr .raw [.str "z"]), ("b", .arr .raw [.str "x", .str "y"])]) := by
    simp [applyStrictAll, applyStrict, w1Doc, w1Diff, alookup, splice, prefixEq, beforeOk, afterOk,
      specEq, equivB, Json.isVoid, ainsert]
  obtain ⟨r, h1, h2⟩ := patchM_of_ref (by decide) (by decide) this
  exact ⟨r, h1, by rw [h2]; simp [untag, untagKvs, untagList]⟩

theorem w1_rfc : eval w1Doc (w1Ops.map PatchOp.toSpec) = none := by
  simp [w1Ops, w1Doc, eval, evalOp, PatchOp.toSpec, tst, adp, pp_a0, getP, alookup,
    show arrayIndex? "0" = some 0 by decide, equivB, Json.isVoid]


/-- a one-token pointer whose token `strconv.Atoi` accepts -/
theorem rp_single {s tok : String} {i : Int} (h : s.toList = '/' :: tok.toList)
    (hns : ∀ x ∈ tok.toList, (x == '/') = false) (hu : ptrUnescape tok = tok)
    (ha : indexToken? tok = some i) (hi : i.natAbs < 2 ^ 53)
    (hesc : escapesOK s.toList = true) : readPointer s = .ok [.idx i] := by
  rw [readPointer_of_toks (toks := [tok]) (by simp) (by simpa using h) (by simpa using hns) hesc]
  simp only [List.map_cons, List.map_nil, hu, tokJson_of_atoi ha, newPathM, newPathM.go,
    floatTrunc_intToFloatBits hi]

theorem rp_0 : readPointer "/0" = .ok [.idx 0] :=
  rp_single (tok := "0") (by decide) (by decide) (by decide) (by decide) (by decide) (by decide)
theorem rp_1 : readPointer "/1" = .ok [.idx 1] :=
  rp_single (tok := "1") (by decide) (by decide) (by decide) (by decide) (by decide) (by decide)
theorem rp_2 : readPointer "/2" = .ok [.idx 2] :=
  rp_single (tok := "2") (by decide) (by decide) (by decide) (by decide) (by decide) (by decide)
theorem rp_3 : readPointer "/3" = .ok [.idx 3] :=
  rp_single (tok := "3") (by decide) (by decide) (by decide) (by decide) (by decide) (by decide)
theorem rp_5 : readPointer "/5" = .ok [.idx 5] :=
  rp_single (tok := "5") (by decide) (by decide) (by decide) (by decide) (by decide) (by decide)
/-- a one-token pointer whose token is not an RFC 6901 array index and not `-`: a member name -/
theorem rp_single_key {s tok : String} (h : s.toList = '/' :: tok.toList)
    (hns : ∀ x ∈ tok.toList, (x == '/') = false) (hu : ptrUnescape tok = tok)
    (ha : indexToken? tok = none) (hd : (tok == "-") = false)
    (hesc : escapesOK s.toList = true) : readPointer s = .ok [.key tok] := by
  rw [readPointer_of_toks (toks := [tok]) (by simp) (by simpa using h) (by simpa using hns) hesc]
  simp only [List.map_cons, List.map_nil, hu, tokJson_of_key ha hd, newPathM, newPathM.go]

/-- D30, repaired: `strconv.Atoi` accepts a leading zero, but `strconv.Itoa(1) ≠ "01"`: the token is a
    member name … -/
theorem rp_01 : readPointer "/01" = .ok [.key "01"] :=
  rp_single_key (tok := "01") (by decide) (by decide) (by decide) (by decide) (by decide) (by decide)
/-- … and so is a token with a sign: the pointer slash-minus-one is no longer the append index -/
theorem rp_m1 : readPointer "/-1" = .ok [.key "-1"] :=
  rp_single_key (tok := "-1") (by decide) (by decide) (by decide) (by decide) (by decide) (by decide)
theorem rp_p1 : readPointer "/+1" = .ok [.key "+1"] :=
  rp_single_key (tok := "+1") (by decide) (by decide) (by decide) (by decide) (by decide) (by decide)
theorem rp_m0 : readPointer "/-0" = .ok [.key "-0"] :=
  rp_single_key (tok := "-0") (by decide) (by decide) (by decide) (by decide) (by decide) (by decide)
/-- the token `-` alone is still the append index -/
theorem rp_dash : readPointer "/-" = .ok [.idx (-1)] := by
  rw [readPointer_of_toks (toks := ["-"]) (by simp) (by decide) (by decide) (by decide)]
  have h1 : tokJson "-" = .num (intToFloatBits (-1)) := by
    have : indexToken? "-" = none := by decide
    simp [tokJson, this]
  simp only [List.map_cons, List.map_nil, show ptrUnescape "-" = "-" by decide, h1, newPathM,
    newPathM.go, floatTrunc_intToFloatBits (i := -1) (by decide)]

theorem pp_0 : parsePointer "/0" = some ["0"] := parsePointer_of_toList (by decide)
theorem pp_1 : parsePointer "/1" = some ["1"] := parsePointer_of_toList (by decide)
theorem pp_2 : parsePointer "/2" = some ["2"] := parsePointer_of_toList (by decide)
theorem pp_3 : parsePointer "/3" = some ["3"] := parsePointer_of_toList (by decide)
theorem pp_01 : parsePointer "/01" = some ["01"] := parsePointer_of_toList (by decide)
theorem pp_m1 : parsePointer "/-1" = some ["-1"] := parsePointer_of_toList (by decide)

/-! ### W2: the second of three operations is taken as after-context WITHOUT being a `test` -/

def w2Ops : List PatchOp := [tst "/1" (.str "b"), rmv "/3" (.str "c"), adp "/2" (.str "x")]
def w2Doc : Json := .arr .raw [.str "a", .str "b", .str "c", .str "d"]
def w2Diff : Diff := [{ path := [.idx 2], before := [.str "b"], after := [.str "c"], add := [.str "x"] }]

theorem w2_read : readPatchLoop (w2Ops.length + 1) w2Ops [] = .ok w2Diff := by
  simp [w2Ops, w2Diff, readPatchLoop, readPatchHunk, setPatchCtx, lastIdxOfPointer, rp_1, rp_2, rp_3,
    lastIdx?, tst, adp, rmv]

theorem w2_patch : ∃ r, patchM w2Doc w2Diff = .ok r ∧
    untag r = .arr .raw [.str "a", .str "b", .str "x", .str "c", .str "d"] := by
  have : applyStrictAll w2Doc w2Diff
      = some (.arr .raw [.str "a", .str "b", .str "x", .str "c", .str "d"]) := by
    simp [applyStrictAll, applyStrict, w2Doc, w2Diff, splice, prefixEq, beforeOk, afterOk,
      specEq, equivB]
  obtain ⟨r, h1, h2⟩ := patchM_of_ref (by decide) (by decide) this
  exact ⟨r, h1, by rw [h2]; simp [untag, untagList]⟩

theorem w2_rfc : eval w2Doc (w2Ops.map PatchOp.toSpec)
    = some (.arr .raw [.str "a", .str "b", .str "x", .str "c"]) := by
  simp [w2Ops, w2Doc, eval, evalOp, PatchOp.toSpec, tst, adp, rmv, pp_1, pp_2, pp_3, getP, addP,
    removeP, show arrayIndex? "1" = some 1 by decide, show arrayIndex? "2" = some 2 by decide,
    show arrayIndex? "3" = some 3 by decide, equivB, Json.isVoid]


/-! ### W3: the indices of the context tests are not related to the edit position -/

def w3Ops : List PatchOp := [tst "/0" (.str "a"), tst "/5" (.str "b"), adp "/3" (.str "x")]
def w3Doc : Json := .arr .raw [.str "q", .str "q", .str "a", .str "b"]
def w3Diff : Diff := [{ path := [.idx 3], before := [.str "a"], after := [.str "b"], add := [.str "x"] }]

theorem w3_read : readPatchLoop (w3Ops.length + 1) w3Ops [] = .ok w3Diff := by
  simp [w3Ops, w3Diff, readPatchLoop, readPatchHunk, setPatchCtx, lastIdxOfPointer, rp_0, rp_5, rp_3,
    lastIdx?, tst, adp]

theorem w3_patch : ∃ r, patchM w3Doc w3Diff = .ok r ∧
    untag r = .arr .raw [.str "q", .str "q", .str "a", .str "x", .str "b"] := by
  have : applyStrictAll w3Doc w3Diff
      = some (.arr .raw [.str "q", .str "q", .str "a", .str "x", .str "b"]) := by
    simp [applyStrictAll, applyStrict, w3Doc, w3Diff, splice, prefixEq, beforeOk, afterOk,
      specEq, equivB]
  obtain ⟨r, h1, h2⟩ := patchM_of_ref (by decide) (by decide) this
  exact ⟨r, h1, by rw [h2]; simp [untag, untagList]⟩

theorem w3_rfc : eval w3Doc (w3Ops.map PatchOp.toSpec) = none := by
  simp [w3Ops, w3Doc, eval, evalOp, PatchOp.toSpec, tst, adp, pp_0, getP,
    show arrayIndex? "0" = some 0 by decide, equivB, Json.isVoid]

/-! ### W4, W5 (D30, repaired): array index tokens RFC 6901 does not allow (leading zero, sign)

Before the repair `readPointer` made an index of every token `strconv.Atoi` accepts: `w4Ops` was read
as `w4DiffOld` (insert at index 1) and `w5Ops` as `w5DiffOld` (append), jd applied both to
`["a","b"]` and RFC 6902 rejects both. Now the tokens are member names. -/

theorem patchM_err_of_ref {t : Json} {d : Diff}
    (hd : d.all (fun h => !h.merge && strictPath h.path && hunkListDoc h) = true)
    (hn : t.listDoc = true) (h : applyStrictAll t d = none) : patchM t d = .err :=
  (strictAll_rejects_iff true t d hd hn).2 h

def w4Ops : List PatchOp := [adp "/01" (.str "x")]
def w4Doc : Json := .arr .raw [.str "a", .str "b"]
/-- what the reader made of `w4Ops` before the repair -/
def w4DiffOld : Diff := [{ path := [.idx 1], add := [.str "x"] }]
/-- what the repaired reader makes of it: the member name `01` -/
def w4Diff : Diff := [{ path := [.key "01"], add := [.str "x"] }]

theorem w4_read : readPatchLoop (w4Ops.length + 1) w4Ops [] = .ok w4Diff := by
  simp [w4Ops, w4Diff, readPatchLoop, readPatchHunk, rp_01, lastIdx?, adp]

/-- the old reading applied (kept: this is what made the patch MORE PERMISSIVE than the RFC) -/
theorem w4_patch_old : ∃ r, patchM w4Doc w4DiffOld = .ok r ∧
    untag r = .arr .raw [.str "a", .str "x", .str "b"] := by
  have : applyStrictAll w4Doc w4DiffOld = some (.arr .raw [.str "a", .str "x", .str "b"]) := by
    simp [applyStrictAll, applyStrict, w4Doc, w4DiffOld, splice, prefixEq, beforeOk, afterOk]
  obtain ⟨r, h1, h2⟩ := patchM_of_ref (by decide) (by decide) this
  exact ⟨r, h1, by rw [h2]; simp [untag, untagList]⟩

/-- the new reading does not apply to an array: a member name does not address an array -/
theorem w4_patch : patchM w4Doc w4Diff = .err :=
  patchM_err_of_ref (by decide) (by decide)
    (by simp [applyStrictAll, applyStrict, w4Doc, w4Diff])

theorem w4_rfc : eval w4Doc (w4Ops.map PatchOp.toSpec) = none := by
  simp [w4Ops, w4Doc, eval, evalOp, PatchOp.toSpec, adp, pp_01, addP,
    show arrayIndex? "01" = none by decide]

/-- on an OBJECT the token names the member `01`, for jd … -/
theorem w4_patch_obj : ∃ r, patchM (.obj []) w4Diff = .ok r ∧ untag r = .obj [("01", .str "x")] := by
  have : applyStrictAll (.obj []) w4Diff = some (.obj [("01", .str "x")]) := by
    simp [applyStrictAll, applyStrict, w4Diff, alookup, specEq, equivB, single, Json.singleValue,
      Json.isVoid, ainsert]
  obtain ⟨r, h1, h2⟩ := patchM_of_ref (by decide) (by decide) this
  exact ⟨r, h1, by rw [h2]; simp [untag, untagKvs]⟩

/-- … and for RFC 6902 -/
theorem w4_rfc_obj : eval (.obj []) (w4Ops.map PatchOp.toSpec) = some (.obj [("01", .str "x")]) := by
  simp [w4Ops, eval, evalOp, PatchOp.toSpec, adp, pp_01, addP, ainsert]

def w5Ops : List PatchOp := [adp "/-1" (.str "x")]
def w5DiffOld : Diff := [{ path := [.idx (-1)], add := [.str "x"] }]
def w5Diff : Diff := [{ path := [.key "-1"], add := [.str "x"] }]

theorem w5_read : readPatchLoop (w5Ops.length + 1) w5Ops [] = .ok w5Diff := by
  simp [w5Ops, w5Diff, readPatchLoop, readPatchHunk, rp_m1, lastIdx?, adp]

theorem w5_patch_old : ∃ r, patchM w4Doc w5DiffOld = .ok r ∧
    untag r = .arr .raw [.str "a", .str "b", .str "x"] := by
  have : applyStrictAll w4Doc w5DiffOld = some (.arr .raw [.str "a", .str "b", .str "x"]) := by
    simp [applyStrictAll, applyStrict, w4Doc, w5DiffOld, splice]
  obtain ⟨r, h1, h2⟩ := patchM_of_ref (by decide) (by decide) this
  exact ⟨r, h1, by rw [h2]; simp [untag, untagList]⟩

theorem w5_patch : patchM w4Doc w5Diff = .err :=
  patchM_err_of_ref (by decide) (by decide)
    (by simp [applyStrictAll, applyStrict, w4Doc, w5Diff])

theorem w5_rfc : eval w4Doc (w5Ops.map PatchOp.toSpec) = none := by
  simp [w5Ops, w4Doc, eval, evalOp, PatchOp.toSpec, adp, pp_m1, addP,
    show arrayIndex? "-1" = none by decide]

theorem w5_patch_obj : ∃ r, patchM (.obj []) w5Diff = .ok r ∧ untag r = .obj [("-1", .str "x")] := by
  have : applyStrictAll (.obj []) w5Diff = some (.obj [("-1", .str "x")]) := by
    simp [applyStrictAll, applyStrict, w5Diff, alookup, specEq, equivB, single, Json.singleValue,
      Json.isVoid, ainsert]
  obtain ⟨r, h1, h2⟩ := patchM_of_ref (by decide) (by decide) this
  exact ⟨r, h1, by rw [h2]; simp [untag, untagKvs]⟩

theorem w5_rfc_obj : eval (.obj []) (w5Ops.map PatchOp.toSpec) = some (.obj [("-1", .str "x")]) := by
  simp [w5Ops, eval, evalOp, PatchOp.toSpec, adp, pp_m1, addP, ainsert]


/-! ### W6 (D30, repaired): a `~` escape RFC 6901 does not allow is now an error -/

/-- `checkPointerEscapes`: the pointer slash-tilde-two is rejected (before the repair: the member
    name tilde-two) -/
theorem rp_t2 : readPointer "/~2" = .err := by
  rw [readPointer_eq]
  have h1 : ("/~2" == "") = false := by decide
  have h2 : "/~2".startsWith "/" = true := by
    rw [String.startsWith_string_iff]; exact ⟨['~', '2'], by decide⟩
  have h3 : escapesOK "/~2".toList = false := by decide
  simp only [h1, h2, h3, Bool.false_eq_true, if_false, Bool.not_true, Bool.not_false, if_true]

/-- a `~` at the end of a token -/
theorem rp_t_end : readPointer "/a~" = .err := by
  rw [readPointer_eq]
  have h1 : ("/a~" == "") = false := by decide
  have h2 : "/a~".startsWith "/" = true := by
    rw [String.startsWith_string_iff]; exact ⟨['a', '~'], by decide⟩
  have h3 : escapesOK "/a~".toList = false := by decide
  simp only [h1, h2, h3, Bool.false_eq_true, if_false, Bool.not_true, Bool.not_false, if_true]

theorem pp_t2 : parsePointer "/~2" = none := by
  unfold parsePointer
  rw [splitOn_slash]
  have : List.splitOnP (· == '/') "/~2".toList = [[], ['~', '2']] := by decide
  rw [this]
  have h1 : ("/~2" == "") = false := by decide
  have h2 : "/~2".startsWith "/" = true := by
    rw [String.startsWith_string_iff]; exact ⟨['~', '2'], by decide⟩
  simp [h1, h2, decodeToken]

def w6Ops : List PatchOp := [adp "/~2" (.str "x")]
/-- what the reader made of `w6Ops` before the repair: the member named tilde-two -/
def w6DiffOld : Diff := [{ path := [.key "~2"], add := [.str "x"] }]

theorem w6_read : readPatchLoop (w6Ops.length + 1) w6Ops [] = .err := by
  simp [w6Ops, readPatchLoop, readPatchHunk, rp_t2, adp]

theorem w6_patch_old : ∃ r, patchM (.obj []) w6DiffOld = .ok r ∧ untag r = .obj [("~2", .str "x")] := by
  have : applyStrictAll (.obj []) w6DiffOld = some (.obj [("~2", .str "x")]) := by
    simp [applyStrictAll, applyStrict, w6DiffOld, alookup, specEq, equivB, single, Json.singleValue,
      Json.isVoid, ainsert]
  obtain ⟨r, h1, h2⟩ := patchM_of_ref (by decide) (by decide) this
  exact ⟨r, h1, by rw [h2]; simp [untag, untagKvs]⟩

theorem w6_rfc : eval (.obj []) (w6Ops.map PatchOp.toSpec) = none := by
  simp [w6Ops, eval, evalOp, PatchOp.toSpec, adp, pp_t2]



/-! ### W7: the after-context test is not related to the number of removals coalesced later -/

def w7Ops : List PatchOp :=
  [tst "/0" (.str "b"), tst "/2" (.str "a"), tst "/1" (.str "r1"), rmv "/1" (.str "r1"),
   tst "/1" (.str "r2"), rmv "/1" (.str "r2")]
def w7Doc : Json := .arr .raw [.str "b", .str "r1", .str "r2", .str "a"]
def w7Diff : Diff :=
  [{ path := [.idx 1], before := [.str "b"], after := [.str "a"], remove := [.str "r1", .str "r2"] }]

theorem w7_read (L : FloatLaws) : readPatchLoop (w7Ops.length + 1) w7Ops [] = .ok w7Diff := by
  have hp : equals [] (pathToJson [.idx 1]) (pathToJson [.idx 1]) = true :=
    pathEq_self L (p := [.idx 1]) (by decide)
  simp [w7Ops, w7Diff, readPatchLoop, readPatchHunk, setPatchCtx, lastIdxOfPointer, rp_0, rp_1, rp_2,
    lastIdx?, tst, rmv, hp, hasContext, Json.isVoid, equals]

theorem w7_patch : ∃ r, patchM w7Doc w7Diff = .ok r ∧ untag r = .arr .raw [.str "b", .str "a"] := by
  have : applyStrictAll w7Doc w7Diff = some (.arr .raw [.str "b", .str "a"]) := by
    simp [applyStrictAll, applyStrict, w7Doc, w7Diff, splice, prefixEq, beforeOk, afterOk,
      specEq, equivB]
  obtain ⟨r, h1, h2⟩ := patchM_of_ref (by decide) (by decide) this
  exact ⟨r, h1, by rw [h2]; simp [untag, untagList]⟩

theorem w7_rfc : eval w7Doc (w7Ops.map PatchOp.toSpec) = none := by
  simp [w7Ops, w7Doc, eval, evalOp, PatchOp.toSpec, tst, rmv, pp_0, pp_2, getP,
    show arrayIndex? "0" = some 0 by decide, show arrayIndex? "2" = some 2 by decide, equivB,
    Json.isVoid]


/-! writing the pointers of the witnesses and examples -/

theorem wpp_idx {i : Int} (h0 : 0 ≤ i) (h : i.natAbs < 2 ^ 53) {s : String}
    (hs : "/" ++ ptrEscape (toString i) = s) : writePointerPath [.idx i] = .ok s := by
  rw [writePointerPath_cons, writePointerPath_nil]
  have : wtok (.idx i) = some (ptrEscape (toString i)) := by
    simp only [wtok, floatTrunc_intToFloatBits h]
    have : (i == -1) = false := by simp; omega
    simp [this]
  rw [this, ← hs]; simp

theorem wpp_0 : writePointerPath [.idx 0] = .ok "/0" := wpp_idx (by decide) (by decide) (by decide)
theorem wpp_1 : writePointerPath [.idx 1] = .ok "/1" := wpp_idx (by decide) (by decide) (by decide)
theorem wpp_2 : writePointerPath [.idx 2] = .ok "/2" := wpp_idx (by decide) (by decide) (by decide)

/-! ### 9.7 the new reader on the witnesses -/

theorem w1_fixed : readPatchOps w1Ops = .err := by
  simp [readPatchOps, w1_read]
  simp [w1Ops, w1Diff, readPatchCtxLoop, readPatchHunk, setPatchCtx, lastIdxOfPointer, rp_a0, rp_b1,
    lastIdx?, tst, adp, ctxOf, checkPatchCtxs, checkPatchCtx, ctxTestOK, Json.isVoid, pathToJson,
    equals, effTag, Json.dispatch, equalsList, dispatchTag]

theorem w2_fixed : readPatchOps w2Ops = .err := by
  simp [readPatchOps, w2_read]
  simp [w2Ops, w2Diff, readPatchCtxLoop, readPatchHunk, setPatchCtx, lastIdxOfPointer, rp_1, rp_2, rp_3,
    lastIdx?, tst, adp, rmv, ctxOf, checkPatchCtxs, checkPatchCtx, ctxTestOK, Json.isVoid, pathToJson,
    equals, effTag, Json.dispatch, equalsList, dispatchTag]

theorem w3_fixed : readPatchOps w3Ops = .err := by
  simp [readPatchOps, w3_read]
  simp [w3Ops, w3Diff, readPatchCtxLoop, readPatchHunk, setPatchCtx, lastIdxOfPointer, rp_0, rp_5, rp_3,
    lastIdx?, tst, adp, ctxOf, checkPatchCtxs, checkPatchCtx, ctxTestOK, Json.isVoid, pathToJson,
    equals, effTag, Json.dispatch, equalsList, dispatchTag]

def w7H1 : Hunk := { path := [.idx 1], before := [.str "b"], after := [.str "a"], remove := [.str "r1"] }
def w7H2 : Hunk := { path := [.idx 1], before := [.void], after := [.void], remove := [.str "r2"] }
def w7Rest : List PatchOp := [tst "/1" (.str "r2"), rmv "/1" (.str "r2")]
def w7Ctx : PatchCtx := { before := some (tst "/0" (.str "b")), after := some (tst "/2" (.str "a")) }

theorem w7_e1 : readPatchHunk w7Ops = .ok (w7H1, w7Rest) := by
  simp [w7Ops, w7H1, w7Rest, readPatchHunk, setPatchCtx, lastIdxOfPointer, rp_0, rp_1, rp_2,
    lastIdx?, tst, rmv, equals]

theorem w7_c1 : ctxOf w7Ops = w7Ctx := by
  simp [w7Ops, w7Ctx, ctxOf, setPatchCtx, lastIdxOfPointer, rp_0, rp_1, rp_2, lastIdx?, tst, rmv]

theorem w7_e2 : readPatchHunk w7Rest = .ok (w7H2, []) := by
  simp [w7H2, w7Rest, readPatchHunk, setPatchCtx, lastIdxOfPointer, rp_1,
    lastIdx?, tst, rmv, equals]

/-- the context operations remembered for the ONE element read from W7: the two tests at 0 and 2 -/
theorem w7_ctxs (L : FloatLaws) : readPatchCtxLoop (w7Ops.length + 1) w7Ops [] [] = .ok [w7Ctx] := by
  have hp : equals [] (pathToJson [.idx 1]) (pathToJson [.idx 1]) = true :=
    pathEq_self L (p := [.idx 1]) (by decide)
  have h0 : w7Ops = tst "/0" (.str "b") :: w7Ops.tail := rfl
  have h1 : w7Rest = tst "/1" (.str "r2") :: w7Rest.tail := rfl
  rw [show w7Ops.length + 1 = 5 + 1 + 1 from rfl, h0, readPatchCtxLoop_cons, ← h0, w7_e1]
  simp only
  rw [h1, readPatchCtxLoop_cons, ← h1, w7_e2, w7_c1]
  simp [pushElem, pushCtx, w7H1, w7H2, hp, hasContext, Json.isVoid, readPatchCtxLoop]

/-- the after-context test at 2 is not at `1 + |Remove| = 3` -/
theorem w7_check : checkPatchCtxs w7Diff [w7Ctx] = .err := by
  simp [w7Diff, w7Ctx, checkPatchCtxs, checkPatchCtx, ctxTestOK, rp_0, rp_2, tst, lastIdx?, pathToJson,
    equals, effTag, Json.dispatch, equalsList, dispatchTag]

theorem w7_fixed (L : FloatLaws) : readPatchOps w7Ops = .err := by
  simp only [readPatchOps, w7_read L, w7_ctxs L, w7_check]

/-- a patch of ONE context-free `add`: the second loop remembers no context, the check passes -/
theorem readPatchOps_single_add {q : PatchOp} {path : Path} (hq : q.op = "add")
    (hp : readPointer q.path = .ok path) :
    readPatchOps [q] = .ok [{ path := path, add := [q.value] }] := by
  have hr : readPatchHunk [q] = .ok ({ path := path, add := [q.value] }, []) := by
    rw [readPatchHunk_cons]
    simp [finishHunk, hq, hp]
  have h1 : readPatchLoop ([q].length + 1) [q] [] = .ok [{ path := path, add := [q.value] }] := by
    rw [show [q].length + 1 = 1 + 1 from rfl, readPatchLoop_cons, hr]
    simp [pushElem, readPatchLoop]
  have h2 : readPatchCtxLoop ([q].length + 1) [q] [] [] = .ok [{}] := by
    rw [show [q].length + 1 = 1 + 1 from rfl, readPatchCtxLoop_cons, hr, ctxOf_not_test (by rw [hq]; decide)]
    simp [pushCtx, readPatchCtxLoop]
  simp only [readPatchOps, h1, h2]
  simp [checkPatchCtxs, checkPatchCtx]

theorem w4_accepted : readPatchOps w4Ops = .ok w4Diff :=
  readPatchOps_single_add (q := adp "/01" (.str "x")) rfl rp_01

theorem w5_accepted : readPatchOps w5Ops = .ok w5Diff :=
  readPatchOps_single_add (q := adp "/-1" (.str "x")) rfl rp_m1

theorem w6_rejected : readPatchOps w6Ops = .err := by
  simp [readPatchOps, w6_read]

/-! ### 9.8 REGRESSIONS: the former findings F1–F3b, now rejected by the reader

Each former finding is split in two: `loop_alone_…` keeps the old statement (what the element loop
`readPatchLoop` alone reads, what jd's `Patch` does with it, what RFC 6902 evaluation gives) and
`fixed_…` states that `readPatchOps` = `ReadPatchString` after the fix REJECTS the operation list. -/

/-- (former FINDING 1, context of another array) what the element loop alone does with
    `test /a/0 "x"; add /b/1 "y"` on `{"a":["z"],"b":["x"]}`: the `test` is taken as the
    before-context of the edit of `b` (only the LAST index of its pointer is looked at), jd would
    check `b[0]` and succeed; RFC 6902 tests `a[0]` and rejects the patch. -/
theorem loop_alone_context_of_another_array :
    readPatchLoop (w1Ops.length + 1) w1Ops [] = .ok w1Diff ∧
    (∃ r, patchM w1Doc w1Diff = .ok r ∧
      untag r = .obj [("a", .arr .raw [.str "z"]), ("b", .arr .raw [.str "x", .str "y"])]) ∧
    eval w1Doc (w1Ops.map PatchOp.toSpec) = none :=
  ⟨w1_read, w1_patch, w1_rfc⟩

/-- **REGRESSION F1**: the reader now rejects it (the parent of the context test is not the parent
    of the edit). -/
theorem fixed_context_of_another_array : readPatchOps w1Ops = .err := w1_fixed

/-- (former FINDING 2, an operation that is not a `test` consumed as context) the element loop alone
    on `test /1 "b"; remove /3; add /2 "x"`, `["a","b","c","d"]`: the `remove` is taken as the
    after-context line `"c"` of the `add` and would NOT be executed: jd `["a","b","x","c","d"]`,
    RFC 6902 `["a","b","x","c"]`. -/
theorem loop_alone_non_test_taken_as_context :
    readPatchLoop (w2Ops.length + 1) w2Ops [] = .ok w2Diff ∧
    (∃ r, patchM w2Doc w2Diff = .ok r ∧
      untag r = .arr .raw [.str "a", .str "b", .str "x", .str "c", .str "d"]) ∧
    eval w2Doc (w2Ops.map PatchOp.toSpec) = some (.arr .raw [.str "a", .str "b", .str "x", .str "c"]) :=
  ⟨w2_read, w2_patch, w2_rfc⟩

/-- **REGRESSION F2**: the reader now rejects it (the operation taken as after-context is not a
    `test`). -/
theorem fixed_non_test_taken_as_context : readPatchOps w2Ops = .err := w2_fixed

/-- (former FINDING 3, index arithmetic of the context tests unchecked) the element loop alone on
    `test /0 "a"; test /5 "b"; add /3 "x"`, `["q","q","a","b"]`: only `3 ≤ 5` is checked; jd would
    compare the context lines with the elements at 2 and 3 and succeed, RFC 6902 tests the elements
    at 0 and 5 and rejects. -/
theorem loop_alone_context_indices_unchecked :
    readPatchLoop (w3Ops.length + 1) w3Ops [] = .ok w3Diff ∧
    (∃ r, patchM w3Doc w3Diff = .ok r ∧
      untag r = .arr .raw [.str "q", .str "q", .str "a", .str "x", .str "b"]) ∧
    eval w3Doc (w3Ops.map PatchOp.toSpec) = none :=
  ⟨w3_read, w3_patch, w3_rfc⟩

/-- **REGRESSION F3**: the reader now rejects it (the before test is at 0, not at 3 − 1). -/
theorem fixed_context_indices_unchecked : readPatchOps w3Ops = .err := w3_fixed

/-- (former FINDING 3b; `FloatLaws` only because READING this patch coalesces two elements, which
    compares their paths with the opaque float `Equals`) the element loop alone on `test /0 "b";
    test /2 "a"; test /1 "r1"; remove /1; test /1 "r2"; remove /1`, `["b","r1","r2","a"]`: the
    after-context would be checked by jd AFTER both removals (element 3 of the original array), by
    the RFC before them at index 2: jd would apply and yield `["b","a"]`, the RFC rejects. -/
theorem loop_alone_after_context_vs_coalesced_removals (L : FloatLaws) :
    readPatchLoop (w7Ops.length + 1) w7Ops [] = .ok w7Diff ∧
    (∃ r, patchM w7Doc w7Diff = .ok r ∧ untag r = .arr .raw [.str "b", .str "a"]) ∧
    eval w7Doc (w7Ops.map PatchOp.toSpec) = none :=
  ⟨w7_read L, w7_patch, w7_rfc⟩

/-- **REGRESSION F3b**: the reader now rejects it: the context check runs once the elements are
    complete, with the number of removals coalesced into the element (`1 + 2 = 3 ≠ 2`). -/
theorem fixed_after_context_vs_coalesced_removals (L : FloatLaws) : readPatchOps w7Ops = .err :=
  w7_fixed L

/-- the goal theorem for the element loop ALONE (no context check, no hypothesis on the pointers) is
    false on the model (witness: former finding 1) … -/
theorem loop_alone_unrestricted_goal_is_false :
    ¬ (∀ (ops : List PatchOp) (d : Diff) (t r : Json), t.wf = true → t.listDoc = true →
        (∀ o ∈ ops, valueOK o.value = true) →
        readPatchLoop (ops.length + 1) ops [] = .ok d → patchM t d = .ok r →
        ∃ r', eval t (ops.map PatchOp.toSpec) = some r' ∧ untag r' = untag r) := by
  intro H
  obtain ⟨r, hr, _⟩ := w1_patch
  have hv : ∀ o ∈ w1Ops, valueOK o.value = true := by
    intro o ho
    simp only [w1Ops, tst, adp, List.mem_cons, List.not_mem_nil, or_false] at ho
    rcases ho with rfl | rfl <;> decide
  obtain ⟨r', h1, _⟩ := H w1Ops w1Diff w1Doc r (by decide) (by decide) hv w1_read hr
  rw [w1_rfc] at h1
  cases h1

/-- … **REGRESSION**: and its witness no longer reaches `Patch`: nothing is read from it. (The goal
    theorem for `readPatchOps` is `readPatchOps_never_more_permissive`.) -/
theorem fixed_unrestricted_goal_witness : ¬ ∃ d, readPatchOps w1Ops = .ok d := by
  rintro ⟨d, h⟩
  rw [w1_fixed] at h
  cases h

/-! ### 9.9 REGRESSIONS of D30: JSON Pointer token syntax (former observations, now repaired)

Before the repair `readPointer` parsed index tokens with `strconv.Atoi` and kept a `~` that is not
followed by `0` or `1` as text, both more lenient than RFC 6901: jd applied `add` at the pointers
slash-zero-one and slash-minus-one to `["a","b"]` and `add` at slash-tilde-two to `{}`, RFC 6902 rejects
all three — jd was MORE PERMISSIVE (D30). After the repair (`strconv.Itoa(number) == t`,
`checkPointerEscapes`) a token that is not an RFC 6901 array index names a member, and an invalid
escape is an error. The same witnesses, now as regressions. -/

/-- **REGRESSION (D30)** array index tokens outside the RFC 6901 grammar (leading zero, sign). The
    reader reads `add` at slash-zero-one and at slash-minus-one as additions of the MEMBERS `01`, `-1`;
    on the array `["a","b"]` jd's `Patch` now fails, as RFC 6902 does; on the object `{}` both add
    the member. -/
theorem fixed_noncanonical_index_tokens :
    (readPatchOps w4Ops = .ok w4Diff ∧ patchM w4Doc w4Diff = .err ∧
     eval w4Doc (w4Ops.map PatchOp.toSpec) = none ∧
     (∃ r, patchM (.obj []) w4Diff = .ok r ∧ untag r = .obj [("01", .str "x")]) ∧
     eval (.obj []) (w4Ops.map PatchOp.toSpec) = some (.obj [("01", .str "x")])) ∧
    (readPatchOps w5Ops = .ok w5Diff ∧ patchM w4Doc w5Diff = .err ∧
     eval w4Doc (w5Ops.map PatchOp.toSpec) = none ∧
     (∃ r, patchM (.obj []) w5Diff = .ok r ∧ untag r = .obj [("-1", .str "x")]) ∧
     eval (.obj []) (w5Ops.map PatchOp.toSpec) = some (.obj [("-1", .str "x")])) :=
  ⟨⟨w4_accepted, w4_patch, w4_rfc, w4_patch_obj, w4_rfc_obj⟩,
   ⟨w5_accepted, w5_patch, w5_rfc, w5_patch_obj, w5_rfc_obj⟩⟩

/-- what the pointer reader makes of the tokens: `01`, `-1`, `+1`, `-0` are member names, `-` alone is
    still the append index, `0` and `1` are indices -/
theorem fixed_index_token_reading :
    readPointer "/01" = .ok [.key "01"] ∧ readPointer "/-1" = .ok [.key "-1"] ∧
    readPointer "/+1" = .ok [.key "+1"] ∧ readPointer "/-0" = .ok [.key "-0"] ∧
    readPointer "/-" = .ok [.idx (-1)] ∧ readPointer "/0" = .ok [.idx 0] ∧
    readPointer "/1" = .ok [.idx 1] :=
  ⟨rp_01, rp_m1, rp_p1, rp_m0, rp_dash, rp_0, rp_1⟩

/-- **REGRESSION (D30)** an escape RFC 6901 does not allow: the pointers slash-tilde-two and
    slash-a-tilde are rejected by `readPointer`, `add` at slash-tilde-two is not read at all; RFC 6901
    rejects the pointer. -/
theorem fixed_invalid_escape_rejected :
    readPointer "/~2" = .err ∧ readPointer "/a~" = .err ∧ readPatchOps w6Ops = .err ∧
    eval (.obj []) (w6Ops.map PatchOp.toSpec) = none :=
  ⟨rp_t2, rp_t_end, w6_rejected, w6_rfc⟩

/-- what made D30 a defect, kept as documentation: the diffs the reader built from the three
    witnesses BEFORE the repair apply under jd's `Patch` (insert at 1, append, member tilde-two)
    where RFC 6902 evaluation of the operations fails -/
theorem before_repair_readings_applied :
    ((∃ r, patchM w4Doc w4DiffOld = .ok r ∧ untag r = .arr .raw [.str "a", .str "x", .str "b"]) ∧
     eval w4Doc (w4Ops.map PatchOp.toSpec) = none) ∧
    ((∃ r, patchM w4Doc w5DiffOld = .ok r ∧ untag r = .arr .raw [.str "a", .str "b", .str "x"]) ∧
     eval w4Doc (w5Ops.map PatchOp.toSpec) = none) ∧
    ((∃ r, patchM (.obj []) w6DiffOld = .ok r ∧ untag r = .obj [("~2", .str "x")]) ∧
     eval (.obj []) (w6Ops.map PatchOp.toSpec) = none) :=
  ⟨⟨w4_patch_old, w4_rfc⟩, ⟨w5_patch_old, w5_rfc⟩, ⟨w6_patch_old, w6_rfc⟩⟩

/-- none of these pointer texts is canonical in the sense of `canonPtr` (the text jd itself
    writes): the first two are now member names that `writePointer` refuses (number-like), the third
    is not read -/
theorem fixed_pointers_not_canonical :
    canonPtr "/01" = false ∧ canonPtr "/-1" = false ∧ canonPtr "/~2" = false := by
  refine ⟨?_, ?_, ?_⟩
  · have : (atoi? "01").isNone = false := by decide
    simp [canonPtr, rp_01, pathOK', elemOK', this]
  · have : (atoi? "-1").isNone = false := by decide
    simp [canonPtr, rp_m1, pathOK', elemOK', this]
  · simp [canonPtr, rp_t2]

/-- the witness that showed `canonPtr` could not be dropped from `readPatchOps_never_more_permissive`
    (the pointer slash-zero-one on `["a","b"]`) is no longer one: the patch is read, and jd's `Patch`
    of what was read FAILS, so the statement holds at this instance without `canonPtr` -/
theorem fixed_canonical_pointers_witness :
    readPatchOps w4Ops = .ok w4Diff ∧ (∀ h ∈ w4Diff, HunkRange h) ∧
    ¬ ∃ r, patchM w4Doc w4Diff = .ok r := by
  refine ⟨w4_accepted, ?_, ?_⟩
  · intro h hm
    simp only [w4Diff, List.mem_singleton] at hm
    subst hm
    refine ⟨?_, ?_⟩
    · intro i hi
      simp at hi
    · intro i hi
      simp [lastIdx?] at hi
  · rintro ⟨r, hr⟩
    rw [w4_patch] at hr
    cases hr

/-! ## 9b. The repaired reader is injective: NO hypothesis on the spelling of reference tokens

Since the repair D30 a pointer text `readPointer` accepts is determined by the path read: every `~`
is a valid escape (`checkPointerEscapes`), so the library's two-pass unescape is RFC 6901 decoding
and re-escaping gives the raw token back (`escChars_unescape`); an index token is the canonical
decimal text of its index (`strconv.Itoa(number) == t`); every other token is a member name, written
back by escaping. Hence `ptrOKr` — the pointer hypothesis of `readPatchOps_never_more_permissive_r` —
holds of EVERY text whose index tokens are below 2^53 (`ptrOKr_of_idxTokens`; the bound is the
range in which the model's `int → float64` conversion of an index is exact, as `HunkRange`), and
the main theorem holds without `canonPtr` (`readPatchOps_never_more_permissive_all_pointers`). -/


/-- every reference token of the text that is an RFC 6901 array index is below 2^53 -/
def idxTokensOK (s : String) : Bool :=
  (((s.splitOn "/").drop 1).map ptrUnescape).all (fun u =>
    match indexToken? u with
    | some i => decide (i < 2 ^ 53)
    | none => true)

/-- the path element the repaired `readPointer` makes of a (decoded) reference token -/
def elemR (u : String) : PathElem :=
  match indexToken? u with
  | some i => .idx i
  | none => if u == "-" then .idx (-1) else .key u

theorem decodeToken_cons_ne {c : Char} (h : c ≠ '~') (r : List Char) :
    decodeToken (c :: r) = (decodeToken r).map (c :: ·) := by
  rw [decodeToken]
  · intro r' hr' _; exact h hr'
  · intro r' hr' _; exact h hr'
  · intro hr'; exact h hr'

/-- a token (no raw slash) inside a text that passes `checkPointerEscapes` decodes (RFC 6901) -/
theorem decode_of_escapesOK : ∀ (n : Nat) (r rest : List Char), r.length ≤ n →
    (rest = [] ∨ ∃ t, rest = '/' :: t) → escapesOK (r ++ rest) = true →
    (∃ u, decodeToken r = some u) ∧ escapesOK rest = true
  | _, [], rest, _, _, h => ⟨⟨[], rfl⟩, h⟩
  | 0, _ :: _, _, hn, _, _ => by simp at hn
  | n + 1, c :: r, rest, hn, hrest, h => by
    have hn' : r.length ≤ n := by simpa using hn
    by_cases hc : c = '~'
    · subst hc
      cases r with
      | nil =>
        rcases hrest with rfl | ⟨t, rfl⟩
        · simp [escapesOK_tilde_nil] at h
        · simp [escapesOK_tilde] at h
      | cons x r2 =>
        simp only [List.cons_append] at h
        rw [escapesOK_tilde, Bool.and_eq_true] at h
        obtain ⟨hx, h⟩ := h
        have hx' : x = '0' ∨ x = '1' := by simpa using hx
        have hxt : x ≠ '~' := by rcases hx' with rfl | rfl <;> decide
        rw [escapesOK_cons_ne hxt] at h
        have hn2 : r2.length ≤ n := by simp at hn'; omega
        obtain ⟨⟨u, hu⟩, hr⟩ := decode_of_escapesOK n r2 rest hn2 hrest h
        refine ⟨?_, hr⟩
        rcases hx' with rfl | rfl
        · exact ⟨'~' :: u, by simp [decodeToken, hu]⟩
        · exact ⟨'/' :: u, by simp [decodeToken, hu]⟩
    · simp only [List.cons_append] at h
      rw [escapesOK_cons_ne hc] at h
      obtain ⟨⟨u, hu⟩, hr⟩ := decode_of_escapesOK n r rest hn' hrest h
      exact ⟨⟨c :: u, by rw [decodeToken_cons_ne hc, hu]; rfl⟩, hr⟩

theorem decode_all_of_escapesOK : ∀ (raw : List (List Char)),
    escapesOK (raw.flatMap (fun t => '/' :: t)) = true → ∀ r ∈ raw, ∃ u, decodeToken r = some u
  | [], _, r, hr => by cases hr
  | t :: raw, h, r, hr => by
    simp only [List.flatMap_cons, List.cons_append] at h
    rw [escapesOK_cons_ne (by decide)] at h
    have hrest : (raw.flatMap (fun t => '/' :: t)) = [] ∨
        ∃ t', (raw.flatMap (fun t => '/' :: t)) = '/' :: t' := by
      cases raw with
      | nil => exact Or.inl rfl
      | cons a b => exact Or.inr ⟨_, rfl⟩
    obtain ⟨hu, h'⟩ := decode_of_escapesOK t.length t _ (Nat.le_refl _) hrest h
    rcases List.mem_cons.1 hr with rfl | hr
    · exact hu
    · exact decode_all_of_escapesOK raw h' r hr


theorem indexToken?_some {u : String} {i : Int} (h : indexToken? u = some i) :
    0 ≤ i ∧ toString i = u := by
  unfold indexToken? at h
  cases ha : atoi? u with
  | none => rw [ha] at h; cases h
  | some j =>
    rw [ha] at h
    simp only at h
    split at h
    · rename_i hc
      injection h with h; subst h
      simpa using hc
    · cases h

def tokBound (u : String) : Prop :=
  match indexToken? u with
  | some i => i < 2 ^ 53
  | none => True

theorem elemR_props {u : String} (hb : tokBound u) :
    elemOKr (elemR u) = true ∧ elemTok (elemR u) = u ∧
    ∀ r, newPathM.go (tokJson u :: r) =
      (match newPathM.go r with | .ok p => .ok (elemR u :: p) | e' => e') := by
  unfold tokBound at hb
  cases hi : indexToken? u with
  | some i =>
    rw [hi] at hb
    obtain ⟨h0, hs⟩ := indexToken?_some hi
    have hn : i.natAbs < 2 ^ 53 := by omega
    refine ⟨?_, ?_, ?_⟩
    · simp only [elemR, hi, elemOKr, Bool.and_eq_true, decide_eq_true_eq]; omega
    · simp only [elemR, hi, elemTok]; rw [idxTok_nonneg h0, hs]
    · intro r
      simp only [elemR, hi, tokJson]
      rw [go_num, floatTrunc_intToFloatBits hn]
      try (cases newPathM.go r <;> rfl)
  | none =>
    by_cases hd : (u == "-") = true
    · have : u = "-" := by simpa using hd
      subst this
      refine ⟨by decide, rfl, ?_⟩
      intro r
      have h1 : tokJson "-" = .num (intToFloatBits (-1)) := by simp [tokJson, hi]
      have h2 : elemR "-" = .idx (-1) := by simp [elemR, hi]
      rw [h1, h2, go_num, floatTrunc_intToFloatBits (i := -1) (by decide)]
      try (cases newPathM.go r <;> rfl)
    · have hd' : (u == "-") = false := by simpa using hd
      refine ⟨by simp [elemR, hi, hd', elemOKr], by simp [elemR, hi, hd', elemTok], ?_⟩
      intro r
      simp only [elemR, hi, hd', tokJson, Bool.false_eq_true, if_false]
      rw [go_str]
      try (cases newPathM.go r <;> rfl)

theorem flatMap_congr' {α β} {f g : α → List β} : ∀ {l : List α}, (∀ a ∈ l, f a = g a) →
    l.flatMap f = l.flatMap g
  | [], _ => rfl
  | a :: l, h => by
    simp only [List.flatMap_cons]
    rw [h a List.mem_cons_self, flatMap_congr' (fun b hb => h b (List.mem_cons_of_mem _ hb))]

theorem go_elemR : ∀ (toks : List String), (∀ u ∈ toks, tokBound u) →
    newPathM.go (toks.map tokJson) = .ok (toks.map elemR) ∧ pathOKr (toks.map elemR) = true ∧
    ptoks (toks.map elemR) = toks
  | [], _ => ⟨rfl, rfl, rfl⟩
  | u :: toks, h => by
    obtain ⟨h1, h2, h3⟩ := elemR_props (h u List.mem_cons_self)
    obtain ⟨i1, i2, i3⟩ := go_elemR toks (fun v hv => h v (List.mem_cons_of_mem _ hv))
    refine ⟨?_, ?_, ?_⟩
    · simp only [List.map_cons]; rw [h3, i1]
    · simp only [List.map_cons, pathOKr, List.all_cons, h1, Bool.true_and]; exact i2
    · simp only [ptoks] at i3
      simp only [List.map_cons, ptoks, h2, i3]

theorem wpL_total : ∀ {p : Path}, pathOKr p = true → ∃ s, wpL p = .ok s
  | [], _ => ⟨"", rfl⟩
  | e :: p, h => by
    simp only [pathOKr, List.all_cons, Bool.and_eq_true] at h
    obtain ⟨rest, hr⟩ := wpL_total (p := p) h.2
    simp only [wpL, hr]
    cases e with
    | key k => exact ⟨_, rfl⟩
    | idx i => simp only [wtokL, wtok]; exact ⟨_, rfl⟩
    | _ => simp [elemOKr] at h

/-- re-escaping the unescaped token gives the token back when it decodes (RFC 6901) -/
theorem escChars_unescape {r : List Char} (hd : ∃ u, decodeToken r = some u)
    (hs : ∀ x ∈ r, (x == '/') = false) : escChars (ptrUnescape (String.ofList r)).toList = r := by
  obtain ⟨u, hu⟩ := hd
  have he := escChars_of_decode r u hu hs
  rw [← he, ptrUnescape_esc, String.toList_ofList]

/-- **the repaired reader is injective** (D30): whatever `readPointer` accepts, with index tokens
    below 2^53, is read to member names and indices whose token-by-token text is the input -/
theorem ptrOKr_of_idxTokens {s : String} (h : idxTokensOK s = true) : ptrOKr s = true := by
  unfold ptrOKr
  cases hr : readPointer s with
  | err => rfl
  | panic => rfl
  | ok p =>
    simp only
    rw [readPointer_eq] at hr
    by_cases h0 : (s == "") = true
    · rw [if_pos h0] at hr
      simp only [newPathM, newPathM.go] at hr
      injection hr with hr; subst hr
      have : s = "" := by simpa using h0
      subst this; rfl
    · rw [if_neg h0] at hr
      by_cases hsw : s.startsWith "/" = true
      · by_cases hesc : escapesOK s.toList = true
        · simp only [hsw, hesc, Bool.not_true, Bool.false_eq_true, if_false] at hr
          rw [String.startsWith_string_iff] at hsw
          obtain ⟨rest, hrest⟩ := hsw
          have hrest' : s.toList = '/' :: rest := by simpa using hrest.symm
          obtain ⟨hj, hns⟩ := slashToks_spec rest
          have hsplit : (s.splitOn "/").drop 1 = (slashToks rest).map String.ofList := by
            rw [splitOn_slash, hrest', ← hj]
            have := splitOnP_tokens (· == '/') '/' (by simp) (slashToks rest) [] (by simp) hns
            simp only [List.nil_append] at this
            rw [this]; rfl
          have hdec := decode_all_of_escapesOK (slashToks rest) (by rw [hj, ← hrest']; exact hesc)
          have hb : ∀ u ∈ ((s.splitOn "/").drop 1).map ptrUnescape, tokBound u := by
            intro u hu
            have := List.all_eq_true.1 h u hu
            unfold tokBound
            cases hi : indexToken? u with
            | none => trivial
            | some i => rw [hi] at this; simpa using this
          obtain ⟨g1, g2, g3⟩ := go_elemR _ hb
          simp only [newPathM] at hr
          rw [g1] at hr
          injection hr with hr; subst hr
          obtain ⟨s', hs'⟩ := wpL_total g2
          have htl := wpL_ok hs' (idxRange_of_pathOKr g2)
          rw [g3, hsplit, List.map_map, List.flatMap_map] at htl
          have : s'.toList = s.toList := by
            rw [htl, hrest', ← hj]
            apply flatMap_congr'
            intro r hr
            simp only [Function.comp]
            rw [escChars_unescape (hdec r hr) (hns r hr)]
          have hss : s' = s := String.toList_inj.1 this
          subst hss
          rw [g2, hs']
          simp
        · have : escapesOK s.toList = false := by simpa using hesc
          simp only [hsw, this, Bool.not_true, Bool.not_false, Bool.false_eq_true, if_false,
            if_true] at hr
          cases hr
      · have : s.startsWith "/" = false := by simpa using hsw
        simp only [this, Bool.not_false, if_true] at hr
        cases hr


/-- **T1 after the repair D30**: `readPatchOps_never_more_permissive` WITHOUT the hypothesis
    `canonPtr` on the spelling of the pointer texts. What remains is `idxTokensOK o.path` (Bool):
    every reference token that IS an RFC 6901 array index is below 2^53. Tokens such as `01`, `+1`,
    `-1`, `-0`, `007`, the empty token, escaped names are all covered: they are member names for jd
    and for RFC 6902 alike. -/
theorem readPatchOps_never_more_permissive_all_pointers (L : FloatLaws) (F : FloatEq0)
    {ops : List PatchOp} {d : Diff} {t r : Json} (hw : t.wf = true) (hl : t.listDoc = true)
    (hv : ∀ o ∈ ops, valueOK o.value = true) (hidx : ∀ o ∈ ops, idxTokensOK o.path = true)
    (hread : readPatchOps ops = .ok d) (hrange : ∀ h ∈ d, HunkRange h)
    (hp : patchM t d = .ok r) :
    ∃ r', eval t (ops.map PatchOp.toSpec) = some r' ∧ untag r' = untag r :=
  readPatchOps_never_more_permissive_r L F hw hl hv (fun o ho => ptrOKr_of_idxTokens (hidx o ho))
    hread hrange hp

/-- T1a without `canonPtr`: what the reader accepts is a fixed point of read-then-write, where
    "write" is `rerender` (jd's layout with the pointer writer `wpL`, which does not refuse
    number-like member names) -/
theorem readPatchOps_faithful_all_pointers (F : FloatEq0) {ops : List PatchOp} {d : Diff}
    (hv : ∀ o ∈ ops, o.value.isVoid = false) (hidx : ∀ o ∈ ops, idxTokensOK o.path = true)
    (hread : readPatchOps ops = .ok d)
    (happ : ∀ h ∈ d, lastIdx? h.path = some (-1) → h.remove = []) : Faithful d ops :=
  readPatchOps_faithful_r F hv (fun o ho => ptrOKr_of_idxTokens (hidx o ho)) hread happ

/-- from the entry point, without `canonPtr` -/
theorem readPatchDoc_never_more_permissive_all_pointers (L : FloatLaws) (F : FloatEq0) {doc : Json}
    {ops : List PatchOp} {d : Diff} {t r : Json} (hw : t.wf = true) (hl : t.listDoc = true)
    (hdw : doc.wf = true) (hdl : doc.listDoc = true) (hdv : Yaml.voidFree doc = true)
    (hdoc : patchOpsOfJson doc = .ok ops) (hidx : ∀ o ∈ ops, idxTokensOK o.path = true)
    (hread : readPatchDoc doc = .ok d) (hrange : ∀ h ∈ d, HunkRange h)
    (hp : patchM t d = .ok r) :
    ∃ r', eval t (ops.map PatchOp.toSpec) = some r' ∧ untag r' = untag r := by
  rw [readPatchDoc_of_ops hdoc] at hread
  exact readPatchOps_never_more_permissive_all_pointers L F hw hl
    (patchOpsOfJson_values hdoc hdw hdl hdv) hidx hread hrange hp

/-- the range hypothesis in minimal form: the index tokens of the operations and the index of the
    after-context line of every element read are below 2^53 -/
theorem readPatchOps_never_more_permissive_all_pointers_min (L : FloatLaws) (F : FloatEq0)
    {ops : List PatchOp} {d : Diff} {t r : Json} (hw : t.wf = true) (hl : t.listDoc = true)
    (hv : ∀ o ∈ ops, valueOK o.value = true) (hidx : ∀ o ∈ ops, idxTokensOK o.path = true)
    (hread : readPatchOps ops = .ok d)
    (hafter : ∀ h ∈ d, ∀ i, lastIdx? h.path = some i → i + (h.remove.length : Int) < 2 ^ 53)
    (hp : patchM t d = .ok r) :
    ∃ r', eval t (ops.map PatchOp.toSpec) = some r' ∧ untag r' = untag r := by
  have hc : ∀ o ∈ ops, ptrOKr o.path = true := fun o ho => ptrOKr_of_idxTokens (hidx o ho)
  have hpok := readPatchOps_pathOKr F (fun o ho => valueOK_not_void (hv o ho)) hc hread
  exact readPatchOps_never_more_permissive_r L F hw hl hv hc hread
    (fun h hm => hunkRange_of_pathOKr (hpok h hm) (hafter h hm)) hp

/-- every hypothesis of the theorem without `canonPtr` as ONE executable predicate -/
def checkedPatchAll (ops : List PatchOp) : Bool :=
  ops.all (fun o => valueOK o.value && idxTokensOK o.path) &&
  (match readPatchOps ops with
   | .ok d => d.all hunkRangeB
   | _ => false)

theorem checkedPatchAll_never_more_permissive (L : FloatLaws) (F : FloatEq0) {ops : List PatchOp}
    {t : Json} (hf : checkedPatchAll ops = true) (hw : t.wf = true) (hl : t.listDoc = true) :
    ∃ d, readPatchOps ops = .ok d ∧
      ∀ r, patchM t d = .ok r →
        ∃ r', eval t (ops.map PatchOp.toSpec) = some r' ∧ untag r' = untag r := by
  simp only [checkedPatchAll, Bool.and_eq_true] at hf
  obtain ⟨hv, hf⟩ := hf
  cases hread : readPatchOps ops with
  | err => rw [hread] at hf; cases hf
  | panic => rw [hread] at hf; cases hf
  | ok d =>
    rw [hread] at hf
    refine ⟨d, rfl, fun r hp => ?_⟩
    have hv' := List.all_eq_true.1 hv
    simp only [Bool.and_eq_true] at hv'
    exact readPatchOps_never_more_permissive_all_pointers L F hw hl (fun o ho => (hv' o ho).1)
      (fun o ho => (hv' o ho).2) hread
      (fun h hm => hunkRangeB_sound (List.all_eq_true.1 hf h hm)) hp

/-! ## 10. non-vacuity: concrete patches satisfying every hypothesis -/

/-! ### example 0: a pointer outside `canonPtr` through the theorem without `canonPtr` -/

/-- `idxTokensOK` on a text `/t₁/t₂…` given by its raw tokens -/
theorem idxTokensOK_of_toks {s : String} {toks : List String}
    (h : s.toList = toks.flatMap (fun t => '/' :: t.toList))
    (hns : ∀ t ∈ toks, ∀ x ∈ t.toList, (x == '/') = false) :
    idxTokensOK s = (toks.map ptrUnescape).all (fun u =>
      match indexToken? u with
      | some i => decide (i < 2 ^ 53)
      | none => true) := by
  unfold idxTokensOK
  rw [splitOn_slash, h]
  have := splitOnP_tokens (· == '/') '/' (by simp) (toks.map String.toList) [] (by simp)
    (by
      intro t' ht' x hx
      obtain ⟨t'', h1, rfl⟩ := List.mem_map.1 ht'
      exact hns t'' h1 x hx)
  simp only [List.nil_append, List.flatMap_map] at this
  rw [this]
  simp only [List.map_cons, List.drop_succ_cons, List.drop_zero, List.map_map]
  congr 1
  apply List.map_congr_left
  intro a _
  simp [Function.comp]

theorem idxTokensOK_01 : idxTokensOK "/01" = true := by
  rw [idxTokensOK_of_toks (toks := ["01"]) (by decide) (by decide)]
  decide

/-- non-vacuity of the theorem without `canonPtr`: the former witness pointer slash-zero-one, on the
    object `{}` (jd and RFC 6902 both add the member `01`) -/
theorem ex_all_pointers (L : FloatLaws) (F : FloatEq0) :
    ∃ r r', patchM (.obj []) w4Diff = .ok r ∧
      eval (.obj []) (w4Ops.map PatchOp.toSpec) = some r' ∧ untag r' = untag r := by
  obtain ⟨r, hr, _⟩ := w4_patch_obj
  have hv : ∀ o ∈ w4Ops, valueOK o.value = true := by
    intro o ho
    simp only [w4Ops, adp, List.mem_cons, List.not_mem_nil, or_false] at ho
    subst ho; decide
  have hi : ∀ o ∈ w4Ops, idxTokensOK o.path = true := by
    intro o ho
    simp only [w4Ops, adp, List.mem_cons, List.not_mem_nil, or_false] at ho
    subst ho; exact idxTokensOK_01
  obtain ⟨r', h1, h2⟩ := readPatchOps_never_more_permissive_all_pointers L F (t := .obj [])
    (by decide) (by decide) hv hi w4_accepted fixed_canonical_pointers_witness.2.1 hr
  exact ⟨r, r', hr, h1, h2⟩



/-! ### example A (both theorems): a replacement with both context lines -/

def exHunk : Hunk :=
  { path := [.idx 1], before := [.str "a"], after := [.str "c"], remove := [.str "b"], add := [.str "x"] }
def exDiff : Diff := [exHunk]
def exOps : List PatchOp :=
  [tst "/0" (.str "a"), tst "/2" (.str "c"), tst "/1" (.str "b"), rmv "/1" (.str "b"), adp "/1" (.str "x")]
def exDoc : Json := .arr .raw [.str "a", .str "b", .str "c"]

theorem ex_rerender : rerender exDiff = .ok exOps := by
  have : renderPatchHunk exHunk = .ok exOps := by
    rw [renderPatchHunk_eq]
    simp [renderPatchHunk', exHunk, ctxOps, remOpsOf, addOpsOf, Json.isVoid, lastIdx?, setLastIdx, wpp_0,
      wpp_1, wpp_2, exOps, tst, rmv, adp]
    rfl
  have hk : keysOK exHunk.path := by intro k hk; simp [exHunk] at hk
  simp [rerender, exDiff, rerenderHunk, renderPatchHunkW_wpL hk, this]
  simp [exHunk, lastIdx?]


theorem ex_normG : exDiff.map normG = exDiff := by
  simp [exDiff, normG, exHunk, lastIdx?, normH, realCtx, normCtx, Json.isVoid]

theorem ex_values : ∀ o ∈ exOps, valueOK o.value = true := by
  intro o ho
  simp only [exOps, tst, rmv, adp, List.mem_cons, List.not_mem_nil, or_false] at ho
  rcases ho with rfl | rfl | rfl | rfl | rfl <;> decide

theorem ex_gwf : Gwf exDiff = true := by decide

theorem ex_patch : ∃ r, patchM exDoc exDiff = .ok r ∧ untag r = .arr .raw [.str "a", .str "x", .str "c"] := by
  have : applyStrictAll exDoc exDiff = some (.arr .raw [.str "a", .str "x", .str "c"]) := by
    simp [applyStrictAll, applyStrict, exDoc, exDiff, exHunk, splice, prefixEq, beforeOk, afterOk,
      specEq, equivB]
  obtain ⟨r, h1, h2⟩ := patchM_of_ref (by decide) (by decide) this
  exact ⟨r, h1, by rw [h2]; simp [untag, untagList]⟩

/-- non-vacuity of `grammar_never_more_permissive_partial` (and through it of
    `read_patch_never_more_permissive`): every hypothesis holds for `exDiff`, `exOps`, `exDoc`, jd
    reads the five operations into one hunk, applies it, and the RFC 6902 evaluation agrees -/
example (L : FloatLaws) :
    readPatchLoop (exOps.length + 1) exOps [] = .ok exDiff ∧
    ∃ r r', patchM exDoc exDiff = .ok r ∧
      eval exDoc (exOps.map PatchOp.toSpec) = some r' ∧ untag r' = untag r := by
  have h := grammar_never_more_permissive_partial L (t := exDoc) ex_gwf ex_rerender ex_values (by decide) (by decide)
  rw [ex_normG] at h
  obtain ⟨r, hr, _⟩ := ex_patch
  obtain ⟨r', h1, h2⟩ := h.2 r hr
  exact ⟨h.1, r, r', hr, h1, h2⟩


theorem cp_0 : canonPtr "/0" = true := canonPtr_of_write (p := [.idx 0]) (by decide) wpp_0
theorem cp_1 : canonPtr "/1" = true := canonPtr_of_write (p := [.idx 1]) (by decide) wpp_1
theorem cp_2 : canonPtr "/2" = true := canonPtr_of_write (p := [.idx 2]) (by decide) wpp_2

theorem ex_canon : ∀ o ∈ exOps, canonPtr o.path = true := by
  intro o ho
  simp only [exOps, tst, rmv, adp, List.mem_cons, List.not_mem_nil, or_false] at ho
  rcases ho with rfl | rfl | rfl | rfl | rfl <;> first | exact cp_0 | exact cp_1 | exact cp_2

theorem ex_renderHunk : renderPatchHunk exHunk = .ok exOps := by
  rw [renderPatchHunk_eq]
  simp [renderPatchHunk', exHunk, ctxOps, remOpsOf, addOpsOf, Json.isVoid, lastIdx?, setLastIdx, wpp_0,
    wpp_1, wpp_2, exOps, tst, rmv, adp]
  rfl

theorem ex_render : renderPatchOps exDiff = .ok exOps := by
  simp [exDiff, renderPatchOps, ex_renderHunk]
  rfl

theorem ex_pbwf : PBwf exDiff = true := by decide

theorem ex_readOps (L : FloatLaws) (F : FloatEq0) : readPatchOps exOps = .ok exDiff := by
  have := readPatchOps_rerender L F exDiff ex_gwf exOps ex_rerender
  rwa [ex_normG] at this

theorem ex_range : ∀ h ∈ exDiff, HunkRange h := by
  intro h hm
  rw [← ex_normG] at hm
  obtain ⟨h0, hm0, rfl⟩ := List.mem_map.1 hm
  exact hunkRange_normG (List.all_eq_true.1 (by decide : exDiff.all GH = true) h0 hm0)

/-- non-vacuity of the MAIN theorem `readPatchOps_never_more_permissive` (and of
    `readPatchOps_faithful`, `readPatchOps_rerender` through it): every hypothesis holds for `exOps`
    (real values, canonical pointers, ACCEPTED by the reader after the fix, indices in range), jd
    applies what it read to `exDoc`, and the RFC 6902 evaluation agrees -/
example (L : FloatLaws) (F : FloatEq0) :
    readPatchOps exOps = .ok exDiff ∧
    ∃ r r', patchM exDoc exDiff = .ok r ∧
      eval exDoc (exOps.map PatchOp.toSpec) = some r' ∧ untag r' = untag r := by
  obtain ⟨r, hr, _⟩ := ex_patch
  obtain ⟨r', h1, h2⟩ := readPatchOps_never_more_permissive L F (t := exDoc) (by decide) (by decide)
    ex_values ex_canon (ex_readOps L F) ex_range hr
  exact ⟨ex_readOps L F, r, r', hr, h1, h2⟩

/-- non-vacuity of `grammar_never_more_permissive` and `checkedPatch_never_more_permissive` -/
example (L : FloatLaws) (F : FloatEq0) :
    checkedPatch exOps = true ∧ readPatchOps exOps = .ok (exDiff.map normG) :=
  ⟨grammar_checkedPatch L F ex_gwf ex_rerender ex_values,
   (grammar_never_more_permissive L F (t := exDoc) ex_gwf ex_rerender ex_values (by decide) (by decide)).1⟩

/-- non-vacuity of `readPatchOps_render` and `readPatchOps_render_patch` (jd's own output for a diff
    of the parse-back domain, read by the reader after the fix, applied to `a`, gives `b`) -/
example (L : FloatLaws) (F : FloatEq0) :
    readPatchOps exOps = .ok (normPB exDiff) ∧
    ∃ d' r, readPatchOps exOps = .ok d' ∧ patchM exDoc d' = .ok r ∧
      untag r = untag (.arr .raw [.str "a", .str "x", .str "c"]) := by
  refine ⟨readPatchOps_render L F exDiff ex_pbwf exOps ex_render, ?_⟩
  have hab : applyStrictAll exDoc exDiff = some (.arr .raw [.str "a", .str "x", .str "c"]) := by
    simp [applyStrictAll, applyStrict, exDoc, exDiff, exHunk, splice, prefixEq, beforeOk, afterOk,
      specEq, equivB]
  exact readPatchOps_render_patch L F exDiff ex_pbwf (by decide) (by decide) exOps ex_render
    exDoc _ (by decide) hab


/-! ### example B (`read_patch_never_more_permissive`): an object member, the `remove` carrying a
    value that differs from the tested one in its array tag only -/

theorem rp_k : readPointer "/k" = .ok [.key "k"] := by
  rw [readPointer_of_toks (toks := ["k"]) (by simp) (by decide) (by decide) (by decide)]
  simp only [List.map_cons, List.map_nil, show ptrUnescape "k" = "k" by decide,
    tokJson_of_key (t := "k") (by decide) (by decide), newPathM, newPathM.go]

theorem wpp_k : writePointerPath [.key "k"] = .ok "/k" := by
  rw [writePointerPath_cons, writePointerPath_nil]
  have : wtok (.key "k") = some "k" := by decide
  rw [this]; rfl

def exBOps : List PatchOp := [tst "/k" (.arr .raw []), rmv "/k" (.arr .list [])]
def exBDiff : Diff := [{ path := [.key "k"], remove := [.arr .raw []] }]
def exBDoc : Json := .obj [("k", .arr .raw [])]

theorem exB_read : readPatchLoop (exBOps.length + 1) exBOps [] = .ok exBDiff := by
  simp [exBOps, exBDiff, readPatchLoop, readPatchHunk, setPatchCtx, lastIdxOfPointer, rp_k, lastIdx?,
    tst, rmv, equals, effTag, dispatchTag, Json.dispatch, equalsList]

theorem exB_faithful : Faithful exBDiff exBOps := by
  refine ⟨[tst "/k" (.arr .raw []), rmv "/k" (.arr .raw [])], ?_, ?_⟩
  · have : renderPatchHunk { path := [.key "k"], remove := [.arr .raw []] }
        = .ok [tst "/k" (.arr .raw []), rmv "/k" (.arr .raw [])] := by
      rw [renderPatchHunk_eq]
      simp [renderPatchHunk', ctxOps, remOpsOf, addOpsOf, Json.isVoid, wpp_k, tst, rmv]
      rfl
    have hk : keysOK ({ path := [.key "k"], remove := [.arr .raw []] } : Hunk).path := by
      intro k hk
      simp only [List.mem_singleton, PathElem.key.injEq] at hk
      subst hk; exact ⟨by decide, by decide⟩
    simp [rerender, exBDiff, rerenderHunk, lastIdx?, renderPatchHunkW_wpL hk, this]
  · exact .cons (OpSim.refl _) (.cons ⟨rfl, rfl, fun h => absurd rfl h⟩ .nil)

theorem exB_range : ∀ h ∈ exBDiff, HunkRange h := by
  intro h hm
  simp only [exBDiff, List.mem_singleton] at hm
  subst hm
  exact ⟨by intro i hi; simp at hi, by intro i hi; simp [lastIdx?] at hi⟩

theorem exB_patch : ∃ r, patchM exBDoc exBDiff = .ok r ∧ untag r = .obj [] := by
  have : applyStrictAll exBDoc exBDiff = some (.obj []) := by
    simp [applyStrictAll, applyStrict, exBDoc, exBDiff, alookup, specEq, equivB, single,
      Json.singleValue, Json.isVoid, aerase, equivList, dispatchTag]
  obtain ⟨r, h1, h2⟩ := patchM_of_ref (by decide) (by decide) this
  exact ⟨r, h1, by rw [h2]; simp [untag, untagKvs]⟩

/-- non-vacuity of `read_patch_never_more_permissive`, with a `remove` whose value member is not the
    tested value (`OpSim` is not the identity here); no float law is needed to READ this patch -/
example (L : FloatLaws) : ∃ r r', patchM exBDoc exBDiff = .ok r ∧
    eval exBDoc (exBOps.map PatchOp.toSpec) = some r' ∧ untag r' = untag r := by
  obtain ⟨r, hr, _⟩ := exB_patch
  have hv : ∀ o ∈ exBOps, valueOK o.value = true := by
    intro o ho
    simp only [exBOps, tst, rmv, List.mem_cons, List.not_mem_nil, or_false] at ho
    rcases ho with rfl | rfl <;> decide
  obtain ⟨r', h1, h2⟩ := read_patch_never_more_permissive L (t := exBDoc) (by decide) (by decide) hv
    exB_read exB_faithful exB_range hr
  exact ⟨r, r', hr, h1, h2⟩


theorem cp_k : canonPtr "/k" = true := canonPtr_of_write (p := [.key "k"]) (by decide) wpp_k

/-- the reader after the fix accepts example B (no context operations, nothing to check) -/
theorem exB_readOps : readPatchOps exBOps = .ok exBDiff := by
  have h2 : readPatchCtxLoop (exBOps.length + 1) exBOps [] [] = .ok [{}] := by
    simp [exBOps, readPatchCtxLoop, readPatchHunk, setPatchCtx, lastIdxOfPointer, rp_k, lastIdx?,
      tst, rmv, equals, effTag, dispatchTag, Json.dispatch, equalsList, ctxOf]
  simp only [readPatchOps, exB_read, h2]
  simp [exBDiff, checkPatchCtxs, checkPatchCtx]

/-- non-vacuity of `readPatchOps_never_more_permissive` OUTSIDE the grammar `Gwf`: the `remove`
    carries a value that is not identical to the tested one -/
example (L : FloatLaws) (F : FloatEq0) : ∃ r r', patchM exBDoc exBDiff = .ok r ∧
    eval exBDoc (exBOps.map PatchOp.toSpec) = some r' ∧ untag r' = untag r := by
  obtain ⟨r, hr, _⟩ := exB_patch
  have hv : ∀ o ∈ exBOps, valueOK o.value = true := by
    intro o ho
    simp only [exBOps, tst, rmv, List.mem_cons, List.not_mem_nil, or_false] at ho
    rcases ho with rfl | rfl <;> decide
  have hc : ∀ o ∈ exBOps, canonPtr o.path = true := by
    intro o ho
    simp only [exBOps, tst, rmv, List.mem_cons, List.not_mem_nil, or_false] at ho
    rcases ho with rfl | rfl <;> exact cp_k
  obtain ⟨r', h1, h2⟩ := readPatchOps_never_more_permissive L F (t := exBDoc) (by decide) (by decide)
    hv hc exB_readOps exB_range hr
  exact ⟨r, r', hr, h1, h2⟩


/-! ### example C (`grammar_never_more_permissive_partial`): two values appended to a member array -/

theorem wpp_l_append : writePointerPath [.key "l", .idx (-1)] = .ok "/l/-" := by
  rw [writePointerPath_cons, wpp_append]
  have : wtok (.key "l") = some "l" := by decide
  rw [this]; rfl

def exCDiff : Diff := [{ path := [.key "l", .idx (-1)], add := [.str "x", .str "y"] }]
def exCOps : List PatchOp := [adp "/l/-" (.str "x"), adp "/l/-" (.str "y")]
def exCDoc : Json := .obj [("l", .arr .raw [.str "a"])]

theorem exC_rerender : rerender exCDiff = .ok exCOps := by
  simp [rerender, exCDiff, rerenderHunk, lastIdx?, wpL_of_write wpp_l_append, exCOps]

theorem exC_gwf : Gwf exCDiff = true := by decide

theorem exC_normG : exCDiff.map normG = exCDiff := by
  simp [exCDiff, normG, lastIdx?]

theorem exC_patch : ∃ r, patchM exCDoc exCDiff = .ok r ∧
    untag r = .obj [("l", .arr .raw [.str "a", .str "x", .str "y"])] := by
  have : applyStrictAll exCDoc exCDiff = some (.obj [("l", .arr .raw [.str "a", .str "x", .str "y"])]) := by
    simp [applyStrictAll, applyStrict, exCDoc, exCDiff, alookup, splice, ainsert, Json.isVoid]
  obtain ⟨r, h1, h2⟩ := patchM_of_ref (by decide) (by decide) this
  exact ⟨r, h1, by rw [h2]; simp [untag, untagKvs, untagList]⟩

/-- non-vacuity on an append hunk with two values (outside the domain of JdProofs.PatchParseBack
    and of C09's `HunkOK`): read as ONE hunk, applied, and RFC 6902 agrees -/
example (L : FloatLaws) :
    readPatchLoop (exCOps.length + 1) exCOps [] = .ok exCDiff ∧
    ∃ r r', patchM exCDoc exCDiff = .ok r ∧
      eval exCDoc (exCOps.map PatchOp.toSpec) = some r' ∧ untag r' = untag r := by
  have hv : ∀ o ∈ exCOps, valueOK o.value = true := by
    intro o ho
    simp only [exCOps, adp, List.mem_cons, List.not_mem_nil, or_false] at ho
    rcases ho with rfl | rfl <;> decide
  have h := grammar_never_more_permissive_partial L (t := exCDoc) exC_gwf exC_rerender hv (by decide) (by decide)
  rw [exC_normG] at h
  obtain ⟨r, hr, _⟩ := exC_patch
  obtain ⟨r', h1, h2⟩ := h.2 r hr
  exact ⟨h.1, r, r', hr, h1, h2⟩


theorem cp_l_append : canonPtr "/l/-" = true :=
  canonPtr_of_write (p := [.key "l", .idx (-1)]) (by decide) wpp_l_append

/-- … and with the reader after the fix, through the main theorem: two values appended with `-` -/
example (L : FloatLaws) (F : FloatEq0) :
    readPatchOps exCOps = .ok exCDiff ∧
    ∃ r r', patchM exCDoc exCDiff = .ok r ∧
      eval exCDoc (exCOps.map PatchOp.toSpec) = some r' ∧ untag r' = untag r := by
  have hv : ∀ o ∈ exCOps, valueOK o.value = true := by
    intro o ho
    simp only [exCOps, adp, List.mem_cons, List.not_mem_nil, or_false] at ho
    rcases ho with rfl | rfl <;> decide
  have hc : ∀ o ∈ exCOps, canonPtr o.path = true := by
    intro o ho
    simp only [exCOps, adp, List.mem_cons, List.not_mem_nil, or_false] at ho
    rcases ho with rfl | rfl <;> exact cp_l_append
  have hread : readPatchOps exCOps = .ok exCDiff := by
    have := readPatchOps_rerender L F exCDiff exC_gwf exCOps exC_rerender
    rwa [exC_normG] at this
  have hrange : ∀ h ∈ exCDiff, HunkRange h := by
    intro h hm
    rw [← exC_normG] at hm
    obtain ⟨h0, hm0, rfl⟩ := List.mem_map.1 hm
    exact hunkRange_normG (List.all_eq_true.1 (by decide : exCDiff.all GH = true) h0 hm0)
  obtain ⟨r, hr, _⟩ := exC_patch
  obtain ⟨r', h1, h2⟩ := readPatchOps_never_more_permissive L F (t := exCDoc) (by decide) (by decide)
    hv hc hread hrange hr
  exact ⟨hread, r, r', hr, h1, h2⟩


/-! ### the two forms of the hypothesis on the pointers, on the pointers of the examples and of the
    observations -/

example : canonicalPointer "/0" = true ∧ canonicalPointer "/l/-" = true ∧
    canonicalPointer "/01" = false ∧ canonicalPointer "/-1" = false ∧
    canonicalPointer "/~2" = false := by
  have h : parsePointer "/l/-" = some ["l", "-"] := parsePointer_of_toList (by decide)
  simp only [canonicalPointer, pp_0, pp_01, pp_m1, pp_t2, h]
  decide


/-- non-vacuity of `readPatchOps_never_more_permissive_rfc6901`: the pointers of example A are
    canonical in the RFC 6901 sense, and `1 + |Remove| = 2 < 2^53` -/
example (L : FloatLaws) (F : FloatEq0) : ∃ r r', patchM exDoc exDiff = .ok r ∧
    eval exDoc (exOps.map PatchOp.toSpec) = some r' ∧ untag r' = untag r := by
  have hc : ∀ o ∈ exOps, canonicalPointer o.path = true := by
    intro o ho
    simp only [exOps, tst, rmv, adp, List.mem_cons, List.not_mem_nil, or_false] at ho
    rcases ho with rfl | rfl | rfl | rfl | rfl <;>
      simp only [canonicalPointer, pp_0, pp_1, pp_2] <;> decide
  have hafter : ∀ h ∈ exDiff, ∀ i, lastIdx? h.path = some i →
      i + (h.remove.length : Int) < 2 ^ 53 := by
    intro h hm i hi
    simp only [exDiff, List.mem_singleton] at hm
    subst hm
    simp only [exHunk, lastIdx?, List.getLast?_singleton, Option.some.injEq] at hi
    subst hi
    decide
  obtain ⟨r, hr, _⟩ := ex_patch
  obtain ⟨r', h1, h2⟩ := readPatchOps_never_more_permissive_rfc6901 L F (t := exDoc) (by decide)
    (by decide) ex_values hc (ex_readOps L F) hafter hr
  exact ⟨r, r', hr, h1, h2⟩

/-! ## axioms -/

#print axioms read_patch_never_more_permissive
#print axioms readPatchDoc_never_more_permissive_of_faithful
#print axioms readPatchOps_never_more_permissive
#print axioms readPatchOps_never_more_permissive_rfc6901
#print axioms canonPtr_of_canonicalPointer
#print axioms toList_of_parsePointer
#print axioms readPatchOps_faithful
#print axioms readPatchDoc_never_more_permissive
#print axioms grammar_never_more_permissive
#print axioms checkedPatch_never_more_permissive
#print axioms grammar_checkedPatch
#print axioms readPatchOps_rerender
#print axioms readPatchOps_render
#print axioms readPatchOps_render_patch
#print axioms loops_segs
#print axioms faithfulPatch_never_more_permissive
#print axioms grammar_never_more_permissive_partial
#print axioms readPatch_rerender
#print axioms grammar_faithfulPatch
#print axioms rerender_sim
#print axioms readPatchLoop_props
#print axioms readPatchHunk_shape
#print axioms patchOpsOfJson_values
#print axioms fixed_context_of_another_array
#print axioms fixed_non_test_taken_as_context
#print axioms fixed_context_indices_unchecked
#print axioms fixed_after_context_vs_coalesced_removals
#print axioms fixed_unrestricted_goal_witness
#print axioms loop_alone_context_of_another_array
#print axioms loop_alone_non_test_taken_as_context
#print axioms loop_alone_context_indices_unchecked
#print axioms loop_alone_after_context_vs_coalesced_removals
#print axioms loop_alone_unrestricted_goal_is_false
#print axioms fixed_noncanonical_index_tokens
#print axioms fixed_index_token_reading
#print axioms fixed_invalid_escape_rejected
#print axioms before_repair_readings_applied
#print axioms fixed_pointers_not_canonical
#print axioms fixed_canonical_pointers_witness
#print axioms ptrOKr_of_idxTokens
#print axioms readPatchOps_never_more_permissive_r
#print axioms readPatchOps_never_more_permissive_all_pointers
#print axioms readPatchOps_never_more_permissive_all_pointers_min
#print axioms readPatchOps_faithful_all_pointers
#print axioms readPatchDoc_never_more_permissive_all_pointers
#print axioms checkedPatchAll_never_more_permissive

end Jd.NMP
